(* C13 proofs, part 6: every statement (step) and every deferred task (run_task) keeps `good` and `mono`,
   and never panics at a segment / map site. *)
From Coq Require Import ZArith NArith PeanoNat List Bool Lia ZifyBool ZifyNat ZifyN.
From Trion Require Import Text.Types Expr.I64 Expr.SimplifyModel Expr.EvalModel Expr.ArgLemmas Arm.Instr Arm.EncodeModel
  Mem.MapModel Mem.DictSpec Mem.MapProofs Asm.CtxModel Asm.SegProofs Asm.SegPut Asm.InstrSize Asm.CtxInvDefs Asm.CtxInvSeg.
From Trion Require Arm.AsmStmtModel.
Import ListNotations.
Open Scope N_scope.
Local Notation len := MapModel.len.
Local Notation U32 := MapModel.U32.

(* ---------------------------------------------------------------- the evaluator never panics at a segment site *)
Definition okp (r : ev_res) : Prop := match r with EvPanic p => ~ seg_site p | _ => True end.
Definition okpl (r : evl_res) : Prop := match r with ElPanic p => ~ seg_site p | _ => True end.

Lemma ev_node_okp n ev : okp (ev_node n ev).
Proof. unfold ev_node. destruct (simplify_raw n) as [[a c]|e|s]; cbn; auto. Qed.

Lemma ev_bin_okp op l r rl rr : okp rl -> okp rr -> okp (ev_bin op l r rl rr).
Proof.
  intros Hl Hr. unfold ev_bin. destruct rl; cbn in *; auto. destruct rr; cbn in *; auto. apply ev_node_okp.
Qed.

Lemma ev_un_okp mk r : okp r -> okp (ev_un mk r).
Proof. intros H. unfold ev_un. destruct r; cbn in *; auto. apply ev_node_okp. Qed.

Lemma ev_cons_okp xs rx rxs acc : okp rx -> (forall a, okpl (rxs a)) -> okpl (ev_cons xs rx rxs acc).
Proof.
  intros Hx Hf. unfold ev_cons. destruct rx; cbn in *; auto.
  specialize (Hf (ev_or acc e)). destruct (rxs (ev_or acc e)); cbn in *; auto.
Qed.

Section EvalOk.
  Variable lk : str -> option lookup_res.
  Variable isr : str -> bool.

  Lemma list_okp l : Forall (fun a => okp (evaluate_mut lk isr a)) l -> forall acc,
    okpl ((fix go (l : list arg) (acc : evaluation) : evl_res :=
             match l with [] => ElOk [] acc | x :: xs => ev_cons xs (evaluate_mut lk isr x) (go xs) acc end) l acc).
  Proof.
    induction 1 as [|x xs Hx Hxs IH]; intros acc; [exact I|]. apply ev_cons_okp; [exact Hx|exact IH].
  Qed.

  Lemma evaluate_mut_okp a : okp (evaluate_mut lk isr a).
  Proof.
    induction a using arg_ind'.
    - exact I.
    - cbn. destruct (negb (isr s)); [|exact I]. destruct (lk s) as [[]|]; cbn; auto.
    - exact I.
    - destruct op; cbn [mk_bin evaluate_mut]; apply ev_bin_okp; assumption.
    - cbn [evaluate_mut]. apply ev_un_okp. assumption.
    - cbn [evaluate_mut]. apply ev_un_okp. assumption.
    - cbn [evaluate_mut]. apply ev_un_okp. assumption.
    - cbn [evaluate_mut]. pose proof (list_okp l H (Complete false)) as HL.
      match goal with |- okp (match ?o with _ => _ end) => destruct o end; cbn in *; auto.
    - cbn [evaluate_mut]. pose proof (list_okp l H (Complete false)) as HL.
      match goal with |- okp (match ?o with _ => _ end) => destruct o end; cbn in *; auto.
  Qed.
End EvalOk.

Lemma ctx_eval_okp st a : okp (ctx_eval st a).
Proof. apply evaluate_mut_okp. Qed.

Lemma ctx_eval_panic st a p : ctx_eval st a = EvPanic p -> ~ seg_site p.
Proof. intros H. pose proof (ctx_eval_okp st a) as K. rewrite H in K. exact K. Qed.

Lemma first_panic_ok st l p : first_panic st l = Some p -> ~ seg_site p.
Proof.
  induction l as [|a r IH]; cbn [first_panic]; [discriminate|]. unfold ctx_eval_panics.
  destruct (ctx_eval st a) eqn:E; auto. intros H. inversion H. subst. eapply ctx_eval_panic; eauto.
Qed.

(* ---------------------------------------------------------------- small facts *)
Lemma len_repeatN b n : len (repeatN b n) = N.of_nat n.
Proof. unfold MapModel.len. induction n; cbn [repeatN length]; [reflexivity|]. lia. Qed.
Lemma len_padding n : len (padding n) = n.
Proof. unfold padding. rewrite len_repeatN. lia. Qed.
Lemma len_le_n k v : len (le_n (dk_size k) v) = dk_size k.
Proof. destruct k; reflexivity. Qed.

Lemma arity_same st l c args n st' : arity_check st l c args n = Some st' -> same st st'.
Proof.
  unfold arity_check. destruct (Nat.eqb (length args) n); [discriminate|].
  destruct (Nat.ltb (length args) n); intros H; inversion H; apply same_push.
Qed.

Lemma eval_now_same st l c a x st' : eval_now st l c a = Ret x st' -> same st st'.
Proof.
  unfold eval_now. destruct (ctx_eval st a) as [a' [ch|ch cause]|a' e|p]; intros H; inversion H;
  try apply same_refl; apply same_push.
Qed.
Lemma eval_now_panic st l c a p : eval_now st l c a = Panic p -> ~ seg_site p.
Proof.
  unfold eval_now. destruct (ctx_eval st a) as [a' [ch|ch cause]|a' e|q] eqn:E; try discriminate.
  intros H. inversion H. subst. eapply ctx_eval_panic; eauto.
Qed.
Lemma eval_now_fuel st l c a : eval_now st l c a <> OutOfFuel.
Proof. unfold eval_now. destruct (ctx_eval st a) as [a' [ch|ch cause]|a' e|q]; discriminate. Qed.

Lemma eval_now_post st l c a : good st -> post st (eval_now st l c a).
Proof.
  intros G. destruct (eval_now st l c a) as [x st'|p|] eqn:E; cbn [post]; auto.
  - exact (same_good _ _ (eval_now_same _ _ _ _ _ _ E) G).
  - eapply eval_now_panic; eauto.
Qed.

Lemma u32_of_lt v n : u32_of v = Some n -> n < U32.
Proof.
  unfold u32_of, AsmStmtModel.u32_of. destruct ((0 <=? v)%Z && (v <=? 4294967295)%Z) eqn:E; [|discriminate].
  intros H. inversion H. unfold MapModel.U32. lia.
Qed.

Lemma same_active st st' s : same st st' -> active st = Active s -> active st' = Active s.
Proof. intros (_ & E & _) H. congruence. Qed.

(* write_stmt that reports an error only pushes a diagnostic *)
Lemma write_stmt_some dbg st f l c a d k1 k2 p lv st' : write_stmt dbg st f l c a d k1 k2 p = Ret (Some lv) st' -> same st st'.
Proof.
  assert (P : put_stmt dbg st f l c a d k2 p = Ret (Some lv) st' -> same st st').
  { unfold put_stmt. destruct (map_put dbg (output st) a d) as [[m' [n|]]| |]; try discriminate.
    - destruct (n =? 0); discriminate.
    - intros H. inversion H. apply same_push_in. }
  unfold write_stmt. destruct (active st) as [|s]; [exact P|].
  destruct (covers dbg s a) as [[|]| |]; try discriminate; [|exact P].
  destruct (seg_write_at dbg s a d); try discriminate. intros H. inversion H. apply same_push_in.
Qed.

(* a successful write at the current address allocates exactly the statement's range *)
Lemma write_fresh_alloc dbg st s f l c data ko kp pa st2 : Inv st -> active st = Active s -> blen s < s_max s ->
  write_stmt dbg st f l c (curr_addr s) data ko kp pa = Ret None st2 -> allocated st2 (curr_addr s) (len data).
Proof.
  intros HI EA Hl. rewrite (write_fresh dbg st s f l c data ko kp pa HI EA Hl).
  destruct (blen s + len data <=? s_max s) eqn:Ef; [|discriminate]. intros H. inversion H.
  left. eexists. split; [reflexivity|]. destruct HI as (_ & HA). rewrite EA in HA.
  rewrite (curr_addr_exact _ _ HA Hl). unfold in_active. rewrite blen_set_buf, len_app. cbn [s_base set_buf].
  unfold blen, CtxSeg.len. lia.
Qed.

Lemma has_remaining_spec dbg m s n : SegInv m s -> has_remaining dbg s n = SOk (n <=? s_max s - blen s).
Proof. intros HI. unfold has_remaining. rewrite (remaining_ok dbg m s HI). reflexivity. Qed.

(* ---------------------------------------------------------------- instructions *)
Lemma instr_assemble_inv st ai local :
  match instr_assemble st ai local with
  | Ret (op, ai') st' => same st st' /\ ai_addr ai' = ai_addr ai /\ isz (ai_instr ai') = isz (ai_instr ai)
  | Panic p => ~ seg_site p
  | OutOfFuel => True
  end.
Proof.
  unfold instr_assemble. destruct (first_panic st _) as [p|] eqn:EP; [eapply first_panic_ok; eauto|].
  destruct (AsmStmtModel.assemble_args _ _ _ _ _) as [i a|cause a|d a|] eqn:E.
  - split; [apply same_refl|]. split; [reflexivity|]. cbn [ai_instr]. eapply assemble_args_size; eauto.
  - split; [apply same_refl|]. split; [reflexivity|]. cbn [ai_instr]. apply partial_instr_size.
  - split; [apply same_push_in|]. split; [reflexivity|]. cbn [ai_instr]. apply partial_instr_size.
  - exact (fun f => f).
Qed.

Lemma write_instr_fresh dbg st s ai d : good st -> active st = Active s -> blen s < s_max s -> ai_addr ai = curr_addr s ->
  post st (write_instr dbg st ai d) /\
  (forall st2, write_instr dbg st ai d = Ret None st2 -> allocated st2 (ai_addr ai) (isz (ai_instr ai))).
Proof.
  intros G EA Hl Ea. unfold write_instr. destruct (enc_bytes (ai_instr ai) 4) as [n bytes| |] eqn:E.
  - destruct (enc_bytes_size _ _ _ _ E) as (En & Eb). rewrite Ea. split.
    + apply write_fresh_post; assumption.
    + intros st2 H. apply write_fresh_alloc in H; [|exact (proj1 G)|exact EA|exact Hl].
      destruct d; [rewrite len_padding in H|]; congruence.
  - split; [apply same_post; [apply same_push_in|exact G]|discriminate].
  - split; [apply same_post; [apply same_push_in|exact G]|discriminate].
Qed.

Lemma write_instr_alloc dbg st ai d : good st -> allocated st (ai_addr ai) (isz (ai_instr ai)) ->
  post st (write_instr dbg st ai d).
Proof.
  intros G Ha. unfold write_instr. destruct (enc_bytes (ai_instr ai) 4) as [n bytes| |] eqn:E.
  - destruct (enc_bytes_size _ _ _ _ E) as (En & Eb). pose proof (isz_pos (ai_instr ai)) as (P1 & P2).
    apply write_alloc_post; [exact G| |]; destruct d; rewrite ?len_padding; try congruence; lia.
  - apply same_post; [apply same_push_in|exact G].
  - apply same_post; [apply same_push_in|exact G].
Qed.

Lemma assemble_instr_post dbg st line col name args : good st -> post st (assemble_instr dbg st line col name args).
Proof.
  intros G. unfold assemble_instr. destruct (active st) as [|s] eqn:EA; [exact (fun f => f)|].
  pose proof G as ((HR & HA) & _). rewrite EA in HA.
  rewrite (has_remaining_spec dbg _ _ 2 HA). destruct (2 <=? s_max s - blen s) eqn:Er.
  2:{ apply same_post; [apply same_push|exact G]. }
  assert (Hl : blen s < s_max s) by lia.
  destruct (AsmStmtModel.template name) as [t|]; [|apply same_post; [apply same_push|exact G]].
  set (ai := mkAI (curr_name st) line col (curr_addr s) t (AsmStmtModel.mkAst args 0)).
  pose proof (instr_assemble_inv st ai true) as IA.
  destruct (instr_assemble st ai true) as [[op ai'] st1|p|]; cbn [CtxModel.bind]; [|exact IA|exact I].
  destruct IA as (S1 & A1 & Z1). destruct (same_good _ _ S1 G) as (G1 & M1).
  pose proof (same_active _ _ _ S1 EA) as EA1. cbn [ai_addr ai] in A1.
  destruct (write_instr_fresh dbg st1 s ai' false G1 EA1 Hl A1) as (W1 & _).
  destruct (write_instr_fresh dbg st1 s ai' true G1 EA1 Hl A1) as (W2 & W3).
  eapply post_weaken; [exact M1|].
  assert (D : post st1 (do w, st2 <- write_instr dbg st1 ai' true;
                        match w with
                        | Some l => Ret (Some l) st2
                        | None => do _, st3 <- add_task st2 (InstrTask ai' false) RLocal; Ret None st3
                        end)).
  { destruct (write_instr dbg st1 ai' true) as [w st2|p|] eqn:EW; cbn [CtxModel.bind]; [|exact W2|exact I].
    destruct W2 as (G2 & M2). destruct w as [l|].
    - split; assumption.
    - eapply post_weaken; [exact M2|]. apply post_bind.
      + apply add_task_post; [exact G2|]. unfold task_ok. cbn [task_range]. apply W3. reflexivity.
      + intros _ st3 G3 M3. apply post_ret. exact G3. }
  destruct op; [exact W1|exact D|exact D].
Qed.

(* ---------------------------------------------------------------- .du8 / .du16 / .du32 *)
Lemma data_apply_inv dbg st d local :
  good st ->
  (forall data, len data = dk_size (de_kind d) ->
     post st (write_stmt dbg st (de_file d) (de_line d) (de_col d) (de_addr d) data (KApply ASegOverflow) (KApply ASegWrite) P_put_assert_data)) ->
  match data_apply dbg st d local with
  | Ret (r, d') st1 => good st1 /\ mono st st1 /\ de_addr d' = de_addr d /\ de_kind d' = de_kind d /\
                       (r <> DCompleted -> same st st1)
  | Panic p => ~ seg_site p
  | OutOfFuel => True
  end.
Proof.
  intros G HW. unfold data_apply.
  assert (PE : forall c a', good (push_error_in st (de_file d) (de_line d) (de_col d) c) /\
                         mono st (push_error_in st (de_file d) (de_line d) (de_col d) c) /\
                         de_addr (de_set_arg d a') = de_addr d /\ de_kind (de_set_arg d a') = de_kind d /\
                         (DErr Trivial <> DCompleted -> same st (push_error_in st (de_file d) (de_line d) (de_col d) c))).
  { intros c a'. destruct (same_good st _ (same_push_in st (de_file d) (de_line d) (de_col d) c) G) as (G1 & M1).
    split; [exact G1|]. split; [exact M1|]. split; [reflexivity|]. split; [reflexivity|]. intros _. apply same_push_in. }
  assert (PS : forall r a', good st /\ mono st st /\ de_addr (de_set_arg d a') = de_addr d /\
                            de_kind (de_set_arg d a') = de_kind d /\ (r <> DCompleted -> same st st)).
  { intros r a'. split; [exact G|]. split; [apply mono_refl|]. split; [reflexivity|]. split; [reflexivity|]. intros _. apply same_refl. }
  destruct (ctx_eval st (de_arg d)) as [a' [ch|ch cause]|a' e|p] eqn:E.
  - destruct a' as [v| | | | | | | | | | | | | | | | |]; try apply PE.
    destruct ((0 <=? v)%Z && (v <=? dk_max (de_kind d))%Z); [|apply PE].
    unfold write_data. cbn [de_file de_line de_col de_addr de_set_arg].
    specialize (HW (le_n (dk_size (de_kind d)) (Z.to_N v)) (len_le_n _ _)).
    destruct (write_stmt dbg st _ _ _ _ _ _ _ _) as [w st1|p|] eqn:EW; cbn [CtxModel.bind]; [|exact HW|exact I].
    destruct HW as (G1 & M1). split; [exact G1|]. split; [exact M1|]. split; [reflexivity|]. split; [reflexivity|].
    intros Hne. destruct w as [lv|]; [|congruence]. eapply write_stmt_some; eauto.
  - apply PS.
  - destruct e as [name|e0]; [destruct local|]; [apply PS|apply PE|apply PE].
  - eapply ctx_eval_panic; eauto.
Qed.

Lemma dir_data_post dbg st line col k args : good st -> post st (dir_data dbg st line col k args).
Proof.
  intros G. unfold dir_data. destruct (active st) as [|s] eqn:EA; [apply same_post; [apply same_push|exact G]|].
  pose proof G as ((HR & HA) & _). rewrite EA in HA.
  rewrite (has_remaining_spec dbg _ _ (dk_size k) HA). destruct (dk_size k <=? s_max s - blen s) eqn:Er.
  2:{ apply same_post; [apply same_push|exact G]. }
  assert (Hl : blen s < s_max s) by (destruct k; cbn [dk_size] in Er; lia).
  destruct (arity_check st line col args 1) as [st'|] eqn:EAr; [apply same_post; [eapply arity_same; eauto|exact G]|].
  destruct args as [|a rest]; [exact (fun f => f)|].
  set (d := mkDE k (curr_name st) line col (curr_addr s) a).
  pose proof (data_apply_inv dbg st d true G) as DA.
  destruct (data_apply dbg st d true) as [[r d'] st1|p|]; cbn [CtxModel.bind].
  2:{ apply DA. intros data _. apply write_fresh_post; assumption. }
  2:{ exact I. }
  destruct DA as (G1 & M1 & A1 & K1 & S1). { intros data _. apply write_fresh_post; assumption. }
  assert (D : r <> DCompleted ->
              post st (do w, st2 <- write_data dbg st1 d' (padding (dk_size k));
                       match w with
                       | Some l => Ret (Some l) st2
                       | None => do _, st3 <- add_task st2 (DataTask d' false) RLocal; Ret None st3
                       end)).
  { intros Hne. specialize (S1 Hne). pose proof (same_active _ _ _ S1 EA) as EA1.
    eapply post_weaken; [exact M1|]. unfold write_data. cbn [de_addr d] in A1. rewrite A1.
    pose proof (write_fresh_post dbg st1 s (de_file d') (de_line d') (de_col d') (padding (dk_size k))
                  (KApply ASegOverflow) (KApply ASegWrite) P_put_assert_data G1 EA1 Hl) as W.
    destruct (write_stmt dbg st1 _ _ _ _ _ _ _ _) as [w st2|p|] eqn:EW; cbn [CtxModel.bind]; [|exact W|exact I].
    destruct W as (G2 & M2). destruct w as [l|]; [split; assumption|].
    eapply post_weaken; [exact M2|]. apply post_bind.
    - apply add_task_post; [exact G2|]. unfold task_ok. cbn [task_range]. rewrite A1, K1. cbn [de_kind d].
      apply write_fresh_alloc in EW; [|exact (proj1 G1)|exact EA1|exact Hl]. rewrite len_padding in EW. exact EW.
    - intros _ st3 G3 M3. apply post_ret. exact G3. }
  destruct r; [split; assumption|apply D; discriminate|apply D; discriminate].
Qed.

(* ---------------------------------------------------------------- appends: .align .dstr .dhex .dfile *)
Lemma seg_update_post st s line col r : good st -> active st = Active s ->
  match r with
  | SOk s' => SegInv (output st) s' /\ s_base s' = s_base s /\ blen s <= blen s'
  | SOverflow _ _ => True
  | SPanic _ => False
  end -> post st (seg_update st line col r).
Proof.
  intros G EA H. unfold seg_update. destruct r as [s'|need have|p]; cbn [post].
  - destruct H as (H1 & H2 & H3). eapply active_update_good; eauto.
  - apply same_good; [apply same_push|exact G].
  - destruct H.
Qed.

Lemma seg_write_res dbg m s data : SegInv m s ->
  match seg_write dbg s data with
  | SOk s' => SegInv m s' /\ s_base s' = s_base s /\ blen s <= blen s'
  | SOverflow _ _ => True
  | SPanic _ => False
  end.
Proof.
  intros HI. destruct (blen s + len data <=? s_max s) eqn:Ef.
  - destruct (write_ok dbg m s data HI ltac:(lia)) as (E & HS). rewrite E. split; [exact HS|]. split; [reflexivity|].
    rewrite blen_set_buf, len_app. unfold blen, CtxSeg.len. lia.
  - rewrite (write_overflow dbg m s data HI ltac:(lia)). exact I.
Qed.

Lemma write_chunks_res dbg m cs : forall s, SegInv m s ->
  match write_chunks dbg s cs with
  | SOk s' => SegInv m s' /\ s_base s' = s_base s /\ blen s <= blen s'
  | SOverflow _ _ => True
  | SPanic _ => False
  end.
Proof.
  induction cs as [|c r IH]; intros s HI; cbn [write_chunks].
  - split; [exact HI|]. split; [reflexivity|lia].
  - pose proof (seg_write_res dbg m s c HI) as W. destruct (seg_write dbg s c) as [s1|n h|p]; cbn [sbind]; auto.
    destruct W as (H1 & H2 & H3). specialize (IH s1 H1). destruct (write_chunks dbg s1 r); auto.
    destruct IH as (K1 & K2 & K3). split; [exact K1|]. split; [congruence|lia].
Qed.

Lemma dir_align_post dbg st line col args : good st -> post st (dir_align dbg st line col args).
Proof.
  intros G. unfold dir_align. destruct (active st) as [|s] eqn:EA; [apply same_post; [apply same_push|exact G]|].
  destruct (arity_check st line col args 1) as [st'|] eqn:EAr; [apply same_post; [eapply arity_same; eauto|exact G]|].
  destruct args as [|a rest]; [exact (fun f => f)|].
  destruct (eval_now st line col a) as [x st1|p|] eqn:EE; cbn [CtxModel.bind];
    [|eapply eval_now_panic; eauto|exact I].
  pose proof (eval_now_same _ _ _ _ _ _ EE) as S1. destruct (same_good _ _ S1 G) as (G1 & M1).
  pose proof (same_active _ _ _ S1 EA) as EA1. eapply post_weaken; [exact M1|].
  pose proof G1 as ((HR & HA) & _). rewrite EA1 in HA.
  destruct x as [a'|l]; [|apply post_ret; exact G1].
  destruct a' as [v| | | | | | | | | | | | | | | | |]; try (apply same_post; [apply same_push|exact G1]).
  destruct (u32_of v) as [[|p]|]; try (apply same_post; [apply same_push|exact G1]).
  destruct (curr_addr s mod N.pos p =? 0); [apply post_ret; exact G1|].
  rewrite (has_remaining_spec dbg _ _ _ HA).
  destruct (N.pos p - curr_addr s mod N.pos p <=? s_max s - blen s); [|apply same_post; [apply same_push|exact G1]].
  apply (seg_update_post st1 s); [exact G1|exact EA1|]. apply seg_write_res. exact HA.
Qed.

Lemma dir_bytes_post dbg fs st line col d args : good st -> post st (dir_bytes dbg fs st line col d args).
Proof.
  intros G. unfold dir_bytes. destruct (active st) as [|s] eqn:EA; [apply same_post; [apply same_push|exact G]|].
  pose proof G as ((HR & HA) & _). rewrite EA in HA.
  destruct (arity_check st line col args 1) as [st'|] eqn:EAr; [apply same_post; [eapply arity_same; eauto|exact G]|].
  destruct args as [|a rest]; [exact (fun f => f)|].
  destruct a as [| |v| | | | | | | | | | | | | | |]; try (apply same_post; [apply same_push|exact G]).
  assert (W : forall data, post st (seg_update st line col (seg_write dbg s data))).
  { intros data. apply (seg_update_post st s); [exact G|exact EA|]. apply seg_write_res. exact HA. }
  destruct d; try apply W.
  - destruct (hex_decode v None []); try (apply same_post; [apply same_push|exact G]). apply W.
  - destruct (path_stack st) as [|curr ps]; [exact (fun f => f)|].
    destruct (fs (resolve_path curr v)) as [bytes|]; [|apply same_post; [apply same_push|exact G]].
    rewrite (has_remaining_spec dbg _ _ _ HA).
    destruct (CtxSeg.len bytes <=? s_max s - blen s); [|apply same_post; [apply same_push|exact G]].
    apply (seg_update_post st s); [exact G|exact EA|]. apply write_chunks_res. exact HA.
Qed.

(* ---------------------------------------------------------------- .addr *)
Lemma dir_addr_post dbg st line col args : good st -> post st (dir_addr dbg st line col args).
Proof.
  intros G. unfold dir_addr.
  destruct (arity_check st line col args 1) as [st'|] eqn:EAr; [apply same_post; [eapply arity_same; eauto|exact G]|].
  destruct args as [|a rest]; [exact (fun f => f)|].
  apply post_bind; [apply eval_now_post; exact G|]. intros x st1 G1 M1.
  destruct x as [a'|l]; [|apply post_ret; exact G1].
  destruct a' as [v| | | | | | | | | | | | | | | | |]; try (apply same_post; [apply same_push|exact G1]).
  destruct (u32_of v) as [tgt|] eqn:Eu; [|apply same_post; [apply same_push|exact G1]].
  apply post_bind; [apply change_good; [exact G1|eapply u32_of_lt; eauto]|]. intros c st2 G2 M2.
  destruct c; [apply post_ret; exact G2|apply same_post; [apply same_push|exact G2]].
Qed.

(* ---------------------------------------------------------------- statements that do not touch the segments *)
Ltac post_tac G :=
  repeat match goal with
         | |- post _ (Ret _ (push_error _ _ _ _)) => apply same_post; [apply same_push|assumption]
         | |- post _ (Ret _ (push_error_in _ _ _ _ _)) => apply same_post; [apply same_push_in|assumption]
         | |- post ?st (Ret _ ?st) => apply post_ret; assumption
         | |- post _ (Panic _) => exact (fun f => f)
         | |- post _ (CtxModel.bind _ _) => apply post_bind; [|intros ? ? ? ?]
         | |- post _ (insert_constant _ _ _ _) => apply insert_constant_post; assumption
         | |- post _ (defer_constant _ _ _) => apply defer_constant_post; assumption
         | |- post _ (eval_now _ _ _ _) => apply eval_now_post; assumption
         | |- post _ (add_task _ (GlobalTask _ _ _) _) => apply add_task_post; [assumption|exact I]
         | |- post _ (add_task _ (ImportCheckTask _ _ _) _) => apply add_task_post; [assumption|exact I]
         | |- post ?st (match arity_check ?st ?l ?c ?a ?n with _ => _ end) =>
             let E := fresh "EAr" in
             destruct (arity_check st l c a n) eqn:E; [apply same_post; [exact (arity_same _ _ _ _ _ _ E)|assumption]|]
         | |- post _ (match ?x with _ => _ end) => destruct x
         | |- post _ (if ?c then _ else _) => destruct c
         end.

Lemma dir_const_post st line col args : good st -> post st (dir_const st line col args).
Proof. intros G. unfold dir_const. post_tac G. Qed.

Lemma dir_global_post st line col d args : good st -> post st (dir_global st line col d args).
Proof. intros G. unfold dir_global. post_tac G. Qed.

(* .include: `inc` is Context::assemble one level down *)
Definition inc_ok (inc : state -> list N -> str -> res result) : Prop :=
  forall st data path, good st -> post st (inc st data path).

Lemma dir_include_post fs inc st line col args : inc_ok inc -> good st -> post st (dir_include fs inc st line col args).
Proof.
  intros HI G. unfold dir_include.
  destruct (arity_check st line col args 1) as [st'|] eqn:EAr; [apply same_post; [eapply arity_same; eauto|exact G]|].
  destruct args as [|a rest]; [exact (fun f => f)|].
  destruct a as [| |name| | | | | | | | | | | | | | |]; try (apply same_post; [apply same_push|exact G]).
  destruct (existsb _ (path_stack st)); [apply same_post; [apply same_push|exact G]|].
  destruct (fs _) as [data|]; [|apply same_post; [apply same_push|exact G]].
  apply post_bind; [apply HI; exact G|]. intros r st1 G1 M1. post_tac G1.
Qed.

Lemma process_directive_post dbg fs inc st line col name args : inc_ok inc -> good st ->
  post st (process_directive dbg fs inc st line col name args).
Proof.
  intros HI G. unfold process_directive. destruct (dir_of name) as [[]|].
  - apply dir_addr_post; exact G.
  - apply dir_align_post; exact G.
  - apply dir_const_post; exact G.
  - apply dir_data_post; exact G.
  - apply dir_bytes_post; exact G.
  - apply dir_bytes_post; exact G.
  - apply dir_bytes_post; exact G.
  - apply dir_global_post; exact G.
  - apply dir_global_post; exact G.
  - apply dir_global_post; exact G.
  - apply dir_include_post; assumption.
  - apply same_post; [apply same_push|exact G].
Qed.

(* one statement *)
Theorem step_post dbg fs inc st e : inc_ok inc -> good st -> post st (step dbg fs inc st e).
Proof.
  intros HI G. unfold step. destruct (e_val e) as [name|name args|name args].
  - destruct (active st) as [|s]; [apply same_post; [apply same_push|exact G]|]. post_tac G.
  - apply process_directive_post; assumption.
  - destruct (active st) as [|s] eqn:EA; [apply same_post; [apply same_push|exact G]|].
    apply assemble_instr_post; exact G.
Qed.

Lemma run_items_post dbg fs inc items : inc_ok inc -> forall st, good st -> post st (run_items dbg fs inc items st).
Proof.
  intros HI. induction items as [|it rest IH]; intros st G; cbn [run_items].
  - apply post_ret; exact G.
  - destruct it as [el|pe].
    + apply post_bind; [apply step_post; assumption|]. intros r st1 G1 M1.
      destruct r; [apply post_ret; exact G1|apply IH; exact G1].
    + apply same_post; [apply same_push|exact G].
Qed.

Lemma parse_tail_site data items p : parse_source data = Parsed items (Some (Some p)) -> ~ seg_site p.
Proof.
  unfold parse_source. destruct (TokenModel.unfold_rem _ _) as [[toks tst]|n|].
  - destruct (ParseModel.parse_all _); intros H; inversion H; exact (fun f => f).
  - intros H; inversion H; exact (fun f => f).
  - discriminate.
Qed.

Lemma do_assemble_post dbg fs inc st data : inc_ok inc -> good st -> post st (do_assemble dbg fs inc st data).
Proof.
  intros HI G. unfold do_assemble. destruct (parse_source data) as [items tail] eqn:EP.
  apply post_bind; [apply run_items_post; assumption|]. intros r st1 G1 M1.
  destruct r; [apply post_ret; exact G1|]. destruct tail as [[p|]|].
  - eapply parse_tail_site; eauto.
  - exact I.
  - apply post_ret; exact G1.
Qed.

(* ---------------------------------------------------------------- deferred tasks *)
Theorem run_task_post dbg st t : good st -> task_ok st t -> post st (run_task dbg st t).
Proof.
  intros G Ht. destruct t as [ai global|d global|name line col|name line col]; cbn [run_task].
  - unfold task_ok in Ht. cbn [task_range] in Ht.
    pose proof (instr_assemble_inv st ai false) as IA.
    destruct (instr_assemble st ai false) as [[op ai'] st1|p|]; cbn [CtxModel.bind]; [|exact IA|exact I].
    destruct IA as (S1 & A1 & Z1). destruct (same_good _ _ S1 G) as (G1 & M1).
    eapply post_weaken; [exact M1|].
    assert (Ha : allocated st1 (ai_addr ai') (isz (ai_instr ai'))) by (rewrite A1, Z1; apply M1; exact Ht).
    destruct op as [|cause|l].
    + apply write_instr_alloc; assumption.
    + destruct global; [apply same_post; [apply same_push_in|exact G1]|].
      apply post_bind; [apply add_task_post; [exact G1|exact Ha]|]. intros _ st2 G2 M2. apply post_ret; exact G2.
    + apply post_ret; exact G1.
  - unfold task_ok in Ht. cbn [task_range] in Ht.
    pose proof (data_apply_inv dbg st d false G) as DA.
    destruct (data_apply dbg st d false) as [[r d'] st1|p|]; cbn [CtxModel.bind].
    2:{ apply DA. intros data Hd. apply write_alloc_post; [exact G|rewrite Hd; exact Ht|rewrite Hd; destruct (de_kind d); cbn; lia]. }
    2:{ exact I. }
    destruct DA as (G1 & M1 & A1 & K1 & _).
    { intros data Hd. apply write_alloc_post; [exact G|rewrite Hd; exact Ht|rewrite Hd; destruct (de_kind d); cbn; lia]. }
    eapply post_weaken; [exact M1|].
    destruct r as [|cause|l].
    + apply post_ret; exact G1.
    + destruct global; [apply same_post; [apply same_push_in|exact G1]|].
      apply post_bind; [apply add_task_post; [exact G1|]|].
      * unfold task_ok. cbn [task_range]. rewrite A1, K1. apply M1. exact Ht.
      * intros _ st2 G2 M2. apply post_ret; exact G2.
    + apply post_ret; exact G1.
  - post_tac G.
  - post_tac G.
Qed.

Lemma local_round_post dbg tasks : forall st r, good st -> tasks_ok st tasks -> post st (local_round dbg tasks st r).
Proof.
  induction tasks as [|t rest IH]; intros st r G HT; cbn [local_round].
  - apply post_ret; exact G.
  - inversion HT as [|? ? Ht Hrest]; subst.
    apply post_bind; [apply run_task_post; assumption|]. intros x st1 G1 M1.
    pose proof (tasks_ok_mono _ _ _ M1 Hrest) as Hrest1.
    destruct x as [lvl|]; [|apply IH; assumption].
    destruct (is_fatal lvl); [apply post_ret; exact G1|apply IH; assumption].
Qed.

Lemma set_local_tasks_good st l : good st -> tasks_ok st l -> good (set_local_tasks st (Some l)) /\ mono st (set_local_tasks st (Some l)).
Proof.
  intros (HI & G1 & G2) Hl. destruct (seg_eq_mono st (set_local_tasks st (Some l)) eq_refl eq_refl) as (M & _).
  split; [|exact M]. split; [exact HI|]. split; [eapply tasks_ok_mono; eauto|]. cbn [local_tasks set_local_tasks].
  eapply tasks_ok_mono; eauto.
Qed.

Lemma set_global_tasks_good st l : good st -> tasks_ok st l -> good (set_global_tasks st l) /\ mono st (set_global_tasks st l).
Proof.
  intros (HI & G1 & G2) Hl. destruct (seg_eq_mono st (set_global_tasks st l) eq_refl eq_refl) as (M & _).
  split; [|exact M]. split; [exact HI|]. split; [cbn [global_tasks set_global_tasks]; eapply tasks_ok_mono; eauto|].
  cbn [local_tasks set_global_tasks]. destruct (local_tasks st); [eapply tasks_ok_mono; eauto|exact I].
Qed.

Lemma local_loop_post dbg rounds : forall tasks st r, good st -> tasks_ok st tasks -> post st (local_loop dbg rounds tasks st r).
Proof.
  induction rounds as [|k IH]; intros tasks st r G HT; cbn [local_loop].
  - destruct tasks; [apply post_ret; exact G|exact I].
  - destruct tasks as [|t0 rest0]; [apply post_ret; exact G|].
    apply post_bind; [apply local_round_post; assumption|]. intros r' st1 G1 M1.
    destruct (local_tasks st1) as [newt|] eqn:EL; [|exact (fun f => f)].
    assert (Hn : tasks_ok st1 newt). { destruct G1 as (_ & _ & K). rewrite EL in K. exact K. }
    destruct (set_local_tasks_good st1 [] G1 (Forall_nil _)) as (G2 & M2).
    destruct (res_is_fatal r'); [split; assumption|].
    eapply post_weaken; [exact M2|]. apply IH; [exact G2|]. eapply tasks_ok_mono; eauto.
Qed.

(* ---------------------------------------------------------------- Context::assemble *)
Definition frame_ok (st : state) (fr : frame) : Prop :=
  match f_tasks fr with Some l => tasks_ok st l | None => True end.

Lemma enter_file_good st path : good st ->
  good (fst (enter_file st path)) /\ mono st (fst (enter_file st path)) /\ frame_ok st (snd (enter_file st path)) /\
  (local_tasks st = None <-> f_tasks (snd (enter_file st path)) = None).
Proof.
  intros (HI & G1 & G2). unfold enter_file. cbn [fst snd f_tasks].
  set (st0 := mkState _ _ _ _ _ _ _ _ _).
  destruct (seg_eq_mono st st0 eq_refl eq_refl) as (M & _).
  split; [|split; [exact M|]].
  - split; [exact HI|]. split.
    + cbn [global_tasks st0]. destruct (local_tasks st); eapply tasks_ok_mono; eauto.
    + cbn [local_tasks st0]. constructor.
  - unfold frame_ok. cbn [f_tasks]. destruct (local_tasks st); [|split; [exact I|tauto]].
    split; [exact G1|]. split; discriminate.
Qed.

Lemma leave_file_post st fr : good st -> frame_ok st fr -> post st (leave_file st fr).
Proof.
  intros (HI & G1 & G2) HF. unfold leave_file. destruct (negb _); [exact (fun f => f)|].
  destruct (path_stack st) as [|p stack]; [exact (fun f => f)|]. cbn [post].
  set (st' := mkState _ _ _ _ _ _ _ _ _).
  destruct (seg_eq_mono st st' eq_refl eq_refl) as (M & _).
  split; [|exact M]. split; [exact HI|]. unfold frame_ok in HF. split.
  - cbn [global_tasks st']. destruct (f_tasks fr); eapply tasks_ok_mono; eauto.
  - cbn [local_tasks st']. destruct (f_tasks fr); [eapply tasks_ok_mono; eauto|exact I].
Qed.

Lemma assemble_body_post dbg fs inc st data path : inc_ok inc -> good st -> post st (assemble_body dbg fs inc st data path).
Proof.
  intros HI G. unfold assemble_body.
  destruct (enter_file_good st path G) as (G0 & M0 & F0 & _).
  destruct (enter_file st path) as [st0 fr]. cbn [fst snd] in *.
  eapply post_weaken; [exact M0|].
  assert (F : frame_ok st0 fr). { unfold frame_ok in *. destruct (f_tasks fr); [eapply tasks_ok_mono; eauto|exact I]. }
  apply post_bind; [apply do_assemble_post; assumption|]. intros r st1 G1 M1.
  assert (F1 : frame_ok st1 fr). { unfold frame_ok in *. destruct (f_tasks fr); [eapply tasks_ok_mono; eauto|exact I]. }
  apply post_bind.
  - destruct (res_is_fatal r); [apply post_ret; exact G1|].
    destruct (local_tasks st1) as [tasks|] eqn:EL; [|exact (fun f => f)].
    assert (Hn : tasks_ok st1 tasks). { destruct G1 as (_ & _ & K). rewrite EL in K. exact K. }
    destruct (set_local_tasks_good st1 [] G1 (Forall_nil _)) as (G2 & M2).
    eapply post_weaken; [exact M2|]. apply local_loop_post; [exact G2|]. eapply tasks_ok_mono; eauto.
  - intros r' st2 G2 M2.
    assert (F2 : frame_ok st2 fr). { unfold frame_ok in *. destruct (f_tasks fr); [eapply tasks_ok_mono; eauto|exact I]. }
    apply post_bind; [apply leave_file_post; assumption|]. intros _ st3 G3 M3. apply post_ret; exact G3.
Qed.

Theorem assemble_post dbg fs fuel : forall st data path, good st -> post st (assemble dbg fs fuel st data path).
Proof.
  induction fuel as [|f IH]; intros st data path G; cbn [assemble]; [exact I|].
  apply assemble_body_post; [|exact G]. intros st' data' path' G'. apply IH. exact G'.
Qed.

(* ---------------------------------------------------------------- finalize *)
Lemma final_round_post dbg tasks : forall st, good st -> tasks_ok st tasks -> post st (final_round dbg tasks st).
Proof.
  induction tasks as [|t rest IH]; intros st G HT; cbn [final_round].
  - apply post_ret; exact G.
  - inversion HT as [|? ? Ht Hrest]; subst.
    apply post_bind; [apply run_task_post; assumption|]. intros x st1 G1 M1.
    destruct (res_is_fatal x); [apply post_ret; exact G1|]. apply IH; [exact G1|]. eapply tasks_ok_mono; eauto.
Qed.

Lemma final_loop_post dbg rounds : forall tasks st, good st -> tasks_ok st tasks -> post st (final_loop dbg rounds tasks st).
Proof.
  induction rounds as [|k IH]; intros tasks st G HT; cbn [final_loop].
  - destruct tasks; [apply post_ret; exact G|exact I].
  - destruct tasks as [|t0 rest0]; [apply post_ret; exact G|].
    apply post_bind; [apply final_round_post; assumption|]. intros abort st1 G1 M1.
    assert (Hn : tasks_ok st1 (global_tasks st1)) by (destruct G1 as (_ & K & _); exact K).
    destruct (set_global_tasks_good st1 [] G1 (Forall_nil _)) as (G2 & M2).
    destruct abort; [split; assumption|].
    eapply post_weaken; [exact M2|]. apply IH; [exact G2|]. eapply tasks_ok_mono; eauto.
Qed.

Theorem finalize_post dbg st : good st -> post st (finalize dbg st).
Proof.
  intros G. unfold finalize.
  assert (Hn : tasks_ok st (global_tasks st)) by (destruct G as (_ & K & _); exact K).
  destruct (set_global_tasks_good st [] G (Forall_nil _)) as (G2 & M2).
  apply post_bind.
  - eapply post_weaken; [exact M2|]. apply final_loop_post; [exact G2|]. eapply tasks_ok_mono; eauto.
  - intros abort st1 G1 M1. apply post_ret; exact G1.
Qed.

(* ---------------------------------------------------------------- the pipeline *)
Lemma good_init : good init_state.
Proof. split; [split; [exact I|exact I]|]. split; [constructor|exact I]. Qed.

Theorem pipeline_state_post dbg fs fuel path text : post init_state (pipeline_state dbg fs fuel path text).
Proof.
  unfold pipeline_state.
  apply post_bind; [apply assemble_post; exact good_init|]. intros r st1 G1 M1.
  destruct (close_good dbg st1 G1) as (st2 & b & E & G2 & M2 & _). rewrite E. cbn [CtxModel.bind].
  eapply post_weaken; [exact M2|].
  apply post_bind; [apply finalize_post; exact G2|]. intros ok st3 G3 M3. apply post_ret; exact G3.
Qed.
