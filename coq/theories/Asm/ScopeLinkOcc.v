(* C14, link of the scope oracle to the Context model, part 3: EVERY project of the oracle's language, written as text by
   ScopeText.show_project, is an occurrence (ScopeRefine.occ) of the tree the oracle's own expansion gives it.
   Invariant carried through the run of a file (MidInv): the C13 invariant `good`, a file is open (its own table exists), the
   current file name is the plain name of the file, and the active segment is (base, 4 * k) after k `.du32` statements - so a
   label reads base + 4k, the value the oracle writes into its IDef item (below 2^32: the oracle computes in Z, the model
   saturates at 2^32 - 1).
   occ_of_file: any file of the project, entered in any state that satisfies the invariant, at any include depth;
   occ_of_project: the root, from the initial state.
   Proof file (no model definitions). *)
From Coq Require Import ZArith NArith List Bool Lia ZifyBool ZifyN.
From Trion Require Import Text.Types Text.Render Text.ShowSpec.
From Trion Require Text.ParseModel.
From Trion Require Import Asm.CtxModel Asm.SegProofs Asm.CtxInvDefs Asm.CtxInvStep Asm.CtxInvTop.
From Trion Require Asm.LayoutStep.
From Trion Require Import Asm.ScopeProofs Asm.ScopeProofs2 Asm.ScopeIso Asm.ScopeRefine.
From Trion Require Import Asm.ScopeText Asm.ScopeLink Asm.ScopeLinkSeg.
Import ListNotations.

Local Arguments Z.mul : simpl never.
Local Arguments Z.add : simpl never.
Local Arguments N.mul : simpl never.
Local Arguments N.add : simpl never.

Lemma dir_const_name : dir_of d_const = Some DConst. Proof. reflexivity. Qed.
Lemma dir_global_name : dir_of d_global = Some DGlobal. Proof. reflexivity. Qed.
Lemma dir_import_name : dir_of d_import = Some DImport. Proof. reflexivity. Qed.
Lemma dir_export_name : dir_of d_export = Some DExport. Proof. reflexivity. Qed.
Lemma dir_include_name : dir_of d_include = Some DInclude. Proof. reflexivity. Qed.
Lemma dir_du32_name : dir_of d_du32 = Some (DData DU32). Proof. reflexivity. Qed.
Lemma dir_addr_name : dir_of d_addr = Some DAddr. Proof. reflexivity. Qed.

Section Link.
Variables (dbg : bool) (files : list (str * SP.file)) (base : Z).
Hypothesis Hfiles : forall n b, In (n, b) files -> plain_name n = true /\ forallb stmt_ok b = true.
Hypothesis Hbase : (0 <= base)%Z.

Let fs := fs_of files.
Let baseN := Z.to_N base.

Definition shape (k : N) (s : state) : Prop := seg_sig s = Some (baseN, 4 * k)%N.
Definition MidInv (path : str) (k : N) (s : state) : Prop :=
  good s /\ locals s <> None /\ curr_of s = path /\ shape k s.

(* what every statement keeps *)
Lemma step_generic f s e r s1 : good s -> locals s <> None ->
  step dbg fs (assemble dbg fs f) s e = Ret r s1 -> good s1 /\ locals s1 <> None /\ curr_of s1 = curr_of s.
Proof.
  intros G NL E. pose proof (step_inv dbg fs f s e G) as P. rewrite E in P. destruct P as (G1 & _).
  assert (H1 : Hs ST s s1) by (eapply step_hs; [apply assemble_inc_hs|exact NL| |exact E]; intros; exact I).
  split; [exact G1|]. split; [eapply Hs_locals_some; eauto|].
  destruct H1 as (PS & _). unfold curr_of. rewrite PS. reflexivity.
Qed.

Lemma mid_keep f path k s e s1 : MidInv path k s -> akeep s (step dbg fs (assemble dbg fs f) s e) ->
  step dbg fs (assemble dbg fs f) s e = Ret None s1 -> MidInv path k s1.
Proof.
  intros (G & NL & C & SH) AK E. destruct (step_generic f s e None s1 G NL E) as (G1 & NL1 & C1).
  rewrite E in AK. cbn [akeep] in AK.
  split; [exact G1|]. split; [exact NL1|]. split; [congruence|]. unfold shape. rewrite (seg_sig_eq _ _ AK). exact SH.
Qed.

(* one more statement *)
Lemma run_cons f path e els it its k1 k' s :
  (forall s1, MidInv path k1 s1 ->
     runcorr dbg fs f els its s1 /\
     (forall s', run_items dbg fs (assemble dbg fs f) (map ParseModel.IOk els) s1 = Ret None s' -> MidInv path k' s')) ->
  item_ok dbg fs f e s it ->
  (forall s1, step dbg fs (assemble dbg fs f) s e = Ret None s1 -> MidInv path k1 s1) ->
  runcorr dbg fs f (e :: els) (it :: its) s /\
  (forall s', run_items dbg fs (assemble dbg fs f) (map ParseModel.IOk (e :: els)) s = Ret None s' -> MidInv path k' s').
Proof.
  intros IH IT ST. split.
  - apply rc_cons; [exact IT|]. intros s1 H. apply IH, ST, H.
  - intros s' H. cbn [map run_items] in H. unfold bind in H.
    destruct (step dbg fs (assemble dbg fs f) s e) as [r1 s1| |] eqn:E; try discriminate H.
    destruct r1; [discriminate H|]. eapply IH; [apply ST; reflexivity|exact H].
Qed.

Lemma label_value k k' s sg : good s -> active s = Active sg -> shape k s -> (k <= k')%N ->
  (base + 4 * Z.of_N k' < 4294967296)%Z -> Z.of_N (curr_addr sg) = (base + 4 * Z.of_N k)%Z.
Proof.
  intros ((_ & HA) & _) EA SH LE B. rewrite EA in HA. unfold shape, seg_sig in SH. rewrite EA in SH. inversion SH as [[SB SL]].
  rewrite (LayoutStep.curr_addr_lt _ _ HA); unfold CtxSeg.U32, MapModel.U32; rewrite SB, SL; unfold baseN; lia.
Qed.

(* the property of one expansion depth *)
Definition LinkP (d : nat) : Prop := forall f path body k t k' s,
  plain_name path = true -> forallb stmt_ok body = true ->
  SP.expand d files base body k = Some (t, k') -> (base + 4 * Z.of_N k' < 4294967296)%Z -> good s -> shape k s ->
  occ dbg fs f s (show_file body) path t /\
  (forall s', assemble dbg fs (S f) s (show_file body) path = Ret None s' -> shape k' s').

Lemma run_link d f path : LinkP d -> plain_name path = true -> forall l els its k k' s,
  goL (SP.expand d files base) files base l k = Some (its, k') ->
  map e_val els = map ev_of l -> forallb stmt_ok l = true ->
  (base + 4 * Z.of_N k' < 4294967296)%Z -> MidInv path k s ->
  runcorr dbg fs f els its s /\
  (forall s', run_items dbg fs (assemble dbg fs f) (map ParseModel.IOk els) s = Ret None s' -> MidInv path k' s').
Proof.
  intros IHd Pp. induction l as [|st r IH]; intros els its k k' s G M W B MI.
  - destruct els; [|discriminate M]. cbn [goL] in G. inversion G; subst. split; [apply rc_nil|].
    intros s' H. cbn in H. inversion H; subst. exact MI.
  - destruct els as [|e els]; [discriminate M|]. cbn [map] in M. injection M as Ev M.
    destruct e as [ln c v]. cbn [e_val] in Ev. subst v.
    cbn [forallb] in W. apply andb_prop in W. destruct W as [W0 W].
    assert (MONO : forall k1 its1, goL (SP.expand d files base) files base r k1 = Some (its1, k') -> (k1 <= k')%N).
    { intros k1 its1 G1. eapply goL_mono; [|exact G1]. intros b0 k0 t0 k0'. apply expand_mono. }
    cbn [goL] in G. destruct st; try discriminate G; cbn [ev_of].
    + (* .const *)
      destruct (goL _ _ _ r k) as [[is k2]|] eqn:G1; [|discriminate G]. inversion G; subst.
      apply (run_cons f path _ els _ is k k' s); [intros s1 M1; eapply IH; eauto| |].
      * apply io_const. exact dir_const_name.
      * intros s1. apply mid_keep; [exact MI|]. apply directive_ak. left. exact dir_const_name.
    + (* label *)
      destruct (goL _ _ _ r k) as [[is k2]|] eqn:G1; [|discriminate G]. inversion G; subst.
      destruct MI as (GS & NL & C & SH). pose proof SH as SH0. unfold shape, seg_sig in SH0.
      destruct (active s) as [|sg] eqn:EA; [discriminate SH0|].
      rewrite <- (label_value k k' s sg GS EA SH (MONO _ _ G1) B).
      apply (run_cons f path _ els _ is k k' s); [intros s1 M1; eapply IH; eauto| |].
      * apply io_label. exact EA.
      * intros s1. apply mid_keep; [exact (conj GS (conj NL (conj C SH)))|]. apply label_ak.
    + (* .global *)
      destruct (goL _ _ _ r k) as [[is k2]|] eqn:G1; [|discriminate G]. inversion G; subst.
      apply (run_cons f path _ els _ is k k' s); [intros s1 M1; eapply IH; eauto| |].
      * apply io_global. exact dir_global_name.
      * intros s1. apply mid_keep; [exact MI|]. apply directive_ak. right. left. exact dir_global_name.
    + (* .import *)
      destruct (goL _ _ _ r k) as [[is k2]|] eqn:G1; [|discriminate G]. inversion G; subst.
      apply (run_cons f path _ els _ is k k' s); [intros s1 M1; eapply IH; eauto| |].
      * apply io_import. exact dir_import_name.
      * intros s1. apply mid_keep; [exact MI|]. apply directive_ak. right. right. left. exact dir_import_name.
    + (* .export *)
      destruct (goL _ _ _ r k) as [[is k2]|] eqn:G1; [|discriminate G]. inversion G; subst.
      apply (run_cons f path _ els _ is k k' s); [intros s1 M1; eapply IH; eauto| |].
      * apply io_export. exact dir_export_name.
      * intros s1. apply mid_keep; [exact MI|]. apply directive_ak. right. right. right. exact dir_export_name.
    + (* .include *)
      rename f0 into g.
      destruct (SP.lookup_file files g) as [b|] eqn:LF; [|discriminate G].
      destruct (SP.expand d files base b k) as [[tc k1]|] eqn:EX; [|discriminate G].
      destruct (goL _ _ _ r k1) as [[is k2]|] eqn:G1; [|discriminate G]. inversion G; subst.
      destruct (Hfiles g b (lookup_in _ _ _ LF)) as (Pg & Wb).
      destruct MI as (GS & NL & C & SH).
      assert (RP : resolve_path (curr_of s) g = g) by (rewrite C; apply resolve_plain; assumption).
      assert (B1 : (base + 4 * Z.of_N k1 < 4294967296)%Z) by (pose proof (MONO _ _ G1); lia).
      destruct (IHd (Nat.pred f) g b k tc k1 s Pg Wb EX B1 GS SH) as (OC & POST).
      apply (run_cons f path _ els _ is k1 k' s); [intros s1 M1; eapply IH; eauto| |].
      * apply (io_child dbg fs f ln c d_include g (show_file b)); [exact dir_include_name| |rewrite RP; exact OC].
        rewrite RP. unfold fs, fs_of. rewrite LF. reflexivity.
      * intros s1 E. destruct (step_generic f s _ None s1 GS NL E) as (G1' & NL1 & C1).
        split; [exact G1'|]. split; [exact NL1|]. split; [congruence|].
        destruct (include_inv dbg fs _ s ln c d_include g s1 dir_include_name E) as (data & FD & RUN).
        fold (curr_of s) in FD, RUN. rewrite RP in FD, RUN.
        unfold fs, fs_of in FD. rewrite LF in FD. cbn [option_map] in FD. inversion FD; subst data.
        destruct f as [|f']; [discriminate RUN|]. apply POST. exact RUN.
    + (* .du32 *)
      destruct (goL _ _ _ r (k + 1)%N) as [[is k2]|] eqn:G1; [|discriminate G]. inversion G; subst.
      apply (run_cons f path _ els _ is (k + 1)%N k' s); [intros s1 M1; eapply IH; eauto| |].
      * apply io_use. exact dir_du32_name.
      * intros s1 E. destruct MI as (GS & NL & C & SH).
        destruct (step_generic f s _ None s1 GS NL E) as (G1' & NL1 & C1).
        split; [exact G1'|]. split; [exact NL1|]. split; [congruence|].
        unfold shape, seg_sig in SH. destruct (active s) as [|sg] eqn:EA; [discriminate SH|]. inversion SH as [[SB SL]].
        destruct (use_sig dbg fs _ s sg ln c d_du32 _ s1 GS EA dir_du32_name E) as (sg' & A' & B' & L').
        unfold shape, seg_sig. rewrite A'. f_equal. f_equal; [congruence|lia].
Qed.

Lemma enter_mid path k s : good s -> shape k s -> MidInv path k (fst (enter_file s path)).
Proof.
  intros G SH. destruct (enter_file_good s path G) as (G0 & _).
  split; [exact G0|]. split; [cbn; discriminate|]. split; [reflexivity|exact SH].
Qed.

Lemma LinkP_step d : LinkP d -> LinkP (S d).
Proof.
  intros IHd f path body k t k' s Pp W EX B G SH.
  rewrite expand_S in EX. destruct (goL _ _ _ body k) as [[its k2]|] eqn:GO; [|discriminate EX]. inversion EX; subst.
  destruct (show_file_parse body W) as (els & PS & M).
  destruct (run_link d f path IHd Pp body els its k k' _ GO M W B (enter_mid path k s G SH)) as (RC & POST).
  split.
  - eapply occ_intro; [exact PS| |exact RC].
    intros n FH. apply ups_pos. eapply goL_global; [exact GO|]. eapply hands_items; [exact M|].
    eapply file_hands_items; eauto.
  - intros s' A. cbn [assemble] in A.
    eapply file_sig; [apply assemble_inc_ok|exact G|exact PS| |exact A].
    intros st1 RI. apply POST in RI. apply RI.
Qed.

Theorem LinkP_all : forall d, LinkP d.
Proof. induction d as [|d IH]; [intros f path body k t k' s _ _ EX; discriminate EX|apply LinkP_step; exact IH]. Qed.

(* any file of the project at any include depth, entered in any state in which the segment stands at base + 4k *)
Theorem occ_of_file d f path body k t k' s :
  plain_name path = true -> forallb stmt_ok body = true ->
  SP.expand d files base body k = Some (t, k') -> (base + 4 * Z.of_N k' < 4294967296)%Z -> good s -> shape k s ->
  occ dbg fs f s (show_file body) path t.
Proof. intros. eapply LinkP_all; eauto. Qed.

(* from an instance to the instances it enters: the state in which an `.include` statement of the file is reached (all
   statements before it returned Ok) satisfies the invariant again, for the child tree the oracle put at that place, and every
   value in the includer's table at that moment is one of the oracle's sources of the includer *)
Definition cover (penv : str -> list Z) (g : table) : Prop := forall x w, tbl_get g x = Some (Some w) -> In w (penv x).

Lemma ev_of_include st g : ev_of st = EDirective d_include [AStr g] -> st = SP.SInclude g.
Proof. destruct st; cbn [ev_of]; intros H; try discriminate H; inversion H; reflexivity. Qed.

(* the run of the statements in front of an `.include`, from a state inside the file *)
Lemma prefix_entry d f path lpre g lpost epre its k k' s0 sa :
  plain_name path = true -> forallb stmt_ok lpre = true ->
  goL (SP.expand d files base) files base (lpre ++ SP.SInclude g :: lpost) k = Some (its, k') ->
  map e_val epre = map ev_of lpre -> (base + 4 * Z.of_N k' < 4294967296)%Z -> MidInv path k s0 ->
  run_items dbg fs (assemble dbg fs f) (map ParseModel.IOk epre) s0 = Ret None sa ->
  exists b k1 tc k2 ipre ipost, its = ipre ++ SP.IChild tc :: ipost /\
    SP.lookup_file files g = Some b /\ SP.expand d files base b k1 = Some (tc, k2) /\ (k2 <= k')%N /\
    MidInv path k1 sa /\ runcorr dbg fs f epre ipre s0 /\
    resolve_path (curr_of sa) g = g /\ plain_name g = true /\ forallb stmt_ok b = true /\ fs g = Some (show_file b).
Proof.
  intros Pp Wp GO Mp B MI RUN.
  destruct (goL_app _ _ _ _ _ _ _ _ GO) as (ipre & k1 & irest & G1 & G2 & ->).
  cbn [goL] in G2. destruct (SP.lookup_file files g) as [b|] eqn:LF; [|discriminate G2].
  destruct (SP.expand d files base b k1) as [[tc k2]|] eqn:EXc; [|discriminate G2].
  destruct (goL _ _ _ lpost k2) as [[ipost k3]|] eqn:G3; [|discriminate G2]. inversion G2; subst irest k3.
  assert (MONO : (k2 <= k')%N).
  { eapply goL_mono; [|exact G3]. intros b0 k0 t0 k0'. apply expand_mono. }
  assert (B1 : (base + 4 * Z.of_N k1 < 4294967296)%Z) by (pose proof (expand_mono _ _ _ _ _ _ _ EXc); lia).
  destruct (run_link d f path (LinkP_all d) Pp lpre epre ipre k k1 _ G1 Mp Wp B1 MI) as (RC & POST).
  pose proof (POST sa RUN) as MIa. destruct MIa as (Ga & NLa & Ca & SHa).
  destruct (Hfiles g b (lookup_in _ _ _ LF)) as (Pg & Wb).
  exists b, k1, tc, k2, ipre, ipost. split; [reflexivity|]. split; [reflexivity|]. split; [exact EXc|]. split; [exact MONO|].
  split; [exact (conj Ga (conj NLa (conj Ca SHa)))|]. split; [exact RC|].
  split; [rewrite Ca; apply resolve_plain; assumption|]. split; [exact Pg|]. split; [exact Wb|].
  unfold fs, fs_of. rewrite LF. reflexivity.
Qed.

(* the table of the file at a state reached by its statements: only values the oracle names *)
Lemma prefix_cover f st0 els ipre irest penv sa : runcorr dbg fs f els ipre st0 ->
  locals st0 = Some [] -> cover penv (globals st0) ->
  run_items dbg fs (assemble dbg fs f) (map ParseModel.IOk els) st0 = Ret None sa -> locals sa <> None ->
  cover (SP.sources (SP.Node (ipre ++ irest)) penv) (entry_globals sa).
Proof.
  intros RC L0 CV RUN NLa x w TG.
  assert (SR : forall n v, olook (locals sa) n = Some (Some v) -> src (globals st0) ([] ++ ipre) n v).
  { eapply (run_sound dbg fs f (fun _ => occ_sound dbg fs (Nat.pred f)) st0 els ipre st0 RC [] None sa).
    - rewrite L0. discriminate.
    - apply Hs_refl.
    - rewrite L0. cbn. intros ? ? Q. discriminate Q.
    - exact RUN. }
  unfold entry_globals in TG. destruct (locals sa) as [ta|] eqn:La; [|congruence].
  specialize (SR x w TG). cbn [app] in SR. apply (src_mono _ _ irest) in SR.
  destruct SR as [H|[H Gx]]; unfold SP.sources; apply in_or_app.
  - left. exact H.
  - right. apply in_repeat_app; [exact H|]. apply CV. exact Gx.
Qed.

Lemma split_include body els pre e post g : map e_val els = map ev_of body ->
  map ParseModel.IOk els = pre ++ ParseModel.IOk e :: post -> e_val e = ev_of (SP.SInclude g) ->
  exists epre epost lpre lpost, els = epre ++ e :: epost /\ pre = map ParseModel.IOk epre /\
    body = lpre ++ SP.SInclude g :: lpost /\ map e_val epre = map ev_of lpre.
Proof.
  intros M EI EV. apply map_eq_app in EI. destruct EI as (epre & erest & -> & <- & ER).
  apply map_eq_cons in ER. destruct ER as (e' & epost & -> & E' & _). inversion E'; subst e'.
  rewrite map_app in M. cbn [map] in M. symmetry in M. apply map_eq_app in M. destruct M as (lpre & lrest & -> & Mp & Mr).
  apply map_eq_cons in Mr. destruct Mr as (st & lpost & -> & Es & Mq).
  rewrite EV in Es. apply ev_of_include in Es. subst st.
  exists epre, epost, lpre, lpost. repeat split. symmetry. exact Mp.
Qed.

Lemma child_entry d f path body k t k' s penv pre e post tail g sa :
  plain_name path = true -> forallb stmt_ok body = true ->
  SP.expand (S d) files base body k = Some (t, k') -> (base + 4 * Z.of_N k' < 4294967296)%Z -> good s -> shape k s ->
  cover penv (entry_globals s) ->
  parse_source (show_file body) = Parsed (pre ++ ParseModel.IOk e :: post) tail ->
  e_val e = ev_of (SP.SInclude g) ->
  run_items dbg fs (assemble dbg fs f) pre (fst (enter_file s path)) = Ret None sa ->
  exists b k1 tc k2, SP.lookup_file files g = Some b /\ SP.expand d files base b k1 = Some (tc, k2) /\
    In (SP.IChild tc) (SP.items_of t) /\ (k2 <= k')%N /\
    good sa /\ shape k1 sa /\ resolve_path (curr_of sa) g = g /\ plain_name g = true /\ forallb stmt_ok b = true /\
    fs g = Some (show_file b) /\ cover (SP.sources t penv) (entry_globals sa).
Proof.
  intros Pp W EX B G SH CV PS EV RUN.
  rewrite expand_S in EX. destruct (goL _ _ _ body k) as [[its k2]|] eqn:GO; [|discriminate EX]. inversion EX; subst t k2.
  destruct (show_file_parse body W) as (els & PS' & M). rewrite PS in PS'. inversion PS' as [[EI ET]]. symmetry in EI.
  destruct (split_include body els pre e post g M EI EV) as (epre & epost & lpre & lpost & -> & -> & -> & Mp).
  assert (Wp : forallb stmt_ok lpre = true) by (rewrite forallb_app in W; apply andb_prop in W; apply W).
  destruct (prefix_entry d f path lpre g lpost epre its k k' _ sa Pp Wp GO Mp B (enter_mid path k s G SH) RUN)
    as (b & k1 & tc & k2 & ipre & ipost & -> & LF & EXc & MONO & (Ga & NLa & Ca & SHa) & RC & RP & Pg & Wb & FS).
  exists b, k1, tc, k2. split; [exact LF|]. split; [exact EXc|].
  split; [cbn [SP.items_of]; apply in_or_app; right; left; reflexivity|].
  split; [exact MONO|]. split; [exact Ga|]. split; [exact SHa|]. split; [exact RP|]. split; [exact Pg|]. split; [exact Wb|].
  split; [exact FS|].
  eapply (prefix_cover f _ epre ipre (SP.IChild tc :: ipost) penv sa RC); [reflexivity|exact CV|exact RUN|exact NLa].
Qed.

(* the root file: `.addr base` first, then the expansion from k = 0 *)
Lemma root_mid f root ln c s1 :
  step dbg fs (assemble dbg fs f) (fst (enter_file init_state root)) (mkElement ln c (EDirective d_addr [AConst base])) = Ret None s1 ->
  MidInv root 0 s1.
Proof.
  intros E. set (st0 := fst (enter_file init_state root)) in *.
  assert (G0 : good st0) by (apply enter_file_good, good_init).
  destruct (step_generic f st0 _ None s1 G0 ltac:(cbn; discriminate) E) as (G1 & NL1 & C1).
  destruct (addr_sig dbg fs _ st0 ln c d_addr base s1 eq_refl dir_addr_name E) as (sg & tgt & U & A & SB & SL).
  unfold u32_of, Arm.AsmStmtModel.u32_of in U. destruct (_ && _)%bool; [|discriminate U]. injection U as U1. rewrite <- U1 in SB.
  split; [exact G1|]. split; [exact NL1|]. split; [rewrite C1; reflexivity|].
  unfold shape, seg_sig. rewrite A. f_equal. f_equal; [exact SB|rewrite SL; reflexivity].
Qed.

Lemma root_writable body n : forallb stmt_ok body = true -> (base + 4 * Z.of_N n < 4294967296)%Z ->
  forallb stmt_ok (SP.SAddr base :: body) = true.
Proof.
  intros W B. cbn [forallb]. rewrite W, andb_true_r. unfold stmt_ok, writable_stmt. cbn.
  assert (H : (base + 4 * Z.of_N n < 4294967296)%Z) by exact B. clear - H Hbase. lia.
Qed.

Theorem occ_of_root f root body t n :
  plain_name root = true -> forallb stmt_ok body = true ->
  SP.expand SP.max_depth files base body 0 = Some (t, n) -> (base + 4 * Z.of_N n < 4294967296)%Z ->
  occ dbg fs f init_state (show_file (SP.SAddr base :: body)) root t.
Proof.
  intros Pr W EX B. change SP.max_depth with (S 5) in EX.
  rewrite expand_S in EX. destruct (goL _ _ _ body 0%N) as [[its k2]|] eqn:GO; [|discriminate EX]. inversion EX; subst.
  destruct (show_file_parse _ (root_writable body n W B)) as (els & PS & M).
  destruct els as [|e0 els]; [discriminate M|]. cbn [map] in M. injection M as E0 M.
  destruct e0 as [ln c v]. cbn [e_val ev_of] in E0. subst v.
  eapply occ_intro; [exact PS| |].
  - intros x FH. apply ups_pos. eapply goL_global; [exact GO|].
    assert (HI : In (SP.SGlobal x) (SP.SAddr base :: body) \/ In (SP.SExport x) (SP.SAddr base :: body)).
    { eapply hands_items; [|eapply file_hands_items; eauto]. cbn [map]. f_equal. exact M. }
    destruct HI as [[HI|HI]|[HI|HI]]; try discriminate HI; [left|right]; exact HI.
  - apply rc_skip; [exact dir_addr_name|]. intros s1 E.
    eapply (run_link 5 f root (LinkP_all 5) Pr body els its 0%N n s1 GO M W B). eapply root_mid; exact E.
Qed.

(* the instances the root enters *)
Lemma root_child_entry f root body t n pre e post tail g sa :
  plain_name root = true -> forallb stmt_ok body = true ->
  SP.expand SP.max_depth files base body 0 = Some (t, n) -> (base + 4 * Z.of_N n < 4294967296)%Z ->
  parse_source (show_file (SP.SAddr base :: body)) = Parsed (pre ++ ParseModel.IOk e :: post) tail ->
  e_val e = ev_of (SP.SInclude g) ->
  run_items dbg fs (assemble dbg fs f) pre (fst (enter_file init_state root)) = Ret None sa ->
  exists b k1 tc k2, SP.lookup_file files g = Some b /\ SP.expand 5 files base b k1 = Some (tc, k2) /\
    In (SP.IChild tc) (SP.items_of t) /\ (k2 <= n)%N /\
    good sa /\ shape k1 sa /\ resolve_path (curr_of sa) g = g /\ plain_name g = true /\ forallb stmt_ok b = true /\
    fs g = Some (show_file b) /\ cover (SP.sources t SP.no_env) (entry_globals sa).
Proof.
  intros Pr W EX B PS EV RUN. change SP.max_depth with (S 5) in EX.
  rewrite expand_S in EX. destruct (goL _ _ _ body 0%N) as [[its k2]|] eqn:GO; [|discriminate EX]. inversion EX; subst t k2.
  destruct (show_file_parse _ (root_writable body n W B)) as (els & PS' & M). rewrite PS in PS'. inversion PS' as [[EI ET]].
  symmetry in EI.
  destruct (split_include _ els pre e post g M EI EV) as (epre & epost & lpre0 & lpost & -> & -> & EB & Mp).
  destruct lpre0 as [|s0 lpre]; [discriminate EB|]. cbn [app] in EB. injection EB as <- ->.
  destruct epre as [|e0 epre]; [discriminate Mp|]. cbn [map] in Mp. injection Mp as E0 Mp.
  destruct e0 as [ln c v]. cbn [e_val ev_of] in E0. subst v.
  cbn [map run_items] in RUN. unfold bind in RUN.
  destruct (step dbg fs (assemble dbg fs f) _ _) as [r1 s1| |] eqn:E; try discriminate RUN.
  destruct r1; [discriminate RUN|].
  assert (Wp : forallb stmt_ok lpre = true) by (rewrite forallb_app in W; apply andb_prop in W; apply W).
  destruct (prefix_entry 5 f root lpre g lpost epre its 0%N n s1 sa Pr Wp GO Mp B (root_mid f root ln c s1 E) RUN)
    as (b & k1 & tc & k2 & ipre & ipost & -> & LF & EXc & MONO & (Ga & NLa & Ca & SHa) & RC & RP & Pg & Wb & FS).
  exists b, k1, tc, k2. split; [exact LF|]. split; [exact EXc|].
  split; [cbn [SP.items_of]; apply in_or_app; right; left; reflexivity|].
  split; [exact MONO|]. split; [exact Ga|]. split; [exact SHa|]. split; [exact RP|]. split; [exact Pg|]. split; [exact Wb|].
  split; [exact FS|].
  set (st0 := fst (enter_file init_state root)) in *.
  eapply (prefix_cover f st0 (mkElement ln c (EDirective d_addr [AConst base]) :: epre) ipre (SP.IChild tc :: ipost) SP.no_env sa).
  - apply rc_skip; [exact dir_addr_name|]. intros s1' E'. rewrite E in E'. inversion E'; subst s1'. exact RC.
  - reflexivity.
  - intros x w H. discriminate H.
  - cbn [map run_items]. unfold bind. rewrite E. exact RUN.
  - exact NLa.
Qed.
End Link.

(* ------------------------------------------------------------------ whole projects *)
Lemma project_ok_files p : project_ok p = true ->
  plain_name (SP.p_root p) = true /\
  forall n b, In (n, b) (SP.p_files p) -> plain_name n = true /\ forallb stmt_ok b = true.
Proof.
  unfold project_ok. intros H. apply andb_prop in H. destruct H as [A B]. split; [exact A|].
  intros n b IN. rewrite forallb_forall in B. specialize (B (n, b) IN). cbn [fst snd] in B. apply andb_prop in B. exact B.
Qed.

(* 1. EVERY project of the oracle's language that the oracle expands (all files found, nesting within max_depth), written
      as text, is an occurrence of the oracle's tree from the initial state, at every include fuel f.
      project_ok: the project can be written (identifiers, literals 0 <= v < 2^63, plain file names);
      a + 4n < 2^32: the addresses the oracle gives to labels exist in the 32-bit address space. *)
Theorem occ_of_project dbg p a t n f : project_ok p = true -> SP.expand_project p = Some (a, t, n) ->
  (a + 4 * Z.of_N n < 4294967296)%Z ->
  occ dbg (fst (fst (show_project p))) f init_state (snd (show_project p)) (snd (fst (show_project p))) t.
Proof.
  intros OK EX B. destruct (project_ok_files p OK) as (Pr & HF).
  unfold show_project. cbn [fst snd]. unfold SP.expand_project in EX.
  destruct (SP.lookup_file (SP.p_files p) (SP.p_root p)) as [[|[a0| | | | | | |] body]|] eqn:LF; try discriminate EX.
  destruct (SP.expand SP.max_depth (SP.p_files p) a0 body 0) as [[t0 n0]|] eqn:E; [|discriminate EX]. inversion EX; subst.
  destruct (HF _ _ (lookup_in _ _ _ LF)) as (_ & W). cbn [forallb] in W. apply andb_prop in W. destruct W as [W0 W].
  assert (Ha : (0 <= a)%Z).
  { unfold stmt_ok, writable_stmt in W0. cbn in W0. lia. }
  apply (occ_of_root dbg (SP.p_files p) a HF Ha f (SP.p_root p) body t n); assumption.
Qed.
