(* C05 proofs, part 10 (progress direction): a statement of the class (LayoutStep.stmt_okx) that is well-formed per the reference
   (pass 1 / pass 2 defined for it, its bytes fall on free addresses) is ACCEPTED by the context: the step returns Ok
   and records no diagnostic.  Together with LayoutStep.sim_step the simulation invariant is kept.
   Extra invariant (Tight): the capacity of the active region ends at 2^32 or at an occupied address, so that
   "the reference's bytes fall on free addresses" implies "the region has room". *)
From Coq Require Import ZArith NArith PeanoNat List Bool Lia ZifyBool ZifyNat ZifyN String.
From Trion Require Import Text.Types Expr.I64 Expr.EvalModel Expr.Denote Expr.C08Sound Arm.Instr Arm.DisplayModel Arm.AsmStmtModel Arm.EncodeModel
  Mem.MapModel Mem.DictSpec Mem.MapProofs Mem.MapLemmas Mem.MapOccupied
  Asm.CtxModel Asm.SegProofs Asm.SegPut Asm.LayoutSpec Asm.LayoutWf Asm.LayoutEval Asm.LayoutEvalC Asm.LayoutInstr Asm.LayoutInstrC Asm.LayoutInstrD
  Asm.LayoutDict Asm.ScopeProofs Asm.LayoutProofs Asm.LayoutSim Asm.LayoutStage Asm.Ctx06Proofs Asm.CtxNoPanic Asm.CtxInvCap Asm.LayoutStep Asm.LayoutFinal.
Import ListNotations.
Open Scope N_scope.

(* ------------------------------------------------------------------ the capacity of the active region is tight *)
Definition Tight (st : state) : Prop :=
  match active st with
  | Active sg => s_base sg + s_max sg = CtxSeg.U32 \/ d_get (abs (output st)) (s_base sg + s_max sg) <> None
  | Inactive => True
  end.

Lemma tight_same st st' : output st' = output st ->
  match active st, active st' with
  | Active s, Active s' => s_base s' = s_base s /\ s_max s' = s_max s
  | _, Inactive => True
  | Inactive, Active _ => False
  end -> Tight st -> Tight st'.
Proof.
  unfold Tight. intros EO. rewrite EO. destruct (active st) as [|s], (active st') as [|s']; auto; try contradiction.
  intros (-> & ->). auto.
Qed.

Lemma tight_eq st st' : output st' = output st -> active st' = active st -> Tight st -> Tight st'.
Proof. unfold Tight. intros -> ->. auto. Qed.

Lemma tight_append st sg b : active st = Active sg -> Tight st -> Tight (set_active st (Active (set_buf sg b))).
Proof. intros EA. apply tight_same; [reflexivity|]. rewrite EA. cbn. auto. Qed.

(* free addresses for the reference = room in the active region *)
Lemma cap_fresh E st c ek G ts sg n : SimT E st (Some c) ek G ts -> Tight st -> active st = Active sg -> c + n <= 4294967296 ->
  (forall x, c <= x -> x < c + n -> d_get G x = None) -> blen sg + n <= s_max sg.
Proof.
  intros [R T V C Er Gt A D L P W] HT EA Hsp HF. destruct C as (sg' & EA' & HI & Ec). rewrite EA in EA'. inversion EA'; subst sg'.
  destruct (N.le_gt_cases (blen sg + n) (s_max sg)) as [Hc|Hc]; [exact Hc|exfalso].
  pose proof HI as (H1 & H0 & H2 & H3). unfold Tight in HT. rewrite EA in HT. destruct HT as [HT|HT].
  - unfold CtxSeg.U32, MapModel.U32 in *. lia.
  - set (y := s_base sg + s_max sg) in *.
    assert (Vy : view st y <> None).
    { unfold view. rewrite EA. rewrite wr_out by (unfold blen, CtxSeg.len in *; lia). exact HT. }
    apply D in Vy. apply Vy. apply HF; lia.
Qed.

(* ------------------------------------------------------------------ evaluation with every symbol known *)
Section CtxC.
  Variables (E ek : env) (st : state) (tbl : table) (p : str) (ps : list str).
  Hypothesis EL : locals st = Some tbl.
  Hypothesis EP : path_stack st = p :: ps.
  Hypothesis TE : TblEnv tbl ek.
  Hypothesis LE : env_le ek E.

  Lemma rho_not_reg e s v : rho e s = Some v -> CtxModel.is_register s = false.
  Proof. unfold rho. change (AsmStmtModel.is_register s) with (CtxModel.is_register s). destruct (CtxModel.is_register s); [discriminate|reflexivity]. Qed.

  Lemma ctx_eval_den a w : den64 (rho E) a = Some w ->
    (exists c, ctx_eval st a = EvOk (AConst w) (Complete c)) \/ (exists a' n, ctx_eval st a = EvErr a' (EENoVar n)).
  Proof.
    intros D. rewrite (ctx_eval_eq st tbl p ps a EL EP).
    apply (evaluate_mut_den (rho E) (lookup_of tbl) CtxModel.is_register); auto.
    - eapply compat_tbl; eauto.
    - eapply tbl_no_deferred; eauto.
    - apply rho_not_reg.
  Qed.

  Lemma den_known a w : den64 (rho ek) a = Some w -> known (lookup_of tbl) CtxModel.is_register a.
  Proof.
    intros D. apply den64_denZ in D. destruct D as (D & _). intros m Hm. pose proof (denZ_idents _ _ _ D m Hm) as Hr.
    unfold rho in Hr. change (AsmStmtModel.is_register m) with (CtxModel.is_register m) in Hr.
    destruct (CtxModel.is_register m); [now left|right]. destruct (env_get ek m) as [v|] eqn:G; [|congruence].
    exists v. unfold lookup_of. rewrite (TE m), G. reflexivity.
  Qed.

  Lemma den64_le a w : den64 (rho ek) a = Some w -> den64 (rho E) a = Some w.
  Proof.
    revert w. induction a using ArgLemmas.arg_ind'; intros w D; try exact D; try discriminate D.
    - cbn [den64] in *. unfold rho in *. destruct (AsmStmtModel.is_register s); [discriminate|].
      destruct (env_get ek s) as [v|] eqn:G; [|discriminate]. rewrite (LE _ _ G). exact D.
    - rewrite den64_mk in *. destruct (den64 (rho ek) a1) as [x|]; [|discriminate]. destruct (den64 (rho ek) a2) as [y|]; [|discriminate].
      rewrite (IHa1 _ eq_refl), (IHa2 _ eq_refl). exact D.
    - cbn [den64] in *. destruct (den64 (rho ek) a) as [x|]; [|discriminate]. rewrite (IHa _ eq_refl). exact D.
    - cbn [den64] in *. destruct (den64 (rho ek) a) as [x|]; [|discriminate]. rewrite (IHa _ eq_refl). exact D.
  Qed.

  (* .addr / .align / .const: the operand has a value in the table so far *)
  Lemma ctx_eval_now a w : den64 (rho ek) a = Some w -> exists c, ctx_eval st a = EvOk (AConst w) (Complete c).
  Proof.
    intros D. destruct (ctx_eval_den a w (den64_le a w D)) as [H|(a' & n & H)]; [exact H|exfalso].
    rewrite (ctx_eval_eq st tbl p ps a EL EP) in H. apply mut_novar_unknown in H. apply H. eapply den_known; eauto.
  Qed.

  Lemma eval_now_ok line col a w : den64 (rho ek) a = Some w -> eval_now st line col a = Ret (inl (AConst w)) st.
  Proof. intros D. unfold eval_now. destruct (ctx_eval_now a w D) as (c & ->). reflexivity. Qed.

  Lemma ctx_eval_err_den a w a' e : den64 (rho E) a = Some w -> ctx_eval st a = EvErr a' e -> den64 (rho E) a' = Some w.
  Proof.
    intros D. rewrite (ctx_eval_eq st tbl p ps a EL EP).
    apply (evaluate_mut_err_den (rho E) (lookup_of tbl) CtxModel.is_register); auto.
    - eapply compat_tbl; eauto.
    - eapply tbl_no_deferred; eauto.
    - apply rho_not_reg.
  Qed.

  Lemma ev_ok_st : ev_ok st.
  Proof. unfold ev_ok, eval_realm. rewrite EP. cbn [realm_table]. rewrite EL. discriminate. Qed.

  (* an operand whose symbols are all known evaluates now as it does in the final table *)
  Lemma known_ev_le args : (forall a, In a args -> known_in ek a) -> ev_le_on args (final_ev E) (instr_ev st).
  Proof.
    intros K a a' Ha H. unfold final_ev in H.
    change (fun n : str => match env_get E n with Some v => Found v | None => NotFound end) with (lkE E) in H.
    change AsmStmtModel.is_register with CtxModel.is_register in H.
    destruct (evaluate (lkE E) CtxModel.is_register a) as [[x [c|c n]]|[]|] eqn:Ev; inversion H; subst.
    assert (AG : agree_on CtxModel.is_register (lkE E) (lookup_of tbl) a).
    { intros m Hm. destruct (K a Ha m Hm) as [R|(v & F)]; [now left|right]. unfold lkE in F.
      destruct (env_get ek m) as [u|] eqn:G; inversion F; subst. unfold lkE. rewrite (LE _ _ G). unfold lookup_of. rewrite (TE m), G. reflexivity. }
    rewrite (evaluate_ext _ _ _ a AG) in Ev. apply evaluate_ok_mut in Ev.
    unfold instr_ev. rewrite (ctx_eval_eq st tbl p ps a EL EP), Ev. reflexivity.
  Qed.
End CtxC.

(* ------------------------------------------------------------------ region switch *)
Lemma select_tight dbg st addr c st' : Rep (output st) -> active st = Inactive -> addr < CtxSeg.U32 ->
  select_segment dbg st addr = Ret (inl c) st' -> Tight st'.
Proof.
  intros HR HA Hlt. unfold select_segment.
  destruct (map_find_above dbg (output st) addr HR) as (r & Eq & P). rewrite Eq.
  destruct r as [[f l]|]; cbn [option_map fst].
  - destruct P as (i & x & G & Ef & El & Q1 & Q2).
    destruct (f <=? addr) eqn:E1; [discriminate|]. rewrite HA. unfold make_active. destruct (addr <=? f) eqn:E2; [|lia].
    intros H; inversion H; subst st'. unfold Tight. cbn [active set_active output s_base s_max]. right.
    replace (addr + (f - addr)) with f by lia.
    apply d_get_occupied; [exact HR|]. exists x. split; [eapply geti_In; eauto|].
    destruct (Rep_seg_ok _ HR _ _ G) as (S1 & S2 & S3). rewrite <- Ef. split; [apply N.le_refl|exact S1].
  - assert (K : addr + (CtxSeg.U32MAX - addr + 1) = CtxSeg.U32) by (unfold CtxSeg.U32MAX, CtxSeg.U32, MapModel.U32MAX, MapModel.U32 in *; lia).
    rewrite HA. unfold make_active. intros H; injection H as _ <-. unfold Tight. left. exact K.
Qed.

Lemma change_prog dbg E st cur ek G ts x : SimT E st cur ek G ts -> Tight st -> x < CtxSeg.U32 -> d_get G x = None ->
  exists c st', change_segment dbg st x = Ret (inl c) st' /\ Tight st'.
Proof.
  intros H HT Hlt HF. pose proof H as [R T V C Er Gt A D L P W].
  assert (SEL : forall st1, Rep (output st1) -> active st1 = Inactive -> (forall y, view st1 y = view st y) ->
            exists c st', select_segment dbg st1 x = Ret (inl c) st' /\ Tight st').
  { intros st1 R1 A1 V1. destruct (select_ok dbg st1 x R1 A1 Hlt) as [(O & _)|(_ & s & Eq & _)].
    - exfalso. apply occupied_same in O. apply (d_get_occupied _ _ R1) in O.
      assert (Vx : view st x <> None) by (rewrite <- V1; unfold view; rewrite A1; exact O).
      apply D in Vx. contradiction.
    - eexists _, _. split; [exact Eq|]. eapply select_tight; eauto. }
  unfold change_segment. destruct (active st) as [|sg] eqn:EA.
  - apply SEL; auto.
  - destruct ((x =? s_base sg) && match s_buf sg with [] => true | _ :: _ => false end) eqn:E0.
    + eexists _, _. split; [reflexivity|exact HT].
    + assert (IV : Inv st).
      { split; [exact R|]. rewrite EA. destruct cur as [a|]; [|discriminate C].
        destruct C as (sg' & EA' & HI & _). inversion EA'; subst. exact HI. }
      destruct (close_ok' dbg st IV) as (st1 & b & CL & _). rewrite CL. cbn [CtxModel.bind].
      destruct (view_close dbg st b st1 IV CL) as ((R1 & _) & A1 & V1 & _). apply SEL; auto.
Qed.

(* ------------------------------------------------------------------ the branch templates *)
Lemma template_branch name t : template name = Some t -> is_branch t = true -> (exists c, t = B c 0%Z) \/ t = Bl 0%Z.
Proof.
  unfold template, bcond. destruct (Nat.ltb (List.length name) 16); [|discriminate].
  repeat match goal with |- (if ?c then _ else _) = _ -> _ => destruct c end;
    intros H; inversion H; subst; intros HB; try discriminate HB; eauto.
Qed.

Lemma branch_template_encodes t : (exists c, t = B c 0%Z) \/ t = Bl 0%Z -> exists n b, enc_bytes t 4 = EbOk n b.
Proof. intros [(c & ->)| ->]; [destruct c|]; vm_compute; eauto. Qed.

Lemma branch_one_arg ev l addr t args i s : is_branch t = true -> assemble_args ev l addr t (mkAst args 0) = COk i s -> exists a, args = [a].
Proof.
  intros HB. destruct t; try discriminate HB; cbn [assemble_args]; unfold arity, AsmStmtModel.bind; cbn [a_args];
    (destruct args as [|a [|b r]]; cbn [length Nat.ltb Nat.leb]; try discriminate); eauto.
Qed.

Lemma branch_defer_fwd ev addr t a a' n : is_branch t = true -> ev a = (a', SNoSuchVar n) ->
  assemble_args ev true addr t (mkAst [a] 0) = CDefer n (mkAst [a'] 0).
Proof.
  intros HB Ev. destruct t; try discriminate HB; cbn [assemble_args]; unfold arity, c_offset, eval_at; unfold AsmStmtModel.bind;
    cbn [a_args a_done List.length Nat.ltb Nat.leb nth_error set_nth]; rewrite Ev; reflexivity.
Qed.

(* two evaluators that give the operand of a branch the same constant *)
Lemma branch_value ev1 ev2 l1 l2 addr t a1 a0 v i s2 : is_branch t = true ->
  ev1 a1 = (AConst v, SComplete) -> ev2 a0 = (AConst v, SComplete) ->
  assemble_args ev2 l2 addr t (mkAst [a0] 0) = COk i s2 -> exists s1, assemble_args ev1 l1 addr t (mkAst [a1] 0) = COk i s1.
Proof.
  intros HB E1 E2. destruct t; try discriminate HB; cbn [assemble_args]; unfold arity, c_offset, eval_at; unfold AsmStmtModel.bind;
    cbn [a_args a_done List.length Nat.ltb Nat.leb nth_error set_nth]; rewrite E1, E2; cbn [a_args];
    destruct (AsmStmtModel.u32_of v); try discriminate; try destruct (cond_eqb c Always); unfold branch_offset;
    repeat match goal with |- context[if ?b then _ else _] => destruct b end; intros H; inversion H; eauto.
Qed.

(* ------------------------------------------------------------------ what a pending task still has to evaluate *)
Definition PendD (E : env) (t : task) : Prop :=
  match t with
  | DataTask d false => den64 (rho E) (de_arg d) <> None
  | InstrTask ai false => True          (* LayoutSim.PendG already says how the kept operand evaluates in the final table *)
  | _ => False
  end.
Definition Pd (E : env) (st : state) : Prop := forall ts, local_tasks st = Some ts -> Forall (PendD E) ts.

(* the statement is accepted: Ok, no diagnostic, and the two extra invariants are kept *)
Definition accepted (E : env) (r : res result) : Prop :=
  exists st', r = Ret None st' /\ errors st' = [] /\ Tight st' /\ Pd E st'.

Lemma pd_eq E st st' : local_tasks st' = local_tasks st -> Pd E st -> Pd E st'.
Proof. unfold Pd. intros ->. auto. Qed.

Definition fresh_item (E : env) (items items' : list (N * item)) : Prop :=
  forall a it bs x, items' = (a, it) :: items -> pass2_item E a it = Some bs -> a <= x -> x < a + mlen bs -> d_get (gdict E items) x = None.

Section Prog.
  Variables (dbg : bool) (fs : str -> option (list N)) (inc : state -> list N -> str -> res result) (E : env).

  (* ---------------- labels ---------------- *)
  Lemma label_prog st cur ek items line col name s' :
    Sim E st cur ek (gdict E items) -> Tight st -> Pd E st ->
    pass1_step fs (mkP1 cur ek items) (ELabel name) = Some s' ->
    accepted E (step dbg fs inc st (mkElement line col (ELabel name))).
  Proof.
    intros (ts & ELT & H) HT HP HP1. pose proof H as [R T V C Er Gt A D L P W].
    unfold step. cbn [e_val e_line e_col].
    cbn [pass1_step p_cur] in HP1. destruct cur as [a|]; [|dh]. destruct (a <? 4294967296) eqn:La; [|dh].
    unfold define in HP1. cbn [p_env p_cur p_items] in HP1.
    destruct (AsmStmtModel.is_register name) eqn:Rg; [dh|]. destruct (env_get ek name) eqn:Eg; [dh|].
    destruct C as (sg & EA & HI & Ea). rewrite EA. destruct T as (tbl & p & ps & EL & EP & TE).
    unfold insert_constant. change (CtxModel.is_register name) with (AsmStmtModel.is_register name). rewrite Rg.
    cbn [realm_table]. rewrite EL, (TE name), Eg. cbn [option_map CtxModel.bind set_realm_table].
    eexists. split; [reflexivity|]. split; [exact Er|]. split; [eapply tight_eq; [| |exact HT]; reflexivity|].
    eapply pd_eq; [|exact HP]. reflexivity.
  Qed.

  (* ---------------- .const ---------------- *)
  Lemma const_prog st cur ek items line col args s' :
    Sim E st cur ek (gdict E items) -> Tight st -> Pd E st ->
    (match args with
     | [AIdent n; a] => match den64 (rho ek) a with Some v => define (mkP1 cur ek items) n v | None => None end
     | _ => None end) = Some s' ->
    accepted E (dir_const st line col args).
  Proof.
    intros (ts & ELT & H) HT HP HP1. pose proof H as [R T V C Er Gt A D L P W].
    destruct args as [|a0 [|a1 [|a2 r]]]; try dh; destruct a0; try dh.
    destruct (den64 (rho ek) a1) as [w|] eqn:Dn; [|dh]. unfold define in HP1. cbn [p_env p_cur p_items] in HP1.
    destruct (AsmStmtModel.is_register s) eqn:Rg; [dh|]. destruct (env_get ek s) eqn:Eg; [dh|].
    destruct T as (tbl & p & ps & EL & EP & TE).
    unfold dir_const. cbn [arity_check List.length Nat.eqb].
    rewrite (eval_now_ok E ek st tbl p ps EL EP TE V line col a1 w Dn). cbn [CtxModel.bind].
    unfold insert_constant. change (CtxModel.is_register s) with (AsmStmtModel.is_register s). rewrite Rg.
    cbn [realm_table]. rewrite EL, (TE s), Eg. cbn [option_map CtxModel.bind set_realm_table].
    eexists. split; [reflexivity|]. split; [exact Er|]. split; [eapply tight_eq; [| |exact HT]; reflexivity|].
    eapply pd_eq; [|exact HP]. reflexivity.
  Qed.

  (* ---------------- .addr ---------------- *)
  Lemma addr_prog st cur ek items line col args s' :
    Sim E st cur ek (gdict E items) -> Tight st -> Pd E st ->
    (match args with
     | [a] => match den64 (rho ek) a with
              | Some v => match u32z v with Some x => Some (mkP1 (Some x) ek items) | None => None end
              | None => None end
     | _ => None end) = Some s' ->
    (forall x, p_cur s' = Some x -> d_get (gdict E items) x = None) ->
    accepted E (dir_addr dbg st line col args).
  Proof.
    intros (ts & ELT & H) HT HP HP1 HF. pose proof H as [R T V C Er Gt A D L P W].
    destruct args as [|a [|a2 r]]; try dh.
    destruct (den64 (rho ek) a) as [w|] eqn:Dn; [|dh]. destruct (u32z w) as [x|] eqn:U; [|dh].
    inversion HP1; subst s'. cbn [p_cur] in HF. specialize (HF x eq_refl).
    destruct T as (tbl & p & ps & EL & EP & TE).
    unfold dir_addr. cbn [arity_check List.length Nat.eqb].
    rewrite (eval_now_ok E ek st tbl p ps EL EP TE V line col a w Dn). cbn [CtxModel.bind]. rewrite u32_of_u32z, U.
    destruct (change_prog dbg E st cur ek _ ts x H HT (u32z_lt _ _ U) HF) as (c & st2 & CS & HT2). rewrite CS. cbn [CtxModel.bind].
    destruct (sim_switch dbg E st cur ek _ ts x c st2 H (u32z_lt _ _ U) CS) as (H2 & ET).
    eexists. split; [reflexivity|]. split; [apply (sm_err _ _ _ _ _ _ H2)|]. split; [exact HT2|].
    eapply pd_eq; [|exact HP]. exact ET.
  Qed.

  (* ---------------- .align ---------------- *)
  Lemma align_prog st cur ek items line col args s' :
    Sim E st cur ek (gdict E items) -> Tight st -> Pd E st ->
    (match args, cur with
     | [a], Some c =>
         match den64 (rho ek) a with
         | Some v => match u32z v with
                     | Some (Npos k) => if c <? 0x100000000 then place (mkP1 cur ek items) ((Npos k - c mod Npos k) mod Npos k) (IPad ((Npos k - c mod Npos k) mod Npos k)) else None
                     | _ => None
                     end
         | None => None
         end
     | _, _ => None end) = Some s' ->
    fresh_item E items (p_items s') ->
    accepted E (dir_align dbg st line col args).
  Proof.
    intros (ts & ELT & H) HT HP HP1 HF. pose proof H as [R T V C Er Gt A D L P W].
    destruct args as [|a [|a2 r]]; try dh. destruct cur as [c|]; [|dh].
    destruct (den64 (rho ek) a) as [w|] eqn:Dn; [|dh]. destruct (u32z w) as [[|k]|] eqn:U; try dh.
    destruct (c <? 4294967296) eqn:Lc; [|dh].
    set (sz := (N.pos k - c mod N.pos k) mod N.pos k) in *.
    unfold place in HP1. cbn [p_cur p_env p_items] in HP1. destruct (c + sz <=? 4294967296) eqn:Lp; [|dh].
    inversion HP1; subst s'. cbn [p_items] in HF.
    specialize (HF c (IPad sz) (repeat 190 (N.to_nat sz)) ). 
    assert (HF' : forall x, c <= x -> x < c + sz -> d_get (gdict E items) x = None).
    { intros x X1 X2. apply HF; auto. unfold mlen. rewrite repeat_length. lia. }
    destruct C as (sg & EA & HI & Ea). destruct T as (tbl & p & ps & EL & EP & TE).
    unfold dir_align. rewrite EA. cbn [arity_check List.length Nat.eqb].
    rewrite (eval_now_ok E ek st tbl p ps EL EP TE V line col a w Dn). cbn [CtxModel.bind]. rewrite u32_of_u32z, U. cbv zeta.
    rewrite (curr_addr_lt _ _ HI) by (unfold CtxSeg.U32, MapModel.U32; lia). rewrite <- Ea.
    assert (Hm : c mod N.pos k < N.pos k) by (apply N.mod_lt; discriminate).
    destruct (c mod N.pos k =? 0) eqn:Z0.
    - eexists. split; [reflexivity|]. auto.
    - assert (Hsz : sz = N.pos k - c mod N.pos k) by (unfold sz; apply N.mod_small; lia).
      rewrite <- Hsz. rewrite (has_remaining_ok dbg _ _ _ HI).
      pose proof (cap_fresh E st c ek _ ts sg sz H HT EA ltac:(lia) HF') as Hcap.
      destruct (sz <=? s_max sg - blen sg) eqn:Lr; [|destruct HI; lia].
      destruct (write_ok dbg (output st) sg (padding sz) HI) as (WO & _); [rewrite len_padding; exact Hcap|].
      rewrite WO. cbn [seg_update].
      eexists. split; [reflexivity|]. split; [exact Er|]. split; [apply tight_append; auto|].
      eapply pd_eq; [|exact HP]. reflexivity.
  Qed.

  (* ---------------- .dstr / .dhex ---------------- *)
  Lemma bytes_prog st cur ek items line col d args s' :
    Sim E st cur ek (gdict E items) -> Tight st -> Pd E st ->
    (d = DStr /\ (match args with [AStr v] => place (mkP1 cur ek items) (N.of_nat (List.length v)) (IBytes v) | _ => None end) = Some s') \/
    (d = DHex /\ (match args with
                  | [AStr v] => match hex_pairs v None with Some b => place (mkP1 cur ek items) (N.of_nat (List.length b)) (IBytes b) | None => None end
                  | _ => None end) = Some s') ->
    fresh_item E items (p_items s') ->
    accepted E (dir_bytes dbg fs st line col d args).
  Proof.
    intros (ts & ELT & H) HT HP Hd HF. pose proof H as [R T V C Er Gt A D L P W].
    assert (exists s b, args = [AStr s] /\ place (mkP1 cur ek items) (N.of_nat (List.length b)) (IBytes b) = Some s' /\
              ((d = DStr /\ b = s) \/ (d = DHex /\ hex_pairs s None = Some b))) as (s & b & -> & HP1 & Hb).
    { destruct Hd as [(-> & HP1)|(-> & HP1)]; (destruct args as [|a [|a2 r]]; try dh; destruct a; try dh).
      - exists s, s. auto.
      - destruct (hex_pairs s None) as [b|] eqn:Hx; [|dh]. exists s, b. auto. }
    unfold place in HP1. cbn [p_cur p_env p_items] in HP1.
    destruct cur as [c|]; [|dh]. destruct (c + N.of_nat (List.length b) <=? 4294967296) eqn:Lp; [|dh].
    inversion HP1; subst s'. cbn [p_items] in HF. specialize (HF c (IBytes b) b).
    assert (HF' : forall x, c <= x -> x < c + mlen b -> d_get (gdict E items) x = None) by (intros x X1 X2; apply HF; auto).
    destruct C as (sg & EA & HI & Ea).
    pose proof (cap_fresh E st c ek _ ts sg (mlen b) H HT EA ltac:(unfold mlen; lia) HF') as Hcap.
    destruct (write_ok dbg (output st) sg b HI Hcap) as (WO & _).
    unfold dir_bytes. rewrite EA. cbn [arity_check List.length Nat.eqb].
    assert (HW : seg_update st line col (seg_write dbg sg b) = Ret None (set_active st (Active (set_buf sg (s_buf sg ++ b))))) by (rewrite WO; reflexivity).
    assert (ACC : accepted E (seg_update st line col (seg_write dbg sg b))).
    { rewrite HW. eexists. split; [reflexivity|]. split; [exact Er|]. split; [apply tight_append; auto|]. eapply pd_eq; [|exact HP]. reflexivity. }
    destruct Hb as [(-> & ->)|(-> & Hx)]; [exact ACC|].
    destruct (hex_decode_pairs s []) as (I1 & _). rewrite (I1 _ Hx). cbn [rev app]. exact ACC.
  Qed.

  (* ---------------- .dfile ---------------- *)
  Lemma file_prog fsr st cur ek items line col args s' path ps :
    Sim E st cur ek (gdict E items) -> Tight st -> Pd E st -> path_stack st = path :: ps ->
    (forall v, args = [AStr v] -> fsr v = fs (resolve_path path v)) ->
    (match args with
     | [AStr v] => match fsr v with Some b => place (mkP1 cur ek items) (N.of_nat (List.length b)) (IBytes b) | None => None end
     | _ => None end) = Some s' ->
    fresh_item E items (p_items s') ->
    accepted E (dir_bytes dbg fs st line col DFile args).
  Proof.
    intros (ts & ELT & H) HT HP EPS HFs HP1 HF. pose proof H as [R T V C Er Gt A D L P W].
    destruct args as [|a [|a2 r]]; try dh; destruct a; try dh. rewrite (HFs s eq_refl) in HP1.
    destruct (fs (resolve_path path s)) as [b|] eqn:FS; [|dh].
    unfold place in HP1. cbn [p_cur p_env p_items] in HP1.
    destruct cur as [c|]; [|dh]. destruct (c + N.of_nat (List.length b) <=? 4294967296) eqn:Lp; [|dh].
    inversion HP1; subst s'. cbn [p_items] in HF. specialize (HF c (IBytes b) b).
    assert (HF' : forall x, c <= x -> x < c + mlen b -> d_get (gdict E items) x = None) by (intros x X1 X2; apply HF; auto).
    destruct C as (sg & EA & HI & Ea).
    pose proof (cap_fresh E st c ek _ ts sg (mlen b) H HT EA ltac:(unfold mlen; lia) HF') as Hcap.
    unfold dir_bytes. rewrite EA. cbn [arity_check List.length Nat.eqb]. rewrite EPS, FS.
    rewrite (has_remaining_ok dbg _ _ _ HI).
    destruct (CtxSeg.len b <=? s_max sg - blen sg) eqn:Lr; [|destruct HI; unfold CtxSeg.len in Lr; lia].
    rewrite (write_chunks_exact dbg _ _ sg HI); rewrite concat_chunks; [|exact Hcap].
    cbn [seg_update]. eexists. split; [reflexivity|]. split; [exact Er|]. split; [apply tight_append; auto|]. eapply pd_eq; [|exact HP]. reflexivity.
  Qed.

  (* ---------------- .du8 / .du16 / .du32 ---------------- *)
  Lemma data_prog st cur ek items line col k args s' :
    Sim E st cur ek (gdict E items) -> Tight st -> Pd E st ->
    (match args with [a] => place (mkP1 cur ek items) (dk_size k) (IData (dk_size k) a) | _ => None end) = Some s' ->
    (forall a it, In (a, it) (p_items s') -> pass2_item E a it <> None) ->
    fresh_item E items (p_items s') ->
    accepted E (dir_data dbg st line col k args).
  Proof.
    intros (ts & ELT & H) HT HP HP1 H2 HF. pose proof H as [R T V C Er Gt A D L P W].
    destruct args as [|a [|a2 r]]; try dh. unfold place in HP1. cbn [p_cur p_env p_items] in HP1.
    destruct cur as [c|]; [|dh]. destruct (c + dk_size k <=? 4294967296) eqn:Lp; [|dh].
    inversion HP1; subst s'. cbn [p_cur p_env p_items] in *.
    specialize (H2 c (IData (dk_size k) a) (or_introl eq_refl)). specialize (HF c (IData (dk_size k) a)).
    cbn [pass2_item] in H2, HF.
    destruct (den64 (rho E) a) as [w|] eqn:Dn; [|congruence]. rewrite dk_range in H2, HF.
    destruct ((0 <=? w)%Z && (w <=? dk_max k)%Z) eqn:Rw; [|congruence]. clear H2.
    rewrite <- le_n_le_bytes in HF.
    assert (HF' : forall x, c <= x -> x < c + dk_size k -> d_get (gdict E items) x = None)
      by (intros x X1 X2; apply (HF _ x eq_refl eq_refl X1); rewrite len_le_n'; exact X2).
    destruct C as (sg & EA & HI & Ea). destruct T as (tbl & p & ps & EL & EP & TE).
    assert (Hk : 0 < dk_size k) by (destruct k; cbn; lia).
    pose proof (cap_fresh E st c ek _ ts sg (dk_size k) H HT EA ltac:(lia) HF') as Hcap.
    unfold dir_data. rewrite EA. rewrite (has_remaining_ok dbg _ _ _ HI).
    destruct (dk_size k <=? s_max sg - blen sg) eqn:Lr; [|destruct HI; lia].
    cbn [arity_check List.length Nat.eqb].
    rewrite (curr_addr_exact _ _ HI) by lia. rewrite <- Ea.
    unfold data_apply. cbn [de_arg de_kind de_file de_line de_col].
    assert (WA : forall d0 data, de_addr d0 = c -> mlen data = dk_size k ->
              write_data dbg st d0 data = Ret None (set_active st (Active (set_buf sg (s_buf sg ++ data))))).
    { intros d0 data Ed Hl. unfold write_data. rewrite Ed, Ea, <- (curr_addr_exact _ _ HI) by lia.
      apply write_stmt_append; auto; rewrite Hl; lia. }
    destruct (ctx_eval_den E ek st tbl p ps EL EP TE V a w Dn) as [(ch & CE)|(a' & nm & CE)]; rewrite CE.
    - rewrite Rw. rewrite WA by (try reflexivity; apply len_le_n'). cbn [CtxModel.bind].
      eexists. split; [reflexivity|]. split; [exact Er|]. split; [apply tight_append; auto|]. eapply pd_eq; [|exact HP]. reflexivity.
    - cbn [CtxModel.bind]. rewrite WA by (try reflexivity; apply len_padding). cbn [CtxModel.bind].
      unfold add_task. cbn [local_tasks set_active]. rewrite ELT. cbn [CtxModel.bind].
      eexists. split; [reflexivity|]. split; [exact Er|]. split; [apply (tight_eq (set_active st (Active (set_buf sg (s_buf sg ++ padding (dk_size k)))))); [reflexivity|reflexivity|apply tight_append; auto]|].
      intros ts' Hts. cbn [local_tasks set_local_tasks] in Hts. inversion Hts; subst ts'.
      apply Forall_app. split; [apply HP; exact ELT|]. constructor; [|constructor].
      cbn [PendD de_set_arg de_arg]. rewrite (ctx_eval_err_den E ek st tbl p ps EL EP TE V a w a' _ Dn CE). discriminate.
  Qed.

  (* ---------------- instruction statements ---------------- *)
  Lemma final_ev_value a w x : den64 (rho E) a = Some w -> final_ev E a = (x, SComplete) -> x = AConst w.
  Proof.
    intros Dw. unfold final_ev. change (fun n : str => match env_get E n with Some v => Found v | None => NotFound end) with (lkE E).
    change AsmStmtModel.is_register with CtxModel.is_register.
    assert (ND : no_deferred (lkE E)) by (intros s; unfold lkE; destruct (env_get E s); discriminate).
    destruct (evaluate_den (rho E) (lkE E) CtxModel.is_register (compat_lkE E) ND (fun s v => rho_not_reg E s v) a w Dw) as [(c & ->)| ->];
      intros H; inversion H; reflexivity.
  Qed.

  Lemma instr_prog st cur ek items line col name args s' :
    Sim E st cur ek (gdict E items) -> Tight st -> Pd E st ->
    stmt_okx fs fs [] E ek (EInstruction name args) ->
    (match instr_size name with Some sz => place (mkP1 cur ek items) sz (IInstr name args) | None => None end) = Some s' ->
    (forall a it, In (a, it) (p_items s') -> pass2_item E a it <> None) ->
    fresh_item E items (p_items s') ->
    accepted E (assemble_instr dbg st line col name args).
  Proof.
    intros (ts & ELT & H) HT HP OK HP1 H2 HF. pose proof H as [R T V C Er Gt A D L P W].
    destruct (instr_size name) as [sz|] eqn:Isz; [|dh]. unfold place in HP1. cbn [p_cur p_env p_items] in HP1.
    destruct cur as [c|]; [|dh]. destruct (c + sz <=? 4294967296) eqn:Lp; [|dh].
    inversion HP1; subst s'. cbn [p_cur p_env p_items] in *.
    specialize (H2 c (IInstr name args) (or_introl eq_refl)). specialize (HF c (IInstr name args)). cbn [pass2_item] in H2, HF.
    destruct C as (sg & EA & HI & Ea). destruct T as (tbl & p & ps & EL & EP & TE).
    destruct (template name) as [t|] eqn:Et; [|unfold instr_size in Isz; rewrite Et in Isz; dh].
    pose proof (instr_size_isz _ _ _ Et Isz) as Hsz.
    unfold assemble_stmt in H2, HF. rewrite Et in H2, HF.
    destruct (assemble_args (final_ev E) false c t (mkAst args 0)) as [iF sF| | |] eqn:AF; try congruence.
    destruct (enc_bytes iF 4) as [nF bF| |] eqn:EF; try congruence. clear H2.
    pose proof (enc_bytes_size _ _ _ EF) as (NF & LF). pose proof (assemble_args_isz _ _ _ _ _ _ _ AF) as IF.
    assert (Lb : mlen bF = sz) by (unfold mlen; rewrite LF; congruence).
    assert (HF' : forall x, c <= x -> x < c + sz -> d_get (gdict E items) x = None)
      by (intros x X1 X2; apply (HF _ x eq_refl eq_refl X1); rewrite Lb; exact X2).
    assert (Hsz2 : 2 <= sz) by (rewrite Hsz; destruct t; cbn; lia).
    pose proof (cap_fresh E st c ek _ ts sg sz H HT EA ltac:(lia) HF') as Hcap.
    unfold assemble_instr. rewrite EA. rewrite (has_remaining_ok dbg _ _ _ HI).
    destruct (2 <=? s_max sg - blen sg) eqn:Lr; [|destruct HI; lia].
    assert (Hlt : blen sg < s_max sg) by lia.
    rewrite (curr_addr_exact _ _ HI) by lia. rewrite <- Ea. rewrite Et.
    unfold instr_assemble. cbn [ai_ast ai_addr ai_instr ai_file ai_line ai_col a_args].
    rewrite (first_panic_none st args (ev_ok_st st tbl p ps EL EP)).
    assert (CASE : (exists s1, assemble_args (instr_ev st) true c t (mkAst args 0) = COk iF s1) \/
                   (exists pos a a' n, eval_pos t = Some pos /\ nth_error args pos = Some a /\ staged_ok E a /\
                      assemble_args (instr_ev st) true c t (mkAst args 0) = CDefer n (mkAst (AsmStmtModel.set_nth pos a' args) 0))).
    { destruct OK as [K|[(t' & pos & Et' & EPo & HD)|(t' & Et' & HN)]].
      - left. exists sF. apply (assemble_args_mono_on args (final_ev E) (instr_ev st) false true); [|exact AF].
        eapply known_ev_le; eauto.
      - rewrite Et in Et'. inversion Et'; subst t'.
        destruct (assemble_args_pos_some _ _ _ _ _ _ _ _ EPo AF) as (a & Na). pose proof (HD a Na) as SO.
        destruct (assemble_args_ok_complete _ _ _ _ _ _ _ _ _ EPo Na AF) as (v & Ev).
        destruct (stage_now E ek st tbl p ps EL EP TE V a v SO Ev) as [Now|(a1 & n & Df)].
        + left. exists sF. apply (assemble_args_mono_pos (final_ev E) (instr_ev st) false true c t args pos a iF sF EPo Na); [|exact AF].
          intros x Hx. rewrite Ev in Hx. inversion Hx; subst x. exact Now.
        + right. exists pos, a, a1, n. split; [exact EPo|]. split; [exact Na|]. split; [exact SO|].
          eapply assemble_args_defer_fwd; eauto.
      - left. rewrite Et in Et'. inversion Et'; subst t'. exists sF. rewrite <- AF. apply no_eval_indep. exact HN. }
    destruct CASE as [(s1 & AM)|(pos & a & a' & nm & EPo & Na & SO & AM)]; rewrite AM; cbn [CtxModel.bind].
    - unfold write_instr. cbn [ai_instr ai_file ai_line ai_col ai_addr]. rewrite EF.
      rewrite Ea, <- (curr_addr_exact _ _ HI) by lia.
      rewrite write_stmt_append; auto; [|rewrite Lb; lia|rewrite Lb; exact Hcap].
      eexists. split; [reflexivity|]. split; [exact Er|]. split; [apply tight_append; auto|]. eapply pd_eq; [|exact HP]. reflexivity.
    - (* the placeholder: the half-filled template encodes because the final statement does *)
      destruct (assemble_args_ok_complete _ _ _ _ _ _ _ _ _ EPo Na AF) as (v & Ev).
      destruct (enc_bytes_enc _ _ _ EF) as (hws & ENC).
      destruct (partial_encodes (final_ev E) false c t args pos a v a' iF sF hws (template_ok _ _ Et) EPo Na Ev (stage_shape E a v SO Ev) AF ENC) as (hws' & EP').
      destruct (enc_ok_bytes _ _ EP') as (nP & bP & EPt).
      pose proof (enc_bytes_size _ _ _ EPt) as (LP & _). rewrite partial_isz in LP.
      unfold write_instr. cbn [ai_instr ai_file ai_line ai_col ai_addr]. rewrite EPt.
      rewrite Ea, <- (curr_addr_exact _ _ HI) by lia.
      rewrite write_stmt_append; auto; [|rewrite len_padding; lia|rewrite len_padding; replace nP with sz by congruence; exact Hcap].
      cbn [CtxModel.bind]. unfold add_task. cbn [local_tasks set_active]. rewrite ELT. cbn [CtxModel.bind].
      eexists. split; [reflexivity|]. split; [exact Er|].
      split; [apply (tight_eq (set_active st (Active (set_buf sg (s_buf sg ++ padding nP))))); [reflexivity|reflexivity|apply tight_append; auto]|].
      intros ts' Hts. cbn [local_tasks set_local_tasks] in Hts. inversion Hts; subst ts'.
      apply Forall_app. split; [apply HP; exact ELT|]. constructor; [|constructor].
      exact I.
  Qed.
End Prog.
