(* C13 proofs, part 7: what exactly is written.
   - run_task_shape: a resolving task rewrites exactly its own range [addr, addr+len) — in the active buffer when the
     range lies there, otherwise over the bytes pre-allocated in the map — and nothing else;
   - stmt_capacity: a statement of known size (instruction, .du*, .dstr, .dhex, .dfile, .align) either appends all its
     bytes within the capacity of the active segment or is refused with an error result; the map is never touched. *)
From Coq Require Import ZArith NArith PeanoNat List Bool Lia ZifyBool ZifyNat ZifyN.
From Trion Require Import Text.Types Expr.EvalModel Arm.Instr Arm.EncodeModel
  Mem.MapModel Mem.DictSpec Mem.MapProofs Asm.CtxModel Asm.SegProofs Asm.SegPut Asm.InstrSize Asm.CtxInvDefs Asm.CtxInvSeg Asm.CtxInvStep.
From Trion Require Arm.AsmStmtModel.
Import ListNotations.
Open Scope N_scope.
Local Notation len := MapModel.len.
Local Notation U32 := MapModel.U32.

(* ---------------------------------------------------------------- deferred writes *)
(* the three possible effects of running a task whose range is [a, a+n) *)
Definition wshape (st : state) (a n : N) (st' : state) : Prop :=
  (output st' = output st /\ active st' = active st)
  \/ (exists s data, active st = Active s /\ in_active s a n /\ len data = n /\ output st' = output st /\
        active st' = Active (set_buf s (splice (s_buf s) (a - s_base s) data)))
  \/ (exists data, in_map (output st) a n /\ len data = n /\ active st' = active st /\ Rep (output st') /\
        (forall x, occupied (output st') x <-> occupied (output st) x) /\
        abs (output st') = d_write (abs (output st)) a data).

Lemma wshape_same st a n st' : same st st' -> wshape st a n st'.
Proof. intros (E1 & E2 & _). left. split; assumption. Qed.

Lemma wshape_pre st0 st a n st' : same st0 st -> wshape st a n st' -> wshape st0 a n st'.
Proof. intros (E1 & E2 & _). unfold wshape. rewrite E1, E2. auto. Qed.

Lemma wshape_post st a n st1 st' : wshape st a n st1 -> same st1 st' -> wshape st a n st'.
Proof. intros H (E1 & E2 & _). unfold wshape. rewrite E1, E2. exact H. Qed.

Lemma write_stmt_shape dbg st f l c a data ko kp pa r st' : Inv st -> allocated st a (len data) -> 0 < len data ->
  write_stmt dbg st f l c a data ko kp pa = Ret r st' -> wshape st a (len data) st'.
Proof.
  intros HI Ha Hl E.
  destruct (write_alloc dbg st f l c a data ko kp pa HI Ha Hl)
    as [(s & EA & Hin & W)|(Hin & m' & W & HR' & Ho & Eabs)]; rewrite W in E; inversion E; subst.
  - right; left. exists s, data. repeat split; auto; apply Hin.
  - right; right. exists data. repeat split; auto; apply Ho.
Qed.

Lemma add_task_same_seg st t r st' : add_task st t r = Ret tt st' -> output st' = output st /\ active st' = active st.
Proof.
  unfold add_task. destruct r; [intros H; inversion H; split; reflexivity|].
  destruct (local_tasks st); [|discriminate]. intros H; inversion H; split; reflexivity.
Qed.

Theorem run_task_shape dbg st t a n r st' : good st -> task_range t = Some (a, n) -> allocated st a n ->
  run_task dbg st t = Ret r st' -> wshape st a n st'.
Proof.
  intros G Et Ha E. destruct t as [ai global|d global|name line col|name line col]; cbn [task_range] in Et; try discriminate;
    inversion Et; subst a n; cbn [run_task] in E.
  - pose proof (instr_assemble_inv st ai false) as IA.
    destruct (instr_assemble st ai false) as [[op ai'] st1|p|]; cbn [CtxModel.bind] in E; try discriminate.
    destruct IA as (S1 & A1 & Z1). destruct (same_good _ _ S1 G) as (G1 & M1).
    apply (wshape_pre st st1); [exact S1|]. rewrite <- A1, <- Z1.
    assert (Ha1 : allocated st1 (ai_addr ai') (isz (ai_instr ai'))) by (rewrite A1, Z1; apply M1; exact Ha).
    destruct op as [|cause|l].
    + unfold write_instr in E. destruct (enc_bytes (ai_instr ai') 4) as [k bytes| |] eqn:EE.
      * destruct (enc_bytes_size _ _ _ _ EE) as (En & Eb). pose proof (isz_pos (ai_instr ai')) as (P1 & P2).
        rewrite <- Eb. eapply write_stmt_shape; [exact (proj1 G1)| | |exact E]; rewrite ?Eb; [exact Ha1|lia].
      * inversion E. apply wshape_same. apply same_push_in.
      * inversion E. apply wshape_same. apply same_push_in.
    + destruct global.
      * inversion E. apply wshape_same. apply same_push_in.
      * destruct (add_task st1 (InstrTask ai' true) RGlobal) as [[] st2|p|] eqn:ET; cbn [CtxModel.bind] in E; try discriminate.
        inversion E; subst. left. exact (add_task_same_seg _ _ _ _ ET).
    + inversion E; subst. left. split; reflexivity.
  - assert (K : forall st1 r0 d', data_apply dbg st d false = Ret (r0, d') st1 ->
                 wshape st (de_addr d) (dk_size (de_kind d)) st1 /\ de_addr d' = de_addr d /\ de_kind d' = de_kind d).
    { intros st1 r0 d'. unfold data_apply.
      destruct (ctx_eval st (de_arg d)) as [a' [ch|ch cause]|a' e|p].
      - destruct a' as [v| | | | | | | | | | | | | | | | |];
          try (intros H; inversion H; split; [apply wshape_same; apply same_push_in|split; reflexivity]).
        destruct ((0 <=? v)%Z && (v <=? dk_max (de_kind d))%Z).
        + unfold write_data. cbn [de_file de_line de_col de_addr de_set_arg].
          destruct (write_stmt dbg st _ _ _ _ _ _ _ _) as [w st2|p|] eqn:EW; cbn [CtxModel.bind]; try discriminate.
          intros H; inversion H; subst. split; [|split; reflexivity].
          rewrite <- (len_le_n (de_kind d) (Z.to_N v)).
          eapply write_stmt_shape; [exact (proj1 G)| | |exact EW]; rewrite len_le_n; [exact Ha|destruct (de_kind d); cbn; lia].
        + intros H; inversion H; split; [apply wshape_same; apply same_push_in|split; reflexivity].
      - intros H; inversion H; subst. split; [left; split; reflexivity|split; reflexivity].
      - destruct e as [name|e0]; intros H; inversion H; subst;
          (split; [apply wshape_same; apply same_push_in|split; reflexivity]).
      - discriminate. }
    destruct (data_apply dbg st d false) as [[r0 d'] st1|p|] eqn:ED; cbn [CtxModel.bind] in E; try discriminate.
    destruct (K st1 r0 d' eq_refl) as (W & A1 & K1).
    destruct r0 as [|cause|l].
    + inversion E; subst. exact W.
    + destruct global.
      * inversion E. eapply wshape_post; [exact W|apply same_push_in].
      * destruct (add_task st1 (DataTask d' true) RGlobal) as [[] st2|p|] eqn:ET; cbn [CtxModel.bind] in E; try discriminate.
        inversion E; subst. destruct (add_task_same_seg _ _ _ _ ET) as (O1 & O2).
        unfold wshape in *. rewrite O1, O2. exact W.
    + inversion E; subst. exact W.
Qed.

(* the case the property names: the active region ends exactly where the statement begins — the statement's bytes are
   in the map and the active region is left alone *)
Corollary run_task_shape_adjacent dbg st t a n r st' s : good st -> task_range t = Some (a, n) -> allocated st a n -> 0 < n ->
  active st = Active s -> s_base s + blen s = a ->
  run_task dbg st t = Ret r st' -> active st' = active st /\ in_map (output st) a n.
Proof.
  intros G Et Ha Hn EA Eb E.
  assert (Hm : in_map (output st) a n).
  { destruct Ha as [(s0 & E0 & A1 & A2)|H]; [|exact H]. rewrite EA in E0. inversion E0. subst s0. lia. }
  split; [|exact Hm].
  destruct (run_task_shape dbg st t a n r st' G Et Ha E) as [(_ & H)|[(s0 & data & E0 & (A1 & A2) & _)|(data & _ & _ & H & _)]]; auto.
  rewrite EA in E0. inversion E0. subst s0. lia.
Qed.

(* ---------------------------------------------------------------- statement-level capacity *)
(* the number of bytes a statement appends to the active segment, when it is known before the statement runs:
   instruction = size of its mnemonic's encoding; .du8/16/32 = 1/2/4; .dstr/.dhex/.dfile = the bytes given;
   .align n (n a complete non-zero u32 value) = distance to the next multiple of n *)
Definition stmt_size (fs : str -> option (list N)) (st : state) (s : aseg) (e : element) : option N :=
  match e_val e with
  | EInstruction name _ => option_map isz (AsmStmtModel.template name)
  | EDirective name args =>
      match dir_of name, args with
      | Some (DData k), _ => Some (dk_size k)
      | Some DStr, [AStr v] => Some (len v)
      | Some DHex, [AStr v] => match hex_decode v None [] with HexOk bytes => Some (len bytes) | _ => None end
      | Some DFile, [AStr v] =>
          match path_stack st with
          | curr :: _ => option_map (fun b => len b) (fs (resolve_path curr v))
          | [] => None
          end
      | Some DAlign, [a] =>
          match ctx_eval st a with
          | EvOk (AConst v) (Complete _) =>
              match u32_of v with
              | Some (Npos p) => let off := curr_addr s mod Npos p in Some (if off =? 0 then 0 else Npos p - off)
              | _ => None
              end
          | _ => None
          end
      | _, _ => None
      end
  | ELabel _ => None
  end.

(* outcome of a statement of size n on the active segment s (st0: the state the statement started from) *)
Definition cshape (s : aseg) (n : N) (st0 : state) (r : result) (st' : state) : Prop :=
  output st' = output st0 /\
  ((active st' = Active s /\ r <> None /\ errors st' <> [])
   \/ (exists data, len data = n /\ blen s + n <= s_max s /\ active st' = Active (set_buf s (s_buf s ++ data)))).

Lemma set_buf_nil s : set_buf s (s_buf s ++ []) = s.
Proof. rewrite app_nil_r. destruct s; reflexivity. Qed.

Lemma cshape_refused s n st0 st' r : output st' = output st0 -> active st' = Active s -> r <> None -> errors st' <> [] ->
  cshape s n st0 r st'.
Proof. intros H1 H2 H3 H4. split; [exact H1|left; repeat split; assumption]. Qed.

Lemma cshape_same_push s n st0 st (S : same st0 st) (EA : active st0 = Active s) l c k lv :
  cshape s n st0 (Some lv) (push_error st l c k).
Proof. destruct S as (E1 & E2 & _). apply cshape_refused; cbn; [exact E1|congruence|discriminate|discriminate]. Qed.

Lemma cshape_same_push_in s n st0 st (S : same st0 st) (EA : active st0 = Active s) f l c k lv :
  cshape s n st0 (Some lv) (push_error_in st f l c k).
Proof. destruct S as (E1 & E2 & _). apply cshape_refused; cbn; [exact E1|congruence|discriminate|discriminate]. Qed.

(* write_stmt at the current address: both outcomes *)
Lemma fresh_cases dbg st s f l c data ko kp pa r st' : Inv st -> active st = Active s -> blen s < s_max s ->
  write_stmt dbg st f l c (curr_addr s) data ko kp pa = Ret r st' ->
  (r = Some Fatal /\ st' = push_error_in st f l c ko)
  \/ (r = None /\ blen s + len data <= s_max s /\ st' = set_active st (Active (set_buf s (s_buf s ++ data)))).
Proof.
  intros HI EA Hl. rewrite (write_fresh dbg st s f l c data ko kp pa HI EA Hl).
  destruct (blen s + len data <=? s_max s) eqn:Ef; intros H; inversion H; subst.
  - right. split; [reflexivity|]. split; [lia|reflexivity].
  - left. split; reflexivity.
Qed.

Lemma fresh_cshape dbg st0 st s f l c data ko kp pa r st' : same st0 st -> Inv st -> active st = Active s -> blen s < s_max s ->
  write_stmt dbg st f l c (curr_addr s) data ko kp pa = Ret r st' ->
  cshape s (len data) st0 r st' /\ (r = None -> good st -> good st' /\ same st0 (set_active st' (Active s))).
Proof.
  intros S HI EA Hl E. pose proof S as (E1 & E2 & E3 & E4).
  destruct (fresh_cases dbg st s f l c data ko kp pa r st' HI EA Hl E) as [(-> & ->)|(-> & Hf & ->)].
  - split; [|discriminate]. apply cshape_refused; cbn; [exact E1|exact EA|discriminate|discriminate].
  - split.
    + split; [exact E1|]. right. exists data. repeat split; auto.
    + intros _ G. split; [apply append_good; assumption|]. repeat split; cbn; congruence.
Qed.

Lemma concat_chunks n : forall fuel (l : list N), concat (chunks n fuel l) = l.
Proof.
  induction fuel as [|f IH]; intros l; cbn [chunks]; [cbn; apply app_nil_r|].
  destruct l as [|x r]; [reflexivity|]. cbn [concat]. rewrite IH. apply firstn_skipn.
Qed.

Lemma write_chunks_exact dbg m cs : forall s, SegInv m s -> blen s + len (concat cs) <= s_max s ->
  write_chunks dbg s cs = SOk (set_buf s (s_buf s ++ concat cs)).
Proof.
  induction cs as [|c r IH]; intros s HI Hf; cbn [write_chunks concat].
  - rewrite set_buf_nil. reflexivity.
  - cbn [concat] in Hf. rewrite len_app in Hf.
    destruct (write_ok dbg m s c HI ltac:(lia)) as (E & HS). rewrite E. cbn [sbind].
    rewrite IH; [|exact HS|rewrite blen_set_buf, len_app; cbn [s_max set_buf]; unfold blen, CtxSeg.len in *; lia].
    unfold set_buf. cbn [s_base s_buf s_max]. rewrite app_assoc. reflexivity.
Qed.

(* append through seg_update *)
Lemma seg_update_cshape dbg st0 st s line col data r st' : same st0 st -> Inv st -> active st = Active s ->
  seg_update st line col (seg_write dbg s data) = Ret r st' -> cshape s (len data) st0 r st'.
Proof.
  intros S (HR & HA) EA. pose proof S as (E1 & E2 & _). rewrite EA in HA.
  destruct (blen s + len data <=? s_max s) eqn:Ef.
  - destruct (write_ok dbg _ s data HA ltac:(lia)) as (E & _). rewrite E. cbn [seg_update]. intros H; inversion H.
    split; [exact E1|]. right. exists data. repeat split; auto. lia.
  - rewrite (write_overflow dbg _ s data HA ltac:(lia)). cbn [seg_update]. intros H; inversion H.
    apply cshape_same_push; [exact S|congruence].
Qed.

Lemma cshape_same s n st0 st' lv : same st0 st' -> active st0 = Active s -> errors st' <> [] -> cshape s n st0 (Some lv) st'.
Proof. intros (E1 & E2 & _) EA He. apply cshape_refused; [exact E1|congruence|discriminate|exact He]. Qed.

Lemma arity_errors st l c args n st' : arity_check st l c args n = Some st' -> errors st' <> [].
Proof.
  unfold arity_check. destruct (Nat.eqb (length args) n); [discriminate|].
  destruct (Nat.ltb (length args) n); intros H; inversion H; cbn; discriminate.
Qed.

Lemma add_task_errors st t r st' : add_task st t r = Ret tt st' -> errors st' = errors st.
Proof.
  unfold add_task. destruct r; [intros H; inversion H; reflexivity|].
  destruct (local_tasks st); [|discriminate]. intros H; inversion H; reflexivity.
Qed.

Lemma cshape_eq s n st0 r st2 st3 : cshape s n st0 r st2 -> output st3 = output st2 -> active st3 = active st2 ->
  errors st3 = errors st2 -> cshape s n st0 r st3.
Proof. unfold cshape. intros H E1 E2 E3. rewrite E1, E2, E3. exact H. Qed.

Lemma write_instr_cshape dbg st0 st s ai d r st' : same st0 st -> good st -> active st = Active s -> blen s < s_max s ->
  ai_addr ai = curr_addr s -> write_instr dbg st ai d = Ret r st' -> cshape s (isz (ai_instr ai)) st0 r st'.
Proof.
  intros S G EA Hl Ea. unfold write_instr. destruct (enc_bytes (ai_instr ai) 4) as [k bytes| |] eqn:E.
  - destruct (enc_bytes_size _ _ _ _ E) as (En & Eb). rewrite Ea. intros H.
    destruct (fresh_cshape dbg st0 st s _ _ _ _ _ _ _ r st' S (proj1 G) EA Hl H) as (C & _).
    destruct d; [rewrite len_padding in C|]; congruence.
  - intros H; inversion H. apply cshape_same; [eapply same_trans; [exact S|apply same_push_in]|destruct S as (_ & E2 & _); congruence|cbn; discriminate].
  - intros H; inversion H. apply cshape_same; [eapply same_trans; [exact S|apply same_push_in]|destruct S as (_ & E2 & _); congruence|cbn; discriminate].
Qed.

Lemma instr_capacity dbg st s line col name args t r st' : good st -> active st = Active s ->
  AsmStmtModel.template name = Some t -> assemble_instr dbg st line col name args = Ret r st' -> cshape s (isz t) st r st'.
Proof.
  intros G EA ET. unfold assemble_instr. rewrite EA. pose proof G as ((HR & HA) & _). rewrite EA in HA.
  rewrite (has_remaining_spec dbg _ _ 2 HA). destruct (2 <=? s_max s - blen s) eqn:Er.
  2:{ intros H; inversion H. apply cshape_same; [apply same_push|exact EA|cbn; discriminate]. }
  assert (Hl : blen s < s_max s) by lia. rewrite ET.
  set (ai := mkAI (curr_name st) line col (curr_addr s) t (AsmStmtModel.mkAst args 0)).
  pose proof (instr_assemble_inv st ai true) as IA.
  destruct (instr_assemble st ai true) as [[op ai'] st1|p|]; cbn [CtxModel.bind]; try discriminate.
  destruct IA as (S1 & A1 & Z1). destruct (same_good _ _ S1 G) as (G1 & M1).
  pose proof (same_active _ _ _ S1 EA) as EA1. cbn [ai_addr ai_instr ai] in A1, Z1. rewrite <- Z1.
  assert (D : (do w, st2 <- write_instr dbg st1 ai' true;
               match w with
               | Some l => Ret (Some l) st2
               | None => do _, st3 <- add_task st2 (InstrTask ai' false) RLocal; Ret None st3
               end) = Ret r st' -> cshape s (isz (ai_instr ai')) st r st').
  { destruct (write_instr dbg st1 ai' true) as [w st2|p|] eqn:EW; cbn [CtxModel.bind]; try discriminate.
    pose proof (write_instr_cshape dbg st st1 s ai' true w st2 S1 G1 EA1 Hl A1 EW) as C.
    destruct w as [l|]; [intros H; inversion H; subst; exact C|].
    destruct (add_task st2 (InstrTask ai' false) RLocal) as [[] st3|p|] eqn:ET2; cbn [CtxModel.bind]; try discriminate.
    intros H; inversion H; subst. destruct (add_task_same_seg _ _ _ _ ET2) as (O1 & O2). eapply cshape_eq; eauto. eapply add_task_errors; eauto. }
  destruct op; [|exact D|exact D]. intros H. eapply write_instr_cshape; eauto.
Qed.

Lemma data_apply_fresh dbg st s d r0 d' st1 : good st -> active st = Active s -> blen s < s_max s -> de_addr d = curr_addr s ->
  data_apply dbg st d true = Ret (r0, d') st1 ->
  de_addr d' = de_addr d /\ de_kind d' = de_kind d /\ de_file d' = de_file d /\ de_line d' = de_line d /\ de_col d' = de_col d /\
  ((r0 = DCompleted /\ cshape s (dk_size (de_kind d)) st None st1) \/ (r0 <> DCompleted /\ same st st1)).
Proof.
  intros G EA Hl Ea. unfold data_apply.
  destruct (ctx_eval st (de_arg d)) as [a' [ch|ch cause]|a' e|p].
  - destruct a' as [v| | | | | | | | | | | | | | | | |];
      try (intros H; inversion H; repeat (split; [reflexivity|]); right; split; [discriminate|apply same_push_in]).
    destruct ((0 <=? v)%Z && (v <=? dk_max (de_kind d))%Z).
    + unfold write_data. cbn [de_file de_line de_col de_addr de_set_arg]. rewrite Ea.
      destruct (write_stmt dbg st _ _ _ _ _ _ _ _) as [w st2|p|] eqn:EW; cbn [CtxModel.bind]; try discriminate.
      intros H; inversion H; subst. repeat (split; [first [reflexivity|exact Ea]|]).
      destruct (fresh_cshape dbg st st s _ _ _ _ _ _ _ w st1 (same_refl st) (proj1 G) EA Hl EW) as (C & _).
      rewrite len_le_n in C. destruct w as [lv|]; [right|left; split; [reflexivity|exact C]].
      split; [discriminate|]. eapply write_stmt_some; eauto.
    + intros H; inversion H; repeat (split; [reflexivity|]); right; split; [discriminate|apply same_push_in].
  - intros H; inversion H; repeat (split; [reflexivity|]); right; split; [discriminate|apply same_refl].
  - destruct e as [name|e0]; intros H; inversion H; repeat (split; [reflexivity|]); right;
      (split; [discriminate|first [apply same_refl|apply same_push_in]]).
  - discriminate.
Qed.

Lemma data_capacity dbg st s line col k args r st' : good st -> active st = Active s ->
  dir_data dbg st line col k args = Ret r st' -> cshape s (dk_size k) st r st'.
Proof.
  intros G EA. unfold dir_data. rewrite EA. pose proof G as ((HR & HA) & _). rewrite EA in HA.
  rewrite (has_remaining_spec dbg _ _ (dk_size k) HA). destruct (dk_size k <=? s_max s - blen s) eqn:Er.
  2:{ intros H; inversion H. apply cshape_same; [apply same_push|exact EA|cbn; discriminate]. }
  assert (Hl : blen s < s_max s) by (destruct k; cbn [dk_size] in Er; lia).
  destruct (arity_check st line col args 1) as [st0|] eqn:EAr.
  { intros H; inversion H; subst. apply cshape_same; [eapply arity_same; eauto|exact EA|eapply arity_errors; eauto]. }
  destruct args as [|a rest]; [discriminate|].
  set (d := mkDE k (curr_name st) line col (curr_addr s) a).
  destruct (data_apply dbg st d true) as [[r0 d'] st1|p|] eqn:ED; cbn [CtxModel.bind]; try discriminate.
  destruct (data_apply_fresh dbg st s d r0 d' st1 G EA Hl eq_refl ED) as (A1 & K1 & F1 & L1 & C1 & [(-> & C)|(Hne & S1)]).
  { intros H; inversion H; subst. exact C. }
  assert (D : (do w, st2 <- write_data dbg st1 d' (padding (dk_size k));
               match w with
               | Some l => Ret (Some l) st2
               | None => do _, st3 <- add_task st2 (DataTask d' false) RLocal; Ret None st3
               end) = Ret r st' -> cshape s (dk_size k) st r st').
  { destruct (same_good _ _ S1 G) as (G1 & M1). pose proof (same_active _ _ _ S1 EA) as EA1.
    unfold write_data. cbn [de_addr d] in A1. rewrite A1.
    destruct (write_stmt dbg st1 _ _ _ _ _ _ _ _) as [w st2|p|] eqn:EW; cbn [CtxModel.bind]; try discriminate.
    destruct (fresh_cshape dbg st st1 s _ _ _ _ _ _ _ w st2 S1 (proj1 G1) EA1 Hl EW) as (C & _). rewrite len_padding in C.
    destruct w as [l|]; [intros H; inversion H; subst; exact C|].
    destruct (add_task st2 (DataTask d' false) RLocal) as [[] st3|p|] eqn:ET2; cbn [CtxModel.bind]; try discriminate.
    intros H; inversion H; subst. destruct (add_task_same_seg _ _ _ _ ET2) as (O1 & O2). eapply cshape_eq; eauto. eapply add_task_errors; eauto. }
  destruct r0; [congruence|exact D|exact D].
Qed.

Lemma align_capacity dbg st s line col a v ch p r st' : good st -> active st = Active s ->
  ctx_eval st a = EvOk (AConst v) (Complete ch) -> u32_of v = Some (Npos p) ->
  dir_align dbg st line col [a] = Ret r st' ->
  cshape s (if curr_addr s mod Npos p =? 0 then 0 else Npos p - curr_addr s mod Npos p) st r st'.
Proof.
  intros G EA Ev Eu. unfold dir_align. rewrite EA. pose proof G as ((HR & HA) & _). rewrite EA in HA.
  cbn [arity_check length Nat.eqb]. unfold eval_now. rewrite Ev. cbn [CtxModel.bind]. rewrite Eu.
  destruct (curr_addr s mod N.pos p =? 0).
  - intros H; inversion H; subst. split; [reflexivity|]. right. exists []. split; [reflexivity|].
    destruct HA as (H1 & _). split; [lia|]. rewrite set_buf_nil. exact EA.
  - rewrite (has_remaining_spec dbg _ _ _ HA).
    destruct (N.pos p - curr_addr s mod N.pos p <=? s_max s - blen s).
    + intros H. rewrite <- (len_padding (N.pos p - curr_addr s mod N.pos p)).
      eapply seg_update_cshape; [apply same_refl|exact (proj1 G)|exact EA|exact H].
    + intros H; inversion H. apply cshape_same; [apply same_push|exact EA|cbn; discriminate].
Qed.

Lemma bytes_capacity dbg fs st s line col d v n r st' : good st -> active st = Active s ->
  match d with
  | DStr => Some (len v)
  | DHex => match hex_decode v None [] with HexOk bytes => Some (len bytes) | _ => None end
  | DFile => match path_stack st with
             | curr :: _ => option_map (fun b => len b) (fs (resolve_path curr v))
             | [] => None
             end
  | _ => None
  end = Some n ->
  dir_bytes dbg fs st line col d [AStr v] = Ret r st' -> cshape s n st r st'.
Proof.
  intros G EA En. unfold dir_bytes. rewrite EA. pose proof G as ((HR & HA) & _). rewrite EA in HA.
  cbn [arity_check length Nat.eqb].
  destruct d; try discriminate.
  - destruct (hex_decode v None []) as [bytes| |]; try discriminate. inversion En; subst.
    intros H. eapply seg_update_cshape; [apply same_refl|exact (proj1 G)|exact EA|exact H].
  - inversion En; subst. intros H. eapply seg_update_cshape; [apply same_refl|exact (proj1 G)|exact EA|exact H].
  - destruct (path_stack st) as [|curr ps]; [discriminate|].
    destruct (fs (resolve_path curr v)) as [bytes|]; [|discriminate]. cbn [option_map] in En. inversion En; subst.
    rewrite (has_remaining_spec dbg _ _ _ HA). destruct (CtxSeg.len bytes <=? s_max s - blen s) eqn:Ef.
    + rewrite (write_chunks_exact dbg _ _ s HA); rewrite concat_chunks; [|destruct HA as (HH1 & _); unfold CtxSeg.len in Ef; lia].
      cbn [seg_update]. intros H; inversion H. split; [reflexivity|]. right. exists bytes.
      split; [reflexivity|]. split; [destruct HA as (HH1 & _); unfold CtxSeg.len in Ef; lia|reflexivity].
    + intros H; inversion H. apply cshape_same; [apply same_push|exact EA|cbn; discriminate].
Qed.

Theorem stmt_capacity dbg fs inc st s e n r st' : good st -> active st = Active s -> stmt_size fs st s e = Some n ->
  step dbg fs inc st e = Ret r st' -> cshape s n st r st'.
Proof.
  intros G EA. unfold stmt_size, step. destruct (e_val e) as [name|name args|name args]; [discriminate| |].
  - unfold process_directive. destruct (dir_of name) as [[]|]; try discriminate.
    + destruct args as [|a [|? ?]]; try discriminate.
      destruct (ctx_eval st a) as [a' ev|a' e0|p] eqn:Ev; try discriminate.
      destruct a' as [v| | | | | | | | | | | | | | | | |]; try discriminate.
      destruct ev as [ch|ch cause]; try discriminate.
      destruct (u32_of v) as [[|p]|] eqn:Eu; try discriminate. cbv zeta. intros H; inversion H; subst.
      eapply align_capacity; eauto.
    + intros H; inversion H; subst. apply data_capacity; assumption.
    + destruct args as [|a rest]; try discriminate. destruct a; try discriminate. destruct rest; try discriminate.
      intros H. eapply (bytes_capacity dbg fs st s _ _ DHex); eauto.
    + destruct args as [|a rest]; try discriminate. destruct a; try discriminate. destruct rest; try discriminate.
      intros H. eapply (bytes_capacity dbg fs st s _ _ DStr); eauto.
    + destruct args as [|a rest]; try discriminate. destruct a; try discriminate. destruct rest; try discriminate.
      intros H. eapply (bytes_capacity dbg fs st s _ _ DFile); eauto.
  - rewrite EA. destruct (AsmStmtModel.template name) as [t|] eqn:ET; [|discriminate]. cbn [option_map].
    intros H; inversion H; subst. eapply instr_capacity; eauto.
Qed.

(* the refusal in plain words: when the statement does not fit, nothing is written anywhere and an error is returned *)
Corollary stmt_overflow dbg fs inc st s e n r st' : good st -> active st = Active s -> stmt_size fs st s e = Some n ->
  s_max s < blen s + n -> step dbg fs inc st e = Ret r st' ->
  output st' = output st /\ active st' = active st /\ r <> None /\ errors st' <> [].
Proof.
  intros G EA En Ho E. destruct (stmt_capacity dbg fs inc st s e n r st' G EA En E) as (O & [(A & R & He)|(data & _ & F & _)]).
  - split; [exact O|]. split; [congruence|]. split; [exact R|exact He].
  - lia.
Qed.
