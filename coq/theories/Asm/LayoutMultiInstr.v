(* C05 for projects: a statement whose evaluated operand is deferred by a DECLARED name (status SDeferred) is deferred
   whatever the `local` flag (cf. LayoutInstrD.assemble_args_defer_fwd for an unknown name). *)
From Coq Require Import ZArith NArith List Bool Lia ZifyBool ZifyNat ZifyN.
From Trion Require Import Text.Types Arm.Instr Arm.AsmStmtModel Arm.EncodeModel Asm.LayoutInstr Asm.LayoutInstrC Asm.LayoutInstrD.
Import ListNotations.
Open Scope N_scope.

Lemma assemble_args_defer_fwd_d ev evF l lF addr t args pos a a1 n iF sF :
  eval_pos t = Some pos -> nth_error args pos = Some a -> ev a = (a1, SDeferred n) ->
  assemble_args evF lF addr t (mkAst args 0) = COk iF sF ->
  assemble_args ev l addr t (mkAst args 0) = CDefer n (mkAst (set_nth pos a1 args) 0).
Proof.
  intros EP N0 Ea. destruct t; try discriminate EP; cbn [eval_pos] in EP; inversion EP; subst pos; open_args; intros H;
    fwd_loop; unfold eval_at; cbn [a_args a_done Nat.leb]; rewrite N0, Ea; reflexivity.
Qed.
