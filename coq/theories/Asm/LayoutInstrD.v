(* C05 proofs, part 3b: deferred instruction statements of EVERY template (ADR, LDR literal, immediates and memory-operand
   offsets naming a later label / .const), not only B<cond> / BL.
   * every template evaluates at most one operand, at a fixed position (eval_pos); a deferral keeps the statement with
     exactly that operand replaced by the tree the failed evaluation left (assemble_args_defer_pos);
   * replacing that operand by one that evaluates to the same tree does not change the result (assemble_args_swap):
     this is "staged assembly = direct assembly";
   * the placeholder: when the final statement encodes and its evaluated operand is a CONSTANT, the half-filled template
     the code encodes to learn the length (CtxModel.partial_instr) encodes too (partial_encodes); the length is the same
     because it depends on the mnemonic only (LayoutInstr.partial_isz).
     (When the operand reduces to a REGISTER - `CMP R8, R9 + k` with k = 0 defined later - the half-filled template
     `CMP R8, #0` does not encode although the final `CMP R8, R9` does: a defect of the implementation, outside the class.) *)
From Coq Require Import ZArith NArith List Bool Lia ZifyBool ZifyNat ZifyN.
From Trion Require Import Text.Types Arm.Instr Arm.AsmStmtModel Arm.EncodeModel Asm.LayoutInstr.
From Trion Require Asm.CtxModel.
Import ListNotations.
Open Scope N_scope.

(* the position of the one operand a template evaluates *)
Definition eval_pos (t : instr) : option nat :=
  match t with
  | Add _ _ _ _ | Sub _ _ _ _ | Asr _ _ _ | Lsl _ _ _ | Lsr _ _ _ | Rsb _ _ => Some 2%nat
  | Adr _ _ | Cmp _ _ | Mov _ _ _ | Ldr _ _ _ | Ldrb _ _ _ | Ldrh _ _ _ | Str _ _ _ | Strb _ _ _ | Strh _ _ _
  | Ldrsb _ _ _ | Ldrsh _ _ _ => Some 1%nat
  | B _ _ | Bl _ | Bkpt _ | Svc _ | Udf _ | Udfw _ => Some 0%nat
  | _ => None
  end.

Lemma is_branch_eval_pos t : is_branch t = true -> eval_pos t = Some 0%nat.
Proof. destruct t; try discriminate; reflexivity. Qed.

(* ------------------------------------------------------------------ set_nth *)
Lemma length_set_nth {A} (v : A) : forall n l, length (set_nth n v l) = length l.
Proof. induction n as [|n IH]; intros [|x l]; cbn; auto. Qed.
Lemma nth_error_set_nth_ne {A} (v : A) : forall n l q, q <> n -> nth_error (set_nth n v l) q = nth_error l q.
Proof.
  induction n as [|n IH]; intros [|x l] q Hq; cbn [set_nth]; auto.
  - destruct q; [congruence|reflexivity].
  - destruct q; [reflexivity|]. cbn [nth_error]. apply IH. congruence.
Qed.
Lemma nth_error_set_nth_eq {A} (v : A) : forall n l a, nth_error l n = Some a -> nth_error (set_nth n v l) n = Some v.
Proof. induction n as [|n IH]; intros [|x l] a H; cbn in *; try discriminate; eauto. Qed.
Lemma set_nth_set_nth {A} (v w : A) : forall n l, set_nth n v (set_nth n w l) = set_nth n v l.
Proof. induction n as [|n IH]; intros [|x l]; cbn; auto. f_equal. apply IH. Qed.
Lemma set_nth_same {A} : forall n (l : list A) a, nth_error l n = Some a -> set_nth n a l = l.
Proof. induction n as [|n IH]; intros [|x l] a H; cbn in *; try discriminate; [inversion H; reflexivity|f_equal; eauto]. Qed.

(* ------------------------------------------------------------------ a deferral names its operand *)
Lemma eval_at_defer_pos ev l pos args c s : eval_at ev l pos (mkAst args 0) = CDefer c s ->
  exists x x' sx, nth_error args pos = Some x /\ ev x = (x', sx) /\ sx <> SComplete /\ sx <> SEvalError /\ s = mkAst (set_nth pos x' args) 0.
Proof.
  unfold eval_at. cbn [a_args a_done]. destruct (nth_error args pos) as [x|] eqn:Nx; [|discriminate].
  cbn [Nat.leb]. destruct (ev x) as [a' s0] eqn:Ex. intros H. exists x, a', s0. split; [reflexivity|]. split; [exact Ex|].
  destruct s0; try discriminate H.
  - inversion H; subst. repeat split; discriminate.
  - destruct l; inversion H; subst. repeat split; discriminate.
Qed.

Ltac nd_close_pos :=
  match goal with
  | Hq : arity _ _ = CDefer _ _ |- _ => exfalso; exact (arity_nd _ _ _ _ Hq)
  | Hq : c_register _ _ = CDefer _ _ |- _ => exfalso; exact (c_register_nd _ _ _ _ Hq)
  | Hq : c_sysreg _ _ = CDefer _ _ |- _ => exfalso; exact (c_sysreg_nd _ _ _ _ Hq)
  | Hq : c_identifier _ _ = CDefer _ _ |- _ => exfalso; exact (c_identifier_nd _ _ _ _ Hq)
  | Hq : c_regset _ _ = CDefer _ _ |- _ => exfalso; exact (c_regset_nd _ _ _ _ Hq)
  | Hq : lit_offset _ _ _ = CDefer _ _ |- _ => exfalso; exact (lit_offset_nd _ _ _ _ _ Hq)
  | Hq : branch_offset _ _ _ _ _ = CDefer _ _ |- _ => exfalso; exact (branch_offset_nodefer _ _ _ _ _ _ _ Hq)
  | Hq : eval_at _ _ _ _ = CDefer _ _ |- _ =>
      st_norm; apply eval_at_defer_pos in Hq; destruct Hq as (x & x' & sx & Q1 & Q2 & Q3 & Q4 & Q5);
      repeat match goal with E : CDefer _ _ = CDefer _ _ |- _ => inversion E; clear E; subst end;
      eexists _, x, x', sx; split; [reflexivity|auto]
  end.

Lemma assemble_args_defer_pos ev l addr t args c a1 :
  assemble_args ev l addr t (mkAst args 0) = CDefer c a1 ->
  exists pos x x' sx, eval_pos t = Some pos /\ nth_error args pos = Some x /\ ev x = (x', sx) /\
    sx <> SComplete /\ sx <> SEvalError /\ a1 = mkAst (set_nth pos x' args) 0.
Proof.
  destruct t; open_args; intros H; defer_loop; cbv beta iota in *; try discriminate H; nd_close_pos.
Qed.

(* ------------------------------------------------------------------ staged = direct *)
Section Swap.
  Variables (ev : evaluator) (args : list arg) (pos : nat) (a0 a1 : arg).
  Hypothesis N0 : nth_error args pos = Some a0.
  Hypothesis SG : forall x, ev a0 = (x, SComplete) -> ev a1 = (x, SComplete).
  Let args' := set_nth pos a1 args.

  Lemma arity_swap n v s : arity n (mkAst args 0) = COk v s -> arity n (mkAst args' 0) = COk v (mkAst args' 0).
  Proof.
    unfold arity. cbn [a_args]. unfold args'. rewrite length_set_nth.
    destruct (Nat.ltb n (length args)); [discriminate|]. destruct (Nat.ltb (length args) n); [discriminate|].
    intros H; inversion H; reflexivity.
  Qed.
  Lemma c_register_swap q v s : q <> pos -> c_register q (mkAst args 0) = COk v s -> c_register q (mkAst args' 0) = COk v (mkAst args' 0).
  Proof.
    intros Hq. unfold c_register. cbn [a_args]. unfold args'. rewrite nth_error_set_nth_ne by exact Hq.
    destruct (nth_error args q) as [[]|]; try discriminate. destruct (regl s0); [|discriminate]. intros H; inversion H; reflexivity.
  Qed.
  Lemma eval_at_swap l a s : eval_at ev l pos (mkAst args 0) = COk a s -> eval_at ev l pos (mkAst args' 0) = COk a s.
  Proof.
    unfold eval_at. cbn [a_args a_done Nat.leb]. unfold args'. rewrite N0, (nth_error_set_nth_eq a1 pos args a0 N0).
    destruct (ev a0) as [x s0] eqn:E0. destruct s0; try discriminate; [|destruct l; discriminate].
    rewrite (SG _ eq_refl). cbn [a_args]. rewrite set_nth_set_nth. auto.
  Qed.
End Swap.

Ltac swap_loop N0 SG :=
  repeat (cbv beta iota in *;
    match goal with
    | H : match ?X with _ => _ end = COk _ _ |- _ =>
        let EE := fresh "EE" in
        destruct X eqn:EE; try discriminate H;
        first [ pose proof (arity_st _ _ _ _ EE); subst; rewrite (arity_swap _ _ _ _ _ _ EE)
              | pose proof (c_register_st _ _ _ _ EE); subst; rewrite (fun Hq => c_register_swap _ _ _ _ _ _ Hq EE) by discriminate
              | rewrite (eval_at_swap _ _ _ _ _ N0 SG _ _ _ EE)
              | idtac ]
    end).

Lemma assemble_args_swap ev l addr t args pos a0 a1 i s :
  eval_pos t = Some pos -> nth_error args pos = Some a0 ->
  (forall x, ev a0 = (x, SComplete) -> ev a1 = (x, SComplete)) ->
  assemble_args ev l addr t (mkAst args 0) = COk i s ->
  assemble_args ev l addr t (mkAst (set_nth pos a1 args) 0) = COk i s.
Proof.
  intros EP N0 SG. destruct t; try discriminate EP; cbn [eval_pos] in EP; inversion EP; subst pos; open_args; intros H;
    swap_loop N0 SG; cbv beta iota in *;
    repeat (match goal with E : COk _ _ = COk _ _ |- _ => inversion E; subst; clear E end);
    repeat (cbv beta iota; match goal with E : ?X = _ |- context[match ?X with _ => _ end] => rewrite E end); cbv beta iota; reflexivity.
Qed.

(* ------------------------------------------------------------------ the placeholder encodes *)
(* what the mnemonic table puts into the fields a deferred statement has not filled yet *)
Definition tmpl_ok (t : instr) : bool :=
  match t with
  | Add _ _ _ (Imm 0%Z) | Sub _ _ _ (Imm 0%Z) | Asr _ _ (Imm 1%Z) | Lsl _ _ (Imm 1%Z) | Lsr _ _ (Imm 1%Z)
  | Cmp _ (Imm 0%Z) | Mov _ _ (Reg R0) => true
  | Add _ _ _ _ | Sub _ _ _ _ | Asr _ _ _ | Lsl _ _ _ | Lsr _ _ _ | Cmp _ _ | Mov _ _ _ => false
  | Ldr _ R0 (Imm 0%Z) | Ldrb _ R0 (Imm 0%Z) | Ldrh _ R0 (Imm 0%Z) | Str _ R0 (Imm 0%Z) | Strb _ R0 (Imm 0%Z) | Strh _ R0 (Imm 0%Z) => true
  | Ldr _ _ _ | Ldrb _ _ _ | Ldrh _ _ _ | Str _ _ _ | Strb _ _ _ | Strh _ _ _ => false
  | Ldrsb _ R0 R0 | Ldrsh _ R0 R0 => true
  | Ldrsb _ _ _ | Ldrsh _ _ _ => false
  | Adr _ 0%N | B _ 0%Z | Bl 0%Z => true
  | Adr _ _ | B _ _ | Bl _ => false
  | _ => true
  end.

Lemma template_ok name t : template name = Some t -> tmpl_ok t = true.
Proof.
  unfold template, bcond. destruct (Nat.ltb (List.length name) 16); [|discriminate].
  repeat match goal with |- (if ?c then _ else _) = _ -> _ => destruct c end; intros H; inversion H; reflexivity.
Qed.

Lemma arity_len n args v s : arity n (mkAst args 0) = COk v s -> length args = n.
Proof.
  unfold arity. cbn [a_args]. destruct (Nat.ltb n (length args)) eqn:E1; [discriminate|].
  destruct (Nat.ltb (length args) n) eqn:E2; [discriminate|]. intros _.
  apply PeanoNat.Nat.ltb_ge in E1. apply PeanoNat.Nat.ltb_ge in E2. lia.
Qed.

Lemma eval_at_val ev l pos args a v v' s : nth_error args pos = Some a -> ev a = (v, SComplete) ->
  eval_at ev l pos (mkAst args 0) = COk v' s -> v' = v.
Proof. unfold eval_at. cbn [a_args a_done Nat.leb]. intros -> ->. intros H; inversion H; reflexivity. Qed.

Lemma enc_ok_bytes i hws : enc i = EncOk hws -> exists n b, enc_bytes i 4 = EbOk n b.
Proof.
  intros H. unfold enc_bytes. rewrite H. pose proof (enc_size _ _ H) as S.
  destruct (4 <? 2 * N.of_nat (length hws)) eqn:L; [|eauto]. exfalso. destruct i; cbn [isz] in S; lia.
Qed.

Ltac pe_regs :=
  repeat match goal with
  | EE : c_register ?q (mkAst ?args 0) = COk _ _ |- context[c_register ?q (mkAst (set_nth ?pos ?x ?args) 0)] =>
      rewrite (fun Hq => c_register_swap args pos x q _ _ Hq EE) by discriminate
  end.

Ltac enc_fin H :=
  cbn [enc] in H |- *;
  repeat match type of H with context[match ?x with _ => _ end] => is_var x; destruct x; cbv iota in H end;
  unfold two_low, three_low, guard in H |- *;
  change (reg_eqb R0 PC) with false in *; change (reg_eqb R0 SP) with false in *; change (reg_ge8 R0) with false in *; cbv iota;
  repeat match goal with |- context[reg_eqb ?a ?b] => destruct (reg_eqb a b) eqn:? end;
  repeat match goal with |- context[reg_ge8 ?a] => destruct (reg_ge8 a) eqn:? end;
  repeat match goal with f : bool |- _ => destruct f end;
  cbn [orb negb andb] in H |- *;
  try (repeat match type of H with context[if ?b then _ else _] => destruct b end; discriminate H);
  repeat match goal with |- context[if ?b then _ else _] => let Q := fresh in destruct b eqn:Q; [vm_compute in Q; discriminate Q|] end;
  unfold s1, d2; eauto.

Ltac pe_loop :=
  repeat (cbv beta iota in *;
    match goal with
    | H : match ?X with _ => _ end = COk _ _ |- _ =>
        let EE := fresh "EE" in destruct X eqn:EE; try discriminate H;
        first [ pose proof (arity_st _ _ _ _ EE); subst | pose proof (c_register_st _ _ _ _ EE); subst | idtac ]
    end).

Lemma partial_encodes ev l addr t args pos a v x' iF sF hws :
  tmpl_ok t = true -> eval_pos t = Some pos -> nth_error args pos = Some a -> ev a = (v, SComplete) ->
  (exists w, v = AConst w) \/ (exists inner, v = AAddr inner) ->
  assemble_args ev l addr t (mkAst args 0) = COk iF sF -> enc iF = EncOk hws ->
  exists hws', enc (CtxModel.partial_instr t (mkAst (set_nth pos x' args) 0)) = EncOk hws'.
Proof.
  intros TO EP N0 Ea Sh AF EN.
  destruct t; try discriminate EP; cbn [eval_pos] in EP; inversion EP; subst pos; clear EP;
    cbn [tmpl_ok] in TO; repeat match type of TO with match ?x with _ => _ end = true => destruct x; try discriminate TO end; clear TO;
    revert AF; open_args; intros AF; pe_loop; cbv beta iota in AF;
    repeat match goal with EE : eval_at _ _ _ _ = COk _ _ |- _ =>
      let Q := fresh "Q" in pose proof (eval_at_val _ _ _ _ _ _ _ _ N0 Ea EE) as Q; clear EE; first [subst v | rewrite <- Q in * ] end;
    (destruct Sh as [(w & Sw)|(inner & Sw)]; try discriminate Sw);
    repeat match goal with E : COk _ _ = COk _ _ |- _ => inversion E; subst; clear E end;
    try (inversion Sw; subst; clear Sw);
    cbn [CtxModel.partial_instr]; cbv zeta; cbn [a_args]; rewrite ?length_set_nth;
    repeat match goal with EE : arity _ _ = COk _ _ |- _ => rewrite (arity_len _ _ _ _ EE); clear EE end;
    cbn [Nat.eqb]; unfold CtxModel.reg_at; pe_regs; cbv beta iota;
    try (destruct c; vm_compute; eauto; fail); try enc_fin EN.
Qed.

Lemma partial_eval_pos t a : eval_pos (CtxModel.partial_instr t a) = eval_pos t.
Proof. destruct t; cbn [CtxModel.partial_instr]; cbv zeta; split_goal; reflexivity. Qed.

(* ------------------------------------------------------------------ only the evaluated operand matters *)
Lemma assemble_args_noeval ev1 ev2 l1 l2 addr t st : eval_pos t = None ->
  assemble_args ev1 l1 addr t st = assemble_args ev2 l2 addr t st.
Proof. destruct t; try discriminate; reflexivity. Qed.

Lemma eval_at_mono_pos ev1 ev2 l1 l2 pos args a v s : nth_error args pos = Some a ->
  (forall x, ev1 a = (x, SComplete) -> ev2 a = (x, SComplete)) ->
  eval_at ev1 l1 pos (mkAst args 0) = COk v s -> eval_at ev2 l2 pos (mkAst args 0) = COk v s.
Proof.
  intros N0 LE. unfold eval_at. cbn [a_args a_done Nat.leb]. rewrite N0.
  destruct (ev1 a) as [x s0] eqn:E1. destruct s0; try discriminate; [|destruct l1; discriminate].
  rewrite (LE _ eq_refl). auto.
Qed.

Ltac mono_pos_loop N0 LE :=
  repeat (cbv beta iota in *;
    match goal with
    | H : match ?X with _ => _ end = COk _ _ |- _ =>
        let EE := fresh "EE" in
        destruct X eqn:EE; try discriminate H;
        first [ pose proof (arity_st _ _ _ _ EE); subst
              | pose proof (c_register_st _ _ _ _ EE); subst
              | rewrite (eval_at_mono_pos _ _ _ _ _ _ _ _ _ N0 LE EE)
              | idtac ]
    end).

Lemma assemble_args_mono_pos ev1 ev2 l1 l2 addr t args pos a i s :
  eval_pos t = Some pos -> nth_error args pos = Some a ->
  (forall x, ev1 a = (x, SComplete) -> ev2 a = (x, SComplete)) ->
  assemble_args ev1 l1 addr t (mkAst args 0) = COk i s -> assemble_args ev2 l2 addr t (mkAst args 0) = COk i s.
Proof.
  intros EP N0 LE. destruct t; try discriminate EP; cbn [eval_pos] in EP; inversion EP; subst pos; open_args; intros H;
    mono_pos_loop N0 LE; cbv beta iota in *;
    repeat (match goal with E : COk _ _ = COk _ _ |- _ => inversion E; subst; clear E end);
    repeat (cbv beta iota; match goal with E : ?X = _ |- context[match ?X with _ => _ end] => rewrite E end); cbv beta iota; reflexivity.
Qed.

(* the first stage of a statement the final table accepts: an unknown name in the evaluated operand defers it *)
Ltac fwd_loop :=
  repeat (cbv beta iota in *;
    match goal with
    | H : match ?X with _ => _ end = COk _ _ |- _ =>
        lazymatch X with
        | context[eval_at] => fail
        | _ => let EE := fresh "EE" in
               destruct X eqn:EE; try discriminate H;
               first [ pose proof (arity_st _ _ _ _ EE); subst | pose proof (c_register_st _ _ _ _ EE); subst | idtac ]
        end
    end).

Lemma assemble_args_defer_fwd ev evF lF addr t args pos a a1 n iF sF :
  eval_pos t = Some pos -> nth_error args pos = Some a -> ev a = (a1, SNoSuchVar n) ->
  assemble_args evF lF addr t (mkAst args 0) = COk iF sF ->
  assemble_args ev true addr t (mkAst args 0) = CDefer n (mkAst (set_nth pos a1 args) 0).
Proof.
  intros EP N0 Ea. destruct t; try discriminate EP; cbn [eval_pos] in EP; inversion EP; subst pos; open_args; intros H;
    fwd_loop; unfold eval_at; cbn [a_args a_done Nat.leb]; rewrite N0, Ea; reflexivity.
Qed.

(* a statement that assembles has evaluated its operand completely *)
Lemma eval_at_ok_complete ev l pos args a v s : nth_error args pos = Some a ->
  eval_at ev l pos (mkAst args 0) = COk v s -> ev a = (v, SComplete).
Proof.
  intros N0. unfold eval_at. cbn [a_args a_done Nat.leb]. rewrite N0. destruct (ev a) as [x s0].
  destruct s0; try discriminate; [|destruct l; discriminate]. intros H; inversion H; reflexivity.
Qed.

Lemma assemble_args_ok_complete ev l addr t args pos a i s :
  eval_pos t = Some pos -> nth_error args pos = Some a ->
  assemble_args ev l addr t (mkAst args 0) = COk i s -> exists v, ev a = (v, SComplete).
Proof.
  intros EP N0. destruct t; try discriminate EP; cbn [eval_pos] in EP; inversion EP; subst pos; open_args; intros H;
    pe_loop; match goal with EE : eval_at _ _ _ _ = COk _ _ |- _ => apply (eval_at_ok_complete _ _ _ _ _ _ _ N0) in EE; eauto end.
Qed.

Lemma assemble_args_pos_some ev l addr t args pos i s :
  eval_pos t = Some pos -> assemble_args ev l addr t (mkAst args 0) = COk i s -> exists a, nth_error args pos = Some a.
Proof.
  intros EP. destruct t; try discriminate EP; cbn [eval_pos] in EP; inversion EP; subst pos; open_args; intros H;
    match type of H with match ?X with _ => _ end = _ => destruct X eqn:EE; try discriminate H end;
    apply arity_len in EE;
    match goal with |- exists a, nth_error ?l ?n = _ => destruct (nth_error l n) eqn:Q; [eauto|apply nth_error_None in Q; lia] end.
Qed.

Lemma enc_bytes_enc i n b : enc_bytes i 4 = EbOk n b -> exists hws, enc i = EncOk hws.
Proof. unfold enc_bytes. destruct (enc i); [eauto|discriminate]. Qed.

(* the placeholder has the length of the final encoding *)
Lemma placeholder_length ev l addr name t args pos a v x' iF sF hws :
  template name = Some t -> eval_pos t = Some pos -> nth_error args pos = Some a -> ev a = (v, SComplete) ->
  (exists w, v = AConst w) \/ (exists inner, v = AAddr inner) ->
  assemble_args ev l addr t (mkAst args 0) = COk iF sF -> enc iF = EncOk hws ->
  exists hws', enc (CtxModel.partial_instr t (mkAst (set_nth pos x' args) 0)) = EncOk hws' /\ length hws' = length hws.
Proof.
  intros Et EP N0 Ea Sh AF EN.
  destruct (partial_encodes ev l addr t args pos a v x' iF sF hws (template_ok _ _ Et) EP N0 Ea Sh AF EN) as (hws' & EN').
  exists hws'. split; [exact EN'|]. pose proof (enc_size _ _ EN') as S1. pose proof (enc_size _ _ EN) as S2.
  rewrite partial_isz in S1. rewrite (assemble_args_isz _ _ _ _ _ _ _ AF) in S2. rewrite <- S2 in S1. lia.
Qed.
