(* C05 for whole PROJECTS (`.include`, `.global`, `.import`, `.export`): definitions.
   The reference is Asm/LayoutSpecExt.v (`layout_spec_ext`: one symbol table per file instance, two passes).  This file defines
   * parse_els / parse_ref: the statement list of a file text (what the driver ocaml/drv_C13.ml hands to the oracle);
   * image_x: the byte image of the reference's placed statements;
   * the CLASS of projects the theorems of Asm/LayoutMulti*.v are proved for (`cls`, `C05_project_class`): a walk of the include
     tree alongside LayoutSpecExt.xfile that records, per statement, the single-file class of Asm/LayoutStep.stmt_okx (w.r.t. the
     FINAL table of the statement's file instance), the no-collision condition of Asm/LayoutWf.v, and the scope restrictions
     (an operand mentions a name that is declared by `.global` but not yet valued only when it IS that name, in a data or instruction
     statement; `.import` of a name the includer has valued);
   * the simulation invariant between the context (Asm/CtxModel.v) and pass 1 of the reference: MemI (bytes), FInv (one open file).
   Definitions only; proofs in Asm/LayoutMulti{Spec,Eval,Mem,Step,File,Top}.v. *)
From Coq Require Import ZArith NArith PeanoNat List Bool Lia ZifyBool ZifyNat ZifyN String.
From Trion Require Import Text.Types Expr.I64 Expr.EvalModel Expr.Denote Expr.C08Sound Arm.Instr Arm.DisplayModel Arm.AsmStmtModel Arm.EncodeModel
  Mem.MapModel Mem.DictSpec Mem.MapProofs Mem.MapLemmas
  Asm.CtxModel Asm.SegProofs Asm.LayoutSpec Asm.LayoutWf Asm.LayoutEval Asm.LayoutInstr Asm.LayoutInstrD Asm.LayoutDict Asm.LayoutSim
  Asm.LayoutStage Asm.LayoutStep Asm.LayoutFinal Asm.LayoutProg.
From Trion Require Text.ParseModel.
From Trion Require Import Asm.LayoutSpecExt.
Import ListNotations.
Open Scope N_scope.

(* ------------------------------------------------------------------ the statements of a file text *)
Fixpoint all_ok (items : list Text.ParseModel.item) : option (list element) :=
  match items with
  | [] => Some []
  | Text.ParseModel.IOk e :: r => option_map (cons e) (all_ok r)
  | Text.ParseModel.IErr _ :: _ => None
  end.

Definition parse_els (text : list N) : option (list element) :=
  match parse_source text with
  | Parsed items None => all_ok items
  | _ => None
  end.

(* the `parse` argument of LayoutSpecExt.layout_spec_ext *)
Definition parse_ref (text : list N) : option (list element_value) := option_map (map e_val) (parse_els text).

(* ------------------------------------------------------------------ the reference image *)
Definition image_dict_x (placed : list ((N * list N) * (N * item))) : dict :=
  fold_left (fun d x => d_write d (fst (fst x)) (snd (fst x))) placed [].
Definition image_x (placed : list ((N * list N) * (N * item))) : list MapModel.seg := runs (image_dict_x placed).

(* the root walk of layout_spec_ext, returning the final pass-1 state (tables of all file instances) *)
Definition px0 : px := mkPx None [LayoutSpecExt.mkFrame 1 [] []; LayoutSpecExt.mkFrame 0 [] []] 2 [] [].
Definition px_final (fsr : str -> option (list N)) (prs : list N -> option (list element_value)) (prog : list element_value) : option px :=
  match xfile 8 fsr prs px0 prog with Some x1 => xpop x1 | None => None end.
(* the final table of file instance id *)
Definition EF_of (x2 : px) : N -> env := fun id => final_env 16 (x_done x2) id.

(* ------------------------------------------------------------------ tables *)
Definition bind_tbl (b : option LayoutSpecExt.bind) : option (option Z) :=
  match b with None => None | Some (BVal v) => Some (Some v) | Some _ => Some None end.
(* the context's table for a file instance holds exactly the reference's bindings: a value, or a bare declaration *)
Definition TblS (tbl : table) (e : senv) : Prop := forall n, tbl_get tbl n = bind_tbl (sget e n).

(* well-formed binding lists: no register names, no BImp, a value only over nothing or over a bare declaration *)
Fixpoint swf (e : senv) : Prop :=
  match e with
  | [] => True
  | (n, b) :: r =>
      AsmStmtModel.is_register n = false /\ b <> BImp /\
      match b with BVal _ => sget r n = None \/ sget r n = Some BDecl | _ => sget r n = None end /\ swf r
  end.

(* the valued names as a context table *)
Definition tbl_of_env (e : env) : table := map (fun nv => (fst nv, Some (snd nv))) e.

(* ------------------------------------------------------------------ the reference bytes placed so far *)
Fixpoint gdx (EF : N -> env) (items : list (N * (N * item))) : dict :=
  match items with
  | [] => []
  | (a, (id, it)) :: r => match pass2_item (EF id) a it with Some bs => d_write (gdx EF r) a bs | None => gdx EF r end
  end.

Definition flat_items (items : list (N * (N * item))) : list (N * item) := map (fun ai => (fst ai, snd (snd ai))) items.

(* ------------------------------------------------------------------ the class *)
(* the operands of a statement that are looked at (not the name a `.const` introduces; the name of a `.global` / `.export` /
   `.import` counts: the reference already demands that it is valued or absent in the file's own table) *)
Definition eval_args (ev : element_value) : list arg :=
  match ev with
  | ELabel _ => []
  | EInstruction _ args => args
  | EDirective name args => if dname name "const" then tl args else args
  end.

(* no identifier of the operand is declared (by `.global`) but not yet valued in the table *)
Definition clean (e : senv) (a : arg) : Prop := forall n, In n (LayoutEval.idents a) -> sget e n <> Some BDecl.

(* ... or the operand is such a name itself, nothing else (`.global main; ... B main; .du32 main; ... main:`): allowed as the
   operand of .du8/.du16/.du32 and of an instruction statement, which are deferred to the end of the file *)
Definition bare_decl (e : senv) (a : arg) : Prop := exists n, a = AIdent n /\ sget e n = Some BDecl.
Definition may_defer (ev : element_value) : bool :=
  match ev with
  | EInstruction _ _ => true
  | EDirective name _ => dname name "du8" || dname name "du16" || dname name "du32"
  | ELabel _ => false
  end.

(* no_collision (Asm/LayoutWf.v) for one step of the walk *)
Definition fresh_x (x : px) (ev : element_value) (x' : px) : Prop :=
  (forall c, is_addr ev = true -> x_cur x' = Some c -> ~ covered (flat_items (x_items x)) c) /\
  (forall a idit y, x_items x' = (a, idit) :: x_items x -> a <= y -> y < a + item_size (snd idit) -> ~ covered (flat_items (x_items x)) y).

Section Class.
  Variables (fs fsr : str -> option (list N)) (prs : list N -> option (list element_value)) (EF : N -> env).

  (* one statement that is not an `.include`, in the file at `path` whose frame is the top of x_stack x *)
  Definition stmt_cls (path : str) (x : px) (ev : element_value) : Prop :=
    match x_stack x with
    | f :: p :: _ =>
        (forall a, In a (eval_args ev) -> clean (f_env f) a \/ (may_defer ev = true /\ bare_decl (f_env f) a)) /\
        stmt_okx fs fsr path (EF (f_id f)) (vals (f_env f)) ev /\
        (forall name n, ev = EDirective name [AIdent n] -> dname name "import" = true -> exists v, sget (f_env p) n = Some (BVal v))
    | _ => False
    end.

  (* the walk: fuel = include depth as in xfile; `open` = the files being assembled above `path` *)
  Fixpoint cls (fuel : nat) (open : list str) (path : str) (x : px) (l : list element_value) : Prop :=
    match fuel with
    | O => True
    | S k =>
        (fix go (x : px) (l : list element_value) : Prop :=
           match l with
           | [] => True
           | e :: r =>
               match include_name e with
               | Some v =>
                   let cpath := resolve_path path v in
                   fsr v = fs cpath /\ ~ In cpath (path :: open) /\
                   match fsr v with
                   | Some text =>
                       match prs text with
                       | Some prog =>
                           cls k (path :: open) cpath (xpush x) prog /\
                           match xfile k fsr prs (xpush x) prog with
                           | Some x1 => match xpop x1 with Some x' => go x' r | None => True end
                           | None => True
                           end
                       | None => True
                       end
                   | None => True
                   end
               | None =>
                   stmt_cls path x e /\
                   match xstep fsr x e with Some x' => fresh_x x e x' /\ go x' r | None => True end
               end
           end) x l
    end.
End Class.

(* the class of a project: root file `path` with statements `prog`, files read through fs; the reference reads a file name
   relative to the directory of the root file (LayoutFinal.rel_fs), as the context does for the root *)
Definition C05_project_class (fs : str -> option (list N)) (path : str) (prog : list element_value) : Prop :=
  match px_final (rel_fs fs path) parse_ref prog with
  | Some x2 => cls fs (rel_fs fs path) parse_ref (EF_of x2) 8 [] path px0 prog
  | None => False
  end.

(* ------------------------------------------------------------------ the invariant: bytes *)
Definition pend := (task * list N)%type.
Definition ploc (st : state) (tb : pend) : Prop := located st (fst tb).
Definition patb (G : dict) (tb : pend) : Prop := at_bytes G (task_addr (fst tb)) (snd tb) /\ task_size (fst tb) = mlen (snd tb).

(* the image of the context (merged map overlaid with the active buffer) is the reference dictionary G outside the ranges of
   the pending tasks pd (of every open file); each pending task's placeholder is allocated, and G holds its final bytes *)
Record MemI (st : state) (cur : option N) (G : dict) (pd : list pend) : Prop := mkMemI {
  mi_rep : Rep (output st);
  mi_cur : match cur with
           | None => active st = Inactive
           | Some a => exists sg, active st = Active sg /\ SegInv (output st) sg /\ a = s_base sg + blen sg
           end;
  mi_err : errors st = [];
  mi_asc : asc 0 SPACE G;
  mi_dom : forall x, view st x <> None <-> d_get G x <> None;
  mi_loc : Forall (ploc st) pd;
  mi_atb : Forall (patb G) pd;
  mi_view : forall x, (forall tb, In tb pd -> ~ in_task (fst tb) x) -> view st x = d_get G x;
  mi_tight : Tight st
}.

(* what a pending task of the open file will do at the end of the file, independent of the dictionary *)
Definition PendE (E : env) (tb : pend) : Prop :=
  match fst tb with
  | DataTask d false =>
      exists a0 v, fwd (rho E) a0 (de_arg d) /\ den64 (rho E) a0 = Some v /\
        ((0 <=? v)%Z && (v <=? dk_max (de_kind d))%Z = true) /\ den64 (rho E) (de_arg d) <> None /\
        snd tb = le_n (dk_size (de_kind d)) (Z.to_N v)
  | InstrTask ai false =>
      exists args pos a0 a1 iF sF nF, ai_ast ai = mkAst (AsmStmtModel.set_nth pos a1 args) 0 /\ eval_pos (ai_instr ai) = Some pos /\
        nth_error args pos = Some a0 /\ stg E a0 a1 /\
        assemble_args (final_ev E) false (ai_addr ai) (ai_instr ai) (mkAst args 0) = COk iF sF /\
        enc_bytes iF 4 = EbOk nF (snd tb)
  | GlobalTask _ _ _ => snd tb = []
  | _ => False
  end.

(* the names the pending `.global` tasks will hand up, in statement order *)
Definition globs (own : list pend) : list str :=
  flat_map (fun tb => match fst tb with GlobalTask n _ _ => [n] | _ => [] end) own.

(* ------------------------------------------------------------------ the invariant: one open file *)
(* path / open: the file being assembled and the files above it; f, p: its frame and its includer's frame in x;
   own: its pending tasks, anc: the pending tasks of the files above it, gts = the includer's pending tasks *)
Record FInv (EF : N -> env) (path : str) (open : list str) (f p : LayoutSpecExt.frame) (x : px) (st : state)
            (own anc : list pend) (gts : list task) : Prop := mkFInv {
  fi_stack : exists rest, x_stack x = f :: p :: rest;
  fi_mem : MemI st (x_cur x) (gdx EF (x_items x)) (own ++ anc);
  fi_loc : exists tbl, locals st = Some tbl /\ TblS tbl (f_env f);
  fi_glo : TblS (globals st) (f_env p);
  fi_path : path_stack st = path :: open;
  fi_lt : local_tasks st = Some (map fst own);
  fi_gt : global_tasks st = gts;
  fi_own : Forall (PendE (EF (f_id f))) own;
  fi_glob : globs own = rev (f_glob f);
  fi_swf : swf (f_env f) /\ swf (f_env p);
  fi_env : env_le (vals (f_env f)) (EF (f_id f))
}.
