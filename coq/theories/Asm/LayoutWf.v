(* C05 oracle, second part: when is a program WELL-FORMED per the reference layout (Asm/LayoutSpec.v), so that the
   assembler must accept it without a diagnostic?  Spec file: definitions only, no proofs.
   layout_spec being defined already says: every statement has a size and an address below 2^32, .addr/.align/.const
   operands have values in the table so far, names are fresh and not registers (pass 1); every .du8/.du16/.du32 value is
   in range and every instruction statement assembles and encodes in the final table (pass 2).
   What is left is that regions do not collide: *)
From Coq Require Import ZArith NArith List Bool String.
From Trion Require Import Text.Types Asm.LayoutSpec.
Import ListNotations.
Open Scope N_scope.

(* the number of bytes pass 1 reserves for an item *)
Definition item_size (it : item) : N :=
  match it with
  | IPad n => n
  | IData size _ => size
  | IBytes b => N.of_nat (List.length b)
  | IInstr name _ => match instr_size name with Some sz => sz | None => 0 end
  end.

(* address x holds a byte of one of the items *)
Definition covered (items : list (N * item)) (x : N) : Prop :=
  exists a it, In (a, it) items /\ a <= x /\ x < a + item_size it.

Definition is_addr (e : element_value) : bool :=
  match e with EDirective name _ => dname name "addr" | _ => false end.

(* no_collision: walking the program with pass 1,
   (1) an .addr never selects an address that holds a byte of an earlier statement, and
   (2) no byte of a statement falls on a byte of an earlier statement. *)
Definition no_collision (fs : str -> option (list N)) (prog : list element_value) : Prop :=
  forall pre e post s0 s1,
    prog = pre ++ e :: post -> pass1 fs (mkP1 None [] []) pre = Some s0 -> pass1_step fs s0 e = Some s1 ->
    (forall x, is_addr e = true -> p_cur s1 = Some x -> ~ covered (p_items s0) x) /\
    (forall a it x, p_items s1 = (a, it) :: p_items s0 -> a <= x -> x < a + item_size it -> ~ covered (p_items s0) x).

(* ------------------------------------------------------------------ executable form of no_collision (sound: Asm/LayoutCheck.v) *)
Definition coveredb (items : list (N * item)) (x : N) : bool :=
  existsb (fun p => (fst p <=? x) && (x <? fst p + item_size (snd p))) items.
Definition addrs (a n : N) : list N := map (fun i => a + N.of_nat i) (seq 0 (N.to_nat n)).
Definition nc_step_ok (s0 : p1) (e : element_value) (s1 : p1) : bool :=
  (if is_addr e then match p_cur s1 with Some x => negb (coveredb (p_items s0) x) | None => true end else true) &&
  match p_items s1 with
  | (a, it) :: r =>
      if Nat.eqb (List.length r) (List.length (p_items s0))
      then forallb (fun x => negb (coveredb (p_items s0) x)) (addrs a (item_size it)) else true
  | [] => true
  end.
Fixpoint nc_check (fs : str -> option (list N)) (s : p1) (l : list element_value) : bool :=
  match l with
  | [] => true
  | e :: r => match pass1_step fs s e with Some s1 => nc_step_ok s e s1 && nc_check fs s1 r | None => true end
  end.
