(* C14, the Accept direction, part 3: whole files and the pipeline follow the reading of Asm/ScopeVerdictAbs.v.
   - tsize / size_invariant / NC: an included file is never one of the files being assembled (an expansion of a file on the include
     stack is at least as large as the tree being run, an included tree is strictly smaller): the recursion check of `.include`
     never fires on a project the oracle expands;
   - m_tasks / m_loop: the end-of-file loop runs the deferred tasks of the reading;
   - SimFile / sim_items: Context::assemble of a file instance returns Ok with the tables and words of `arun` (or runs out of
     include fuel), by induction on the include depth;
   - sim_root / sim_pipeline: the root file and the pipeline: Done Success [] with the single region made of the words.
   Proof file (no model definitions). *)
From Coq Require Import ZArith NArith PeanoNat List Bool Lia ZifyBool ZifyNat ZifyN.
From Trion Require Import Text.Types.
From Trion Require Text.ParseModel Arm.AsmStmtModel Expr.EvalModel.
From Trion Require Import Mem.MapModel Mem.MapProofs Asm.CtxModel Asm.SegProofs.
From Trion Require Import Asm.ScopeProofs Asm.ScopeValue Asm.ScopeIso.
From Trion Require Asm.Ctx06Proofs Asm.LayoutProofs.
From Trion Require Import Asm.ScopeText Asm.ScopeLink Asm.ScopeLinkOcc.
From Trion Require Import Asm.ScopeVerdictAbs Asm.ScopeVerdictSim.
Import ListNotations.
Local Open Scope nat_scope.

Local Arguments Z.mul : simpl never.
Local Arguments Z.add : simpl never.
Local Arguments N.mul : simpl never.
Local Arguments N.add : simpl never.

(* ------------------------------------------------------------------ sizes: no include cycle *)
Fixpoint tsize (t : SP.tree) : nat :=
  match t with
  | SP.Node l => S ((fix go (l : list SP.item) : nat :=
                       match l with [] => 0 | SP.IChild c :: r => tsize c + go r | _ :: r => S (go r) end) l)
  end.
Definition isize (i : SP.item) : nat := match i with SP.IChild c => tsize c | _ => 1 end.
Fixpoint lsize (l : list SP.item) : nat := match l with [] => 0 | i :: r => isize i + lsize r end.

Lemma tsize_node l : tsize (SP.Node l) = S (lsize l).
Proof. cbn [tsize]. f_equal. induction l as [|i r IH]; [reflexivity|]. destruct i; cbn [lsize isize]; rewrite <- IH; reflexivity. Qed.
Lemma lsize_app a b : lsize (a ++ b) = (lsize a + lsize b)%nat.
Proof. induction a as [|i a IH]; [reflexivity|]. cbn [app lsize]. rewrite IH. lia. Qed.
Lemma lsize_in l c : In (SP.IChild c) l -> (tsize c <= lsize l)%nat.
Proof. induction l as [|i r IH]; intros H; [destruct H|]. cbn [lsize]. destruct H as [->|H]; [cbn [isize]; lia|specialize (IH H); lia]. Qed.

Lemma size_invariant files base : forall d1 d2 body k1 k2 t1 t2 k1' k2',
  SP.expand d1 files base body k1 = Some (t1, k1') -> SP.expand d2 files base body k2 = Some (t2, k2') -> tsize t1 = tsize t2.
Proof.
  induction d1 as [|d1 IH]; intros d2 body k1 k2 t1 t2 k1' k2' E1 E2; [discriminate E1|].
  destruct d2 as [|d2]; [discriminate E2|]. rewrite expand_S in E1, E2.
  destruct (goL _ _ _ body k1) as [[i1 q1]|] eqn:G1; [|discriminate E1].
  destruct (goL _ _ _ body k2) as [[i2 q2]|] eqn:G2; [|discriminate E2].
  inversion E1; inversion E2; subst. rewrite !tsize_node. f_equal.
  clear E1 E2. revert k1 k2 i1 i2 k1' k2' G1 G2. induction body as [|s r IHr]; intros k1 k2 i1 i2 k1' k2' G1 G2.
  - cbn [goL] in G1, G2. inversion G1; inversion G2; subst. reflexivity.
  - cbn [goL] in G1, G2. destruct s; try discriminate G1;
      try (destruct (goL _ _ _ r k1) as [[j1 p1]|] eqn:H1; [|discriminate G1]; destruct (goL _ _ _ r k2) as [[j2 p2]|] eqn:H2; [|discriminate G2];
           inversion G1; inversion G2; subst; cbn [lsize isize]; f_equal; eapply IHr; eauto).
    + destruct (SP.lookup_file files f) as [b|]; [|discriminate G1].
      destruct (SP.expand d1 files base b k1) as [[c1 p1]|] eqn:X1; [|discriminate G1].
      destruct (SP.expand d2 files base b k2) as [[c2 p2]|] eqn:X2; [|discriminate G2].
      destruct (goL _ _ _ r p1) as [[j1 q1]|] eqn:H1; [|discriminate G1]. destruct (goL _ _ _ r p2) as [[j2 q2]|] eqn:H2; [|discriminate G2].
      inversion G1; inversion G2; subst. cbn [lsize isize]. rewrite (IH _ _ _ _ _ _ _ _ X1 X2). f_equal. eapply IHr; eauto.
    + destruct (goL _ _ _ r (k1 + 1)%N) as [[j1 p1]|] eqn:H1; [|discriminate G1]. destruct (goL _ _ _ r (k2 + 1)%N) as [[j2 p2]|] eqn:H2; [|discriminate G2].
      inversion G1; inversion G2; subst. cbn [lsize isize]. f_equal. eapply IHr; eauto.
Qed.

(* every expansion of a file on the stack is at least as large as sz *)
Definition NC (files : list (str * SP.file)) (base : Z) (stack : list str) (sz : nat) : Prop :=
  forall o b d k t' k', In o stack -> SP.lookup_file files o = Some b -> SP.expand d files base b k = Some (t', k') -> (sz <= tsize t')%nat.

Lemma existsb_not_in (stack : list str) g : ~ In g stack -> existsb (fun o => str_eqb o g) stack = false.
Proof.
  intros H. destruct (existsb (fun o => str_eqb o g) stack) eqn:E; [|reflexivity]. exfalso. apply H.
  apply existsb_exists in E. destruct E as (o & IN & EQ). apply str_eqb_eq in EQ. subst. exact IN.
Qed.

(* ------------------------------------------------------------------ the end-of-file loop *)
Section Loop.
Variables (dbg : bool) (s0 : state) (base : Z).
Hypothesis PS : path_stack s0 <> [].

Lemma atask_words p a a' : atask p a = Some a' -> List.length (aW a') = List.length (aW a) /\ aP a' = aP a.
Proof.
  destruct p as [x|k x]; cbn [atask]; destruct (is_register x); try discriminate.
  - destruct (tbl_get (aT a) x) as [[v|]|]; try discriminate. destruct (tbl_get (aG a) x) as [[w|]|]; try discriminate.
    intros H; inversion H; subst. auto.
  - destruct (tbl_get (aT a) x) as [[v|]|]; try discriminate. destruct (_ && _); [|discriminate].
    intros H; inversion H; subst. cbn [aW aP]. split; [|reflexivity].
    generalize (N.to_nat k). induction (aW a) as [|w r IH]; intros n; [reflexivity|]. destruct n; cbn [wset List.length]; auto.
Qed.

Lemma m_tasks : forall lt P a a' ltx, fits base (List.length (aW a)) -> Forall2 (task_rel base) lt P -> atasks P a = Some a' ->
  local_round dbg lt (mst s0 base a ltx) None = Ret None (mst s0 base a' ltx).
Proof.
  induction lt as [|t lt IH]; intros P a a' ltx FT F A; inversion F; subst; cbn [atasks] in A.
  - inversion A; subst. reflexivity.
  - destruct (atask y a) as [a1|] eqn:A1; [|discriminate A]. cbn [local_round].
    rewrite (m_task dbg (fun _ => None) (fun _ _ _ => OutOfFuel) s0 base PS a ltx t y a1 FT H1 A1). cbn [CtxModel.bind].
    eapply IH; eauto. destruct (atask_words _ _ _ A1) as (L & _). rewrite L. exact FT.
Qed.

Lemma m_loop lt P a a' : fits base (List.length (aW a)) -> Forall2 (task_rel base) lt P -> atasks P a = Some a' ->
  local_loop dbg task_rounds lt (mst s0 base a []) None = Ret None (mst s0 base a' []).
Proof.
  intros FT F A. destruct lt as [|t lt].
  - inversion F; subst. cbn [atasks] in A. inversion A; subst. reflexivity.
  - unfold task_rounds. cbn [local_loop]. rewrite (m_tasks _ _ _ _ [] FT F A). cbn [CtxModel.bind mst upd local_tasks res_is_fatal].
    reflexivity.
Qed.
End Loop.

(* ------------------------------------------------------------------ the number of words = the oracle's counter *)
Lemma atasks_words : forall P a a', atasks P a = Some a' -> List.length (aW a') = List.length (aW a).
Proof.
  induction P as [|p P IH]; intros a a' H; cbn [atasks] in H; [inversion H; reflexivity|].
  destruct (atask p a) as [a1|] eqn:A1; [|discriminate H]. rewrite (IH _ _ H). exact (proj1 (atask_words _ _ _ A1)).
Qed.

Lemma astep_words i a a' : astep i a = Some a' ->
  List.length (aW a') = (match i with SP.IUse _ _ => S (List.length (aW a)) | _ => List.length (aW a) end).
Proof.
  destruct i as [x v|x|x|x|x k|c]; cbn [astep]; try discriminate; destruct (is_register x); try discriminate.
  - destruct (tbl_get (aT a) x) as [[w|]|]; intros H; inversion H; reflexivity.
  - destruct (tbl_get (aG a) x); [discriminate|]. destruct (tbl_get (aT a) x) as [[w|]|]; intros H; inversion H; reflexivity.
  - destruct (tbl_get (aG a) x) as [[w|]|]; try discriminate. destruct (tbl_get (aT a) x); intros H; inversion H; reflexivity.
  - destruct (tbl_get (aT a) x) as [[w|]|]; try discriminate. destruct (tbl_get (aG a) x); intros H; inversion H; reflexivity.
  - destruct (tbl_get (aT a) x) as [[w|]|]; [destruct (u32z w); [|discriminate]| |]; intros H; inversion H; cbn [aW]; rewrite app_length; cbn; lia.
Qed.

Lemma astep_tasks i a a' : astep i a = Some a' ->
  match i with SP.IDef _ _ | SP.IImport _ | SP.IExport _ => aP a' = aP a | _ => True end.
Proof.
  destruct i as [x v|x|x|x|x k|c]; cbn [astep]; try (intros; exact I); destruct (is_register x); try discriminate.
  - destruct (tbl_get (aT a) x) as [[w|]|]; intros H; inversion H; reflexivity.
  - destruct (tbl_get (aG a) x) as [[w|]|]; try discriminate. destruct (tbl_get (aT a) x); intros H; inversion H; reflexivity.
  - destruct (tbl_get (aT a) x) as [[w|]|]; try discriminate. destruct (tbl_get (aG a) x); intros H; inversion H; reflexivity.
Qed.

Definition CountP (files : list (str * SP.file)) (base : Z) (d : nat) : Prop := forall body k t k' G W r,
  SP.expand d files base body k = Some (t, k') -> arun d t G W = Some r -> k = N.of_nat (List.length W) ->
  k' = N.of_nat (List.length (snd r)).

Lemma aitems_count files base d : CountP files base d -> forall l its k k' a a',
  goL (SP.expand d files base) files base l k = Some (its, k') -> aitems (arun d) its a = Some a' ->
  k = N.of_nat (List.length (aW a)) -> k' = N.of_nat (List.length (aW a')).
Proof.
  intros IHd. induction l as [|st r IH]; intros its k k' a a' G A K.
  - cbn [goL] in G. inversion G; subst. cbn [aitems] in A. inversion A; subst. reflexivity.
  - cbn [goL] in G. destruct st; try discriminate G;
      try (destruct (goL _ _ _ r k) as [[is k2]|] eqn:G1; [|discriminate G]; inversion G; subst its k2; cbn [aitems] in A;
           match type of A with context[astep ?i a] => destruct (astep i a) as [a1|] eqn:A1; [|discriminate A] end;
           apply (IH is k k' a1 a' G1 A); rewrite (astep_words _ _ _ A1); exact K).
    + destruct (SP.lookup_file files f) as [b|]; [|discriminate G].
      destruct (SP.expand d files base b k) as [[tc k1]|] eqn:EX; [|discriminate G].
      destruct (goL _ _ _ r k1) as [[is k2]|] eqn:G1; [|discriminate G]. inversion G; subst its k2. cbn [aitems] in A.
      destruct (arun d tc (aT a) (aW a)) as [[T' W']|] eqn:AR; [|discriminate A].
      apply (IH is k1 k' _ a' G1 A). cbn [aW]. exact (IHd b k tc k1 _ _ _ EX AR K).
    + destruct (goL _ _ _ r (k + 1)%N) as [[is k2]|] eqn:G1; [|discriminate G]. inversion G; subst its k2. cbn [aitems] in A.
      destruct (astep (SP.IUse x k) a) as [a1|] eqn:A1; [|discriminate A].
      apply (IH is (k + 1)%N k' a1 a' G1 A). rewrite (astep_words _ _ _ A1). lia.
Qed.

Lemma arun_count files base : forall d, CountP files base d.
Proof.
  induction d as [|d IH]; intros body k t k' G W r EX AR K; [discriminate EX|].
  rewrite expand_S in EX. destruct (goL _ _ _ body k) as [[its k2]|] eqn:GO; [|discriminate EX]. inversion EX; subst t k2.
  cbn [arun SP.items_of] in AR. unfold afinish in AR.
  destruct (aitems (arun d) its {| aT := []; aG := G; aP := []; aW := W |}) as [a1|] eqn:AI; [|discriminate AR].
  destruct (atasks (aP a1) {| aT := aT a1; aG := aG a1; aP := []; aW := aW a1 |}) as [a2|] eqn:AT; [|discriminate AR].
  inversion AR; subst r. cbn [snd]. rewrite (atasks_words _ _ _ AT). cbn [aW].
  exact (aitems_count files base d IH body its k k' _ a1 GO AI K).
Qed.

(* ------------------------------------------------------------------ files *)
Section Link.
Variables (dbg : bool) (files : list (str * SP.file)) (base : Z).
Hypothesis Hfiles : forall n b, In (n, b) files -> plain_name n = true /\ forallb stmt_ok b = true.
Let fs := fs_of files.

Definition okres (r : res result) (s' : state) : Prop := r = OutOfFuel \/ r = Ret None s'.

(* a file instance entered from the includer's state  mst sp base ap ltp *)
Definition SimFile (d : nat) : Prop := forall f path body k t k' sp ap ltp r cur ps,
  plain_name path = true -> forallb stmt_ok body = true ->
  SP.expand d files base body k = Some (t, k') -> fits base (N.to_nat k') ->
  k = N.of_nat (List.length (aW ap)) ->
  arun d t (aT ap) (aW ap) = Some r ->
  path_stack sp = cur :: ps -> NC files base (path :: path_stack sp) (tsize t) ->
  okres (assemble dbg fs (S f) (mst sp base ap ltp) (show_file body) path)
        (mst sp base (mkA (fst r) (aG ap) (aP ap) (snd r)) ltp).

Lemma fits_le n m : (n <= m)%nat -> fits base m -> fits base n.
Proof. intros H (A & B). split; [exact A|lia]. Qed.

Lemma sim_items d f path s0 stack sz : SimFile d -> plain_name path = true -> path_stack s0 = path :: stack ->
  NC files base (path :: stack) sz ->
  forall l els its k k' a a' lt,
  goL (SP.expand d files base) files base l k = Some (its, k') ->
  map e_val els = map ev_of l -> forallb stmt_ok l = true ->
  (lsize its < sz)%nat ->
  aitems (arun d) its a = Some a' -> Forall2 (task_rel base) lt (aP a) -> k = N.of_nat (List.length (aW a)) ->
  fits base (N.to_nat k') ->
  run_items dbg fs (assemble dbg fs f) (map ParseModel.IOk els) (mst s0 base a lt) = OutOfFuel \/
  exists lt', run_items dbg fs (assemble dbg fs f) (map ParseModel.IOk els) (mst s0 base a lt) = Ret None (mst s0 base a' lt') /\
    Forall2 (task_rel base) lt' (aP a').
Proof.
  intros IHd Pp PS NCS. assert (PSN : path_stack s0 <> []) by (rewrite PS; discriminate).
  induction l as [|st r IH]; intros els its k k' a a' lt G M W SZ A F K FT.
  - destruct els; [|discriminate M]. cbn [goL] in G. inversion G; subst. cbn [aitems] in A. inversion A; subst.
    right. exists lt. cbn. auto.
  - destruct els as [|e els]; [discriminate M|]. cbn [map] in M. injection M as Ev M.
    cbn [forallb] in W. apply andb_prop in W. destruct W as [W0 W].
    destruct e as [ln c v]. cbn [e_val] in Ev. subst v.
    assert (MONO : forall k1 its1, goL (SP.expand d files base) files base r k1 = Some (its1, k') -> (k1 <= k')%N).
    { intros k1 its1 G1. eapply goL_mono; [|exact G1]. intros b0 k0 t0 k0'. apply expand_mono. }
    (* continue with the rest of the statements *)
    assert (NEXT : forall i its1 k1 a1 lt1, its = i :: its1 -> goL (SP.expand d files base) files base r k1 = Some (its1, k') ->
              step dbg fs (assemble dbg fs f) (mst s0 base a lt) (mkElement ln c (ev_of st)) = Ret None (mst s0 base a1 lt1) ->
              aitems (arun d) its1 a1 = Some a' -> Forall2 (task_rel base) lt1 (aP a1) -> k1 = N.of_nat (List.length (aW a1)) ->
              run_items dbg fs (assemble dbg fs f) (map ParseModel.IOk (mkElement ln c (ev_of st) :: els)) (mst s0 base a lt) = OutOfFuel \/
              exists lt', run_items dbg fs (assemble dbg fs f) (map ParseModel.IOk (mkElement ln c (ev_of st) :: els)) (mst s0 base a lt)
                            = Ret None (mst s0 base a' lt') /\
                Forall2 (task_rel base) lt' (aP a')).
    { intros i its1 k1 a1 lt1 -> G1 E A1 F1 K1. cbn [map run_items]. unfold CtxModel.bind. rewrite E.
      apply (IH els its1 k1 k' a1 a' lt1 G1 M W); auto. cbn [lsize] in SZ. lia. }
    cbn [goL] in G. destruct st; try discriminate G; cbn [ev_of].
    + (* .const *)
      destruct (goL _ _ _ r k) as [[is k2]|] eqn:G1; [|discriminate G]. inversion G; subst its k2.
      cbn [aitems] in A. destruct (astep (SP.IDef x v) a) as [a1|] eqn:A1; [|discriminate A].
      eapply (NEXT _ is k a1 lt); eauto.
      * apply m_const; [exact dir_const_name|exact A1].
      * rewrite (astep_tasks _ _ _ A1). exact F.
      * rewrite (astep_words _ _ _ A1). exact K.
    + (* label *)
      destruct (goL _ _ _ r k) as [[is k2]|] eqn:G1; [|discriminate G]. inversion G; subst its k2.
      cbn [aitems] in A. destruct (astep (SP.IDef x (base + 4 * Z.of_N k)%Z) a) as [a1|] eqn:A1; [|discriminate A].
      eapply (NEXT _ is k a1 lt); eauto.
      * apply (m_label dbg fs (assemble dbg fs f) s0 base a lt ln c x (base + 4 * Z.of_N k)%Z a1); [|exact A1].
        assert (FTk : fits base (List.length (aW a))) by (eapply fits_le; [|exact FT]; specialize (MONO _ _ G1); lia).
        rewrite (mseg_curr base (aW a) FTk). destruct FTk as (B0 & _). subst k. lia.
      * rewrite (astep_tasks _ _ _ A1). exact F.
      * rewrite (astep_words _ _ _ A1). exact K.
    + (* .global *)
      destruct (goL _ _ _ r k) as [[is k2]|] eqn:G1; [|discriminate G]. inversion G; subst its k2.
      cbn [aitems] in A. destruct (astep (SP.IGlobal x) a) as [a1|] eqn:A1; [|discriminate A].
      destruct (m_global dbg fs (assemble dbg fs f) s0 base a lt ln c d_global x a1 dir_global_name A1) as (lt1 & E & CASES).
      eapply (NEXT _ is k a1 lt1); eauto.
      * destruct CASES as [(-> & ->)|(-> & ->)]; [exact F|]. apply Forall2_app; [exact F|]. constructor; [reflexivity|constructor].
      * rewrite (astep_words _ _ _ A1). exact K.
    + (* .import *)
      destruct (goL _ _ _ r k) as [[is k2]|] eqn:G1; [|discriminate G]. inversion G; subst its k2.
      cbn [aitems] in A. destruct (astep (SP.IImport x) a) as [a1|] eqn:A1; [|discriminate A].
      eapply (NEXT _ is k a1 lt); eauto.
      * apply m_import; [exact dir_import_name|exact A1].
      * rewrite (astep_tasks _ _ _ A1). exact F.
      * rewrite (astep_words _ _ _ A1). exact K.
    + (* .export *)
      destruct (goL _ _ _ r k) as [[is k2]|] eqn:G1; [|discriminate G]. inversion G; subst its k2.
      cbn [aitems] in A. destruct (astep (SP.IExport x) a) as [a1|] eqn:A1; [|discriminate A].
      eapply (NEXT _ is k a1 lt); eauto.
      * apply m_export; [exact dir_export_name|exact A1].
      * rewrite (astep_tasks _ _ _ A1). exact F.
      * rewrite (astep_words _ _ _ A1). exact K.
    + (* .include *)
      rename f0 into g.
      destruct (SP.lookup_file files g) as [b|] eqn:LF; [|discriminate G].
      destruct (SP.expand d files base b k) as [[tc k1]|] eqn:EX; [|discriminate G].
      destruct (goL _ _ _ r k1) as [[is k2]|] eqn:G1; [|discriminate G]. inversion G; subst its k2.
      destruct (Hfiles g b (lookup_in _ _ _ LF)) as (Pg & Wb).
      cbn [aitems] in A. destruct (arun d tc (aT a) (aW a)) as [[T' W']|] eqn:AR; [|discriminate A].
      assert (RP : resolve_path path g = g) by (apply resolve_plain; assumption).
      assert (SZc : (tsize tc < sz)%nat) by (cbn [lsize isize] in SZ; lia).
      assert (NI : ~ In g (path :: stack)).
      { intros IN. pose proof (NCS g b d k tc k1 IN LF EX). lia. }
      assert (NCc : NC files base (g :: path_stack (mst s0 base a lt)) (tsize tc)).
      { intros o b' d' q t' q' IN LO EO. change (path_stack (mst s0 base a lt)) with (path_stack s0) in IN. rewrite PS in IN.
        destruct IN as [<-|IN].
        - rewrite LF in LO. inversion LO; subst b'. rewrite (size_invariant files base _ _ _ _ _ _ _ _ _ EX EO). lia.
        - pose proof (NCS o b' d' q t' q' IN LO EO). lia. }
      assert (FT1 : fits base (N.to_nat k1)) by (eapply fits_le; [|exact FT]; specialize (MONO _ _ G1); lia).
      pose proof (arun_count files base d b k tc k1 _ _ _ EX AR K) as K1. cbn [snd] in K1.
      (* the statement itself *)
      assert (STEPI : step dbg fs (assemble dbg fs f) (mst s0 base a lt) (mkElement ln c (EDirective d_include [AStr g])) = OutOfFuel \/
                      step dbg fs (assemble dbg fs f) (mst s0 base a lt) (mkElement ln c (EDirective d_include [AStr g])) =
                        Ret None (mst s0 base {| aT := T'; aG := aG a; aP := aP a; aW := W' |} lt)).
      { unfold step. cbn [e_val e_line e_col]. unfold process_directive. rewrite dir_include_name.
        unfold dir_include. cbn [arity_check List.length Nat.eqb]. cbv zeta.
        change (path_stack (mst s0 base a lt)) with (path_stack s0). rewrite PS, RP, (existsb_not_in _ _ NI).
        unfold fs at 1 3. unfold fs_of. rewrite LF. cbn [option_map].
        destruct f as [|f']; [left; reflexivity|].
        destruct (IHd f' g b k tc k1 (mst s0 base a lt) a lt (T', W') path stack Pg Wb EX FT1 K AR) as [O|O].
        - change (path_stack (mst s0 base a lt)) with (path_stack s0). exact PS.
        - exact NCc.
        - left. fold fs. change (mst (mst s0 base a lt) base a lt) with (mst s0 base a lt) in O.
          unfold CtxModel.bind. rewrite O. reflexivity.
        - right. fold fs. change (mst (mst s0 base a lt) base a lt) with (mst s0 base a lt) in O.
          unfold CtxModel.bind. rewrite O. reflexivity. }
      destruct STEPI as [E|E].
      * left. cbn [map run_items]. unfold CtxModel.bind. rewrite E. reflexivity.
      * eapply (NEXT _ is k1 _ lt); eauto.
    + (* .du32 *)
      destruct (goL _ _ _ r (k + 1)%N) as [[is k2]|] eqn:G1; [|discriminate G]. inversion G; subst its k2.
      cbn [aitems] in A. destruct (astep (SP.IUse x k) a) as [a1|] eqn:A1; [|discriminate A].
      assert (FT1 : fits base (S (List.length (aW a)))) by (eapply fits_le; [|exact FT]; specialize (MONO _ _ G1); lia).
      destruct (m_use dbg fs (assemble dbg fs f) s0 base PSN a lt ln c d_du32 x k a1 dir_du32_name FT1 K A1) as (lt1 & E & CASES).
      assert (LW : List.length (aW a1) = S (List.length (aW a))).
      { unfold astep in A1. destruct (is_register x); [discriminate|]. destruct (tbl_get (aT a) x) as [[w|]|];
          [destruct (u32z w); [|discriminate]| |]; inversion A1; subst; cbn [aW]; rewrite app_length; cbn; lia. }
      eapply (NEXT _ is (k + 1)%N a1 lt1); eauto.
      * destruct CASES as [(-> & ->)|(dd & -> & TR & ->)]; [exact F|]. apply Forall2_app; [exact F|]. constructor; [exact TR|constructor].
      * rewrite LW. lia.
Qed.

(* entering and leaving a file: the includer's state afterwards *)
Lemma SimFile_step d : SimFile d -> SimFile (S d).
Proof.
  intros IHd f path body k t k' sp ap ltp r cur ps Pp W EX FT K AR PSp NCp.
  rewrite expand_S in EX. destruct (goL _ _ _ body k) as [[its k2]|] eqn:GO; [|discriminate EX]. inversion EX; subst t k2.
  destruct (show_file_parse body W) as (els & PSR & M).
  cbn [arun SP.items_of] in AR. unfold afinish in AR.
  destruct (aitems (arun d) its {| aT := []; aG := aT ap; aP := []; aW := aW ap |}) as [a1|] eqn:AI; [|discriminate AR].
  destruct (atasks (aP a1) {| aT := aT a1; aG := aG a1; aP := []; aW := aW a1 |}) as [a2|] eqn:AT; [|discriminate AR].
  inversion AR; subst r. cbn [fst snd].
  cbn [assemble]. unfold assemble_body.
  (* the state in which the file starts *)
  set (s0 := mkState (output sp) (Active (mseg base (aW ap))) (aT ap) (Some []) ltp (Some []) (errors sp) (path :: path_stack sp) path).
  assert (EF : enter_file (mst sp base ap ltp) path =
               (s0, mkFrame (S (List.length (path_stack sp))) (curr_name sp) (Some (aG ap)) (Some (global_tasks sp)))) by reflexivity.
  rewrite EF. unfold do_assemble. rewrite PSR.
  assert (S0 : s0 = mst s0 base {| aT := []; aG := aT ap; aP := []; aW := aW ap |} []) by reflexivity.
  rewrite tsize_node in NCp.
  pose proof (aitems_count files base d (arun_count files base d) body its k k' _ a1 GO AI K) as K1.
  destruct (sim_items d f path s0 (path_stack sp) (S (lsize its)) IHd Pp eq_refl NCp body els its k k' _ a1 [] GO M W ltac:(lia) AI (Forall2_nil _) K FT)
    as [O|(lt1 & O & F1)]; rewrite <- S0 in O.
  - left. rewrite O. reflexivity.
  - right. rewrite O. cbn [CtxModel.bind res_is_fatal].
    change (local_tasks (mst s0 base a1 lt1)) with (Some lt1). cbv iota.
    change (set_local_tasks (mst s0 base a1 lt1) (Some [])) with (mst s0 base {| aT := aT a1; aG := aG a1; aP := []; aW := aW a1 |} []).
    rewrite (m_loop dbg s0 base ltac:(discriminate) lt1 (aP a1) _ a2); [|cbn [aW]; rewrite <- (Nat2N.id (List.length (aW a1))), <- K1; exact FT|exact F1|exact AT].
    cbn [CtxModel.bind]. unfold leave_file. cbn [mst upd path_stack f_count List.length]. rewrite Nat.eqb_refl. cbn [negb CtxModel.bind].
    reflexivity.
Qed.

Theorem SimFile_all : forall d, SimFile d.
Proof. induction d as [|d IH]; [intros f path body k t k' sp ap ltp r cur ps _ _ EX; discriminate EX|apply SimFile_step; exact IH]. Qed.

(* ------------------------------------------------------------------ the root file *)
Definition root_end (r : table * list word) : state :=
  mkState [] (Active (mseg base (snd r))) (fst r) None [] None [] [] unknown_name.

Lemma addr_step f root ln c s0 : (0 <= base)%Z -> (Z.to_N base <= MapModel.U32MAX)%N ->
  s0 = mkState [] Inactive [] (Some []) [] (Some []) [] [root] root ->
  step dbg fs (assemble dbg fs f) s0 (mkElement ln c (EDirective d_addr [AConst base])) =
  Ret None (mst s0 base (mkA [] [] [] []) []).
Proof.
  intros B0 B1 ->. set (s0 := mkState [] Inactive [] (Some []) [] (Some []) [] [root] root). unfold step, process_directive. cbn [e_val e_line e_col]. rewrite dir_addr_name.
  unfold dir_addr. cbn [arity_check List.length Nat.eqb]. unfold eval_now. rewrite Ctx06Proofs.eval_const. cbn [CtxModel.bind].
  unfold u32_of, AsmStmtModel.u32_of.
  assert (E : ((0 <=? base) && (base <=? 4294967295))%Z = true) by (unfold MapModel.U32MAX in B1; lia). rewrite E.
  unfold change_segment. cbn [active s0]. unfold select_segment. cbn [output s0 MapModel.map_find MapModel.locate MapModel.bind option_map active].
  reflexivity.
Qed.

Lemma sim_root f root body t n r : plain_name root = true -> forallb stmt_ok body = true -> (0 <= base)%Z ->
  SP.lookup_file files root = Some (SP.SAddr base :: body) ->
  SP.expand SP.max_depth files base body 0 = Some (t, n) -> fits base (N.to_nat n) ->
  arun SP.max_depth t [] [] = Some r ->
  okres (assemble dbg fs (S f) init_state (show_file (SP.SAddr base :: body)) root) (root_end r).
Proof.
  intros Pr W B0 LFR EX FT AR. change SP.max_depth with (S 5) in *. remember 5 as d5 eqn:D5. clear D5.
  rewrite expand_S in EX. destruct (goL _ _ _ body 0%N) as [[its k2]|] eqn:GO; [|discriminate EX]. inversion EX; subst t k2.
  assert (BZ : (base + 4 * Z.of_N n < 4294967296)%Z) by (destruct FT as (_ & F1); unfold MapModel.U32MAX in F1; lia).
  destruct (show_file_parse _ (root_writable base B0 body n W BZ)) as (els & PSR & M).
  destruct els as [|e0 els]; [discriminate M|]. cbn [map] in M. injection M as E0 M.
  destruct e0 as [ln c v]. cbn [e_val ev_of] in E0. subst v.
  cbn [arun SP.items_of] in AR. unfold afinish in AR.
  destruct (aitems (arun d5) its {| aT := []; aG := []; aP := []; aW := [] |}) as [a1|] eqn:AI; [|discriminate AR].
  destruct (atasks (aP a1) {| aT := aT a1; aG := aG a1; aP := []; aW := aW a1 |}) as [a2|] eqn:AT; [|discriminate AR].
  inversion AR; subst r.
  cbn [assemble]. unfold assemble_body.
  set (s0 := mkState [] Inactive [] (Some []) [] (Some []) [] [root] root).
  assert (EF : enter_file init_state root = (s0, mkFrame 1 unknown_name None None)) by reflexivity.
  rewrite EF. unfold do_assemble. rewrite PSR. cbn [map run_items].
  assert (B1 : (Z.to_N base <= MapModel.U32MAX)%N) by (destruct FT as (_ & F1); lia).
  rewrite (addr_step f root ln c s0 B0 B1 eq_refl). cbn [CtxModel.bind].
  assert (NCR : NC files base (root :: []) (S (lsize its))).
  { intros o b d k t' k' [<-|[]] LO EO. rewrite LFR in LO. inversion LO; subst b. destruct d; [discriminate EO|].
    cbn [SP.expand] in EO. discriminate EO. }
  pose proof (aitems_count files base d5 (arun_count files base d5) body its 0%N n _ a1 GO AI eq_refl) as K1.
  destruct (sim_items d5 f root s0 [] (S (lsize its)) (SimFile_all d5) Pr eq_refl NCR body els its 0%N n _ a1 [] GO M W ltac:(lia) AI (Forall2_nil _) eq_refl FT)
    as [O|(lt1 & O & F1)].
  - left. rewrite O. reflexivity.
  - right. rewrite O. cbn [CtxModel.bind res_is_fatal].
    change (local_tasks (mst s0 base a1 lt1)) with (Some lt1). cbv iota.
    change (set_local_tasks (mst s0 base a1 lt1) (Some [])) with (mst s0 base {| aT := aT a1; aG := aG a1; aP := []; aW := aW a1 |} []).
    rewrite (m_loop dbg s0 base ltac:(discriminate) lt1 (aP a1) _ a2); [|cbn [aW]; rewrite <- (Nat2N.id (List.length (aW a1))), <- K1; exact FT|exact F1|exact AT].
    cbn [CtxModel.bind]. reflexivity.
Qed.

(* ------------------------------------------------------------------ the pipeline *)
Definition image (W : list word) : list MapModel.seg :=
  match flat W with
  | [] => []
  | _ => [(Z.to_N base, (Z.to_N base + MapModel.len (flat W) - 1)%N, flat W)]
  end.

Lemma sim_pipeline f root body t n r : plain_name root = true -> forallb stmt_ok body = true -> (0 <= base)%Z ->
  SP.lookup_file files root = Some (SP.SAddr base :: body) ->
  SP.expand SP.max_depth files base body 0 = Some (t, n) -> fits base (N.to_nat n) ->
  arun SP.max_depth t [] [] = Some r ->
  pipeline_gen dbg fs (S f) root (show_file (SP.SAddr base :: body)) = POutOfFuel \/
  pipeline_gen dbg fs (S f) root (show_file (SP.SAddr base :: body)) = Done Success [] (image (snd r)).
Proof.
  intros Pr W B0 LFR EX FT AR.
  pose proof (arun_count files base SP.max_depth body 0%N t n [] [] r EX AR eq_refl) as K1.
  destruct (sim_root f root body t n r Pr W B0 LFR EX FT AR) as [O|O]; unfold pipeline_gen, pipeline_state; rewrite O.
  - left. reflexivity.
  - right. cbn [CtxModel.bind].
    assert (FTW : fits base (List.length (snd r))) by (rewrite <- (Nat2N.id (List.length (snd r))), <- K1; exact FT).
    assert (CL : close_segment dbg (root_end r) =
                 Ret (inl true) (set_active (set_output (root_end r) (image (snd r))) Inactive)).
    { unfold image. destruct (flat (snd r)) as [|b0 bs] eqn:FL.
      - unfold close_segment, blen. cbn [active root_end output mseg s_base s_buf]. rewrite FL. cbn [MapModel.map_put]. reflexivity.
      - rewrite <- FL. apply (LayoutProofs.close_single dbg (root_end r) (mseg base (snd r))); try reflexivity.
        + apply mseg_inv. exact FTW.
        + cbn [mseg s_buf]. rewrite FL. discriminate. }
    rewrite CL. cbn [CtxModel.bind]. unfold finalize. cbn [global_tasks set_active set_output root_end set_global_tasks].
    unfold task_rounds. cbn [final_loop CtxModel.bind errors orb negb]. reflexivity.
Qed.
End Link.
