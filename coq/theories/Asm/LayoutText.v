(* C05 proofs, part 13: from source TEXT.  The hypothesis "parse_source text = the statement list" of the layout
   theorems is discharged by the character-level round trip of C09 (Text/ShowProofs.v): for statements written as
   characters (canonical token spelling, ANY separators: white space, line and block comments), the pipeline applied to
   the text has the reference image of the statements. *)
From Coq Require Import ZArith NArith List Bool.
From Trion Require Import Text.Types Text.ParseModel Text.Render Text.ShowSpec.
From Trion Require Text.TokenModel Text.ParseProofs Text.ShowProofs.
From Trion Require Import Asm.CtxModel Asm.LayoutSpec Asm.LayoutWf Asm.LayoutStep Asm.LayoutFinal Asm.LayoutProgFinal.
Import ListNotations.

Lemma text_parse_source stmts seps : forallb writable_stmt stmts = true -> seps_ok (render_stmts stmts) seps ->
  exists els, parse_source (show (render_stmts stmts) seps) = Parsed (map IOk els) None /\ map e_val els = stmts.
Proof.
  intros W So. destruct (ShowProofs.show_tokens _ _ (ShowProofs.render_stmts_tok_ok _ W) So) as (toks & Et & M).
  unfold TokenModel.tokens_all, TokenModel.tokens_rem, TokenModel.bind in Et. unfold parse_source.
  destruct (TokenModel.unfold_rem (length (show (render_stmts stmts) seps) + 2) (TokenModel.tok_new (show (render_stmts stmts) seps)))
    as [[items tst]|n|]; try discriminate Et.
  destruct (TokenModel.polls 3 tst) as [ps|n|]; try discriminate Et. inversion Et as [[E1 E2]].
  destruct (ParseProofs.statements_render_roundtrip stmts toks (TokenModel.ts_line tst) (TokenModel.ts_col tst) M) as (els & Ep & Ev).
  exists els. rewrite E1, Ep. auto.
Qed.

(* the class on statement values (C05_class only reads e_val) *)
Definition C05_class_v (fs : str -> option (list N)) (E : env) (stmts : list element_value) : Prop :=
  forall pre e post s0, stmts = pre ++ e :: post -> pass1 fs (mkP1 None [] []) pre = Some s0 -> stmt_ok E (p_env s0) e.

Lemma class_v_class fs E els : C05_class_v fs E (map e_val els) -> C05_class fs E els.
Proof.
  intros H pre e post s0 Hl Hp. apply (H (map e_val pre) (e_val e) (map e_val post) s0); [|exact Hp].
  rewrite Hl, map_app. reflexivity.
Qed.

Theorem text_layout fs path stmts seps placed env :
  forallb writable_stmt stmts = true -> seps_ok (render_stmts stmts) seps ->
  layout_spec fs stmts = Some (placed, env) -> C05_class_v fs env stmts -> no_collision fs stmts ->
  pipeline fs path (show (render_stmts stmts) seps) = Done Success [] (image_of placed).
Proof.
  intros W So HL HC NC. destruct (text_parse_source stmts seps W So) as (els & HP & <-).
  apply (layout_accepts fs path _ els placed env HP HL); [apply class_v_class; exact HC|exact NC].
Qed.

(* free spelling: integers in any radix / digit case / leading zeros, character literals, strings with any escapes,
   redundant parentheses anywhere (ParseProofs.RendStmts), any separators *)
Lemma textw_parse_source stmts ws seps : ParseProofs.RendStmts stmts (map wtok_val ws) -> Forall wtok_ok ws -> wseps_ok ws seps ->
  exists els, parse_source (showw ws seps) = Parsed (map IOk els) None /\ map e_val els = stmts.
Proof.
  intros R Ok So. destruct (ShowProofs.showw_tokens _ _ Ok So) as (toks & Et & M).
  unfold TokenModel.tokens_all, TokenModel.tokens_rem, TokenModel.bind in Et. unfold parse_source.
  destruct (TokenModel.unfold_rem (length (showw ws seps) + 2) (TokenModel.tok_new (showw ws seps))) as [[items tst]|n|]; try discriminate Et.
  destruct (TokenModel.polls 3 tst) as [ps|n|]; try discriminate Et. inversion Et as [[E1 E2]].
  destruct (ParseProofs.statements_roundtrip stmts _ toks (TokenModel.ts_line tst) (TokenModel.ts_col tst) R M) as (els & Ep & Ev).
  exists els. rewrite E1, Ep. auto.
Qed.

Theorem textw_layout fs path stmts ws seps placed env :
  ParseProofs.RendStmts stmts (map wtok_val ws) -> Forall wtok_ok ws -> wseps_ok ws seps ->
  layout_spec fs stmts = Some (placed, env) -> C05_class_v fs env stmts -> no_collision fs stmts ->
  pipeline fs path (showw ws seps) = Done Success [] (image_of placed).
Proof.
  intros R Ok So HL HC NC. destruct (textw_parse_source stmts ws seps R Ok So) as (els & HP & <-).
  apply (layout_accepts fs path _ els placed env HP HL); [apply class_v_class; exact HC|exact NC].
Qed.

(* ------------------------------------------------------------------ the wider class (LayoutStep.stmt_okx) on statement values *)
Definition C05_class_vx (fs fsr : str -> option (list N)) (path : str) (E : env) (stmts : list element_value) : Prop :=
  forall pre e post s0, stmts = pre ++ e :: post -> pass1 fsr (mkP1 None [] []) pre = Some s0 -> stmt_okx fs fsr path E (p_env s0) e.

Lemma class_vx_class fs fsr path E els : C05_class_vx fs fsr path E (map e_val els) -> C05_classx fs fsr path E els.
Proof.
  intros H pre e post s0 Hl Hp. apply (H (map e_val pre) (e_val e) (map e_val post) s0); [|exact Hp].
  rewrite Hl, map_app. reflexivity.
Qed.

Theorem text_layoutx fs fsr path stmts seps placed env :
  forallb writable_stmt stmts = true -> seps_ok (render_stmts stmts) seps ->
  layout_spec fsr stmts = Some (placed, env) -> C05_class_vx fs fsr path env stmts -> no_collision fsr stmts ->
  pipeline fs path (show (render_stmts stmts) seps) = Done Success [] (image_of placed).
Proof.
  intros W So HL HC NC. destruct (text_parse_source stmts seps W So) as (els & HP & <-).
  apply (layout_acceptsx fs fsr path _ els placed env HP HL); [apply class_vx_class; exact HC|exact NC].
Qed.

Theorem textw_layoutx fs fsr path stmts ws seps placed env :
  ParseProofs.RendStmts stmts (map wtok_val ws) -> Forall wtok_ok ws -> wseps_ok ws seps ->
  layout_spec fsr stmts = Some (placed, env) -> C05_class_vx fs fsr path env stmts -> no_collision fsr stmts ->
  pipeline fs path (showw ws seps) = Done Success [] (image_of placed).
Proof.
  intros R Ok So HL HC NC. destruct (textw_parse_source stmts ws seps R Ok So) as (els & HP & <-).
  apply (layout_acceptsx fs fsr path _ els placed env HP HL); [apply class_vx_class; exact HC|exact NC].
Qed.

Definition C05_class_vw (fs : str -> option (list N)) (path : str) (E : env) (stmts : list element_value) : Prop :=
  C05_class_vx fs (rel_fs fs path) path E stmts.
