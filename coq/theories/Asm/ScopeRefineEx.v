(* Non-vacuity of `occ` (Asm/ScopeRefine.v): a two-file project is an occurrence of the tree ScopeSpec.expand gives it, and the
   refinement theorem applies to its run. *)
From Coq Require Import ZArith NArith List Bool String.
From Trion Require Import Text.Types Asm.CtxModel Asm.ScopeIso Asm.ScopeRefine.
From Trion Require Asm.ScopeSpec Arm.DisplayModel Text.ParseModel.
Import ListNotations.
Local Open Scope string_scope.

Definition ex_src := DisplayModel.bytes_of_string.
Definition ex_c : list N := ex_src ".const A, 7; .export A;".
Definition ex_r : list N := ex_src ".addr 0x100; .include ""c""; .du32 A;".
Definition ex_fs (p : str) : option (list N) := if str_eqb p (ex_src "c") then Some ex_c else None.
Definition ex_A : str := [65%N].
Definition ex_tree : SS.tree := SS.Node [SS.IChild (SS.Node [SS.IDef ex_A 7; SS.IExport ex_A]); SS.IUse ex_A 0].

Definition els_of (data : list N) : list element :=
  match parse_source data with
  | Parsed items _ => flat_map (fun i => match i with ParseModel.IOk e => [e] | _ => [] end) items
  end.
Definition tail_of (data : list N) : option (option site) := match parse_source data with Parsed _ t => t end.

(* the oracle's own expansion of the project is this tree *)
Lemma ex_expand :
  SS.expand_project (SS.mkProject [(ex_src "r", [SS.SAddr 256; SS.SInclude (ex_src "c"); SS.SUse ex_A]);
                                   (ex_src "c", [SS.SConst ex_A 7; SS.SExport ex_A])] (ex_src "r")) = Some (256%Z, ex_tree, 1%N).
Proof. vm_compute. reflexivity. Qed.

(* conversions are made on the goal side only (a VM cast is recorded there; `vm_compute in H` would be re-checked lazily at Qed) *)
Ltac vm_eq_in H :=
  match type of H with
  | ?lhs = _ => let r := eval vm_compute in lhs in
                let E := fresh "E" in assert (E : lhs = r) by (vm_compute; reflexivity); rewrite E in H; clear E
  end.
(* the handed-up names of a statement list, computed *)
Definition hand_names (items : list ParseModel.item) : list str :=
  flat_map (fun i => match i with
                     | ParseModel.IOk e =>
                         match e_val e with
                         | EDirective dn [AIdent n] => match dir_of dn with Some DGlobal | Some DExport => [n] | _ => [] end
                         | _ => []
                         end
                     | _ => []
                     end) items.
Lemma hands_names items n : hands items n -> In n (hand_names items).
Proof. intros (l & c & dn & IN & U). unfold hand_names. apply in_flat_map. eexists. split; [exact IN|]. cbn [e_val].
  destruct U as [U|U]; rewrite U; left; reflexivity. Qed.
(* (the kernel must never be asked to reduce `match parse_source .. with` by itself: only through this lemma) *)
Lemma file_hands_eq data items tail n : parse_source data = Parsed items tail -> file_hands data n -> hands items n.
Proof. unfold file_hands. intros ->. trivial. Qed.
Ltac hands_tac H PS :=
  apply (file_hands_eq _ _ _ _ PS) in H; apply hands_names in H;
  match type of H with In _ ?l => let r := eval vm_compute in l in
    let E := fresh "E" in assert (E : l = r) by (vm_compute; reflexivity); rewrite E in H; clear E end;
  cbn [In] in H; repeat (destruct H as [H|H]; [subst|]); try (destruct H).
Ltac step_tac H := vm_eq_in H; inversion H; subst; clear H.

Definition ex_s1 : state := Eval vm_compute in
  (match els_of ex_r with
   | e :: _ => match step false ex_fs (assemble false ex_fs 1) (fst (enter_file init_state (ex_src "r"))) e with Ret _ s => s | _ => init_state end
   | _ => init_state
   end).

Lemma ex_child_occ : occ false ex_fs 0 ex_s1 ex_c (ex_src "c") (SS.Node [SS.IDef ex_A 7; SS.IExport ex_A]).
Proof.
  assert (EC : parse_source ex_c = Parsed (map ParseModel.IOk (els_of ex_c)) (tail_of ex_c)) by (vm_compute; reflexivity).
  let l := eval vm_compute in (els_of ex_c) in assert (ELS : els_of ex_c = l) by (vm_compute; reflexivity).
  eapply (occ_intro _ _ _ _ _ _ (els_of ex_c) (tail_of ex_c)); [exact EC| |].
  - intros n H. hands_tac H EC. vm_compute. discriminate.
  - rewrite ELS.
    eapply rc_cons; [eapply io_const; vm_compute; reflexivity|]. intros s2 H2. step_tac H2.
    eapply rc_cons; [eapply io_export; vm_compute; reflexivity|]. intros s3 H3. apply rc_nil.
Qed.

Lemma ex_occ : occ false ex_fs 1 init_state ex_r (ex_src "r") ex_tree.
Proof.
  assert (ER : parse_source ex_r = Parsed (map ParseModel.IOk (els_of ex_r)) (tail_of ex_r)) by (vm_compute; reflexivity).
  let l := eval vm_compute in (els_of ex_r) in assert (ELS : els_of ex_r = l) by (vm_compute; reflexivity).
  unfold ex_tree. eapply (occ_intro _ _ _ _ _ _ (els_of ex_r) (tail_of ex_r)); [exact ER| |].
  - intros n H. exfalso. hands_tac H ER.
  - rewrite ELS.
    eapply rc_skip; [vm_compute; reflexivity|]. intros s1 H1. step_tac H1.
    eapply rc_cons.
    + eapply io_child; [vm_compute; reflexivity| |].
      * instantiate (1 := ex_c). vm_compute. reflexivity.
      * cbn [Nat.pred].
        match goal with |- occ _ _ _ ?s _ ?p _ =>
          replace p with (ex_src "c") by (vm_compute; reflexivity); replace s with ex_s1 by (vm_compute; reflexivity) end.
        exact ex_child_occ.
    + intros s2 H2. step_tac H2.
      eapply rc_cons; [eapply io_use; vm_compute; reflexivity|]. intros s3 H3. apply rc_nil.
Qed.

(* ... and its run: the root's table ends with A = 7, the single value the oracle's `sources` names *)
Lemma ex_run : exists r st2 t2,
  assemble_open false ex_fs (assemble false ex_fs 1) init_state ex_r (ex_src "r") = Ret r st2 /\ locals st2 = Some t2 /\
  tbl_get t2 ex_A = Some (Some 7%Z) /\ SS.sources ex_tree SS.no_env ex_A = [7%Z].
Proof. eexists _, _, _. split; [vm_compute; reflexivity|]. split; [reflexivity|]. split; vm_compute; reflexivity. Qed.
