(* C05 proofs, part 11 (progress direction): the statement loop, the end-of-file tasks, close and finalize accept every
   program of the class that is well-formed per the reference; top theorem pipeline_accepts / layout_accepts. *)
From Coq Require Import ZArith NArith PeanoNat List Bool Lia ZifyBool ZifyNat ZifyN String.
From Trion Require Import Text.Types Expr.I64 Expr.EvalModel Expr.Denote Expr.C08Sound Arm.Instr Arm.DisplayModel Arm.AsmStmtModel Arm.EncodeModel
  Mem.MapModel Mem.DictSpec Mem.MapProofs Mem.MapLemmas Mem.MapOccupied
  Asm.CtxModel Asm.SegProofs Asm.SegPut Asm.LayoutSpec Asm.LayoutWf Asm.LayoutEval Asm.LayoutEvalC Asm.LayoutInstr Asm.LayoutInstrC Asm.LayoutInstrD
  Asm.LayoutDict Asm.ScopeProofs Asm.LayoutProofs Asm.LayoutSim Asm.LayoutStage Asm.Ctx06Proofs Asm.CtxNoPanic Asm.LayoutStep Asm.LayoutFinal Asm.LayoutProg.
From Trion Require Text.ParseModel.
Import ListNotations.
Open Scope N_scope.

(* ------------------------------------------------------------------ one statement *)
Definition fresh_step (E : env) (s0 : p1) (e : element_value) (s1 : p1) : Prop :=
  (forall x, is_addr e = true -> p_cur s1 = Some x -> d_get (gdict E (p_items s0)) x = None) /\
  fresh_item E (p_items s0) (p_items s1).

Lemma step_prog dbg fs fsr inc E st cur ek items e s' path ps :
  Sim E st cur ek (gdict E items) -> Tight st -> Pd E st -> path_stack st = path :: ps -> stmt_okx fs fsr path E ek (e_val e) ->
  pass1_step fsr (mkP1 cur ek items) (e_val e) = Some s' ->
  (forall a it, In (a, it) (p_items s') -> pass2_item E a it <> None) ->
  fresh_step E (mkP1 cur ek items) (e_val e) s' ->
  accepted E (step dbg fs inc st e).
Proof.
  intros HSim HT HP EPS OK HP1 H2 (HFa & HFi). destruct e as [line col ev]. cbn [e_val p_items] in *. destruct ev as [name|name args|name args].
  - apply (label_prog dbg fsr inc E st cur ek items line col name s' HSim HT HP HP1).
  - unfold step. cbn [e_val e_line e_col]. unfold process_directive. cbn [stmt_okx] in OK. cbn [is_addr] in HFa.
    unfold pass1_step in HP1. unfold dname in HP1, HFa. cbn [p_env p_cur] in HP1.
    destruct (dir_of name) as [d|] eqn:Ed; unfold dir_of, CtxModel.is, AsmStmtModel.is in Ed;
    repeat match type of Ed with (if ?c then _ else _) = _ => destruct c eqn:? end; try discriminate Ed; inversion Ed; try subst d; try dh.
    + eapply addr_prog; eauto.
    + eapply align_prog; eauto.
    + eapply const_prog; eauto.
    + eapply data_prog; eauto.
    + eapply data_prog; eauto.
    + eapply data_prog; eauto.
    + destruct (AsmStmtModel.str_eqb name (bytes_of_string "dstr")) eqn:K.
      { exfalso. assert (X : bytes_of_string "dhex" = bytes_of_string "dstr") by (eapply str_clash; eauto). vm_compute in X. discriminate X. }
      eapply bytes_prog; eauto.
    + eapply bytes_prog; eauto.
    + destruct (AsmStmtModel.str_eqb name (bytes_of_string "dstr")) eqn:K1.
      { exfalso. assert (X : bytes_of_string "dfile" = bytes_of_string "dstr") by (eapply str_clash; eauto). vm_compute in X. discriminate X. }
      destruct (AsmStmtModel.str_eqb name (bytes_of_string "dhex")) eqn:K2.
      { exfalso. assert (X : bytes_of_string "dfile" = bytes_of_string "dhex") by (eapply str_clash; eauto). vm_compute in X. discriminate X. }
      apply (file_prog dbg fs inc E fsr st cur ek items line col args s' path ps HSim HT HP EPS (OK eq_refl) HP1 HFi).
  - unfold step. cbn [e_val e_line e_col].
    assert (EA : exists sg, active st = Active sg).
    { destruct HSim as (ts & _ & [_ _ _ C _ _ _ _ _ _ _]). cbn [pass1_step] in HP1.
      destruct (instr_size name); [|dh]. unfold place in HP1. cbn [p_cur] in HP1. destruct cur; [|dh]. destruct C as (sg & EA & _). eauto. }
    destruct EA as (sg & EA). rewrite EA. cbn [pass1_step] in HP1.
    apply (instr_prog dbg fs inc E st cur ek items line col name args s' HSim HT HP OK HP1 H2 HFi).
Qed.

(* ------------------------------------------------------------------ the statement loop *)
Definition fresh_from (fs : str -> option (list N)) (E : env) (s : p1) (els : list element) : Prop :=
  forall pre e post s0 s1, els = pre ++ e :: post -> pass1 fs s (map e_val pre) = Some s0 ->
    pass1_step fs s0 (e_val e) = Some s1 -> fresh_step E s0 (e_val e) s1.

Lemma prog_run dbg fs fsr inc E path ps : inc_ok inc -> forall els st s s',
  Sim E st (p_cur s) (p_env s) (gdict E (p_items s)) -> Tight st -> Pd E st -> path_stack st = path :: ps ->
  class_fromx fs fsr path E s els -> fresh_from fsr E s els ->
  pass1 fsr s (map e_val els) = Some s' -> env_le (p_env s') E ->
  (forall a it, In (a, it) (p_items s') -> pass2_item E a it <> None) ->
  exists st', run_items dbg fs inc (map Text.ParseModel.IOk els) st = Ret None st' /\ errors st' = [] /\ Tight st' /\ Pd E st' /\
    Sim E st' (p_cur s') (p_env s') (gdict E (p_items s')).
Proof.
  intros IO. induction els as [|e r IH]; intros st s s' HSim HT HP EPS HC HFr HP1 HE H2.
  - cbn in HP1. inversion HP1; subst. exists st. cbn [map run_items]. repeat split; auto.
    destruct HSim as (ts & _ & HS). exact (sm_err _ _ _ _ _ _ HS).
  - cbn [map pass1] in HP1. destruct (pass1_step fsr s (e_val e)) as [s1|] eqn:P1; [|discriminate].
    destruct (pass1_mono _ _ _ _ HP1) as (M1 & M2).
    pose proof (HC [] e r s eq_refl eq_refl) as OK0. pose proof (HFr [] e r s s1 eq_refl eq_refl P1) as FR0.
    destruct s as [cur ek items]. cbn [p_cur p_env p_items] in *.
    assert (H2' : forall a it, In (a, it) (p_items s1) -> pass2_item E a it <> None) by (intros a it Hi; apply H2, M2, Hi).
    destruct (step_prog dbg fs fsr inc E st cur ek items e s1 path ps HSim HT HP EPS OK0 P1 H2' FR0) as (st1 & S1 & Z1 & T1 & P1').
    assert (S' : Sim E st1 (p_cur s1) (p_env s1) (gdict E (p_items s1)) /\ path_stack st1 = path_stack st).
    { apply (sim_step dbg fs fsr inc E st cur ek items e st1 s1 path ps HSim EPS OK0 S1 Z1 P1); [|exact H2'].
      intros m w Hm. apply HE, M1, Hm. }
    destruct S' as (S' & EPS').
    destruct (IH st1 s1 s' S' T1 P1') as (st' & RI & Rest); auto.
    + congruence.
    + intros pre e0 post s0 Hl Hp. apply (HC (e :: pre) e0 post s0); [rewrite Hl; reflexivity|]. cbn [map pass1]. rewrite P1. exact Hp.
    + intros pre e0 post s0 s2 Hl Hp. apply (HFr (e :: pre) e0 post s0 s2); [rewrite Hl; reflexivity|]. cbn [map pass1]. rewrite P1. exact Hp.
    + exists st'. split; [|exact Rest]. cbn [map run_items]. rewrite S1. cbn [CtxModel.bind]. exact RI.
Qed.

(* ------------------------------------------------------------------ overwriting a placeholder always succeeds *)
Lemma write_over_fwd dbg st t a data f l c k1 k2 p :
  Rep (output st) -> match active st with Active sg => SegInv (output st) sg | Inactive => True end ->
  located st t -> task_addr t = a -> task_size t = mlen data -> 0 < mlen data ->
  exists st', write_stmt dbg st f l c a data k1 k2 p = Ret None st' /\ errors st' = errors st.
Proof.
  intros HR HA HL Ea Es Hpos.
  assert (PUT : (forall x, a <= x -> x < a + mlen data -> d_get (abs (output st)) x <> None) ->
                exists st', put_stmt dbg st f l c a data k2 p = Ret None st' /\ errors st' = errors st).
  { intros Hocc. unfold put_stmt. assert (Hne : data <> []) by (intros ->; cbn in Hpos; lia).
    destruct (put_over dbg (output st) a data HR Hne Hocc) as (m' & E1 & _). rewrite E1. change (0 =? 0) with true. cbv iota.
    eexists. split; reflexivity. }
  unfold write_stmt. destruct (active st) as [|sg] eqn:EA.
  - apply PUT. destruct HL as [(sg & EA' & _)|B]; [rewrite EA in EA'; discriminate EA'|]. intros x H1 H2. apply B. unfold in_task. lia.
  - destruct HL as [(sg' & EA' & B1 & B2)|B].
    + rewrite EA in EA'. inversion EA'; subst sg'. rewrite Ea in *. rewrite Es in *.
      pose proof HA as (H1 & H0 & H2 & H3).
      rewrite (covers_spec dbg (output st) sg a HA).
      destruct ((s_base sg <=? a) && ((a - s_base sg <? blen sg) || (a - s_base sg =? blen sg) && (blen sg <? s_max sg))) eqn:Cv; [|lia].
      assert (Hcur : a <= curr_addr sg).
      { unfold curr_addr, sat_add32, CtxSeg.U32MAX, CtxSeg.U32, MapModel.U32MAX, MapModel.U32 in *. lia. }
      destruct (write_at_ok dbg (output st) sg a data HA B1 Hcur ltac:(lia)) as (W1 & _). rewrite W1.
      eexists. split; reflexivity.
    + assert (Hocc : forall x, a <= x -> x < a + mlen data -> d_get (abs (output st)) x <> None).
      { intros x X1 X2. apply B. unfold in_task. lia. }
      assert (Hout : forall x, a <= x -> x < a + mlen data -> x < s_base sg \/ s_base sg + s_max sg <= x).
      { intros x X1 X2. apply (seginv_occ (output st) sg HA x (Hocc x X1 X2) HR). }
      pose proof HA as (H1 & H0 & H2 & H3).
      assert (Hdis : a + mlen data <= s_base sg \/ s_base sg + s_max sg <= a).
      { destruct (Hout a ltac:(lia) ltac:(lia)) as [K1|K1]; [|right; exact K1].
        destruct (Hout (a + mlen data - 1) ltac:(lia) ltac:(lia)) as [K2|K2]; [left; lia|].
        exfalso. destruct (Hout (s_base sg) ltac:(lia) ltac:(lia)); lia. }
      rewrite (covers_spec dbg (output st) sg a HA).
      destruct ((s_base sg <=? a) && ((a - s_base sg <? blen sg) || (a - s_base sg =? blen sg) && (blen sg <? s_max sg))) eqn:Cv; [lia|].
      apply PUT; auto.
Qed.

(* ------------------------------------------------------------------ a pending task is accepted *)
Lemma final_ev_den E a w : den64 (rho E) a = Some w -> final_ev E a = (AConst w, SComplete).
Proof.
  intros Dw. unfold final_ev. change (fun n : str => match env_get E n with Some v => Found v | None => NotFound end) with (lkE E).
  change AsmStmtModel.is_register with CtxModel.is_register.
  assert (ND : no_deferred (lkE E)) by (intros s; unfold lkE; destruct (env_get E s); discriminate).
  destruct (evaluate_mut_den (rho E) (lkE E) CtxModel.is_register (compat_lkE E) ND (fun s v => rho_not_reg E s v) a w Dw) as [(c & M)|(a' & n & M)].
  - apply mut_ok_evaluate in M. rewrite M. reflexivity.
  - exfalso. apply mut_novar_unknown in M. apply M.
    apply den64_denZ in Dw. destruct Dw as (Dw & _). intros m Hm. pose proof (denZ_idents _ _ _ Dw m Hm) as Hr.
    unfold rho in Hr. change (AsmStmtModel.is_register m) with (CtxModel.is_register m) in Hr.
    destruct (CtxModel.is_register m); [now left|right]. unfold lkE. destruct (env_get E m) as [v|]; [eauto|congruence].
Qed.

Lemma fwd_den_eq rho a0 a1 v v1 : fwd rho a0 a1 -> den64 rho a0 = Some v -> den64 rho a1 = Some v1 -> v1 = v.
Proof.
  intros F D0 D1. apply den64_denZ in D0. apply den64_denZ in D1. destruct D0 as (D0 & _). destruct D1 as (D1 & _).
  pose proof (F _ D0) as D. congruence.
Qed.

Lemma run_task_prog dbg E st cur G t ts :
  SimT E st cur E G (t :: ts) -> local_tasks st = Some [] -> PendD E t ->
  exists st', run_task dbg st t = Ret None st' /\ errors st' = [].
Proof.
  intros H ELT HD. pose proof H as [R T V C Er Gt A D L P W].
  inversion L as [|? ? Lt Lts]; inversion P as [|? ? Pt Pts]; subst.
  destruct T as (tbl & p & ps & EL & EP & TE).
  assert (HAct : match active st with Active sg => SegInv (output st) sg | Inactive => True end).
  { destruct cur as [c|]; [destruct C as (sg & EA & HI & _); rewrite EA; exact HI|rewrite C; exact I]. }
  destruct t as [ai [|]|d [|]| |]; cbn [PendG] in Pt; try contradiction.
  - (* instruction *)
    destruct Pt as (args & pos & a0 & a1 & iF & sF & nF & bF & EAst & EPo & N0 & SG & AF & EF & AB).
    pose proof (enc_bytes_size _ _ _ EF) as (_ & LF). pose proof (assemble_args_isz _ _ _ _ _ _ _ AF) as IF.
    cbn [run_task]. unfold instr_assemble. rewrite EAst. cbn [a_args].
    rewrite (first_panic_none st _ (ev_ok_st st tbl p ps EL EP)).
    pose proof (assemble_args_swap _ _ _ _ _ _ _ a1 _ _ EPo N0 SG AF) as AF1.
    assert (AM : assemble_args (instr_ev st) false (ai_addr ai) (ai_instr ai) (mkAst (AsmStmtModel.set_nth pos a1 args) 0) = COk iF sF).
    { apply (assemble_args_mono_on _ (final_ev E) (instr_ev st) false false); [|exact AF1].
      intros a a' _ Ha. eapply end_ev_le; eauto. }
    rewrite AM. cbn [CtxModel.bind]. unfold write_instr. cbn [ai_instr ai_file ai_line ai_col ai_addr]. rewrite EF.
    assert (Hsz : task_size (InstrTask ai false) = mlen bF) by (cbn [task_size]; unfold mlen; rewrite LF; congruence).
    assert (Hpos : 0 < mlen bF) by (unfold mlen; rewrite LF; destruct iF; cbn; lia).
    destruct (write_over_fwd dbg st (InstrTask ai false) (ai_addr ai) bF (ai_file ai) (ai_line ai) (ai_col ai) KInstrSegOverflow KInstrSegWrite
                P_put_assert_instr R HAct Lt eq_refl Hsz Hpos) as (st' & WS & ES).
    exists st'. split; [exact WS|congruence].
  - (* data *)
    destruct Pt as (a0 & v & F0 & Dv & Rv & AB). cbn [PendD] in HD.
    destruct (den64 (rho E) (de_arg d)) as [v1|] eqn:D1; [|congruence]. pose proof (fwd_den_eq _ _ _ _ _ F0 Dv D1) as ->.
    cbn [run_task]. unfold data_apply.
    destruct (ctx_eval_now E E st tbl p ps EL EP TE (env_le_refl E) (de_arg d) v D1) as (ch & CE). rewrite CE. rewrite Rv.
    unfold write_data. cbn [de_set_arg de_file de_line de_col de_addr de_kind].
    assert (Hsz : task_size (DataTask d false) = mlen (le_n (dk_size (de_kind d)) (Z.to_N v))) by (rewrite len_le_n'; reflexivity).
    assert (Hpos : 0 < mlen (le_n (dk_size (de_kind d)) (Z.to_N v))) by (rewrite len_le_n'; destruct (de_kind d); cbn; lia).
    destruct (write_over_fwd dbg st (DataTask d false) (de_addr d) _ (de_file d) (de_line d) (de_col d) (KApply ASegOverflow) (KApply ASegWrite)
                P_put_assert_data R HAct Lt eq_refl Hsz Hpos) as (st' & WS & ES).
    rewrite WS. cbn [CtxModel.bind]. exists st'. split; [reflexivity|congruence].
Qed.

Lemma local_round_prog dbg E : forall ts st cur G, SimT E st cur E G ts -> local_tasks st = Some [] -> Forall (PendD E) ts ->
  exists st', local_round dbg ts st None = Ret None st' /\ errors st' = [] /\ SimT E st' cur E G [] /\ local_tasks st' = Some [].
Proof.
  induction ts as [|t ts IH]; intros st cur G H ELT HD.
  - exists st. split; [reflexivity|]. split; [exact (sm_err _ _ _ _ _ _ H)|]. split; [exact H|exact ELT].
  - inversion HD as [|? ? HDt HDts]; subst.
    destruct (run_task_prog dbg E st cur G t ts H ELT HDt) as (st1 & RT & Z1).
    destruct (run_task_sim dbg E st cur G t ts None st1 H ELT RT Z1) as (_ & H1 & E1).
    destruct (IH st1 cur G H1 E1 HDts) as (st' & LR & Rest).
    exists st'. split; [|exact Rest]. cbn [local_round]. rewrite RT. cbn [CtxModel.bind]. exact LR.
Qed.

(* ------------------------------------------------------------------ no_collision (items) -> free addresses (dictionary) *)
Lemma len_le_bytes_n n : forall v, List.length (le_bytes_n n v) = n.
Proof. induction n as [|n IH]; intros v; cbn [le_bytes_n List.length]; [reflexivity|]. rewrite IH. reflexivity. Qed.

Lemma pass2_size E a it bs : pass2_item E a it = Some bs -> mlen bs = item_size it.
Proof.
  destruct it as [n|size e|b|name args]; cbn [pass2_item item_size].
  - intros H; inversion H; subst. unfold mlen. rewrite repeat_length. lia.
  - destruct (den64 (rho E) e) as [v|]; [|discriminate]. destruct (_ && _); [|discriminate].
    intros H; inversion H; subst. unfold mlen. rewrite len_le_bytes_n. lia.
  - intros H; inversion H; subst. reflexivity.
  - unfold assemble_stmt. destruct (template name) as [t|] eqn:Et; [|discriminate].
    destruct (assemble_args (final_ev E) false a t (mkAst args 0)) as [i s| | |] eqn:AF; try discriminate.
    destruct (enc_bytes i 4) as [n b| |] eqn:EF; try discriminate. intros H; inversion H; subst b.
    pose proof (enc_bytes_size _ _ _ EF) as (_ & LF). pose proof (assemble_args_isz _ _ _ _ _ _ _ AF) as IF.
    unfold mlen. rewrite LF, IF. unfold instr_size. rewrite Et. destruct t; reflexivity.
Qed.

Lemma gdict_covered E items x : d_get (gdict E items) x <> None -> covered items x.
Proof.
  induction items as [|(a, it) r IH]; cbn [gdict]; [intros H; contradiction H; reflexivity|].
  assert (K : covered r x -> covered ((a, it) :: r) x).
  { intros (a' & it' & Hi & Hx). exists a', it'. split; [now right|exact Hx]. }
  destruct (pass2_item E a it) as [bs|] eqn:P2; [|intros H; apply K, IH, H].
  rewrite d_get_d_write. unfold wr. destruct ((a <=? x) && (x <? a + mlen bs)) eqn:Eq.
  - intros _. exists a, it. split; [now left|]. rewrite <- (pass2_size _ _ _ _ P2). lia.
  - intros H. apply K, IH, H.
Qed.

Lemma no_collision_fresh fs E els : no_collision fs (map e_val els) -> fresh_from fs E (mkP1 None [] []) els.
Proof.
  intros NC pre e post s0 s1 Hl Hp Hs.
  destruct (NC (map e_val pre) (e_val e) (map e_val post) s0 s1) as (N1 & N2); auto.
  { rewrite Hl, map_app. reflexivity. }
  split.
  - intros x Ha Hc. destruct (d_get (gdict E (p_items s0)) x) eqn:Dg; [|reflexivity].
    exfalso. apply (N1 x Ha Hc). apply (gdict_covered E). congruence.
  - intros a it bs x Hi P2 X1 X2. destruct (d_get (gdict E (p_items s0)) x) eqn:Dg; [|reflexivity].
    exfalso. apply (N2 a it x Hi X1); [rewrite <- (pass2_size _ _ _ _ P2); exact X2|]. apply (gdict_covered E). congruence.
Qed.

(* ------------------------------------------------------------------ the whole pipeline *)
Lemma leave_file_not_fuel st fr : leave_file st fr <> OutOfFuel.
Proof. unfold leave_file. destruct (negb _); [discriminate|]. destruct (path_stack st); discriminate. Qed.

Theorem pipeline_acceptsx fs fsr path text els placed env :
  parse_source text = Parsed (map Text.ParseModel.IOk els) None ->
  layout_spec fsr (map e_val els) = Some (placed, env) ->
  C05_classx fs fsr path env els ->
  no_collision fsr (map e_val els) ->
  exists regions, pipeline fs path text = Done Success [] regions.
Proof.
  intros HPa HL HC NC.
  unfold layout_spec in HL. destruct (pass1 fsr (mkP1 None [] []) (map e_val els)) as [sF|] eqn:P1; [|discriminate].
  destruct (pass2 (p_env sF) (rev (p_items sF))) as [pl|] eqn:P2; [|discriminate]. inversion HL; subst placed env. clear HL.
  set (E := p_env sF) in *.
  set (inc := assemble false fs 63).
  set (st0 := mkState [] Inactive [] (Some []) [] (Some []) [] [path] path).
  set (fr := mkFrame 1 unknown_name None None).
  assert (IO : inc_ok inc) by (intros ? ? ? ? ?; apply assemble_reported).
  assert (S0 : Sim E st0 (p_cur (mkP1 None [] [])) (p_env (mkP1 None [] [])) (gdict E (p_items (mkP1 None [] [])))).
  { exists []. split; [reflexivity|]. constructor; cbn [p_cur p_env p_items gdict st0 output active errors global_tasks locals path_stack]; auto.
    - exact I.
    - exists [], path, []. repeat split; auto; intros n; reflexivity.
    - intros n v Hn. discriminate Hn.
    - exact I.
    - intros x. unfold view. cbn. tauto. }
  assert (H2 : forall a it, In (a, it) (p_items sF) -> pass2_item E a it <> None).
  { intros a it Hi. apply (pass2_all E _ _ P2). apply in_rev in Hi. exact Hi. }
  assert (T0 : Tight st0) by exact I.
  assert (D0 : Pd E st0) by (intros ts Hts; inversion Hts; constructor).
  destruct (prog_run false fs fsr inc E path [] IO els st0 _ sF S0 T0 D0 eq_refl HC (no_collision_fresh fsr E els NC) P1 (env_le_refl E) H2)
    as (sta & RI & Za & _ & Da & (ts & ELT & HT)).
  (* the tasks *)
  assert (LL : exists stb, local_loop false task_rounds ts (set_local_tasks sta (Some [])) None = Ret None stb /\
                 errors stb = [] /\ SimT E stb (p_cur sF) E (gdict E (p_items sF)) []).
  { change task_rounds with (S 3). destruct ts as [|t0 tl].
    - eexists. split; [reflexivity|]. split; [exact Za|]. apply simT_set_local. exact HT.
    - rewrite local_loop_cons.
      destruct (local_round_prog false E (t0 :: tl) _ _ _ (simT_set_local _ _ _ _ _ _ (Some []) HT) eq_refl (Da _ ELT)) as (stR & LR & ZR & HR & ER).
      rewrite LR. cbn [CtxModel.bind]. rewrite ER. cbv zeta. cbn [res_is_fatal local_loop].
      eexists. split; [reflexivity|]. split; [exact ZR|]. apply simT_set_local. exact HR. }
  destruct LL as (stb & LL & Zb & HB).
  assert (AS : assemble false fs include_fuel init_state text path = CtxModel.bind (leave_file stb fr) (fun _ st3 => Ret None st3)).
  { change (assemble false fs include_fuel init_state text path) with (assemble_body false fs inc init_state text path).
    unfold assemble_body. change (enter_file init_state path) with (st0, fr). cbv iota beta.
    unfold do_assemble. rewrite HPa, RI. cbn [CtxModel.bind res_is_fatal]. rewrite ELT, LL. cbn [CtxModel.bind]. reflexivity. }
  destruct (leave_file stb fr) as [[] stc| |] eqn:LF.
  2:{ exfalso. apply (never_panics false fs include_fuel path text p). unfold pipeline_gen, pipeline_state. rewrite AS. reflexivity. }
  2:{ exfalso. exact (leave_file_not_fuel _ _ LF). }
  cbn [CtxModel.bind] in AS.
  pose proof HB as [R T V C Er Gt A D L P W].
  unfold leave_file in LF. destruct (negb (Nat.eqb (List.length (path_stack stb)) (f_count fr))); [discriminate|].
  destruct (path_stack stb) as [|p0 stack]; [discriminate|]. cbn [f_constants f_tasks f_name fr] in LF. inversion LF; subst stc. clear LF.
  match type of AS with _ = Ret None ?s => set (stc := s) in * end.
  assert (IVc : Inv stc).
  { split; [exact R|]. cbn [active stc]. destruct (p_cur sF); [destruct C as (sg & EA & HI & _); rewrite EA; exact HI|rewrite C; exact I]. }
  destruct (close_ok' false stc IVc) as (st2 & b & CL & _).
  destruct (view_close false stc b st2 IVc CL) as (_ & _ & _ & _ & _ & _ & G2 & _ & E2 & _).
  unfold pipeline, pipeline_gen, pipeline_state. rewrite AS. cbn [CtxModel.bind]. rewrite CL. cbn [CtxModel.bind].
  unfold finalize. rewrite G2. cbn [global_tasks stc]. rewrite Gt.
  change task_rounds with (S 3). cbn [final_loop CtxModel.bind orb]. cbn [errors set_global_tasks]. rewrite E2. cbn [errors stc]. rewrite Zb.
  cbn [negb rev]. eexists. reflexivity.
Qed.

Theorem pipeline_accepts fs path text els placed env :
  parse_source text = Parsed (map Text.ParseModel.IOk els) None ->
  layout_spec fs (map e_val els) = Some (placed, env) ->
  C05_class fs env els ->
  no_collision fs (map e_val els) ->
  exists regions, pipeline fs path text = Done Success [] regions.
Proof. intros HPa HL HC. apply (pipeline_acceptsx fs fs path text els placed env HPa HL (class_x _ path _ _ HC)). Qed.

(* for every program of the class that is well-formed per the reference, the image is the reference image *)
Theorem layout_acceptsx fs fsr path text els placed env :
  parse_source text = Parsed (map Text.ParseModel.IOk els) None ->
  layout_spec fsr (map e_val els) = Some (placed, env) ->
  C05_classx fs fsr path env els ->
  no_collision fsr (map e_val els) ->
  pipeline fs path text = Done Success [] (image_of placed).
Proof.
  intros HPa HL HC NC. destruct (pipeline_acceptsx fs fsr path text els placed env HPa HL HC NC) as (regions & HP).
  rewrite HP. f_equal. eapply layout_generalx; eauto.
Qed.

Theorem layout_accepts fs path text els placed env :
  parse_source text = Parsed (map Text.ParseModel.IOk els) None ->
  layout_spec fs (map e_val els) = Some (placed, env) ->
  C05_class fs env els ->
  no_collision fs (map e_val els) ->
  pipeline fs path text = Done Success [] (image_of placed).
Proof. intros HPa HL HC. apply (layout_acceptsx fs fs path text els placed env HPa HL (class_x _ path _ _ HC)). Qed.
