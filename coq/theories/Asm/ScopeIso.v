(* C14 on the Context model, part 3: C14_isolation in full and C14_same_value.
   `hands items n`: the file has a statement `.global n;` or `.export n;` (one of its own statements, not one of a file it includes).
   include_isolation: across `.include g` the includer's own table changes only on names g hands up, each from absent to
   declared (a `.global` whose file failed before the end-of-file copy) or from absent / declared to the value g's own
   table has for that name when g ends; the table above the includer, the path stack and the current name are as before.
   Proof file (no model definitions). *)
From Coq Require Import ZArith NArith List Bool Lia String.
From Trion Require Import Text.Types Asm.CtxModel Asm.ScopeProofs Asm.ScopeProofs2.
From Trion Require Arm.AsmStmtModel Expr.EvalModel Text.ParseModel.
Import ListNotations.

Definition up_dir (dn : str) : Prop := dir_of dn = Some DGlobal \/ dir_of dn = Some DExport.

Definition hands (items : list ParseModel.item) (n : str) : Prop :=
  exists l c dn, In (ParseModel.IOk (mkElement l c (EDirective dn [AIdent n]))) items /\ up_dir dn.

Definition file_hands (data : list N) (n : str) : Prop :=
  match parse_source data with Parsed items _ => hands items n end.

Definition gt_in (S : nameset) (l : list task) : Prop := forall x a b, In (GlobalTask x a b) l -> S x.

(* Hs without the clause on local_tasks (the end-of-file loop drains that list) *)
Definition Hw (S : nameset) (a b : state) : Prop :=
  path_stack b = path_stack a /\ curr_name b = curr_name a /\ otle (locals a) (locals b) /\
  hand S (globals a) (globals b) (locals b) /\ text no_names (global_tasks a) (global_tasks b).
Lemma Hs_Hw S a b : Hs S a b -> Hw S a b.
Proof. intros (A1 & A2 & A3 & A4 & A5 & A6). repeat split; assumption. Qed.
Lemma Hw_refl S a : Hw S a a. Proof. apply Hs_Hw, Hs_refl. Qed.
Lemma Hw_trans S a b c : Hw S a b -> Hw S b c -> Hw S a c.
Proof. intros (A1 & A2 & A3 & A4 & A5) (B1 & B2 & B3 & B4 & B5).
  split; [congruence|]. split; [congruence|]. split; [eapply otle_trans; eauto|].
  split; [eapply hand_trans; eauto|eapply text_trans; eauto]. Qed.

Definition inc_hs (inc : state -> list N -> str -> res result) : Prop :=
  forall st data path r st', inc st data path = Ret r st' -> locals st <> None -> Hs no_names st st'.

Section WithS.
Variable S : nameset.

Lemma wk a b : Hs no_names a b -> Hs S a b.
Proof. apply Hs_weaken. intros n []. Qed.

Ltac w0 E := first
  [ apply (insert_local_hs S) in E | apply (defer_local_hs S) in E
  | (apply (add_task_hs S) in E; [|reflexivity])
  | (apply (defer_global_hs S) in E; [|assumption])
  | (apply (add_gtask_hs S) in E; [|assumption])
  | (apply (insert_global_hs S) in E; [|assumption|apply get_found; assumption])
  | (apply instr_assemble_hs in E; apply wk in E) | (apply write_instr_hs in E; apply wk in E)
  | (apply data_apply_hs in E; apply wk in E) | (apply arity_check_hs in E; apply wk in E) ].
Ltac s_finish := hs_unfold; eauto 5 using HF_refl, HF_trans.

Lemma dir_global_hs st l c d args r st' : dir_global st l c d args = Ret r st' ->
  (forall x, args = [AIdent x] -> d = DGlobal \/ d = DExport -> S x) -> Hs S st st'.
Proof. unfold dir_global. intros H HS.
  destruct (arity_check st l c args 1) eqn:A. { apply arity_check_hs in A. inversion H; subst. apply wk. exact A. }
  assert (LA : List.length args = 1%nat).
  { unfold arity_check in A. destruct (Nat.eqb (List.length args) 1) eqn:Q; [apply Nat.eqb_eq; exact Q|].
    destruct (Nat.ltb _ _); discriminate. }
  destruct args as [|a [|b rest]]; try discriminate LA. clear LA A.
  destruct a; try (inversion H; subst; s_finish).
  specialize (HS s eq_refl).
  destruct d; cbv beta iota zeta in H;
    try (assert (Sn : S s) by (apply HS; auto)); clear HS;
    repeat (tm_step w0); try s_finish.
Qed.

Lemma run_task_hs dbg st t r st' : run_task dbg st t = Ret r st' ->
  (forall x a b, t = GlobalTask x a b -> S x) -> Hs S st st'.
Proof. destruct t; cbn [run_task]; intros H HS.
  - clear HS. repeat (tm_step w0); try s_finish; apply write_instr_hs in H; apply wk in H; s_finish.
  - clear HS. repeat (tm_step w0); try s_finish.
  - assert (Sn : S name) by (eapply HS; reflexivity). clear HS. repeat (tm_step w0); try s_finish.
  - clear HS. repeat (tm_step w0); try s_finish.
Qed.

Lemma dir_include_hs fs inc st l c args r st' : inc_hs inc -> locals st <> None ->
  dir_include fs inc st l c args = Ret r st' -> Hs S st st'.
Proof. intros IO NL. unfold dir_include. intros H.
  destruct (arity_check st l c args 1) eqn:A. { apply arity_check_hs, wk in A. inversion H; subst. exact A. }
  destruct args as [|a rest]; [discriminate|]. destruct a; try (inversion H; subst; s_finish).
  destruct (existsb _ _); [inversion H; subst; s_finish|].
  destruct (fs _); [|inversion H; subst; s_finish].
  unfold bind in H. destruct (inc st _ _) as [r1 st1| |] eqn:I; try discriminate. apply (fun X => IO _ _ _ _ _ X NL) in I. apply wk in I.
  destruct r1; inversion H; subst; s_finish.
Qed.

Lemma process_directive_hs dbg fs inc st l c name args r st' : inc_hs inc -> locals st <> None ->
  (forall x, args = [AIdent x] -> up_dir name -> S x) ->
  process_directive dbg fs inc st l c name args = Ret r st' -> Hs S st st'.
Proof. intros IO NL HS. unfold process_directive. unfold up_dir in HS. destruct (dir_of name) as [[]|]; intros H.
  - apply wk. eapply dir_addr_hs; eauto.
  - apply wk. eapply dir_align_hs; eauto.
  - apply wk. eapply dir_const_hs; eauto.
  - apply wk. eapply dir_data_hs; eauto.
  - apply wk. eapply dir_bytes_hs; eauto.
  - apply wk. eapply dir_bytes_hs; eauto.
  - apply wk. eapply dir_bytes_hs; eauto.
  - eapply dir_global_hs; [exact H|]. intros x E _. apply HS; auto.
  - eapply dir_global_hs; [exact H|]. intros x E [X|X]; discriminate X.
  - eapply dir_global_hs; [exact H|]. intros x E _. apply HS; auto.
  - eapply dir_include_hs; eauto.
  - inversion H; subst; s_finish.
Qed.

Lemma step_hs dbg fs inc st e r st' : inc_hs inc -> locals st <> None ->
  (forall dn x, e_val e = EDirective dn [AIdent x] -> up_dir dn -> S x) ->
  step dbg fs inc st e = Ret r st' -> Hs S st st'.
Proof. intros IO NL HS. unfold step. destruct (e_val e) eqn:EV.
  - intros H. repeat (tm_step w0); try s_finish.
  - apply process_directive_hs; auto. intros x -> U. eapply HS; eauto.
  - destruct (active st); [intros H; inversion H; subst; s_finish|]. intros H. apply wk. eapply assemble_instr_hs; eauto.
Qed.

Lemma Hs_locals_some a b : Hs S a b -> locals a <> None -> locals b <> None.
Proof. intros (_ & _ & A & _). apply otle_some. exact A. Qed.

Lemma run_items_hs dbg fs inc items : inc_hs inc -> forall st r st', locals st <> None -> (forall n, hands items n -> S n) ->
  run_items dbg fs inc items st = Ret r st' -> Hs S st st'.
Proof. intros IO. induction items as [|i rest IH]; intros st r st' NL HS; cbn [run_items]; unfold bind.
  - intros H; inversion H; subst; s_finish.
  - destruct i; [|intros H; inversion H; subst; s_finish].
    destruct (step dbg fs inc st e) as [r1 st1| |] eqn:ST; try discriminate.
    apply step_hs in ST; auto.
    + destruct r1; [intros H; inversion H; subst; exact ST|]. intros H. apply IH in H.
      * eapply Hs_trans; eauto.
      * eapply Hs_locals_some; eauto.
      * intros n (l & c & dn & I & U). apply HS. exists l, c, dn. split; [right; exact I|exact U].
    + intros dn x EV U. apply HS. exists (e_line e), (e_col e), dn. split; [|exact U]. left. destruct e; cbn in *. subst; reflexivity.
Qed.

Lemma local_round_hs dbg tasks : forall st r r' st', gt_in S tasks -> local_round dbg tasks st r = Ret r' st' -> Hs S st st'.
Proof. induction tasks as [|t rest IH]; intros st r r' st' G; cbn [local_round]; unfold bind.
  - intros H; inversion H; subst; apply Hs_refl.
  - destruct (run_task dbg st t) as [x st1| |] eqn:R; try discriminate. apply run_task_hs in R.
    2:{ intros y a b ->. eapply G. left. reflexivity. }
    assert (G' : gt_in S rest) by (intros y a b I; eapply G; right; exact I).
    destruct x as [lvl|]; [destruct (is_fatal lvl)|]; intros H; try (apply IH in H; [|exact G']); try (inversion H; subst);
      eauto using Hs_trans.
Qed.

Lemma local_loop_hw dbg rounds : forall tasks st r r' st' lt, gt_in S tasks -> local_tasks st = Some lt -> gt_in S lt ->
  local_loop dbg rounds tasks st r = Ret r' st' -> Hw S st st'.
Proof. induction rounds as [|k IH]; intros tasks st r r' st' lt G L GL; cbn [local_loop]; unfold bind.
  - destruct tasks; [|discriminate]. intros H; inversion H; subst; apply Hw_refl.
  - destruct tasks as [|t0 tl]. { intros H; inversion H; subst; apply Hw_refl. }
    destruct (local_round dbg (t0 :: tl) st r) as [r1 st1| |] eqn:R; try discriminate. apply local_round_hs in R; [|exact G].
    pose proof R as (_ & _ & _ & _ & _ & LT). rewrite L in LT.
    destruct (local_tasks st1) as [newt|] eqn:L1; [|discriminate]. cbn in LT. destruct LT as (ex & -> & GE).
    assert (W : Hw S st (set_local_tasks st1 (Some []))).
    { apply Hs_Hw in R. destruct R as (A1 & A2 & A3 & A4 & A5). repeat split; assumption. }
    destruct (res_is_fatal r1); intros H.
    + inversion H; subst. exact W.
    + eapply IH in H; [eapply Hw_trans; eauto| |reflexivity|intros ? ? ? []].
      intros y a b I. apply in_app_or in I. destruct I; [eapply GL|eapply GE]; eauto.
Qed.
End WithS.

Lemma do_assemble_hs dbg fs inc st data r st' : inc_hs inc -> locals st <> None ->
  do_assemble dbg fs inc st data = Ret r st' -> Hs (file_hands data) st st'.
Proof. intros IO NL. unfold do_assemble, bind, file_hands. destruct (parse_source data).
  destruct (run_items _ _ _ _ _) as [r1 st1| |] eqn:R; try discriminate. apply (run_items_hs (hands items)) in R; auto.
  destruct r1; [intros H; inversion H; subst; exact R|]. destruct tail as [[p|]|]; try discriminate. intros H; inversion H; subst; exact R.
Qed.

(* Context::assemble up to (not including) the drop of the PathFrame: the state in which the included file ends *)
Definition assemble_open (dbg : bool) (fs : str -> option (list N)) (inc : state -> list N -> str -> res result)
    (st : state) (data : list N) (path : str) : res result :=
  do r, st1 <- do_assemble dbg fs inc (fst (enter_file st path)) data;
  if res_is_fatal r then Ret r st1
  else match local_tasks st1 with
       | None => Panic P_local_tasks_unwrap
       | Some tasks => local_loop dbg task_rounds tasks (set_local_tasks st1 (Some [])) r
       end.

Lemma assemble_body_open dbg fs inc st data path :
  assemble_body dbg fs inc st data path =
  (do r, st2 <- assemble_open dbg fs inc st data path;
   do _, st3 <- leave_file st2 (snd (enter_file st path)); Ret r st3).
Proof. unfold assemble_body, assemble_open. cbn [enter_file fst snd]. unfold bind.
  destruct (do_assemble _ _ _ _ _) as [r1 st1| |]; reflexivity. Qed.

Lemma assemble_open_hw dbg fs inc st data path r st2 : inc_hs inc ->
  assemble_open dbg fs inc st data path = Ret r st2 -> Hw (file_hands data) (fst (enter_file st path)) st2.
Proof. intros IO. unfold assemble_open, bind.
  destruct (do_assemble _ _ _ _ _) as [r1 st1| |] eqn:D; try discriminate.
  apply do_assemble_hs in D; [|exact IO|cbn; discriminate].
  destruct (res_is_fatal r1). { intros H; inversion H; subst. apply Hs_Hw. exact D. }
  pose proof D as (_ & _ & _ & _ & _ & LT). cbn [enter_file fst local_tasks] in LT.
  destruct (local_tasks st1) as [tasks|] eqn:L1; [|discriminate]. cbn in LT. destruct LT as (ex & E & GE). cbn in E. subst ex.
  intros H. eapply local_loop_hw in H; [| exact GE | reflexivity | intros ? ? ? []].
  eapply Hw_trans; [apply Hs_Hw; exact D|].
  destruct H as (A1 & A2 & A3 & A4 & A5). repeat split; assumption.
Qed.

(* the change of the includer's own table t into t', t2 = the included file's table when it ends *)
Definition handed_up (S : nameset) (t t' t2 : table) : Prop := forall n,
  tbl_get t' n = tbl_get t n \/
  (S n /\ ((tbl_get t n = None /\ tbl_get t' n = Some None) \/
           (exists v, tbl_get t' n = Some (Some v) /\ tbl_get t2 n = Some (Some v) /\
                      (tbl_get t n = None \/ tbl_get t n = Some None)))).

Lemma hand_tle S g g' l : hand S g g' l -> tle g g'.
Proof. intros H n. destruct (H n) as [E|(_ & [(A & B)|(v & A & B & [C|C])])]; rewrite ?E.
  - destruct (tbl_get g n) as [[w|]|]; auto; discriminate.
  - rewrite A. exact I.
  - rewrite C. exact I.
  - rewrite C, A. discriminate. Qed.

Theorem include_isolation_body dbg fs inc st data path r st' t : inc_hs inc ->
  assemble_body dbg fs inc st data path = Ret r st' -> locals st = Some t ->
  exists st2 t2 t',
    assemble_open dbg fs inc st data path = Ret r st2 /\ locals st2 = Some t2 /\ globals st2 = t' /\
    locals st' = Some t' /\ globals st' = globals st /\ path_stack st' = path_stack st /\ curr_name st' = curr_name st /\
    handed_up (file_hands data) t t' t2 /\
    text no_names (global_tasks st) (global_tasks st') /\ otext no_names (local_tasks st) (local_tasks st').
Proof. intros IO H L. rewrite assemble_body_open in H. unfold bind in H.
  destruct (assemble_open dbg fs inc st data path) as [r2 st2| |] eqn:AO; try discriminate.
  pose proof (assemble_open_hw _ _ _ _ _ _ _ _ IO AO) as (A1 & A2 & A3 & A4 & A5).
  cbn [enter_file fst path_stack curr_name locals globals global_tasks] in A1, A2, A3, A4, A5. rewrite L in A4.
  destruct (locals st2) as [t2|] eqn:L2; [|destruct A3].
  unfold leave_file in H. cbn [enter_file snd f_count f_name f_constants f_tasks] in H. rewrite L in H.
  destruct (negb _); [discriminate|]. destruct (path_stack st2) as [|p ps] eqn:PS; [discriminate|].
  inversion H; subst; clear H. exists st2, t2, (globals st2).
  cbn [locals globals path_stack curr_name global_tasks local_tasks].
  repeat match goal with |- _ /\ _ => split end; try reflexivity; try assumption; try congruence.
  - destruct (local_tasks st) as [lt|]; [apply text_refl|exact A5].
  - destruct (local_tasks st) as [lt|]; cbn; [exact A5|exact I].
Qed.

Lemma assemble_body_inc_hs dbg fs inc : inc_hs inc -> inc_hs (assemble_body dbg fs inc).
Proof. intros IO st data path r st' H NL. destruct (locals st) as [t|] eqn:L; [|congruence].
  destruct (include_isolation_body _ _ _ _ _ _ _ _ _ IO H L) as (st2 & t2 & t' & _ & _ & G2 & L' & G' & P & C & HU & T1 & T2).
  unfold Hs. rewrite L, L', G', P, C. repeat split; auto.
  - cbn. intros n. destruct (HU n) as [E|(_ & [(A & B)|(v & A & B & [X|X])])]; rewrite ?E.
    + destruct (tbl_get t n) as [[w|]|]; auto; discriminate.
    + rewrite A. exact I.
    + rewrite X. exact I.
    + rewrite X, A. discriminate.
  - apply hand_refl.
Qed.

Lemma assemble_inc_hs dbg fs fuel : inc_hs (assemble dbg fs fuel).
Proof. induction fuel as [|f IH]; [intros st data path r st' H; discriminate H|]. cbn [assemble]. apply assemble_body_inc_hs. exact IH. Qed.

(* C14_isolation *)
Theorem include_isolation dbg fs fuel st data path r st' t :
  assemble dbg fs (Datatypes.S fuel) st data path = Ret r st' -> locals st = Some t ->
  exists st2 t2 t',
    assemble_open dbg fs (assemble dbg fs fuel) st data path = Ret r st2 /\ locals st2 = Some t2 /\ globals st2 = t' /\
    locals st' = Some t' /\ globals st' = globals st /\ path_stack st' = path_stack st /\ curr_name st' = curr_name st /\
    handed_up (file_hands data) t t' t2.
Proof. cbn [assemble]. intros H L.
  destruct (include_isolation_body _ _ _ _ _ _ _ _ _ (assemble_inc_hs dbg fs fuel) H L) as (st2 & t2 & t' & X).
  exists st2, t2, t'. repeat (split; [apply X|]). apply X. Qed.

(* seen from the includer, `.include` is one statement that satisfies the statement relation with no name of the
   includer's own includer touched *)
Theorem include_step dbg fs fuel st e r st' : locals st <> None ->
  step dbg fs (assemble dbg fs fuel) st e = Ret r st' ->
  Hs (fun n => exists dn, e_val e = EDirective dn [AIdent n] /\ up_dir dn) st st'.
Proof. intros NL H. eapply step_hs; [apply assemble_inc_hs|exact NL| |exact H]. cbn. intros dn x E U. exists dn. auto. Qed.
