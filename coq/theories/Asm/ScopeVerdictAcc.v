(* C14, the Accept direction, part 4: the oracle's Accept verdict implies that the reading of Asm/ScopeVerdictAbs.v is not stuck
   and emits the oracle's values.  About Asm/ScopeSpec.v and Asm/ScopeVerdictAbs.v only (no Context model).
   - oracle side: what `errors t penv = []` and `ordered t = true` say item by item (the err_ and ord_ lemmas), the length of `sources`
     over a split statement list (src_len_app), `avail`;
   - wf d k t k': the tree has nesting depth <= d and its use sites are numbered consecutively from k to k' (what expand gives);
   - AOK: by induction on the depth, for a tree without errors, in documented order, whose imports have a value in the includer's
     table G and whose handed-up names are absent from it: `arun` succeeds, the includer's table afterwards has the value of every
     handed-up name (one of `down t x`) and is otherwise unchanged, the words so far are kept and the word of every use site
     (k, Some v) of `uses t penv` is WV v.
   Proof file. *)
From Coq Require Import ZArith NArith PeanoNat List Bool Lia FinFun.
From Trion Require Import Text.Types.
From Trion Require Import Asm.CtxModel Asm.ScopeProofs.
From Trion Require Import Asm.ScopeRefine Asm.ScopeLink Asm.ScopeLinkReg.
From Trion Require Import Asm.ScopeVerdictFine Asm.ScopeVerdictAbs.
Import ListNotations.
Local Open Scope nat_scope.

(* ------------------------------------------------------------------ the two register tables agree *)
Lemma is_register_conv x : CtxModel.is_register x = true -> SP.is_register x = true.
Proof.
  unfold CtxModel.is_register, AsmStmtModel.is_register, AsmStmtModel.regl, AsmStmtModel.sysl, AsmStmtModel.regl_upper, SP.is_register.
  change (AsmStmtModel.upper_str x) with (map SP.upper x). generalize (map SP.upper x). intros u.
  assert (K : forall lit, AsmStmtModel.is u lit = true -> In (DisplayModel.bytes_of_string lit) SP.register_names ->
              existsb (SP.str_eqb u) SP.register_names = true).
  { intros lit E IN. apply existsb_exists. exists (DisplayModel.bytes_of_string lit). split; [exact IN|].
    unfold AsmStmtModel.is in E. apply str_eqb_eq in E. subst u. apply sp_eqb_refl. }
  destruct (Nat.leb (List.length x) 8); [|discriminate].
  destruct (Nat.leb (List.length x) 4).
  - repeat match goal with
           | |- context[if AsmStmtModel.is u ?l then _ else _] =>
               let E := fresh "E" in destruct (AsmStmtModel.is u l) eqn:E; [intros _; apply (K l E); cbv; tauto|]
           end.
    discriminate.
  - repeat match goal with
           | |- context[if AsmStmtModel.is u ?l then _ else _] =>
               let E := fresh "E" in destruct (AsmStmtModel.is u l) eqn:E; [intros _; apply (K l E); cbv; tauto|]
           end.
    discriminate.
Qed.

Lemma not_reg_model x : SP.is_register x = false -> CtxModel.is_register x = false.
Proof. intros H. destruct (CtxModel.is_register x) eqn:R; [|reflexivity]. apply is_register_conv in R. congruence. Qed.

(* ------------------------------------------------------------------ sources over statement lists *)
Definition src (l : list SP.item) (penv : SP.name -> list Z) (x : SP.name) : list Z := SP.sources (SP.Node l) penv x.

Lemma repeat_app_add {A} m n (l : list A) : SP.repeat_app (m + n) l = SP.repeat_app m l ++ SP.repeat_app n l.
Proof. induction m as [|m IH]; [reflexivity|]. cbn [Nat.add SP.repeat_app]. rewrite IH, app_assoc. reflexivity. Qed.

Lemma in_repeat_app_inv {A} n (l : list A) v : In v (SP.repeat_app n l) -> n <> 0 /\ In v l.
Proof. induction n as [|n IH]; [intros []|]. cbn [SP.repeat_app]. intros H. split; [discriminate|].
  apply in_app_or in H. destruct H as [H|H]; [exact H|apply IH; exact H]. Qed.

Lemma src_len_app a b penv x : List.length (src (a ++ b) penv x) = List.length (src a penv x) + List.length (src b penv x).
Proof. unfold src, SP.sources. rewrite !app_length, down_app, app_length, !repeat_app_length, imports_app. nia. Qed.

Lemma src_in_app a b penv x v : In v (src a penv x) -> In v (src (a ++ b) penv x).
Proof.
  unfold src, SP.sources. intros H. apply in_app_or in H. apply in_or_app. destruct H as [H|H].
  - left. rewrite down_app. apply in_or_app. left. exact H.
  - right. apply in_repeat_app_inv in H. destruct H as (N0 & H). apply in_repeat_app; [|exact H]. rewrite imports_app. lia.
Qed.
Lemma src_in_app_r a b penv x v : In v (src b penv x) -> In v (src (a ++ b) penv x).
Proof.
  unfold src, SP.sources. intros H. apply in_app_or in H. apply in_or_app. destruct H as [H|H].
  - left. rewrite down_app. apply in_or_app. right. exact H.
  - right. apply in_repeat_app_inv in H. destruct H as (N0 & H). apply in_repeat_app; [|exact H]. rewrite imports_app. lia.
Qed.

Lemma src_def x v penv : src [SP.IDef x v] penv x = [v].
Proof. unfold src, SP.sources, SP.imports. cbn [SP.down SP.items_of filter List.length SP.repeat_app app]. rewrite sp_eqb_refl. reflexivity. Qed.
Lemma src_import x penv : src [SP.IImport x] penv x = penv x.
Proof. unfold src, SP.sources, SP.imports. cbn [SP.down SP.items_of filter]. rewrite sp_eqb_refl. cbn [List.length SP.repeat_app app]. apply app_nil_r. Qed.
Lemma src_child c penv x : src [SP.IChild c] penv x = SP.repeat_app (SP.ups c x) (SP.down c x).
Proof. unfold src, SP.sources, SP.imports. rewrite down_cons. cbn [SP.down SP.items_of filter List.length SP.repeat_app app]. rewrite !app_nil_r. reflexivity. Qed.

Lemma src1_def y v penv x : src [SP.IDef y v] penv x = if SP.str_eqb x y then [v] else [].
Proof. unfold src, SP.sources, SP.imports. cbn [SP.down SP.items_of filter List.length SP.repeat_app app].
  destruct (SP.str_eqb x y); reflexivity. Qed.
Lemma src1_import y penv x : src [SP.IImport y] penv x = if SP.str_eqb x y then penv x else [].
Proof. unfold src, SP.sources, SP.imports. cbn [SP.down SP.items_of filter]. destruct (SP.str_eqb x y); cbn [List.length SP.repeat_app app];
  [apply app_nil_r|reflexivity]. Qed.
Lemma src1_other i penv x : match i with SP.IGlobal _ | SP.IExport _ | SP.IUse _ _ => True | _ => False end -> src [i] penv x = [].
Proof. destruct i; intros H; try destruct H; reflexivity. Qed.

Lemma src_cons_len i l penv x : List.length (src (i :: l) penv x) = List.length (src [i] penv x) + List.length (src l penv x).
Proof. change (i :: l) with ([i] ++ l). apply src_len_app. Qed.

(* a value that is visible has been made available by some statement *)
Lemma avail_app a b x : SP.avail (a ++ b) x = SP.avail a x || SP.avail b x.
Proof. unfold SP.avail. apply existsb_app. Qed.
Lemma declg_app a b x : SP.declared_global (a ++ b) x = SP.declared_global a x || SP.declared_global b x.
Proof. unfold SP.declared_global. apply existsb_app. Qed.

Lemma src_avail l penv x : src l penv x <> [] -> SP.avail l x = true.
Proof.
  induction l as [|i l IH]; intros H.
  - exfalso. apply H. reflexivity.
  - change (i :: l) with ([i] ++ l). rewrite avail_app.
    destruct (src l penv x) as [|w r] eqn:E.
    + assert (L : List.length (src [i] penv x) <> 0).
      { intros L0. apply H. pose proof (src_cons_len i l penv x) as Q. rewrite E, L0 in Q.
        destruct (src (i :: l) penv x); [reflexivity|cbn [List.length] in Q; lia]. }
      apply orb_true_iff. left. unfold SP.avail. cbn [existsb]. rewrite orb_false_r.
      destruct i as [y v|y|y|y|y k|c].
      * rewrite src1_def in L. destruct (SP.str_eqb x y); [reflexivity|]. cbn in L. congruence.
      * rewrite src1_other in L by exact I. cbn in L. congruence.
      * rewrite src1_import in L. destruct (SP.str_eqb x y); [reflexivity|]. cbn in L. congruence.
      * rewrite src1_other in L by exact I. cbn in L. congruence.
      * rewrite src1_other in L by exact I. cbn in L. congruence.
      * rewrite src_child in L. destruct (SP.ups c x); [cbn in L; congruence|reflexivity].
    + apply orb_true_iff. right. apply IH. first [discriminate|rewrite E; discriminate].
Qed.

Lemma declg_in l x : SP.declared_global l x = true -> In (SP.IGlobal x) l.
Proof.
  unfold SP.declared_global. intros H. apply existsb_exists in H. destruct H as (i & IN & E).
  destruct i; try discriminate E. apply sp_eqb_eq in E. subst. exact IN.
Qed.

Lemma in_nu_global l x : In (SP.IGlobal x) l -> 1 <= nu l x.
Proof. intros H. pose proof (sumf_in du l x _ H) as U. cbn [du] in U. rewrite sp_eqb_refl in U. exact U. Qed.
Lemma in_nu_export l x : In (SP.IExport x) l -> 1 <= nu l x.
Proof. intros H. pose proof (sumf_in du l x _ H) as U. cbn [du] in U. rewrite sp_eqb_refl in U. exact U. Qed.
Lemma in_ni_import l x : In (SP.IImport x) l -> 1 <= ni l x.
Proof. intros H. pose proof (sumf_in di l x _ H) as U. cbn [di] in U. rewrite sp_eqb_refl in U. exact U. Qed.

Lemma nu_pos_in l x : 1 <= nu l x -> In (SP.IGlobal x) l \/ In (SP.IExport x) l.
Proof.
  intros H. destruct (sumf_pos du l x H) as (i & IN & P). destruct i as [y v|y|y|y|y k|c]; cbn [du] in P; try lia.
  - destruct (SP.str_eqb x y) eqn:E; [apply sp_eqb_eq in E; subst; left; exact IN|cbn in P; lia].
  - destruct (SP.str_eqb x y) eqn:E; [apply sp_eqb_eq in E; subst; right; exact IN|cbn in P; lia].
Qed.

Lemma two_or_more_len {A} (l : list A) : SP.two_or_more l = false -> List.length l <= 1.
Proof. destruct l as [|a [|b r]]; cbn; intros H; first [lia|discriminate H]. Qed.
Lemma is_nil_len {A} (l : list A) : SP.is_nil l = false -> 1 <= List.length l.
Proof. destruct l; cbn; intros H; [discriminate H|lia]. Qed.

(* ------------------------------------------------------------------ what `errors = []` says *)
Definition lerr (t : SP.tree) (penv : SP.name -> list Z) (i : SP.item) : list SP.reason :=
  match i with
  | SP.IDef x _ => (if SP.is_register x then [SP.RRegisterName] else []) ++ (if SP.two_or_more (SP.sources t penv x) then [SP.RDuplicate] else [])
  | SP.IGlobal x | SP.IExport x =>
      (if SP.is_register x then [SP.RRegisterName] else []) ++
      (if SP.is_nil (SP.sources t penv x) then [SP.RExportUnvalued] else []) ++
      (if negb (Nat.eqb (SP.imports t x) 0) then [SP.RImportAndExport] else [])
  | SP.IImport x =>
      (if SP.is_register x then [SP.RRegisterName] else []) ++
      (if SP.is_nil (penv x) then [SP.RImportLacks] else []) ++
      (if SP.two_or_more (SP.sources t penv x) then [SP.RDuplicate] else [])
  | SP.IUse x _ => if SP.is_nil (SP.sources t penv x) then [SP.RInvisibleUse] else if SP.two_or_more (SP.sources t penv x) then [SP.RDuplicate] else []
  | SP.IChild c => flat_map (fun x => if SP.two_or_more (SP.sources t penv x) then [SP.RDuplicate] else [])
                            (filter (fun x => negb (Nat.eqb (SP.ups c x) 0)) (SP.names_of c))
  end.

Lemma local_errors_lerr t penv : SP.local_errors t penv = flat_map (lerr t penv) (SP.items_of t).
Proof. reflexivity. Qed.

Lemma flat_map_nil_inv {A B} (f : A -> list B) l : flat_map f l = [] -> forall a, In a l -> f a = [].
Proof. induction l as [|a l IH]; intros H b IN; [destruct IN|]. cbn [flat_map] in H. apply app_eq_nil in H. destruct H as [H1 H2].
  destruct IN as [<-|IN]; [exact H1|exact (IH H2 b IN)]. Qed.

Lemma errors_inv l penv : SP.errors (SP.Node l) penv = [] ->
  (forall i, In i l -> lerr (SP.Node l) penv i = []) /\
  (forall c, In (SP.IChild c) l -> SP.errors c (SP.sources (SP.Node l) penv) = []).
Proof.
  rewrite errors_node. intros H. apply app_eq_nil in H. destruct H as [H1 H2]. split.
  - rewrite local_errors_lerr in H1. cbn [SP.items_of] in H1. apply flat_map_nil_inv. exact H1.
  - intros c IN. exact (flat_map_nil_inv _ _ H2 (SP.IChild c) IN).
Qed.

Lemma if_nil (b : bool) (r : SP.reason) : (if b then [r] else []) = [] -> b = false.
Proof. destruct b; [discriminate|reflexivity]. Qed.

Lemma err_def t penv x v : lerr t penv (SP.IDef x v) = [] -> SP.is_register x = false /\ List.length (SP.sources t penv x) <= 1.
Proof. cbn [lerr]. intros H. apply app_eq_nil in H. destruct H as [A B]. apply if_nil in A, B. split; [exact A|apply two_or_more_len; exact B]. Qed.
Lemma err_up t penv i x : i = SP.IGlobal x \/ i = SP.IExport x -> lerr t penv i = [] ->
  SP.is_register x = false /\ 1 <= List.length (SP.sources t penv x) /\ SP.imports t x = 0.
Proof.
  intros [->| ->]; cbn [lerr]; intros H; apply app_eq_nil in H; destruct H as [A B]; apply app_eq_nil in B; destruct B as [B C];
    apply if_nil in A, B, C; (split; [exact A|]); (split; [apply is_nil_len; exact B|]);
    apply negb_false_iff, Nat.eqb_eq in C; exact C.
Qed.
Lemma err_import t penv x : lerr t penv (SP.IImport x) = [] ->
  SP.is_register x = false /\ 1 <= List.length (penv x) /\ List.length (SP.sources t penv x) <= 1.
Proof.
  cbn [lerr]. intros H. apply app_eq_nil in H. destruct H as [A B]. apply app_eq_nil in B. destruct B as [B C].
  apply if_nil in A, B, C. split; [exact A|]. split; [apply is_nil_len; exact B|apply two_or_more_len; exact C].
Qed.
Lemma err_use t penv x k : lerr t penv (SP.IUse x k) = [] -> exists v, SP.sources t penv x = [v].
Proof.
  cbn [lerr]. destruct (SP.sources t penv x) as [|v [|w r]]; cbn; try discriminate. intros _. exists v. reflexivity.
Qed.
Lemma err_child t penv c x : lerr t penv (SP.IChild c) = [] -> In x (SP.names_of c) -> SP.ups c x <> 0 ->
  List.length (SP.sources t penv x) <= 1.
Proof.
  cbn [lerr]. intros H IN U. apply two_or_more_len.
  assert (F : In x (filter (fun x => negb (Nat.eqb (SP.ups c x) 0)) (SP.names_of c))).
  { apply filter_In. split; [exact IN|]. apply negb_true_iff, Nat.eqb_neq. exact U. }
  pose proof (flat_map_nil_inv _ _ H x F) as Q. cbn in Q. apply if_nil in Q. exact Q.
Qed.

Lemma names_of_in t i x : In i (SP.items_of t) ->
  (i = SP.IGlobal x \/ i = SP.IExport x \/ i = SP.IImport x \/ (exists v, i = SP.IDef x v) \/ exists k, i = SP.IUse x k) -> In x (SP.names_of t).
Proof.
  intros IN H. unfold SP.names_of. apply in_flat_map. exists i. split; [exact IN|].
  destruct H as [->|[->|[->|[(v & ->)|(k & ->)]]]]; left; reflexivity.
Qed.

(* ------------------------------------------------------------------ what `ordered = true` says *)
Definition ocheck (pre : list SP.item) (i : SP.item) : bool :=
  match i with
  | SP.IExport x => SP.avail pre x
  | SP.IChild c =>
      forallb (fun x => (Nat.eqb (SP.imports c x) 0 || SP.avail pre x) &&
                        (Nat.eqb (SP.ups c x) 0 || negb (SP.declared_global pre x))) (SP.names_of c)
      && SP.ordered c
  | _ => true
  end.
Fixpoint ogo (pre l : list SP.item) : bool :=
  match l with [] => true | i :: r => ocheck pre i && ogo (pre ++ [i]) r end.

Lemma ordered_node l : SP.ordered (SP.Node l) = ogo [] l.
Proof.
  cbn [SP.ordered].
  match goal with |- ?f [] l = _ => assert (H : forall pre, f pre l = ogo pre l) end; [|apply H].
  induction l as [|i r IH]; intros pre; [reflexivity|]. cbn [ogo]. rewrite <- (IH (pre ++ [i])). destruct i; reflexivity.
Qed.

Lemma ogo_split : forall a pre i b, ogo pre (a ++ i :: b) = true -> ocheck (pre ++ a) i = true.
Proof.
  induction a as [|j a IH]; intros pre i b H.
  - cbn [app ogo] in H. apply andb_prop in H. rewrite app_nil_r. apply H.
  - cbn [app ogo] in H. apply andb_prop in H. destruct H as [_ H]. specialize (IH _ _ _ H). rewrite <- app_assoc in IH. exact IH.
Qed.

(* ------------------------------------------------------------------ use sites *)
Fixpoint luses (S : SP.name -> list Z) (l : list SP.item) : list (N * option Z) :=
  match l with
  | [] => []
  | SP.IUse x k :: r => (k, match S x with [v] => Some v | _ => None end) :: luses S r
  | SP.IChild c :: r => SP.uses c S ++ luses S r
  | _ :: r => luses S r
  end.

Lemma uses_node l penv : SP.uses (SP.Node l) penv = luses (SP.sources (SP.Node l) penv) l.
Proof. cbn [SP.uses]. generalize (SP.sources (SP.Node l) penv). intros S. induction l as [|i r IH]; [reflexivity|].
  destruct i; cbn [luses]; rewrite <- IH; reflexivity. Qed.

Lemma luses_app S a b : luses S (a ++ b) = luses S a ++ luses S b.
Proof. induction a as [|i a IH]; [reflexivity|]. destruct i; cbn [app luses]; rewrite IH; try reflexivity. apply app_assoc. Qed.

(* nesting depth and numbering *)
Fixpoint wfl (wfc : N -> SP.tree -> N -> Prop) (l : list SP.item) (k k' : N) : Prop :=
  match l with
  | [] => k' = k
  | SP.IUse _ j :: r => j = k /\ wfl wfc r (k + 1)%N k'
  | SP.IChild c :: r => exists k1, wfc k c k1 /\ wfl wfc r k1 k'
  | _ :: r => wfl wfc r k k'
  end.
Fixpoint wf (d : nat) (k : N) (t : SP.tree) (k' : N) : Prop :=
  match d with O => False | S d' => wfl (wf d') (SP.items_of t) k k' end.

Lemma goL_wfl files base (ex : SP.file -> N -> option (SP.tree * N)) (wfc : N -> SP.tree -> N -> Prop) :
  (forall b k t k', ex b k = Some (t, k') -> wfc k t k') ->
  forall l k its k', goL ex files base l k = Some (its, k') -> wfl wfc its k k'.
Proof.
  intros HX. induction l as [|s r IH]; intros k its k' G; cbn [goL] in G.
  - inversion G; subst. reflexivity.
  - destruct s; try discriminate G;
      try (destruct (goL ex files base r k) as [[is k2]|] eqn:G1; [|discriminate G]; inversion G; subst; cbn [wfl]; eapply IH; eauto).
    + destruct (SP.lookup_file files f) as [b|]; [|discriminate G]. destruct (ex b k) as [[tc k1]|] eqn:EX; [|discriminate G].
      destruct (goL ex files base r k1) as [[is k2]|] eqn:G1; [|discriminate G]. inversion G; subst. cbn [wfl].
      exists k1. split; [eapply HX; eauto|eapply IH; eauto].
    + destruct (goL ex files base r (k + 1)%N) as [[is k2]|] eqn:G1; [|discriminate G]. inversion G; subst. cbn [wfl].
      split; [reflexivity|eapply IH; eauto].
Qed.

Lemma expand_wf files base : forall d body k t k', SP.expand d files base body k = Some (t, k') -> wf d k t k'.
Proof.
  induction d as [|d IH]; intros body k t k' E; [discriminate E|]. rewrite expand_S in E.
  destruct (goL _ _ _ body k) as [[its k2]|] eqn:G; [|discriminate E]. inversion E; subst. cbn [wf SP.items_of].
  eapply goL_wfl; [|exact G]. intros b k0 t0 k0'. apply IH.
Qed.

(* the indices of the use sites of a well-numbered tree: k, k+1, .., k'-1 *)
Definition nseq (k k' : N) : list N := map N.of_nat (seq (N.to_nat k) (N.to_nat k' - N.to_nat k)).

Lemma nseq_nil k : nseq k k = []. Proof. unfold nseq. rewrite Nat.sub_diag. reflexivity. Qed.
Lemma nseq_app k k1 k' : (k <= k1)%N -> (k1 <= k')%N -> nseq k k' = nseq k k1 ++ nseq k1 k'.
Proof.
  intros A B. unfold nseq. rewrite <- map_app. f_equal.
  replace (N.to_nat k' - N.to_nat k) with ((N.to_nat k1 - N.to_nat k) + (N.to_nat k' - N.to_nat k1)) by lia.
  rewrite seq_app. f_equal. f_equal. lia.
Qed.
Lemma nseq_cons k k' : (k < k')%N -> nseq k k' = k :: nseq (k + 1) k'.
Proof.
  intros A. unfold nseq. replace (N.to_nat k' - N.to_nat k) with (S (N.to_nat k' - N.to_nat (k + 1))) by lia.
  cbn [seq map]. rewrite N2Nat.id. f_equal. f_equal. f_equal. lia.
Qed.
Lemma nseq_in j k k' : In j (nseq k k') <-> (k <= j < k')%N.
Proof.
  unfold nseq. rewrite in_map_iff. split.
  - intros (n & <- & IN). apply in_seq in IN. lia.
  - intros H. exists (N.to_nat j). split; [apply N2Nat.id|]. apply in_seq. lia.
Qed.
Lemma nseq_nodup k k' : NoDup (nseq k k').
Proof. unfold nseq. apply Injective_map_NoDup; [intros a b H; apply Nat2N.inj; exact H|apply seq_NoDup]. Qed.

Definition IdxP (d : nat) : Prop := forall t S k k', wf d k t k' -> (k <= k')%N /\ map fst (SP.uses t S) = nseq k k'.

Lemma wfl_idx d : IdxP d -> forall S l k k', wfl (wf d) l k k' -> (k <= k')%N /\ map fst (luses S l) = nseq k k'.
Proof.
  intros IHd S. induction l as [|i r IH]; intros k k' H; cbn [wfl] in H.
  - subst k'. split; [lia|]. rewrite nseq_nil. reflexivity.
  - destruct i as [x v|x|x|x|x j|c]; cbn [luses]; try (apply IH; exact H).
    + destruct H as (-> & H). destruct (IH _ _ H) as (L & E). split; [lia|]. cbn [map fst]. rewrite E. symmetry. apply nseq_cons. lia.
    + destruct H as (k1 & HC & H). destruct (IHd c S k k1 HC) as (L1 & E1). destruct (IH _ _ H) as (L2 & E2).
      split; [lia|]. rewrite map_app, E1, E2. symmetry. apply nseq_app; assumption.
Qed.

Lemma wf_idx : forall d, IdxP d.
Proof.
  induction d as [|d IH]; intros t S k k' H; [destruct H|]. cbn [wf] in H. destruct t as [l]. cbn [SP.items_of] in H.
  rewrite uses_node. apply (wfl_idx d IH _ l k k' H).
Qed.

(* ------------------------------------------------------------------ words *)
Lemma wset_length : forall W k w, List.length (wset W k w) = List.length W.
Proof. induction W as [|a r IH]; intros k w; [reflexivity|]. destruct k; cbn [wset List.length]; auto. Qed.
Lemma wset_nth_same : forall W k w, k < List.length W -> nth k (wset W k w) WP = w.
Proof. induction W as [|a r IH]; intros k w H; [cbn in H; lia|]. destruct k; cbn [wset nth]; [reflexivity|]. apply IH. cbn in H. lia. Qed.
Lemma wset_nth_other : forall W k j w, j <> k -> nth j (wset W k w) WP = nth j W WP.
Proof. induction W as [|a r IH]; intros k j w H; [reflexivity|]. destruct k, j; cbn [wset nth]; try reflexivity; [congruence|]. apply IH. congruence. Qed.

Definition pgs (P : list ptask) : list str := flat_map (fun p => match p with PG x => [x] | _ => [] end) P.
Lemma pgs_in P x : In x (pgs P) <-> In (PG x) P.
Proof.
  unfold pgs. rewrite in_flat_map. split.
  - intros (p & IN & H). destruct p; [destruct H as [->|[]]; exact IN|destruct H].
  - intros IN. exists (PG x). split; [exact IN|left; reflexivity].
Qed.
Lemma pgs_app a b : pgs (a ++ b) = pgs a ++ pgs b.
Proof. unfold pgs. apply flat_map_app. Qed.

Lemma pu_dec P k : (exists x, In (PU k x) P) \/ (forall x, ~ In (PU k x) P).
Proof.
  induction P as [|p P IH]; [right; intros x []|].
  destruct IH as [(x & IN)|NO]; [left; exists x; right; exact IN|].
  destruct p as [y|j y].
  - right. intros x [H|H]; [discriminate H|exact (NO x H)].
  - destruct (N.eq_dec j k) as [->|NE].
    + left. exists y. left. reflexivity.
    + right. intros x [H|H]; [inversion H; congruence|exact (NO x H)].
Qed.

Lemma atasks_ok : forall P T Gc P0 Wc,
  NoDup (pgs P) ->
  (forall x, In (PG x) P -> CtxModel.is_register x = false /\ (exists v, tbl_get T x = Some (Some v)) /\ tbl_get Gc x = Some None) ->
  (forall k x, In (PU k x) P -> CtxModel.is_register x = false /\ (exists v, tbl_get T x = Some (Some v) /\ u32z v = true) /\
                                N.to_nat k < List.length Wc) ->
  exists G' W', atasks P (mkA T Gc P0 Wc) = Some (mkA T G' P0 W') /\ List.length W' = List.length Wc /\
    (forall x, ~ In (PG x) P -> tbl_get G' x = tbl_get Gc x) /\
    (forall x, In (PG x) P -> tbl_get G' x = tbl_get T x) /\
    (forall k, (forall x, ~ In (PU k x) P) -> nth (N.to_nat k) W' WP = nth (N.to_nat k) Wc WP) /\
    (forall k x, In (PU k x) P -> exists x' v, In (PU k x') P /\ tbl_get T x' = Some (Some v) /\ nth (N.to_nat k) W' WP = WV v).
Proof.
  induction P as [|p P IH]; intros T Gc P0 Wc ND HG HU.
  - exists Gc, Wc. cbn [atasks]. repeat split; auto; intros; try contradiction.
  - destruct p as [x|k x].
    + destruct (HG x (or_introl eq_refl)) as (R & (v & TV) & GX).
      cbn [pgs flat_map app] in ND. fold (pgs P) in ND. inversion ND as [|? ? NI ND']; subst.
      assert (NIP : ~ In (PG x) P) by (intros H; apply NI, pgs_in; exact H).
      destruct (IH T (tbl_set Gc x (Some v)) P0 Wc ND') as (G' & W' & A & L & G1 & G2 & W1 & W2).
      * intros y IN. destruct (HG y (or_intror IN)) as (Ry & TVy & GY). split; [exact Ry|]. split; [exact TVy|].
        rewrite tbl_get_set. destruct (str_eqb x y) eqn:E; [|exact GY]. apply str_eqb_eq in E. subst y. contradiction.
      * intros k y IN. apply HU. right. exact IN.
      * exists G', W'. cbn [atasks atask aT aG]. rewrite R, TV, GX. cbn [aP aW]. split; [exact A|]. split; [exact L|].
        split; [|split; [|split]].
        -- intros y NY. rewrite G1 by (intros H; apply NY; right; exact H). rewrite tbl_get_set.
           destruct (str_eqb x y) eqn:E; [|reflexivity]. apply str_eqb_eq in E. subst y. exfalso. apply NY. left. reflexivity.
        -- intros y [H|H]; [inversion H; subst y; rewrite (G1 x NIP), tbl_get_set, str_eqb_refl; symmetry; exact TV|exact (G2 y H)].
        -- intros k NK. apply W1. intros y H. apply (NK y). right. exact H.
        -- intros k y [H|H]; [discriminate H|]. destruct (W2 k y H) as (x' & v' & I' & T' & N'). exists x', v'. split; [right; exact I'|auto].
    + destruct (HU k x (or_introl eq_refl)) as (R & (v & TV & UV) & KL).
      assert (ND' : NoDup (pgs P)) by exact ND.
      destruct (IH T Gc P0 (wset Wc (N.to_nat k) (WV v)) ND') as (G' & W' & A & L & G1 & G2 & W1 & W2).
      * intros y IN. apply HG. right. exact IN.
      * intros j y IN. rewrite wset_length. apply HU. right. exact IN.
      * exists G', W'. cbn [atasks atask aT aG aW]. rewrite R, TV, UV. apply Nat.ltb_lt in KL. rewrite KL. cbn [andb aP].
        split; [exact A|]. split; [rewrite L; apply wset_length|]. split; [|split; [|split]].
        -- intros y NY. apply G1. intros H. apply NY. right. exact H.
        -- intros y [H|H]; [discriminate H|exact (G2 y H)].
        -- intros j NJ. rewrite W1 by (intros y H; apply (NJ y); right; exact H). apply wset_nth_other.
           intros E. apply (NJ x). left. f_equal. apply N2Nat.inj. symmetry. exact E.
        -- intros j y [H|H].
           ++ inversion H; subst j y. destruct (pu_dec P k) as [(x' & IN')|NO].
              ** destruct (W2 k x' IN') as (x'' & v'' & I'' & T'' & N''). exists x'', v''. split; [right; exact I''|auto].
              ** exists x, v. split; [left; reflexivity|]. split; [exact TV|]. rewrite (W1 k NO). apply wset_nth_same. apply Nat.ltb_lt. exact KL.
           ++ destruct (W2 j y H) as (x' & v' & I' & T' & N'). exists x', v'. split; [right; exact I'|auto].
Qed.

(* ------------------------------------------------------------------ tables *)
Lemma sdec (a b : str) : {a = b} + {a <> b}.
Proof. apply list_eq_dec. apply N.eq_dec. Qed.
Lemma tgs_eq t x v : tbl_get (tbl_set t x v) x = Some v.
Proof. rewrite tbl_get_set, str_eqb_refl. reflexivity. Qed.
Lemma tgs_neq t x y v : x <> y -> tbl_get (tbl_set t x v) y = tbl_get t y.
Proof. intros H. rewrite tbl_get_set. destruct (str_eqb x y) eqn:E; [apply str_eqb_eq in E; congruence|reflexivity]. Qed.

Definition WVof (u : N * option Z) : word := match snd u with Some v => WV v | None => WP end.

(* ------------------------------------------------------------------ the statement *)
Definition AOK (d : nat) : Prop := forall t penv G W k k',
  wf d k t k' -> k = N.of_nat (List.length W) ->
  SP.errors t penv = [] -> SP.ordered t = true ->
  (forall x, SP.imports t x <> 0 -> exists v, tbl_get G x = Some (Some v) /\ In v (penv x)) ->
  (forall x, SP.ups t x <> 0 -> tbl_get G x = None) ->
  (forall u, In u (SP.uses t penv) -> exists v, snd u = Some v /\ u32z v = true) ->
  (forall x, SP.ups t x <= 1) ->
  exists G' W', arun d t G W = Some (G', W') /\
    (forall x, SP.ups t x = 0 -> tbl_get G' x = tbl_get G x) /\
    (forall x, SP.ups t x <> 0 -> exists v, tbl_get G' x = Some (Some v) /\ In v (SP.down t x)) /\
    k' = N.of_nat (List.length W') /\
    (forall j, j < List.length W -> nth j W' WP = nth j W WP) /\
    (forall k1 ov, In (k1, ov) (SP.uses t penv) -> nth (N.to_nat k1) W' WP = WVof (k1, ov)).

Section Node.
Variable d : nat.
Hypothesis IHd : AOK d.
Variables (its : list SP.item) (penv : SP.name -> list Z) (G : table) (W : list word).
Let t := SP.Node its.
Let S := SP.sources t penv.

Hypothesis HE : forall i, In i its -> lerr t penv i = [].
Hypothesis HC : forall c, In (SP.IChild c) its -> SP.errors c S = [].
Hypothesis HO : ogo [] its = true.
Hypothesis H3 : forall x, SP.imports t x <> 0 -> exists v, tbl_get G x = Some (Some v) /\ In v (penv x).
Hypothesis H4 : forall x, SP.ups t x <> 0 -> tbl_get G x = None.
Hypothesis H5 : forall u, In u (luses S its) -> exists v, snd u = Some v /\ u32z v = true.
Hypothesis H7 : forall x, nu its x <= 1.

Record INV (pre : list SP.item) (a : ast) (kc : N) : Prop := mkINV {
  i_val : forall x v, tbl_get (aT a) x = Some (Some v) -> In v (src pre penv x);
  i_av : forall x, SP.avail pre x = true -> exists v, tbl_get (aT a) x = Some (Some v);
  i_decl : forall x, tbl_get (aT a) x = Some None -> SP.declared_global pre x = true /\ In (PG x) (aP a);
  i_g0 : forall x, nu pre x = 0 -> tbl_get (aG a) x = tbl_get G x;
  i_g1 : forall x, nu pre x <> 0 -> (exists v, tbl_get (aG a) x = Some (Some v) /\ In v (SP.down (SP.Node pre) x)) \/ In (PG x) (aP a);
  i_pg : forall x, In (PG x) (aP a) -> tbl_get (aG a) x = Some None /\ nu pre x <> 0 /\ CtxModel.is_register x = false;
  i_pgd : NoDup (pgs (aP a));
  i_pu : forall k x, In (PU k x) (aP a) -> In (SP.IUse x k) pre /\ N.to_nat k < List.length (aW a);
  i_len : kc = N.of_nat (List.length (aW a));
  i_ge : List.length W <= List.length (aW a);
  i_keep : forall j, j < List.length W -> nth j (aW a) WP = nth j W WP;
  i_use : forall k ov, In (k, ov) (luses S pre) -> nth (N.to_nat k) (aW a) WP = WVof (k, ov) \/ exists x, In (PU k x) (aP a);
  i_lt : forall k ov, In (k, ov) (luses S pre) -> (k < kc)%N
}.

Lemma S_split pre i post x : its = pre ++ i :: post ->
  List.length (S x) = List.length (src pre penv x) + List.length (src [i] penv x) + List.length (src post penv x).
Proof. intros E. unfold S, t. rewrite E. change (SP.sources (SP.Node (pre ++ i :: post)) penv x) with (src (pre ++ [i] ++ post) penv x).
  rewrite !src_len_app. lia. Qed.

Lemma S_mono pre post x v : its = pre ++ post -> In v (src pre penv x) -> In v (S x).
Proof. intros E H. unfold S, t. rewrite E. apply src_in_app. exact H. Qed.

Lemma nu_split pre i post x : its = pre ++ i :: post -> nu its x = nu pre x + du i x + nu post x.
Proof. intros ->. unfold nu. rewrite sumf_app. cbn [sumf]. lia. Qed.
Lemma ni_split pre i post x : its = pre ++ i :: post -> ni its x = ni pre x + di i x + ni post x.
Proof. intros ->. unfold ni. rewrite sumf_app. cbn [sumf]. lia. Qed.

Lemma nu_snoc pre i x : nu (pre ++ [i]) x = nu pre x + du i x.
Proof. unfold nu. rewrite sumf_app. cbn [sumf]. lia. Qed.

Lemma down_mono pre i x v : In v (SP.down (SP.Node pre) x) -> In v (SP.down (SP.Node (pre ++ [i])) x).
Proof. intros H. rewrite down_app. apply in_or_app. left. exact H. Qed.

(* a statement that gives x the value v in the file's own table *)
Lemma inv_define pre a kc i x v : INV pre a kc ->
  (forall y, SP.avail [i] y = SP.str_eqb y x) -> (forall y, SP.declared_global [i] y = false) -> (forall y, du i y = 0) ->
  luses S [i] = [] -> In v (src (pre ++ [i]) penv x) ->
  INV (pre ++ [i]) (mkA (tbl_set (aT a) x (Some v)) (aG a) (aP a) (aW a)) kc.
Proof.
  intros I AV DG DU LU SV. constructor; cbn [aT aG aP aW].
  - intros y w H. destruct (sdec x y) as [<-|NE].
    + rewrite tgs_eq in H. inversion H; subst w. exact SV.
    + rewrite tgs_neq in H by exact NE. apply src_in_app. eapply i_val; eauto.
  - intros y H. rewrite avail_app, AV in H. destruct (sdec x y) as [<-|NE]; [exists v; apply tgs_eq|].
    rewrite tgs_neq by exact NE. apply orb_true_iff in H. destruct H as [H|H]; [eapply i_av; eauto|].
    apply sp_eqb_eq in H. congruence.
  - intros y H. destruct (sdec x y) as [<-|NE]; [rewrite tgs_eq in H; discriminate H|]. rewrite tgs_neq in H by exact NE.
    destruct (i_decl _ _ _ I y H) as (A & B). split; [rewrite declg_app, A; reflexivity|exact B].
  - intros y H. rewrite nu_snoc, DU in H. apply (i_g0 _ _ _ I). lia.
  - intros y H. rewrite nu_snoc, DU in H. destruct (i_g1 _ _ _ I y ltac:(lia)) as [(w & A & B)|B]; [left; exists w; split; [exact A|apply down_mono; exact B]|right; exact B].
  - intros y H. destruct (i_pg _ _ _ I y H) as (A & B & C). split; [exact A|]. split; [rewrite nu_snoc; lia|exact C].
  - apply (i_pgd _ _ _ I).
  - intros k y H. destruct (i_pu _ _ _ I k y H) as (A & B). split; [apply in_or_app; left; exact A|exact B].
  - apply (i_len _ _ _ I).
  - apply (i_ge _ _ _ I).
  - apply (i_keep _ _ _ I).
  - intros k ov H. rewrite luses_app, LU, app_nil_r in H. apply (i_use _ _ _ I k ov H).
  - intros k ov H. rewrite luses_app, LU, app_nil_r in H. apply (i_lt _ _ _ I k ov H).
Qed.

(* a statement that gives x (so far not handed up) the value v in the includer's table *)
Lemma inv_handup pre a kc i x v G' : INV pre a kc ->
  (forall y, SP.avail [i] y = false) -> du i x = 1 -> (forall y, y <> x -> du i y = 0) -> luses S [i] = [] ->
  nu pre x = 0 -> In v (SP.down (SP.Node pre) x) ->
  tbl_get G' x = Some (Some v) -> (forall y, y <> x -> tbl_get G' y = tbl_get (aG a) y) ->
  INV (pre ++ [i]) (mkA (aT a) G' (aP a) (aW a)) kc.
Proof.
  intros I AV DX DY LU N0 DV GX GY. constructor; cbn [aT aG aP aW].
  - intros y w H. apply src_in_app. eapply i_val; eauto.
  - intros y H. rewrite avail_app, AV, orb_false_r in H. eapply i_av; eauto.
  - intros y H. destruct (i_decl _ _ _ I y H) as (A & B). split; [rewrite declg_app, A; reflexivity|exact B].
  - intros y H. rewrite nu_snoc in H. destruct (sdec y x) as [->|NE]; [lia|]. rewrite (GY y NE). apply (i_g0 _ _ _ I). lia.
  - intros y H. destruct (sdec y x) as [->|NE].
    + left. exists v. split; [exact GX|apply down_mono; exact DV].
    + rewrite nu_snoc, (DY y NE) in H. rewrite (GY y NE).
      destruct (i_g1 _ _ _ I y ltac:(lia)) as [(w & A & B)|B]; [left; exists w; split; [exact A|apply down_mono; exact B]|right; exact B].
  - intros y H. destruct (i_pg _ _ _ I y H) as (A & B & C). assert (NE : y <> x) by (intros ->; contradiction).
    rewrite (GY y NE). split; [exact A|]. split; [rewrite nu_snoc; lia|exact C].
  - apply (i_pgd _ _ _ I).
  - intros k y H. destruct (i_pu _ _ _ I k y H) as (A & B). split; [apply in_or_app; left; exact A|exact B].
  - apply (i_len _ _ _ I).
  - apply (i_ge _ _ _ I).
  - apply (i_keep _ _ _ I).
  - intros k ov H. rewrite luses_app, LU, app_nil_r in H. apply (i_use _ _ _ I k ov H).
  - intros k ov H. rewrite luses_app, LU, app_nil_r in H. apply (i_lt _ _ _ I k ov H).
Qed.

Lemma src_down pre x v : ni pre x = 0 -> In v (src pre penv x) -> In v (SP.down (SP.Node pre) x).
Proof.
  intros N0 H. unfold src, SP.sources in H. rewrite imports_ni, N0 in H. cbn [SP.repeat_app] in H. rewrite app_nil_r in H. exact H.
Qed.

Lemma child_up_facts c x : In (SP.IChild c) its -> SP.ups c x <> 0 ->
  SP.is_register x = false /\ 1 <= List.length (SP.down c x) /\ SP.imports c x = 0 /\ In x (SP.names_of c).
Proof.
  intros IN U. pose proof (HC c IN) as EC. destruct c as [lc]. destruct (errors_inv lc S EC) as (LE & _).
  rewrite ups_nu in U. destruct (nu_pos_in lc x ltac:(lia)) as [IG|IG].
  - destruct (err_up (SP.Node lc) S _ x (or_introl eq_refl) (LE _ IG)) as (R & L & I0). split; [exact R|].
    split; [|split; [exact I0|eapply names_of_in; [exact IG|auto]]].
    unfold SP.sources in L. rewrite I0 in L. cbn [SP.repeat_app] in L. rewrite app_nil_r in L. exact L.
  - destruct (err_up (SP.Node lc) S _ x (or_intror eq_refl) (LE _ IG)) as (R & L & I0). split; [exact R|].
    split; [|split; [exact I0|eapply names_of_in; [exact IG|auto]]].
    unfold SP.sources in L. rewrite I0 in L. cbn [SP.repeat_app] in L. rewrite app_nil_r in L. exact L.
Qed.

Lemma use_not_reg x : S x <> [] -> CtxModel.is_register x = false.
Proof.
  intros H. apply not_reg_model. pose proof (src_avail its penv x H) as AV. unfold SP.avail in AV. apply existsb_exists in AV.
  destruct AV as (i & IN & P). destruct i as [y v|y|y|y|y k|c]; try discriminate P.
  - apply sp_eqb_eq in P. subst y. exact (proj1 (err_def _ _ _ _ (HE _ IN))).
  - apply sp_eqb_eq in P. subst y. exact (proj1 (err_import _ _ _ (HE _ IN))).
  - apply negb_true_iff, Nat.eqb_neq in P. exact (proj1 (child_up_facts c x IN P)).
Qed.

Lemma NoDup_snoc {A} (l : list A) x : NoDup l -> ~ In x l -> NoDup (l ++ [x]).
Proof.
  intros ND NI. induction ND as [|a l NA ND IH]; [constructor; [intros []|constructor]|].
  cbn [app]. constructor.
  - intros H. apply in_app_or in H. destruct H as [H|[H|[]]]; [exact (NA H)|subst; apply NI; left; reflexivity].
  - apply IH. intros H. apply NI. right. exact H.
Qed.

(* the statements of the file, one after the other *)
Lemma loop : forall post pre a kc k', its = pre ++ post -> wfl (wf d) post kc k' -> INV pre a kc ->
  exists a', aitems (arun d) post a = Some a' /\ INV its a' k'.
Proof.
  induction post as [|i post IH]; intros pre a kc k' E WF I.
  - cbn [wfl] in WF. subst k'. rewrite app_nil_r in E. subst pre. exists a. split; [reflexivity|exact I].
  - assert (INI : In i its) by (rewrite E; apply in_or_app; right; left; reflexivity).
    pose proof (HE i INI) as ER.
    assert (E' : its = (pre ++ [i]) ++ post) by (rewrite <- app_assoc; exact E).
    assert (CONT : forall a1 kc1, wfl (wf d) post kc1 k' -> INV (pre ++ [i]) a1 kc1 ->
                     exists a', aitems (arun d) post a1 = Some a' /\ INV its a' k')
      by (intros a1 kc1 W1 I1; exact (IH (pre ++ [i]) a1 kc1 k' E' W1 I1)).
    assert (NUS : forall x, nu its x = nu pre x + du i x + nu post x) by (intros x; apply nu_split; exact E).
    destruct i as [x v|x|x|x|x j|c].
    + (* .const / label *)
      destruct (err_def _ _ _ _ ER) as (R & L1). cbn [aitems astep wfl] in *. rewrite (not_reg_model x R).
      pose proof (S_split pre _ post x E) as SL. rewrite src_def in SL. cbn [List.length] in SL. fold S in L1.
      destruct (tbl_get (aT a) x) as [[w|]|] eqn:TX.
      * exfalso. pose proof (i_val _ _ _ I x w TX) as IN. destruct (src pre penv x); [destruct IN|cbn [List.length] in SL; lia].
      * apply (CONT _ kc WF). apply inv_define; try reflexivity; auto.
        -- intros y. unfold SP.avail. cbn [existsb]. apply orb_false_r.
        -- apply src_in_app_r. rewrite src_def. left. reflexivity.
      * apply (CONT _ kc WF). apply inv_define; try reflexivity; auto.
        -- intros y. unfold SP.avail. cbn [existsb]. apply orb_false_r.
        -- apply src_in_app_r. rewrite src_def. left. reflexivity.
    + (* .global *)
      destruct (err_up _ _ _ x (or_introl eq_refl) ER) as (R & L0 & I0). cbn [aitems astep wfl] in *. rewrite (not_reg_model x R).
      assert (DX : du (SP.IGlobal x) x = 1) by (cbn [du]; rewrite sp_eqb_refl; reflexivity).
      assert (N0 : nu pre x = 0) by (pose proof (H7 x); pose proof (NUS x); lia).
      assert (GN : tbl_get (aG a) x = None).
      { rewrite (i_g0 _ _ _ I x N0). apply H4. unfold t. rewrite ups_nu. pose proof (NUS x). lia. }
      rewrite GN.
      assert (NI0 : ni pre x = 0).
      { unfold t in I0. rewrite imports_ni in I0. pose proof (ni_split pre _ post x E). lia. }
      destruct (tbl_get (aT a) x) as [[w|]|] eqn:TX.
      * apply (CONT _ kc WF). apply (inv_handup pre a kc _ x w); auto.
        -- intros y NE. cbn [du]. rewrite sp_eqb_neq by exact NE. reflexivity.
        -- apply src_down; [exact NI0|]. eapply i_val; eauto.
        -- apply tgs_eq.
        -- intros y NE. rewrite !tgs_neq by congruence. reflexivity.
      * exfalso. destruct (i_decl _ _ _ I x TX) as (DG & _). apply declg_in, in_nu_global in DG. lia.
      * apply (CONT _ kc WF). constructor; cbn [aT aG aP aW].
        -- intros y w H. destruct (sdec x y) as [<-|NE]; [rewrite tgs_eq in H; discriminate H|]. rewrite tgs_neq in H by exact NE.
           apply src_in_app. eapply i_val; eauto.
        -- intros y H. rewrite avail_app in H. cbn [SP.avail existsb] in H. rewrite !orb_false_r in H.
           destruct (i_av _ _ _ I y H) as (w & TW). exists w. rewrite tgs_neq; [exact TW|]. intros <-. congruence.
        -- intros y H. destruct (sdec x y) as [<-|NE].
           ++ split; [rewrite declg_app; unfold SP.declared_global at 2; cbn [existsb]; rewrite sp_eqb_refl; apply orb_true_r|
                      apply in_or_app; right; left; reflexivity].
           ++ rewrite tgs_neq in H by exact NE. destruct (i_decl _ _ _ I y H) as (A & B).
              split; [rewrite declg_app, A; reflexivity|apply in_or_app; left; exact B].
        -- intros y H. rewrite nu_snoc in H. destruct (sdec x y) as [<-|NE]; [lia|]. rewrite tgs_neq by exact NE. apply (i_g0 _ _ _ I). lia.
        -- intros y H. destruct (sdec x y) as [<-|NE]; [right; apply in_or_app; right; left; reflexivity|].
           rewrite nu_snoc in H. cbn [du] in H. rewrite (sp_eqb_neq y x) in H by congruence. cbn [b2n] in H.
           rewrite tgs_neq by exact NE.
           destruct (i_g1 _ _ _ I y ltac:(lia)) as [(w & A & B)|B]; [left; exists w; split; [exact A|apply down_mono; exact B]|
                                                                      right; apply in_or_app; left; exact B].
        -- intros y H. apply in_app_or in H. destruct H as [H|[H|[]]].
           ++ destruct (i_pg _ _ _ I y H) as (A & B & C). assert (NE : x <> y) by (intros <-; contradiction).
              rewrite tgs_neq by exact NE. split; [exact A|]. split; [rewrite nu_snoc; lia|exact C].
           ++ inversion H; subst y. split; [apply tgs_eq|]. split; [rewrite nu_snoc; lia|apply not_reg_model; exact R].
        -- rewrite pgs_app. cbn [pgs flat_map app]. apply NoDup_snoc; [apply (i_pgd _ _ _ I)|].
           intros H. apply pgs_in in H. destruct (i_pg _ _ _ I x H) as (_ & B & _). contradiction.
        -- intros k y H. apply in_app_or in H. destruct H as [H|[H|[]]]; [|discriminate H].
           destruct (i_pu _ _ _ I k y H) as (A & B). split; [apply in_or_app; left; exact A|exact B].
        -- apply (i_len _ _ _ I).
        -- apply (i_ge _ _ _ I).
        -- apply (i_keep _ _ _ I).
        -- intros k ov H. rewrite luses_app in H. cbn [luses] in H. rewrite app_nil_r in H.
           destruct (i_use _ _ _ I k ov H) as [A|(y & B)]; [left; exact A|right; exists y; apply in_or_app; left; exact B].
        -- intros k ov H. rewrite luses_app in H. cbn [luses] in H. rewrite app_nil_r in H. apply (i_lt _ _ _ I k ov H).
    + (* .import *)
      destruct (err_import _ _ _ ER) as (R & L0 & L1). cbn [aitems astep wfl] in *. rewrite (not_reg_model x R). fold S in L1.
      assert (IMP : SP.imports t x <> 0).
      { unfold t. rewrite imports_ni. pose proof (in_ni_import its x INI). lia. }
      destruct (H3 x IMP) as (v & GX & PV).
      assert (NU0 : nu its x = 0).
      { destruct (nu its x) as [|n] eqn:NN; [reflexivity|]. exfalso.
        destruct (nu_pos_in its x ltac:(lia)) as [IG|IG].
        - destruct (err_up _ _ _ x (or_introl eq_refl) (HE _ IG)) as (_ & _ & Z0). contradiction.
        - destruct (err_up _ _ _ x (or_intror eq_refl) (HE _ IG)) as (_ & _ & Z0). contradiction. }
      assert (N0 : nu pre x = 0) by (pose proof (NUS x); lia).
      rewrite (i_g0 _ _ _ I x N0), GX.
      pose proof (S_split pre _ post x E) as SL. rewrite src_import in SL.
      destruct (tbl_get (aT a) x) as [[w|]|] eqn:TX.
      * exfalso. pose proof (i_val _ _ _ I x w TX) as IN. destruct (src pre penv x); [destruct IN|cbn [List.length] in SL; lia].
      * exfalso. destruct (i_decl _ _ _ I x TX) as (DG & _). apply declg_in, in_nu_global in DG. lia.
      * apply (CONT _ kc WF). apply inv_define; try reflexivity; auto.
        -- intros y. unfold SP.avail. cbn [existsb]. apply orb_false_r.
        -- apply src_in_app_r. rewrite src_import. exact PV.
    + (* .export *)
      destruct (err_up _ _ _ x (or_intror eq_refl) ER) as (R & L0 & I0). cbn [aitems astep wfl] in *. rewrite (not_reg_model x R).
      assert (DX : du (SP.IExport x) x = 1) by (cbn [du]; rewrite sp_eqb_refl; reflexivity).
      assert (N0 : nu pre x = 0) by (pose proof (H7 x); pose proof (NUS x); lia).
      assert (GN : tbl_get (aG a) x = None).
      { rewrite (i_g0 _ _ _ I x N0). apply H4. unfold t. rewrite ups_nu. pose proof (NUS x). lia. }
      assert (NI0 : ni pre x = 0).
      { unfold t in I0. rewrite imports_ni in I0. pose proof (ni_split pre _ post x E). lia. }
      pose proof (ogo_split pre [] _ post ltac:(cbn [app]; rewrite <- E; exact HO)) as OC. cbn [app ocheck] in OC.
      destruct (i_av _ _ _ I x OC) as (w & TX). rewrite TX, GN.
      apply (CONT _ kc WF). apply (inv_handup pre a kc _ x w); auto.
      * intros y NE. cbn [du]. rewrite sp_eqb_neq by exact NE. reflexivity.
      * apply src_down; [exact NI0|]. eapply i_val; eauto.
      * apply tgs_eq.
      * intros y NE. rewrite tgs_neq by congruence. reflexivity.
    + (* .du32 *)
      destruct (err_use _ _ _ _ ER) as (v0 & SX). fold S in SX. cbn [aitems astep wfl] in *. destruct WF as (-> & WF).
      assert (NR : CtxModel.is_register x = false) by (apply use_not_reg; rewrite SX; discriminate). rewrite NR.
      assert (LU : luses S [SP.IUse x kc] = [(kc, Some v0)]) by (cbn [luses]; rewrite SX; reflexivity).
      assert (U32 : u32z v0 = true).
      { destruct (H5 (kc, Some v0)) as (v & EV & UV).
        - rewrite E. change (pre ++ SP.IUse x kc :: post) with (pre ++ [SP.IUse x kc] ++ post). rewrite !luses_app, LU.
          apply in_or_app. right. left. reflexivity.
        - cbn [snd] in EV. inversion EV; subst. exact UV. }
      (* the invariant for either outcome: the new word w, the tasks P' *)
      assert (FIN : forall w P', (exists ex, P' = aP a ++ ex /\ pgs ex = [] /\ forall k y, In (PU k y) ex -> k = kc /\ y = x) ->
                      (w = WV v0 \/ In (PU kc x) P') ->
                      INV (pre ++ [SP.IUse x kc]) (mkA (aT a) (aG a) P' (aW a ++ [w])) (kc + 1)).
      { intros w P' (ex & -> & PGE & PUE) WW. pose proof (i_len _ _ _ I) as LN. constructor; cbn [aT aG aP aW].
        - intros y u H. apply src_in_app. eapply i_val; eauto.
        - intros y H. rewrite avail_app in H. cbn [SP.avail existsb] in H. rewrite !orb_false_r in H. eapply i_av; eauto.
        - intros y H. destruct (i_decl _ _ _ I y H) as (A & B). split; [rewrite declg_app, A; reflexivity|apply in_or_app; left; exact B].
        - intros y H. rewrite nu_snoc in H. apply (i_g0 _ _ _ I). cbn [du] in H. lia.
        - intros y H. rewrite nu_snoc in H. cbn [du] in H.
          destruct (i_g1 _ _ _ I y ltac:(lia)) as [(u & A & B)|B]; [left; exists u; split; [exact A|apply down_mono; exact B]|
                                                                     right; apply in_or_app; left; exact B].
        - intros y H. apply in_app_or in H. destruct H as [H|H].
          + destruct (i_pg _ _ _ I y H) as (A & B & C). split; [exact A|]. split; [rewrite nu_snoc; lia|exact C].
          + exfalso. apply pgs_in in H. rewrite PGE in H. destruct H.
        - rewrite pgs_app, PGE, app_nil_r. apply (i_pgd _ _ _ I).
        - intros k y H. rewrite app_length. cbn [List.length]. apply in_app_or in H. destruct H as [H|H].
          + destruct (i_pu _ _ _ I k y H) as (A & B). split; [apply in_or_app; left; exact A|lia].
          + destruct (PUE k y H) as (-> & ->). split; [apply in_or_app; right; left; reflexivity|lia].
        - rewrite app_length. cbn [List.length]. lia.
        - rewrite app_length. pose proof (i_ge _ _ _ I). lia.
        - intros j0 H. pose proof (i_ge _ _ _ I). rewrite app_nth1 by lia. apply (i_keep _ _ _ I). exact H.
        - intros k ov H. rewrite luses_app, LU in H. apply in_app_or in H. destruct H as [H|[H|[]]].
          + pose proof (i_lt _ _ _ I k ov H) as LT. rewrite app_nth1 by lia.
            destruct (i_use _ _ _ I k ov H) as [A|(y & B)]; [left; exact A|right; exists y; apply in_or_app; left; exact B].
          + inversion H; subst k ov. destruct WW as [->|WW]; [|right; exists x; exact WW].
            left. rewrite LN, Nat2N.id, app_nth2 by lia. rewrite Nat.sub_diag. reflexivity.
        - intros k ov H. rewrite luses_app, LU in H. apply in_app_or in H. destruct H as [H|[H|[]]].
          + pose proof (i_lt _ _ _ I k ov H). lia.
          + inversion H; subst. lia. }
      destruct (tbl_get (aT a) x) as [[w|]|] eqn:TX.
      * assert (w = v0).
        { pose proof (S_mono pre _ x w E (i_val _ _ _ I x w TX)) as IN. rewrite SX in IN. destruct IN as [IN|[]]. congruence. }
        subst w. rewrite U32. apply (CONT _ (kc + 1)%N WF).
        replace (aP a) with (aP a ++ []) by apply app_nil_r. apply FIN; [|left; reflexivity].
        exists []. split; [reflexivity|]. split; [reflexivity|intros ? ? []].
      * apply (CONT _ (kc + 1)%N WF). apply FIN; [|right; apply in_or_app; right; left; reflexivity].
        exists [PU kc x]. split; [reflexivity|]. split; [reflexivity|]. intros k y [H|[]]. inversion H; auto.
      * apply (CONT _ (kc + 1)%N WF). apply FIN; [|right; apply in_or_app; right; left; reflexivity].
        exists [PU kc x]. split; [reflexivity|]. split; [reflexivity|]. intros k y [H|[]]. inversion H; auto.
    + (* .include *)
      cbn [wfl] in WF. destruct WF as (k1 & WC & WF). cbn [aitems].
      pose proof (ogo_split pre [] _ post ltac:(cbn [app]; rewrite <- E; exact HO)) as OC. cbn [app ocheck] in OC.
      apply andb_prop in OC. destruct OC as (OC1 & OC2). rewrite forallb_forall in OC1.
      pose proof (HC c INI) as EC.
      (* what the included tree needs *)
      assert (UPF : forall x, SP.ups c x <> 0 -> tbl_get (aT a) x = None /\ SP.ups c x = 1 /\ 1 <= List.length (SP.down c x)).
      { intros x U. destruct (child_up_facts c x INI U) as (R & LD & I0 & NM).
        pose proof (err_child _ _ c x ER NM U) as L1. fold S in L1.
        pose proof (S_split pre _ post x E) as SL. rewrite src_child, repeat_app_length in SL.
        assert (U1 : SP.ups c x = 1) by nia. split; [|split; [exact U1|exact LD]].
        destruct (tbl_get (aT a) x) as [[w|]|] eqn:TX; [| |reflexivity]; exfalso.
        - pose proof (i_val _ _ _ I x w TX) as IN. destruct (src pre penv x); [destruct IN|cbn [List.length] in SL; nia].
        - destruct (i_decl _ _ _ I x TX) as (DG & _). specialize (OC1 x NM). apply andb_prop in OC1. destruct OC1 as (_ & O2).
          rewrite DG in O2. cbn [negb] in O2. rewrite orb_false_r in O2. apply Nat.eqb_eq in O2. contradiction. }
      destruct (IHd c S (aT a) (aW a) kc k1 WC (i_len _ _ _ I) EC OC2) as (T' & W' & AR & C1 & C2 & K1 & KP & US).
      * intros x IM. assert (NM : In x (SP.names_of c)).
        { destruct c as [lc]. rewrite imports_ni in IM. unfold ni in IM. destruct (sumf_pos di lc x ltac:(lia)) as (i0 & IN0 & P0).
          destruct i0 as [y v|y|y|y|y k|c0]; cbn [di] in P0; try lia.
          destruct (SP.str_eqb x y) eqn:EQ; [|cbn in P0; lia]. apply sp_eqb_eq in EQ. subst y.
          eapply names_of_in; [exact IN0|auto]. }
        specialize (OC1 x NM). apply andb_prop in OC1. destruct OC1 as (O1 & _). apply orb_true_iff in O1.
        destruct O1 as [O1|O1]; [apply Nat.eqb_eq in O1; contradiction|].
        destruct (i_av _ _ _ I x O1) as (v & TV). exists v. split; [exact TV|]. eapply S_mono; [exact E|]. eapply i_val; eauto.
      * intros x U. apply (UPF x U).
      * intros u IN. apply H5. rewrite E. change (pre ++ SP.IChild c :: post) with (pre ++ [SP.IChild c] ++ post).
        rewrite !luses_app. cbn [luses]. rewrite app_nil_r. apply in_or_app. right. apply in_or_app. left. exact IN.
      * intros x. destruct (Nat.eq_dec (SP.ups c x) 0) as [Z0|NZ]; [lia|]. destruct (UPF x NZ) as (_ & U1 & _). lia.
      * rewrite AR. apply (CONT _ k1 WF). pose proof (i_len _ _ _ I) as LN.
        assert (LW : List.length (aW a) <= List.length W').
        { pose proof (proj1 (wf_idx d c S kc k1 WC)). lia. }
        assert (TV' : forall x, SP.ups c x <> 0 -> exists v, tbl_get T' x = Some (Some v) /\ In v (src (pre ++ [SP.IChild c]) penv x)).
        { intros x U. destruct (C2 x U) as (v & A & B). exists v. split; [exact A|]. apply src_in_app_r. rewrite src_child.
          apply in_repeat_app; assumption. }
        constructor; cbn [aT aG aP aW].
        -- intros x v H. destruct (Nat.eq_dec (SP.ups c x) 0) as [Z0|NZ].
           ++ rewrite (C1 x Z0) in H. apply src_in_app. eapply i_val; eauto.
           ++ destruct (TV' x NZ) as (v' & A & B). rewrite A in H. inversion H; subst. exact B.
        -- intros x H. destruct (Nat.eq_dec (SP.ups c x) 0) as [Z0|NZ].
           ++ rewrite (C1 x Z0). rewrite avail_app in H. cbn [SP.avail existsb] in H. rewrite Z0 in H. cbn in H. rewrite !orb_false_r in H.
              eapply i_av; eauto.
           ++ destruct (TV' x NZ) as (v' & A & _). exists v'. exact A.
        -- intros x H. destruct (Nat.eq_dec (SP.ups c x) 0) as [Z0|NZ].
           ++ rewrite (C1 x Z0) in H. destruct (i_decl _ _ _ I x H) as (A & B). split; [rewrite declg_app, A; reflexivity|exact B].
           ++ destruct (TV' x NZ) as (v' & A & _). congruence.
        -- intros x H. rewrite nu_snoc in H. cbn [du] in H. apply (i_g0 _ _ _ I). lia.
        -- intros x H. rewrite nu_snoc in H. cbn [du] in H.
           destruct (i_g1 _ _ _ I x ltac:(lia)) as [(u & A & B)|B]; [left; exists u; split; [exact A|apply down_mono; exact B]|right; exact B].
        -- intros x H. destruct (i_pg _ _ _ I x H) as (A & B & C). split; [exact A|]. split; [rewrite nu_snoc; lia|exact C].
        -- apply (i_pgd _ _ _ I).
        -- intros k x H. destruct (i_pu _ _ _ I k x H) as (A & B). split; [apply in_or_app; left; exact A|lia].
        -- exact K1.
        -- pose proof (i_ge _ _ _ I). lia.
        -- intros j0 H. pose proof (i_ge _ _ _ I). rewrite KP by lia. apply (i_keep _ _ _ I). exact H.
        -- intros k ov H. rewrite luses_app in H. cbn [luses] in H. rewrite app_nil_r in H. apply in_app_or in H. destruct H as [H|H].
           ++ pose proof (i_lt _ _ _ I k ov H) as LT. rewrite KP by lia. apply (i_use _ _ _ I k ov H).
           ++ left. apply US. exact H.
        -- intros k ov H. rewrite luses_app in H. cbn [luses] in H. rewrite app_nil_r in H. apply in_app_or in H. destruct H as [H|H].
           ++ pose proof (i_lt _ _ _ I k ov H). pose proof (proj1 (wf_idx d c S kc k1 WC)). lia.
           ++ destruct (wf_idx d c S kc k1 WC) as (_ & IDX). assert (IK : In k (nseq kc k1)) by (rewrite <- IDX; apply (in_map fst) in H; exact H).
              apply nseq_in in IK. lia.
Qed.
End Node.

Lemma luses_in_use S l x k : In (SP.IUse x k) l -> In (k, match S x with [v] => Some v | _ => None end) (luses S l).
Proof.
  induction l as [|i r IH]; intros H; [destruct H|]. destruct H as [->|H].
  - cbn [luses]. left. reflexivity.
  - specialize (IH H). destruct i; cbn [luses]; try exact IH; [right; exact IH|apply in_or_app; right; exact IH].
Qed.

Lemma nodup_fst_fun {A B} (l : list (A * B)) k a b : NoDup (map fst l) -> In (k, a) l -> In (k, b) l -> a = b.
Proof.
  induction l as [|[k0 c] r IH]; intros ND H1 H2; [destruct H1|]. cbn [map fst] in ND. inversion ND as [|? ? NI ND']; subst.
  destruct H1 as [H1|H1], H2 as [H2|H2].
  - congruence.
  - inversion H1; subst. exfalso. apply NI. apply (in_map fst) in H2. exact H2.
  - inversion H2; subst. exfalso. apply NI. apply (in_map fst) in H1. exact H1.
  - exact (IH ND' H1 H2).
Qed.

Lemma AOK_step d : AOK d -> AOK (S d).
Proof.
  intros IHd t penv G W k k' WF K ER OR H3 H4 H5 H7. destruct t as [its]. cbn [wf SP.items_of] in WF.
  destruct (errors_inv its penv ER) as (HE & HC). rewrite ordered_node in OR. rewrite uses_node in H5.
  set (S := SP.sources (SP.Node its) penv) in *.
  assert (H7' : forall x, nu its x <= 1) by (intros x; rewrite <- ups_nu; apply H7).
  assert (I0 : INV its penv G W [] (mkA [] G [] W) k).
  { constructor; cbn [aT aG aP aW].
    - intros x v H. discriminate H.
    - intros x H. discriminate H.
    - intros x H. discriminate H.
    - intros x _. reflexivity.
    - intros x H. exfalso. apply H. reflexivity.
    - intros x [].
    - constructor.
    - intros j x [].
    - exact K.
    - apply Nat.le_refl.
    - intros j _. reflexivity.
    - intros j ov [].
    - intros j ov []. }
  destruct (loop d IHd its penv G W HE HC OR H3 H4 H5 H7' its [] _ k k' eq_refl WF I0) as (a1 & AI & I1).
  destruct (wfl_idx d (wf_idx d) S its k k' WF) as (KK & IDX).
  (* the deferred tasks *)
  assert (TVAL : forall x, S x <> [] -> exists w, tbl_get (aT a1) x = Some (Some w) /\ In w (S x)).
  { intros x NE. pose proof (src_avail its penv x NE) as AV. destruct (i_av _ _ _ _ _ _ _ I1 x AV) as (w & TW).
    exists w. split; [exact TW|]. exact (i_val _ _ _ _ _ _ _ I1 x w TW). }
  assert (UPS : forall x, nu its x <> 0 -> S x <> [] /\ SP.imports (SP.Node its) x = 0).
  { intros x NZ. destruct (nu_pos_in its x ltac:(lia)) as [IG|IG].
    - destruct (err_up _ _ _ x (or_introl eq_refl) (HE _ IG)) as (_ & L & Z0). split; [|exact Z0]. fold S in L. destruct (S x); [cbn in L; lia|discriminate].
    - destruct (err_up _ _ _ x (or_intror eq_refl) (HE _ IG)) as (_ & L & Z0). split; [|exact Z0]. fold S in L. destruct (S x); [cbn in L; lia|discriminate]. }
  destruct (atasks_ok (aP a1) (aT a1) (aG a1) [] (aW a1) (i_pgd _ _ _ _ _ _ _ I1)) as (G' & W' & AT & LW & G1 & G2 & W1 & W2).
  - intros x IN. destruct (i_pg _ _ _ _ _ _ _ I1 x IN) as (A & B & C). split; [exact C|]. split; [|exact A].
    destruct (TVAL x (proj1 (UPS x B))) as (w & TW & _). exists w. exact TW.
  - intros j x IN. destruct (i_pu _ _ _ _ _ _ _ I1 j x IN) as (A & B). destruct (err_use _ _ _ _ (HE _ A)) as (v0 & SX). fold S in SX.
    assert (NE : S x <> []) by (rewrite SX; discriminate).
    split; [apply (use_not_reg its penv G HE HC OR H3 H4 H7'); exact NE|]. split; [|exact B].
    destruct (TVAL x NE) as (w & TW & IW). rewrite SX in IW. destruct IW as [<-|[]]. exists v0. split; [exact TW|].
    pose proof (luses_in_use S its x j A) as LU. rewrite SX in LU. destruct (H5 _ LU) as (v & EV & UV). cbn [snd] in EV. inversion EV; subst. exact UV.
  - exists G', W'. split; [cbn [arun SP.items_of]; rewrite AI; unfold afinish; rewrite AT; reflexivity|].
    split; [|split; [|split; [|split]]].
    + intros x U. rewrite ups_nu in U. rewrite G1; [apply (i_g0 _ _ _ _ _ _ _ I1); exact U|].
      intros IN. destruct (i_pg _ _ _ _ _ _ _ I1 x IN) as (_ & B & _). contradiction.
    + intros x U. rewrite ups_nu in U. destruct (UPS x U) as (NE & Z0).
      destruct (in_dec (fun p q : ptask => ltac:(decide equality; [apply sdec|apply sdec|apply N.eq_dec])) (PG x) (aP a1)) as [IN|NIN].
      * rewrite (G2 x IN). destruct (TVAL x NE) as (w & TW & IW). exists w. split; [exact TW|].
        apply (src_down penv its); [rewrite <- imports_ni; exact Z0|]. exact (i_val _ _ _ _ _ _ _ I1 x w TW).
      * rewrite (G1 x NIN). destruct (i_g1 _ _ _ _ _ _ _ I1 x U) as [(v & A & B)|B]; [exists v; auto|contradiction].
    + rewrite LW. exact (i_len _ _ _ _ _ _ _ I1).
    + intros j LT. rewrite <- (Nat2N.id j). rewrite W1; [rewrite Nat2N.id; apply (i_keep _ _ _ _ _ _ _ I1); exact LT|].
      intros x IN. destruct (i_pu _ _ _ _ _ _ _ I1 _ x IN) as (A & _).
      pose proof (luses_in_use S its x _ A) as LU. apply (in_map fst) in LU. cbn [fst] in LU. rewrite IDX in LU. apply nseq_in in LU. lia.
    + intros k1 ov IN. rewrite uses_node in IN. fold S in IN.
      destruct (pu_dec (aP a1) k1) as [(x' & PX)|NO].
      * destruct (W2 k1 x' PX) as (x'' & v'' & P'' & T'' & N''). rewrite N''.
        destruct (i_pu _ _ _ _ _ _ _ I1 k1 x'' P'') as (A & _). destruct (err_use _ _ _ _ (HE _ A)) as (v0 & SX). fold S in SX.
        pose proof (luses_in_use S its x'' k1 A) as LU. rewrite SX in LU.
        assert (ov = Some v0). { eapply nodup_fst_fun; [|exact IN|exact LU]. rewrite IDX. apply nseq_nodup. }
        subst ov. pose proof (i_val _ _ _ _ _ _ _ I1 x'' v'' T'') as IW. fold (S x'') in IW. unfold src in IW. fold S in IW. rewrite SX in IW.
        destruct IW as [<-|[]]. reflexivity.
      * rewrite (W1 k1 NO). destruct (i_use _ _ _ _ _ _ _ I1 k1 ov IN) as [A|(x & B)]; [exact A|exfalso; exact (NO x B)].
Qed.

Theorem AOK_all : forall d, AOK d.
Proof. induction d as [|d IH]; [intros t penv G W k k' WF; destruct WF|apply AOK_step; exact IH]. Qed.
