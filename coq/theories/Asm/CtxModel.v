(* Model of the assembler core: Context (src/asm/mod.rs), the directives (src/asm/directive/*.rs) and the
   deferred-statement machinery of src/arm6m/mod.rs (Arm6M::assemble, ArmInstr::{assemble, write_instr, schedule}),
   at /repo HEAD 976f0cc (with the repairs F8 51047a1, F12 d7ad029, F13 14f510b, a613c66, F14 fe020dd, F21 1569db8, 976f0cc).

   * state: the fields of Context; HashMaps are association lists with unique keys, observed only through
     get / insert (the Rust code never iterates `globals`, `locals` or the DirectiveList);
   * closures in the task lists are defunctionalised: InstrTask (ArmInstr::schedule), DataTask (DataExpr::schedule),
     GlobalTask (the end-of-file copy of `.global`), interpreted by run_task;
   * every unwrap / unreachable! / assert! / panic! / index is a `Panic site` outcome (sites in CtxSeg.v);
   * the file system is a function argument  fs : path -> option bytes  (None = the file cannot be opened);
     a path is a '/'-separated byte string; PathBuf::{pop, push} are modelled for plain relative names
     (no `.`/`..`/repeated-separator normalisation, no symlinks: the include-cycle test compares paths as given);
   * `.include` recursion runs on explicit fuel (OutOfFuel outcome);
   * `errors` is kept newest-first; `pipeline` reports it in push order;
   * `dbg` = overflow-checks / debug-assertions on (profile relchk) or off (release), threaded to MapModel.
   Model file: no proofs. *)
From Coq Require Import ZArith NArith List Bool Ascii String.
From Trion Require Import Text.Types Arm.Instr.
From Trion Require Arm.DisplayModel Text.TokenModel Text.ParseModel Expr.I64 Expr.EvalModel Arm.AsmStmtModel Arm.EncodeModel Mem.MapModel.
From Trion Require Export Asm.CtxSeg Asm.CtxEval.
Import ListNotations.
Open Scope N_scope.

(* ------------------------------------------------------------------ diagnostics *)
(* Box<dyn Error> chains reduced to their constructors (never message text) *)
Inductive apply_err :=
| AConstNotFound          (* ConstantError::NotFound: a deferred name where a value is needed now / at the retry *)
| AConstReserved          (* ConstantError::Reserved (fix 51047a1) *)
| AEval                   (* EvalError::{NoSuchVariable, BadType, Overflow} *)
| AAddrRange              (* AddrError::Range *)
| ASegOccupied            (* SegmentError::Occupied *)
| ASegWrite               (* SegmentError::Write(PutError) *)
| ASegOverflow            (* SegmentError::Overflow *)
| AAlignInactive | AAlignRange
| ADataInactive | ADataRange | ADataHexChar | ADataHexEof | ADataFile
| AConstDup               (* ConstError::Duplicate *)
| AGNotFound | AGDeferred | AGDuplicate        (* GlobalError *)
| AIncNoFile | AIncRecursive | AIncFailed.     (* IncludeError *)

Inductive dclass :=
| KParse                                  (* AsmErrorKind::Parse *)
| KInactive                               (* AsmErrorKind::Inactive *)
| KConstReserved | KConstDuplicate        (* ConstantError pushed for a label *)
| KDirNotFound | KDirTooMany | KDirNotEnough | KDirArgType
| KApply (a : apply_err)                  (* DirectiveErrorKind::Apply{source} *)
| KInstr (d : AsmStmtModel.asm_diag)      (* InstrErrorKind, AsmError::{ValueRange, NoSuchRegister, Encode}, EvalError, ConstantError::{Range, Alignment} *)
| KInstrSegOverflow | KInstrSegWrite      (* AsmError::Write(SegmentError) *)
| KInstrConstNotFound.                    (* ConstantError::NotFound{Global} at the retry in the includer *)

Record diag := mkDiag { d_file : str; d_line : N; d_col : N; d_class : dclass }.

(* ------------------------------------------------------------------ state *)
Inductive level := Trivial | Fatal.                       (* ErrorLevel *)
Definition result := option level.                        (* Result<(), ErrorLevel>: None = Ok(()) *)
Inductive realm := RGlobal | RLocal.
Definition table := list (str * option Z).                (* HashMap<String, Option<i64>> *)
Inductive segment := Inactive | Active (s : aseg).        (* Segment::Empty only exists inside make_active/make_inactive *)

Inductive dkind := DU8 | DU16 | DU32.

(* ArmInstr *)
Record ainstr := mkAI { ai_file : str; ai_line : N; ai_col : N; ai_addr : N; ai_instr : instr; ai_ast : AsmStmtModel.ast }.
(* DataExpr (dir_name and writer are determined by the kind) *)
Record dexpr := mkDE { de_kind : dkind; de_file : str; de_line : N; de_col : N; de_addr : N; de_arg : arg }.

Inductive task :=
| InstrTask (i : ainstr) (global : bool)
| DataTask (d : dexpr) (global : bool)
| GlobalTask (name : str) (line col : N)        (* .global: copy the local value to the includer at the end of the file *)
| ImportCheckTask (name : str) (line col : N).  (* .import of a deferred name (fix 976f0cc): it must not get a value here *)

Record state := mkState {
  output : MapModel.mmap;
  active : segment;
  globals : table;
  locals : option table;
  global_tasks : list task;
  local_tasks : option (list task);
  errors : list diag;                 (* newest first *)
  path_stack : list str;              (* top first *)
  curr_name : str }.

Definition unknown_name : str := DisplayModel.bytes_of_string "<unknown>".
Definition init_state : state := mkState MapModel.map_new Inactive [] None [] None [] [] unknown_name.

Definition set_output st v := mkState v (active st) (globals st) (locals st) (global_tasks st) (local_tasks st) (errors st) (path_stack st) (curr_name st).
Definition set_active st v := mkState (output st) v (globals st) (locals st) (global_tasks st) (local_tasks st) (errors st) (path_stack st) (curr_name st).
Definition set_globals st v := mkState (output st) (active st) v (locals st) (global_tasks st) (local_tasks st) (errors st) (path_stack st) (curr_name st).
Definition set_locals st v := mkState (output st) (active st) (globals st) v (global_tasks st) (local_tasks st) (errors st) (path_stack st) (curr_name st).
Definition set_global_tasks st v := mkState (output st) (active st) (globals st) (locals st) v (local_tasks st) (errors st) (path_stack st) (curr_name st).
Definition set_local_tasks st v := mkState (output st) (active st) (globals st) (locals st) (global_tasks st) v (errors st) (path_stack st) (curr_name st).
Definition set_errors st v := mkState (output st) (active st) (globals st) (locals st) (global_tasks st) (local_tasks st) v (path_stack st) (curr_name st).
Definition set_path_stack st v := mkState (output st) (active st) (globals st) (locals st) (global_tasks st) (local_tasks st) (errors st) v (curr_name st).
Definition set_curr_name st v := mkState (output st) (active st) (globals st) (locals st) (global_tasks st) (local_tasks st) (errors st) (path_stack st) v.

(* push_error (named after the current file) / push_error_in (named by the statement) *)
Definition push_error_in (st : state) (file : str) (line col : N) (c : dclass) : state :=
  set_errors st (mkDiag file line col c :: errors st).
Definition push_error (st : state) (line col : N) (c : dclass) : state := push_error_in st (curr_name st) line col c.

(* ------------------------------------------------------------------ outcomes of Context operations *)
Inductive res (A : Type) := Ret (a : A) (st : state) | Panic (p : site) | OutOfFuel.
Arguments Ret {A} a st. Arguments Panic {A} p. Arguments OutOfFuel {A}.
Definition bind {A B} (r : res A) (k : A -> state -> res B) : res B :=
  match r with Ret a st => k a st | Panic p => Panic p | OutOfFuel => OutOfFuel end.
Notation "'do' x , st <- r ; k" := (bind r (fun x st => k)) (at level 200, x name, st name, r at level 100, k at level 200).

Definition str_eqb := AsmStmtModel.str_eqb.
Definition is := AsmStmtModel.is.
Definition is_register := AsmStmtModel.is_register.

(* ------------------------------------------------------------------ segments: change_segment / close_segment *)
Inductive seg_error := SegWrite | SegOccupied (a : N) | SegOverflow (need have : N).

(* close_segment: Ok(true) closed, Ok(false) nothing to close, Err(Write) (state unchanged) *)
Definition close_segment (dbg : bool) (st : state) : res (bool + seg_error) :=
  match active st with
  | Inactive => Ret (inl false) st
  | Active s =>
      match MapModel.map_put dbg (output st) (s_base s) (s_buf s) with
      | MapModel.Ok (m', Some n) =>
          if n =? blen s then Ret (inl true) (set_active (set_output st m') Inactive)
          else Panic P_close_assert
      | MapModel.Ok (_, None) => Ret (inr SegWrite) st
      | MapModel.Panic p => Panic (P_map p)
      | MapModel.OutOfFuel => OutOfFuel
      end
  end.

(* the part of change_segment after the active segment was closed *)
Definition select_segment (dbg : bool) (st : state) (addr : N) : res (bool + seg_error) :=
  match MapModel.map_find dbg (output st) addr MapModel.Above with
  | MapModel.Ok r =>
      let next := option_map fst r in
      if match next with Some n => n <=? addr | None => false end then Ret (inr (SegOccupied addr)) st
      else
        match active st with
        | Active _ => Panic P_not_inactive
        | Inactive =>
            match make_active dbg addr next with
            | SOk s => Ret (inl true) (set_active st (Active s))
            | SOverflow _ _ => Panic P_not_inactive          (* not produced by make_active *)
            | SPanic p => Panic p
            end
        end
  | MapModel.Panic p => Panic (P_map p)
  | MapModel.OutOfFuel => OutOfFuel
  end.

(* fix 14f510b: re-selecting the base is a no-op only while the segment is empty *)
Definition change_segment (dbg : bool) (st : state) (addr : N) : res (bool + seg_error) :=
  match active st with
  | Active s =>
      if (addr =? s_base s) && (match s_buf s with [] => true | _ => false end) then Ret (inl false) st
      else
        do r, st1 <- close_segment dbg st;
        match r with
        | inr e => Ret (inr e) st1
        | inl _ => select_segment dbg st1 addr
        end
  | Inactive => select_segment dbg st addr
  end.

(* ------------------------------------------------------------------ constant tables *)
Fixpoint tbl_get (t : table) (name : str) : option (option Z) :=
  match t with
  | [] => None
  | (k, v) :: r => if str_eqb k name then Some v else tbl_get r name
  end.
Fixpoint tbl_set (t : table) (name : str) (v : option Z) : table :=
  match t with
  | [] => [(name, v)]
  | (k, w) :: r => if str_eqb k name then (k, v) :: r else (k, w) :: tbl_set r name v
  end.

Definition lookup_of (t : table) (name : str) : EvalModel.lookup_res :=
  match tbl_get t name with
  | None => EvalModel.NotFound
  | Some None => EvalModel.LDeferred
  | Some (Some v) => EvalModel.Found v
  end.

Definition realm_table (st : state) (r : realm) : option table :=
  match r with RGlobal => Some (globals st) | RLocal => locals st end.
Definition set_realm_table (st : state) (r : realm) (t : table) : state :=
  match r with RGlobal => set_globals st t | RLocal => set_locals st (Some t) end.

(* get_constant: None = panic!("no local scope") *)
Definition get_constant (st : state) (name : str) (r : realm) : option EvalModel.lookup_res :=
  match realm_table st r with Some t => Some (lookup_of t name) | None => None end.

Inductive const_error := CReserved | CDuplicate.

(* insert_constant: Ok(true) new entry, Ok(false) a declared name got its value *)
Definition insert_constant (st : state) (name : str) (value : Z) (r : realm) : res (bool + const_error) :=
  if is_register name then Ret (inr CReserved) st
  else
    match realm_table st r with
    | None => Panic P_no_local_scope
    | Some t =>
        match tbl_get t name with
        | None => Ret (inl true) (set_realm_table st r (tbl_set t name (Some value)))
        | Some None => Ret (inl false) (set_realm_table st r (tbl_set t name (Some value)))
        | Some (Some _) => Ret (inr CDuplicate) st
        end
    end.

Definition defer_constant (st : state) (name : str) (r : realm) : res (unit + const_error) :=
  if is_register name then Ret (inr CReserved) st
  else
    match realm_table st r with
    | None => Panic P_no_local_scope
    | Some t =>
        match tbl_get t name with
        | Some _ => Ret (inr CDuplicate) st
        | None => Ret (inl tt) (set_realm_table st r (tbl_set t name None))
        end
    end.

(* add_task *)
Definition add_task (st : state) (t : task) (r : realm) : res unit :=
  match r with
  | RGlobal => Ret tt (set_global_tasks st (global_tasks st ++ [t]))
  | RLocal =>
      match local_tasks st with
      | None => Panic P_no_local_scope
      | Some l => Ret tt (set_local_tasks st (Some (l ++ [t])))
      end
  end.

(* ------------------------------------------------------------------ evaluate in the context *)
(* realm = Local while a file is open (has_curr_file), Global otherwise *)
Definition eval_realm (st : state) : realm := match path_stack st with [] => RGlobal | _ => RLocal end.
Definition ctx_lookup (st : state) (name : str) : option EvalModel.lookup_res := get_constant st name (eval_realm st).
Definition ctx_eval (st : state) (a : arg) : ev_res := evaluate_mut (ctx_lookup st) is_register a.

(* the evaluator handed to ArmInstr::assemble (AsmStmtModel.assemble_args); a panic cannot be expressed in its
   status type: ctx_eval_panics is tested on every argument first (over-approximation of an outcome that
   C08_no_panic and the scope invariant exclude) *)
Definition instr_ev (st : state) : AsmStmtModel.evaluator := fun a =>
  match ctx_eval st a with
  | EvOk a' (EvalModel.Complete _) => (a', AsmStmtModel.SComplete)
  | EvOk a' (EvalModel.Deferred _ c) => (a', AsmStmtModel.SDeferred c)
  | EvErr a' (EENoVar name) => (a', AsmStmtModel.SNoSuchVar name)
  | EvErr a' (EEOther _) => (a', AsmStmtModel.SEvalError)
  | EvPanic _ => (a, AsmStmtModel.SEvalError)
  end.
Definition ctx_eval_panics (st : state) (a : arg) : option site :=
  match ctx_eval st a with EvPanic p => Some p | _ => None end.
Fixpoint first_panic (st : state) (l : list arg) : option site :=
  match l with
  | [] => None
  | a :: r => match ctx_eval_panics st a with Some p => Some p | None => first_panic st r end
  end.

(* ------------------------------------------------------------------ writing a statement's bytes *)
(* write_instr / write_data: into the active segment when it covers the address (fix fe020dd), otherwise over the
   pre-allocated bytes in the map.  k_over / k_put: the diagnostic classes, p_assert: the assert_eq!(n, 0) site *)
Definition put_stmt (dbg : bool) (st : state) (file : str) (line col : N) (addr : N) (data : list N)
    (k_put : dclass) (p_assert : site) : res result :=
  match MapModel.map_put dbg (output st) addr data with
  | MapModel.Ok (m', Some n) => if n =? 0 then Ret None (set_output st m') else Panic p_assert
  | MapModel.Ok (_, None) => Ret (Some Fatal) (push_error_in st file line col k_put)
  | MapModel.Panic p => Panic (P_map p)
  | MapModel.OutOfFuel => OutOfFuel
  end.

Definition write_stmt (dbg : bool) (st : state) (file : str) (line col : N) (addr : N) (data : list N)
    (k_over k_put : dclass) (p_assert : site) : res result :=
  match active st with
  | Inactive => put_stmt dbg st file line col addr data k_put p_assert
  | Active s =>
      match covers dbg s addr with
      | SPanic p => Panic p
      | SOverflow _ _ => Panic P_remaining                    (* not produced by covers *)
      | SOk false => put_stmt dbg st file line col addr data k_put p_assert
      | SOk true =>
          match seg_write_at dbg s addr data with
          | SOk s' => Ret None (set_active st (Active s'))
          | SOverflow _ _ => Ret (Some Fatal) (push_error_in st file line col k_over)
          | SPanic p => Panic p
          end
      end
  end.

Fixpoint repeatN (b : N) (n : nat) : list N := match n with O => [] | S k => b :: repeatN b k end.
Definition padding (n : N) : list N := repeatN 0xBE (N.to_nat n).

(* ------------------------------------------------------------------ instructions (arm6m/mod.rs) *)
(* The Rust code converts operands straight into the fields of self.instr (`convert!(({*dst}: Register) ..)`), so when
   assemble stops early (deferral or error) the template keeps the register fields converted so far; write_instr
   then encodes THAT instruction for the placeholder.  Only leading Register / SystemReg operands are assigned
   before something that can fail. *)
Definition reg_at (st : AsmStmtModel.ast) (pos : nat) : option reg :=
  match AsmStmtModel.c_register pos st with AsmStmtModel.COk r _ => Some r | _ => None end.
Definition sys_at (st : AsmStmtModel.ast) (pos : nat) : option sysreg :=
  match AsmStmtModel.c_sysreg pos st with AsmStmtModel.COk r _ => Some r | _ => None end.

Definition partial_instr (t : instr) (st : AsmStmtModel.ast) : instr :=
  let n := List.length (AsmStmtModel.a_args st) in
  let one (mk : reg -> instr) := if Nat.eqb n 2 then match reg_at st 0 with Some a => mk a | None => t end else t in
  let two (ar : nat) (mk : reg -> reg -> instr) (b0 : reg) :=
    if Nat.eqb n ar then
      match reg_at st 0 with
      | Some a => match reg_at st 1 with Some b => mk a b | None => mk a b0 end
      | None => t
      end
    else t in
  match t with
  | Adc _ b => two 2%nat Adc b | And _ b => two 2%nat And b | Bic _ b => two 2%nat Bic b | Cmn _ b => two 2%nat Cmn b
  | Eor _ b => two 2%nat Eor b | Mul _ b => two 2%nat Mul b | Mvn _ b => two 2%nat Mvn b | Orr _ b => two 2%nat Orr b
  | Rev _ b => two 2%nat Rev b | Rev16 _ b => two 2%nat Rev16 b | Revsh _ b => two 2%nat Revsh b | Ror _ b => two 2%nat Ror b
  | Sbc _ b => two 2%nat Sbc b | Sxtb _ b => two 2%nat Sxtb b | Sxth _ b => two 2%nat Sxth b | Tst _ b => two 2%nat Tst b
  | Uxtb _ b => two 2%nat Uxtb b | Uxth _ b => two 2%nat Uxth b
  | Add f _ b c => two 3%nat (fun x y => Add f x y c) b
  | Sub f _ b c => two 3%nat (fun x y => Sub f x y c) b
  | Asr _ b c => two 3%nat (fun x y => Asr x y c) b
  | Lsl _ b c => two 3%nat (fun x y => Lsl x y c) b
  | Lsr _ b c => two 3%nat (fun x y => Lsr x y c) b
  | Rsb _ b => two 3%nat Rsb b
  | Adr _ o => one (fun x => Adr x o)
  | Cmp _ c => one (fun x => Cmp x c)
  | Mov f _ c => one (fun x => Mov f x c)
  | Ldm _ l => one (fun x => Ldm x l)
  | Stm _ l => one (fun x => Stm x l)
  | Ldr _ a o => one (fun x => Ldr x a o) | Ldrb _ a o => one (fun x => Ldrb x a o) | Ldrh _ a o => one (fun x => Ldrh x a o)
  | Ldrsb _ a o => one (fun x => Ldrsb x a o) | Ldrsh _ a o => one (fun x => Ldrsh x a o)
  | Str _ a o => one (fun x => Str x a o) | Strb _ a o => one (fun x => Strb x a o) | Strh _ a o => one (fun x => Strh x a o)
  | Mrs _ s => one (fun x => Mrs x s)
  | Msr _ r => if Nat.eqb n 2 then match sys_at st 0 with Some s => Msr s r | None => t end else t
  | _ => t
  end.

Inductive iop := ICompleted | IDeferred (cause : str) | IErr (l : level).

(* ArmInstr::assemble *)
Definition instr_assemble (st : state) (ai : ainstr) (local : bool) : res (iop * ainstr) :=
  match first_panic st (AsmStmtModel.a_args (ai_ast ai)) with
  | Some p => Panic p
  | None =>
      let upd (i : instr) (a : AsmStmtModel.ast) := mkAI (ai_file ai) (ai_line ai) (ai_col ai) (ai_addr ai) i a in
      match AsmStmtModel.assemble_args (instr_ev st) local (ai_addr ai) (ai_instr ai) (ai_ast ai) with
      | AsmStmtModel.COk i a => Ret (ICompleted, upd i a) st
      | AsmStmtModel.CDefer cause a => Ret (IDeferred cause, upd (partial_instr (ai_instr ai) a) a) st
      | AsmStmtModel.CDiag d a =>
          Ret (IErr Trivial, upd (partial_instr (ai_instr ai) a) a) (push_error_in st (ai_file ai) (ai_line ai) (ai_col ai) (KInstr d))
      | AsmStmtModel.CPanic => Panic P_instr_index
      end
  end.

(* ArmInstr::write_instr *)
Definition write_instr (dbg : bool) (st : state) (ai : ainstr) (deferred : bool) : res result :=
  match EncodeModel.enc_bytes (ai_instr ai) 4 with
  | EncodeModel.EbOk n bytes =>
      let data := if deferred then padding n else bytes in
      write_stmt dbg st (ai_file ai) (ai_line ai) (ai_col ai) (ai_addr ai) data KInstrSegOverflow KInstrSegWrite P_put_assert_instr
  | _ => Ret (Some Fatal) (push_error_in st (ai_file ai) (ai_line ai) (ai_col ai) (KInstr AsmStmtModel.DEncode))
  end.

(* Arm6M::assemble (InstructionSet): fix a613c66 — a statement needs room before it gets an address *)
Definition assemble_instr (dbg : bool) (st : state) (line col : N) (name : str) (args : list arg) : res result :=
  match active st with
  | Inactive => Panic P_active_unwrap
  | Active s =>
      match has_remaining dbg s 2 with
      | SPanic p => Panic p
      | SOverflow _ _ => Panic P_remaining
      | SOk false => Ret (Some Fatal) (push_error st line col KInstrSegOverflow)
      | SOk true =>
          let addr := curr_addr s in
          match AsmStmtModel.template name with
          | None => Ret (Some Fatal) (push_error st line col (KInstr AsmStmtModel.DNotFound))
          | Some t =>
              let ai := mkAI (curr_name st) line col addr t (AsmStmtModel.mkAst args 0) in
              do r, st1 <- instr_assemble st ai true;
              match r with
              | (ICompleted, ai') => write_instr dbg st1 ai' false
              | (_, ai') =>
                  do w, st2 <- write_instr dbg st1 ai' true;       (* padding for whatever follows *)
                  match w with
                  | Some l => Ret (Some l) st2
                  | None => do _, st3 <- add_task st2 (InstrTask ai' false) RLocal; Ret None st3
                  end
              end
          end
      end
  end.

(* ------------------------------------------------------------------ .du8 / .du16 / .du32 (data.rs) *)
Definition dk_size (k : dkind) : N := match k with DU8 => 1 | DU16 => 2 | DU32 => 4 end.
Definition dk_max (k : dkind) : Z := match k with DU8 => 255 | DU16 => 65535 | DU32 => 4294967295 end.
Definition le_n (size : N) (v : N) : list N :=
  match size with
  | 1 => [N.land v 0xFF]
  | 2 => [N.land v 0xFF; N.land (N.shiftr v 8) 0xFF]
  | _ => [N.land v 0xFF; N.land (N.shiftr v 8) 0xFF; N.land (N.shiftr v 16) 0xFF; N.land (N.shiftr v 24) 0xFF]
  end.

Definition write_data (dbg : bool) (st : state) (d : dexpr) (data : list N) : res result :=
  write_stmt dbg st (de_file d) (de_line d) (de_col d) (de_addr d) data (KApply ASegOverflow) (KApply ASegWrite) P_put_assert_data.

Inductive dop := DCompleted | DDeferred (cause : str) | DErr (l : level).

Definition de_set_arg (d : dexpr) (a : arg) : dexpr := mkDE (de_kind d) (de_file d) (de_line d) (de_col d) (de_addr d) a.

(* DataExpr::apply (the writer closure of generate_expr! inlined) *)
Definition data_apply (dbg : bool) (st : state) (d : dexpr) (local : bool) : res (dop * dexpr) :=
  let perr (st : state) (c : dclass) := push_error_in st (de_file d) (de_line d) (de_col d) c in
  match ctx_eval st (de_arg d) with
  | EvPanic p => Panic p
  | EvOk a' (EvalModel.Complete _) =>
      let d' := de_set_arg d a' in
      match a' with
      | AConst v =>
          if (0 <=? v)%Z && (v <=? dk_max (de_kind d))%Z then
            do r, st1 <- write_data dbg st d' (le_n (dk_size (de_kind d)) (Z.to_N v));
            Ret (match r with None => DCompleted | Some l => DErr l end, d') st1
          else Ret (DErr Trivial, d') (perr st (KApply ADataRange))
      | _ => Ret (DErr Trivial, d') (perr st KDirArgType)
      end
  | EvOk a' (EvalModel.Deferred _ cause) => Ret (DDeferred cause, de_set_arg d a') st
  | EvErr a' e =>
      let d' := de_set_arg d a' in
      match e, local with
      | EENoVar name, true => Ret (DDeferred name, d') st
      | _, _ => Ret (DErr Trivial, d') (perr st (KApply AEval))
      end
  end.

(* ------------------------------------------------------------------ tasks *)
Definition run_task (dbg : bool) (st : state) (t : task) : res result :=
  match t with
  | InstrTask ai global =>
      do r, st1 <- instr_assemble st ai false;
      match r with
      | (ICompleted, ai') => write_instr dbg st1 ai' false
      | (IDeferred _, ai') =>
          if global then Ret (Some Trivial) (push_error_in st1 (ai_file ai') (ai_line ai') (ai_col ai') KInstrConstNotFound)
          else do _, st2 <- add_task st1 (InstrTask ai' true) RGlobal; Ret None st2
      | (IErr l, _) => Ret (Some l) st1
      end
  | DataTask d global =>
      do r, st1 <- data_apply dbg st d false;
      match r with
      | (DCompleted, _) => Ret None st1
      | (DDeferred _, d') =>
          if global then Ret (Some Trivial) (push_error_in st1 (de_file d') (de_line d') (de_col d') (KApply AConstNotFound))
          else do _, st2 <- add_task st1 (DataTask d' true) RGlobal; Ret None st2
      | (DErr l, _) => Ret (Some l) st1
      end
  | GlobalTask name line col =>
      match get_constant st name RLocal with
      | None => Panic P_no_local_scope
      | Some EvalModel.NotFound => Ret (Some Trivial) (push_error st line col (KApply AGNotFound))
      | Some EvalModel.LDeferred => Ret (Some Trivial) (push_error st line col (KApply AGDeferred))
      | Some (EvalModel.Found v) =>
          do r, st1 <- insert_constant st name v RGlobal;
          match r with
          | inl _ => Ret None st1
          | inr CDuplicate => Ret (Some Trivial) (push_error st1 line col (KApply AGDuplicate))
          | inr CReserved => Panic P_global_unreachable
          end
      end
  | ImportCheckTask name line col =>
      match get_constant st name RLocal with
      | None => Panic P_no_local_scope
      | Some (EvalModel.Found _) => Ret (Some Trivial) (push_error st line col (KApply AGDuplicate))
      | Some _ => Ret None st
      end
  end.

Definition is_fatal (l : level) : bool := match l with Fatal => true | Trivial => false end.
Definition lvl_max (a b : level) : level := match a, b with Trivial, Trivial => Trivial | _, _ => Fatal end.
Definition res_is_fatal (r : result) : bool := match r with Some Fatal => true | _ => false end.

(* `for task in tasks.drain(..)` of Context::assemble: the first aborting task ends the round, the rest is dropped *)
Fixpoint local_round (dbg : bool) (tasks : list task) (st : state) (r : result) : res result :=
  match tasks with
  | [] => Ret r st
  | t :: rest =>
      do x, st1 <- run_task dbg st t;
      match x with
      | None => local_round dbg rest st1 r
      | Some lvl =>
          let r' := Some (match r with None => lvl | Some old => lvl_max old lvl end) in
          if is_fatal lvl then Ret r' st1 else local_round dbg rest st1 r'
      end
  end.

(* `while !tasks.is_empty()`: rounds on explicit fuel (every re-scheduled task goes to the includer: one round suffices) *)
Fixpoint local_loop (dbg : bool) (rounds : nat) (tasks : list task) (st : state) (r : result) : res result :=
  match tasks with
  | [] => Ret r st
  | _ =>
      match rounds with
      | O => OutOfFuel
      | S k =>
          do r', st1 <- local_round dbg tasks st r;
          (* mem::swap(local_tasks.as_mut().unwrap(), &mut tasks) *)
          match local_tasks st1 with
          | None => Panic P_local_tasks_unwrap
          | Some newt =>
              let st2 := set_local_tasks st1 (Some []) in
              if res_is_fatal r' then Ret r' st2 else local_loop dbg k newt st2 r'
          end
      end
  end.

(* ------------------------------------------------------------------ directives *)
Inductive dir := DAddr | DAlign | DConst | DData (k : dkind) | DHex | DStr | DFile | DGlobal | DImport | DExport | DInclude.

Definition dir_of (name : str) : option dir :=
  if is name "addr" then Some DAddr else if is name "align" then Some DAlign else if is name "const" then Some DConst
  else if is name "du8" then Some (DData DU8) else if is name "du16" then Some (DData DU16) else if is name "du32" then Some (DData DU32)
  else if is name "dhex" then Some DHex else if is name "dstr" then Some DStr else if is name "dfile" then Some DFile
  else if is name "global" then Some DGlobal else if is name "import" then Some DImport else if is name "export" then Some DExport
  else if is name "include" then Some DInclude else None.

(* `if args.value.len() != NUM_ARGS`: Some st' = the diagnostic was pushed (Err(Trivial)) *)
Definition arity_check (st : state) (line col : N) (args : list arg) (n : nat) : option state :=
  if Nat.eqb (List.length args) n then None
  else if Nat.ltb (List.length args) n then Some (push_error st line col KDirNotEnough)
  else Some (push_error st line col KDirTooMany).

(* the evaluate block shared by .addr / .align / .const: inl = the evaluated argument *)
Definition eval_now (st : state) (line col : N) (a : arg) : res (arg + level) :=
  match ctx_eval st a with
  | EvOk a' (EvalModel.Complete _) => Ret (inl a') st
  | EvOk _ (EvalModel.Deferred _ _) => Ret (inr Fatal) (push_error st line col (KApply AConstNotFound))
  | EvErr _ _ => Ret (inr Fatal) (push_error st line col (KApply AEval))
  | EvPanic p => Panic p
  end.

Definition seg_class (e : seg_error) : apply_err :=
  match e with SegWrite => ASegWrite | SegOccupied _ => ASegOccupied | SegOverflow _ _ => ASegOverflow end.

Definition u32_of (v : Z) : option N := AsmStmtModel.u32_of v.

Definition dir_addr (dbg : bool) (st : state) (line col : N) (args : list arg) : res result :=
  match arity_check st line col args 1 with
  | Some st' => Ret (Some Trivial) st'
  | None =>
      match args with
      | a :: _ =>
          do r, st1 <- eval_now st line col a;
          match r with
          | inr l => Ret (Some l) st1
          | inl (AConst v) =>
              match u32_of v with
              | None => Ret (Some Fatal) (push_error st1 line col (KApply AAddrRange))
              | Some tgt =>
                  do c, st2 <- change_segment dbg st1 tgt;
                  match c with
                  | inl _ => Ret None st2
                  | inr e => Ret (Some Fatal) (push_error st2 line col (KApply (seg_class e)))
                  end
              end
          | inl _ => Ret (Some Trivial) (push_error st1 line col KDirArgType)
          end
      | [] => Panic P_instr_index
      end
  end.

(* run an sres on the active segment; Overflow becomes the given diagnostic with Err(Fatal) *)
Definition seg_update (st : state) (line col : N) (r : sres aseg) : res result :=
  match r with
  | SOk s' => Ret None (set_active st (Active s'))
  | SOverflow _ _ => Ret (Some Fatal) (push_error st line col (KApply ASegOverflow))
  | SPanic p => Panic p
  end.

Definition dir_align (dbg : bool) (st : state) (line col : N) (args : list arg) : res result :=
  match active st with
  | Inactive => Ret (Some Fatal) (push_error st line col (KApply AAlignInactive))
  | Active s =>
      match arity_check st line col args 1 with
      | Some st' => Ret (Some Trivial) st'
      | None =>
          match args with
          | a :: _ =>
              do r, st1 <- eval_now st line col a;
              match r with
              | inr l => Ret (Some l) st1
              | inl (AConst v) =>
                  match u32_of v with
                  | Some (Npos p) =>
                      let n := Npos p in
                      let off := curr_addr s mod n in
                      if off =? 0 then Ret None st1
                      else
                        let new_len := n - off in          (* usize::try_from(u32) cannot fail on a 64-bit target *)
                        match has_remaining dbg s new_len with
                        | SPanic q => Panic q
                        | SOverflow _ _ => Panic P_remaining
                        | SOk false => Ret (Some Fatal) (push_error st1 line col (KApply ASegOverflow))
                        | SOk true =>
                            (* the 256-byte chunk loop: after the test above no chunk can overflow; one write *)
                            seg_update st1 line col (seg_write dbg s (padding new_len))
                        end
                  | _ => Ret (Some Fatal) (push_error st1 line col (KApply AAlignRange))
                  end
              | inl _ => Ret (Some Trivial) (push_error st1 line col KDirArgType)
              end
          | [] => Panic P_instr_index
          end
      end
  end.

Definition dir_const (st : state) (line col : N) (args : list arg) : res result :=
  match arity_check st line col args 2 with
  | Some st' => Ret (Some Trivial) st'
  | None =>
      match args with
      | a0 :: a1 :: _ =>
          match a0 with
          | AIdent name =>
              do r, st1 <- eval_now st line col a1;
              match r with
              | inr l => Ret (Some l) st1
              | inl (AConst v) =>
                  do i, st2 <- insert_constant st1 name v RLocal;
                  match i with
                  | inl _ => Ret None st2
                  | inr CDuplicate => Ret (Some Fatal) (push_error st2 line col (KApply AConstDup))
                  | inr CReserved => Ret (Some Fatal) (push_error st2 line col (KApply AConstReserved))    (* fix 51047a1 *)
                  end
              | inl _ => Ret (Some Trivial) (push_error st1 line col KDirArgType)
              end
          | _ => Ret (Some Trivial) (push_error st line col KDirArgType)
          end
      | _ => Panic P_instr_index
      end
  end.

Definition dir_data (dbg : bool) (st : state) (line col : N) (k : dkind) (args : list arg) : res result :=
  match active st with
  | Inactive => Ret (Some Fatal) (push_error st line col (KApply ADataInactive))
  | Active s =>
      match has_remaining dbg s (dk_size k) with
      | SPanic p => Panic p
      | SOverflow _ _ => Panic P_remaining
      | SOk false => Ret (Some Fatal) (push_error st line col (KApply ASegOverflow))        (* fix a613c66 *)
      | SOk true =>
          let addr := curr_addr s in
          match arity_check st line col args 1 with
          | Some st' => Ret (Some Trivial) st'
          | None =>
              match args with
              | a :: _ =>
                  let d := mkDE k (curr_name st) line col addr a in
                  do r, st1 <- data_apply dbg st d true;
                  match r with
                  | (DCompleted, _) => Ret None st1
                  | (_, d') =>
                      do w, st2 <- write_data dbg st1 d' (padding (dk_size k));     (* padding for whatever follows *)
                      match w with
                      | Some l => Ret (Some l) st2
                      | None => do _, st3 <- add_task st2 (DataTask d' false) RLocal; Ret None st3
                      end
                  end
              | [] => Panic P_data_pop_unwrap
              end
          end
      end
  end.

(* .dhex: chars().filter(!is_ascii_whitespace), to_digit(16).  On bytes: a byte >= 0x80 is neither, so a non-ASCII
   character is reported at its first byte exactly as the char would be (the position is not observed) *)
Definition is_ascii_ws (b : N) : bool := (b =? 32) || (b =? 9) || (b =? 10) || (b =? 12) || (b =? 13).
Definition hex_digit (b : N) : option N :=
  if (48 <=? b) && (b <=? 57) then Some (b - 48)
  else if (97 <=? b) && (b <=? 102) then Some (b - 87)
  else if (65 <=? b) && (b <=? 70) then Some (b - 55)
  else None.
Inductive hex_res := HexOk (bytes : list N) | HexBadChar | HexEof.
Fixpoint hex_decode (s : str) (carry : option N) (acc : list N) : hex_res :=
  match s with
  | [] => match carry with None => HexOk (rev acc) | Some _ => HexEof end
  | c :: r =>
      if is_ascii_ws c then hex_decode r carry acc
      else match hex_digit c with
           | None => HexBadChar
           | Some v => match carry with
                       | None => hex_decode r (Some (N.land (N.shiftl v 4) 0xFF)) acc
                       | Some h => hex_decode r None (N.lor v h :: acc)
                       end
           end
  end.

(* ---- paths: PathBuf::{pop, push} on '/'-separated byte strings ---- *)
Definition slash : N := 47.
Fixpoint has_slash (p : str) : bool := match p with [] => false | c :: r => (c =? slash) || has_slash r end.
(* text before the last '/' *)
Fixpoint before_last_slash (p : str) : str :=
  match p with
  | [] => []
  | c :: r => if has_slash r then c :: before_last_slash r else []
  end.
Definition all_slashes (p : str) : bool := forallb (fun c => c =? slash) p.
(* Path::parent: None for "" and for a root *)
Definition path_parent (p : str) : option str :=
  match p with
  | [] => None
  | _ =>
      if all_slashes p then None
      else if has_slash p then
        match before_last_slash p with
        | [] => Some [slash]                        (* "/name" *)
        | d => Some d
        end
      else Some []
  end.
Definition path_push (base name : str) : str :=
  match name with
  | c :: _ => if c =? slash then name                (* an absolute path replaces *)
              else match base with
                   | [] => name
                   | _ => if (last base 0 =? slash) then base ++ name else base ++ [slash] ++ name
                   end
  | [] => base
  end.
(* `let mut p = curr.to_path_buf(); if !p.pop() {p.push("..");} p.push(name);` *)
Definition resolve_path (curr : str) (name : str) : str :=
  let dir := match path_parent curr with Some d => d | None => path_push curr [46; 46] end in
  path_push dir name.

Fixpoint chunks (n : nat) (fuel : nat) (l : list N) : list (list N) :=
  match fuel with
  | O => [l]
  | S f => match l with [] => [] | _ => firstn n l :: chunks n f (skipn n l) end
  end.

(* the read loop of .dfile: one write per 1024-byte chunk *)
Fixpoint write_chunks (dbg : bool) (s : aseg) (cs : list (list N)) : sres aseg :=
  match cs with
  | [] => SOk s
  | c :: r => sdo s' <- seg_write dbg s c; write_chunks dbg s' r
  end.

Definition dir_bytes (dbg : bool) (fs : str -> option (list N)) (st : state) (line col : N) (d : dir) (args : list arg) : res result :=
  match active st with
  | Inactive => Ret (Some Fatal) (push_error st line col (KApply ADataInactive))
  | Active s =>
      match arity_check st line col args 1 with
      | Some st' => Ret (Some Trivial) st'
      | None =>
          match args with
          | AStr v :: _ =>
              match d with
              | DHex =>
                  match hex_decode v None [] with
                  | HexBadChar => Ret (Some Fatal) (push_error st line col (KApply ADataHexChar))
                  | HexEof => Ret (Some Fatal) (push_error st line col (KApply ADataHexEof))
                  | HexOk bytes => seg_update st line col (seg_write dbg s bytes)
                  end
              | DFile =>
                  match path_stack st with
                  | [] => Panic P_curr_file_unwrap
                  | curr :: _ =>
                      match fs (resolve_path curr v) with
                      | None => Ret (Some Fatal) (push_error st line col (KApply ADataFile))
                      | Some bytes =>
                          match has_remaining dbg s (len bytes) with
                          | SPanic p => Panic p
                          | SOverflow _ _ => Panic P_remaining
                          | SOk false => Ret (Some Fatal) (push_error st line col (KApply ASegOverflow))
                          | SOk true => seg_update st line col (write_chunks dbg s (chunks 1024 (List.length bytes) bytes))
                          end
                      end
                  end
              | _ => seg_update st line col (seg_write dbg s v)          (* .dstr: value.as_bytes() *)
              end
          | _ :: _ => Ret (Some Trivial) (push_error st line col KDirArgType)
          | [] => Panic P_instr_index
          end
      end
  end.

(* .global / .import / .export (global.rs) *)
Definition dir_global (st : state) (line col : N) (d : dir) (args : list arg) : res result :=
  match arity_check st line col args 1 with
  | Some st' => Ret (Some Trivial) st'
  | None =>
      match args with
      | AIdent name :: _ =>
          match d with
          | DGlobal =>
              do r, st1 <- defer_constant st name RGlobal;
              match r with
              | inr CDuplicate => Ret (Some Fatal) (push_error st1 line col (KApply AGDuplicate))
              | inr CReserved => Ret (Some Fatal) (push_error st1 line col (KApply AConstReserved))          (* fix 51047a1 *)
              | inl _ =>
                  match get_constant st1 name RLocal with
                  | None => Panic P_no_local_scope
                  | Some (EvalModel.Found v) =>
                      do i, st2 <- insert_constant st1 name v RGlobal;
                      match i with
                      | inr _ => Panic P_global_insert_unwrap
                      | inl true => Panic P_global_assert
                      | inl false => Ret None st2
                      end
                  | Some lk =>
                      do _, st2 <- (match lk with
                                    | EvalModel.NotFound =>
                                        do x, st' <- defer_constant st1 name RLocal;
                                        match x with inl _ => Ret tt st' | inr _ => Panic P_global_defer_unwrap end
                                    | _ => Ret tt st1
                                    end);
                      do _, st3 <- add_task st2 (GlobalTask name line col) RLocal;
                      Ret None st3
                  end
              end
          | _ =>
              let exporting := match d with DExport => true | _ => false end in
              let src_realm := if exporting then RLocal else RGlobal in
              let dst_realm := if exporting then RGlobal else RLocal in
              match get_constant st name src_realm with
              | None => Panic P_no_local_scope
              | Some EvalModel.NotFound => Ret (Some Fatal) (push_error st line col (KApply AGNotFound))
              | Some EvalModel.LDeferred =>
                  if exporting then Ret (Some Fatal) (push_error st line col (KApply AGDeferred))
                  else
                    do r, st1 <- defer_constant st name dst_realm;
                    match r with
                    | inl _ => do _, st2 <- add_task st1 (ImportCheckTask name line col) RLocal; Ret None st2     (* fix 976f0cc *)
                    | inr CDuplicate => Ret (Some Fatal) (push_error st1 line col (KApply AGDuplicate))
                    | inr CReserved => Panic P_global_unreachable
                    end
              | Some (EvalModel.Found v) =>
                  do r, st1 <- insert_constant st name v dst_realm;
                  match r with
                  | inl _ => Ret None st1
                  | inr CDuplicate => Ret (Some Fatal) (push_error st1 line col (KApply AGDuplicate))
                  | inr CReserved => Panic P_global_unreachable
                  end
              end
          end
      | _ :: _ => Ret (Some Trivial) (push_error st line col KDirArgType)
      | [] => Panic P_instr_index
      end
  end.

(* .include; `inc` = Context::assemble one level down (less fuel) *)
Definition dir_include (fs : str -> option (list N)) (inc : state -> list N -> str -> res result)
    (st : state) (line col : N) (args : list arg) : res result :=
  match arity_check st line col args 1 with
  | Some st' => Ret (Some Trivial) st'
  | None =>
      match args with
      | AStr name :: _ =>
          let curr := match path_stack st with [] => [] | p :: _ => p end in
          let path := resolve_path curr name in
          if existsb (fun open => str_eqb open path) (path_stack st) then
            Ret (Some Fatal) (push_error st line col (KApply AIncRecursive))                 (* fix 1569db8 *)
          else
            match fs path with
            | None => Ret (Some Fatal) (push_error st line col (KApply AIncNoFile))
            | Some data =>
                do r, st1 <- inc st data path;
                match r with
                | None => Ret None st1
                | Some _ => Ret (Some Fatal) (push_error st1 line col (KApply AIncFailed))
                end
            end
      | _ :: _ => Ret (Some Trivial) (push_error st line col KDirArgType)
      | [] => Panic P_instr_index
      end
  end.

(* DirectiveList::process *)
Definition process_directive (dbg : bool) (fs : str -> option (list N)) (inc : state -> list N -> str -> res result)
    (st : state) (line col : N) (name : str) (args : list arg) : res result :=
  match dir_of name with
  | None => Ret (Some Fatal) (push_error st line col KDirNotFound)
  | Some DAddr => dir_addr dbg st line col args
  | Some DAlign => dir_align dbg st line col args
  | Some DConst => dir_const st line col args
  | Some (DData k) => dir_data dbg st line col k args
  | Some DHex => dir_bytes dbg fs st line col DHex args
  | Some DStr => dir_bytes dbg fs st line col DStr args
  | Some DFile => dir_bytes dbg fs st line col DFile args
  | Some DGlobal => dir_global st line col DGlobal args
  | Some DImport => dir_global st line col DImport args
  | Some DExport => dir_global st line col DExport args
  | Some DInclude => dir_include fs inc st line col args
  end.

(* ------------------------------------------------------------------ do_assemble *)
(* one statement of the loop in do_assemble *)
Definition step (dbg : bool) (fs : str -> option (list N)) (inc : state -> list N -> str -> res result)
    (st : state) (e : element) : res result :=
  let line := e_line e in let col := e_col e in
  match e_val e with
  | EDirective name args => process_directive dbg fs inc st line col name args
  | ELabel name =>
      match active st with
      | Inactive => Ret (Some Fatal) (push_error st line col KInactive)
      | Active s =>
          do r, st1 <- insert_constant st name (Z.of_N (curr_addr s)) RLocal;
          match r with
          | inl _ => Ret None st1
          | inr CReserved => Ret (Some Fatal) (push_error st1 line col KConstReserved)
          | inr CDuplicate => Ret (Some Fatal) (push_error st1 line col KConstDuplicate)
          end
      end
  | EInstruction name args =>
      match active st with
      | Inactive => Ret (Some Fatal) (push_error st line col KInactive)
      | Active _ => assemble_instr dbg st line col name args
      end
  end.

Fixpoint run_items (dbg : bool) (fs : str -> option (list N)) (inc : state -> list N -> str -> res result)
    (items : list ParseModel.item) (st : state) : res result :=
  match items with
  | [] => Ret None st
  | ParseModel.IErr e :: _ => Ret (Some Fatal) (push_error st (ParseModel.pe_line e) (ParseModel.pe_col e) KParse)
  | ParseModel.IOk el :: rest =>
      do r, st1 <- step dbg fs inc st el;
      match r with
      | None => run_items dbg fs inc rest st1
      | Some l => Ret (Some l) st1
      end
  end.

(* Parser::new(data) run to its end: the parser does not depend on the context, so the statements are parsed
   first; a panic of tokenizer or parser is reported after the statements before it were processed *)
Inductive parsed := Parsed (items : list ParseModel.item) (tail : option (option site)).   (* tail: None = end, Some None = fuel, Some (Some p) = panic *)

Definition parse_source (data : list N) : parsed :=
  match TokenModel.unfold_rem (List.length data + 2) (TokenModel.tok_new data) with
  | TokenModel.Ok (toks, tst) =>
      match ParseModel.parse_all (ParseModel.src_of (map fst toks) (TokenModel.ts_line tst) (TokenModel.ts_col tst)) with
      | ParseModel.Done items _ => Parsed items None
      | ParseModel.RPanic items => Parsed items (Some (Some P_parser))
      | ParseModel.ROutOfFuel => Parsed [] (Some None)
      end
  | TokenModel.Panic n => Parsed [] (Some (Some (P_tokenizer n)))
  | TokenModel.OutOfFuel => Parsed [] (Some None)
  end.

Definition do_assemble (dbg : bool) (fs : str -> option (list N)) (inc : state -> list N -> str -> res result)
    (st : state) (data : list N) : res result :=
  match parse_source data with
  | Parsed items tail =>
      do r, st1 <- run_items dbg fs inc items st;
      match r with
      | Some _ => Ret r st1               (* a statement error returns before the parser is polled again *)
      | None =>
          match tail with
          | None => Ret None st1
          | Some (Some p) => Panic p
          | Some None => OutOfFuel
          end
      end
  end.

(* ------------------------------------------------------------------ Context::assemble *)
Definition task_rounds : nat := 4.

(* PathFrame: what into_inner restores *)
Record frame := mkFrame { f_count : nat; f_name : str; f_constants : option table; f_tasks : option (list task) }.

Definition enter_file (st : state) (path : str) : state * frame :=
  let stack := path :: path_stack st in
  let fr := mkFrame (List.length stack) (curr_name st)
                    (match locals st with Some _ => Some (globals st) | None => None end)
                    (match local_tasks st with Some _ => Some (global_tasks st) | None => None end) in
  (mkState (output st) (active st)
           (match locals st with Some c => c | None => globals st end) (Some [])
           (match local_tasks st with Some t => t | None => global_tasks st end) (Some [])
           (errors st) stack path, fr).

Definition leave_file (st : state) (fr : frame) : res unit :=
  if negb (Nat.eqb (List.length (path_stack st)) (f_count fr)) then Panic P_frame_assert
  else
    match path_stack st with
    | [] => Panic P_frame_pop
    | _ :: stack =>
        Ret tt (mkState (output st) (active st)
                        (match f_constants fr with Some c => c | None => globals st end)
                        (match f_constants fr with Some _ => Some (globals st) | None => None end)
                        (match f_tasks fr with Some t => t | None => global_tasks st end)
                        (match f_tasks fr with Some _ => Some (global_tasks st) | None => None end)
                        (errors st) stack (f_name fr))
    end.

Definition assemble_body (dbg : bool) (fs : str -> option (list N)) (inc : state -> list N -> str -> res result)
    (st : state) (data : list N) (path : str) : res result :=
  let '(st0, fr) := enter_file st path in
  do r, st1 <- do_assemble dbg fs inc st0 data;
  do r', st2 <- (if res_is_fatal r then Ret r st1
                 else match local_tasks st1 with
                      | None => Panic P_local_tasks_unwrap
                      | Some tasks => local_loop dbg task_rounds tasks (set_local_tasks st1 (Some [])) r
                      end);
  do _, st3 <- leave_file st2 fr;
  Ret r' st3.

Fixpoint assemble (dbg : bool) (fs : str -> option (list N)) (fuel : nat) (st : state) (data : list N) (path : str) : res result :=
  match fuel with
  | O => OutOfFuel
  | S f => assemble_body dbg fs (assemble dbg fs f) st data path
  end.

(* ------------------------------------------------------------------ finalize *)
Fixpoint final_round (dbg : bool) (tasks : list task) (st : state) : res bool :=      (* true = abort *)
  match tasks with
  | [] => Ret false st
  | t :: rest =>
      do x, st1 <- run_task dbg st t;
      if res_is_fatal x then Ret true st1 else final_round dbg rest st1
  end.

Fixpoint final_loop (dbg : bool) (rounds : nat) (tasks : list task) (st : state) : res bool :=
  match tasks with
  | [] => Ret false st
  | _ =>
      match rounds with
      | O => OutOfFuel
      | S k =>
          do abort, st1 <- final_round dbg tasks st;
          let newt := global_tasks st1 in
          let st2 := set_global_tasks st1 [] in
          if abort then Ret true st2 else final_loop dbg k newt st2
      end
  end.

Definition finalize (dbg : bool) (st : state) : res bool :=
  do abort, st1 <- final_loop dbg task_rounds (global_tasks st) (set_global_tasks st []);
  Ret (negb (abort || match errors st1 with [] => false | _ => true end)) st1.

(* ------------------------------------------------------------------ the pipeline of src/bin/assembler.rs *)
Inductive status := Success | Failure | CloseError.
Inductive outcome :=
| PPanic (p : site)
| POutOfFuel
| Done (s : status) (diags : list diag) (regions : list MapModel.seg).

Definition pipeline_state (dbg : bool) (fs : str -> option (list N)) (fuel : nat) (path : str) (text : list N) : res status :=
  do _, st1 <- assemble dbg fs fuel init_state text path;
  do c, st2 <- close_segment dbg st1;
  match c with
  | inr _ => Ret CloseError st2
  | inl _ => do ok, st3 <- finalize dbg st2; Ret (if ok then Success else Failure) st3
  end.

Definition pipeline_gen (dbg : bool) (fs : str -> option (list N)) (fuel : nat) (path : str) (text : list N) : outcome :=
  match pipeline_state dbg fs fuel path text with
  | Ret s st => Done s (rev (errors st)) (MapModel.map_iter (output st))
  | Panic p => PPanic p
  | OutOfFuel => POutOfFuel
  end.

(* release build, include depth 64 *)
Definition include_fuel : nat := 64.
Definition pipeline (fs : str -> option (list N)) (path : str) (text : list N) : outcome :=
  pipeline_gen false fs include_fuel path text.
