(* C06 oracle on the OBSERVATION of one pipeline run (assemble, close the last region, finalize):
   what the property demands of the outcome, independent of how the assembler works.

     never a panic;
     success            =>  no diagnostic recorded;
     failure            =>  at least one diagnostic, and every diagnostic names a file of the project and a
                            1-based line and column inside that file's text (or directly behind its last character);
     close error        =>  reported by the error value itself (nothing more is required);
     the generator knows the program contains an invalid construct  =>  not success;
     the generator knows where the invalid statement starts         =>  the first diagnostic is there
                            (C12's clause "a diagnostic names the statement's file, line and column").          *)
From Coq Require Import NArith List Bool.
From Trion Require Import Base.Utf8 Text.Types Text.PosSpec.
Import ListNotations.
Open Scope N_scope.

Inductive status := StPanic | StSuccess | StFailure | StCloseError.

Record diag := mkDiag { d_file : str; d_line : N; d_col : N }.

Inductive violation :=
| VPanic                 (* the pipeline panicked *)
| VSuccessWithDiag       (* success although a diagnostic was recorded *)
| VFailureUnreported     (* failure without any diagnostic and without a close error *)
| VDiagOutOfBounds       (* a diagnostic without a known file, or with a line/column outside that file *)
| VInvalidAccepted       (* a program with a known invalid construct ended in success *)
| VWrongPosition.        (* the first diagnostic is not at the known invalid statement *)

(* the lines of a text: pieces between line feeds (a text with k line feeds has k+1 lines) *)
Fixpoint split_lines_acc (acc : list N) (p : list N) : list (list N) :=
  match p with
  | [] => [acc]
  | b :: r => if b =? 10 then acc :: split_lines_acc [] r else split_lines_acc (acc ++ [b]) r
  end.
Definition split_lines (p : list N) : list (list N) := split_lines_acc [] p.

(* 1 <= line <= number of lines, 1 <= col <= characters of that line + 1 (PosSpec counts one column per UTF-8 sequence) *)
Definition pos_in_bounds (src : list N) (line col : N) : bool :=
  match line with
  | 0 => false
  | _ =>
    match nth_error (split_lines src) (N.to_nat (line - 1)) with
    | None => false
    | Some l => (1 <=? col) && (col <=? count_chars l + 1)
    end
  end.

Fixpoint str_eqb (a b : str) : bool :=
  match a, b with
  | [], [] => true
  | x :: a', y :: b' => (x =? y) && str_eqb a' b'
  | _, _ => false
  end.

Fixpoint lookup_file (files : list (str * list N)) (name : str) : option (list N) :=
  match files with
  | [] => None
  | (n, src) :: r => if str_eqb n name then Some src else lookup_file r name
  end.

Definition diag_ok (files : list (str * list N)) (d : diag) : bool :=
  match lookup_file files (d_file d) with
  | None => false
  | Some src => pos_in_bounds src (d_line d) (d_col d)
  end.

(* `expect_diag`: the generator put a construct into the program that the property lists as invalid.
   `expect_pos`: where that statement starts (file, line, col), if known. *)
Definition judge (files : list (str * list N)) (st : status) (diags : list diag)
                 (expect_diag : bool) (expect_pos : option diag) : option violation :=
  match st with
  | StPanic => Some VPanic
  | StCloseError => None
  | StSuccess =>
      if negb (match diags with [] => true | _ => false end) then Some VSuccessWithDiag
      else if expect_diag then Some VInvalidAccepted else None
  | StFailure =>
      match diags with
      | [] => Some VFailureUnreported
      | d :: _ =>
          if negb (forallb (diag_ok files) diags) then Some VDiagOutOfBounds
          else match expect_pos with
               | None => None
               | Some e => if str_eqb (d_file d) (d_file e) && (d_line d =? d_line e) && (d_col d =? d_col e)
                           then None else Some VWrongPosition
               end
      end
  end.

