(* C06 proofs, part 2: the scope invariant of the Context model and the absence of every panic that is not a
   segment / map site (those are excluded by C13: Asm/CtxInvTop.v).

   tinv st    : no key of `globals` / `locals` is a register name (insert_constant / defer_constant refuse them);
   infile st  : a file is open: path_stack <> [], and the local table and the local task list exist
                (Context::assemble installs them before do_assemble and removes them in PathFrame::into_inner);
   plain t    : t is a re-scheduled statement (InstrTask / DataTask with global = true): the only tasks that are ever
                added to `global_tasks`, hence the only ones finalize runs (no .global / .import bookkeeping task, which
                needs a local scope, survives to the top level);
   keeps st st' : path_stack unchanged, locals / local_tasks exist in st' iff they do in st, global_tasks only grew
                by plain tasks;
   qpost st r : what every Context operation guarantees: Ret => tinv /\ keeps, Panic p => p is a segment site.
   Proof file (no model definitions). *)
From Coq Require Import ZArith NArith PeanoNat List Bool Lia.
From Trion Require Import Text.Types Expr.I64 Expr.SimplifyModel Expr.EvalModel Asm.CtxModel Asm.CtxProofs Asm.CtxInvDefs.
From Trion Require Expr.C08NoPanic Arm.AsmStmtModel Arm.EncodeModel Mem.MapModel Text.TokenModel Text.TokenProofs Text.ParseModel
  Text.ParseProofs Asm.CtxNoPanicInstr Asm.CtxInvTop.
Import ListNotations.

(* ================================================================ tables *)
Lemma str_eqb_true a : forall b, str_eqb a b = true -> a = b.
Proof.
  unfold str_eqb. induction a as [|x a IH]; intros [|y b]; cbn [AsmStmtModel.str_eqb]; intros H; try discriminate; [reflexivity|].
  apply andb_true_iff in H. destruct H as [H1 H2]. apply N.eqb_eq in H1. apply IH in H2. congruence.
Qed.
Lemma str_eqb_same a : str_eqb a a = true.
Proof. unfold str_eqb. induction a as [|x a IH]; cbn [AsmStmtModel.str_eqb]; [reflexivity|]. rewrite N.eqb_refl, IH. reflexivity. Qed.

Lemma tget_set t n v m : tbl_get (tbl_set t n v) m = if str_eqb n m then Some v else tbl_get t m.
Proof.
  induction t as [|[k w] r IH]; cbn [tbl_set tbl_get].
  - destruct (str_eqb n m); reflexivity.
  - destruct (str_eqb k n) eqn:K; cbn [tbl_get].
    + apply str_eqb_true in K. subst k. destruct (str_eqb n m); reflexivity.
    + rewrite IH. destruct (str_eqb k m) eqn:KM; [|reflexivity].
      apply str_eqb_true in KM. subst m. destruct (str_eqb n k) eqn:NK; [|reflexivity].
      apply str_eqb_true in NK. subst n. rewrite str_eqb_same in K. discriminate.
Qed.

Definition regs_ok (t : table) : Prop := forall n, is_register n = true -> tbl_get t n = None.

Lemma regs_ok_nil : regs_ok []. Proof. intros n _. reflexivity. Qed.
Lemma regs_ok_set t n v : regs_ok t -> is_register n = false -> regs_ok (tbl_set t n v).
Proof.
  intros H IR m Hm. rewrite tget_set. destruct (str_eqb n m) eqn:E; [|apply H; exact Hm].
  apply str_eqb_true in E. subst. congruence.
Qed.
Lemma regs_ok_get t n x : regs_ok t -> tbl_get t n = Some x -> is_register n = false.
Proof. intros H G. destruct (is_register n) eqn:E; [|reflexivity]. rewrite (H n E) in G. discriminate. Qed.

(* ================================================================ invariants *)
Definition tinv (st : state) : Prop :=
  regs_ok (globals st) /\ match locals st with Some t => regs_ok t | None => True end.
Definition infile (st : state) : Prop := locals st <> None /\ local_tasks st <> None /\ path_stack st <> [].
Definition plain (t : task) : Prop := match t with InstrTask _ true | DataTask _ true => True | _ => False end.
Definition keeps (st st' : state) : Prop :=
  path_stack st' = path_stack st /\
  (locals st' = None <-> locals st = None) /\
  (local_tasks st' = None <-> local_tasks st = None) /\
  exists l, global_tasks st' = global_tasks st ++ l /\ Forall plain l.

Definition qpost {A} (st : state) (r : res A) : Prop :=
  match r with Ret _ st' => tinv st' /\ keeps st st' | Panic p => seg_site p | OutOfFuel => True end.

Lemma keeps_refl st : keeps st st.
Proof. split; [reflexivity|]. split; [tauto|]. split; [tauto|]. exists []. rewrite app_nil_r. split; [reflexivity|constructor]. Qed.
Lemma keeps_trans a b c : keeps a b -> keeps b c -> keeps a c.
Proof.
  intros (P1 & L1 & T1 & l1 & G1 & F1) (P2 & L2 & T2 & l2 & G2 & F2).
  split; [congruence|]. split; [tauto|]. split; [tauto|]. exists (l1 ++ l2). split.
  - rewrite G2, G1, app_assoc. reflexivity.
  - apply Forall_app. split; assumption.
Qed.
Lemma infile_keeps st st' : infile st -> keeps st st' -> infile st'.
Proof. intros (A & B & C) (P & L & T & _). split; [tauto|]. split; [tauto|]. congruence. Qed.

Lemma qpost_weaken {A} st st1 (r : res A) : keeps st st1 -> qpost st1 r -> qpost st r.
Proof. intros K. destruct r; cbn [qpost]; auto. intros (T & K1). split; [exact T|]. eapply keeps_trans; eauto. Qed.
Lemma qpost_bind {A B} st (r : res A) (k : A -> state -> res B) :
  qpost st r -> (forall a st1, tinv st1 -> keeps st st1 -> qpost st1 (k a st1)) -> qpost st (bind r k).
Proof.
  intros H K. destruct r as [a st1|p|]; cbn [bind qpost] in *; auto.
  destruct H as (T & K1). eapply qpost_weaken; [exact K1|]. apply K; assumption.
Qed.

(* states that agree on the tables, the task lists and the path stack *)
Definition eqs (st st' : state) : Prop :=
  globals st' = globals st /\ locals st' = locals st /\ global_tasks st' = global_tasks st /\
  local_tasks st' = local_tasks st /\ path_stack st' = path_stack st.
Lemma eqs_refl st : eqs st st. Proof. repeat split. Qed.
Lemma eqs_trans a b c : eqs a b -> eqs b c -> eqs a c.
Proof. intros (A1 & A2 & A3 & A4 & A5) (B1 & B2 & B3 & B4 & B5). repeat split; congruence. Qed.
Lemma eqs_keeps st st' : eqs st st' -> keeps st st'.
Proof.
  intros (E1 & E2 & E3 & E4 & E5). split; [exact E5|]. rewrite E2, E4. split; [tauto|]. split; [tauto|].
  exists []. rewrite app_nil_r. split; [exact E3|constructor].
Qed.
Lemma eqs_tinv st st' : eqs st st' -> tinv st -> tinv st'.
Proof. intros (E1 & E2 & _) T. unfold tinv. rewrite E1, E2. exact T. Qed.
Lemma eqs_infile st st' : eqs st st' -> infile st -> infile st'.
Proof. intros E I. eapply infile_keeps; [exact I|apply eqs_keeps; exact E]. Qed.

(* operations that touch only output / active / errors *)
Definition spost {A} (st : state) (r : res A) : Prop :=
  match r with Ret _ st' => eqs st st' | Panic p => seg_site p | OutOfFuel => True end.
Lemma spost_bind {A B} st (r : res A) (k : A -> state -> res B) :
  spost st r -> (forall a st1, eqs st st1 -> spost st1 (k a st1)) -> spost st (bind r k).
Proof.
  intros H K. destruct r as [a st1|p|]; cbn [bind spost] in *; auto; try exact Logic.I.
  specialize (K a st1 H). destruct (k a st1); cbn [spost] in *; auto. eapply eqs_trans; eauto.
Qed.
Lemma spost_qpost {A} st (r : res A) : tinv st -> spost st r -> qpost st r.
Proof. intros T. destruct r; cbn; auto. intros E. split; [eapply eqs_tinv; eauto|apply eqs_keeps; exact E]. Qed.
Lemma eqs_qpost {A} st st' (a : A) : tinv st -> eqs st st' -> qpost st (Ret a st').
Proof. intros T E. apply spost_qpost; [exact T|exact E]. Qed.

Ltac eqs_tac := first [apply eqs_refl | repeat split; reflexivity].

(* ================================================================ the segment code panics only at segment sites *)
Definition sq {A} (r : sres A) : Prop := match r with SPanic p => seg_site p | _ => True end.
Lemma sq_bind {A B} (r : sres A) (k : A -> sres B) : sq r -> (forall a, sq (k a)) -> sq (sbind r k).
Proof. intros H K. destruct r; cbn [sbind sq] in *; auto. Qed.

Lemma remaining_sq dbg s : sq (remaining dbg s).
Proof. unfold remaining. destruct (_ <=? _)%N; [exact I|]. destruct dbg; exact I. Qed.
Lemma has_remaining_sq dbg s n : sq (has_remaining dbg s n).
Proof. unfold has_remaining. apply sq_bind; [apply remaining_sq|]. intros a. exact I. Qed.
Lemma covers_sq dbg s a : sq (covers dbg s a).
Proof.
  unfold covers. destruct (_ <? _)%N; [exact I|]. cbv zeta. destruct (_ <? _)%N; [exact I|].
  destruct (_ =? _)%N; [apply has_remaining_sq|exact I].
Qed.
Lemma seg_write_sq dbg s d : sq (seg_write dbg s d).
Proof. unfold seg_write. apply sq_bind; [apply remaining_sq|]. intros r. destruct (_ <=? _)%N; exact I. Qed.
Lemma seg_write_at_sq dbg s a d : sq (seg_write_at dbg s a d).
Proof.
  unfold seg_write_at. destruct (negb _); [exact I|]. cbv zeta. apply sq_bind.
  { destruct (_ <=? _)%N; [exact I|]. destruct dbg; exact I. }
  intros avail. destruct (_ <? _)%N.
  - apply sq_bind; [apply remaining_sq|]. intros r. destruct (_ <=? _)%N; exact I.
  - destruct (_ <? _)%N; exact I.
Qed.
Lemma write_chunks_sq dbg cs : forall s, sq (write_chunks dbg s cs).
Proof. induction cs as [|c r IH]; intros s; cbn [write_chunks]; [exact I|]. apply sq_bind; [apply seg_write_sq|]. intros s'. apply IH. Qed.
Lemma make_active_sq dbg a n : sq (make_active dbg a n).
Proof. unfold make_active. destruct n; [|exact I]. destruct (_ <=? _)%N; [exact I|]. destruct dbg; exact I. Qed.

Lemma close_segment_s dbg st : spost st (close_segment dbg st).
Proof.
  unfold close_segment. destruct (active st); [eqs_tac|].
  destruct (MapModel.map_put _ _ _ _) as [[m [n|]]|p|]; cbn [spost]; try exact Logic.I; try eqs_tac.
  destruct (_ =? _)%N; cbn [spost]; [eqs_tac|exact I].
Qed.
Lemma select_segment_s dbg st a : spost st (select_segment dbg st a).
Proof.
  unfold select_segment. destruct (MapModel.map_find _ _ _ _) as [r|p|]; cbn [spost]; try exact Logic.I.
  destruct (match option_map fst r with Some n => (n <=? a)%N | None => false end); [eqs_tac|].
  destruct (active st); [|exact I].
  pose proof (make_active_sq dbg a (option_map fst r)) as Q. destruct (make_active _ _ _); cbn [spost sq] in *; auto; try exact Logic.I; try exact I. eqs_tac.
Qed.
Lemma change_segment_s dbg st a : spost st (change_segment dbg st a).
Proof.
  unfold change_segment. destruct (active st); [apply select_segment_s|].
  destruct (_ && _); [eqs_tac|]. apply spost_bind; [apply close_segment_s|]. intros r st1 E.
  destruct r; [apply select_segment_s|eqs_tac].
Qed.

Lemma put_stmt_s dbg st f l c a d k pa : seg_site pa -> spost st (put_stmt dbg st f l c a d k pa).
Proof.
  intros S. unfold put_stmt. destruct (MapModel.map_put _ _ _ _) as [[m [n|]]|p|]; cbn [spost]; try exact Logic.I; try eqs_tac.
  destruct (_ =? _)%N; cbn [spost]; [eqs_tac|exact S].
Qed.
Lemma write_stmt_s dbg st f l c a d k1 k2 pa : seg_site pa -> spost st (write_stmt dbg st f l c a d k1 k2 pa).
Proof.
  intros S. unfold write_stmt. destruct (active st) as [|s]; [apply put_stmt_s; exact S|].
  pose proof (covers_sq dbg s a) as C. destruct (covers dbg s a) as [[|]| |]; cbn [spost sq] in *; auto; try exact Logic.I.
  - pose proof (seg_write_at_sq dbg s a d) as W. destruct (seg_write_at dbg s a d); cbn [spost sq] in *; auto; try exact Logic.I; eqs_tac.
  - apply put_stmt_s; exact S.
Qed.
Lemma write_instr_s dbg st ai d : spost st (write_instr dbg st ai d).
Proof. unfold write_instr. destruct (EncodeModel.enc_bytes _ _); try eqs_tac. apply write_stmt_s. exact I. Qed.
Lemma write_data_s dbg st d data : spost st (write_data dbg st d data).
Proof. apply write_stmt_s. exact I. Qed.
Lemma seg_update_s st l c r : sq r -> spost st (seg_update st l c r).
Proof. intros Q. unfold seg_update. destruct r; cbn [spost sq] in *; auto; try exact Logic.I; eqs_tac. Qed.

(* ================================================================ evaluation in the context *)
Definition ev_ok (st : state) : Prop := realm_table st (eval_realm st) <> None.
Lemma infile_ev_ok st : infile st -> ev_ok st.
Proof. intros (A & _ & C). unfold ev_ok, eval_realm. destruct (path_stack st); [contradiction|]. exact A. Qed.
Lemma top_ev_ok st : path_stack st = [] -> ev_ok st.
Proof. intros E. unfold ev_ok, eval_realm. rewrite E. discriminate. Qed.
Lemma eqs_ev_ok st st' : eqs st st' -> ev_ok st -> ev_ok st'.
Proof. intros (E1 & E2 & _ & _ & E5). unfold ev_ok, eval_realm, realm_table. rewrite E1, E2, E5. auto. Qed.

(* simplify never reaches an unreachable!/assert! (C08) and the table exists: evaluate never panics *)
Lemma ctx_eval_no_panic st a p : ev_ok st -> ctx_eval st a <> EvPanic p.
Proof.
  unfold ev_ok. intros H. destruct (realm_table st (eval_realm st)) as [t|] eqn:E; [clear H|contradiction].
  unfold ctx_eval, ctx_lookup, get_constant. rewrite E.
  pose proof (evaluate_mut_agrees (lookup_of t) is_register a) as G. unfold agree_res in G.
  destruct (evaluate (lookup_of t) is_register a) as [[a' e]|e|s] eqn:V.
  - rewrite G. discriminate.
  - destruct G as (a' & e' & ->). discriminate.
  - exfalso. destruct (C08NoPanic.no_panic a) as (_ & _ & N). exact (N _ _ _ V).
Qed.

Lemma first_panic_none st l : ev_ok st -> first_panic st l = None.
Proof.
  intros H. induction l as [|a r IH]; cbn [first_panic]; [reflexivity|]. unfold ctx_eval_panics.
  pose proof (ctx_eval_no_panic st a) as N. destruct (ctx_eval st a); try exact IH. exfalso. exact (N p H eq_refl).
Qed.

Lemma instr_assemble_s st ai local : ev_ok st ->
  match instr_assemble st ai local with Ret _ st' => eqs st st' | _ => False end.
Proof.
  intros H. unfold instr_assemble. rewrite (first_panic_none st _ H).
  pose proof (CtxNoPanicInstr.assemble_args_no_panic (instr_ev st) local (ai_addr ai) (ai_instr ai) (ai_ast ai)) as N.
  destruct (AsmStmtModel.assemble_args _ _ _ _ _); try eqs_tac. exact (N eq_refl).
Qed.

Lemma data_apply_s dbg st d local : ev_ok st -> spost st (data_apply dbg st d local).
Proof.
  intros H. unfold data_apply. pose proof (ctx_eval_no_panic st (de_arg d)) as N.
  destruct (ctx_eval st (de_arg d)) as [a' [c|c cause]|a' e|p]; [| | |exfalso; exact (N p H eq_refl)].
  - destruct a'; try eqs_tac. destruct (_ && _); [|eqs_tac].
    apply spost_bind; [apply write_data_s|]. intros r st1 E. eqs_tac.
  - eqs_tac.
  - destruct e, local; eqs_tac.
Qed.

Lemma eval_now_s st l c a : ev_ok st -> match eval_now st l c a with Ret _ st' => eqs st st' | _ => False end.
Proof.
  intros H. unfold eval_now. pose proof (ctx_eval_no_panic st a) as N.
  destruct (ctx_eval st a) as [a' [ch|ch cause]|a' e|p]; try eqs_tac. exact (N p H eq_refl).
Qed.

Lemma arity_some st l c args n st' : arity_check st l c args n = Some st' -> eqs st st'.
Proof.
  unfold arity_check. destruct (Nat.eqb _ _); [discriminate|]. destruct (Nat.ltb _ _); intros H; inversion H; eqs_tac.
Qed.
Lemma arity_none st l c args n : arity_check st l c args n = None -> length args = n.
Proof.
  unfold arity_check. destruct (Nat.eqb _ _) eqn:E; [intros _; apply Nat.eqb_eq; exact E|]. destruct (Nat.ltb _ _); discriminate.
Qed.

(* ================================================================ tables and task lists *)
Lemma tinv_set_realm st r t t' : tinv st -> realm_table st r = Some t -> (regs_ok t -> regs_ok t') -> tinv (set_realm_table st r t').
Proof.
  intros (G & L) E H. destruct r; cbn in E |- *.
  - inversion E; subst. split; [apply H; exact G|exact L].
  - rewrite E in L. split; [exact G|apply H; exact L].
Qed.
Lemma keeps_of st st' : path_stack st' = path_stack st -> (locals st' = None <-> locals st = None) ->
  (local_tasks st' = None <-> local_tasks st = None) -> global_tasks st' = global_tasks st -> keeps st st'.
Proof. intros A B C D. split; [exact A|]. split; [exact B|]. split; [exact C|]. exists []. rewrite app_nil_r. split; [exact D|constructor]. Qed.
Lemma keeps_set_realm st r t t' : realm_table st r = Some t -> keeps st (set_realm_table st r t').
Proof.
  intros E. destruct r; cbn in E |- *.
  - apply keeps_of; cbn; tauto.
  - apply keeps_of; cbn; try tauto. rewrite E. split; discriminate.
Qed.

Lemma insert_constant_q st name v r : tinv st -> realm_table st r <> None ->
  match insert_constant st name v r with
  | Ret x st' => tinv st' /\ keeps st st' /\ (x = inr CReserved -> is_register name = true)
  | _ => False
  end.
Proof.
  intros T NR. unfold insert_constant. destruct (is_register name) eqn:IR.
  { split; [exact T|]. split; [apply keeps_refl|reflexivity]. }
  destruct (realm_table st r) as [t|] eqn:ER; [|contradiction].
  destruct (tbl_get t name) as [[z|]|].
  - split; [exact T|]. split; [apply keeps_refl|discriminate].
  - split; [eapply tinv_set_realm; eauto; intros; apply regs_ok_set; assumption|].
    split; [eapply keeps_set_realm; eauto|discriminate].
  - split; [eapply tinv_set_realm; eauto; intros; apply regs_ok_set; assumption|].
    split; [eapply keeps_set_realm; eauto|discriminate].
Qed.

Lemma defer_constant_q st name r : tinv st -> realm_table st r <> None ->
  match defer_constant st name r with
  | Ret x st' => tinv st' /\ keeps st st' /\ (x = inr CReserved -> is_register name = true)
  | _ => False
  end.
Proof.
  intros T NR. unfold defer_constant. destruct (is_register name) eqn:IR.
  { split; [exact T|]. split; [apply keeps_refl|reflexivity]. }
  destruct (realm_table st r) as [t|] eqn:ER; [|contradiction].
  destruct (tbl_get t name).
  - split; [exact T|]. split; [apply keeps_refl|discriminate].
  - split; [eapply tinv_set_realm; eauto; intros; apply regs_ok_set; assumption|].
    split; [eapply keeps_set_realm; eauto|discriminate].
Qed.

Lemma infile_local st : infile st -> realm_table st RLocal <> None.
Proof. intros (A & _). exact A. Qed.
Lemma global_some st : realm_table st RGlobal <> None.
Proof. discriminate. Qed.
Lemma realm_some st r : infile st -> realm_table st r <> None.
Proof. intros I. destruct r; [apply global_some|apply infile_local; exact I]. Qed.

(* a name that is in a table is not a register name *)
Lemma lookup_not_reg st name r : tinv st -> realm_table st r <> None ->
  match get_constant st name r with
  | Some EvalModel.NotFound => True
  | Some _ => is_register name = false
  | None => False
  end.
Proof.
  intros (G & L) NR. unfold get_constant. destruct (realm_table st r) as [t|] eqn:E; [|contradiction].
  assert (RT : regs_ok t).
  { destruct r; cbn in E; [inversion E; subst; exact G|rewrite E in L; exact L]. }
  unfold lookup_of. destruct (tbl_get t name) as [[z|]|] eqn:GT; auto; eapply regs_ok_get; eauto.
Qed.

Lemma add_task_local_q st t : tinv st -> infile st -> qpost st (add_task st t RLocal).
Proof.
  intros T (A & B & C). unfold add_task. destruct (local_tasks st) as [l|] eqn:E; [|contradiction].
  cbn [qpost]. split; [exact T|]. split; [reflexivity|]. split; [tauto|]. cbn. rewrite E. split; [split; discriminate|].
  exists []. rewrite app_nil_r. split; [reflexivity|constructor].
Qed.
Lemma add_task_global_q st t : tinv st -> plain t -> qpost st (add_task st t RGlobal).
Proof.
  intros T P. cbn [add_task qpost]. split; [exact T|]. split; [reflexivity|]. split; [tauto|]. split; [tauto|].
  exists [t]. split; [reflexivity|]. constructor; [exact P|constructor].
Qed.

(* ================================================================ instructions and data statements *)
Lemma assemble_instr_q dbg st s line col name args : tinv st -> infile st -> active st = Active s ->
  qpost st (assemble_instr dbg st line col name args).
Proof.
  intros T I EA. unfold assemble_instr. rewrite EA.
  pose proof (has_remaining_sq dbg s 2) as HR. destruct (has_remaining dbg s 2) as [[|]| |]; cbn [sq] in *; try exact HR; try exact Logic.I.
  2:{ apply eqs_qpost; [exact T|eqs_tac]. }
  destruct (AsmStmtModel.template name) as [t|]; [|apply eqs_qpost; [exact T|eqs_tac]].
  set (ai := mkAI _ _ _ _ _ _).
  pose proof (instr_assemble_s st ai true (infile_ev_ok _ I)) as IA.
  destruct (instr_assemble st ai true) as [[op ai'] st1| |]; [|contradiction|contradiction]. cbn [bind].
  pose proof (eqs_tinv _ _ IA T) as T1. pose proof (eqs_infile _ _ IA I) as I1.
  apply (qpost_weaken st st1); [apply eqs_keeps; exact IA|].
  assert (D : qpost st1 (do w, st2 <- write_instr dbg st1 ai' true;
                         match w with
                         | Some l => Ret (Some l) st2
                         | None => do _, st3 <- add_task st2 (InstrTask ai' false) RLocal; Ret None st3
                         end)).
  { apply qpost_bind; [apply spost_qpost; [exact T1|apply write_instr_s]|]. intros w st2 T2 K2.
    destruct w; [split; [exact T2|apply keeps_refl]|].
    apply qpost_bind; [apply add_task_local_q; [exact T2|eapply infile_keeps; eauto]|].
    intros _ st3 T3 K3. split; [exact T3|apply keeps_refl]. }
  destruct op; [apply spost_qpost; [exact T1|apply write_instr_s]|exact D|exact D].
Qed.

Lemma dir_data_q dbg st line col k args : tinv st -> infile st -> qpost st (dir_data dbg st line col k args).
Proof.
  intros T I. unfold dir_data. destruct (active st) as [|s]; [apply eqs_qpost; [exact T|eqs_tac]|].
  pose proof (has_remaining_sq dbg s (dk_size k)) as HR.
  destruct (has_remaining dbg s (dk_size k)) as [[|]| |]; cbn [sq] in *; try exact HR; try exact Logic.I.
  2:{ apply eqs_qpost; [exact T|eqs_tac]. }
  destruct (arity_check st line col args 1) as [st'|] eqn:A.
  { apply eqs_qpost; [exact T|eapply arity_some; eauto]. }
  apply arity_none in A. destruct args as [|a rest]; [discriminate|].
  apply qpost_bind; [apply spost_qpost; [exact T|apply data_apply_s; apply infile_ev_ok; exact I]|].
  intros [op d'] st1 T1 K1.
  assert (D : qpost st1 (do w, st2 <- write_data dbg st1 d' (padding (dk_size k));
                         match w with
                         | Some l => Ret (Some l) st2
                         | None => do _, st3 <- add_task st2 (DataTask d' false) RLocal; Ret None st3
                         end)).
  { apply qpost_bind; [apply spost_qpost; [exact T1|apply write_data_s]|]. intros w st2 T2 K2.
    destruct w; [split; [exact T2|apply keeps_refl]|].
    apply qpost_bind; [apply add_task_local_q; [exact T2|]|].
    - eapply infile_keeps; [|exact K2]. eapply infile_keeps; eauto.
    - intros _ st3 T3 K3. split; [exact T3|apply keeps_refl]. }
  destruct op; [split; [exact T1|apply keeps_refl]|exact D|exact D].
Qed.

(* ================================================================ the other directives *)
Lemma dir_addr_q dbg st line col args : tinv st -> infile st -> qpost st (dir_addr dbg st line col args).
Proof.
  intros T I. unfold dir_addr. destruct (arity_check st line col args 1) as [st'|] eqn:A.
  { apply eqs_qpost; [exact T|eapply arity_some; eauto]. }
  apply arity_none in A. destruct args as [|a rest]; [discriminate|].
  pose proof (eval_now_s st line col a (infile_ev_ok _ I)) as E.
  destruct (eval_now st line col a) as [r st1| |]; [|contradiction|contradiction]. cbn [bind].
  apply spost_qpost; [exact T|]. destruct r as [a'|lv]; [|exact E].
  destruct a'; try (eapply eqs_trans; [exact E|eqs_tac]).
  destruct (u32_of v) as [tgt|]; [|eapply eqs_trans; [exact E|eqs_tac]].
  pose proof (change_segment_s dbg st1 tgt) as C. destruct (change_segment dbg st1 tgt) as [c st2|p|]; cbn [bind spost] in *; auto; try exact Logic.I.
  destruct c; (eapply eqs_trans; [exact E|]); (eapply eqs_trans; [exact C|eqs_tac]).
Qed.

Lemma dir_align_q dbg st line col args : tinv st -> infile st -> qpost st (dir_align dbg st line col args).
Proof.
  intros T I. apply spost_qpost; [exact T|]. unfold dir_align. destruct (active st) as [|s]; [eqs_tac|].
  destruct (arity_check st line col args 1) as [st'|] eqn:A; [eapply arity_some; eauto|].
  apply arity_none in A. destruct args as [|a rest]; [discriminate|].
  pose proof (eval_now_s st line col a (infile_ev_ok _ I)) as E.
  destruct (eval_now st line col a) as [r st1| |]; [|contradiction|contradiction]. cbn [bind].
  destruct r as [a'|lv]; [|exact E].
  destruct a'; try (eapply eqs_trans; [exact E|eqs_tac]).
  destruct (u32_of v) as [[|p]|]; try (eapply eqs_trans; [exact E|eqs_tac]).
  destruct (_ =? 0)%N; [exact E|].
  match goal with |- spost _ (match has_remaining ?d ?s ?n with _ => _ end) =>
    pose proof (has_remaining_sq d s n) as HR; destruct (has_remaining d s n) as [[|]| |]; cbn [sq] in *; try exact HR; try exact Logic.I end.
  - pose proof (seg_update_s st1 line col _ (seg_write_sq dbg s (padding (N.pos p - curr_addr s mod N.pos p)))) as U.
    match goal with |- spost _ ?r => destruct r; cbn [spost] in *; auto end. eapply eqs_trans; eauto.
  - eapply eqs_trans; [exact E|eqs_tac].
Qed.

Lemma dir_const_q st line col args : tinv st -> infile st -> qpost st (dir_const st line col args).
Proof.
  intros T I. unfold dir_const. destruct (arity_check st line col args 2) as [st'|] eqn:A.
  { apply eqs_qpost; [exact T|eapply arity_some; eauto]. }
  apply arity_none in A. destruct args as [|a0 [|a1 rest]]; try discriminate.
  destruct a0; try (apply eqs_qpost; [exact T|eqs_tac]).
  pose proof (eval_now_s st line col a1 (infile_ev_ok _ I)) as E.
  destruct (eval_now st line col a1) as [r st1| |]; [|contradiction|contradiction]. cbn [bind].
  pose proof (eqs_tinv _ _ E T) as T1. pose proof (eqs_infile _ _ E I) as I1.
  apply (qpost_weaken st st1); [apply eqs_keeps; exact E|].
  destruct r as [a'|lv]; [|split; [exact T1|apply keeps_refl]].
  destruct a'; try (apply eqs_qpost; [exact T1|eqs_tac]).
  pose proof (insert_constant_q st1 s v RLocal T1 (infile_local _ I1)) as Q.
  destruct (insert_constant st1 s v RLocal) as [x st2| |]; [|contradiction|contradiction]. cbn [bind].
  destruct Q as (T2 & K2 & _). apply (qpost_weaken st1 st2); [exact K2|].
  destruct x as [b|[|]]; [split; [exact T2|apply keeps_refl]|apply eqs_qpost; [exact T2|eqs_tac]..].
Qed.

Lemma dir_bytes_q dbg fs st line col d args : tinv st -> infile st -> qpost st (dir_bytes dbg fs st line col d args).
Proof.
  intros T I. apply spost_qpost; [exact T|]. unfold dir_bytes. destruct (active st) as [|s]; [eqs_tac|].
  destruct (arity_check st line col args 1) as [st'|] eqn:A; [eapply arity_some; eauto|].
  apply arity_none in A. destruct args as [|a rest]; [discriminate|].
  destruct a; try eqs_tac.
  destruct d; try (apply seg_update_s; apply seg_write_sq).
  - destruct (hex_decode _ _ _); try eqs_tac. apply seg_update_s. apply seg_write_sq.
  - destruct I as (_ & _ & P). destruct (path_stack st) as [|curr ps]; [contradiction|].
    destruct (fs _) as [bytes|]; [|eqs_tac].
    pose proof (has_remaining_sq dbg s (len bytes)) as HR.
    destruct (has_remaining dbg s (len bytes)) as [[|]| |]; cbn [sq] in *; try exact HR; try exact Logic.I; [|eqs_tac].
    apply seg_update_s. apply write_chunks_sq.
Qed.

Lemma dir_global_q st line col d args : tinv st -> infile st -> qpost st (dir_global st line col d args).
Proof.
  intros T I. unfold dir_global. destruct (arity_check st line col args 1) as [st'|] eqn:A.
  { apply eqs_qpost; [exact T|eapply arity_some; eauto]. }
  apply arity_none in A. destruct args as [|a rest]; [discriminate|].
  destruct a; try (apply eqs_qpost; [exact T|eqs_tac]). rename s into name.
  (* .import / .export *)
  assert (X : forall ex : bool,
    qpost st (match get_constant st name (if ex then RLocal else RGlobal) with
    | Some EvalModel.NotFound => Ret (Some Fatal) (push_error st line col (KApply AGNotFound))
    | Some EvalModel.LDeferred =>
        if ex then Ret (Some Fatal) (push_error st line col (KApply AGDeferred))
        else bind (defer_constant st name (if ex then RGlobal else RLocal)) (fun r0 st1 =>
             match r0 with
             | inl _ => bind (add_task st1 (ImportCheckTask name line col) RLocal) (fun _ st2 => Ret None st2)
             | inr CDuplicate => Ret (Some Fatal) (push_error st1 line col (KApply AGDuplicate))
             | inr CReserved => Panic P_global_unreachable
             end)
    | Some (EvalModel.Found v) =>
        bind (insert_constant st name v (if ex then RGlobal else RLocal)) (fun r0 st1 =>
             match r0 with
             | inl _ => Ret None st1
             | inr CDuplicate => Ret (Some Fatal) (push_error st1 line col (KApply AGDuplicate))
             | inr CReserved => Panic P_global_unreachable
             end)
    | None => Panic P_no_local_scope
    end)).
  { intros ex.
    pose proof (lookup_not_reg st name (if ex then RLocal else RGlobal) T (realm_some _ _ I)) as NRg.
    destruct (get_constant st name (if ex then RLocal else RGlobal)) as [[v| |]|]; [| | |contradiction].
    - pose proof (insert_constant_q st name v (if ex then RGlobal else RLocal) T (realm_some _ _ I)) as Q.
      destruct (insert_constant st name v _) as [x st1| |]; [|contradiction|contradiction]. cbn [bind].
      destruct Q as (T1 & K1 & C1). apply (qpost_weaken st st1); [exact K1|].
      destruct x as [b|[|]]; [split; [exact T1|apply keeps_refl]| |apply eqs_qpost; [exact T1|eqs_tac]].
      rewrite C1 in NRg by reflexivity. discriminate.
    - destruct ex; [apply eqs_qpost; [exact T|eqs_tac]|].
      pose proof (defer_constant_q st name RLocal T (realm_some _ _ I)) as Q.
      destruct (defer_constant st name RLocal) as [x st1| |]; [|contradiction|contradiction]. cbn [bind].
      destruct Q as (T1 & K1 & C1). apply (qpost_weaken st st1); [exact K1|].
      destruct x as [b|[|]]; [|rewrite C1 in NRg by reflexivity; discriminate|apply eqs_qpost; [exact T1|eqs_tac]].
      apply qpost_bind; [apply add_task_local_q; [exact T1|eapply infile_keeps; eauto]|].
      intros _ st2 T2 K2. split; [exact T2|apply keeps_refl].
    - apply eqs_qpost; [exact T|eqs_tac]. }
  destruct d; try (exact (X true)); try (exact (X false)). clear X.
  (* .global *)
  unfold defer_constant at 1. destruct (is_register name) eqn:IR; cbn [bind].
  { apply eqs_qpost; [exact T|eqs_tac]. }
  cbn [realm_table]. destruct (tbl_get (globals st) name) eqn:GG; cbn [bind].
  { apply eqs_qpost; [exact T|eqs_tac]. }
  set (st1 := set_realm_table st RGlobal (tbl_set (globals st) name None)).
  assert (T1 : tinv st1) by (eapply tinv_set_realm; [exact T|reflexivity|]; intros; apply regs_ok_set; assumption).
  assert (K1 : keeps st st1) by (eapply keeps_set_realm; reflexivity).
  assert (I1 : infile st1) by (eapply infile_keeps; eauto).
  apply (qpost_weaken st st1); [exact K1|].
  assert (GS : tbl_get (globals st1) name = Some None).
  { unfold st1. cbn. rewrite tget_set, str_eqb_same. reflexivity. }
  assert (TAIL : forall st2, tinv st2 -> infile st2 ->
            qpost st2 (do _, st3 <- add_task st2 (GlobalTask name line col) RLocal; Ret (@None level) st3)).
  { intros st2 T2 I2. apply qpost_bind; [apply add_task_local_q; assumption|].
    intros _ st3 T3 K3. split; [exact T3|apply keeps_refl]. }
  unfold get_constant. destruct I1 as (L1 & I1b). destruct (realm_table st1 RLocal) as [lt|] eqn:EL; [|contradiction].
  assert (I1 : infile st1) by (split; assumption).
  unfold lookup_of. destruct (tbl_get lt name) as [[v|]|] eqn:GL.
  - unfold insert_constant. rewrite IR. cbn [realm_table]. rewrite GS. cbn [bind qpost].
    split; [|eapply keeps_set_realm; reflexivity].
    eapply tinv_set_realm; [exact T1|reflexivity|]. intros; apply regs_ok_set; assumption.
  - cbn [bind]. apply TAIL; assumption.
  - unfold defer_constant. rewrite IR, EL, GL. cbn [bind].
    set (st2 := set_realm_table st1 RLocal (tbl_set lt name None)).
    assert (T2 : tinv st2) by (eapply tinv_set_realm; [exact T1|exact EL|]; intros; apply regs_ok_set; assumption).
    assert (K2 : keeps st1 st2) by (eapply keeps_set_realm; exact EL).
    apply (qpost_weaken st1 st2); [exact K2|]. apply TAIL; [exact T2|eapply infile_keeps; eauto].
Qed.

(* ================================================================ .include, statements, files *)
Definition inc_q (inc : state -> list N -> str -> res result) : Prop :=
  forall st data path, tinv st -> qpost st (inc st data path).

Lemma dir_include_q fs inc st line col args : inc_q inc -> tinv st -> infile st -> qpost st (dir_include fs inc st line col args).
Proof.
  intros IO T I. unfold dir_include. destruct (arity_check st line col args 1) as [st'|] eqn:A.
  { apply eqs_qpost; [exact T|eapply arity_some; eauto]. }
  apply arity_none in A. destruct args as [|a rest]; [discriminate|].
  destruct a; try (apply eqs_qpost; [exact T|eqs_tac]).
  cbv zeta. destruct (existsb _ _); [apply eqs_qpost; [exact T|eqs_tac]|].
  destruct (fs _) as [data|]; [|apply eqs_qpost; [exact T|eqs_tac]].
  apply qpost_bind; [apply IO; exact T|]. intros r st1 T1 K1.
  destruct r; [apply eqs_qpost; [exact T1|eqs_tac]|split; [exact T1|apply keeps_refl]].
Qed.

Lemma process_directive_q dbg fs inc st line col name args : inc_q inc -> tinv st -> infile st ->
  qpost st (process_directive dbg fs inc st line col name args).
Proof.
  intros IO T I. unfold process_directive. destruct (dir_of name) as [[]|];
    auto using dir_addr_q, dir_align_q, dir_const_q, dir_data_q, dir_bytes_q, dir_global_q, dir_include_q.
  apply eqs_qpost; [exact T|eqs_tac].
Qed.

Theorem step_q dbg fs inc st e : inc_q inc -> tinv st -> infile st -> qpost st (step dbg fs inc st e).
Proof.
  intros IO T I. unfold step. cbv zeta. destruct (e_val e).
  - destruct (active st) as [|s]; [apply eqs_qpost; [exact T|eqs_tac]|].
    pose proof (insert_constant_q st name (Z.of_N (curr_addr s)) RLocal T (infile_local _ I)) as Q.
    destruct (insert_constant st name _ RLocal) as [x st1| |]; [|contradiction|contradiction]. cbn [bind].
    destruct Q as (T1 & K1 & _). apply (qpost_weaken st st1); [exact K1|].
    destruct x as [b|[|]]; [split; [exact T1|apply keeps_refl]|apply eqs_qpost; [exact T1|eqs_tac]..].
  - apply process_directive_q; assumption.
  - destruct (active st) as [|s] eqn:EA; [apply eqs_qpost; [exact T|eqs_tac]|].
    eapply assemble_instr_q; eauto.
Qed.

Lemma run_items_q dbg fs inc items : inc_q inc -> forall st, tinv st -> infile st -> qpost st (run_items dbg fs inc items st).
Proof.
  intros IO. induction items as [|i rest IH]; intros st T I; cbn [run_items].
  - split; [exact T|apply keeps_refl].
  - destruct i; [|apply eqs_qpost; [exact T|eqs_tac]].
    apply qpost_bind; [apply step_q; assumption|]. intros r st1 T1 K1.
    destruct r; [split; [exact T1|apply keeps_refl]|]. apply IH; [exact T1|eapply infile_keeps; eauto].
Qed.

(* the tokenizer and the parser are total (C10) *)
Lemma parse_source_total data : exists items, parse_source data = Parsed items None.
Proof.
  unfold parse_source.
  destruct (TokenProofs.tok_total data) as (its & Ht). unfold TokenModel.tokens_all, TokenModel.tokens_rem in Ht.
  destruct (TokenModel.unfold_rem (length data + 2) (TokenModel.tok_new data)) as [[toks tst]|n|]; try discriminate Ht.
  match goal with |- context [ParseModel.parse_all ?s] =>
    destruct (ParseProofs.parse_total s) as (F & P); destruct (ParseModel.parse_all s) as [items after|items|] end.
  - eauto.
  - exfalso. exact (P items eq_refl).
  - exfalso. exact (F eq_refl).
Qed.

Lemma do_assemble_q dbg fs inc st data : inc_q inc -> tinv st -> infile st -> qpost st (do_assemble dbg fs inc st data).
Proof.
  intros IO T I. unfold do_assemble. destruct (parse_source_total data) as (items & ->).
  apply qpost_bind; [apply run_items_q; assumption|]. intros r st1 T1 K1.
  destruct r; split; try exact T1; apply keeps_refl.
Qed.

(* ================================================================ tasks *)
Lemma run_task_q dbg st t : tinv st -> infile st \/ (path_stack st = [] /\ plain t) -> qpost st (run_task dbg st t).
Proof.
  intros T H.
  assert (EV : ev_ok st) by (destruct H as [I|(P & _)]; [apply infile_ev_ok; exact I|apply top_ev_ok; exact P]).
  destruct t as [ai g|d g|name line col|name line col]; cbn [run_task].
  - pose proof (instr_assemble_s st ai false EV) as IA.
    destruct (instr_assemble st ai false) as [[op ai'] st1| |]; [|contradiction|contradiction]. cbn [bind].
    pose proof (eqs_tinv _ _ IA T) as T1. apply (qpost_weaken st st1); [apply eqs_keeps; exact IA|].
    destruct op.
    + apply spost_qpost; [exact T1|apply write_instr_s].
    + destruct g; [apply eqs_qpost; [exact T1|eqs_tac]|].
      apply qpost_bind; [apply add_task_global_q; [exact T1|exact Logic.I]|]. intros _ st2 T2 K2. split; [exact T2|apply keeps_refl].
    + split; [exact T1|apply keeps_refl].
  - apply qpost_bind; [apply spost_qpost; [exact T|apply data_apply_s; exact EV]|]. intros [op d'] st1 T1 K1.
    destruct op.
    + split; [exact T1|apply keeps_refl].
    + destruct g; [apply eqs_qpost; [exact T1|eqs_tac]|].
      apply qpost_bind; [apply add_task_global_q; [exact T1|exact Logic.I]|]. intros _ st2 T2 K2. split; [exact T2|apply keeps_refl].
    + split; [exact T1|apply keeps_refl].
  - destruct H as [I|(_ & P)]; [|destruct P].
    pose proof (lookup_not_reg st name RLocal T (infile_local _ I)) as NRg.
    destruct (get_constant st name RLocal) as [[v| |]|]; [| | |contradiction]; try (apply eqs_qpost; [exact T|eqs_tac]).
    pose proof (insert_constant_q st name v RGlobal T (global_some st)) as Q.
    destruct (insert_constant st name v RGlobal) as [x st1| |]; [|contradiction|contradiction]. cbn [bind].
    destruct Q as (T1 & K1 & C1). apply (qpost_weaken st st1); [exact K1|].
    destruct x as [b|[|]]; [split; [exact T1|apply keeps_refl]| |apply eqs_qpost; [exact T1|eqs_tac]].
    rewrite C1 in NRg by reflexivity. discriminate.
  - destruct H as [I|(_ & P)]; [|destruct P].
    pose proof (lookup_not_reg st name RLocal T (infile_local _ I)) as NRg.
    destruct (get_constant st name RLocal) as [[v| |]|]; [| | |contradiction]; apply eqs_qpost; try exact T; eqs_tac.
Qed.

Lemma local_round_q dbg tasks : forall st r, tinv st -> infile st -> qpost st (local_round dbg tasks st r).
Proof.
  induction tasks as [|t rest IH]; intros st r T I; cbn [local_round].
  - split; [exact T|apply keeps_refl].
  - apply qpost_bind; [apply run_task_q; [exact T|left; exact I]|]. intros x st1 T1 K1.
    pose proof (infile_keeps _ _ I K1) as I1.
    destruct x as [lvl|]; [|apply IH; assumption].
    destruct (is_fatal lvl); [split; [exact T1|apply keeps_refl]|apply IH; assumption].
Qed.

Lemma set_local_tasks_q st l : tinv st -> infile st ->
  tinv (set_local_tasks st (Some l)) /\ keeps st (set_local_tasks st (Some l)) /\ infile (set_local_tasks st (Some l)).
Proof.
  intros T (A & B & C). split; [exact T|]. split.
  - split; [reflexivity|]. split; [tauto|]. cbn. split; [split; [discriminate|intros E; contradiction]|].
    exists []. rewrite app_nil_r. split; [reflexivity|constructor].
  - split; [exact A|]. split; [discriminate|exact C].
Qed.

Lemma local_loop_q dbg rounds : forall tasks st r, tinv st -> infile st -> qpost st (local_loop dbg rounds tasks st r).
Proof.
  induction rounds as [|k IH]; intros tasks st r T I; cbn [local_loop].
  - destruct tasks; [split; [exact T|apply keeps_refl]|exact Logic.I].
  - destruct tasks as [|t0 tl]; [split; [exact T|apply keeps_refl]|].
    apply qpost_bind; [apply local_round_q; assumption|]. intros r' st1 T1 K1.
    pose proof (infile_keeps _ _ I K1) as I1.
    destruct (local_tasks st1) as [newt|] eqn:EL; [|destruct I1 as (_ & B & _); contradiction].
    destruct (set_local_tasks_q st1 [] T1 I1) as (T2 & K2 & I2).
    apply (qpost_weaken st1 _ _ K2).
    destruct (res_is_fatal r'); [split; [exact T2|apply keeps_refl]|apply IH; assumption].
Qed.

(* ================================================================ Context::assemble *)
Lemma assemble_body_q dbg fs inc st data path : inc_q inc -> tinv st -> qpost st (assemble_body dbg fs inc st data path).
Proof.
  intros IO (TG & TL). unfold assemble_body, enter_file.
  set (st0 := mkState _ _ _ _ _ _ _ _ _). set (fr := mkFrame _ _ _ _).
  assert (T0 : tinv st0).
  { split; cbn; [|apply regs_ok_nil]. destruct (locals st); assumption. }
  assert (I0 : infile st0) by (split; [|split]; cbn; discriminate).
  pose proof (do_assemble_q dbg fs inc st0 data IO T0 I0) as D.
  destruct (do_assemble dbg fs inc st0 data) as [r st1|p|]; cbn [bind qpost] in *; auto.
  destruct D as (T1 & K1). pose proof (infile_keeps _ _ I0 K1) as I1.
  assert (L : qpost st1 (if res_is_fatal r then Ret r st1
                         else match local_tasks st1 with
                              | None => Panic P_local_tasks_unwrap
                              | Some tasks => local_loop dbg task_rounds tasks (set_local_tasks st1 (Some [])) r
                              end)).
  { destruct (res_is_fatal r); [split; [exact T1|apply keeps_refl]|].
    destruct (local_tasks st1) as [tasks|] eqn:EL; [|destruct I1 as (_ & B & _); contradiction].
    destruct (set_local_tasks_q st1 [] T1 I1) as (T2 & K2 & I2).
    apply (qpost_weaken st1 _ _ K2). apply local_loop_q; assumption. }
  match type of L with qpost _ ?x => destruct x as [r' st2|p|]; cbn [bind qpost] in *; auto end.
  destruct L as (T2 & K2). pose proof (keeps_trans _ _ _ K1 K2) as K02.
  destruct K02 as (P2 & L2 & LT2 & l & G2 & F2). destruct T2 as (TG2 & TL2).
  unfold leave_file. rewrite P2. cbn [path_stack st0 f_count fr]. rewrite Nat.eqb_refl. cbn [negb bind qpost].
  split.
  - split; cbn [globals locals f_constants fr].
    + destruct (locals st); assumption.
    + destruct (locals st); [exact TG2|exact Logic.I].
  - split; [reflexivity|]. cbn [globals locals local_tasks global_tasks f_constants f_tasks fr].
    split; [destruct (locals st); split; congruence|].
    split; [destruct (local_tasks st); split; congruence|].
    destruct (local_tasks st) as [lt|].
    + exists []. rewrite app_nil_r. split; [reflexivity|constructor].
    + exists l. split; [exact G2|exact F2].
Qed.

Theorem assemble_q dbg fs fuel : inc_q (assemble dbg fs fuel).
Proof.
  induction fuel as [|f IH]; intros st data path T; cbn [assemble]; [exact Logic.I|].
  apply assemble_body_q; assumption.
Qed.

(* ================================================================ finalize and the pipeline *)
Lemma final_round_q dbg tasks : forall st, tinv st -> path_stack st = [] -> Forall plain tasks -> qpost st (final_round dbg tasks st).
Proof.
  induction tasks as [|t rest IH]; intros st T P F; cbn [final_round].
  - split; [exact T|apply keeps_refl].
  - inversion F as [|? ? Pt Fr]; subst.
    apply qpost_bind; [apply run_task_q; [exact T|right; split; assumption]|]. intros x st1 T1 K1.
    destruct (res_is_fatal x); [split; [exact T1|apply keeps_refl]|].
    apply IH; [exact T1| |exact Fr]. destruct K1 as (P1 & _). congruence.
Qed.

Definition no_bad_panic {A} (r : res A) : Prop := match r with Panic p => seg_site p | _ => True end.

Lemma final_loop_q dbg rounds : forall tasks st, tinv st -> path_stack st = [] -> Forall plain tasks -> global_tasks st = [] ->
  no_bad_panic (final_loop dbg rounds tasks st).
Proof.
  induction rounds as [|k IH]; intros tasks st T P F G; cbn [final_loop].
  - destruct tasks; exact Logic.I.
  - destruct tasks as [|t0 tl]; [exact Logic.I|].
    pose proof (final_round_q dbg (t0 :: tl) st T P F) as R.
    destruct (final_round dbg (t0 :: tl) st) as [abort st1|p|]; cbn [bind qpost no_bad_panic] in *; auto.
    destruct R as (T1 & P1 & _ & _ & l & G1 & F1). rewrite G in G1. cbn [app] in G1.
    destruct abort; [exact Logic.I|]. apply IH; [exact T1|cbn; congruence|rewrite G1; exact F1|reflexivity].
Qed.

Lemma finalize_q dbg st : tinv st -> path_stack st = [] -> Forall plain (global_tasks st) -> no_bad_panic (finalize dbg st).
Proof.
  intros T P F. unfold finalize.
  pose proof (final_loop_q dbg task_rounds (global_tasks st) (set_global_tasks st []) T P F eq_refl) as L.
  destruct (final_loop _ _ _ _); cbn [bind no_bad_panic] in *; auto.
Qed.

Lemma tinv_init : tinv init_state. Proof. split; [apply regs_ok_nil|exact Logic.I]. Qed.

Theorem pipeline_state_q dbg fs fuel path text : no_bad_panic (pipeline_state dbg fs fuel path text).
Proof.
  unfold pipeline_state.
  pose proof (assemble_q dbg fs fuel init_state text path tinv_init) as A.
  destruct (assemble dbg fs fuel init_state text path) as [r st1|p|]; cbn [bind qpost no_bad_panic] in *; auto.
  destruct A as (T1 & P1 & _ & _ & l & G1 & F1). cbn in P1, G1.
  pose proof (close_segment_s dbg st1) as C.
  destruct (close_segment dbg st1) as [c st2|p|]; cbn [bind spost no_bad_panic] in *; auto.
  destruct c; [|exact Logic.I].
  pose proof (finalize_q dbg st2) as Fz.
  destruct C as (E1 & E2 & E3 & E4 & E5).
  specialize (Fz (eqs_tinv _ _ (conj E1 (conj E2 (conj E3 (conj E4 E5)))) T1)).
  rewrite E5, E3, G1 in Fz. specialize (Fz P1 F1).
  destruct (finalize dbg st2); cbn [bind no_bad_panic] in *; auto.
Qed.

(* C06_never_panics: the pipeline never panics, in either build profile, for every project, root path, source text
   and include-depth fuel.  Segment / map sites are excluded by C13 (pipeline_inv), all others by the scope invariant. *)
Theorem never_panics dbg fs fuel path text p : pipeline_gen dbg fs fuel path text <> PPanic p.
Proof.
  unfold pipeline_gen. pose proof (pipeline_state_q dbg fs fuel path text) as Q.
  pose proof (CtxInvTop.pipeline_inv dbg fs fuel path text) as C.
  destruct (pipeline_state dbg fs fuel path text) as [s st|q|]; try discriminate.
  intros _. exact (C Q).
Qed.
