(* C14, the converse direction, part 3: a run that returns Ok produces a FINE tree (Asm/ScopeVerdictFine.v).
   Per name y the statements of an open file seen so far (`pre`, the oracle's items) and the state (own table, includer's table,
   deferred tasks) are in one of seven situations (`cls`):
     CN  nothing about y yet                       CV  y has its value (one definition), not handed up
     CIV imported with the includer's value        CID imported while the includer had only declared it (check pending)
     CGD `.global y` before any value (copy pending)   CGV ... and the value has arrived (copy still pending)
     CU  valued and handed up (the includer has the value)
   Every statement that returns Ok moves each name inside these situations, or makes the file DOOMED: a pending import check on a
   name that now has a value / a pending `.global` copy of a name the includer already has valued - then a deferred task fails at
   the end of the file, so a file that returns Ok was never doomed (doom persists).
   FileP: by induction on the include depth, for every file instance whose Context::assemble returns Ok: the tree is fine
   (w.r.t. the names present in the includer's table at entry), the includer's table afterwards is unchanged at names the file
   does not hand up and has a value at the names it does (where it had none before).
   Proof file (no model definitions). *)
From Coq Require Import ZArith NArith List Bool Lia.
From Trion Require Import Text.Types.
From Trion Require Text.ParseModel Arm.AsmStmtModel Expr.EvalModel.
From Trion Require Import Asm.CtxModel Asm.CtxInvDefs Asm.CtxInvStep Asm.CtxInvTop.
From Trion Require Import Asm.ScopeProofs Asm.ScopeProofs2 Asm.ScopeIso Asm.ScopeRefine.
From Trion Require Import Asm.ScopeText Asm.ScopeLink Asm.ScopeLinkSeg Asm.ScopeLinkOcc Asm.ScopeLinkTop Asm.ScopeLinkReg.
From Trion Require Import Asm.ScopeVerdictFine Asm.ScopeVerdictStep.
Import ListNotations.

Local Arguments Z.mul : simpl never.
Local Arguments Z.add : simpl never.
Local Arguments N.mul : simpl never.
Local Arguments N.add : simpl never.

Lemma str_dec (a b : str) : {a = b} + {a <> b}.
Proof. apply list_eq_dec. apply N.eq_dec. Qed.

(* ------------------------------------------------------------------ the situations of one name *)
Inductive cls := CN | CV | CIV | CID | CGD | CGV | CU.

Definition consistent (G0 : table) (pre : list SP.item) (s : state) (y : str) (c : cls) : Prop :=
  match c with
  | CN => tget s y = None /\ gget s y = tbl_get G0 y /\ nv pre y = 0%nat /\ ni pre y = 0%nat /\ nu pre y = 0%nat /\ ~ gtk s y
  | CV => valued (tget s y) /\ gget s y = tbl_get G0 y /\ nv pre y = 1%nat /\ ni pre y = 0%nat /\ nu pre y = 0%nat /\ ~ gtk s y
  | CIV => valued (tget s y) /\ gget s y = tbl_get G0 y /\ valued (tbl_get G0 y) /\
           nv pre y = 0%nat /\ ni pre y = 1%nat /\ nu pre y = 0%nat /\ ~ gtk s y
  | CID => tget s y = Some None /\ gget s y = tbl_get G0 y /\ tbl_get G0 y = Some None /\ ict s y /\
           nv pre y = 0%nat /\ ni pre y = 1%nat /\ nu pre y = 0%nat /\ ~ gtk s y
  | CGD => tget s y = Some None /\ gget s y = Some None /\ tbl_get G0 y = None /\ gtk s y /\
           nv pre y = 0%nat /\ ni pre y = 0%nat /\ nu pre y = 1%nat
  | CGV => valued (tget s y) /\ gget s y = Some None /\ tbl_get G0 y = None /\ gtk s y /\
           nv pre y = 1%nat /\ ni pre y = 0%nat /\ nu pre y = 1%nat
  | CU => valued (tget s y) /\ valued (gget s y) /\ ~ valued (tbl_get G0 y) /\
          nv pre y = 1%nat /\ ni pre y = 0%nat /\ nu pre y = 1%nat
  end.

Definition GoodAll (G0 : table) (pre : list SP.item) (s : state) : Prop := forall y, exists c, consistent G0 pre s y c.
Definition UI (pre : list SP.item) (s : state) : Prop := forall y k, In (SP.IUse y k) pre -> tget s y <> None \/ dtk s y.
Definition doom (s : state) : Prop := exists y, (ict s y /\ valued (tget s y)) \/ (gtk s y /\ valued (gget s y)).
Definition CF (d : nat) (pre : list SP.item) : Prop := forall c, In (SP.IChild c) pre -> fine d (mentioned pre) c.

Lemma valued_some v : valued (Some (Some v)). Proof. exists v. reflexivity. Qed.
Lemma not_valued_none : ~ valued None. Proof. intros (v & H). discriminate H. Qed.
Lemma not_valued_decl : ~ valued (Some None). Proof. intros (v & H). discriminate H. Qed.
Lemma not_valued_all o : (forall w, o <> Some (Some w)) -> ~ valued o. Proof. intros H (v & V). exact (H v V). Qed.

Lemma in_tasks_app s s1 ex t : ltasks s1 = ltasks s ++ ex -> In t (ltasks s) -> In t (ltasks s1).
Proof. intros -> H. apply in_or_app. left. exact H. Qed.

Lemma ict_app s s1 ex y : ltasks s1 = ltasks s ++ ex -> ict s y -> ict s1 y.
Proof. intros E (l & c & H). exists l, c. eapply in_tasks_app; eauto. Qed.
Lemma gtk_app s s1 ex y : ltasks s1 = ltasks s ++ ex -> gtk s y -> gtk s1 y.
Proof. intros E (l & c & H). exists l, c. eapply in_tasks_app; eauto. Qed.
Lemma dtk_app s s1 ex y : ltasks s1 = ltasks s ++ ex -> dtk s y -> dtk s1 y.
Proof. intros E (d & H & A). exists d. split; [eapply in_tasks_app; eauto|exact A]. Qed.
Lemma gtk_app_inv s s1 ex y : ltasks s1 = ltasks s ++ ex -> (forall l c, ~ In (GlobalTask y l c) ex) -> gtk s1 y -> gtk s y.
Proof. intros E NG (l & c & H). rewrite E in H. apply in_app_or in H. destruct H as [H|H]; [exists l, c; exact H|exfalso; exact (NG l c H)]. Qed.

Lemma cnt_snoc f pre i y : sumf f (pre ++ [i]) y = (sumf f pre y + f i y)%nat.
Proof. rewrite sumf_app. cbn [sumf]. lia. Qed.

Lemma mentioned_app a b y : mentioned a y -> mentioned (a ++ b) y.
Proof. unfold mentioned, nv, ni, nu. rewrite !sumf_app. lia. Qed.

(* a name the statement does not touch stays where it is *)
Lemma consistent_frame G0 pre pre' s s1 y c :
  tget s1 y = tget s y -> gget s1 y = gget s y ->
  (exists ex, ltasks s1 = ltasks s ++ ex /\ forall l0 c0, ~ In (GlobalTask y l0 c0) ex) ->
  nv pre' y = nv pre y -> ni pre' y = ni pre y -> nu pre' y = nu pre y ->
  consistent G0 pre s y c -> consistent G0 pre' s1 y c.
Proof.
  intros T G (ex & LT & NG) V I U C.
  pose proof (ict_app s s1 ex y LT) as P1. pose proof (gtk_app s s1 ex y LT) as P2. pose proof (gtk_app_inv s s1 ex y LT NG) as P3.
  destruct c; cbn [consistent] in *; rewrite T, G, V, I, U; intuition.
Qed.

Lemma consistent_present G0 pre s y c : consistent G0 pre s y c -> tget s y <> None -> mentioned pre y.
Proof. unfold mentioned. destruct c; cbn [consistent]; intros H N; try lia. destruct H as (H & _). congruence. Qed.

Lemma doom_persist (S : nameset) s s1 : Hs S s s1 -> doom s -> doom s1.
Proof.
  intros H (y & D). destruct (hs_persist _ _ _ H) as (_ & TV & GV & (ex & LT) & _). exists y.
  destruct D as [(A & B)|(A & B)]; [left|right]; (split; [|auto]); [eapply ict_app|eapply gtk_app]; eauto.
Qed.

(* ------------------------------------------------------------------ the statement's own name *)
Ltac vfalse :=
  exfalso;
  repeat match goal with H : valued _ |- _ => destruct H as (? & H) end;
  solve [ congruence
        | match goal with N : forall w, _ <> Some (Some w) |- _ => eapply N; solve [eassumption|congruence] end
        | match goal with N : ~ valued _ |- _ => apply N; eexists; solve [eassumption|congruence] end ].

Lemma trans_def G0 pre s s1 x v c : E_def x v s s1 -> consistent G0 pre s x c ->
  (exists c', consistent G0 (pre ++ [SP.IDef x v]) s1 x c') \/ doom s1.
Proof.
  intros (R & NV & T1 & G1 & LT & _) C.
  assert (KV : nv (pre ++ [SP.IDef x v]) x = S (nv pre x)) by (unfold nv; rewrite cnt_snoc; cbn [dv]; rewrite sp_eqb_refl; cbn [b2n]; lia).
  assert (KI : ni (pre ++ [SP.IDef x v]) x = ni pre x) by (unfold ni; rewrite cnt_snoc; cbn [di]; lia).
  assert (KU : nu (pre ++ [SP.IDef x v]) x = nu pre x) by (unfold nu; rewrite cnt_snoc; cbn [du]; lia).
  assert (GT : gtk s1 x <-> gtk s x) by (unfold gtk; rewrite LT; tauto).
  assert (IT : ict s1 x <-> ict s x) by (unfold ict; rewrite LT; tauto).
  destruct c; cbn [consistent] in C.
  - destruct C as (T & G & V0 & I0 & U0 & NG). left. exists CV. cbn [consistent]. rewrite T1, G1, KV, KI, KU, V0.
    repeat split; auto using valued_some. tauto.
  - destruct C as (T & _). vfalse.
  - destruct C as (T & _). vfalse.
  - destruct C as (T & G & GD & IC & _). right. exists x. left. split; [tauto|rewrite T1; apply valued_some].
  - destruct C as (T & G & GD & GK & V0 & I0 & U0). left. exists CGV. cbn [consistent]. rewrite T1, G1, KV, KI, KU, V0.
    repeat split; auto using valued_some. tauto.
  - destruct C as (T & _). vfalse.
  - destruct C as (T & _). vfalse.
Qed.

Lemma trans_import G0 pre s s1 x c : E_import x s s1 -> consistent G0 pre s x c ->
  (exists c', consistent G0 (pre ++ [SP.IImport x]) s1 x c') \/ doom s1.
Proof.
  intros (R & G1 & _ & CASES) C.
  assert (KV : nv (pre ++ [SP.IImport x]) x = nv pre x) by (unfold nv; rewrite cnt_snoc; cbn [dv]; lia).
  assert (KI : ni (pre ++ [SP.IImport x]) x = S (ni pre x)) by (unfold ni; rewrite cnt_snoc; cbn [di]; rewrite sp_eqb_refl; cbn [b2n]; lia).
  assert (KU : nu (pre ++ [SP.IImport x]) x = nu pre x) by (unfold nu; rewrite cnt_snoc; cbn [du]; lia).
  destruct CASES as [(v & GV & NV & T1 & LT)|(GD & T0 & T1 & l & c0 & LT)].
  - assert (GT : gtk s1 x <-> gtk s x) by (unfold gtk; rewrite LT; tauto).
    destruct c; cbn [consistent] in C.
    + destruct C as (T & G & V0 & I0 & U0 & NG). left. exists CIV. cbn [consistent]. rewrite T1, G1, KV, KI, KU, I0.
      repeat split; auto using valued_some; [rewrite <- G, GV; apply valued_some|tauto].
    + destruct C as (T & _). vfalse.
    + destruct C as (T & _). vfalse.
    + destruct C as (T & G & GD & _). vfalse.
    + destruct C as (T & G & _). vfalse.
    + destruct C as (T & _). vfalse.
    + destruct C as (T & _). vfalse.
  - destruct c; cbn [consistent] in C.
    + destruct C as (T & G & V0 & I0 & U0 & NG). left. exists CID. cbn [consistent]. rewrite T1, G1, KV, KI, KU, I0.
      repeat split; auto; [congruence|exists l, c0; rewrite LT; apply in_or_app; right; left; reflexivity|].
      intros GK. apply NG. eapply gtk_app_inv; [exact LT| |exact GK]. intros l1 c1 [H|[]]. discriminate H.
    + destruct C as (T & _). vfalse.
    + destruct C as (T & _). vfalse.
    + destruct C as (T & _). vfalse.
    + destruct C as (T & _). vfalse.
    + destruct C as (T & _). vfalse.
    + destruct C as (T & _). vfalse.
Qed.

Lemma trans_global G0 pre s s1 x c : E_global x s s1 -> consistent G0 pre s x c ->
  (exists c', consistent G0 (pre ++ [SP.IGlobal x]) s1 x c') \/ doom s1.
Proof.
  intros (R & GN & _ & CASES) C.
  assert (KV : nv (pre ++ [SP.IGlobal x]) x = nv pre x) by (unfold nv; rewrite cnt_snoc; cbn [dv]; lia).
  assert (KI : ni (pre ++ [SP.IGlobal x]) x = ni pre x) by (unfold ni; rewrite cnt_snoc; cbn [di]; lia).
  assert (KU : nu (pre ++ [SP.IGlobal x]) x = S (nu pre x)) by (unfold nu; rewrite cnt_snoc; cbn [du]; rewrite sp_eqb_refl; cbn [b2n]; lia).
  destruct CASES as [(v & TV & G1 & T1 & LT)|(NV & T1 & G1 & l & c0 & LT)].
  - destruct c; cbn [consistent] in C.
    + destruct C as (T & _). vfalse.
    + destruct C as (T & G & V0 & I0 & U0 & NG). left. exists CU. cbn [consistent]. rewrite T1, G1, KV, KI, KU, U0.
      repeat split; auto using valued_some. rewrite <- G, GN. apply not_valued_none.
    + destruct C as (T & G & GV & _). vfalse.
    + destruct C as (T & G & GD & _). vfalse.
    + destruct C as (T & G & _). vfalse.
    + destruct C as (T & G & _). vfalse.
    + destruct C as (T & G & _). vfalse.
  - destruct c; cbn [consistent] in C.
    + destruct C as (T & G & V0 & I0 & U0 & NG). left. exists CGD. cbn [consistent]. rewrite T1, G1, KV, KI, KU, U0.
      repeat split; auto; [congruence|exists l, c0; rewrite LT; apply in_or_app; right; left; reflexivity].
    + destruct C as (T & _). vfalse.
    + destruct C as (T & _). vfalse.
    + destruct C as (T & G & GD & _). vfalse.
    + destruct C as (T & G & _). vfalse.
    + destruct C as (T & G & _). vfalse.
    + destruct C as (T & G & _). vfalse.
Qed.

Lemma trans_export G0 pre s s1 x c : E_export x s s1 -> consistent G0 pre s x c ->
  (exists c', consistent G0 (pre ++ [SP.IExport x]) s1 x c') \/ doom s1.
Proof.
  intros (R & (v & TV & G1) & NVG & T1 & LT & _) C.
  assert (KV : nv (pre ++ [SP.IExport x]) x = nv pre x) by (unfold nv; rewrite cnt_snoc; cbn [dv]; lia).
  assert (KI : ni (pre ++ [SP.IExport x]) x = ni pre x) by (unfold ni; rewrite cnt_snoc; cbn [di]; lia).
  assert (KU : nu (pre ++ [SP.IExport x]) x = S (nu pre x)) by (unfold nu; rewrite cnt_snoc; cbn [du]; rewrite sp_eqb_refl; cbn [b2n]; lia).
  assert (GT : gtk s1 x <-> gtk s x) by (unfold gtk; rewrite LT; tauto).
  destruct c; cbn [consistent] in C.
  - destruct C as (T & _). vfalse.
  - destruct C as (T & G & V0 & I0 & U0 & NG). left. exists CU. cbn [consistent]. rewrite T1, G1, KV, KI, KU, U0.
    repeat split; auto using valued_some. rewrite <- G. apply not_valued_all. exact NVG.
  - destruct C as (T & G & GV & _). rewrite <- G in GV. vfalse.
  - destruct C as (T & _). vfalse.
  - destruct C as (T & _). vfalse.
  - destruct C as (T & G & GD & GK & _). right. exists x. right. split; [tauto|rewrite G1; apply valued_some].
  - destruct C as (T & GV & _). vfalse.
Qed.

(* an included file that hands x up (once): x had no value and has one now *)
Lemma trans_child G0 pre s s1 x tc c ex : SP.ups tc x = 1%nat ->
  ~ valued (tget s x) -> valued (tget s1 x) -> gget s1 x = gget s x ->
  ltasks s1 = ltasks s ++ ex -> (forall l0 c0, ~ In (GlobalTask x l0 c0) ex) ->
  consistent G0 pre s x c ->
  (exists c', consistent G0 (pre ++ [SP.IChild tc]) s1 x c') \/ doom s1.
Proof.
  intros UP NV TV G1 LT NG C.
  assert (KV : nv (pre ++ [SP.IChild tc]) x = S (nv pre x)) by (unfold nv; rewrite cnt_snoc; cbn [dv]; lia).
  assert (KI : ni (pre ++ [SP.IChild tc]) x = ni pre x) by (unfold ni; rewrite cnt_snoc; cbn [di]; lia).
  assert (KU : nu (pre ++ [SP.IChild tc]) x = nu pre x) by (unfold nu; rewrite cnt_snoc; cbn [du]; lia).
  destruct c; cbn [consistent] in C.
  - destruct C as (T & G & V0 & I0 & U0 & NGK). left. exists CV. cbn [consistent]. rewrite G1, KV, KI, KU, V0.
    repeat split; auto. intros GK. apply NGK. eapply gtk_app_inv; eauto.
  - destruct C as (T & _). contradiction.
  - destruct C as (T & _). contradiction.
  - destruct C as (T & G & GD & IC & _). right. exists x. left. split; [eapply ict_app; eauto|exact TV].
  - destruct C as (T & G & GD & GK & V0 & I0 & U0). left. exists CGV. cbn [consistent]. rewrite G1, KV, KI, KU, V0.
    repeat split; auto. eapply gtk_app; eauto.
  - destruct C as (T & _). contradiction.
  - destruct C as (T & _). contradiction.
Qed.

(* ------------------------------------------------------------------ one statement, all names *)
Lemma good_step G0 pre i s s1 x :
  (forall c, consistent G0 pre s x c -> (exists c', consistent G0 (pre ++ [i]) s1 x c') \/ doom s1) ->
  frame_except x s s1 ->
  (exists ex, ltasks s1 = ltasks s ++ ex /\ forall y l0 c0, In (GlobalTask y l0 c0) ex -> y = x) ->
  (forall y, y <> x -> dv i y = 0 /\ di i y = 0 /\ du i y = 0)%nat ->
  ~ doom s1 -> GoodAll G0 pre s -> GoodAll G0 (pre ++ [i]) s1.
Proof.
  intros TR FR (ex & LT & NG) CNT ND GA y. destruct (GA y) as (c & C). destruct (str_dec y x) as [->|NE].
  - destruct (TR c C) as [H|H]; [exact H|contradiction].
  - exists c. destruct (FR y NE) as (T & G). destruct (CNT y NE) as (A & B & D).
    eapply consistent_frame; [exact T|exact G| | | | |exact C].
    + exists ex. split; [exact LT|]. intros l0 c0 H. apply NE. eapply NG; eauto.
    + unfold nv. rewrite cnt_snoc, A. lia.
    + unfold ni. rewrite cnt_snoc, B. lia.
    + unfold nu. rewrite cnt_snoc, D. lia.
Qed.

Lemma named_counts x y : y <> x -> SP.str_eqb y x = false.
Proof. apply sp_eqb_neq. Qed.

Lemma ui_step pre i s s1 : UI pre s -> (forall y, tget s y <> None -> tget s1 y <> None) -> (exists ex, ltasks s1 = ltasks s ++ ex) ->
  (forall y k, i = SP.IUse y k -> tget s1 y <> None \/ dtk s1 y) -> UI (pre ++ [i]) s1.
Proof.
  intros U TP (ex & LT) NEW y k IN. apply in_app_or in IN. destruct IN as [IN|[E|[]]].
  - destruct (U y k IN) as [H|H]; [left; apply TP; exact H|right; eapply dtk_app; eauto].
  - eapply NEW. exact E.
Qed.

Lemma cf_step d pre i : CF d pre -> (forall c, i = SP.IChild c -> fine d (mentioned (pre ++ [i])) c) -> CF d (pre ++ [i]).
Proof.
  intros C NEW c IN. apply in_app_or in IN. destruct IN as [IN|[E|[]]].
  - eapply fine_weaken; [|exact (C c IN)]. intros y. apply mentioned_app.
  - apply NEW. exact E.
Qed.

Lemma fine_nu_le d pp t : fine d pp t -> forall y, (nu (SP.items_of t) y <= 1)%nat.
Proof. destruct d; [intros []|]. cbn [fine]. intros (_ & H & _). exact H. Qed.

Lemma no_gtask_in ex : (forall t, In t ex -> is_gtask t = false) -> forall y l c, ~ In (GlobalTask y l c) ex.
Proof. intros H y l c IN. specialize (H _ IN). discriminate H. Qed.

(* ------------------------------------------------------------------ the walk *)
Section Link.
Variables (dbg : bool) (files : list (str * SP.file)) (base : Z).
Hypothesis Hfiles : forall n b, In (n, b) files -> plain_name n = true /\ forallb stmt_ok b = true.
Hypothesis Hbase : (0 <= base)%Z.
Let fs := fs_of files.

Definition FileP (d : nat) : Prop := forall f path body k t k' s st2,
  plain_name path = true -> forallb stmt_ok body = true ->
  SP.expand d files base body k = Some (t, k') -> (base + 4 * Z.of_N k' < 4294967296)%Z -> good s -> shape base k s ->
  assemble_open dbg fs (assemble dbg fs f) s (show_file body) path = Ret None st2 ->
  fine d (fun y => tbl_get (entry_globals s) y <> None) t /\
  (forall y, nu (SP.items_of t) y = 0%nat -> gget st2 y = tbl_get (entry_globals s) y) /\
  (forall y, (1 <= nu (SP.items_of t) y)%nat -> ~ valued (tbl_get (entry_globals s) y) /\ valued (gget st2 y)).

Lemma mid_path path k s : plain_name path = true -> MidInv base path k s -> exists ps, path_stack s = path :: ps.
Proof.
  intros Pp (_ & _ & C & _). unfold curr_of in C. destruct (path_stack s) as [|p ps]; [|subst; eauto].
  subst path. discriminate Pp.
Qed.

Lemma run_fine d f path G0 : FileP d -> plain_name path = true -> forall l els its k k' s s_end pre,
  goL (SP.expand d files base) files base l k = Some (its, k') ->
  map e_val els = map ev_of l -> forallb stmt_ok l = true ->
  (base + 4 * Z.of_N k' < 4294967296)%Z -> MidInv base path k s ->
  run_items dbg fs (assemble dbg fs f) (map ParseModel.IOk els) s = Ret None s_end -> ~ doom s_end ->
  GoodAll G0 pre s -> UI pre s -> CF d pre ->
  GoodAll G0 (pre ++ its) s_end /\ UI (pre ++ its) s_end /\ CF d (pre ++ its).
Proof.
  intros IHd Pp. induction l as [|st r IH]; intros els its k k' s s_end pre G M W B MI RUN ND GA U C.
  - destruct els; [|discriminate M]. cbn [goL] in G. inversion G; subst. cbn in RUN. inversion RUN; subst.
    rewrite app_nil_r. auto.
  - destruct els as [|e els]; [discriminate M|]. cbn [map] in M. injection M as Ev M.
    cbn [forallb] in W. apply andb_prop in W. destruct W as [W0 W].
    change (st :: r) with ([st] ++ r) in G. destruct (goL_app _ _ _ _ _ _ _ _ G) as (i1 & k1 & i2 & G1 & G2 & ->).
    assert (MONO : (k1 <= k')%N). { eapply goL_mono; [|exact G2]. intros b0 k0 t0 k0'. apply expand_mono. }
    assert (B1 : (base + 4 * Z.of_N k1 < 4294967296)%Z) by lia.
    cbn [map run_items] in RUN. unfold bind in RUN.
    destruct (step dbg fs (assemble dbg fs f) s e) as [r1 s1| |] eqn:E; try discriminate RUN.
    destruct r1; [discriminate RUN|].
    assert (W1 : forallb stmt_ok [st] = true) by (cbn [forallb]; rewrite W0; reflexivity).
    assert (M1 : map e_val [e] = map ev_of [st]) by (cbn [map]; rewrite Ev; reflexivity).
    destruct (run_link dbg files base Hfiles Hbase d f path (LinkP_all dbg files base Hfiles Hbase d) Pp [st] [e] i1 k k1 s G1 M1 W1 B1 MI)
      as (_ & POST).
    assert (MI1 : MidInv base path k1 s1). { apply POST. cbn [map run_items]. unfold bind. fold fs. rewrite E. reflexivity. }
    destruct MI as (GS & NL & CU0 & SH).
    destruct (mid_path path k s Pp (conj GS (conj NL (conj CU0 SH)))) as (ps & PS).
    assert (NL1 : locals s1 <> None) by apply MI1.
    (* the rest of the run keeps a doom *)
    assert (ND1 : ~ doom s1).
    { intros D. apply ND. eapply (doom_persist SALL); [|exact D].
      eapply run_items_hs; [apply assemble_inc_hs|exact NL1|intros; exact I|exact RUN]. }
    (* what this statement keeps *)
    assert (HS1 : Hs SALL s s1) by (eapply step_hs; [apply assemble_inc_hs|exact NL|intros; exact I|exact E]).
    destruct (hs_persist _ _ _ HS1) as (TP & _ & _ & APP & _).
    assert (STEP : GoodAll G0 (pre ++ i1) s1 /\ UI (pre ++ i1) s1 /\ CF d (pre ++ i1)).
    { destruct e as [ln c v]. cbn [e_val] in Ev. subst v.
      cbn [goL] in G1. destruct st; try discriminate G1; cbn [ev_of] in E.
      - (* .const *) inversion G1; subst i1 k1. pose proof (const_effect dbg fs _ s ln c d_const x v s1 dir_const_name E) as EF.
        split; [|split; [apply (ui_step pre _ s s1); auto; intros ? ? X; discriminate X|apply cf_step; auto; intros ? X; discriminate X]].
        apply (good_step G0 pre _ s s1 x); auto.
        + intros c0. apply trans_def. exact EF.
        + apply EF.
        + exists []. destruct EF as (_ & _ & _ & _ & LT & _). rewrite app_nil_r. split; [exact LT|intros ? ? ? []].
        + intros y NE. cbn [dv di du]. rewrite (named_counts x y NE). auto.
      - (* label *) inversion G1; subst i1 k1. destruct (label_effect dbg fs _ s ln c x s1 E) as (sg & _ & EF).
        split; [|split; [apply (ui_step pre _ s s1); auto; intros ? ? X; discriminate X|apply cf_step; auto; intros ? X; discriminate X]].
        apply (good_step G0 pre _ s s1 x); auto.
        + intros c0 C0. destruct (trans_def G0 pre s s1 x _ c0 EF C0) as [(c' & H)|H]; [left|right; exact H].
          exists c'. destruct c'; cbn [consistent] in *; unfold nv, ni, nu in *; rewrite !cnt_snoc in *; cbn [dv di du] in *; exact H.
        + apply EF.
        + exists []. destruct EF as (_ & _ & _ & _ & LT & _). rewrite app_nil_r. split; [exact LT|intros ? ? ? []].
        + intros y NE. cbn [dv di du]. rewrite (named_counts x y NE). auto.
      - (* .global *) inversion G1; subst i1 k1. pose proof (global_effect dbg fs _ s ln c d_global x s1 dir_global_name NL E) as EF.
        split; [|split; [apply (ui_step pre _ s s1); auto; intros ? ? X; discriminate X|apply cf_step; auto; intros ? X; discriminate X]].
        apply (good_step G0 pre _ s s1 x); auto.
        + intros c0. apply trans_global. exact EF.
        + apply EF.
        + destruct EF as (_ & _ & _ & [(v & _ & _ & _ & LT)|(_ & _ & _ & l0 & c0 & LT)]).
          * exists []. rewrite app_nil_r. split; [exact LT|intros ? ? ? []].
          * eexists. split; [exact LT|]. intros y l1 c1 [H|[]]. inversion H. reflexivity.
        + intros y NE. cbn [dv di du]. rewrite (named_counts x y NE). auto.
      - (* .import *) inversion G1; subst i1 k1. pose proof (import_effect dbg fs _ s ln c d_import x s1 dir_import_name NL E) as EF.
        split; [|split; [apply (ui_step pre _ s s1); auto; intros ? ? X; discriminate X|apply cf_step; auto; intros ? X; discriminate X]].
        apply (good_step G0 pre _ s s1 x); auto.
        + intros c0. apply trans_import. exact EF.
        + apply EF.
        + destruct EF as (_ & _ & _ & [(v & _ & _ & _ & LT)|(_ & _ & _ & l0 & c0 & LT)]).
          * exists []. rewrite app_nil_r. split; [exact LT|intros ? ? ? []].
          * eexists. split; [exact LT|]. intros y l1 c1 [H|[]]. discriminate H.
        + intros y NE. cbn [dv di du]. rewrite (named_counts x y NE). auto.
      - (* .export *) inversion G1; subst i1 k1. pose proof (export_effect dbg fs _ s ln c d_export x s1 dir_export_name NL E) as EF.
        split; [|split; [apply (ui_step pre _ s s1); auto; intros ? ? X; discriminate X|apply cf_step; auto; intros ? X; discriminate X]].
        apply (good_step G0 pre _ s s1 x); auto.
        + intros c0. apply trans_export. exact EF.
        + apply EF.
        + exists []. destruct EF as (_ & _ & _ & _ & LT & _). rewrite app_nil_r. split; [exact LT|intros ? ? ? []].
        + intros y NE. cbn [dv di du]. rewrite (named_counts x y NE). auto.
      - (* .include *)
        rename f0 into g. destruct (SP.lookup_file files g) as [b|] eqn:LF; [|discriminate G1].
        destruct (SP.expand d files base b k) as [[tc k2]|] eqn:EX; [|discriminate G1]. inversion G1; subst i1 k2.
        destruct (Hfiles g b (lookup_in _ _ _ LF)) as (Pg & Wb).
        assert (RP : resolve_path (curr_of s) g = g) by (rewrite CU0; apply resolve_plain; assumption).
        destruct (include_inv dbg fs _ s ln c d_include g s1 dir_include_name E) as (data & FD & RUN1).
        fold (curr_of s) in FD, RUN1. rewrite RP in FD, RUN1.
        unfold fs, fs_of in FD. rewrite LF in FD. cbn [option_map] in FD. inversion FD; subst data.
        destruct f as [|f']; [discriminate RUN1|]. cbn [assemble] in RUN1.
        destruct (locals s) as [T|] eqn:L; [|congruence].
        destruct (include_isolation_body dbg fs _ s _ g None s1 T (assemble_inc_hs dbg fs f') RUN1 L)
          as (st2 & t2 & t' & AO & L2 & G2' & L1 & GG & _ & _ & _ & _ & OT).
        destruct (IHd f' g b k tc k1 s st2 Pg Wb EX B1 GS SH AO) as (FN & X1 & X2).
        assert (EG : entry_globals s = T) by (unfold entry_globals; rewrite L; reflexivity). rewrite EG in FN, X1, X2.
        assert (TS : forall y, tget s y = tbl_get T y) by (intros y; unfold tget; rewrite L; reflexivity).
        assert (TS1 : forall y, tget s1 y = gget st2 y) by (intros y; unfold tget, gget; rewrite L1, G2'; reflexivity).
        assert (GS1 : forall y, gget s1 y = gget s y) by (intros y; unfold gget; rewrite GG; reflexivity).
        assert (LTX : exists ex, ltasks s1 = ltasks s ++ ex /\ forall y l0 c0, ~ In (GlobalTask y l0 c0) ex).
        { unfold ltasks. destruct (local_tasks s) as [lt|], (local_tasks s1) as [lt1|]; cbn in OT; try contradiction.
          - destruct OT as (ex & -> & NGX). exists ex. split; [reflexivity|]. intros y l0 c0 IN. exact (NGX _ _ _ IN).
          - exists []. split; [reflexivity|intros ? ? ? []]. }
        destruct LTX as (ex & LT & NGX).
        split; [|split; [apply (ui_step pre _ s s1); auto; intros ? ? X; discriminate X|]].
        + intros y. destruct (GA y) as (c0 & C0). pose proof (fine_nu_le _ _ _ FN y) as LE.
          destruct (nu (SP.items_of tc) y) as [|[|n]] eqn:NU; [| |lia].
          * exists c0. eapply consistent_frame; [| | | | | |exact C0].
            -- rewrite TS1, TS. apply X1. exact NU.
            -- apply GS1.
            -- exists ex. split; [exact LT|apply NGX].
            -- unfold nv. rewrite cnt_snoc. cbn [dv]. rewrite ups_items, NU. lia.
            -- unfold ni. rewrite cnt_snoc. cbn [di]. lia.
            -- unfold nu. rewrite cnt_snoc. cbn [du]. lia.
          * destruct (X2 y ltac:(lia)) as (NV & TV).
            destruct (trans_child G0 pre s s1 y tc c0 ex) as [H|H]; auto.
            -- rewrite ups_items. exact NU.
            -- rewrite TS. exact NV.
            -- rewrite TS1. exact TV.
            -- contradiction.
        + apply cf_step; [exact C|]. intros c1 E1. inversion E1; subst c1.
          eapply fine_weaken; [|exact FN]. cbn beta. intros y PY. apply mentioned_app.
          destruct (GA y) as (c0 & C0). eapply consistent_present; [exact C0|]. rewrite TS. exact PY.
      - (* .du32 *) inversion G1; subst i1 k1. pose proof (use_effect dbg fs _ s ln c d_du32 x s1 _ _ dir_du32_name PS NL E) as (FR & (ex & LT & NGX) & UX).
        split; [|split; [|apply cf_step; auto; intros ? X; discriminate X]].
        + intros y. destruct (GA y) as (c0 & C0). exists c0. destruct (FR y) as (Ty & Gy).
          eapply consistent_frame; [exact Ty|exact Gy| | | | |exact C0].
          * exists ex. split; [exact LT|]. apply no_gtask_in. exact NGX.
          * unfold nv. rewrite cnt_snoc. cbn [dv]. lia.
          * unfold ni. rewrite cnt_snoc. cbn [di]. lia.
          * unfold nu. rewrite cnt_snoc. cbn [du]. lia.
        + apply (ui_step pre _ s s1); auto. intros y k0 E1. inversion E1; subst y k0. destruct UX as [(v & V)|UX].
          * left. destruct (FR x) as (Ty & _). rewrite Ty, V. discriminate.
          * right. exact UX. }
    destruct STEP as (GA1 & U1 & C1).
    rewrite app_assoc. eapply IH; eauto.
Qed.

(* ------------------------------------------------------------------ the end of a file *)
(* st1: the state after the last statement (the invariant holds for the whole item list); the end-of-file loop returned Ok *)
Lemma file_end d G0 its st1 tasks st2 p ps :
  GoodAll G0 its st1 -> UI its st1 -> CF d its -> path_stack st1 = p :: ps ->
  local_tasks st1 = Some tasks ->
  local_loop dbg task_rounds tasks (set_local_tasks st1 (Some [])) None = Ret None st2 ->
  ~ doom st1 /\
  fine (S d) (fun y => tbl_get G0 y <> None) (SP.Node its) /\
  (forall y, nu its y = 0%nat -> gget st2 y = tbl_get G0 y) /\
  (forall y, (1 <= nu its y)%nat -> ~ valued (tbl_get G0 y) /\ valued (gget st2 y)).
Proof.
  intros GA U C PS LT LOOP.
  set (s0 := set_local_tasks st1 (Some [])) in *.
  assert (LTS : ltasks st1 = tasks) by (unfold ltasks; rewrite LT; reflexivity).
  pose proof (local_loop_ok dbg _ _ _ _ LOOP) as RAN.
  pose proof (local_loop_RR dbg _ _ _ _ _ _ LOOP) as (_ & _ & GV2).
  assert (S0T : forall sa, RR s0 sa -> (forall y, tget sa y = tget st1 y) /\ path_stack sa = p :: ps /\
                                        (forall y, valued (gget st1 y) -> valued (gget sa y))).
  { intros sa (A1 & A2 & A3). split; [intros y; unfold tget; rewrite A1; reflexivity|]. split; [rewrite A2; exact PS|exact A3]. }
  (* the three kinds of pending task *)
  assert (K_ICT : forall y, ict st1 y -> ~ valued (tget st1 y)).
  { intros y (l & c & IN). rewrite LTS in IN. destruct (RAN _ IN) as (sa & sb & RT & R1 & _).
    destruct (S0T sa R1) as (TS & _). rewrite <- TS. eapply task_ict_ok; eauto. }
  assert (K_GT : forall y, gtk st1 y -> valued (tget st1 y) /\ ~ valued (gget st1 y) /\ valued (gget st2 y)).
  { intros y (l & c & IN). rewrite LTS in IN. destruct (RAN _ IN) as (sa & sb & RT & R1 & R2).
    destruct (S0T sa R1) as (TS & _ & GS). destruct (task_global_ok _ _ _ _ _ _ RT) as (A & B & D).
    split; [rewrite <- TS; exact A|]. split; [intros V; apply B, GS, V|]. destruct R2 as (_ & _ & G2). apply G2. exact D. }
  assert (K_DT : forall y, dtk st1 y -> tget st1 y <> None).
  { intros y (dd & IN & AR). rewrite LTS in IN. destruct (RAN _ IN) as (sa & sb & RT & R1 & _).
    destruct (S0T sa R1) as (TS & PSa & _). rewrite <- TS. eapply task_data_ok; eauto. }
  assert (ND : ~ doom st1).
  { intros (y & [(A & B)|(A & B)]); [exact (K_ICT y A B)|]. destruct (K_GT y A) as (_ & NB & _). exact (NB B). }
  assert (GSAME : forall y, ~ gtk st1 y -> gget st2 y = gget st1 y).
  { intros y NG. rewrite (loop_globals dbg tasks s0 None None st2 eq_refl LOOP y); [reflexivity|].
    intros l c IN. apply NG. exists l, c. rewrite LTS. exact IN. }
  split; [exact ND|]. split; [|split].
  - cbn [fine SP.items_of]. split; [|split; [|split; [|split; [|split]]]].
    + intros y. destruct (GA y) as (c & H). destruct c; cbn [consistent] in H; lia.
    + intros y. destruct (GA y) as (c & H). destruct c; cbn [consistent] in H; lia.
    + intros y NU. destruct (GA y) as (c & H). destruct c; cbn [consistent] in H; try lia.
      exfalso. destruct H as (T & _ & _ & GK & _). destruct (K_GT y GK) as (V & _). rewrite T in V. exact (not_valued_decl V).
    + intros y NI. destruct (GA y) as (c & H). destruct c; cbn [consistent] in H; try lia.
      * destruct H as (_ & _ & (v & V) & _). congruence.
      * destruct H as (_ & _ & V & _). congruence.
    + intros y k IN. destruct (GA y) as (c & H). eapply consistent_present; [exact H|].
      destruct (U y k IN) as [P|P]; [exact P|apply K_DT; exact P].
    + exact C.
  - intros y NU. destruct (GA y) as (c & H). destruct c; cbn [consistent] in H; try lia.
    + destruct H as (_ & G & _ & _ & _ & NG). rewrite GSAME; assumption.
    + destruct H as (_ & G & _ & _ & _ & NG). rewrite GSAME; assumption.
    + destruct H as (_ & G & _ & _ & _ & _ & NG). rewrite GSAME; assumption.
    + destruct H as (_ & G & _ & _ & _ & _ & _ & NG). rewrite GSAME; assumption.
  - intros y NU. destruct (GA y) as (c & H). destruct c; cbn [consistent] in H; try lia.
    + exfalso. destruct H as (T & _ & _ & GK & _). destruct (K_GT y GK) as (V & _). rewrite T in V. exact (not_valued_decl V).
    + destruct H as (_ & _ & GD & GK & _). split; [rewrite GD; apply not_valued_none|apply K_GT; exact GK].
    + destruct H as (_ & GV & NG0 & _). split; [exact NG0|]. apply GV2. exact GV.
Qed.

Lemma good_init_file G0 s : locals s = Some [] -> globals s = G0 -> (forall y, ~ gtk s y) -> GoodAll G0 [] s.
Proof.
  intros L G NG y. exists CN. cbn [consistent]. unfold tget, gget. rewrite L, G. cbn. repeat split; auto.
Qed.

Lemma FileP_step d : FileP d -> FileP (S d).
Proof.
  intros IHd f path body k t k' s st2 Pp W EX B G SH AO.
  rewrite expand_S in EX. destruct (goL _ _ _ body k) as [[its k2]|] eqn:GO; [|discriminate EX]. inversion EX; subst.
  destruct (show_file_parse body W) as (els & PS & M).
  destruct (open_ok dbg fs _ s _ path els st2 PS AO) as (st1 & tasks & RUN & LT & LOOP).
  pose proof (enter_mid base path k s G SH) as MI0.
  destruct (run_link dbg files base Hfiles Hbase d f path (LinkP_all dbg files base Hfiles Hbase d) Pp body els its k k' _ GO M W B MI0)
    as (_ & POST).
  pose proof (POST st1 RUN) as MI1. destruct (mid_path path k' st1 Pp MI1) as (ps & PS1).
  set (s0 := fst (enter_file s path)) in *.
  assert (GA0 : GoodAll (entry_globals s) [] s0).
  { apply good_init_file; [reflexivity|reflexivity|]. intros y (l & c & IN). cbn in IN. exact IN. }
  assert (U0 : UI [] s0) by (intros y k0 []).
  assert (C0 : CF d []) by (intros c []).
  (* the file was never doomed: otherwise a task of the loop fails *)
  assert (ND : ~ doom st1).
  { intros D.
    (* run the walk under the assumption ~doom to reach a contradiction: use classical-free argument via file_end on the doom itself *)
    destruct D as (y & [(A & Bv)|(A & Bv)]).
    - destruct A as (l & c & IN). unfold ltasks in IN. rewrite LT in IN.
      destruct (local_loop_ok dbg _ _ _ _ LOOP _ IN) as (sa & sb & RT & (R1 & _) & _).
      apply (task_ict_ok _ _ _ _ _ _ RT). unfold tget in *. rewrite R1. exact Bv.
    - destruct A as (l & c & IN). unfold ltasks in IN. rewrite LT in IN.
      destruct (local_loop_ok dbg _ _ _ _ LOOP _ IN) as (sa & sb & RT & (_ & _ & R3) & _).
      destruct (task_global_ok _ _ _ _ _ _ RT) as (_ & NB & _). apply NB. apply R3. exact Bv. }
  destruct (run_fine d f path (entry_globals s) IHd Pp body els its k k' s0 st1 [] GO M W B MI0 RUN ND GA0 U0 C0) as (GA1 & U1 & C1).
  cbn [app] in GA1, U1, C1.
  destruct (file_end d (entry_globals s) its st1 tasks st2 path ps GA1 U1 C1 PS1 LT LOOP) as (_ & FN & X1 & X2).
  cbn [SP.items_of]. auto.
Qed.

Theorem FileP_all : forall d, FileP d.
Proof. induction d as [|d IH]; [intros f path body k t k' s st2 _ _ EX; discriminate EX|apply FileP_step; exact IH]. Qed.

(* ------------------------------------------------------------------ the root file *)
Lemma root_fine f root body t n s' :
  plain_name root = true -> forallb stmt_ok body = true ->
  SP.expand SP.max_depth files base body 0 = Some (t, n) -> (base + 4 * Z.of_N n < 4294967296)%Z ->
  assemble dbg fs (S f) init_state (show_file (SP.SAddr base :: body)) root = Ret None s' ->
  fine SP.max_depth (fun _ => False) t.
Proof.
  intros Pr W EX B A. change SP.max_depth with (S 5) in *.
  rewrite expand_S in EX. destruct (goL _ _ _ body 0%N) as [[its k2]|] eqn:GO; [|discriminate EX]. inversion EX; subst.
  destruct (show_file_parse _ (root_writable base Hbase body n W B)) as (els & PS & M). cbn [assemble] in A.
  rewrite assemble_body_open in A. unfold bind in A.
  destruct (assemble_open dbg fs (assemble dbg fs f) init_state (show_file (SP.SAddr base :: body)) root) as [r2 st2| |] eqn:AO; try discriminate A.
  destruct (leave_file st2 _) as [u st3| |]; try discriminate A. inversion A; subst r2 st3.
  destruct (open_ok dbg fs _ init_state _ root els st2 PS AO) as (st1 & tasks & RUN & LT & LOOP).
  destruct els as [|e0 els]; [discriminate M|]. cbn [map] in M. injection M as E0 M.
  destruct e0 as [ln c v]. cbn [e_val ev_of] in E0. subst v.
  cbn [map run_items] in RUN. unfold bind in RUN.
  destruct (step dbg fs (assemble dbg fs f) _ _) as [r1 s1| |] eqn:E; try discriminate RUN.
  destruct r1; [discriminate RUN|].
  pose proof (root_mid dbg files base f root ln c s1 E) as MI0.
  destruct (run_link dbg files base Hfiles Hbase 5 f root (LinkP_all dbg files base Hfiles Hbase 5) Pr body els its 0%N n _ GO M W B MI0)
    as (_ & POST).
  pose proof (POST st1 RUN) as MI1. destruct (mid_path root n st1 Pr MI1) as (ps & PS1).
  set (s0 := fst (enter_file init_state root)) in *.
  (* the `.addr` statement leaves the tables and adds no `.global` copy *)
  unfold step, process_directive in E. cbn [e_val e_line e_col] in E. rewrite dir_addr_name in E.
  pose proof (ScopeProv.dir_addr_ls _ _ _ _ _ _ _ E) as LS. pose proof (dir_addr_hs _ _ _ _ _ _ _ E) as (_ & _ & _ & HD & _ & OT).
  assert (GA0 : GoodAll [] [] s1).
  { apply good_init_file.
    - rewrite LS. reflexivity.
    - cbn [s0 enter_file fst globals init_state locals] in HD.
      assert (Q : forall y, tbl_get (globals s1) y = None) by (intros y; rewrite (hand_none _ _ _ HD y); reflexivity).
      destruct (globals s1) as [|[k0 v0] r0] eqn:GG; [reflexivity|]. specialize (Q k0). cbn [tbl_get] in Q.
      rewrite str_eqb_refl in Q. discriminate Q.
    - intros y (l & c0 & IN). unfold ltasks in IN. cbn [s0 enter_file fst local_tasks init_state] in OT.
      destruct (local_tasks s1) as [lt1|]; [|destruct IN]. cbn in OT. destruct OT as (ex & -> & NG). cbn [app] in IN. exact (NG _ _ _ IN). }
  assert (U0 : UI [] s1) by (intros y k0 []).
  assert (C0 : CF 5 []) by (intros c0 []).
  assert (ND : ~ doom st1).
  { intros (y & [(Aa & Bv)|(Aa & Bv)]).
    - destruct Aa as (l & c0 & IN). unfold ltasks in IN. rewrite LT in IN.
      destruct (local_loop_ok dbg _ _ _ _ LOOP _ IN) as (sa & sb & RT & (R1 & _) & _).
      apply (task_ict_ok _ _ _ _ _ _ RT). unfold tget in *. rewrite R1. exact Bv.
    - destruct Aa as (l & c0 & IN). unfold ltasks in IN. rewrite LT in IN.
      destruct (local_loop_ok dbg _ _ _ _ LOOP _ IN) as (sa & sb & RT & (_ & _ & R3) & _).
      destruct (task_global_ok _ _ _ _ _ _ RT) as (_ & NB & _). apply NB. apply R3. exact Bv. }
  destruct (run_fine 5 f root [] (FileP_all 5) Pr body els its 0%N n s1 st1 [] GO M W B MI0 RUN ND GA0 U0 C0) as (GA1 & U1 & C1).
  cbn [app] in GA1, U1, C1.
  destruct (file_end 5 [] its st1 tasks st2 root ps GA1 U1 C1 PS1 LT LOOP) as (_ & FN & _).
  eapply fine_weaken; [|exact FN]. cbn. intros y H. apply H. reflexivity.
Qed.
End Link.
