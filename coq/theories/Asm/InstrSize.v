(* C13 proofs, part 3: the number of bytes of an instruction statement is fixed by its mnemonic.
   isz i = 2 or 4 depends only on the constructor of i; Instruction::encode produces exactly isz i bytes;
   ArmInstr::assemble (assemble_args) and the partially converted template (partial_instr) keep the constructor.
   So the placeholder written for a deferred instruction and the bytes written when it resolves have the same length. *)
From Coq Require Import ZArith NArith List Bool Lia.
From Trion Require Import Text.Types Arm.Instr Arm.EncodeModel Arm.AsmStmtModel Asm.CtxModel.
Import ListNotations.
Open Scope N_scope.

Definition isz (i : instr) : N :=
  match i with
  | Bl _ | Dmb | Dsb | Isb | Mrs _ _ | Msr _ _ | Udfw _ => 4
  | _ => 2
  end.

Lemma isz_pos i : 2 <= isz i /\ isz i <= 4.
Proof. destruct i; cbn; lia. Qed.

Lemma guard_ok b r hws : guard b r = EncOk hws -> r = EncOk hws.
Proof. unfold guard. destruct b; [discriminate|auto]. Qed.

Lemma enc_size' i : match enc i with EncOk hws => 2 * N.of_nat (length hws) = isz i | EncUnrep => True end.
Proof.
  destruct i; unfold enc, two_low, three_low, s1, d2, guard; cbv zeta;
  repeat match goal with
         | |- match (if ?c then _ else _) with _ => _ end => destruct c
         | |- match (match ?x with _ => _ end) with _ => _ end => destruct x
         end; try exact I; reflexivity.
Qed.

Lemma enc_size i hws : enc i = EncOk hws -> 2 * N.of_nat (length hws) = isz i.
Proof. intros H. pose proof (enc_size' i) as P. rewrite H in P. exact P. Qed.

Lemma len_le_bytes hws : MapModel.len (le_bytes hws) = 2 * N.of_nat (length hws).
Proof.
  unfold MapModel.len. induction hws as [|h r IH]; [reflexivity|].
  unfold le_bytes in *. cbn [flat_map le16 app length]. lia.
Qed.

Lemma enc_bytes_size i cap n bytes : enc_bytes i cap = EbOk n bytes -> n = isz i /\ MapModel.len bytes = isz i.
Proof.
  unfold enc_bytes. destruct (enc i) as [hws|] eqn:E; [|discriminate].
  destruct (N.ltb cap (2 * N.of_nat (length hws))); [discriminate|]. intros H. inversion H. subst.
  rewrite len_le_bytes. split; apply (enc_size _ _ E).
Qed.

(* ---- assemble_args keeps the constructor ---- *)
Definition okP (t : instr) (c : conv instr) : Prop := match c with COk i _ => isz i = isz t | _ => True end.

Lemma okP_bind {A} t (c : conv A) (k : A -> ast -> conv instr) :
  (forall a s, okP t (k a s)) -> okP t (AsmStmtModel.bind c k).
Proof. intros H. destruct c; cbn [AsmStmtModel.bind]; try exact I. apply H. Qed.

Lemma assemble_args_okP ev local addr t st : okP t (assemble_args ev local addr t st).
Proof.
  destruct t; cbn [assemble_args]; unfold rr, rri, r_addr, r_addr_reg, small_imm;
  repeat (apply okP_bind; intros);
  repeat match goal with
         | |- okP _ (if ?c then _ else _) => destruct c
         | |- okP _ (match ?x with _ => _ end) => destruct x
         | |- okP _ (AsmStmtModel.bind _ _) => apply okP_bind; intros
         end; try exact I; reflexivity.
Qed.

Lemma assemble_args_size ev local addr t st i st' :
  assemble_args ev local addr t st = COk i st' -> isz i = isz t.
Proof. intros H. pose proof (assemble_args_okP ev local addr t st) as P. rewrite H in P. exact P. Qed.

Lemma partial_instr_size t st : isz (partial_instr t st) = isz t.
Proof.
  destruct t; cbn [partial_instr]; cbv zeta;
  repeat match goal with
         | |- isz (if ?c then _ else _) = _ => destruct c
         | |- isz (match ?x with _ => _ end) = _ => destruct x
         end; reflexivity.
Qed.
