(* C04 / C13: what one instruction statement does to the Context, in terms of the statement's outcome.  Definitions only.

   `place st s file line col data`   the bytes `data` appended to the active segment s at its current address -- or, when they
                       do not fit below the segment's limit, the capacity diagnostic of C13 (AsmError::Write(SegmentError::
                       Overflow), class KInstrSegOverflow) at the statement's position with result Fatal and nothing written.
   `placeholder st s file line col ai`  what Arm6M::assemble leaves behind for a statement that did not complete (deferred OR
                       diagnosed: both take the `_ =>` arm of its match): the partially converted template ai is encoded; its
                       length n decides the placeholder -- n bytes 0xBE are placed (`place`) and, if that succeeded, the
                       statement is scheduled as a local task (result Ok); when the partial template has no encoding the
                       diagnostic DEncode is pushed (result Fatal) and nothing is written or scheduled.
   `instr_step st s line col name args`  the whole statement: room for 2 bytes is required first (fix a613c66); then mnemonic
                       lookup, operand processing (AsmStmtModel.assemble_args with the context's evaluator, local = true) and,
                       by its result: COk i -- the encoder: bytes placed / DEncode Fatal; CDefer -- placeholder; CDiag d -- the
                       diagnostic d at the statement's position, THEN the placeholder (so a diagnosed instruction leaves
                       BE BE bytes and a task behind, and the statement's result is Ok unless the placeholder fails). *)
From Coq Require Import ZArith NArith List Bool.
From Trion Require Import Text.Types Arm.Instr Arm.EncodeModel Arm.AsmStmtModel Mem.MapModel Asm.CtxModel.
Import ListNotations.
Open Scope N_scope.

Definition place (st : state) (s : aseg) (file : str) (line col : N) (data : list N) : res result :=
  if blen s + MapModel.len data <=? s_max s then Ret None (set_active st (Active (set_buf s (s_buf s ++ data))))
  else Ret (Some Fatal) (push_error_in st file line col KInstrSegOverflow).

Definition placeholder (st : state) (s : aseg) (file : str) (line col : N) (ai : ainstr) : res result :=
  match enc (ai_instr ai) with
  | EncOk hws =>
      do w, st2 <- place st s file line col (padding (2 * N.of_nat (List.length hws)));
      match w with
      | Some l => Ret (Some l) st2
      | None => do _, st3 <- add_task st2 (InstrTask ai false) RLocal; Ret None st3
      end
  | EncUnrep => Ret (Some Fatal) (push_error_in st file line col (KInstr DEncode))
  end.

Definition instr_step (st : state) (s : aseg) (line col : N) (name : str) (args : list arg) : res result :=
  let file := curr_name st in
  if 2 <=? s_max s - blen s then
    match template name with
    | None => Ret (Some Fatal) (push_error st line col (KInstr DNotFound))
    | Some t =>
        let pending a := mkAI file line col (curr_addr s) (partial_instr t a) a in
        match assemble_args (instr_ev st) true (curr_addr s) t (mkAst args 0) with
        | COk i _ =>
            match enc i with
            | EncOk hws => place st s file line col (le_bytes hws)
            | EncUnrep => Ret (Some Fatal) (push_error_in st file line col (KInstr DEncode))
            end
        | CDefer _ a => placeholder st s file line col (pending a)
        | CDiag d a => placeholder (push_error_in st file line col (KInstr d)) s file line col (pending a)
        | CPanic => Panic P_instr_index
        end
    end
  else Ret (Some Fatal) (push_error st line col KInstrSegOverflow).
