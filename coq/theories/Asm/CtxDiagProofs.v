(* C12, diagnostics clause, on the Context model (Asm/CtxModel.v): a diagnostic raised for a directive or instruction
   statement names the file, line and column of that statement's first token.

   at_pos F L C d    : diagnostic d names file F, line L, column C;
   task_at F L C t   : the deferred task t carries that position (InstrTask / DataTask: file, line and column are stored
                       in the statement; the .global / .import bookkeeping tasks store line and column, and report in the
                       file that is current when they run: the file that created them, file_name_kept below);
   rel Pd Pt st st'  : the current file name is unchanged, `errors` grew by diagnostics satisfying Pd, `global_tasks` and
                       `local_tasks` grew by tasks satisfying Pt.
   Statements: step_diag (a statement other than .include), include_diag (the .include statement itself), task_diag
   (a deferred task, and the task it re-schedules), parse_diag (a parse error is reported at the parser's error position),
   file_name_kept (the current file name is the same before and after every statement, include and task round).
   Proof file (no model definitions). *)
From Coq Require Import ZArith NArith PeanoNat List Bool Lia.
From Trion Require Import Text.Types Asm.CtxModel.
From Trion Require Arm.AsmStmtModel Arm.EncodeModel Mem.MapModel Text.ParseModel Expr.EvalModel.
Import ListNotations.

Definition at_pos (F : str) (L C : N) (d : diag) : Prop := d_file d = F /\ d_line d = L /\ d_col d = C.
Definition task_at (F : str) (L C : N) (t : task) : Prop :=
  match t with
  | InstrTask ai _ => ai_file ai = F /\ ai_line ai = L /\ ai_col ai = C
  | DataTask d _ => de_file d = F /\ de_line d = L /\ de_col d = C
  | GlobalTask _ l c | ImportCheckTask _ l c => l = L /\ c = C
  end.

Definition opt_ext (P : task -> Prop) (a b : option (list task)) : Prop :=
  match a, b with
  | Some x, Some y => exists n, y = x ++ n /\ Forall P n
  | None, None => True
  | _, _ => False
  end.

Definition rel (Pd : diag -> Prop) (Pt : task -> Prop) (st st' : state) : Prop :=
  curr_name st' = curr_name st /\
  (exists l, errors st' = l ++ errors st /\ Forall Pd l) /\
  (exists n, global_tasks st' = global_tasks st ++ n /\ Forall Pt n) /\
  opt_ext Pt (local_tasks st) (local_tasks st').

Section Rel.
  Variable Pd : diag -> Prop.
  Variable Pt : task -> Prop.

  Lemma opt_ext_refl a : opt_ext Pt a a.
  Proof. destruct a; cbn; [|exact I]. exists []. rewrite app_nil_r. split; [reflexivity|constructor]. Qed.
  Lemma opt_ext_trans a b c : opt_ext Pt a b -> opt_ext Pt b c -> opt_ext Pt a c.
  Proof.
    destruct a, b, c; cbn; try tauto. intros (n1 & -> & F1) (n2 & -> & F2). exists (n1 ++ n2).
    rewrite app_assoc. split; [reflexivity|apply Forall_app; split; assumption].
  Qed.

  Lemma rel_refl st : rel Pd Pt st st.
  Proof.
    split; [reflexivity|]. split; [exists []; split; [reflexivity|constructor]|].
    split; [exists []; rewrite app_nil_r; split; [reflexivity|constructor]|apply opt_ext_refl].
  Qed.
  Lemma rel_trans a b c : rel Pd Pt a b -> rel Pd Pt b c -> rel Pd Pt a c.
  Proof.
    intros (N1 & (l1 & E1 & F1) & (n1 & G1 & H1) & O1) (N2 & (l2 & E2 & F2) & (n2 & G2 & H2) & O2).
    split; [congruence|]. split.
    { exists (l2 ++ l1). rewrite E2, E1, app_assoc. split; [reflexivity|apply Forall_app; split; assumption]. }
    split; [|eapply opt_ext_trans; eauto].
    exists (n1 ++ n2). rewrite G2, G1, app_assoc. split; [reflexivity|apply Forall_app; split; assumption].
  Qed.

  (* nothing observable here changed *)
  Definition quiet (st st' : state) : Prop :=
    curr_name st' = curr_name st /\ errors st' = errors st /\ global_tasks st' = global_tasks st /\ local_tasks st' = local_tasks st.
  Lemma rel_quiet st st' : quiet st st' -> rel Pd Pt st st'.
  Proof.
    intros (A & B & C & D). split; [exact A|]. split; [exists []; split; [exact B|constructor]|].
    split; [exists []; rewrite app_nil_r; split; [exact C|constructor]|rewrite D; apply opt_ext_refl].
  Qed.
  Lemma rel_push_in st f l c k : Pd (mkDiag f l c k) -> rel Pd Pt st (push_error_in st f l c k).
  Proof.
    intros H. split; [reflexivity|]. split; [exists [mkDiag f l c k]; split; [reflexivity|constructor; [exact H|constructor]]|].
    split; [exists []; rewrite app_nil_r; split; [reflexivity|constructor]|apply opt_ext_refl].
  Qed.
  Lemma rel_then_quiet a b c : rel Pd Pt a b -> quiet b c -> rel Pd Pt a c.
  Proof. intros R Q. eapply rel_trans; [exact R|apply rel_quiet; exact Q]. Qed.
  Lemma rel_then_push a b f l c k : rel Pd Pt a b -> Pd (mkDiag f l c k) -> rel Pd Pt a (push_error_in b f l c k).
  Proof. intros R H. eapply rel_trans; [exact R|apply rel_push_in; exact H]. Qed.

  Lemma add_task_rel st t r st' : Pt t -> add_task st t r = Ret tt st' -> rel Pd Pt st st'.
  Proof.
    intros H. unfold add_task. destruct r.
    - intros E; inversion E; subst. split; [reflexivity|]. split; [exists []; split; [reflexivity|constructor]|].
      split; [exists [t]; split; [reflexivity|constructor; [exact H|constructor]]|apply opt_ext_refl].
    - destruct (local_tasks st) as [lt|] eqn:EL; [|discriminate]. intros E; inversion E; subst.
      split; [reflexivity|]. split; [exists []; split; [reflexivity|constructor]|].
      split; [exists []; rewrite app_nil_r; split; [reflexivity|constructor]|].
      cbn. rewrite EL. exists [t]. split; [reflexivity|constructor; [exact H|constructor]].
  Qed.
End Rel.

(* inversion of `Ret a b = Ret r st'`; substitutes the result variables only (never the position F, L, C) *)
Ltac inv H := inversion H; clear H;
  repeat match goal with
  | E : _ = ?v |- _ => is_var v; lazymatch type of v with str => fail | N => fail | _ => subst v end
  end.
Ltac quiet_tac := repeat split; reflexivity.

Lemma insert_constant_quiet st n v r x st' : insert_constant st n v r = Ret x st' -> quiet st st'.
Proof.
  unfold insert_constant, set_realm_table. destruct (is_register n). { intros H; inv H; quiet_tac. }
  destruct (realm_table st r); [|discriminate]. destruct (tbl_get t n) as [[?|]|]; destruct r; intros H; inv H; quiet_tac.
Qed.
Lemma defer_constant_quiet st n r x st' : defer_constant st n r = Ret x st' -> quiet st st'.
Proof.
  unfold defer_constant, set_realm_table. destruct (is_register n). { intros H; inv H; quiet_tac. }
  destruct (realm_table st r); [|discriminate]. destruct (tbl_get t n) as [?|]; destruct r; intros H; inv H; quiet_tac.
Qed.
Lemma close_segment_quiet dbg st x st' : close_segment dbg st = Ret x st' -> quiet st st'.
Proof.
  unfold close_segment. destruct (active st); [intros H; inv H; quiet_tac|].
  destruct (MapModel.map_put _ _ _ _) as [[m [n|]]| |]; try discriminate.
  - destruct (n =? blen s)%N; [|discriminate]. intros H; inv H; quiet_tac.
  - intros H; inv H; quiet_tac.
Qed.
Lemma select_segment_quiet dbg st a x st' : select_segment dbg st a = Ret x st' -> quiet st st'.
Proof.
  unfold select_segment. destruct (MapModel.map_find _ _ _ _) as [r| |]; try discriminate.
  destruct (match option_map fst r with Some n => (n <=? a)%N | None => false end). { intros H; inv H; quiet_tac. }
  destruct (active st); [|discriminate]. destruct (make_active _ _ _); try discriminate. intros H; inv H; quiet_tac.
Qed.
Lemma quiet_trans a b c : quiet a b -> quiet b c -> quiet a c.
Proof. intros (A1 & A2 & A3 & A4) (B1 & B2 & B3 & B4). repeat split; congruence. Qed.
Lemma change_segment_quiet dbg st a x st' : change_segment dbg st a = Ret x st' -> quiet st st'.
Proof.
  unfold change_segment, bind. destruct (active st); [apply select_segment_quiet|].
  destruct (_ && _). { intros H; inv H; quiet_tac. }
  destruct (close_segment dbg st) as [[b|e] st1| |] eqn:C; try discriminate; apply close_segment_quiet in C.
  - intros S. apply select_segment_quiet in S. eapply quiet_trans; eauto.
  - intros H; inv H. exact C.
Qed.

(* ---------------------------------------------------------------- one position *)
Section Pos.
  Variable F : str.
  Variables L C : N.
  Notation R := (rel (at_pos F L C) (task_at F L C)).
  Let here k : at_pos F L C (mkDiag F L C k). Proof. repeat split. Qed.

  Lemma put_stmt_rel dbg st a d k p r st' : put_stmt dbg st F L C a d k p = Ret r st' -> R st st'.
  Proof.
    unfold put_stmt. destruct (MapModel.map_put _ _ _ _) as [[m [n|]]| |]; try discriminate.
    - destruct (n =? 0)%N; [|discriminate]. intros H; inv H. apply rel_quiet. quiet_tac.
    - intros H; inv H. apply rel_push_in. apply here.
  Qed.
  Lemma write_stmt_rel dbg st a d k1 k2 p r st' : write_stmt dbg st F L C a d k1 k2 p = Ret r st' -> R st st'.
  Proof.
    unfold write_stmt. destruct (active st); [apply put_stmt_rel|].
    destruct (covers dbg s a) as [[|]| |]; try discriminate; [|apply put_stmt_rel].
    destruct (seg_write_at dbg s a d); try discriminate; intros H; inv H.
    - apply rel_quiet. quiet_tac.
    - apply rel_push_in. apply here.
  Qed.

  Definition ai_at (ai : ainstr) : Prop := ai_file ai = F /\ ai_line ai = L /\ ai_col ai = C.
  Definition de_at (d : dexpr) : Prop := de_file d = F /\ de_line d = L /\ de_col d = C.

  Lemma write_instr_rel dbg st ai d r st' : ai_at ai -> write_instr dbg st ai d = Ret r st' -> R st st'.
  Proof.
    intros (A1 & A2 & A3). unfold write_instr. rewrite A1, A2, A3. destruct (EncodeModel.enc_bytes _ _).
    - apply write_stmt_rel.
    - intros H; inv H. apply rel_push_in. apply here.
    - intros H; inv H. apply rel_push_in. apply here.
  Qed.
  Lemma write_data_rel dbg st d data r st' : de_at d -> write_data dbg st d data = Ret r st' -> R st st'.
  Proof. intros (A1 & A2 & A3). unfold write_data. rewrite A1, A2, A3. apply write_stmt_rel. Qed.

  Lemma instr_assemble_rel st ai local op ai' st' : ai_at ai -> instr_assemble st ai local = Ret (op, ai') st' ->
    R st st' /\ ai_at ai'.
  Proof.
    intros (A1 & A2 & A3). unfold instr_assemble. destruct (first_panic st _); [discriminate|].
    destruct (AsmStmtModel.assemble_args _ _ _ _ _); intros H; inv H; (split; [|repeat split; assumption]).
    - apply rel_refl.
    - apply rel_refl.
    - rewrite A1, A2, A3. apply rel_push_in. apply here.
  Qed.

  Lemma data_apply_rel dbg st d local op d' st' : de_at d -> data_apply dbg st d local = Ret (op, d') st' ->
    R st st' /\ de_at d'.
  Proof.
    intros (A1 & A2 & A3). unfold data_apply. rewrite A1, A2, A3.
    assert (DA : forall a, de_at (de_set_arg d a)) by (intros a; repeat split; assumption).
    destruct (ctx_eval st (de_arg d)) as [a' [c|c cause]|a' e|p]; try discriminate.
    - destruct a'; try (intros H; inv H; split; [apply rel_push_in; apply here|apply DA]).
      destruct (_ && _).
      + unfold bind. destruct (write_data _ _ _ _) as [w st1| |] eqn:W; try discriminate. intros H; inv H.
        split; [|apply DA]. eapply write_data_rel; [|exact W]. apply DA.
      + intros H; inv H; split; [apply rel_push_in; apply here|apply DA].
    - intros H; inv H. split; [apply rel_refl|apply DA].
    - destruct e, local; intros H; inv H; (split; [|apply DA]); try apply rel_refl; apply rel_push_in; apply here.
  Qed.

  (* ---- a deferred task ---- *)
  Definition task_here (st : state) (t : task) : Prop :=
    match t with
    | InstrTask ai _ => ai_at ai
    | DataTask d _ => de_at d
    | GlobalTask _ l c | ImportCheckTask _ l c => curr_name st = F /\ l = L /\ c = C
    end.

  Theorem run_task_rel dbg st t r st' : task_here st t -> run_task dbg st t = Ret r st' -> R st st'.
  Proof.
    destruct t as [ai g|d g|name line col|name line col]; cbn [run_task task_here]; unfold bind; intros TH.
    - destruct (instr_assemble st ai false) as [[op ai'] st1| |] eqn:A; try discriminate.
      destruct (instr_assemble_rel _ _ _ _ _ _ TH A) as (R1 & A').
      destruct op.
      + intros W. eapply rel_trans; [exact R1|]. eapply write_instr_rel; eauto.
      + destruct g.
        * intros H; inv H. destruct A' as (B1 & B2 & B3). rewrite B1, B2, B3. apply rel_then_push; [exact R1|apply here].
        * destruct (add_task st1 _ _) as [[] st2| |] eqn:T; try discriminate. intros H; inv H.
          eapply rel_trans; [exact R1|]. eapply add_task_rel; [|exact T]. exact A'.
      + intros H; inv H. exact R1.
    - destruct (data_apply dbg st d false) as [[op d'] st1| |] eqn:A; try discriminate.
      destruct (data_apply_rel _ _ _ _ _ _ _ TH A) as (R1 & A').
      destruct op.
      + intros H; inv H. exact R1.
      + destruct g.
        * intros H; inv H. destruct A' as (B1 & B2 & B3). rewrite B1, B2, B3. apply rel_then_push; [exact R1|apply here].
        * destruct (add_task st1 _ _) as [[] st2| |] eqn:T; try discriminate. intros H; inv H.
          eapply rel_trans; [exact R1|]. eapply add_task_rel; [|exact T]. exact A'.
      + intros H; inv H. exact R1.
    - destruct TH as (N1 & -> & ->). unfold push_error. rewrite N1.
      destruct (get_constant st name RLocal) as [[v| |]|]; try discriminate;
        try (intros H; inv H; apply rel_push_in; apply here).
      destruct (insert_constant st name v RGlobal) as [[b|[|]] st1| |] eqn:I; try discriminate; intros H; inv H;
        pose proof (insert_constant_quiet _ _ _ _ _ _ I) as Q.
      + apply rel_quiet; exact Q.
      + pose proof Q as (Q1 & _). rewrite Q1, N1. apply rel_then_push; [apply rel_quiet; exact Q|apply here].
    - destruct TH as (N1 & -> & ->). unfold push_error. rewrite N1.
      destruct (get_constant st name RLocal) as [[v| |]|]; try discriminate; intros H; inv H;
        try apply rel_refl; apply rel_push_in; apply here.
  Qed.

  (* ---- statements ---- *)

  Lemma arity_rel st args n st' : curr_name st = F -> arity_check st L C args n = Some st' -> R st st'.
  Proof.
    intros N1. unfold arity_check, push_error. rewrite N1. destruct (Nat.eqb _ _); [discriminate|].
    destruct (Nat.ltb _ _); intros H; inv H; apply rel_push_in; apply here.
  Qed.

  Lemma eval_now_rel st a x st' : curr_name st = F -> eval_now st L C a = Ret x st' -> R st st'.
  Proof.
    intros N1. unfold eval_now, push_error. rewrite N1.
    destruct (ctx_eval st a) as [a' [ch|ch cause]|a' e|p]; try discriminate; intros H; inv H;
      try apply rel_refl; apply rel_push_in; apply here.
  Qed.

  Lemma rel_name st st' : R st st' -> curr_name st = F -> curr_name st' = F.
  Proof. intros (A & _) B. congruence. Qed.

  Ltac push_here N1 := unfold push_error; rewrite ?N1; apply rel_push_in; apply here.
  Ltac done_push N1 := let H := fresh in intros H; inv H; push_here N1.
  (* push onto a state st1 reached through `R st st1` *)
  Ltac then_push R1 N1 :=
    let H := fresh in intros H; inv H; unfold push_error; rewrite (rel_name _ _ R1 N1); apply rel_then_push; [exact R1|apply here].

  Lemma seg_update_rel st x r st' : curr_name st = F -> seg_update st L C x = Ret r st' -> R st st'.
  Proof.
    intros N1. unfold seg_update. destruct x; try discriminate; [intros H; inv H; apply rel_quiet; quiet_tac|done_push N1].
  Qed.

  Lemma dir_addr_rel dbg st args r st' : curr_name st = F -> dir_addr dbg st L C args = Ret r st' -> R st st'.
  Proof.
    intros N1. unfold dir_addr, bind. destruct (arity_check st L C args 1) eqn:A.
    { intros H; inv H. eapply arity_rel; eauto. }
    destruct args as [|a rest]; [discriminate|].
    destruct (eval_now st L C a) as [[a'|lv] st1| |] eqn:E; try discriminate; apply eval_now_rel in E; try exact N1.
    - destruct a'; try then_push E N1.
      destruct (u32_of v); [|then_push E N1].
      destruct (change_segment dbg st1 n) as [[b|e] st2| |] eqn:Cs; try discriminate; apply change_segment_quiet in Cs.
      + intros H; inv H. eapply rel_then_quiet; eauto.
      + assert (R2 : R st st2) by (eapply rel_then_quiet; eauto). then_push R2 N1.
    - intros H; inv H. exact E.
  Qed.

  Lemma dir_align_rel dbg st args r st' : curr_name st = F -> dir_align dbg st L C args = Ret r st' -> R st st'.
  Proof.
    intros N1. unfold dir_align, bind. destruct (active st); [done_push N1|].
    destruct (arity_check st L C args 1) eqn:A.
    { intros H; inv H. eapply arity_rel; eauto. }
    destruct args as [|a rest]; [discriminate|].
    destruct (eval_now st L C a) as [[a'|lv] st1| |] eqn:E; try discriminate; apply eval_now_rel in E; try exact N1.
    - destruct a'; try then_push E N1.
      destruct (u32_of v) as [[|p]|]; try then_push E N1.
      destruct (_ =? 0)%N. { intros H; inv H. exact E. }
      destruct (has_remaining _ _ _) as [[|]| |]; try discriminate.
      + intros H. apply seg_update_rel in H; [|eapply rel_name; eauto]. eapply rel_trans; eauto.
      + then_push E N1.
    - intros H; inv H. exact E.
  Qed.

  Lemma dir_const_rel st args r st' : curr_name st = F -> dir_const st L C args = Ret r st' -> R st st'.
  Proof.
    intros N1. unfold dir_const, bind. destruct (arity_check st L C args 2) eqn:A.
    { intros H; inv H. eapply arity_rel; eauto. }
    destruct args as [|a0 [|a1 rest]]; try discriminate.
    destruct a0; try done_push N1.
    destruct (eval_now st L C a1) as [[a'|lv] st1| |] eqn:E; try discriminate; apply eval_now_rel in E; try exact N1.
    - destruct a'; try then_push E N1.
      destruct (insert_constant st1 s v RLocal) as [[b|[|]] st2| |] eqn:I; try discriminate; apply insert_constant_quiet in I;
        assert (R2 : R st st2) by (eapply rel_then_quiet; eauto).
      + intros H; inv H. exact R2.
      + then_push R2 N1.
      + then_push R2 N1.
    - intros H; inv H. exact E.
  Qed.

  Lemma dir_data_rel dbg st k args r st' : curr_name st = F -> dir_data dbg st L C k args = Ret r st' -> R st st'.
  Proof.
    intros N1. unfold dir_data, bind. destruct (active st); [done_push N1|].
    destruct (has_remaining _ _ _) as [[|]| |]; try discriminate; [|done_push N1].
    destruct (arity_check st L C args 1) eqn:A.
    { intros H; inv H. eapply arity_rel; eauto. }
    destruct args as [|a rest]; [discriminate|].
    destruct (data_apply _ _ _ _) as [[r1 d'] st1| |] eqn:D; try discriminate.
    apply data_apply_rel in D; [|repeat split; cbn; assumption]. destruct D as (R1 & A').
    assert (G : (do w, st2 <- write_data dbg st1 d' (padding (dk_size k));
                 match w with
                 | Some l => Ret (Some l) st2
                 | None => do _, st3 <- add_task st2 (DataTask d' false) RLocal; Ret None st3
                 end) = Ret r st' -> R st st').
    { unfold bind. destruct (write_data _ _ _ _) as [w st2| |] eqn:W; try discriminate. eapply write_data_rel in W; [|exact A'].
      destruct w; [intros H; inv H; eapply rel_trans; eauto|].
      destruct (add_task st2 _ _) as [[] st3| |] eqn:T; try discriminate. intros H; inv H.
      eapply rel_trans; [exact R1|]. eapply rel_trans; [exact W|]. eapply add_task_rel; [|exact T]. exact A'. }
    destruct r1; [intros H; inv H; exact R1|exact G|exact G].
  Qed.

  Lemma dir_bytes_rel dbg fs st d args r st' : curr_name st = F -> dir_bytes dbg fs st L C d args = Ret r st' -> R st st'.
  Proof.
    intros N1. unfold dir_bytes. destruct (active st); [done_push N1|].
    destruct (arity_check st L C args 1) eqn:A.
    { intros H; inv H. eapply arity_rel; eauto. }
    destruct args as [|a rest]; [discriminate|].
    destruct a; try done_push N1.
    destruct d; try (apply seg_update_rel; exact N1).
    - destruct (hex_decode _ _ _); try done_push N1. apply seg_update_rel; exact N1.
    - destruct (path_stack st); [discriminate|]. destruct (fs _); [|done_push N1].
      destruct (has_remaining _ _ _) as [[|]| |]; try discriminate; [apply seg_update_rel; exact N1|done_push N1].
  Qed.

  Lemma dir_global_rel st d args r st' : curr_name st = F -> dir_global st L C d args = Ret r st' -> R st st'.
  Proof.
    intros N1. unfold dir_global, bind. destruct (arity_check st L C args 1) eqn:A.
    { intros H; inv H. eapply arity_rel; eauto. }
    destruct args as [|a rest]; [discriminate|].
    destruct a; try done_push N1.
    assert (X : forall (b : bool) (ex := b),
      match get_constant st s (if ex then RLocal else RGlobal) with
      | Some EvalModel.NotFound => Ret (Some Fatal) (push_error st L C (KApply AGNotFound))
      | Some EvalModel.LDeferred =>
          if ex then Ret (Some Fatal) (push_error st L C (KApply AGDeferred))
          else bind (defer_constant st s (if ex then RGlobal else RLocal)) (fun r0 st1 =>
               match r0 with
               | inl _ => bind (add_task st1 (ImportCheckTask s L C) RLocal) (fun _ st2 => Ret None st2)
               | inr CDuplicate => Ret (Some Fatal) (push_error st1 L C (KApply AGDuplicate))
               | inr CReserved => Panic P_global_unreachable
               end)
      | Some (EvalModel.Found v) =>
          bind (insert_constant st s v (if ex then RGlobal else RLocal)) (fun r0 st1 =>
               match r0 with
               | inl _ => Ret None st1
               | inr CDuplicate => Ret (Some Fatal) (push_error st1 L C (KApply AGDuplicate))
               | inr CReserved => Panic P_global_unreachable
               end)
      | None => Panic P_no_local_scope
      end = Ret r st' -> R st st').
    { intros b ex. unfold bind. destruct (get_constant st s _) as [[v| |]|]; try discriminate.
      - destruct (insert_constant _ _ _ _) as [[b0|[|]] st1| |] eqn:I; try discriminate; apply insert_constant_quiet in I;
          assert (R1 : R st st1) by (apply rel_quiet; exact I).
        + intros H; inv H. exact R1.
        + then_push R1 N1.
      - destruct ex; [done_push N1|].
        destruct (defer_constant _ _ _) as [[u|[|]] st1| |] eqn:I; try discriminate; apply defer_constant_quiet in I;
          assert (R1 : R st st1) by (apply rel_quiet; exact I).
        + destruct (add_task st1 _ _) as [[] st2| |] eqn:T; try discriminate. intros H; inv H.
          eapply rel_trans; [exact R1|]. eapply add_task_rel; [|exact T]. split; reflexivity.
        + then_push R1 N1.
      - done_push N1. }
    destruct d; try (apply (X true)); try (apply (X false)).
    (* .global *)
    destruct (defer_constant st s RGlobal) as [[u|[|]] st1| |] eqn:D; try discriminate; apply defer_constant_quiet in D;
      assert (R1 : R st st1) by (apply rel_quiet; exact D).
    - assert (TL : forall st2, R st st2 -> bind (add_task st2 (GlobalTask s L C) RLocal) (fun _ st3 => Ret None st3) = Ret r st' -> R st st').
      { intros st2 R2. unfold bind. destruct (add_task st2 _ _) as [[] st3| |] eqn:T; try discriminate. intros H; inv H.
        eapply rel_trans; [exact R2|]. eapply add_task_rel; [|exact T]. split; reflexivity. }
      destruct (get_constant st1 s RLocal) as [[v| |]|]; try discriminate.
      + destruct (insert_constant st1 s v RGlobal) as [[[|]|e] st2| |] eqn:I; try discriminate. apply insert_constant_quiet in I.
        intros H; inv H. eapply rel_then_quiet; eauto.
      + apply TL. exact R1.
      + destruct (defer_constant st1 s RLocal) as [[u2|e] st2| |] eqn:D2; try discriminate. apply defer_constant_quiet in D2.
        apply TL. eapply rel_then_quiet; eauto.
    - then_push R1 N1.
    - then_push R1 N1.
  Qed.

  Lemma assemble_instr_rel dbg st name args r st' : curr_name st = F -> assemble_instr dbg st L C name args = Ret r st' -> R st st'.
  Proof.
    intros N1. unfold assemble_instr, bind. destruct (active st); [discriminate|].
    destruct (has_remaining _ _ _) as [[|]| |]; try discriminate; [|done_push N1].
    destruct (AsmStmtModel.template name); [|done_push N1].
    destruct (instr_assemble _ _ _) as [[r1 ai'] st1| |] eqn:A; try discriminate.
    apply instr_assemble_rel in A; [|repeat split; cbn; assumption]. destruct A as (R1 & A').
    assert (G : (do w, st2 <- write_instr dbg st1 ai' true;
                 match w with
                 | Some l => Ret (Some l) st2
                 | None => do _, st3 <- add_task st2 (InstrTask ai' false) RLocal; Ret None st3
                 end) = Ret r st' -> R st st').
    { unfold bind. destruct (write_instr _ _ _ _) as [w st2| |] eqn:W; try discriminate. eapply write_instr_rel in W; [|exact A'].
      destruct w; [intros H; inv H; eapply rel_trans; eauto|].
      destruct (add_task st2 _ _) as [[] st3| |] eqn:T; try discriminate. intros H; inv H.
      eapply rel_trans; [exact R1|]. eapply rel_trans; [exact W|]. eapply add_task_rel; [|exact T]. exact A'. }
    destruct r1; [|exact G|exact G].
    intros W. eapply write_instr_rel in W; [|exact A']. eapply rel_trans; eauto.
  Qed.

  (* the .include statement itself: its own diagnostics are at its position; those of the included file come first *)
  Lemma dir_include_rel fs inc st args r st' : curr_name st = F -> (forall s d p r1 s1, inc s d p = Ret r1 s1 -> curr_name s1 = curr_name s) ->
    dir_include fs inc st L C args = Ret r st' ->
    R st st' \/ exists data path r1 st1, inc st data path = Ret r1 st1 /\ R st1 st'.
  Proof.
    intros N1 IN. unfold dir_include, bind. destruct (arity_check st L C args 1) eqn:A.
    { intros H; inv H. left. eapply arity_rel; eauto. }
    destruct args as [|a rest]; [discriminate|].
    destruct a; try (intros H; inv H; left; push_here N1).
    cbv zeta. destruct (existsb _ _); [intros H; inv H; left; push_here N1|].
    destruct (fs _) as [data|]; [|intros H; inv H; left; push_here N1].
    destruct (inc st data _) as [r1 st1| |] eqn:I; try discriminate. intros H. right. eexists data, _, r1, st1. split; [exact I|]. revert H.
    apply IN in I. destruct r1; intros H; inv H; [|apply rel_refl]. unfold push_error. rewrite I, N1. apply rel_push_in. apply here.
  Qed.
End Pos.

(* ---------------------------------------------------------------- the statements of Properties/C12_diag.v *)
Definition is_include (e : element) : bool :=
  match e_val e with EDirective name _ => match dir_of name with Some DInclude => true | _ => false end | _ => false end.

(* a statement other than .include: every diagnostic it pushes names the current file and the statement's line and
   column, and every task it schedules carries that position; the current file name is unchanged *)
Theorem step_diag dbg fs inc st e r st' : is_include e = false -> step dbg fs inc st e = Ret r st' ->
  rel (at_pos (curr_name st) (e_line e) (e_col e)) (task_at (curr_name st) (e_line e) (e_col e)) st st'.
Proof.
  unfold is_include, step. cbv zeta. destruct (e_val e) as [name|name args|name args]; intros NI.
  - unfold bind. destruct (active st).
    { intros H; inv H. apply rel_push_in. repeat split. }
    destruct (insert_constant _ _ _ _) as [[b|[|]] st1| |] eqn:I; try discriminate; apply insert_constant_quiet in I; intros H; inv H.
    + apply rel_quiet; exact I.
    + unfold push_error. destruct I as (I1 & I2). rewrite I1. eapply rel_then_push; [apply rel_quiet; split; eauto|repeat split].
    + unfold push_error. destruct I as (I1 & I2). rewrite I1. eapply rel_then_push; [apply rel_quiet; split; eauto|repeat split].
  - unfold process_directive. destruct (dir_of name) as [[]|]; try discriminate NI;
      eauto using dir_addr_rel, dir_align_rel, dir_const_rel, dir_data_rel, dir_bytes_rel, dir_global_rel.
    intros H; inv H. apply rel_push_in. repeat split.
  - destruct (active st).
    { intros H; inv H. apply rel_push_in. repeat split. }
    apply assemble_instr_rel. reflexivity.
Qed.

(* the .include statement: the diagnostics of the statement itself (wrong arguments, recursive include, missing file,
   failed include) are at its position, after whatever the included file reported *)
Theorem include_diag dbg fs fuel st l c args r st' :
  dir_include fs (assemble dbg fs fuel) st l c args = Ret r st' ->
  let R := rel (at_pos (curr_name st) l c) (task_at (curr_name st) l c) in
  R st st' \/ exists data path r1 st1, assemble dbg fs fuel st data path = Ret r1 st1 /\ R st1 st'.
Proof.
  intros H. cbv zeta.
  eapply dir_include_rel; [reflexivity| |exact H].
  intros s d p r1 s1. destruct fuel as [|f]; cbn [assemble]; [discriminate|].
  unfold assemble_body, enter_file, bind.
  destruct (do_assemble _ _ _ _ _) as [r0 s2| |]; try discriminate.
  match goal with |- context [if ?b then _ else _] => destruct b end.
  - unfold leave_file. destruct (negb _); [discriminate|]. destruct (path_stack s2); [discriminate|]. intros E; inv E. reflexivity.
  - destruct (local_tasks s2); [|discriminate]. destruct (local_loop _ _ _ _ _) as [r2 s3| |]; try discriminate.
    unfold leave_file. destruct (negb _); [discriminate|]. destruct (path_stack s3); [discriminate|]. intros E; inv E. reflexivity.
Qed.

(* a deferred task: every diagnostic it pushes, and the task it re-schedules for the includer / for finalize, carry the
   position stored in the task (the bookkeeping tasks of .global / .import report in the file that is current) *)
Definition task_file (st : state) (t : task) : str :=
  match t with InstrTask ai _ => ai_file ai | DataTask d _ => de_file d | _ => curr_name st end.
Definition task_line (t : task) : N :=
  match t with InstrTask ai _ => ai_line ai | DataTask d _ => de_line d | GlobalTask _ l _ | ImportCheckTask _ l _ => l end.
Definition task_col (t : task) : N :=
  match t with InstrTask ai _ => ai_col ai | DataTask d _ => de_col d | GlobalTask _ _ c | ImportCheckTask _ _ c => c end.

Theorem task_diag dbg st t r st' : run_task dbg st t = Ret r st' ->
  rel (at_pos (task_file st t) (task_line t) (task_col t)) (task_at (task_file st t) (task_line t) (task_col t)) st st'.
Proof. apply run_task_rel. destruct t; cbn; repeat split. Qed.

(* a parse error ends the file with ONE diagnostic: class Parse, the current file, the parser's error position
   (for a token error: the position of the statement it occurred in, Text/ParseModel.v) *)
Theorem parse_diag dbg fs inc rest st pe :
  run_items dbg fs inc (ParseModel.IErr pe :: rest) st
    = Ret (Some Fatal) (set_errors st (mkDiag (curr_name st) (ParseModel.pe_line pe) (ParseModel.pe_col pe) KParse :: errors st)).
Proof. reflexivity. Qed.

(* the file name under which diagnostics are reported does not change while a file is processed: not by a statement
   (an .include restores it), not by a task *)
Theorem file_name_kept dbg fs fuel :
  (forall st e r st', step dbg fs (assemble dbg fs fuel) st e = Ret r st' -> curr_name st' = curr_name st) /\
  (forall st t r st', run_task dbg st t = Ret r st' -> curr_name st' = curr_name st) /\
  (forall st data path r st', assemble dbg fs fuel st data path = Ret r st' -> curr_name st' = curr_name st).
Proof.
  assert (A : forall st data path r st', assemble dbg fs fuel st data path = Ret r st' -> curr_name st' = curr_name st).
  { intros s d p r1 s1. destruct fuel as [|f]; cbn [assemble]; [discriminate|].
    unfold assemble_body, enter_file, bind.
    destruct (do_assemble _ _ _ _ _) as [r0 s2| |]; try discriminate.
    match goal with |- context [if ?b then _ else _] => destruct b end.
    - unfold leave_file. destruct (negb _); [discriminate|]. destruct (path_stack s2); [discriminate|]. intros E; inv E. reflexivity.
    - destruct (local_tasks s2); [|discriminate]. destruct (local_loop _ _ _ _ _) as [r2 s3| |]; try discriminate.
      unfold leave_file. destruct (negb _); [discriminate|]. destruct (path_stack s3); [discriminate|]. intros E; inv E. reflexivity. }
  split; [|split; [|exact A]].
  - intros st e r st' H. destruct (is_include e) eqn:NI.
    + unfold is_include in NI. unfold step in H. cbv zeta in H. destruct (e_val e) as [name|name args|name args]; try discriminate NI.
      unfold process_directive in H. destruct (dir_of name) as [[]|]; try discriminate NI.
      destruct (dir_include_rel (curr_name st) (e_line e) (e_col e) fs _ st args r st' eq_refl A H) as [R1|(d & p & r1 & s1 & I & R1)].
      * exact (proj1 R1).
      * apply A in I. destruct R1 as (R1 & _). congruence.
    + exact (proj1 (step_diag _ _ _ _ _ _ _ NI H)).
  - intros st t r st' H. exact (proj1 (task_diag _ _ _ _ _ H)).
Qed.

(* ---- whole-pipeline examples (non-vacuity): positions of the diagnostics of a two-file project ---- *)
From Coq Require Import String.
From Trion Require Arm.DisplayModel.
Definition diag_positions (fs : str -> option (list N)) (root : string) (text : string) : option (list (str * N * N)) :=
  match pipeline fs (DisplayModel.bytes_of_string root) (DisplayModel.bytes_of_string text) with
  | Done _ d _ => Some (map (fun x => (d_file x, d_line x, d_col x)) d)
  | _ => None
  end.
Definition fs_inc : str -> option (list N) := fun p =>
  if str_eqb p (DisplayModel.bytes_of_string "i.asm") then Some (DisplayModel.bytes_of_string ".addr 512;
   .du8 300;") else None.
