(* C05 for projects, part 7: an executable (sufficient) check of the project class C05_project_class, used for the non-vacuity
   examples of Properties/C05.v, C14.v, C18.v.  clsb walks the include tree as LayoutMulti.cls does and tests, per statement,
   the boolean forms of its clauses; file names are compared as paths (resolve_path root v = resolve_path path v). *)
From Coq Require Import ZArith NArith PeanoNat List Bool Lia ZifyBool ZifyNat ZifyN String.
From Trion Require Import Text.Types Expr.Denote Arm.Instr Arm.DisplayModel Arm.AsmStmtModel
  Asm.CtxModel Asm.ScopeProofs Asm.LayoutSpec Asm.LayoutWf Asm.LayoutEval Asm.LayoutInstr Asm.LayoutInstrD Asm.LayoutSim Asm.LayoutStage Asm.LayoutStep Asm.LayoutFinal
  Asm.LayoutBytes Asm.LayoutText Asm.LayoutCheck.
From Trion Require Import Asm.LayoutSpecExt Asm.LayoutMulti Asm.LayoutMultiSpec.
Import ListNotations.
Open Scope N_scope.

Definition cleanb (e : senv) (a : arg) : bool :=
  forallb (fun n => match sget e n with Some BDecl => false | _ => true end) (LayoutEval.idents a).

Definition bare_declb (e : senv) (a : arg) : bool :=
  match a with AIdent n => match sget e n with Some BDecl => true | _ => false end | _ => false end.
Definition okargb (e : senv) (ev : element_value) (a : arg) : bool := cleanb e a || (may_defer ev && bare_declb e a).

Definition fresh_xb (x : px) (ev : element_value) (x' : px) : bool :=
  (if is_addr ev then match x_cur x' with Some c => negb (coveredb (flat_items (x_items x)) c) | None => true end else true) &&
  match x_items x' with
  | (a, idit) :: r =>
      if Nat.eqb (List.length r) (List.length (x_items x))
      then forallb (fun y => negb (coveredb (flat_items (x_items x)) y)) (addrs a (item_size (snd idit))) else true
  | [] => true
  end.

Section Check.
  Variables (fs : str -> option (list N)) (root : str) (EF : N -> env).

  (* a `.dfile "v"` in the file at `path`: the reference reads resolve_path root v, the context resolve_path path v *)
  Definition dfile_okb (path : str) (ev : element_value) : bool :=
    match ev with
    | EDirective name [AStr v] => if dname name "dfile" then CtxModel.str_eqb (resolve_path root v) (resolve_path path v) else true
    | _ => true
    end.

  Definition stmt_clsb (path : str) (x : px) (ev : element_value) : bool :=
    match x_stack x with
    | f :: p :: _ =>
        forallb (okargb (f_env f) ev) (eval_args ev) &&
        stmt_okbw (EF (f_id f)) (vals (f_env f)) ev && dfile_okb path ev &&
        match ev with
        | EDirective name [AIdent n] =>
            if dname name "import" then match sget (f_env p) n with Some (BVal _) => true | _ => false end else true
        | _ => true
        end
    | _ => false
    end.

  Fixpoint clsb (fuel : nat) (open : list str) (path : str) (x : px) (l : list element_value) : bool :=
    match fuel with
    | O => true
    | S k =>
        (fix go (x : px) (l : list element_value) : bool :=
           match l with
           | [] => true
           | e :: r =>
               match include_name e with
               | Some v =>
                   let cpath := resolve_path path v in
                   CtxModel.str_eqb (resolve_path root v) cpath && negb (existsb (fun o => CtxModel.str_eqb o cpath) (path :: open)) &&
                   match rel_fs fs root v with
                   | Some text =>
                       match parse_ref text with
                       | Some prog =>
                           clsb k (path :: open) cpath (xpush x) prog &&
                           match xfile k (rel_fs fs root) parse_ref (xpush x) prog with
                           | Some x1 => match xpop x1 with Some x' => go x' r | None => true end
                           | None => true
                           end
                       | None => true
                       end
                   | None => true
                   end
               | None =>
                   stmt_clsb path x e &&
                   match xstep (rel_fs fs root) x e with Some x' => fresh_xb x e x' && go x' r | None => true end
               end
           end) x l
    end.

  Lemma clsb_nil k open path x : clsb (S k) open path x [] = true.
  Proof. reflexivity. Qed.

  Lemma clsb_cons k open path x e r : clsb (S k) open path x (e :: r) =
    match include_name e with
    | Some v =>
        CtxModel.str_eqb (resolve_path root v) (resolve_path path v) &&
        negb (existsb (fun o => CtxModel.str_eqb o (resolve_path path v)) (path :: open)) &&
        match rel_fs fs root v with
        | Some text =>
            match parse_ref text with
            | Some prog =>
                clsb k (path :: open) (resolve_path path v) (xpush x) prog &&
                match xfile k (rel_fs fs root) parse_ref (xpush x) prog with
                | Some x1 => match xpop x1 with Some x' => clsb (S k) open path x' r | None => true end
                | None => true
                end
            | None => true
            end
        | None => true
        end
    | None =>
        stmt_clsb path x e &&
        match xstep (rel_fs fs root) x e with Some x' => fresh_xb x e x' && clsb (S k) open path x' r | None => true end
    end.
  Proof. reflexivity. Qed.

  Lemma dir_of_dfile name : dir_of name = Some DFile -> dname name "dfile" = true.
  Proof.
    intros Hd. unfold dir_of in Hd.
    repeat match type of Hd with (if ?c then _ else _) = _ => destruct c eqn:? end; try discriminate Hd.
    assumption.
  Qed.

  Lemma stmt_okx_root path E ek e : stmt_okbw E ek e = true -> dfile_okb path e = true -> stmt_okx fs (rel_fs fs root) path E ek e.
  Proof.
    destruct e as [n|name args|name args]; intros H D.
    - exact I.
    - cbn [stmt_okx]. intros Hd v ->. apply dir_of_dfile in Hd. cbn [dfile_okb] in D. rewrite Hd in D.
      apply ScopeProofs.str_eqb_eq in D. unfold rel_fs. congruence.
    - exact (stmt_okbw_sound fs path E ek (EInstruction name args) H).
  Qed.

  Lemma cleanb_sound e a : cleanb e a = true -> clean e a.
  Proof.
    unfold cleanb, clean. intros H n Hn. rewrite forallb_forall in H. specialize (H n Hn). intros K. rewrite K in H. discriminate.
  Qed.

  Lemma stmt_clsb_sound path x ev : stmt_clsb path x ev = true -> stmt_cls fs (rel_fs fs root) EF path x ev.
  Proof.
    unfold stmt_clsb, stmt_cls. destruct (x_stack x) as [|f [|p rest]]; try discriminate.
    intros H. apply andb_prop in H. destruct H as (H & H4). apply andb_prop in H. destruct H as (H & H3).
    apply andb_prop in H. destruct H as (H1 & H2). split; [|split].
    - intros a Ha. rewrite forallb_forall in H1. specialize (H1 a Ha). unfold okargb in H1. apply orb_prop in H1.
      destruct H1 as [H1|H1]; [left; apply cleanb_sound; exact H1|right]. apply andb_prop in H1. destruct H1 as (M1 & M2).
      split; [exact M1|]. unfold bare_declb in M2. destruct a; try discriminate M2.
      destruct (sget (f_env f) s) as [[| |]|] eqn:Sg; try discriminate M2. exists s. auto.
    - apply stmt_okx_root; assumption.
    - intros name n -> Hn. rewrite Hn in H4. destruct (sget (f_env p) n) as [[v| |]|]; try discriminate. exists v. reflexivity.
  Qed.

  Lemma fresh_xb_sound x ev x' : fresh_xb x ev x' = true -> fresh_x x ev x'.
  Proof.
    unfold fresh_xb, fresh_x. intros H. apply andb_prop in H. destruct H as (Ha & Hi). split.
    - intros c A C. rewrite A, C in Ha. apply coveredb_false. destruct (coveredb (flat_items (x_items x)) c); [discriminate|reflexivity].
    - intros a idit y Eq X1 X2. rewrite Eq, Nat.eqb_refl in Hi. rewrite forallb_forall in Hi.
      specialize (Hi y (in_addrs _ _ _ X1 X2)). apply coveredb_false. destruct (coveredb (flat_items (x_items x)) y); [discriminate|reflexivity].
  Qed.

  Lemma clsb_sound : forall k open path x l, clsb k open path x l = true -> cls fs (rel_fs fs root) parse_ref EF k open path x l.
  Proof.
    induction k as [|k IHk]; intros open path x l; [intros _; exact I|].
    revert x. induction l as [|e r IHl]; intros x H; [exact I|].
    rewrite clsb_cons in H. rewrite cls_cons.
    destruct (include_name e) as [v|].
    - apply andb_prop in H. destruct H as (H & H3). apply andb_prop in H. destruct H as (H1 & H2).
      apply ScopeProofs.str_eqb_eq in H1. split; [|split].
      + unfold rel_fs. rewrite H1. reflexivity.
      + intros HI. assert (K : existsb (fun o => CtxModel.str_eqb o (resolve_path path v)) (path :: open) = true).
        { apply existsb_exists. exists (resolve_path path v). split; [exact HI|apply ScopeProofs.str_eqb_refl]. }
        rewrite K in H2. discriminate.
      + destruct (rel_fs fs root v) as [text|]; [|exact I]. destruct (parse_ref text) as [prog|]; [|exact I].
        apply andb_prop in H3. destruct H3 as (H3 & H4). split; [apply IHk; exact H3|].
        destruct (xfile k (rel_fs fs root) parse_ref (xpush x) prog) as [x1|]; [|exact I].
        destruct (xpop x1) as [x'|]; [|exact I]. apply IHl. exact H4.
    - apply andb_prop in H. destruct H as (H1 & H2). split; [apply stmt_clsb_sound; exact H1|].
      destruct (xstep (rel_fs fs root) x e) as [x'|]; [|exact I].
      apply andb_prop in H2. destruct H2 as (H2 & H3). split; [apply fresh_xb_sound; exact H2|apply IHl; exact H3].
  Qed.
End Check.

(* the executable form of C05_project_class *)
Definition project_check (fs : str -> option (list N)) (path : str) (prog : list element_value) : bool :=
  match px_final (rel_fs fs path) parse_ref prog with
  | Some x2 => clsb fs path (EF_of x2) 8 [] path px0 prog
  | None => false
  end.

Lemma project_check_sound fs path prog : project_check fs path prog = true -> C05_project_class fs path prog.
Proof.
  unfold project_check, C05_project_class. destruct (px_final (rel_fs fs path) parse_ref prog) as [x2|]; [|discriminate].
  apply clsb_sound.
Qed.
