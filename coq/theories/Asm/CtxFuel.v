(* C06 proofs, part 3: where the model's OutOfFuel outcome can NOT come from.
   * the tokenizer / parser fuel never runs out (parse_source_total, Asm/CtxNoPanic.v);
   * the round bound of the task loops (task_rounds = 4) is never the reason: a task never adds to the list that is
     being drained (run_task leaves local_tasks alone, and a re-scheduled statement adds nothing to global_tasks), so
     the second round finds an empty list.  If local_loop / final_loop return OutOfFuel, a task of the first round did.
   What remains as a source of OutOfFuel: the include-depth fuel of `assemble` and the fuel of the map's binary search
   (excluded under the map invariant by C15, not composed here).  Proof file. *)
From Coq Require Import ZArith NArith PeanoNat List Bool Lia.
From Trion Require Import Text.Types Asm.CtxModel Asm.CtxInvDefs Asm.CtxNoPanic.
From Trion Require Expr.EvalModel.
Import ListNotations.

Lemma spost_eqs {A} st (r : res A) a st' : spost st r -> r = Ret a st' -> eqs st st'.
Proof. intros S E. rewrite E in S. exact S. Qed.

(* a task never touches local_tasks; a re-scheduled statement (plain) adds nothing to global_tasks *)
Lemma run_task_lists dbg st t r st' : ev_ok st -> run_task dbg st t = Ret r st' ->
  local_tasks st' = local_tasks st /\ (plain t -> global_tasks st' = global_tasks st).
Proof.
  intros EV. destruct t as [ai g|d g|name line col|name line col]; cbn [run_task plain]; unfold bind.
  - pose proof (instr_assemble_s st ai false EV) as IA.
    destruct (instr_assemble st ai false) as [[op ai'] st1| |]; try contradiction.
    destruct IA as (_ & _ & G1 & L1 & _). destruct op.
    + intros W. pose proof (spost_eqs _ _ _ _ (write_instr_s dbg st1 ai' false) W) as (_ & _ & G2 & L2 & _).
      split; [congruence|intros _; congruence].
    + destruct g.
      * intros H; inversion H; subst. split; [exact L1|intros _; exact G1].
      * cbn [add_task]. intros H; inversion H; subst. split; [exact L1|intros []].
    + intros H; inversion H; subst. split; [exact L1|intros _; exact G1].
  - pose proof (data_apply_s dbg st d false EV) as DA.
    destruct (data_apply dbg st d false) as [[op d'] st1| |]; try discriminate.
    destruct DA as (_ & _ & G1 & L1 & _). destruct op.
    + intros H; inversion H; subst. split; [exact L1|intros _; exact G1].
    + destruct g.
      * intros H; inversion H; subst. split; [exact L1|intros _; exact G1].
      * cbn [add_task]. intros H; inversion H; subst. split; [exact L1|intros []].
    + intros H; inversion H; subst. split; [exact L1|intros _; exact G1].
  - destruct (get_constant st name RLocal) as [[v| |]|]; try discriminate;
      try (intros H; inversion H; subst; split; [reflexivity|intros []]).
    unfold insert_constant. destruct (is_register name); cbn [realm_table].
    { discriminate. }
    destruct (tbl_get (globals st) name) as [[z|]|]; intros H; inversion H; subst; split; try reflexivity; intros [].
  - destruct (get_constant st name RLocal) as [[v| |]|]; try discriminate;
      intros H; inversion H; subst; split; try reflexivity; intros [].
Qed.

Lemma local_round_lists dbg tasks : forall st r r' st', tinv st -> infile st ->
  local_round dbg tasks st r = Ret r' st' -> local_tasks st' = local_tasks st.
Proof.
  induction tasks as [|t rest IH]; intros st r r' st' T I; cbn [local_round]; unfold bind.
  - intros H; inversion H; reflexivity.
  - pose proof (run_task_q dbg st t T (or_introl I)) as Q.
    destruct (run_task dbg st t) as [x st1| |] eqn:E; try discriminate. destruct Q as (T1 & K1).
    destruct (run_task_lists dbg st t x st1 (infile_ev_ok _ I) E) as (L1 & _).
    pose proof (infile_keeps _ _ I K1) as I1.
    destruct x as [lvl|].
    + destruct (is_fatal lvl); [intros H; inversion H; subst; exact L1|].
      intros H. apply IH in H; try assumption. congruence.
    + intros H. apply IH in H; try assumption. congruence.
Qed.

Lemma local_loop_nil dbg k st r : local_loop dbg k [] st r = Ret r st.
Proof. destruct k; reflexivity. Qed.

(* the rounds of the end-of-file loop: if the loop runs out of fuel, the first round did (i.e. one of its tasks) *)
Theorem local_loop_fuel dbg k tasks st r : tinv st -> infile st -> local_tasks st = Some [] ->
  local_loop dbg (S k) tasks st r = OutOfFuel -> local_round dbg tasks st r = OutOfFuel.
Proof.
  intros T I E. cbn [local_loop]. destruct tasks as [|t0 tl]; [discriminate|]. unfold bind.
  destruct (local_round dbg (t0 :: tl) st r) as [r' st1|p|] eqn:R; [|discriminate|reflexivity].
  rewrite (local_round_lists _ _ _ _ _ _ T I R), E.
  destruct (res_is_fatal r'); [discriminate|]. rewrite local_loop_nil. discriminate.
Qed.

Lemma final_round_lists dbg tasks : forall st abort st', tinv st -> path_stack st = [] -> Forall plain tasks ->
  final_round dbg tasks st = Ret abort st' -> global_tasks st' = global_tasks st.
Proof.
  induction tasks as [|t rest IH]; intros st abort st' T P F; cbn [final_round]; unfold bind.
  - intros H; inversion H; reflexivity.
  - inversion F as [|? ? Pt Fr]; subst.
    pose proof (run_task_q dbg st t T (or_intror (conj P Pt))) as Q.
    destruct (run_task dbg st t) as [x st1| |] eqn:E; try discriminate. destruct Q as (T1 & K1).
    destruct (run_task_lists dbg st t x st1 (top_ev_ok _ P) E) as (_ & G1). specialize (G1 Pt).
    destruct (res_is_fatal x); [intros H; inversion H; subst; exact G1|].
    intros H. apply IH in H; try assumption; [congruence|]. destruct K1 as (P1 & _). congruence.
Qed.

Lemma final_loop_nil dbg k st : final_loop dbg k [] st = Ret false st.
Proof. destruct k; reflexivity. Qed.

Theorem final_loop_fuel dbg k tasks st : tinv st -> path_stack st = [] -> Forall plain tasks -> global_tasks st = [] ->
  final_loop dbg (S k) tasks st = OutOfFuel -> final_round dbg tasks st = OutOfFuel.
Proof.
  intros T P F G. cbn [final_loop]. destruct tasks as [|t0 tl]; [discriminate|]. unfold bind.
  destruct (final_round dbg (t0 :: tl) st) as [abort st1|p|] eqn:R; [|discriminate|reflexivity].
  rewrite (final_round_lists _ _ _ _ _ T P F R), G.
  destruct abort; [discriminate|]. rewrite final_loop_nil. discriminate.
Qed.

(* the statements of Properties/C06.v *)
Theorem fuel_not_rounds dbg :
  (forall data, exists items, parse_source data = Parsed items None) /\
  (forall k tasks st r, tinv st -> infile st -> local_tasks st = Some [] ->
     local_loop dbg (S k) tasks st r = OutOfFuel -> local_round dbg tasks st r = OutOfFuel) /\
  (forall k tasks st, tinv st -> path_stack st = [] -> Forall plain tasks -> global_tasks st = [] ->
     final_loop dbg (S k) tasks st = OutOfFuel -> final_round dbg tasks st = OutOfFuel).
Proof. split; [exact parse_source_total|]. split; [apply local_loop_fuel|apply final_loop_fuel]. Qed.
