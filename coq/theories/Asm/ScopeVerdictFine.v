(* C14, the converse direction (oracle verdict => behaviour of the run), part 1: the oracle side.
   `fine d pp t`: a purely arithmetical description of an expanded occurrence t (ScopeSpec.tree) of depth <= d in which nothing
   the oracle lists as an error occurs; pp = the names its includer mentions.  Per name y, with
       nv = number of definitions of y in the occurrence (own `.const` / label, or an included occurrence that hands y up),
       ni = number of `.import y`,   nu = number of `.global y` / `.export y`:
     nv + ni <= 1,  nu <= 1,  nu >= 1 -> ni = 0 /\ nv >= 1,  ni >= 1 -> pp y,  a used name is mentioned (nv + ni + nu >= 1),
     and every included occurrence is fine with pp := the names this one mentions.
   fine_errors / fine_top: such a tree (without register names) has an EMPTY error list in the oracle - for every includer
   environment that has a value for the names in pp and at most one value per name.
   The model side (Asm/ScopeVerdictRun.v) shows that a run that returns Ok produces a fine tree.
   Proof file about Asm/ScopeSpec.v only (no model). *)
From Coq Require Import ZArith NArith List Bool Lia.
From Trion Require Import Text.Types.
From Trion Require Import Asm.ScopeRefine Asm.ScopeLink Asm.ScopeLinkReg.
Import ListNotations.

(* ------------------------------------------------------------------ counting *)
Definition b2n (b : bool) : nat := if b then 1%nat else 0%nat.

Definition dv (i : SP.item) (y : SP.name) : nat :=
  match i with SP.IDef x _ => b2n (SP.str_eqb y x) | SP.IChild c => SP.ups c y | _ => 0%nat end.
Definition di (i : SP.item) (y : SP.name) : nat :=
  match i with SP.IImport x => b2n (SP.str_eqb y x) | _ => 0%nat end.
Definition du (i : SP.item) (y : SP.name) : nat :=
  match i with SP.IExport x | SP.IGlobal x => b2n (SP.str_eqb y x) | _ => 0%nat end.

Fixpoint sumf (f : SP.item -> SP.name -> nat) (l : list SP.item) (y : SP.name) : nat :=
  match l with [] => 0%nat | i :: r => (f i y + sumf f r y)%nat end.

Definition nv := sumf dv.
Definition ni := sumf di.
Definition nu := sumf du.
Definition mentioned (l : list SP.item) (y : SP.name) : Prop := (1 <= nv l y + ni l y + nu l y)%nat.

Lemma sumf_app f a b y : sumf f (a ++ b) y = (sumf f a y + sumf f b y)%nat.
Proof. induction a as [|i a IH]; cbn [app sumf]; [reflexivity|]. rewrite IH. lia. Qed.

Lemma sumf_in f l y i : In i l -> (f i y <= sumf f l y)%nat.
Proof. induction l as [|j l IH]; intros H; [destruct H|]. cbn [sumf]. destruct H as [->|H]; [lia|]. specialize (IH H). lia. Qed.

Lemma sumf_pos f l y : (1 <= sumf f l y)%nat -> exists i, In i l /\ (1 <= f i y)%nat.
Proof. induction l as [|j l IH]; cbn [sumf]; intros H; [lia|].
  destruct (f j y) as [|n] eqn:E.
  - destruct (IH ltac:(lia)) as (i & I1 & I2). exists i. split; [right; exact I1|exact I2].
  - exists j. split; [left; reflexivity|lia]. Qed.

Lemma ups_nu l y : SP.ups (SP.Node l) y = nu l y.
Proof. unfold SP.ups, nu. cbn [SP.items_of]. induction l as [|i l IH]; [reflexivity|]. cbn [filter sumf].
  destruct i; cbn [du]; try exact IH; destruct (SP.str_eqb y x); cbn [b2n List.length]; rewrite IH; reflexivity. Qed.
Lemma imports_ni l y : SP.imports (SP.Node l) y = ni l y.
Proof. unfold SP.imports, ni. cbn [SP.items_of]. induction l as [|i l IH]; [reflexivity|]. cbn [filter sumf].
  destruct i; cbn [di]; try exact IH; destruct (SP.str_eqb y x); cbn [b2n List.length]; rewrite IH; reflexivity. Qed.

Lemma ups_items t y : SP.ups t y = nu (SP.items_of t) y.
Proof. destruct t as [l]. apply ups_nu. Qed.
Lemma imports_items t y : SP.imports t y = ni (SP.items_of t) y.
Proof. destruct t as [l]. apply imports_ni. Qed.

Lemma sp_eqb_neq a b : a <> b -> SP.str_eqb a b = false.
Proof. intros H. destruct (SP.str_eqb a b) eqn:E; [|reflexivity]. apply sp_eqb_eq in E. congruence. Qed.

Lemma repeat_app_length {A} n (l : list A) : List.length (SP.repeat_app n l) = (n * List.length l)%nat.
Proof. induction n as [|n IH]; [reflexivity|]. cbn [SP.repeat_app]. rewrite app_length, IH. lia. Qed.

(* ------------------------------------------------------------------ fine trees *)
Fixpoint fine (d : nat) (pp : SP.name -> Prop) (t : SP.tree) : Prop :=
  match d with
  | O => False
  | S d' =>
      let l := SP.items_of t in
      (forall y, nv l y + ni l y <= 1)%nat /\
      (forall y, nu l y <= 1)%nat /\
      (forall y, 1 <= nu l y -> ni l y = 0 /\ 1 <= nv l y)%nat /\
      (forall y, (1 <= ni l y)%nat -> pp y) /\
      (forall y k, In (SP.IUse y k) l -> mentioned l y) /\
      (forall c, In (SP.IChild c) l -> fine d' (mentioned l) c)
  end.

Lemma fine_weaken d : forall (pp pp' : SP.name -> Prop) t, (forall y, pp y -> pp' y) -> fine d pp t -> fine d pp' t.
Proof. destruct d as [|d]; intros pp pp' t W H; [destruct H|]. cbn [fine] in *.
  destruct H as (H1 & H2 & H3 & H4 & H5 & H6). repeat split; auto; apply H3; assumption. Qed.

Lemma fine_down d : forall pp t, fine d pp t -> forall y, List.length (SP.down t y) = nv (SP.items_of t) y.
Proof.
  induction d as [|d IH]; intros pp t F y; [destruct F|]. cbn [fine] in F. destruct F as (_ & _ & _ & _ & _ & FC).
  destruct t as [l]. cbn [SP.items_of] in *.
  assert (G : forall l0, (forall c, In (SP.IChild c) l0 -> In (SP.IChild c) l) -> List.length (SP.down (SP.Node l0) y) = nv l0 y).
  { induction l0 as [|i r IHr]; intros SUB; [reflexivity|]. rewrite down_cons, app_length. unfold nv in *. cbn [sumf].
    rewrite IHr by (intros c H; apply SUB; right; exact H). f_equal.
    destruct i as [x v|x|x|x|x k|c]; cbn [dv]; try reflexivity.
    - destruct (SP.str_eqb y x); reflexivity.
    - specialize (FC c (SUB c (or_introl eq_refl))).
      rewrite repeat_app_length, (IH _ _ FC y).
      destruct d as [|d0]; [destruct FC|]. cbn [fine] in FC. destruct FC as (C1 & C2 & C3 & _).
      rewrite ups_items. specialize (C1 y). specialize (C2 y). specialize (C3 y).
      destruct (nu (SP.items_of c) y) as [|[|n]]; [reflexivity| |lia]. destruct (C3 ltac:(lia)) as (_ & C4).
      unfold nv in *. lia. }
  apply G. auto.
Qed.

Lemma sources_length d pp t penv y : fine d pp t ->
  List.length (SP.sources t penv y) = (nv (SP.items_of t) y + ni (SP.items_of t) y * List.length (penv y))%nat.
Proof. intros F. unfold SP.sources. rewrite app_length, repeat_app_length, (fine_down d pp t F y), imports_items. reflexivity. Qed.

Lemma two_or_more_false {A} (l : list A) : (List.length l <= 1)%nat -> SP.two_or_more l = false.
Proof. destruct l as [|a [|b r]]; cbn; intros H; [reflexivity|reflexivity|lia]. Qed.
Lemma is_nil_false {A} (l : list A) : (1 <= List.length l)%nat -> SP.is_nil l = false.
Proof. destruct l; cbn; intros H; [lia|reflexivity]. Qed.

Lemma flat_map_nil {A B} (f : A -> list B) l : (forall a, In a l -> f a = []) -> flat_map f l = [].
Proof. induction l as [|a l IH]; intros H; [reflexivity|]. cbn [flat_map]. rewrite (H a (or_introl eq_refl)), IH; [reflexivity|].
  intros b Hb. apply H. right. exact Hb. Qed.

(* ------------------------------------------------------------------ a fine tree has no oracle error *)
Theorem fine_errors : forall d pp t (penv : SP.name -> list Z), fine d pp t -> noreg_items (SP.items_of t) ->
  (forall y, pp y -> penv y <> []) -> (forall y, List.length (penv y) <= 1)%nat ->
  SP.errors t penv = [].
Proof.
  induction d as [|d IH]; intros pp t penv F NR P1 P2; [destruct F|].
  pose proof F as F0. cbn [fine] in F. destruct F as (F1 & F2 & F3 & F4 & F5 & F6).
  destruct t as [l]. cbn [SP.items_of] in *.
  assert (LEN : forall y, List.length (SP.sources (SP.Node l) penv y) = (nv l y + ni l y * List.length (penv y))%nat)
    by (intros y; exact (sources_length (S d) pp (SP.Node l) penv y F0)).
  assert (LE1 : forall y, (List.length (SP.sources (SP.Node l) penv y) <= 1)%nat).
  { intros y. rewrite LEN. specialize (F1 y). specialize (P2 y). nia. }
  assert (TM : forall y, SP.two_or_more (SP.sources (SP.Node l) penv y) = false) by (intros y; apply two_or_more_false, LE1).
  assert (PP : forall y, pp y -> (1 <= List.length (penv y))%nat).
  { intros y H. specialize (P1 y H). destruct (penv y); [congruence|cbn; lia]. }
  assert (MS : forall y, mentioned l y -> (1 <= List.length (SP.sources (SP.Node l) penv y))%nat).
  { intros y M. rewrite LEN. unfold mentioned in M. specialize (F3 y). specialize (F4 y).
    destruct (nv l y) as [|a]; [|lia]. destruct (ni l y) as [|b].
    - destruct (F3 ltac:(lia)) as (_ & X). lia.
    - specialize (PP y (F4 ltac:(lia))). nia. }
  rewrite errors_node.
  assert (A1 : SP.local_errors (SP.Node l) penv = []); [|assert (A2 : flat_map (child_errors (SP.sources (SP.Node l) penv)) l = []);
    [|rewrite A1, A2; reflexivity]].
  - (* the occurrence itself *)
    unfold SP.local_errors. cbn [SP.items_of]. apply flat_map_nil. intros i IN.
    pose proof (noreg_in l NR i IN) as RG.
    destruct i as [x v|x|x|x|x k|c].
    + rewrite RG, TM. reflexivity.
    + rewrite RG. pose proof (sumf_in du l x _ IN) as U. cbn [du] in U. rewrite sp_eqb_refl in U. cbn [b2n] in U.
      destruct (F3 x U) as (I0 & V1). rewrite is_nil_false by (apply MS; unfold mentioned; lia).
      rewrite imports_ni, I0. reflexivity.
    + rewrite RG, TM. pose proof (sumf_in di l x _ IN) as U. cbn [di] in U. rewrite sp_eqb_refl in U. cbn [b2n] in U.
      rewrite is_nil_false by (apply PP, F4, U). reflexivity.
    + rewrite RG. pose proof (sumf_in du l x _ IN) as U. cbn [du] in U. rewrite sp_eqb_refl in U. cbn [b2n] in U.
      destruct (F3 x U) as (I0 & V1). rewrite is_nil_false by (apply MS; unfold mentioned; lia).
      rewrite imports_ni, I0. reflexivity.
    + rewrite is_nil_false by (apply MS; eapply F5; eauto). rewrite TM. reflexivity.
    + apply flat_map_nil. intros y _. rewrite TM. reflexivity.
  - (* the included occurrences *)
    apply flat_map_nil. intros i IN. destruct i as [x v|x|x|x|x k|c]; try reflexivity. cbn [child_errors].
    apply (IH (mentioned l) c).
    + exact (F6 c IN).
    + exact (noreg_in l NR _ IN).
    + intros y M. specialize (MS y M). destruct (SP.sources (SP.Node l) penv y); [cbn in MS; lia|discriminate].
    + exact LE1.
Qed.

Theorem fine_top d pp t : fine d pp t -> SP.top_errors t = [].
Proof.
  intros F. unfold SP.top_errors. apply flat_map_nil. intros y _.
  rewrite two_or_more_false; [reflexivity|]. rewrite repeat_app_length, (fine_down d pp t F y), ups_items.
  destruct d as [|d]; [destruct F|]. cbn [fine] in F. destruct F as (F1 & F2 & _). specialize (F1 y). specialize (F2 y). nia.
Qed.
