(* C13 proofs, part 5: close / select / change_segment and the two ways a statement's bytes are written
   (write_stmt at the current address; write_stmt over an allocated range) keep `good` and `mono`. *)
From Coq Require Import ZArith NArith PeanoNat List Bool Lia ZifyBool ZifyNat ZifyN.
From Trion Require Import Text.Types Mem.MapModel Mem.DictSpec Mem.MapProofs Asm.CtxModel Asm.SegProofs Asm.SegPut Asm.InstrSize Asm.CtxInvDefs.
From Trion Require Mem.MapLemmas.
Import ListNotations.
Open Scope N_scope.
Local Notation len := MapModel.len.
Local Notation U32 := MapModel.U32.

(* ---------------------------------------------------------------- state updates *)
Lemma active_update_good st s s' : good st -> active st = Active s -> SegInv (output st) s' ->
  s_base s' = s_base s -> blen s <= blen s' ->
  good (set_active st (Active s')) /\ mono st (set_active st (Active s')).
Proof.
  intros (HI & G1 & G2) EA HS Hb Hl.
  assert (M : mono st (set_active st (Active s'))).
  { intros a n [(s0 & E0 & H1 & H2)|H]; [left|right; exact H].
    rewrite EA in E0. inversion E0. subst s0. exists s'. split; [reflexivity|]. unfold in_active. lia. }
  split; [|exact M]. split; [split; [exact (proj1 HI)|exact HS]|]. split.
  - eapply tasks_ok_mono; eauto.
  - cbn [local_tasks set_active]. destruct (local_tasks st); [eapply tasks_ok_mono; eauto|exact I].
Qed.

Lemma output_update_good st m' : good st -> Rep m' -> (forall x, occupied m' x <-> occupied (output st) x) ->
  good (set_output st m') /\ mono st (set_output st m').
Proof.
  intros (HI & G1 & G2) HR' Ho.
  assert (M : mono st (set_output st m')).
  { intros a n [H|H]; [left; exact H|right]. intros x H1 H2. apply Ho. apply H; assumption. }
  split; [|exact M]. split; [|split].
  - split; [exact HR'|]. cbn [active set_output output]. destruct HI as (HR & HA). destruct (active st); [exact I|].
    eapply seginv_occ_eq; eauto.
  - eapply tasks_ok_mono; eauto.
  - cbn [local_tasks set_output]. destruct (local_tasks st); [eapply tasks_ok_mono; eauto|exact I].
Qed.

(* ---------------------------------------------------------------- close_segment *)
Lemma close_good dbg st : good st ->
  exists st' b, close_segment dbg st = Ret (inl b) st' /\ good st' /\ mono st st' /\ active st' = Inactive /\
    (forall x, occupied (output st') x <->
       occupied (output st) x \/ match active st with
                                 | Active s => s_base s <= x /\ x < s_base s + blen s
                                 | Inactive => False
                                 end).
Proof.
  intros G. pose proof G as ((HR & HA) & G1 & G2). unfold close_segment. destruct (active st) as [|s] eqn:EA.
  - exists st, false. split; [reflexivity|]. split; [exact G|]. split; [apply mono_refl|]. split; [exact EA|]. intros x; tauto.
  - destruct HA as (H1 & H0 & H2 & H3).
    destruct (put_fresh dbg (output st) (s_base s) (s_buf s) HR) as (m' & E & HR' & Hocc).
    + unfold blen in H1. rewrite len_eq in H1. unfold CtxSeg.U32 in H2. lia.
    + intros g Hg. destruct (H3 g Hg) as [K|K]; [left; exact K|right]. unfold blen in H1. rewrite len_eq in H1. lia.
    + rewrite E. assert (Eq : (len (s_buf s) =? blen s) = true) by (unfold blen, CtxSeg.len; apply N.eqb_refl). rewrite Eq.
      set (st' := set_active (set_output st m') Inactive).
      assert (M : mono st st').
      { intros a n [(s0 & E0 & A1 & A2)|H]; right; intros x X1 X2; apply Hocc.
        - rewrite EA in E0. inversion E0. subst s0. right. unfold blen in *. rewrite len_eq in *. lia.
        - left. apply H; assumption. }
      exists st', true. split; [reflexivity|]. split; [|split; [exact M|split; [reflexivity|exact Hocc]]].
      split; [split; [exact HR'|exact I]|]. split.
      * eapply tasks_ok_mono; eauto.
      * cbn. destruct (local_tasks st); [eapply tasks_ok_mono; eauto|exact I].
Qed.

(* ---------------------------------------------------------------- select_segment / change_segment *)
Lemma select_good dbg st addr : good st -> active st = Inactive -> addr < U32 -> post st (select_segment dbg st addr).
Proof.
  intros G EA Hlt. pose proof G as ((HR & _) & G1 & G2).
  destruct (select_ok dbg st addr HR EA Hlt) as [(_ & E)|(_ & s & E & B & Bu & HS)]; rewrite E; cbn [post].
  - split; [exact G|apply mono_refl].
  - assert (M : mono st (set_active st (Active s))).
    { intros a n [(s0 & E0 & _)|H]; [congruence|right; exact H]. }
    split; [|exact M]. split; [split; [exact HR|exact HS]|]. split.
    + eapply tasks_ok_mono; eauto.
    + cbn. destruct (local_tasks st); [eapply tasks_ok_mono; eauto|exact I].
Qed.

Lemma change_good dbg st addr : good st -> addr < U32 -> post st (change_segment dbg st addr).
Proof.
  intros G Hlt. unfold change_segment. destruct (active st) as [|s] eqn:EA.
  - apply select_good; assumption.
  - destruct ((addr =? s_base s) && match s_buf s with [] => true | _ :: _ => false end).
    + apply post_ret. exact G.
    + destruct (close_good dbg st G) as (st' & b & E & G' & M & EA' & _). rewrite E. cbn [CtxModel.bind].
      eapply post_weaken; [exact M|]. apply select_good; assumption.
Qed.

(* ---------------------------------------------------------------- curr_addr *)
Lemma curr_addr_small m s : SegInv m s -> blen s < U32 -> curr_addr s = N.min (s_base s + blen s) MapModel.U32MAX.
Proof.
  intros HI Hl. unfold curr_addr, sat_add32, CtxSeg.U32MAX, MapModel.U32MAX, MapModel.U32 in *. lia.
Qed.

(* fix 8bb2c3e: the length saturates, so every address inside the buffer is <= curr_addr, also with 2^32 bytes *)
Lemma curr_addr_covers m s a : SegInv m s -> a < s_base s + blen s -> a <= curr_addr s.
Proof.
  intros (H1 & H0 & H2 & _) Ha. unfold curr_addr, sat_add32, CtxSeg.U32MAX, CtxSeg.U32, MapModel.U32MAX, MapModel.U32 in *. lia.
Qed.

Lemma curr_addr_exact m s : SegInv m s -> blen s < s_max s -> curr_addr s = s_base s + blen s.
Proof.
  intros HI Hl. pose proof HI as (H1 & H0 & H2 & _). unfold CtxSeg.U32 in H2.
  rewrite (curr_addr_small m s HI) by lia. unfold MapModel.U32MAX, MapModel.U32 in *. lia.
Qed.

(* ---------------------------------------------------------------- write_stmt at the current address *)
Lemma splice_end buf data : splice buf (len buf) data = buf ++ data.
Proof.
  unfold splice. rewrite takeN_all by lia. rewrite dropN_all by lia. now rewrite app_nil_r.
Qed.

Lemma write_fresh dbg st s file line col data ko kp pa : Inv st -> active st = Active s -> blen s < s_max s ->
  write_stmt dbg st file line col (curr_addr s) data ko kp pa =
    if blen s + len data <=? s_max s then Ret None (set_active st (Active (set_buf s (s_buf s ++ data))))
    else Ret (Some Fatal) (push_error_in st file line col ko).
Proof.
  intros (HR & HA) EA Hl. rewrite EA in HA. unfold write_stmt. rewrite EA.
  pose proof (curr_addr_exact _ _ HA Hl) as Ec.
  rewrite (covers_spec dbg _ _ _ HA). rewrite Ec.
  replace (s_base s + blen s - s_base s) with (blen s) by lia.
  assert (B1 : (s_base s <=? s_base s + blen s) = true) by lia.
  assert (B2 : (blen s <? blen s) = false) by lia.
  assert (B3 : (blen s =? blen s) = true) by lia.
  assert (B4 : (blen s <? s_max s) = true) by lia.
  rewrite B1, B2, B3, B4. cbn [andb orb].
  destruct (blen s + len data <=? s_max s) eqn:Ef.
  - destruct (write_at_ok dbg _ s (s_base s + blen s) data HA) as (W & _); [lia|lia|lia|].
    cbv zeta in W. rewrite W. replace (s_base s + blen s - s_base s) with (len (s_buf s)) by (unfold blen, CtxSeg.len; lia).
    rewrite splice_end. reflexivity.
  - destruct (write_at_overflow dbg _ s (s_base s + blen s) data HA) as (need & have & W); [lia|lia|lia|].
    rewrite W. reflexivity.
Qed.

Lemma append_good st s data : good st -> active st = Active s -> blen s + len data <= s_max s ->
  good (set_active st (Active (set_buf s (s_buf s ++ data)))) /\ mono st (set_active st (Active (set_buf s (s_buf s ++ data)))).
Proof.
  intros G EA Hf. pose proof G as ((HR & HA) & _). rewrite EA in HA.
  destruct (write_ok false _ s data HA Hf) as (_ & HS).
  apply (active_update_good st s _ G EA HS); [reflexivity|]. rewrite blen_set_buf, len_app. unfold blen, CtxSeg.len. lia.
Qed.

(* the result of writing a statement at the current address, from a good state *)
Lemma write_fresh_post dbg st s file line col data ko kp pa : good st -> active st = Active s -> blen s < s_max s ->
  post st (write_stmt dbg st file line col (curr_addr s) data ko kp pa).
Proof.
  intros G EA Hl. rewrite (write_fresh dbg st s file line col data ko kp pa (proj1 G) EA Hl).
  destruct (blen s + len data <=? s_max s) eqn:Ef.
  - apply append_good; [exact G|exact EA|lia].
  - apply same_post; [apply same_push_in|exact G].
Qed.

(* ---------------------------------------------------------------- write_stmt over an allocated range *)
Lemma len_splice buf start data : start + len data <= len buf -> len (splice buf start data) = len buf.
Proof.
  intros H. unfold splice. rewrite !len_app, len_takeN, len_dropN by lia. lia.
Qed.

Lemma write_alloc dbg st file line col addr data ko kp pa : Inv st -> allocated st addr (len data) -> 0 < len data ->
  (exists s, active st = Active s /\ in_active s addr (len data) /\
     write_stmt dbg st file line col addr data ko kp pa
        = Ret None (set_active st (Active (set_buf s (splice (s_buf s) (addr - s_base s) data)))))
  \/ (in_map (output st) addr (len data) /\
      exists m', write_stmt dbg st file line col addr data ko kp pa = Ret None (set_output st m') /\ Rep m' /\
        (forall x, occupied m' x <-> occupied (output st) x) /\ abs m' = d_write (abs (output st)) addr data).
Proof.
  intros (HR & HA) [(s & EA & A1 & A2)|Hin] Hl.
  - left. exists s. split; [exact EA|]. split; [split; assumption|]. rewrite EA in HA.
    unfold write_stmt. rewrite EA. rewrite (covers_spec dbg _ _ _ HA).
    assert (B1 : (s_base s <=? addr) = true) by lia.
    assert (B2 : (addr - s_base s <? blen s) = true) by lia.
    rewrite B1, B2. cbn [andb orb].
    assert (Ec : addr <= curr_addr s) by (apply (curr_addr_covers _ _ _ HA); lia).
    destruct (write_at_ok dbg _ s addr data HA) as (W & _); [lia|exact Ec| |].
    + destruct HA as (H1 & _). lia.
    + cbv zeta in W. rewrite W. reflexivity.
  - right. split; [exact Hin|].
    destruct (put_over_ok dbg (output st) addr data HR Hl Hin) as (m' & E & HR' & Ho & Ea).
    exists m'. split; [|auto].
    assert (P : put_stmt dbg st file line col addr data kp pa = Ret None (set_output st m')).
    { unfold put_stmt. rewrite E. reflexivity. }
    unfold write_stmt. destruct (active st) as [|s] eqn:EA; [exact P|].
    rewrite (covers_spec dbg _ _ _ HA).
    assert (Oa : occupied (output st) addr) by (apply Hin; lia).
    destruct (seginv_occ _ _ HA _ Oa) as [K|K].
    + assert (B1 : (s_base s <=? addr) = false) by lia. rewrite B1. cbn [andb]. exact P.
    + destruct HA as (H1 & H0 & H2 & _).
      assert (B2 : (addr - s_base s <? blen s) = false) by lia.
      assert (B3 : ((addr - s_base s =? blen s) && (blen s <? s_max s)) = false) by lia.
      rewrite B2, B3. rewrite andb_false_r. exact P.
Qed.

Lemma splice_good st s addr data : good st -> active st = Active s -> in_active s addr (len data) ->
  good (set_active st (Active (set_buf s (splice (s_buf s) (addr - s_base s) data)))) /\
  mono st (set_active st (Active (set_buf s (splice (s_buf s) (addr - s_base s) data)))).
Proof.
  intros G EA (A1 & A2). pose proof G as ((HR & HA) & _). rewrite EA in HA.
  assert (Hlen : len (splice (s_buf s) (addr - s_base s) data) = len (s_buf s)).
  { apply len_splice. unfold blen, CtxSeg.len in A2. lia. }
  apply (active_update_good st s _ G EA); [| reflexivity |].
  - destruct HA as (H1 & H0 & H2 & H3). unfold SegInv. rewrite blen_set_buf, Hlen. cbn [s_base s_max set_buf].
    unfold blen, CtxSeg.len in *. repeat split; auto.
  - rewrite blen_set_buf, Hlen. unfold blen, CtxSeg.len. lia.
Qed.

Lemma write_alloc_post dbg st file line col addr data ko kp pa : good st -> allocated st addr (len data) -> 0 < len data ->
  post st (write_stmt dbg st file line col addr data ko kp pa).
Proof.
  intros G Ha Hl.
  destruct (write_alloc dbg st file line col addr data ko kp pa (proj1 G) Ha Hl)
    as [(s & EA & Hin & E)|(_ & m' & E & HR' & Ho & _)]; rewrite E; cbn [post].
  - apply splice_good; assumption.
  - apply output_update_good; assumption.
Qed.
