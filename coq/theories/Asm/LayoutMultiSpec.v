(* C05 for projects, part 1: facts about the reference Asm/LayoutSpecExt.v alone (no context model):
   unfolding of the walk, what one step / one included file / the end of a file do to the stack of tables, monotonicity of the
   tables (a value stays), well-formedness of the binding lists, the final table of a finished file instance. *)
From Coq Require Import ZArith NArith PeanoNat List Bool Lia ZifyBool ZifyNat ZifyN String.
From Coq Require Sorting.Permutation.
From Trion Require Import Text.Types Expr.I64 Expr.EvalModel Expr.Denote Arm.Instr Arm.DisplayModel Arm.AsmStmtModel Arm.EncodeModel
  Mem.MapModel Mem.DictSpec Mem.MapProofs Mem.MapLemmas
  Asm.CtxModel Asm.LayoutSpec Asm.LayoutWf Asm.LayoutEval Asm.LayoutDict Asm.LayoutSim Asm.LayoutStep Asm.LayoutFinal Asm.LayoutProg Asm.LayoutProgFinal.
From Trion Require Text.ParseModel.
From Trion Require Import Asm.LayoutSpecExt Asm.LayoutMulti Asm.LayoutMultiEval.
Import ListNotations.
Open Scope N_scope.

(* ------------------------------------------------------------------ parsing *)
Lemma all_ok_map : forall items els, all_ok items = Some els -> items = map Text.ParseModel.IOk els.
Proof.
  induction items as [|[e|d] r IH]; intros els H; cbn [all_ok] in H.
  - inversion H; reflexivity.
  - destruct (all_ok r) as [l|]; [|discriminate]. inversion H; subst. cbn [map]. f_equal. apply IH. reflexivity.
  - discriminate.
Qed.

Lemma parse_els_ok text els : parse_els text = Some els -> parse_source text = Parsed (map Text.ParseModel.IOk els) None.
Proof.
  unfold parse_els. destruct (parse_source text) as [items [o|]]; try discriminate. intros H.
  rewrite (all_ok_map _ _ H). reflexivity.
Qed.

Lemma parse_ref_els text prog : parse_ref text = Some prog -> exists els, parse_els text = Some els /\ prog = map e_val els.
Proof.
  unfold parse_ref. destruct (parse_els text) as [els|]; [|discriminate]. intros H; inversion H; subst. eauto.
Qed.

(* ------------------------------------------------------------------ unfolding the walk *)
Definition xinc (k : nat) (fsr : str -> option (list N)) (prs : list N -> option (list element_value)) (x : px) (v : str) : option px :=
  match fsr v with
  | Some text => match prs text with
                 | Some prog => match xfile k fsr prs (xpush x) prog with Some x1 => xpop x1 | None => None end
                 | None => None
                 end
  | None => None
  end.

Lemma xfile_nil k fsr prs x : xfile (S k) fsr prs x [] = Some x.
Proof. reflexivity. Qed.

Lemma xfile_cons k fsr prs x e r : xfile (S k) fsr prs x (e :: r) =
  match (match include_name e with Some v => xinc k fsr prs x v | None => xstep fsr x e end) with
  | Some x' => xfile (S k) fsr prs x' r
  | None => None
  end.
Proof. reflexivity. Qed.

Lemma cls_nil fs fsr prs EF k open path x : cls fs fsr prs EF (S k) open path x [] = True.
Proof. reflexivity. Qed.

Lemma cls_cons fs fsr prs EF k open path x e r : cls fs fsr prs EF (S k) open path x (e :: r) =
  match include_name e with
  | Some v =>
      fsr v = fs (resolve_path path v) /\ ~ In (resolve_path path v) (path :: open) /\
      match fsr v with
      | Some text =>
          match prs text with
          | Some prog =>
              cls fs fsr prs EF k (path :: open) (resolve_path path v) (xpush x) prog /\
              match xfile k fsr prs (xpush x) prog with
              | Some x1 => match xpop x1 with Some x' => cls fs fsr prs EF (S k) open path x' r | None => True end
              | None => True
              end
          | None => True
          end
      | None => True
      end
  | None => stmt_cls fs fsr EF path x e /\ match xstep fsr x e with Some x' => fresh_x x e x' /\ cls fs fsr prs EF (S k) open path x' r | None => True end
  end.
Proof. reflexivity. Qed.

(* ------------------------------------------------------------------ the end of a file *)
Lemma xpop_inv x x' : xpop x = Some x' ->
  exists f p rest pe, x_stack x = f :: p :: rest /\ hand_over (f_env f) (f_env p) (f_glob f) = Some pe /\
    x' = mkPx (x_cur x) (set_env p pe :: rest) (x_next x) ((f_id f, (f_id p, f_env f)) :: x_done x) (x_items x).
Proof.
  unfold xpop. destruct (x_stack x) as [|f [|p rest]]; try discriminate.
  destruct (hand_over (f_env f) (f_env p) (f_glob f)) as [pe|] eqn:E; [|discriminate].
  intros H; inversion H; subst. exists f, p, rest, pe. auto.
Qed.

Lemma seqb_true a b : AsmStmtModel.str_eqb a b = true -> a = b.
Proof. exact (CtxNoPanic.str_eqb_true a b). Qed.
Lemma seqb_same a : AsmStmtModel.str_eqb a a = true.
Proof. exact (CtxNoPanic.str_eqb_same a). Qed.

Lemma sget_cons_eq n b e : sget ((n, b) :: e) n = Some b.
Proof. cbn [sget]. rewrite seqb_same. reflexivity. Qed.

Lemma sget_cons_ne n b e m : n <> m -> sget ((n, b) :: e) m = sget e m.
Proof.
  intros H. cbn [sget]. destruct (AsmStmtModel.str_eqb n m) eqn:E; [|reflexivity]. apply seqb_true in E. contradiction.
Qed.

Lemma str_dec (a b : str) : {a = b} + {a <> b}.
Proof. apply list_eq_dec, N.eq_dec. Qed.

Lemma hand_over_get fe : forall gl pe pe', hand_over fe pe gl = Some pe' ->
  (forall n, In n gl -> exists v, sget fe n = Some (BVal v) /\ sget pe' n = Some (BVal v) /\ sget pe n = Some BDecl) /\
  (forall n, ~ In n gl -> sget pe' n = sget pe n) /\ NoDup gl.
Proof.
  induction gl as [|n r IH]; intros pe pe' H; cbn [hand_over] in H.
  - inversion H; subst. split; [intros n []|]. split; [reflexivity|constructor].
  - destruct (sget fe n) as [[v| |]|] eqn:E1; try discriminate.
    destruct (sget pe n) as [[w| |]|] eqn:E2; try discriminate.
    destruct (IH _ _ H) as (A & B & C).
    assert (NI : ~ In n r).
    { intros Hi. destruct (A n Hi) as (w & _ & _ & W). rewrite sget_cons_eq in W. discriminate. }
    split; [|split].
    + intros m [<-|Hm].
      * exists v. split; [exact E1|]. split; [|exact E2]. rewrite (B n NI). apply sget_cons_eq.
      * destruct (A m Hm) as (w & W1 & W2 & W3). exists w. split; [exact W1|]. split; [exact W2|].
        destruct (AsmStmtModel.str_eqb n m) eqn:Enm.
        -- apply seqb_true in Enm. subst m. rewrite sget_cons_eq in W3. discriminate.
        -- cbn [sget] in W3. rewrite Enm in W3. exact W3.
    + intros m Hm. rewrite (B m) by (intros Hi; apply Hm; now right).
      apply sget_cons_ne. intros ->. apply Hm. now left.
    + constructor; assumption.
Qed.

Lemma hand_over_swf fe : forall gl pe pe', swf fe -> swf pe -> hand_over fe pe gl = Some pe' -> swf pe'.
Proof.
  induction gl as [|n r IH]; intros pe pe' W1 W2 H; cbn [hand_over] in H.
  - inversion H; subst. exact W2.
  - destruct (sget fe n) as [[v| |]|] eqn:E1; try discriminate.
    destruct (sget pe n) as [[w| |]|] eqn:E2; try discriminate.
    apply (IH _ _ W1) in H; [exact H|]. cbn [swf]. split; [eapply sget_not_reg; eauto|].
    split; [discriminate|]. split; [now right|exact W2].
Qed.

(* ------------------------------------------------------------------ a value stays *)
Definition fle (f f' : LayoutSpecExt.frame) : Prop :=
  f_id f' = f_id f /\ forall n v, sget (f_env f) n = Some (BVal v) -> sget (f_env f') n = Some (BVal v).

(* x' is a later pass-1 state of the same open file *)
Definition xle (x x' : px) : Prop :=
  exists f p f' p' rest, x_stack x = f :: p :: rest /\ x_stack x' = f' :: p' :: rest /\ fle f f' /\ fle p p' /\
    (forall d, In d (x_done x) -> In d (x_done x')) /\ (forall i, In i (x_items x) -> In i (x_items x')).

Lemma fle_refl f : fle f f.
Proof. split; auto. Qed.
Lemma fle_trans f g h : fle f g -> fle g h -> fle f h.
Proof. intros (A1 & B1) (A2 & B2). split; [congruence|auto]. Qed.
Lemma xle_refl x f p rest : x_stack x = f :: p :: rest -> xle x x.
Proof. intros H. exists f, p, f, p, rest. repeat split; auto. Qed.
Lemma xle_trans x y z : xle x y -> xle y z -> xle x z.
Proof.
  intros (f & p & f1 & p1 & rest & S1 & S2 & F1 & P1 & D1 & I1) (f2 & p2 & f3 & p3 & rest2 & S3 & S4 & F2 & P2 & D2 & I2).
  rewrite S2 in S3. inversion S3; subst f2 p2 rest2.
  exists f, p, f3, p3, rest. split; [exact S1|]. split; [exact S4|]. split; [eapply fle_trans; eauto|].
  split; [eapply fle_trans; eauto|]. split; auto.
Qed.

Lemma xstep_cases fsr x e x' : xstep fsr x e = Some x' ->
  (exists n v, xdefine x n v = Some x') \/ (exists n, xglobal x n = Some x') \/ (exists n, xexport x n = Some x') \/
  (exists name n, e = EDirective name [AIdent n] /\ dname name "import" = true /\ ximport x n = Some x') \/
  xplain fsr x e = Some x'.
Proof.
  intros H. unfold xstep in H. destruct e as [n|name args|name args].
  - destruct (x_cur x) as [a|]; [|discriminate]. destruct (a <? 4294967296); [|discriminate]. left. eauto.
  - destruct (dname name "const") eqn:D1.
    { destruct args as [|[| | | | | | | | | | | | | | | | |] [|a [|]]]; try discriminate.
      destruct (x_stack x) as [|f st]; [discriminate|]. destruct (den64 (rho (vals (f_env f))) a) as [v|]; [|discriminate]. left. eauto. }
    destruct (dname name "global") eqn:D2.
    { destruct args as [|[| | | | | | | | | | | | | | | | |] [|]]; try discriminate. right. left. eauto. }
    destruct (dname name "export") eqn:D3.
    { destruct args as [|[| | | | | | | | | | | | | | | | |] [|]]; try discriminate. right. right. left. eauto. }
    destruct (dname name "import") eqn:D4.
    { destruct args as [|[| | | | | | | | | | | | | | | | |] [|]]; try discriminate. right. right. right. left. eauto. }
    right. right. right. right. exact H.
  - right. right. right. right. exact H.
Qed.

Lemma fle_cons f n b gl : sget (f_env f) n = None \/ sget (f_env f) n = Some BDecl ->
  fle f (LayoutSpecExt.mkFrame (f_id f) ((n, b) :: f_env f) gl).
Proof.
  intros H. split; [reflexivity|]. cbn [f_env]. intros m v Hm. rewrite sget_cons_ne; [exact Hm|].
  intros ->. destruct H as [H|H]; rewrite H in Hm; discriminate.
Qed.

Lemma xle_stack x f p rest f' p' : x_stack x = f :: p :: rest -> fle f f' -> fle p p' -> xle x (set_stack x (f' :: p' :: rest)).
Proof. intros Hs F P. exists f, p, f', p', rest. repeat split; auto; try apply F; try apply P. Qed.

Lemma xstep_le fsr x e x' f p rest : x_stack x = f :: p :: rest -> xstep fsr x e = Some x' -> xle x x'.
Proof.
  intros Hs H. apply xstep_cases in H.
  destruct H as [(n & v & H)|[(n & H)|[(n & H)|[(name & n & _ & _ & H)|H]]]].
  - unfold xdefine in H. rewrite Hs in H. destruct (AsmStmtModel.is_register n); [discriminate|].
    destruct (sget (f_env f) n) as [[w| |]|] eqn:E; try discriminate; inversion H; subst;
      (eapply xle_stack; [exact Hs|apply fle_cons; auto|apply fle_refl]).
  - unfold xglobal in H. rewrite Hs in H. destruct (AsmStmtModel.is_register n); [discriminate|].
    destruct (sget (f_env p) n) eqn:E; [discriminate|].
    destruct (sget (f_env f) n) as [[w| |]|] eqn:E'; try discriminate; inversion H; subst.
    + eapply xle_stack; [exact Hs|apply fle_refl|apply fle_cons; auto].
    + eapply xle_stack; [exact Hs|apply fle_cons; auto|apply fle_cons; auto].
  - unfold xexport in H. rewrite Hs in H. destruct (sget (f_env f) n) as [[w| |]|] eqn:E; try discriminate.
    destruct (sget (f_env p) n) as [[w'| |]|] eqn:E'; try discriminate; inversion H; subst;
      (eapply xle_stack; [exact Hs|apply fle_refl|apply fle_cons; auto]).
  - unfold ximport in H. rewrite Hs in H. destruct (AsmStmtModel.is_register n); [discriminate|].
    destruct (sget (f_env f) n) eqn:E; [discriminate|].
    destruct (sget (f_env p) n) as [[w'| |]|] eqn:E'; try discriminate; inversion H; subst;
      (eapply xle_stack; [exact Hs|apply fle_cons; auto|apply fle_refl]).
  - unfold xplain in H. rewrite Hs in H.
    destruct (pass1_step fsr {| p_cur := x_cur x; p_env := vals (f_env f); p_items := [] |} e) as [s|]; [|discriminate].
    inversion H; subst. exists f, p, f, p, rest. cbn [x_stack x_done x_items]. split; [exact Hs|]. split; [reflexivity|].
    split; [apply fle_refl|]. split; [apply fle_refl|]. split; [auto|]. intros i Hi. apply in_or_app. now right.
Qed.

(* an included file, from the `.include` statement to the statement after it *)
Lemma xinc_le_aux fsr prs k :
  (forall x l x' f p rest, x_stack x = f :: p :: rest -> xfile k fsr prs x l = Some x' -> xle x x') ->
  forall x v x' f p rest, x_stack x = f :: p :: rest -> xinc k fsr prs x v = Some x' -> xle x x'.
Proof.
  intros IH x v x' f p rest Hs H. unfold xinc in H.
  destruct (fsr v) as [text|]; [|discriminate]. destruct (prs text) as [prog|]; [|discriminate].
  destruct (xfile k fsr prs (xpush x) prog) as [x1|] eqn:E1; [|discriminate].
  assert (Hp : x_stack (xpush x) = LayoutSpecExt.mkFrame (x_next x) [] [] :: f :: p :: rest) by (cbn [xpush x_stack]; rewrite Hs; reflexivity).
  destruct (IH _ _ _ _ _ _ Hp E1) as (f0 & p0 & f0' & p0' & rest0 & S0 & S1 & F0 & P0 & D0 & I0).
  rewrite Hp in S0. inversion S0; subst f0 p0 rest0. clear S0.
  destruct (xpop_inv _ _ H) as (f1 & p1 & rest1 & pe & S2 & HO & ->).
  rewrite S1 in S2. inversion S2; subst f1 p1 rest1. clear S2.
  destruct (hand_over_get _ _ _ _ HO) as (A & B & _).
  exists f, p, (set_env p0' pe), p, rest. cbn [x_stack x_done x_items].
  split; [exact Hs|]. split; [reflexivity|]. split; [|split; [apply fle_refl|]].
  - destruct P0 as (Pi & Pv). split; [exact Pi|]. cbn [set_env f_env]. intros n w Hn. apply Pv in Hn.
    destruct (in_dec str_dec n (f_glob f0')) as [Hi|Hi].
    + destruct (A n Hi) as (w' & _ & _ & W). rewrite W in Hn. discriminate.
    + rewrite (B n Hi). exact Hn.
  - split; [intros d Hd; right; apply D0; exact Hd|intros i Hi; apply I0; exact Hi].
Qed.

Lemma xfile_le fsr prs : forall k x l x' f p rest, x_stack x = f :: p :: rest -> xfile k fsr prs x l = Some x' -> xle x x'.
Proof.
  induction k as [|k IHk]; intros x l; [discriminate|].
  revert x. induction l as [|e r IHl]; intros x x' f p rest Hs H.
  - rewrite xfile_nil in H. inversion H; subst. eapply xle_refl; eauto.
  - rewrite xfile_cons in H.
    destruct (match include_name e with Some v => xinc k fsr prs x v | None => xstep fsr x e end) as [x1|] eqn:E1; [|discriminate].
    assert (L1 : xle x x1).
    { destruct (include_name e) as [v|]; [eapply xinc_le_aux; eauto|eapply xstep_le; eauto]. }
    pose proof L1 as (f0 & p0 & f1 & p1 & rest0 & S0 & S1 & _).
    eapply xle_trans; [exact L1|]. eapply IHl; eauto.
Qed.

Lemma xinc_le fsr prs k x v x' f p rest : x_stack x = f :: p :: rest -> xinc k fsr prs x v = Some x' -> xle x x'.
Proof. apply xinc_le_aux. apply xfile_le. Qed.

(* ------------------------------------------------------------------ well-formed tables *)
Definition xwf (x : px) : Prop :=
  exists f p rest, x_stack x = f :: p :: rest /\ swf (f_env f) /\ swf (f_env p) /\ Forall (fun d => swf (snd (snd d))) (x_done x).

(* the import clause of the class keeps BImp out of the tables *)
Lemma xstep_wf fs fsr EF path x e x' : xwf x -> stmt_cls fs fsr EF path x e -> xstep fsr x e = Some x' -> xwf x'.
Proof.
  intros (f & p & rest & Hs & Wf & Wp & Wd) HC H. unfold stmt_cls in HC. rewrite Hs in HC. destruct HC as (_ & _ & HI).
  apply xstep_cases in H.
  destruct H as [(n & v & H)|[(n & H)|[(n & H)|[(name & n & He & Hd & H)|H]]]].
  - unfold xdefine in H. rewrite Hs in H. destruct (AsmStmtModel.is_register n) eqn:R; [discriminate|].
    destruct (sget (f_env f) n) as [[w| |]|] eqn:E; try discriminate; inversion H; subst;
      (eexists _, p, rest; cbn [set_stack x_stack x_done set_env f_env]; split; [reflexivity|]; split; [|split; assumption];
       cbn [swf]; split; [exact R|]; split; [discriminate|]; split; [auto|exact Wf]).
  - unfold xglobal in H. rewrite Hs in H. destruct (AsmStmtModel.is_register n) eqn:R; [discriminate|].
    destruct (sget (f_env p) n) eqn:E; [discriminate|].
    destruct (sget (f_env f) n) as [[w| |]|] eqn:E'; try discriminate; inversion H; subst;
      (eexists _, _, rest; cbn [set_stack x_stack x_done set_env f_env]; split; [reflexivity|]).
    + split; [exact Wf|]. split; [|exact Wd]. cbn [swf]. split; [exact R|]. split; [discriminate|]. split; [auto|exact Wp].
    + split; [|split; [|exact Wd]]; cbn [swf]; (split; [exact R|]; split; [discriminate|]; split; [auto|assumption]).
  - unfold xexport in H. rewrite Hs in H. destruct (sget (f_env f) n) as [[w| |]|] eqn:E; try discriminate.
    pose proof (sget_not_reg _ _ _ Wf E) as R.
    destruct (sget (f_env p) n) as [[w'| |]|] eqn:E'; try discriminate; inversion H; subst;
      (eexists _, _, rest; cbn [set_stack x_stack x_done set_env f_env]; split; [reflexivity|]; split; [exact Wf|]; split; [|exact Wd];
       cbn [swf]; split; [exact R|]; split; [discriminate|]; split; [auto|exact Wp]).
  - destruct (HI _ _ He Hd) as (w & Ew).
    unfold ximport in H. rewrite Hs in H. destruct (AsmStmtModel.is_register n) eqn:R; [discriminate|].
    destruct (sget (f_env f) n) eqn:E; [discriminate|]. rewrite Ew in H. inversion H; subst.
    eexists _, _, rest; cbn [set_stack x_stack x_done set_env f_env]. split; [reflexivity|]. split; [|split; assumption].
    cbn [swf]. split; [exact R|]. split; [discriminate|]. split; [auto|exact Wf].
  - unfold xplain in H. rewrite Hs in H.
    destruct (pass1_step fsr {| p_cur := x_cur x; p_env := vals (f_env f); p_items := [] |} e) as [s|]; [|discriminate].
    inversion H; subst. exists f, p, rest. cbn [x_stack x_done]. auto.
Qed.

(* xpush / xpop around an included file *)
Lemma xpush_wf x : xwf x -> xwf (xpush x).
Proof.
  intros (f & p & rest & Hs & Wf & Wp & Wd). exists (LayoutSpecExt.mkFrame (x_next x) [] []), f, (p :: rest).
  cbn [xpush x_stack x_done f_env]. rewrite Hs. repeat split; auto.
Qed.

Lemma xpop_wf x x' f p q rest : x_stack x = f :: p :: q :: rest -> swf (f_env q) -> xwf x -> xpop x = Some x' -> xwf x'.
Proof.
  intros Hs Wq (f0 & p0 & rest0 & Hs0 & Wf & Wp & Wd) H.
  rewrite Hs in Hs0. inversion Hs0; subst f0 p0 rest0. clear Hs0.
  destruct (xpop_inv _ _ H) as (f1 & p1 & rest1 & pe & S2 & HO & ->).
  rewrite Hs in S2. inversion S2; subst f1 p1 rest1. clear S2.
  exists (set_env p pe), q, rest. cbn [x_stack x_done set_env f_env]. split; [reflexivity|].
  split; [exact (hand_over_swf _ _ _ _ Wf Wp HO)|]. split; [exact Wq|]. constructor; [exact Wf|exact Wd].
Qed.

Lemma xfile_wf fs fsr prs EF : forall k open path x l x', xwf x -> cls fs fsr prs EF k open path x l -> xfile k fsr prs x l = Some x' -> xwf x'.
Proof.
  induction k as [|k IHk]; intros open path x l; [discriminate|].
  revert x. induction l as [|e r IHl]; intros x x' W HC H.
  - rewrite xfile_nil in H. inversion H; subst. exact W.
  - rewrite xfile_cons in H. rewrite cls_cons in HC.
    destruct (include_name e) as [v|].
    + destruct HC as (_ & _ & HC). unfold xinc in H.
      destruct (fsr v) as [text|]; [|discriminate]. destruct (prs text) as [prog|]; [|discriminate].
      destruct HC as (HC1 & HC2).
      destruct (xfile k fsr prs (xpush x) prog) as [x1|] eqn:E1; [|discriminate].
      destruct (xpop x1) as [x2|] eqn:E2; [|discriminate].
      pose proof (IHk _ _ _ _ _ (xpush_wf _ W) HC1 E1) as W1.
      destruct W as (f & p & rest & Hs & Wf & Wp & Wd).
      assert (Hp : x_stack (xpush x) = LayoutSpecExt.mkFrame (x_next x) [] [] :: f :: p :: rest) by (cbn [xpush x_stack]; rewrite Hs; reflexivity).
      destruct (xfile_le _ _ _ _ _ _ _ _ _ Hp E1) as (f0 & p0 & f0' & p0' & rest0 & S0 & S1 & _).
      rewrite Hp in S0. inversion S0; subst f0 p0 rest0. clear S0.
      eapply IHl; [|exact HC2|exact H]. eapply xpop_wf; [exact S1|exact Wp|exact W1|exact E2].
    + destruct HC as (HC1 & HC2). destruct (xstep fsr x e) as [x1|] eqn:E1; [|discriminate].
      destruct HC2 as (_ & HC2). eapply IHl; [|exact HC2|exact H]. eapply xstep_wf; eauto.
Qed.

(* ------------------------------------------------------------------ file instance identifiers are unique *)
Definition ids_of (x : px) : list N := map f_id (x_stack x) ++ map fst (x_done x).
(* the identifiers of the open and the finished file instances are pairwise different and below the next fresh one *)
Definition ids_ok (x : px) : Prop := NoDup (ids_of x) /\ forall i, In i (ids_of x) -> i < x_next x.

Lemma xstep_ids fsr x e x' : xstep fsr x e = Some x' ->
  map f_id (x_stack x') = map f_id (x_stack x) /\ x_done x' = x_done x /\ x_next x' = x_next x.
Proof.
  intros H. apply xstep_cases in H.
  assert (K : forall y, (match x_stack x with
                         | f :: rest => exists e1, y = set_stack x (set_env f e1 :: rest) \/ exists g1, y = set_stack x (LayoutSpecExt.mkFrame (f_id f) e1 g1 :: rest)
                         | [] => False end) \/
                        (match x_stack x with f :: p :: rest => exists f', f_id f' = f_id f /\ exists e1, y = set_stack x (f' :: set_env p e1 :: rest) | _ => False end) ->
          map f_id (x_stack y) = map f_id (x_stack x) /\ x_done y = x_done x /\ x_next y = x_next x).
  { intros y [K|K].
    - destruct (x_stack x) as [|f rest]; [contradiction|]. destruct K as (e1 & [->|(g1 & ->)]); cbn; auto.
    - destruct (x_stack x) as [|f [|p rest]]; try contradiction. destruct K as (f' & Ef & e1 & ->). cbn. rewrite Ef. auto. }
  destruct H as [(n & v & H)|[(n & H)|[(n & H)|[(name & n & _ & _ & H)|H]]]].
  - apply K. left. unfold xdefine in H. destruct (x_stack x) as [|f rest]; [discriminate|].
    destruct (AsmStmtModel.is_register n); [discriminate|].
    destruct (sget (f_env f) n) as [[w| |]|]; try discriminate; inversion H; subst; eauto.
  - apply K. unfold xglobal in H. destruct (x_stack x) as [|f [|p rest]]; try discriminate.
    destruct (AsmStmtModel.is_register n); [discriminate|]. destruct (sget (f_env p) n); [discriminate|].
    destruct (sget (f_env f) n) as [[w| |]|]; try discriminate; inversion H; subst; right; eexists; (split; [|eexists; reflexivity]); reflexivity.
  - apply K. unfold xexport in H. destruct (x_stack x) as [|f [|p rest]]; try discriminate.
    destruct (sget (f_env f) n) as [[w| |]|]; try discriminate.
    destruct (sget (f_env p) n) as [[w'| |]|]; try discriminate; inversion H; subst; right; eexists; (split; [|eexists; reflexivity]); reflexivity.
  - apply K. left. unfold ximport in H. destruct (x_stack x) as [|f [|p rest]]; try discriminate.
    destruct (AsmStmtModel.is_register n); [discriminate|]. destruct (sget (f_env f) n); [discriminate|].
    destruct (sget (f_env p) n) as [[w'| |]|]; try discriminate; inversion H; subst; eauto.
  - unfold xplain in H. destruct (x_stack x) as [|f rest] eqn:Hs; [discriminate|].
    destruct (pass1_step fsr {| p_cur := x_cur x; p_env := vals (f_env f); p_items := [] |} e) as [s|]; [|discriminate].
    inversion H; subst. cbn. auto.
Qed.

Lemma xstep_ids_ok fsr x e x' : xstep fsr x e = Some x' -> ids_ok x -> ids_ok x'.
Proof.
  intros H. destruct (xstep_ids _ _ _ _ H) as (A & B & C). unfold ids_ok, ids_of. rewrite A, B, C. auto.
Qed.

Lemma xpush_ids x : ids_ok x -> ids_ok (xpush x).
Proof.
  intros (ND & LT). unfold ids_ok, ids_of in *. cbn [xpush x_stack x_done x_next map f_id app]. split.
  - constructor; [|exact ND]. intros Hi. apply LT in Hi. lia.
  - intros i [<-|Hi]; [lia|]. apply LT in Hi. lia.
Qed.

Lemma xpop_ids x x' : ids_ok x -> xpop x = Some x' -> ids_ok x'.
Proof.
  intros (ND & LT) H. destruct (xpop_inv _ _ H) as (f & p & rest & pe & Hs & _ & ->).
  unfold ids_ok, ids_of in *. rewrite Hs in *. cbn [x_stack x_done x_next map f_id set_env fst app] in *.
  assert (P : Permutation.Permutation (f_id f :: f_id p :: map f_id rest ++ map fst (x_done x))
                                      (f_id p :: map f_id rest ++ f_id f :: map fst (x_done x))).
  { apply (Permutation.Permutation_middle (f_id p :: map f_id rest)). }
  split.
  - eapply Permutation.Permutation_NoDup; [exact P|exact ND].
  - intros i Hi. apply LT. eapply Permutation.Permutation_in; [apply Permutation.Permutation_sym; exact P|exact Hi].
Qed.

Lemma xfile_ids fsr prs : forall k x l x', ids_ok x -> xfile k fsr prs x l = Some x' -> ids_ok x'.
Proof.
  induction k as [|k IHk]; intros x l; [discriminate|].
  revert x. induction l as [|e r IHl]; intros x x' W H.
  - rewrite xfile_nil in H. inversion H; subst. exact W.
  - rewrite xfile_cons in H. destruct (include_name e) as [v|].
    + unfold xinc in H. destruct (fsr v) as [text|]; [|discriminate]. destruct (prs text) as [prog|]; [|discriminate].
      destruct (xfile k fsr prs (xpush x) prog) as [x1|] eqn:E1; [|discriminate].
      destruct (xpop x1) as [x2|] eqn:E2; [|discriminate].
      eapply IHl; [|exact H]. eapply xpop_ids; [|exact E2]. eapply IHk; [|exact E1]. apply xpush_ids, W.
    + destruct (xstep fsr x e) as [x1|] eqn:E1; [|discriminate]. eapply IHl; [|exact H]. eapply xstep_ids_ok; eauto.
Qed.

Lemma px0_ids : ids_ok px0.
Proof.
  unfold ids_ok, ids_of, px0. cbn. split.
  - constructor; [intros [H|[]]; discriminate|]. constructor; [intros []|constructor].
  - intros i [<-|[<-|[]]]; lia.
Qed.

Lemma nodup_app_r (A : Type) : forall l l' : list A, NoDup (l ++ l') -> NoDup l'.
Proof. induction l as [|a l IH]; intros l' H; [exact H|]. inversion H; subst. apply IH. assumption. Qed.

Lemma dget_in : forall d id v, NoDup (map fst d) -> In (id, v) d -> dget d id = Some v.
Proof.
  induction d as [|(k, w) r IH]; intros id v ND Hi; [destruct Hi|]. cbn [map fst] in ND. inversion ND; subst.
  cbn [dget]. destruct Hi as [Hi|Hi].
  - inversion Hi; subst. rewrite N.eqb_refl. reflexivity.
  - destruct (k =? id) eqn:E; [|apply IH; assumption]. apply N.eqb_eq in E. subst k.
    exfalso. apply H1. change id with (fst (id, v)). apply in_map, Hi.
Qed.

Lemma px_final_dget fsr prs prog x2 : px_final fsr prs prog = Some x2 ->
  forall id v, In (id, v) (x_done x2) -> dget (x_done x2) id = Some v.
Proof.
  unfold px_final. destruct (xfile 8 fsr prs px0 prog) as [x1|] eqn:E1; [|discriminate]. intros E2.
  pose proof (xpop_ids _ _ (xfile_ids _ _ _ _ _ _ px0_ids E1) E2) as (ND & _).
  intros id v Hi. apply dget_in; [|exact Hi]. apply nodup_app_r in ND. exact ND.
Qed.

(* the final table of a finished file instance is the list of its valued names *)
Lemma final_env_vals d id pid e k : dget d id = Some (pid, e) -> swf e -> final_env (S k) d id = vals e.
Proof.
  intros Hd W. cbn [final_env]. rewrite Hd. clear Hd. induction e as [|(n, b) r IH]; [reflexivity|].
  cbn [swf] in W. destruct W as (_ & NB & _ & W). cbn [flat_map snd fst vals]. rewrite (IH W).
  destruct b; [reflexivity|reflexivity|contradiction NB; reflexivity].
Qed.

(* ------------------------------------------------------------------ the reference image *)
Lemma xpass2_all d : forall its pl, xpass2 d its = Some pl ->
  forall a id it, In (a, (id, it)) its -> pass2_item (final_env 16 d id) a it <> None.
Proof.
  induction its as [|(a0, (id0, it0)) r IH]; intros pl H a id it Hi; [destruct Hi|]. cbn [xpass2] in H.
  destruct (pass2_item (final_env 16 d id0) a0 it0) as [b|] eqn:E1; [|discriminate]. destruct (xpass2 d r) as [rest|] eqn:E2; [|discriminate].
  destruct Hi as [Hi|Hi]; [inversion Hi; subst; congruence|eapply IH; eauto].
Qed.

Definition gstepx (EF : N -> env) (d : dict) (x : N * (N * item)) : dict :=
  match pass2_item (EF (fst (snd x))) (fst x) (snd (snd x)) with Some bs => d_write d (fst x) bs | None => d end.

Lemma xpass2_fold dn : forall its pl d0, xpass2 dn its = Some pl ->
  fold_left (fun d (x : N * list N * (N * item)) => d_write d (fst (fst x)) (snd (fst x))) (combine pl (map snd its)) d0
  = fold_left (gstepx (fun id => final_env 16 dn id)) its d0.
Proof.
  induction its as [|(a, (id, it)) r IH]; intros pl d0 H; cbn [xpass2] in H.
  - inversion H; subst. reflexivity.
  - destruct (pass2_item (final_env 16 dn id) a it) as [b|] eqn:E1; [|discriminate]. destruct (xpass2 dn r) as [rest|] eqn:E2; [|discriminate].
    inversion H; subst pl. cbn [combine map fold_left fst snd]. rewrite (IH rest _ eq_refl). f_equal. unfold gstepx. cbn [fst snd]. rewrite E1. reflexivity.
Qed.

Lemma gdx_fold EF items : fold_left (gstepx EF) (rev items) [] = gdx EF items.
Proof.
  rewrite <- fold_left_rev_right, rev_involutive. induction items as [|(a, (id, it)) r IH]; [reflexivity|].
  cbn [fold_right gdx]. rewrite IH. unfold gstepx. cbn [fst snd]. reflexivity.
Qed.

Lemma image_dict_gdx x2 placed : xpass2 (x_done x2) (rev (x_items x2)) = Some placed ->
  image_dict_x (combine placed (map snd (rev (x_items x2)))) = gdx (EF_of x2) (x_items x2).
Proof.
  intros H. unfold image_dict_x. rewrite (xpass2_fold _ _ _ [] H). apply gdx_fold.
Qed.

Lemma gdx_covered EF items x : d_get (gdx EF items) x <> None -> covered (flat_items items) x.
Proof.
  induction items as [|(a, (id, it)) r IH]; cbn [gdx]; [intros H; contradiction H; reflexivity|].
  assert (K : covered (flat_items r) x -> covered (flat_items ((a, (id, it)) :: r)) x).
  { intros (a' & it' & Hi & Hx). exists a', it'. split; [now right|exact Hx]. }
  destruct (pass2_item (EF id) a it) as [bs|] eqn:P2; [|intros H; apply K, IH, H].
  rewrite d_get_d_write. unfold wr. destruct ((a <=? x) && (x <? a + mlen bs)) eqn:Eq.
  - intros _. exists a, it. split; [now left|]. rewrite <- (pass2_size _ _ _ _ P2). lia.
  - intros H. apply K, IH, H.
Qed.

(* ------------------------------------------------------------------ the `.global` list of the includer's frame is not touched *)
Lemma xstep_glob fsr x e x' f p rest : x_stack x = f :: p :: rest -> xstep fsr x e = Some x' ->
  exists f' p', x_stack x' = f' :: p' :: rest /\ f_glob p' = f_glob p.
Proof.
  intros Hs H. apply xstep_cases in H.
  destruct H as [(n & v & H)|[(n & H)|[(n & H)|[(name & n & _ & _ & H)|H]]]].
  - unfold xdefine in H. rewrite Hs in H. destruct (AsmStmtModel.is_register n); [discriminate|].
    destruct (sget (f_env f) n) as [[w| |]|]; try discriminate; inversion H; subst; cbn [set_stack x_stack]; eauto.
  - unfold xglobal in H. rewrite Hs in H. destruct (AsmStmtModel.is_register n); [discriminate|].
    destruct (sget (f_env p) n); [discriminate|].
    destruct (sget (f_env f) n) as [[w| |]|]; try discriminate; inversion H; subst; cbn [set_stack x_stack];
      eexists _, _; (split; [reflexivity|reflexivity]).
  - unfold xexport in H. rewrite Hs in H. destruct (sget (f_env f) n) as [[w| |]|]; try discriminate.
    destruct (sget (f_env p) n) as [[w'| |]|]; try discriminate; inversion H; subst; cbn [set_stack x_stack];
      eexists _, _; (split; [reflexivity|reflexivity]).
  - unfold ximport in H. rewrite Hs in H. destruct (AsmStmtModel.is_register n); [discriminate|].
    destruct (sget (f_env f) n); [discriminate|].
    destruct (sget (f_env p) n) as [[w'| |]|]; try discriminate; inversion H; subst; cbn [set_stack x_stack]; eauto.
  - unfold xplain in H. rewrite Hs in H.
    destruct (pass1_step fsr {| p_cur := x_cur x; p_env := vals (f_env f); p_items := [] |} e) as [s|]; [|discriminate].
    inversion H; subst. cbn [x_stack]. eauto.
Qed.

Lemma xinc_glob_aux fsr prs k :
  (forall x l x' f p rest, x_stack x = f :: p :: rest -> xfile k fsr prs x l = Some x' ->
     exists f' p', x_stack x' = f' :: p' :: rest /\ f_glob p' = f_glob p) ->
  forall x v x' f p rest, x_stack x = f :: p :: rest -> xinc k fsr prs x v = Some x' ->
    exists f' p', x_stack x' = f' :: p' :: rest /\ f_glob f' = f_glob f /\ f_glob p' = f_glob p.
Proof.
  intros IH x v x' f p rest Hs H. unfold xinc in H.
  destruct (fsr v) as [text|]; [|discriminate]. destruct (prs text) as [prog|]; [|discriminate].
  destruct (xfile k fsr prs (xpush x) prog) as [x1|] eqn:E1; [|discriminate].
  assert (Hp : x_stack (xpush x) = LayoutSpecExt.mkFrame (x_next x) [] [] :: f :: p :: rest) by (cbn [xpush x_stack]; rewrite Hs; reflexivity).
  destruct (IH _ _ _ _ _ _ Hp E1) as (f1 & p1 & S1 & G1).
  destruct (xpop_inv _ _ H) as (f2 & p2 & rest2 & pe & S2 & _ & ->).
  rewrite S1 in S2. inversion S2; subst f2 p2 rest2. clear S2.
  exists (set_env p1 pe), p. cbn [x_stack set_env f_glob]. auto.
Qed.

Lemma xfile_glob fsr prs : forall k x l x' f p rest, x_stack x = f :: p :: rest -> xfile k fsr prs x l = Some x' ->
  exists f' p', x_stack x' = f' :: p' :: rest /\ f_glob p' = f_glob p.
Proof.
  induction k as [|k IHk]; intros x l; [discriminate|].
  revert x. induction l as [|e r IHl]; intros x x' f p rest Hs H.
  - rewrite xfile_nil in H. inversion H; subst. eauto.
  - rewrite xfile_cons in H.
    destruct (match include_name e with Some v => xinc k fsr prs x v | None => xstep fsr x e end) as [x1|] eqn:E1; [|discriminate].
    assert (L1 : exists f1 p1, x_stack x1 = f1 :: p1 :: rest /\ f_glob p1 = f_glob p).
    { destruct (include_name e) as [v|]; [|eapply xstep_glob; eauto].
      destruct (xinc_glob_aux _ _ _ IHk _ _ _ _ _ _ Hs E1) as (f1 & p1 & S1 & _ & G1). eauto. }
    destruct L1 as (f1 & p1 & S1 & G1). destruct (IHl _ _ _ _ _ S1 H) as (f2 & p2 & S2 & G2).
    exists f2, p2. split; [exact S2|congruence].
Qed.

Lemma xinc_glob fsr prs k x v x' f p rest : x_stack x = f :: p :: rest -> xinc k fsr prs x v = Some x' ->
  exists f' p', x_stack x' = f' :: p' :: rest /\ f_glob f' = f_glob f /\ f_glob p' = f_glob p.
Proof. apply xinc_glob_aux. apply xfile_glob. Qed.
