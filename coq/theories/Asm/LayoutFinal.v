(* C05 proofs, part 7: the statement loop of a whole file, the end-of-file tasks, close and finalize;
   the top-level theorems: image = reference layout, labels, order independence, no placeholder left. *)
From Coq Require Import ZArith NArith PeanoNat List Bool Lia ZifyBool ZifyNat ZifyN String.
From Trion Require Import Text.Types Expr.I64 Expr.EvalModel Expr.Denote Expr.C08Sound Arm.Instr Arm.DisplayModel Arm.AsmStmtModel Arm.EncodeModel
  Mem.MapModel Mem.DictSpec Mem.MapProofs Mem.MapLemmas
  Asm.CtxModel Asm.SegProofs Asm.LayoutSpec Asm.LayoutEval Asm.LayoutInstr Asm.LayoutInstrD Asm.LayoutDict Asm.ScopeProofs Asm.LayoutProofs Asm.LayoutSim
  Asm.LayoutStage Asm.Ctx06Proofs Asm.LayoutStep.
From Trion Require Text.ParseModel.
Import ListNotations.
Open Scope N_scope.

(* ------------------------------------------------------------------ pass 1 only adds *)
Lemma env_le_cons e n v : env_get e n = None -> env_le e ((n, v) :: e).
Proof.
  intros Hn m w Hm. cbn [env_get]. destruct (AsmStmtModel.str_eqb n m) eqn:Eq; [|exact Hm].
  apply str_eqb_eq in Eq. subst m. congruence.
Qed.

Lemma pass1_step_mono fs s e s' : pass1_step fs s e = Some s' ->
  env_le (p_env s) (p_env s') /\ (forall x, In x (p_items s) -> In x (p_items s')).
Proof.
  assert (D : forall n v s1, define s n v = Some s1 -> env_le (p_env s) (p_env s1) /\ (forall x, In x (p_items s) -> In x (p_items s1))).
  { intros n v s1. unfold define. destruct (AsmStmtModel.is_register n); [discriminate|].
    destruct (env_get (p_env s) n) eqn:Eg; [discriminate|]. intros H; inversion H; subst. cbn [p_env p_items].
    split; [apply env_le_cons; exact Eg|auto]. }
  assert (P : forall sz it s1, place s sz it = Some s1 -> env_le (p_env s) (p_env s1) /\ (forall x, In x (p_items s) -> In x (p_items s1))).
  { intros sz it s1. unfold place. destruct (p_cur s); [|discriminate]. destruct (n + sz <=? 4294967296); [|discriminate].
    intros H; inversion H; subst. cbn [p_env p_items]. split; [intros m w Hm; exact Hm|intros x Hx; now right]. }
  intros H. unfold pass1_step in H.
  repeat match type of H with
         | context[match ?x with _ => _ end] =>
             first [ match x with define _ _ _ => fail 2 end | match x with place _ _ _ => fail 2 end | destruct x eqn:? ]
         end; try discriminate H; eauto.
  inversion H; subst. cbn [p_env p_items]. split; [intros m w Hm; exact Hm|auto].
Qed.

Lemma pass1_mono fs : forall l s s', pass1 fs s l = Some s' ->
  env_le (p_env s) (p_env s') /\ (forall x, In x (p_items s) -> In x (p_items s')).
Proof.
  induction l as [|e r IH]; intros s s' H; cbn [pass1] in H.
  - inversion H; subst. split; [intros m w Hm; exact Hm|auto].
  - destruct (pass1_step fs s e) as [s1|] eqn:E1; [|discriminate].
    destruct (pass1_step_mono _ _ _ _ E1) as (A1 & B1). destruct (IH _ _ H) as (A2 & B2).
    split; [intros m w Hm; apply A2, A1, Hm|intros x Hx; apply B2, B1, Hx].
Qed.

(* ------------------------------------------------------------------ the statement loop *)
Definition class_from (fs : str -> option (list N)) (E : env) (s : p1) (els : list element) : Prop :=
  forall pre e post s0, els = pre ++ e :: post -> pass1 fs s (map e_val pre) = Some s0 -> stmt_ok E (p_env s0) (e_val e).

(* the wider class (LayoutStep.stmt_okx); fs = the files the context reads, fsr = the files the reference reads *)
Definition class_fromx (fs fsr : str -> option (list N)) (path : str) (E : env) (s : p1) (els : list element) : Prop :=
  forall pre e post s0, els = pre ++ e :: post -> pass1 fsr s (map e_val pre) = Some s0 -> stmt_okx fs fsr path E (p_env s0) (e_val e).

Lemma class_from_x fs path E s els : class_from fs E s els -> class_fromx fs fs path E s els.
Proof. intros H pre e post s0 Hl Hp. apply stmt_ok_x. eapply H; eauto. Qed.

Lemma sim_run dbg fs fsr inc E path ps : inc_ok inc -> forall els st s st' s',
  Sim E st (p_cur s) (p_env s) (gdict E (p_items s)) -> path_stack st = path :: ps -> class_fromx fs fsr path E s els ->
  run_items dbg fs inc (map Text.ParseModel.IOk els) st = Ret None st' -> errors st' = [] ->
  pass1 fsr s (map e_val els) = Some s' -> env_le (p_env s') E ->
  (forall a it, In (a, it) (p_items s') -> pass2_item E a it <> None) ->
  Sim E st' (p_cur s') (p_env s') (gdict E (p_items s')).
Proof.
  intros IO. induction els as [|e r IH]; intros st s st' s' HSim EPS HC HR HZ HP HE H2.
  - cbn in HR, HP. inversion HR; inversion HP; subst. exact HSim.
  - cbn [map run_items] in HR. cbn [map pass1] in HP. unfold CtxModel.bind in HR.
    destruct (step dbg fs inc st e) as [x st1| |] eqn:S1; try discriminate. destruct x; [discriminate|].
    destruct (pass1_step fsr s (e_val e)) as [s1|] eqn:P1; [|discriminate].
    pose proof (run_items_spec dbg fs inc _ IO _ _ _ HR) as (EX & _).
    assert (Z1 : errors st1 = []). { destruct EX as (l & EX). rewrite EX in HZ. destruct l; [exact HZ|discriminate]. }
    destruct (pass1_mono _ _ _ _ HP) as (M1 & M2).
    assert (S' : Sim E st1 (p_cur s1) (p_env s1) (gdict E (p_items s1)) /\ path_stack st1 = path_stack st).
    { pose proof (HC [] e r s eq_refl eq_refl) as OK0. destruct s as [cur ek items].
      apply (sim_step dbg fs fsr inc E st cur ek items e st1 s1 path ps HSim EPS OK0 S1 Z1 P1).
      - intros m w Hm. apply HE, M1, Hm.
      - intros a it Hi. apply H2, M2, Hi. }
    destruct S' as (S' & EPS'). apply (IH st1 s1 st' s'); auto; [congruence|].
    intros pre e0 post s0 Hl Hp. apply (HC (e :: pre) e0 post s0); [rewrite Hl; reflexivity|]. cbn [map pass1]. rewrite P1. exact Hp.
Qed.

(* ------------------------------------------------------------------ overwriting a placeholder *)
Lemma denZ_idents rho a : forall v, denZ rho a = Some v -> forall nm, In nm (LayoutEval.idents a) -> rho nm <> None.
Proof.
  induction a using ArgLemmas.arg_ind'; intros w Hd nm Hn; try (cbn in Hd; discriminate); try (cbn in Hn; contradiction).
  - cbn in Hn. destruct Hn as [<-|[]]. cbn in Hd. congruence.
  - rewrite idents_mk in Hn. apply denZ_mk_inv in Hd. destruct Hd as (x & y & Hx & Hy & _).
    apply in_app_or in Hn. destruct Hn; eauto.
  - cbn [denZ] in Hd. cbn [LayoutEval.idents] in Hn. destruct (denZ rho a) eqn:Da; [|discriminate]. eauto.
  - cbn [denZ] in Hd. cbn [LayoutEval.idents] in Hn. destruct (denZ rho a) eqn:Da; [|discriminate]. eauto.
Qed.

Lemma write_over dbg st t a data f l c k1 k2 p r st' :
  Rep (output st) -> match active st with Active sg => SegInv (output st) sg | Inactive => True end ->
  located st t -> task_addr t = a -> task_size t = mlen data -> 0 < mlen data ->
  write_stmt dbg st f l c a data k1 k2 p = Ret r st' -> errors st' = [] ->
  r = None /\ (forall x, view st' x = wr (view st) a data x) /\ Rep (output st') /\
  (forall t', located st t' -> located st' t') /\
  locals st' = locals st /\ path_stack st' = path_stack st /\ errors st' = errors st /\ global_tasks st' = global_tasks st /\
  local_tasks st' = local_tasks st /\
  match active st with
  | Active sg => exists sg', active st' = Active sg' /\ SegInv (output st') sg' /\ s_base sg' = s_base sg /\ blen sg' = blen sg
  | Inactive => active st' = Inactive
  end.
Proof.
  intros HR HA HL Ea Es Hpos HW HZ.
  assert (PUT : (forall x, a <= x -> x < a + mlen data -> d_get (abs (output st)) x <> None) ->
                match active st with Active sg => a + mlen data <= s_base sg \/ s_base sg + s_max sg <= a | Inactive => True end ->
                put_stmt dbg st f l c a data k2 p = Ret r st' ->
                r = None /\ (forall x, view st' x = wr (view st) a data x) /\ Rep (output st') /\
                (forall t', located st t' -> located st' t') /\
                locals st' = locals st /\ path_stack st' = path_stack st /\ errors st' = errors st /\ global_tasks st' = global_tasks st /\
                local_tasks st' = local_tasks st /\
                match active st with
                | Active sg => exists sg', active st' = Active sg' /\ SegInv (output st') sg' /\ s_base sg' = s_base sg /\ blen sg' = blen sg
                | Inactive => active st' = Inactive
                end).
  { intros Hocc Hdis HP. unfold put_stmt in HP.
    assert (Hne : data <> []) by (intros ->; cbn in Hpos; lia).
    destruct (put_over dbg (output st) a data HR Hne Hocc) as (m' & E1 & R' & AB & DOM). rewrite E1 in HP.
    change (0 =? 0) with true in HP. cbv iota in HP. inversion HP; subst r st'.
    split; [reflexivity|]. split.
    { intros x. apply view_output; [exact AB|]. destruct (active st) as [|sg]; [exact I|].
      destruct HA as (H1 & _). destruct Hdis; lia. }
    split; [exact R'|]. split.
    { intros t' [(sg & EA & B1 & B2)|B]; [left; exists sg; auto|right]. intros x Hx. cbn [output set_output]. apply DOM. apply B. exact Hx. }
    repeat split; try reflexivity.
    cbn [active set_output output]. destruct (active st) as [|sg]; [reflexivity|]. exists sg. split; [reflexivity|].
    split; [|auto]. destruct HA as (H1 & H0 & H2 & H3). apply occ_seginv; auto.
    intros x Hx. apply DOM in Hx. apply (seginv_occ (output st) sg (conj H1 (conj H0 (conj H2 H3))) x Hx HR). }
  unfold write_stmt in HW. destruct (active st) as [|sg] eqn:EA.
  - apply PUT; auto. destruct HL as [(sg & EA' & _)|B]; [rewrite EA in EA'; discriminate EA'|]. intros x H1 H2. apply B. unfold in_task. lia.
  - destruct HL as [(sg' & EA' & B1 & B2)|B].
    + rewrite EA in EA'. inversion EA'; subst sg'. rewrite Ea in *. rewrite Es in *.
      pose proof HA as (H1 & H0 & H2 & H3).
      rewrite (covers_spec dbg (output st) sg a HA) in HW.
      destruct ((s_base sg <=? a) && ((a - s_base sg <? blen sg) || (a - s_base sg =? blen sg) && (blen sg <? s_max sg))) eqn:Cv; [|lia].
      destruct (N.le_gt_cases a (curr_addr sg)) as [Hcur|Hcur];
        [|exfalso; unfold seg_write_at in HW; destruct ((s_base sg <=? a) && (a <=? curr_addr sg)) eqn:X; [lia|]; cbn [negb] in HW; discriminate HW].
      destruct (write_at_ok dbg (output st) sg a data HA B1 Hcur ltac:(lia)) as (W1 & W2 & _). rewrite W1 in HW.
      inversion HW; subst r st'.
      assert (LS : mlen (splice (s_buf sg) (a - s_base sg) data) = mlen (s_buf sg)).
      { unfold splice. unfold blen, CtxSeg.len in *. rewrite !len_app, SegProofs.len_takeN, SegProofs.len_dropN by lia. lia. }
      split; [reflexivity|]. split.
      { intros x. rewrite (view_splice st sg (a - s_base sg) data x EA) by lia. f_equal. lia. }
      split; [exact HR|]. split.
      { intros t' [(s0 & E0 & C1 & C2)|C]; [left|right; exact C]. rewrite EA in E0. inversion E0; subst s0.
        eexists. split; [reflexivity|]. rewrite blen_set_buf, LS. cbn [s_base set_buf]. unfold blen, CtxSeg.len in *. lia. }
      repeat split; try reflexivity. eexists. split; [reflexivity|]. split; [exact W2|]. split; [reflexivity|].
      rewrite blen_set_buf, LS. reflexivity.
    + assert (Hocc : forall x, a <= x -> x < a + mlen data -> d_get (abs (output st)) x <> None).
      { intros x X1 X2. apply B. unfold in_task. lia. }
      assert (Hout : forall x, a <= x -> x < a + mlen data -> x < s_base sg \/ s_base sg + s_max sg <= x).
      { intros x X1 X2. apply (seginv_occ (output st) sg HA x (Hocc x X1 X2) HR). }
      pose proof HA as (H1 & H0 & H2 & H3).
      assert (Hdis : a + mlen data <= s_base sg \/ s_base sg + s_max sg <= a).
      { destruct (Hout a ltac:(lia) ltac:(lia)) as [K1|K1]; [|right; exact K1].
        destruct (Hout (a + mlen data - 1) ltac:(lia) ltac:(lia)) as [K2|K2]; [left; lia|].
        exfalso. destruct (Hout (s_base sg) ltac:(lia) ltac:(lia)); lia. }
      rewrite (covers_spec dbg (output st) sg a HA) in HW.
      destruct ((s_base sg <=? a) && ((a - s_base sg <? blen sg) || (a - s_base sg =? blen sg) && (blen sg <? s_max sg))) eqn:Cv; [lia|].
      apply PUT; auto.
Qed.

(* ------------------------------------------------------------------ a pending task, run at the end of the file *)
Lemma simT_after_write E st st' cur ek G t ts a data :
  SimT E st cur ek G (t :: ts) -> task_addr t = a -> task_size t = mlen data -> at_bytes G a data ->
  ((forall x, view st' x = wr (view st) a data x) /\ Rep (output st') /\
   (forall t', located st t' -> located st' t') /\
   locals st' = locals st /\ path_stack st' = path_stack st /\ errors st' = errors st /\ global_tasks st' = global_tasks st /\
   local_tasks st' = local_tasks st /\
   match active st with
   | Active sg => exists sg', active st' = Active sg' /\ SegInv (output st') sg' /\ s_base sg' = s_base sg /\ blen sg' = blen sg
   | Inactive => active st' = Inactive
   end) -> SimT E st' cur ek G ts.
Proof.
  intros [R T V C Er Gt A D L P W] Ea Es AB (HV & R' & HL & EL & EP & EE & EG & _ & HA).
  inversion L as [|? ? Lt Lts]; inversion P as [|? ? Pt Pts]; subst.
  assert (InR : forall x, task_addr t <= x -> x < task_addr t + mlen data -> view st x <> None).
  { intros x X1 X2. apply (located_view st t Lt). unfold in_task. lia. }
  constructor; auto.
  - rewrite EL, EP. exact T.
  - destruct cur as [c|].
    + destruct C as (sg & EA & HI & Ec). rewrite EA in HA. destruct HA as (sg' & EA' & HI' & B1 & B2).
      exists sg'. split; [exact EA'|]. split; [exact HI'|]. congruence.
    + rewrite C in HA. exact HA.
  - congruence.
  - congruence.
  - intros x. rewrite HV. unfold wr. destruct ((task_addr t <=? x) && (x <? task_addr t + mlen data)) eqn:Eq1; [|apply D].
    split; intros _; [apply D; apply InR; lia|apply nth_error_some_len; lia].
  - eapply Forall_impl; [|exact Lts]. intros t'. apply HL.
  - intros x Hx. rewrite HV. unfold wr. destruct ((task_addr t <=? x) && (x <? task_addr t + mlen data)) eqn:Eq1.
    + symmetry. apply AB; lia.
    + apply W. intros t' [<-|Ht']; [unfold in_task; rewrite Es; lia|apply Hx; exact Ht'].
Qed.

Lemma env_le_refl e : env_le e e. Proof. intros n v H; exact H. Qed.

Lemma run_task_sim dbg E st cur G t ts r st' :
  SimT E st cur E G (t :: ts) -> local_tasks st = Some [] -> run_task dbg st t = Ret r st' -> errors st' = [] ->
  r = None /\ SimT E st' cur E G ts /\ local_tasks st' = Some [].
Proof.
  intros H ELT HR HZ. pose proof H as [R T V C Er Gt A D L P W].
  inversion L as [|? ? Lt Lts]; inversion P as [|? ? Pt Pts]; subst.
  destruct T as (tbl & p & ps & EL & EP & TE).
  assert (HAct : match active st with Active sg => SegInv (output st) sg | Inactive => True end).
  { destruct cur as [c|]; [destruct C as (sg & EA & HI & _); rewrite EA; exact HI|rewrite C; exact I]. }
  destruct t as [ai [|]|d [|]| |]; cbn [PendG] in Pt; try contradiction.
  - (* instruction *)
    destruct Pt as (args & pos & a0 & a1 & iF & sF & nF & bF & EAst & EPo & N0 & SG & AF & EF & AB).
    pose proof (enc_bytes_size _ _ _ EF) as (_ & LF). pose proof (assemble_args_isz _ _ _ _ _ _ _ AF) as IF.
    cbn [run_task] in HR. unfold instr_assemble in HR. rewrite EAst in HR. cbn [a_args] in HR.
    destruct (first_panic st (AsmStmtModel.set_nth pos a1 args)); [dh|].
    pose proof (assemble_args_swap _ _ _ _ _ _ _ a1 _ _ EPo N0 SG AF) as AF1.
    destruct (assemble_args (instr_ev st) false (ai_addr ai) (ai_instr ai) (mkAst (AsmStmtModel.set_nth pos a1 args) 0)) as [i a2|cause a2|dg a2|] eqn:AM.
    + cbn [CtxModel.bind] in HR. unfold write_instr in HR. cbn [ai_instr ai_file ai_line ai_col ai_addr] in HR.
      assert (i = iF).
      { pose proof (assemble_args_mono _ _ false false _ _ _ _ _ (instr_ev_le E E st tbl p ps EL EP TE (env_le_refl E)) AM) as AM'.
        rewrite AF1 in AM'. inversion AM'; reflexivity. }
      subst i. rewrite EF in HR.
      assert (Hsz : task_size (InstrTask ai false) = mlen bF) by (cbn [task_size]; unfold mlen; rewrite LF; congruence).
      assert (Hpos : 0 < mlen bF) by (unfold mlen; rewrite LF; destruct iF; cbn; lia).
      destruct (write_over dbg st (InstrTask ai false) (ai_addr ai) bF _ _ _ _ _ _ r st' R HAct Lt eq_refl Hsz Hpos HR HZ) as (-> & Rest).
      split; [reflexivity|]. split; [eapply simT_after_write; eauto|]. destruct Rest as (_ & _ & _ & _ & _ & _ & _ & LT & _). congruence.
    + (* the table is final: the operand the statement kept evaluates as the original does in the reference *)
      exfalso. destruct (assemble_args_defer_pos _ _ _ _ _ _ _ AM) as (pos' & x & x' & sx & EPo' & Nx & Ex & N1 & N2 & _).
      rewrite EPo in EPo'. inversion EPo'; subst pos'. rewrite (nth_error_set_nth_eq a1 pos args a0 N0) in Nx. inversion Nx; subst x.
      destruct (assemble_args_ok_complete _ _ _ _ _ _ _ _ _ EPo N0 AF) as (v & Ev).
      rewrite (end_ev_le E st tbl p ps a1 v EL EP TE (SG _ Ev)) in Ex. inversion Ex; subst. congruence.
    + cbn [CtxModel.bind] in HR. inversion HR; subst. cbn [errors push_error_in set_errors] in HZ. discriminate HZ.
    + dh.
  - (* data *)
    destruct Pt as (a0 & v & F0 & Dv & Rv & AB).
    cbn [run_task] in HR. unfold data_apply in HR.
    pose proof (ctx_eval_fwd E E st tbl p ps EL EP TE (env_le_refl E) (de_arg d)) as F.
    destruct (ctx_eval st (de_arg d)) as [a' [ch|ch nm]|a' e|q] eqn:CE.
    + assert (Ac : (exists v', a' = AConst v') \/ (forall v', a' <> AConst v')) by (destruct a'; eauto; right; intros; discriminate).
      destruct Ac as [(v' & ->)|Nc];
        [|destruct a'; try (exfalso; eapply Nc; reflexivity);
          (cbn [CtxModel.bind] in HR; inversion HR; subst; cbn [errors push_error_in set_errors] in HZ; discriminate HZ)].
      assert (v' = v) by (apply (fwd_const (rho E) a0 v' v); [apply (fwd_trans _ a0 (de_arg d) _ F0 F)|exact Dv]). subst v'. rewrite Rv in HR.
      unfold write_data in HR. cbn [de_set_arg de_file de_line de_col de_addr de_kind] in HR. unfold CtxModel.bind at 1 in HR.
      destruct (write_stmt dbg st (de_file d) (de_line d) (de_col d) (de_addr d) (le_n (dk_size (de_kind d)) (Z.to_N v))
                  (KApply ASegOverflow) (KApply ASegWrite) P_put_assert_data) as [w st2| |] eqn:WS; try dh.
      assert (st' = st2 /\ r = w) as (-> & ->) by (destruct w; cbn [CtxModel.bind] in HR; inversion HR; auto).
      assert (Hsz : task_size (DataTask d false) = mlen (le_n (dk_size (de_kind d)) (Z.to_N v))) by (rewrite len_le_n'; reflexivity).
      assert (Hpos : 0 < mlen (le_n (dk_size (de_kind d)) (Z.to_N v))) by (rewrite len_le_n'; destruct (de_kind d); cbn; lia).
      destruct (write_over dbg st (DataTask d false) (de_addr d) _ _ _ _ _ _ _ w st2 R HAct Lt eq_refl Hsz Hpos WS HZ) as (-> & Rest).
      split; [reflexivity|]. split; [eapply simT_after_write; eauto|]. destruct Rest as (_ & _ & _ & _ & _ & _ & _ & LT & _). congruence.
    + exfalso. eapply (ctx_eval_not_deferred E st tbl p ps EL EP TE); exact CE.
    + destruct e; cbn [CtxModel.bind] in HR; inversion HR; subst; cbn [errors push_error_in set_errors] in HZ; discriminate HZ.
    + dh.
Qed.

Lemma local_round_sim dbg E : forall ts st cur G st' r', SimT E st cur E G ts -> local_tasks st = Some [] ->
  local_round dbg ts st None = Ret r' st' -> errors st' = [] -> r' = None /\ SimT E st' cur E G [] /\ local_tasks st' = Some [].
Proof.
  induction ts as [|t ts IH]; intros st cur G st' r' H ELT HR HZ.
  - cbn in HR. inversion HR; subst. auto.
  - cbn [local_round] in HR. unfold CtxModel.bind in HR.
    destruct (run_task dbg st t) as [x st1| |] eqn:RT; try discriminate.
    destruct x as [lvl|].
    + exfalso. pose proof (run_task_spec _ _ _ _ _ RT) as (_ & PP). specialize (PP ltac:(discriminate)).
      assert (EX : ext st1 st').
      { destruct (is_fatal lvl); [inversion HR; apply ext_refl|]. apply local_round_spec in HR. apply HR. }
      eapply pushed_nonempty; [eapply pushed_ext_trans; eauto|exact HZ].
    + pose proof (local_round_spec _ _ _ _ _ _ HR) as (EX & _).
      assert (Z1 : errors st1 = []). { destruct EX as (l & EX). rewrite EX in HZ. destruct l; [exact HZ|discriminate]. }
      destruct (run_task_sim dbg E st cur G t ts None st1 H ELT RT Z1) as (_ & H1 & E1).
      apply (IH st1 cur G st' r' H1 E1 HR HZ).
Qed.

(* ------------------------------------------------------------------ the reference image *)
Definition image_of (placed : list (N * list N * list str)) : list MapModel.seg :=
  runs (fold_left (fun d x => d_write d (fst (fst x)) (snd (fst x))) placed []).

Definition gstep (E : env) (d : dict) (x : N * item) : dict :=
  match pass2_item E (fst x) (snd x) with Some bs => d_write d (fst x) bs | None => d end.

Lemma pass2_fold E : forall its pl d0, pass2 E its = Some pl ->
  fold_left (fun d x => d_write d (fst (fst x)) (snd (fst x)))
            (map (fun x : N * list N * (N * item) => (fst (fst x), snd (fst x), item_idents (snd (snd x)))) (combine pl its)) d0
  = fold_left (gstep E) its d0.
Proof.
  induction its as [|(a, it) r IH]; intros pl d0 H; cbn [pass2] in H.
  - inversion H; subst. reflexivity.
  - destruct (pass2_item E a it) as [b|] eqn:E1; [|discriminate]. destruct (pass2 E r) as [rest|] eqn:E2; [|discriminate].
    inversion H; subst pl. cbn [combine map fold_left fst snd]. rewrite (IH rest _ eq_refl). f_equal. unfold gstep. cbn [fst snd]. rewrite E1. reflexivity.
Qed.

Lemma gdict_fold E items : fold_left (gstep E) (rev items) [] = gdict E items.
Proof.
  rewrite <- fold_left_rev_right, rev_involutive. induction items as [|(a, it) r IH]; [reflexivity|].
  cbn [fold_right gdict]. rewrite IH. unfold gstep. cbn [fst snd]. reflexivity.
Qed.

Lemma pass2_all E : forall its pl, pass2 E its = Some pl -> forall a it, In (a, it) its -> pass2_item E a it <> None.
Proof.
  induction its as [|(a0, it0) r IH]; intros pl H a it Hi; [destruct Hi|]. cbn [pass2] in H.
  destruct (pass2_item E a0 it0) as [b|] eqn:E1; [|discriminate]. destruct (pass2 E r) as [rest|] eqn:E2; [|discriminate].
  destruct Hi as [Hi|Hi]; [inversion Hi; subst; congruence|eapply IH; eauto].
Qed.

Lemma simT_set_local E st cur ek G ts v : SimT E st cur ek G ts -> SimT E (set_local_tasks st v) cur ek G ts.
Proof. intros H. pose proof H as [R T V C Er Gt A D L P W]. eapply simT_transport; [| | | | | |exact H]; auto. Qed.

Lemma finalize_ext dbg st ok st' : finalize dbg st = Ret ok st' -> ext st st'.
Proof.
  unfold finalize, CtxModel.bind.
  destruct (final_loop dbg task_rounds (global_tasks st) (set_global_tasks st [])) as [ab st1| |] eqn:FL; try discriminate.
  apply final_loop_spec in FL. destruct FL as (FL & _). intros H; inversion H; subst. exact FL.
Qed.

Lemma clean_back a b : ext a b -> errors b = [] -> errors a = [].
Proof. intros (l & H) Z. rewrite H in Z. destruct l; [exact Z|discriminate]. Qed.

Lemma local_loop_cons dbg k t tl st r : local_loop dbg (S k) (t :: tl) st r =
  CtxModel.bind (local_round dbg (t :: tl) st r) (fun r' st1 =>
    match local_tasks st1 with
    | None => Panic P_local_tasks_unwrap
    | Some newt => let st2 := set_local_tasks st1 (Some []) in if res_is_fatal r' then Ret r' st2 else local_loop dbg k newt st2 r'
    end).
Proof. reflexivity. Qed.

(* the class of programs: every statement (in the table pass 1 has reached before it) is in the class of LayoutStep.stmt_ok *)
Definition C05_class (fs : str -> option (list N)) (E : env) (els : list element) : Prop := class_from fs E (mkP1 None [] []) els.

Definition C05_classx (fs fsr : str -> option (list N)) (path : str) (E : env) (els : list element) : Prop :=
  class_fromx fs fsr path E (mkP1 None [] []) els.
Lemma class_x fs path E els : C05_class fs E els -> C05_classx fs fs path E els.
Proof. apply class_from_x. Qed.

(* the reference reads a .dfile name relative to the directory of the root file, as the context does *)
Definition rel_fs (fs : str -> option (list N)) (path : str) : str -> option (list N) := fun v => fs (resolve_path path v).
Definition C05_classw (fs : str -> option (list N)) (path : str) (E : env) (els : list element) : Prop :=
  C05_classx fs (rel_fs fs path) path E els.

Theorem layout_generalx fs fsr path text els placed env regions :
  parse_source text = Parsed (map Text.ParseModel.IOk els) None ->
  layout_spec fsr (map e_val els) = Some (placed, env) ->
  C05_classx fs fsr path env els ->
  pipeline fs path text = Done Success [] regions ->
  regions = image_of placed.
Proof.
  intros HPa HL HC HPi.
  unfold layout_spec in HL. destruct (pass1 fsr (mkP1 None [] []) (map e_val els)) as [sF|] eqn:P1; [|discriminate].
  destruct (pass2 (p_env sF) (rev (p_items sF))) as [pl|] eqn:P2; [|discriminate]. inversion HL; subst placed env. clear HL.
  set (E := p_env sF) in *.
  unfold pipeline, pipeline_gen, pipeline_state in HPi. unfold CtxModel.bind in HPi.
  destruct (assemble false fs include_fuel init_state text path) as [r0 st1| |] eqn:AS; try discriminate.
  destruct (close_segment false st1) as [[b|e] st2| |] eqn:CL; try discriminate.
  destruct (finalize false st2) as [ok st3| |] eqn:FI; try discriminate.
  inversion HPi as [[Hok Herr Hreg]]. destruct ok; [|discriminate]. clear Hok HPi.
  assert (Z3 : errors st3 = []) by (apply (f_equal (@rev _)) in Herr; rewrite rev_involutive in Herr; exact Herr).
  pose proof (clean_back _ _ (finalize_ext _ _ _ _ FI) Z3) as Z2.
  assert (Z1 : errors st1 = []) by (rewrite <- (close_segment_same _ _ _ _ CL); exact Z2).
  (* the file *)
  change (assemble false fs include_fuel init_state text path) with (assemble_body false fs (assemble false fs 63) init_state text path) in AS.
  set (inc := assemble false fs 63) in *. unfold assemble_body in AS.
  set (st0 := mkState [] Inactive [] (Some []) [] (Some []) [] [path] path).
  set (fr := mkFrame 1 unknown_name None None).
  change (enter_file init_state path) with (st0, fr) in AS. unfold CtxModel.bind in AS.
  assert (IO : inc_ok inc) by (intros ? ? ? ? ?; apply assemble_reported).
  destruct (do_assemble false fs inc st0 text) as [r sta| |] eqn:DA; try discriminate.
  match type of AS with match ?X with _ => _ end = _ => destruct X as [r' stb| |] eqn:LL; try discriminate end.
  destruct (leave_file stb fr) as [[] stc| |] eqn:LF; try discriminate.
  assert (st1 = stc) by congruence. subst st1. clear AS.
  assert (Zb : errors stb = []) by (rewrite <- (leave_file_same _ _ _ _ LF); exact Z1).
  assert (EXab : ext sta stb).
  { destruct (res_is_fatal r); [inversion LL; apply ext_refl|]. destruct (local_tasks sta); [|discriminate].
    apply local_loop_spec in LL. destruct LL as (LL & _). eapply ext_trans; [|exact LL]. exists []. reflexivity. }
  pose proof (clean_back _ _ EXab Zb) as Za.
  pose proof (do_assemble_spec _ _ _ _ _ _ _ IO DA) as (_ & PA).
  destruct r as [lv|]; [exfalso; eapply pushed_nonempty; [apply PA; discriminate|exact Za]|].
  unfold do_assemble in DA. rewrite HPa in DA. unfold CtxModel.bind in DA.
  destruct (run_items false fs inc (map Text.ParseModel.IOk els) st0) as [r1 sta1| |] eqn:RI; try discriminate.
  destruct r1; inversion DA; subst sta1. clear DA.
  assert (S0 : Sim E st0 (p_cur (mkP1 None [] [])) (p_env (mkP1 None [] [])) (gdict E (p_items (mkP1 None [] [])))).
  { exists []. split; [reflexivity|]. constructor; cbn [p_cur p_env p_items gdict st0 output active errors global_tasks locals path_stack]; auto.
    - exact I.
    - exists [], path, []. repeat split; auto; intros n; reflexivity.
    - intros n v Hn. discriminate Hn.
    - exact I.
    - intros x. unfold view. cbn. tauto. }
  assert (H2 : forall a it, In (a, it) (p_items sF) -> pass2_item E a it <> None).
  { intros a it Hi. apply (pass2_all E _ _ P2). apply in_rev in Hi. exact Hi. }
  destruct (sim_run false fs fsr _ E path [] IO els st0 _ sta sF S0 eq_refl HC RI Za P1 (env_le_refl E) H2) as (ts & ELT & HT).
  (* the tasks *)
  cbn [res_is_fatal] in LL. rewrite ELT in LL.
  assert (HB : SimT E stb (p_cur sF) E (gdict E (p_items sF)) [] /\ r' = None).
  { change task_rounds with (S 3) in LL. destruct ts as [|t0 tl].
    - cbn [local_loop] in LL. inversion LL; subst. split; [apply simT_set_local; exact HT|reflexivity].
    - rewrite local_loop_cons in LL. unfold CtxModel.bind in LL.
      destruct (local_round false (t0 :: tl) (set_local_tasks sta (Some [])) None) as [r1 stR| |] eqn:LR; try discriminate.
      destruct (local_tasks stR) as [newt|] eqn:ER; [|discriminate].
      assert (EXR : ext stR stb).
      { destruct (res_is_fatal r1); [inversion LL; exists []; reflexivity|].
        apply local_loop_spec in LL. destruct LL as (LL & _). eapply ext_trans; [|exact LL]. exists []. reflexivity. }
      destruct (local_round_sim false E (t0 :: tl) _ _ _ _ _ (simT_set_local _ _ _ _ _ _ (Some []) HT) eq_refl LR (clean_back _ _ EXR Zb))
        as (-> & HR & ER').
      rewrite ER in ER'. inversion ER'; subst newt. cbv zeta in LL. cbn [res_is_fatal local_loop] in LL. inversion LL; subst.
      split; [apply simT_set_local; exact HR|reflexivity]. }
  destruct HB as (HB & ->). pose proof HB as [R T V C Er Gt A D L P W].
  (* leave, close, finalize *)
  unfold leave_file in LF. destruct (negb (Nat.eqb (List.length (path_stack stb)) (f_count fr))); [discriminate|].
  destruct (path_stack stb) as [|p0 stack]; [discriminate|]. cbn [f_constants f_tasks f_name fr] in LF. inversion LF; subst stc. clear LF.
  match type of CL with close_segment _ ?s = _ => set (stc := s) in * end.
  assert (IVc : Inv stc).
  { split; [exact R|]. cbn [active stc]. destruct (p_cur sF); [destruct C as (sg & EA & HI & _); rewrite EA; exact HI|rewrite C; exact I]. }
  destruct (view_close false stc b st2 IVc CL) as ((R2 & _) & A2 & V2 & _ & _ & _ & G2 & _).
  unfold finalize in FI. rewrite G2 in FI. cbn [global_tasks stc] in FI. rewrite Gt in FI.
  change task_rounds with (S 3) in FI. cbn [final_loop CtxModel.bind] in FI. inversion FI; subst st3.
  cbn [output set_global_tasks] in Hreg. subst regions.
  change (output (set_global_tasks st2 [])) with (output st2). rewrite <- (iter_is_runs _ R2). unfold image_of. f_equal.
  rewrite pass2_fold with (E := E) by exact P2. rewrite gdict_fold.
  apply (asc_ext _ _ 0 SPACE); [|exact A|].
  - apply asc_abs; [exact R2|]. intros s Hs. destruct (Rep_In_ok _ _ R2 Hs) as (S1 & S2 & S3). unfold SPACE, MapModel.U32 in *. lia.
  - intros x. transitivity (view st2 x); [unfold view; rewrite A2; reflexivity|].
    rewrite V2. transitivity (view stb x); [reflexivity|]. apply W. intros t [].
Qed.

Theorem layout_general fs path text els placed env regions :
  parse_source text = Parsed (map Text.ParseModel.IOk els) None ->
  layout_spec fs (map e_val els) = Some (placed, env) ->
  C05_class fs env els ->
  pipeline fs path text = Done Success [] regions ->
  regions = image_of placed.
Proof. intros HPa HL HC. apply (layout_generalx fs fs path text els placed env regions HPa HL (class_x _ path _ _ HC)). Qed.

(* ------------------------------------------------------------------ labels *)
(* the table of the context at the end of the statement loop is the reference's final table *)
Theorem labels_generalx fs fsr inc path els placed env st' : inc_ok inc ->
  layout_spec fsr (map e_val els) = Some (placed, env) -> C05_classx fs fsr path env els ->
  run_items false fs inc (map Text.ParseModel.IOk els) (fst (enter_file init_state path)) = Ret None st' -> errors st' = [] ->
  forall n, get_constant st' n RLocal = Some (match env_get env n with Some v => Found v | None => NotFound end).
Proof.
  intros IO HL HC RI Za n.
  unfold layout_spec in HL. destruct (pass1 fsr (mkP1 None [] []) (map e_val els)) as [sF|] eqn:P1; [|discriminate].
  destruct (pass2 (p_env sF) (rev (p_items sF))) as [pl|] eqn:P2; [|discriminate]. inversion HL; subst placed env. clear HL.
  set (E := p_env sF) in *.
  set (st0 := mkState [] Inactive [] (Some []) [] (Some []) [] [path] path).
  change (fst (enter_file init_state path)) with st0 in RI.
  assert (S0 : Sim E st0 (p_cur (mkP1 None [] [])) (p_env (mkP1 None [] [])) (gdict E (p_items (mkP1 None [] [])))).
  { exists []. split; [reflexivity|]. constructor; cbn [p_cur p_env p_items gdict st0 output active errors global_tasks locals path_stack]; auto.
    - exact I.
    - exists [], path, []. repeat split; auto; intros m; reflexivity.
    - intros m v Hn. discriminate Hn.
    - exact I.
    - intros x. unfold view. cbn. tauto. }
  assert (H2 : forall a it, In (a, it) (p_items sF) -> pass2_item E a it <> None).
  { intros a it Hi. apply (pass2_all E _ _ P2). apply in_rev in Hi. exact Hi. }
  destruct (sim_run false fs fsr _ E path [] IO els st0 _ st' sF S0 eq_refl HC RI Za P1 (env_le_refl E) H2) as (ts & ELT & HT).
  destruct HT as [_ (tbl & p & ps & EL & EP & TE) _ _ _ _ _ _ _ _ _].
  unfold get_constant. cbn [realm_table]. rewrite EL. unfold lookup_of. rewrite (TE n). unfold E. destruct (env_get (p_env sF) n); reflexivity.
Qed.

Theorem labels_general fs inc path els placed env st' : inc_ok inc ->
  layout_spec fs (map e_val els) = Some (placed, env) -> C05_class fs env els ->
  run_items false fs inc (map Text.ParseModel.IOk els) (fst (enter_file init_state path)) = Ret None st' -> errors st' = [] ->
  forall n, get_constant st' n RLocal = Some (match env_get env n with Some v => Found v | None => NotFound end).
Proof. intros IO HL HC. apply (labels_generalx fs fs inc path els placed env st' IO HL (class_x _ path _ _ HC)). Qed.

(* in the reference a label is the address of the item placed next *)
Lemma place_items s sz it s' : place s sz it = Some s' -> exists c, p_cur s = Some c /\ p_items s' = (c, it) :: p_items s.
Proof.
  unfold place. destruct (p_cur s) as [c|]; [|discriminate]. destruct (c + sz <=? 4294967296); [|discriminate].
  intros H; inversion H; subst. exists c. auto.
Qed.
Lemma define_items s n v s' : define s n v = Some s' -> p_items s' = p_items s.
Proof.
  unfold define. destruct (AsmStmtModel.is_register n); [discriminate|]. destruct (env_get (p_env s) n); [discriminate|].
  intros H; inversion H; reflexivity.
Qed.

Lemma label_next_item fs s n s1 e s2 a it : pass1_step fs s (ELabel n) = Some s1 -> pass1_step fs s1 e = Some s2 ->
  p_items s2 = (a, it) :: p_items s1 -> env_get (p_env s1) n = Some (Z.of_N a).
Proof.
  intros H1 H2 HI. cbn [pass1_step] in H1. destruct (p_cur s) as [c|] eqn:Ec; [|discriminate].
  destruct (c <? 4294967296); [|discriminate]. unfold define in H1.
  destruct (AsmStmtModel.is_register n); [discriminate|]. destruct (env_get (p_env s) n); [discriminate|].
  inversion H1; subst s1. cbn [p_env p_items p_cur env_get] in *.
  change (AsmStmtModel.str_eqb n n) with (CtxModel.str_eqb n n). rewrite str_eqb_refl. f_equal. f_equal.
  assert (NE : forall (l : list (N * item)) x, l <> x :: l).
  { intros l x Hl. apply (f_equal (@List.length _)) in Hl. cbn in Hl. lia. }
  unfold pass1_step in H2.
  repeat match type of H2 with
         | context[match ?x with _ => _ end] =>
             first [ match x with define _ _ _ => fail 2 end | match x with place _ _ _ => fail 2 end | destruct x eqn:? ]
         end; try discriminate H2;
  try (apply place_items in H2; destruct H2 as (c' & C1 & C2); cbn [p_cur p_items] in C1, C2; rewrite ?Ec in C1; rewrite C2 in HI; inversion C1; inversion HI; subst; reflexivity);
  try (apply define_items in H2; cbn [p_items] in H2; rewrite H2 in HI; exfalso; exact (NE _ _ HI)).
  all: try (inversion H2; subst; cbn [p_items] in HI; exfalso; exact (NE _ _ HI)).
Qed.

(* ------------------------------------------------------------------ staged evaluation through a failed first stage *)
(* C08_staged covers a first stage that returns Ok (a deferral by a declared name); a statement deferred because a
   name is UNKNOWN keeps the tree of the failed call.  Evaluating that tree later gives the value of the original. *)
Theorem staged_after_failure rho lk1 lk2 ir a a' e v1 ev v2 : compat rho lk1 ir -> compat rho lk2 ir ->
  evaluate_mut (fun n => Some (lk1 n)) ir a = EvErr a' e -> evaluate lk2 ir a' = I64.Ok (AConst v1, ev) ->
  den64 rho a = Some v2 -> v1 = v2.
Proof.
  intros C1 C2 E1 E2 D. pose proof (mut_err_fwd rho lk1 ir C1 a a' e E1) as F1.
  pose proof (evaluate_fwd rho lk2 ir a' C2 _ _ E2) as F2. apply (fwd_const rho a v1 v2); [exact (fwd_trans _ _ _ _ F1 F2)|exact D].
Qed.
