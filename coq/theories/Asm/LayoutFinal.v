(* C05 proofs, part 7: the statement loop of a whole file, the end-of-file tasks, close and finalize;
   the top-level theorems: image = reference layout, labels, order independence, no placeholder left. *)
From Coq Require Import ZArith NArith PeanoNat List Bool Lia ZifyBool ZifyNat ZifyN String.
From Trion Require Import Text.Types Expr.I64 Expr.EvalModel Expr.Denote Expr.C08Sound Arm.Instr Arm.DisplayModel Arm.AsmStmtModel Arm.EncodeModel
  Mem.MapModel Mem.DictSpec Mem.MapProofs Mem.MapLemmas
  Asm.CtxModel Asm.SegProofs Asm.LayoutSpec Asm.LayoutEval Asm.LayoutInstr Asm.LayoutDict Asm.ScopeProofs Asm.LayoutProofs Asm.LayoutSim
  Asm.Ctx06Proofs Asm.LayoutStep.
From Trion Require Text.ParseModel.
Import ListNotations.
Open Scope N_scope.

(* ------------------------------------------------------------------ pass 1 only adds *)
Lemma env_le_cons e n v : env_get e n = None -> env_le e ((n, v) :: e).
Proof.
  intros Hn m w Hm. cbn [env_get]. destruct (AsmStmtModel.str_eqb n m) eqn:Eq; [|exact Hm].
  apply str_eqb_eq in Eq. subst m. congruence.
Qed.

Lemma pass1_step_mono fs s e s' : pass1_step fs s e = Some s' ->
  env_le (p_env s) (p_env s') /\ (forall x, In x (p_items s) -> In x (p_items s')).
Proof.
  assert (D : forall n v s1, define s n v = Some s1 -> env_le (p_env s) (p_env s1) /\ (forall x, In x (p_items s) -> In x (p_items s1))).
  { intros n v s1. unfold define. destruct (AsmStmtModel.is_register n); [discriminate|].
    destruct (env_get (p_env s) n) eqn:Eg; [discriminate|]. intros H; inversion H; subst. cbn [p_env p_items].
    split; [apply env_le_cons; exact Eg|auto]. }
  assert (P : forall sz it s1, place s sz it = Some s1 -> env_le (p_env s) (p_env s1) /\ (forall x, In x (p_items s) -> In x (p_items s1))).
  { intros sz it s1. unfold place. destruct (p_cur s); [|discriminate]. destruct (n + sz <=? 4294967296); [|discriminate].
    intros H; inversion H; subst. cbn [p_env p_items]. split; [intros m w Hm; exact Hm|intros x Hx; now right]. }
  intros H. unfold pass1_step in H.
  repeat match type of H with
         | context[match ?x with _ => _ end] =>
             first [ match x with define _ _ _ => fail 2 end | match x with place _ _ _ => fail 2 end | destruct x eqn:? ]
         end; try discriminate H; eauto.
  inversion H; subst. cbn [p_env p_items]. split; [intros m w Hm; exact Hm|auto].
Qed.

Lemma pass1_mono fs : forall l s s', pass1 fs s l = Some s' ->
  env_le (p_env s) (p_env s') /\ (forall x, In x (p_items s) -> In x (p_items s')).
Proof.
  induction l as [|e r IH]; intros s s' H; cbn [pass1] in H.
  - inversion H; subst. split; [intros m w Hm; exact Hm|auto].
  - destruct (pass1_step fs s e) as [s1|] eqn:E1; [|discriminate].
    destruct (pass1_step_mono _ _ _ _ E1) as (A1 & B1). destruct (IH _ _ H) as (A2 & B2).
    split; [intros m w Hm; apply A2, A1, Hm|intros x Hx; apply B2, B1, Hx].
Qed.

(* ------------------------------------------------------------------ the statement loop *)
Definition class_from (fs : str -> option (list N)) (E : env) (s : p1) (els : list element) : Prop :=
  forall pre e post s0, els = pre ++ e :: post -> pass1 fs s (map e_val pre) = Some s0 -> stmt_ok E (p_env s0) (e_val e).

Lemma sim_run dbg fs inc E : inc_ok inc -> forall els st s st' s',
  Sim E st (p_cur s) (p_env s) (gdict E (p_items s)) -> class_from fs E s els ->
  run_items dbg fs inc (map Text.ParseModel.IOk els) st = Ret None st' -> errors st' = [] ->
  pass1 fs s (map e_val els) = Some s' -> env_le (p_env s') E ->
  (forall a it, In (a, it) (p_items s') -> pass2_item E a it <> None) ->
  Sim E st' (p_cur s') (p_env s') (gdict E (p_items s')).
Proof.
  intros IO. induction els as [|e r IH]; intros st s st' s' HSim HC HR HZ HP HE H2.
  - cbn in HR, HP. inversion HR; inversion HP; subst. exact HSim.
  - cbn [map run_items] in HR. cbn [map pass1] in HP. unfold CtxModel.bind in HR.
    destruct (step dbg fs inc st e) as [x st1| |] eqn:S1; try discriminate. destruct x; [discriminate|].
    destruct (pass1_step fs s (e_val e)) as [s1|] eqn:P1; [|discriminate].
    pose proof (run_items_spec dbg fs inc _ IO _ _ _ HR) as (EX & _).
    assert (Z1 : errors st1 = []). { destruct EX as (l & EX). rewrite EX in HZ. destruct l; [exact HZ|discriminate]. }
    destruct (pass1_mono _ _ _ _ HP) as (M1 & M2).
    assert (S' : Sim E st1 (p_cur s1) (p_env s1) (gdict E (p_items s1))).
    { pose proof (HC [] e r s eq_refl eq_refl) as OK0. destruct s as [cur ek items].
      apply (sim_step dbg fs inc E st cur ek items e st1 s1 HSim OK0 S1 Z1 P1).
      - intros m w Hm. apply HE, M1, Hm.
      - intros a it Hi. apply H2, M2, Hi. }
    apply (IH st1 s1 st' s'); auto.
    intros pre e0 post s0 Hl Hp. apply (HC (e :: pre) e0 post s0); [rewrite Hl; reflexivity|]. cbn [map pass1]. rewrite P1. exact Hp.
Qed.

(* ------------------------------------------------------------------ overwriting a placeholder *)
Lemma denZ_idents rho a : forall v, denZ rho a = Some v -> forall nm, In nm (LayoutEval.idents a) -> rho nm <> None.
Proof.
  induction a using ArgLemmas.arg_ind'; intros w Hd nm Hn; try (cbn in Hd; discriminate); try (cbn in Hn; contradiction).
  - cbn in Hn. destruct Hn as [<-|[]]. cbn in Hd. congruence.
  - rewrite idents_mk in Hn. apply denZ_mk_inv in Hd. destruct Hd as (x & y & Hx & Hy & _).
    apply in_app_or in Hn. destruct Hn; eauto.
  - cbn [denZ] in Hd. cbn [LayoutEval.idents] in Hn. destruct (denZ rho a) eqn:Da; [|discriminate]. eauto.
  - cbn [denZ] in Hd. cbn [LayoutEval.idents] in Hn. destruct (denZ rho a) eqn:Da; [|discriminate]. eauto.
Qed.

Lemma write_over dbg st t a data f l c k1 k2 p r st' :
  Rep (output st) -> match active st with Active sg => SegInv (output st) sg | Inactive => True end ->
  located st t -> task_addr t = a -> task_size t = mlen data -> 0 < mlen data ->
  write_stmt dbg st f l c a data k1 k2 p = Ret r st' -> errors st' = [] ->
  r = None /\ (forall x, view st' x = wr (view st) a data x) /\ Rep (output st') /\
  (forall t', located st t' -> located st' t') /\
  locals st' = locals st /\ path_stack st' = path_stack st /\ errors st' = errors st /\ global_tasks st' = global_tasks st /\
  local_tasks st' = local_tasks st /\
  match active st with
  | Active sg => exists sg', active st' = Active sg' /\ SegInv (output st') sg' /\ s_base sg' = s_base sg /\ blen sg' = blen sg
  | Inactive => active st' = Inactive
  end.
Proof.
  intros HR HA HL Ea Es Hpos HW HZ.
  assert (PUT : (forall x, a <= x -> x < a + mlen data -> d_get (abs (output st)) x <> None) ->
                match active st with Active sg => a + mlen data <= s_base sg \/ s_base sg + s_max sg <= a | Inactive => True end ->
                put_stmt dbg st f l c a data k2 p = Ret r st' ->
                r = None /\ (forall x, view st' x = wr (view st) a data x) /\ Rep (output st') /\
                (forall t', located st t' -> located st' t') /\
                locals st' = locals st /\ path_stack st' = path_stack st /\ errors st' = errors st /\ global_tasks st' = global_tasks st /\
                local_tasks st' = local_tasks st /\
                match active st with
                | Active sg => exists sg', active st' = Active sg' /\ SegInv (output st') sg' /\ s_base sg' = s_base sg /\ blen sg' = blen sg
                | Inactive => active st' = Inactive
                end).
  { intros Hocc Hdis HP. unfold put_stmt in HP.
    assert (Hne : data <> []) by (intros ->; cbn in Hpos; lia).
    destruct (put_over dbg (output st) a data HR Hne Hocc) as (m' & E1 & R' & AB & DOM). rewrite E1 in HP.
    change (0 =? 0) with true in HP. cbv iota in HP. inversion HP; subst r st'.
    split; [reflexivity|]. split.
    { intros x. apply view_output; [exact AB|]. destruct (active st) as [|sg]; [exact I|].
      destruct HA as (H1 & _). destruct Hdis; lia. }
    split; [exact R'|]. split.
    { intros t' [(sg & EA & B1 & B2)|B]; [left; exists sg; auto|right]. intros x Hx. cbn [output set_output]. apply DOM. apply B. exact Hx. }
    repeat split; try reflexivity.
    cbn [active set_output output]. destruct (active st) as [|sg]; [reflexivity|]. exists sg. split; [reflexivity|].
    split; [|auto]. destruct HA as (H1 & H0 & H2 & H3). apply occ_seginv; auto.
    intros x Hx. apply DOM in Hx. apply (seginv_occ (output st) sg (conj H1 (conj H0 (conj H2 H3))) x Hx HR). }
  unfold write_stmt in HW. destruct (active st) as [|sg] eqn:EA.
  - apply PUT; auto. destruct HL as [(sg & EA' & _)|B]; [discriminate|]. intros x H1 H2. apply B. unfold in_task. lia.
  - destruct HL as [(sg' & EA' & B1 & B2)|B].
    + inversion EA'; subst sg'. rewrite Ea in *. rewrite Es in *.
      pose proof HA as (H1 & H0 & H2 & H3).
      rewrite (covers_spec dbg (output st) sg a HA) in HW.
      destruct ((s_base sg <=? a) && ((a - s_base sg <? blen sg) || (a - s_base sg =? blen sg) && (blen sg <? s_max sg))) eqn:Cv; [|lia].
      assert (Hcur : a <= curr_addr sg).
      { unfold curr_addr, sat_add32, CtxSeg.U32MAX, CtxSeg.U32, MapModel.U32MAX, MapModel.U32 in *.
        assert (N.land (blen sg) 0xFFFFFFFF = blen sg).
        { change 0xFFFFFFFF with (N.ones 32). rewrite N.land_ones. apply N.mod_small. change (2 ^ 32) with 4294967296. lia. }
        lia. }
      destruct (write_at_ok dbg (output st) sg a data HA B1 Hcur ltac:(lia)) as (W1 & W2 & _). rewrite W1 in HW.
      inversion HW; subst r st'.
      assert (LS : mlen (splice (s_buf sg) (a - s_base sg) data) = mlen (s_buf sg)).
      { unfold splice. unfold blen, CtxSeg.len in *. rewrite !len_app, SegProofs.len_takeN, SegProofs.len_dropN by lia. lia. }
      split; [reflexivity|]. split.
      { intros x. rewrite (view_splice st sg (a - s_base sg) data x EA) by lia. f_equal. lia. }
      split; [exact HR|]. split.
      { intros t' [(s0 & E0 & C1 & C2)|C]; [left|right; exact C]. rewrite EA in E0. inversion E0; subst s0.
        eexists. split; [reflexivity|]. rewrite blen_set_buf, LS. cbn [s_base set_buf]. unfold blen, CtxSeg.len in *. lia. }
      repeat split; try reflexivity. eexists. split; [reflexivity|]. split; [exact W2|]. split; [reflexivity|].
      rewrite blen_set_buf, LS. reflexivity.
    + assert (Hocc : forall x, a <= x -> x < a + mlen data -> d_get (abs (output st)) x <> None).
      { intros x X1 X2. apply B. unfold in_task. lia. }
      assert (Hout : forall x, a <= x -> x < a + mlen data -> x < s_base sg \/ s_base sg + s_max sg <= x).
      { intros x X1 X2. apply (seginv_occ (output st) sg HA x (Hocc x X1 X2) HR). }
      pose proof HA as (H1 & H0 & H2 & H3).
      assert (Hdis : a + mlen data <= s_base sg \/ s_base sg + s_max sg <= a).
      { destruct (Hout a ltac:(lia) ltac:(lia)) as [K1|K1]; [|right; exact K1].
        destruct (Hout (a + mlen data - 1) ltac:(lia) ltac:(lia)) as [K2|K2]; [left; lia|].
        exfalso. destruct (Hout (s_base sg) ltac:(lia) ltac:(lia)); lia. }
      rewrite (covers_spec dbg (output st) sg a HA) in HW.
      destruct ((s_base sg <=? a) && ((a - s_base sg <? blen sg) || (a - s_base sg =? blen sg) && (blen sg <? s_max sg))) eqn:Cv; [lia|].
      apply PUT; auto.
Qed.
