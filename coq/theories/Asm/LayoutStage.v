(* C05 proofs, part 5b: the operand of a deferred instruction statement.
   staged_ok E a: the class of evaluated operands for which "staged = direct" is proved -
   (1) the operand has a checked 64-bit value in the final table E (Expr/Denote.den64): a label, a .const, any
       arithmetic over them; or
   (2) it is a memory operand [reg + e] / [e + reg] whose offset e has such a value.
   For such an operand, in a context whose table is a part of E:
   * the first stage completes with the constant of the final value, or stops at an unknown name and leaves a tree
     that the final table evaluates to the same constant (stage_stg: LayoutSim.stg);
   * the final evaluation yields a constant (stage_shape), so the half-filled template encodes (LayoutInstrD.partial_encodes);
   * at the end of the file (table = E) the context evaluates every operand as the reference does (end_ev_le). *)
From Coq Require Import ZArith NArith List Bool Lia.
From Trion Require Import Text.Types Expr.I64 Expr.EvalModel Expr.ArgLemmas Expr.Denote Expr.C08Sound Arm.AsmStmtModel
  Asm.CtxModel Asm.LayoutSpec Asm.LayoutEval Asm.LayoutEvalC Asm.LayoutInstr Asm.LayoutInstrC Asm.LayoutInstrD Asm.LayoutSim.
Import ListNotations.

(* [r + e] (side = true) / [e + r] (side = false) *)
Definition mem_form (r : str) (side : bool) (e : arg) : arg := AAddr (if side then AAdd (AIdent r) e else AAdd e (AIdent r)).
Definition mem_ok (E : env) (a : arg) : Prop :=
  exists r side e, CtxModel.is_register r = true /\ den64 (rho E) e <> None /\ a = mem_form r side e.
Definition staged_ok (E : env) (a : arg) : Prop := den64 (rho E) a <> None \/ mem_ok E a.

Lemma rho_noreg e s v : rho e s = Some v -> CtxModel.is_register s = false.
Proof. unfold rho. change (AsmStmtModel.is_register s) with (CtxModel.is_register s). destruct (CtxModel.is_register s); [discriminate|reflexivity]. Qed.

Lemma lkE_nd E : no_deferred (lkE E).
Proof. intros s. unfold lkE. destruct (env_get E s); discriminate. Qed.

Lemma denZ_ids rho a : forall v, denZ rho a = Some v -> forall nm, In nm (LayoutEval.idents a) -> rho nm <> None.
Proof.
  induction a using ArgLemmas.arg_ind'; intros w Hd nm Hn; try (cbn in Hd; discriminate); try (cbn in Hn; contradiction).
  - cbn in Hn. destruct Hn as [<-|[]]. cbn in Hd. congruence.
  - rewrite idents_mk in Hn. apply denZ_mk_inv in Hd. destruct Hd as (x & y & Hx & Hy & _).
    apply in_app_or in Hn. destruct Hn; eauto.
  - cbn [denZ] in Hd. cbn [LayoutEval.idents] in Hn. destruct (denZ rho a) eqn:Da; [|discriminate]. eauto.
  - cbn [denZ] in Hd. cbn [LayoutEval.idents] in Hn. destruct (denZ rho a) eqn:Da; [|discriminate]. eauto.
Qed.

Lemma final_ev_unfold E a : final_ev E a =
  match evaluate (lkE E) CtxModel.is_register a with
  | I64.Ok (a', Complete _) => (a', SComplete)
  | I64.Ok (a', Deferred _ c) => (a', SDeferred c)
  | I64.Err ENoSuchVariable => (a, SNoSuchVar [])
  | _ => (a, SEvalError)
  end.
Proof. reflexivity. Qed.

(* a valued operand evaluates in the final table to the constant of its value *)
Lemma fev_den E a w : den64 (rho E) a = Some w -> final_ev E a = (AConst w, SComplete).
Proof.
  intros Dw. rewrite final_ev_unfold.
  destruct (evaluate_mut_den (rho E) (lkE E) CtxModel.is_register (compat_lkE E) (lkE_nd E) (rho_noreg E) a w Dw) as [(c & M)|(a' & n & M)].
  - apply mut_ok_evaluate in M. rewrite M. reflexivity.
  - exfalso. apply mut_novar_unknown in M. apply M.
    apply den64_denZ in Dw. destruct Dw as (Dw & _). intros m Hm. pose proof (denZ_ids _ _ _ Dw m Hm) as Hr.
    unfold rho in Hr. change (AsmStmtModel.is_register m) with (CtxModel.is_register m) in Hr.
    destruct (CtxModel.is_register m); [now left|right]. unfold lkE. destruct (env_get E m) as [v|]; [eauto|congruence].
Qed.

(* ------------------------------------------------------------------ memory operands *)
(* what evaluate returns for [r + e] once e has become the constant w (c = the "changed" flag of e's evaluation) *)
Definition mem_out (r : str) (side : bool) (w : Z) (c : bool) : I64.outcome (arg * evaluation)%type :=
  eval_un AAddr (if side then eval_bin OpAdd (I64.Ok (AIdent r, Complete false)) (I64.Ok (AConst w, Complete c))
                 else eval_bin OpAdd (I64.Ok (AConst w, Complete c)) (I64.Ok (AIdent r, Complete false))).

Lemma mem_evaluate lk ir r side e w c : ir r = true -> evaluate lk ir e = I64.Ok (AConst w, Complete c) ->
  evaluate lk ir (mem_form r side e) = mem_out r side w c.
Proof. intros R Ev. unfold mem_form, mem_out. destruct side; cbn [evaluate]; rewrite R, Ev; reflexivity. Qed.

Lemma simplify_raw_addr v a' c : SimplifyModel.simplify_raw (AAddr v) = I64.Ok (a', c) -> a' = AAddr v.
Proof. unfold SimplifyModel.simplify_raw. cbn [I64.bin_view]. destruct (I64.bad_operand v); [discriminate|]. intros H; inversion H; reflexivity. Qed.

(* the flag does not influence the tree; the result is an address operand *)
Lemma mem_out_flag r side w c1 c2 x ev1 : mem_out r side w c1 = I64.Ok (x, ev1) ->
  (exists c, ev1 = Complete c) /\ (exists inner, x = AAddr inner) /\ exists c', mem_out r side w c2 = I64.Ok (x, Complete c').
Proof.
  unfold mem_out, eval_un, eval_bin, eval_node. destruct side; cbn [I64.bind I64.mk_bin ev_or];
    (match goal with |- context[SimplifyModel.simplify_raw (AAdd ?l ?rr)] => destruct (SimplifyModel.simplify_raw (AAdd l rr)) as [[a' ch]| |]; cbn [I64.bind]; try discriminate end);
    (destruct (SimplifyModel.simplify_raw (AAddr a')) as [[a'' ch2]| |] eqn:SA; cbn [I64.bind]; try discriminate);
    apply simplify_raw_addr in SA; subst a''; intros H; inversion H; subst; cbn [ev_or]; eauto 10.
Qed.

Lemma mem_mut lk ir r side e e1 er : ir r = true ->
  evaluate_mut (fun n => Some (lk n)) ir e = EvErr e1 er ->
  evaluate_mut (fun n => Some (lk n)) ir (mem_form r side e) = EvErr (mem_form r side e1) er.
Proof. intros R H. unfold mem_form. destruct side; cbn [evaluate_mut]; rewrite R, H; reflexivity. Qed.

Lemma mem_mut_ok lk ir r side e w c : ir r = true ->
  evaluate_mut (fun n => Some (lk n)) ir e = EvOk (AConst w) (Complete c) ->
  match mem_out r side w c with
  | I64.Ok (x, ev) => evaluate_mut (fun n => Some (lk n)) ir (mem_form r side e) = EvOk x ev
  | I64.Err er => exists a', evaluate_mut (fun n => Some (lk n)) ir (mem_form r side e) = EvErr a' (EEOther er)
  | I64.Panic q => evaluate_mut (fun n => Some (lk n)) ir (mem_form r side e) = EvPanic (P_simplify q)
  end.
Proof.
  intros R H. unfold mem_form, mem_out, eval_un, eval_bin, eval_node.
  destruct side; cbn [evaluate_mut]; rewrite R, H; cbn [negb]; unfold ev_un, ev_bin, ev_node; cbn [I64.bind I64.mk_bin ev_or];
    (match goal with |- context[SimplifyModel.simplify_raw (AAdd ?l ?rr)] => destruct (SimplifyModel.simplify_raw (AAdd l rr)) as [[a' ch]|er|q]; cbn [I64.bind]; eauto end);
    (destruct (SimplifyModel.simplify_raw (AAddr a')) as [[a'' ch2]|er|q]; cbn [I64.bind]; eauto).
Qed.

(* the offset of a memory operand evaluates to its constant in the final table *)
Lemma fev_eval E e w : den64 (rho E) e = Some w -> exists c, evaluate (lkE E) CtxModel.is_register e = I64.Ok (AConst w, Complete c).
Proof.
  intros D. pose proof (fev_den E e w D) as F. rewrite final_ev_unfold in F.
  destruct (evaluate (lkE E) CtxModel.is_register e) as [[x [c|c n]]|[]|]; inversion F; subst. eauto.
Qed.

Lemma fev_mem E r side e w x : CtxModel.is_register r = true -> den64 (rho E) e = Some w ->
  final_ev E (mem_form r side e) = (x, SComplete) -> exists c ev, mem_out r side w c = I64.Ok (x, ev).
Proof.
  intros R D H. destruct (fev_eval E e w D) as (c & Ev). rewrite final_ev_unfold, (mem_evaluate _ _ r side e w c R Ev) in H.
  exists c. destruct (mem_out r side w c) as [[x' [c'|c' n]]|[]|]; inversion H; subst; eauto.
Qed.

Lemma mem_fev E r side e w c x ev : CtxModel.is_register r = true -> den64 (rho E) e = Some w ->
  mem_out r side w c = I64.Ok (x, ev) -> final_ev E (mem_form r side e) = (x, SComplete).
Proof.
  intros R D H. destruct (fev_eval E e w D) as (c0 & Ev). rewrite final_ev_unfold, (mem_evaluate _ _ r side e w c0 R Ev).
  destruct (mem_out_flag r side w c c0 x ev H) as (_ & _ & c' & ->). reflexivity.
Qed.

Lemma stage_shape E a v : staged_ok E a -> final_ev E a = (v, SComplete) -> (exists w, v = AConst w) \/ (exists inner, v = AAddr inner).
Proof.
  intros [S|(r & side & e & R & S & ->)] H.
  - destruct (den64 (rho E) a) as [w|] eqn:D; [|congruence]. rewrite (fev_den E a w D) in H. inversion H. eauto.
  - destruct (den64 (rho E) e) as [w|] eqn:D; [|congruence]. destruct (fev_mem E r side e w v R D H) as (c & ev & M).
    right. destruct (mem_out_flag r side w c c v ev M) as (_ & I & _). exact I.
Qed.

Section Ctx.
  Variables (E ek : env) (st : state) (tbl : table) (p : str) (ps : list str).
  Hypothesis EL : locals st = Some tbl.
  Hypothesis EP : path_stack st = p :: ps.
  Hypothesis TE : TblEnv tbl ek.
  Hypothesis LE : env_le ek E.

  Lemma cev_den a w : den64 (rho E) a = Some w ->
    (exists c, ctx_eval st a = EvOk (AConst w) (Complete c)) \/
    (exists a' n, ctx_eval st a = EvErr a' (EENoVar n) /\ den64 (rho E) a' = Some w).
  Proof.
    intros D. rewrite (ctx_eval_eq st tbl p ps a EL EP).
    assert (CP : compat (rho E) (lookup_of tbl) CtxModel.is_register) by (eapply compat_tbl; eauto).
    assert (ND : no_deferred (lookup_of tbl)) by (eapply tbl_no_deferred; eauto).
    destruct (evaluate_mut_den (rho E) (lookup_of tbl) CtxModel.is_register CP ND (rho_noreg E) a w D) as [H|(a' & n & H)]; [left; exact H|right].
    exists a', n. split; [exact H|]. eapply (evaluate_mut_err_den (rho E) (lookup_of tbl) CtxModel.is_register CP ND (rho_noreg E)); eauto.
  Qed.

  (* a memory operand in the context: as mem_out says once the offset is a constant, or stopped at an unknown name *)
  Lemma cev_mem r side e w : CtxModel.is_register r = true -> den64 (rho E) e = Some w ->
    (exists c, match mem_out r side w c with
               | I64.Ok (x, ev) => ctx_eval st (mem_form r side e) = EvOk x ev
               | I64.Err er => exists a', ctx_eval st (mem_form r side e) = EvErr a' (EEOther er)
               | I64.Panic q => ctx_eval st (mem_form r side e) = EvPanic (P_simplify q)
               end) \/
    (exists e1 n, ctx_eval st (mem_form r side e) = EvErr (mem_form r side e1) (EENoVar n) /\ den64 (rho E) e1 = Some w).
  Proof.
    intros R D. destruct (cev_den e w D) as [(c & CE)|(e1 & n & CE & D1)].
    - left. exists c. rewrite (ctx_eval_eq st tbl p ps e EL EP) in CE. rewrite (ctx_eval_eq st tbl p ps (mem_form r side e) EL EP). apply mem_mut_ok; assumption.
    - right. exists e1, n. split; [|exact D1]. rewrite (ctx_eval_eq st tbl p ps e EL EP) in CE. rewrite (ctx_eval_eq st tbl p ps (mem_form r side e) EL EP). apply mem_mut; assumption.
  Qed.

  (* now, or deferred by an unknown name *)
  Lemma stage_now a x : staged_ok E a -> final_ev E a = (x, SComplete) ->
    instr_ev st a = (x, SComplete) \/ exists a1 n, instr_ev st a = (a1, SNoSuchVar n).
  Proof.
    intros [S|(r & side & e & R & S & ->)] H.
    - destruct (den64 (rho E) a) as [w|] eqn:D; [|congruence].
      rewrite (fev_den E a w D) in H. inversion H; subst x. unfold instr_ev.
      destruct (cev_den a w D) as [(c & ->)|(a' & n & -> & _)]; [left; reflexivity|right; eauto].
    - destruct (den64 (rho E) e) as [w|] eqn:D; [|congruence].
      destruct (fev_mem E r side e w x R D H) as (c0 & ev0 & M0). unfold instr_ev.
      destruct (cev_mem r side e w R D) as [(c & CE)|(e1 & n & CE & _)]; [left|right; rewrite CE; eauto].
      destruct (mem_out_flag r side w c0 c x ev0 M0) as (_ & _ & c' & M). rewrite M in CE. rewrite CE. reflexivity.
  Qed.

  (* the tree a deferral keeps evaluates, in the final table, as the original operand does *)
  Lemma stage_stg a0 a1 s : staged_ok E a0 -> instr_ev st a0 = (a1, s) -> s <> SComplete -> s <> SEvalError ->
    stg E a0 a1 /\ exists n, s = SNoSuchVar n.
  Proof.
    intros [S|(r & side & e & R & S & ->)] H N1 N2.
    - destruct (den64 (rho E) a0) as [w|] eqn:D; [|congruence].
      unfold instr_ev in H. destruct (cev_den a0 w D) as [(c & CE)|(a' & n & CE & D')]; rewrite CE in H; inversion H; subst; [congruence|].
      split; [|eauto]. intros x Hx. rewrite (fev_den E a0 w D) in Hx. inversion Hx; subst x. apply fev_den. exact D'.
    - destruct (den64 (rho E) e) as [w|] eqn:D; [|congruence]. unfold instr_ev in H.
      destruct (cev_mem r side e w R D) as [(c & CE)|(e1 & n & CE & D1)].
      + exfalso. destruct (mem_out r side w c) as [[x ev]|er|q] eqn:M.
        * destruct (mem_out_flag r side w c c x ev M) as ((c' & ->) & _). rewrite CE in H. inversion H; subst. congruence.
        * destruct CE as (a' & CE). rewrite CE in H. inversion H; subst. congruence.
        * rewrite CE in H. inversion H; subst. congruence.
      + rewrite CE in H. inversion H; subst. split; [|eauto]. intros x Hx.
        destruct (fev_mem E r side e w x R D Hx) as (c0 & ev0 & M0). eapply mem_fev; eauto.
  Qed.
End Ctx.

(* at the end of the file the table is the final table: the context evaluates as the reference does *)
Lemma end_ev_le E st tbl p ps a x : locals st = Some tbl -> path_stack st = p :: ps -> TblEnv tbl E ->
  final_ev E a = (x, SComplete) -> instr_ev st a = (x, SComplete).
Proof.
  intros EL EP TE H. rewrite final_ev_unfold in H.
  destruct (evaluate (lkE E) CtxModel.is_register a) as [[x' [c|c n]]|[]|] eqn:Ev; inversion H; subst.
  assert (AG : agree_on CtxModel.is_register (lkE E) (lookup_of tbl) a).
  { intros m Hm. right. unfold lkE, lookup_of. rewrite (TE m). destruct (env_get E m); reflexivity. }
  rewrite (evaluate_ext _ _ _ a AG) in Ev. apply evaluate_ok_mut in Ev.
  unfold instr_ev. rewrite (ctx_eval_eq st tbl p ps a EL EP), Ev. reflexivity.
Qed.
