(* C05 proofs, part 3: facts about the operand processing of instruction statements (Arm/AsmStmtModel.assemble_args)
   that do not depend on the assembler context:
   * the encoded size depends on the mnemonic only (isz), also for the partially filled template of a deferred
     statement (partial_instr), so the placeholder has the size of the final encoding;
   * assemble_args is monotone in the evaluator: an evaluator that reproduces every Complete evaluation of another
     one yields the same instruction (used for "table now" -> "final table");
   * a deferred B<cond> / BL statement that is retried yields the instruction of the direct assembly whenever the
     target has the same value in both. *)
From Coq Require Import ZArith NArith List Bool Lia ZifyBool ZifyNat ZifyN.
From Trion Require Import Text.Types Arm.Instr Arm.AsmStmtModel Arm.EncodeModel.
From Trion Require Asm.CtxModel.
Import ListNotations.
Open Scope N_scope.

(* size in bytes of the encoding of an instruction: a function of the constructor *)
Definition isz (i : instr) : N :=
  match i with Bl _ | Dmb | Dsb | Isb | Mrs _ _ | Msr _ _ | Udfw _ => 4 | _ => 2 end.

Ltac split_goal := repeat match goal with |- context[match ?x with _ => _ end] => destruct x end.

Definition sized (n : N) (r : enc_result) : Prop := forall hws, r = EncOk hws -> 2 * N.of_nat (length hws) = n.
Lemma sized_guard n b r : sized n r -> sized n (guard b r).
Proof. unfold guard. destruct b; [intros _ hws H; discriminate|auto]. Qed.
Lemma sized_s1 h : sized 2 (s1 h). Proof. intros hws H. inversion H. reflexivity. Qed.
Lemma sized_d2 h0 h1 : sized 4 (d2 h0 h1). Proof. intros hws H. inversion H. reflexivity. Qed.
Ltac sz := cbv zeta; unfold two_low, three_low;
  repeat first [ apply sized_guard | apply sized_s1 | apply sized_d2
               | match goal with |- sized _ (match ?x with _ => _ end) => destruct x end ].

Lemma enc_size i hws : enc i = EncOk hws -> 2 * N.of_nat (length hws) = isz i.
Proof. revert hws. change (sized (isz i) (enc i)). destruct i; cbn [enc isz]; sz. Qed.

Lemma len_le_bytes hws : N.of_nat (length (le_bytes hws)) = 2 * N.of_nat (length hws).
Proof. induction hws as [|h r IH]; [reflexivity|]. cbn [le_bytes flat_map le16 app length]. change (flat_map le16 r) with (le_bytes r). lia. Qed.

Lemma enc_bytes_size i n bytes : enc_bytes i 4 = EbOk n bytes -> n = isz i /\ N.of_nat (length bytes) = isz i.
Proof.
  unfold enc_bytes. destruct (enc i) as [hws|] eqn:E; [|discriminate]. apply enc_size in E.
  destruct (4 <? 2 * N.of_nat (length hws)); [discriminate|]. intros H; inversion H; subst. rewrite len_le_bytes. auto.
Qed.

(* ------------------------------------------------------------------ the shape of assemble_args *)
Ltac open_args :=
  cbn [assemble_args]; unfold rr, rri, r_addr, r_addr_reg, small_imm, c_immediate, c_offset, c_immreg, c_address, c_addr_offset, bind.

Ltac conv_loop :=
  repeat (cbv beta iota in *;
    match goal with
    | H : match ?X with _ => _ end = COk _ _ |- _ => destruct X eqn:?; try discriminate H
    end).

Lemma assemble_args_isz ev l addr t st i st' : assemble_args ev l addr t st = COk i st' -> isz i = isz t.
Proof.
  destruct t; open_args; intros H; conv_loop; cbv beta iota in H; inversion H; reflexivity.
Qed.

Lemma assemble_args_partial ev l addr t a st :
  assemble_args ev l addr (CtxModel.partial_instr t a) st = assemble_args ev l addr t st.
Proof.
  destruct t; cbn [CtxModel.partial_instr]; cbv zeta; split_goal; reflexivity.
Qed.

Lemma partial_isz t a : isz (CtxModel.partial_instr t a) = isz t.
Proof. destruct t; cbn [CtxModel.partial_instr]; cbv zeta; split_goal; reflexivity. Qed.

(* ------------------------------------------------------------------ monotone in the evaluator *)
Definition ev_le (ev1 ev2 : evaluator) : Prop := forall a a', ev1 a = (a', SComplete) -> ev2 a = (a', SComplete).

Lemma eval_at_mono ev1 ev2 l1 l2 pos st a st' : ev_le ev1 ev2 ->
  eval_at ev1 l1 pos st = COk a st' -> eval_at ev2 l2 pos st = COk a st'.
Proof.
  intros LE. unfold eval_at. destruct (nth_error (a_args st) pos) as [x|]; [|discriminate].
  destruct (Nat.leb (a_done st) pos); [|auto].
  destruct (ev1 x) as [a1 s1] eqn:E1. destruct s1; try discriminate.
  - rewrite (LE _ _ E1). auto.
  - destruct l1; discriminate.
Qed.

Ltac mono_loop LE :=
  repeat (cbv beta iota in *;
    match goal with
    | H : match ?X with _ => _ end = COk _ _ |- _ =>
        lazymatch X with
        | eval_at _ _ _ _ =>
            let EE := fresh "EE" in
            destruct X eqn:EE; [ rewrite (eval_at_mono _ _ _ _ _ _ _ _ LE EE) | discriminate H | discriminate H | discriminate H ]
        | _ => destruct X eqn:?; try discriminate H
        end
    end).

Lemma assemble_args_mono ev1 ev2 l1 l2 addr t st i st' : ev_le ev1 ev2 ->
  assemble_args ev1 l1 addr t st = COk i st' -> assemble_args ev2 l2 addr t st = COk i st'.
Proof.
  intros LE. destruct t; open_args; intros H; mono_loop LE; cbv beta iota in *;
    repeat match goal with E : COk _ _ = COk _ _ |- _ => inversion E; subst; clear E end;
    repeat (cbv beta iota; match goal with E : ?X = _ |- context[match ?X with _ => _ end] => rewrite E end); cbv beta iota; reflexivity.
Qed.

(* ------------------------------------------------------------------ deferred branches *)
Definition is_branch (t : instr) : bool := match t with B _ _ | Bl _ => true | _ => false end.

Lemma c_offset_one ev l a tgt st' : c_offset ev l 0 (mkAst [a] 0) = COk tgt st' ->
  exists v, ev a = (AConst v, SComplete) /\ u32_of v = Some tgt /\ st' = mkAst [AConst v] 1.
Proof.
  unfold c_offset, eval_at, bind. cbn [nth_error a_args a_done Nat.leb set_nth].
  destruct (ev a) as [a' s]. destruct s; try discriminate; [|destruct l; discriminate].
  destruct a'; try discriminate. destruct (u32_of v) eqn:U; [|discriminate]. intros H; inversion H; subst. eauto.
Qed.

(* stage 1 of a branch: what is kept when the operand defers *)
Lemma c_offset_defer ev a cause ast1 : c_offset ev true 0 (mkAst [a] 0) = CDefer cause ast1 ->
  exists a1 s, ev a = (a1, s) /\ s <> SComplete /\ ast1 = mkAst [a1] 0.
Proof.
  unfold c_offset, eval_at, bind. cbn [nth_error a_args a_done Nat.leb set_nth].
  destruct (ev a) as [a1 s]. destruct s.
  - destruct a1; try discriminate. match goal with |- context[u32_of ?v] => destruct (u32_of v) end; discriminate.
  - intros H; inversion H; subst. eexists _, _. split; [reflexivity|]. split; [discriminate|reflexivity].
  - intros H; inversion H; subst. eexists _, _. split; [reflexivity|]. split; [discriminate|reflexivity].
  - discriminate.
Qed.

Lemma branch_offset_nodefer addr tgt lo hi st c s : branch_offset addr tgt lo hi st <> CDefer c s.
Proof. unfold branch_offset. split_goal; discriminate. Qed.

Lemma branch_defer ev addr t args cause ast1 : is_branch t = true ->
  assemble_args ev true addr t (mkAst args 0) = CDefer cause ast1 ->
  exists a a1 s, args = [a] /\ ev a = (a1, s) /\ s <> SComplete /\ ast1 = mkAst [a1] 0.
Proof.
  intros HB. destruct t; try discriminate HB; cbn [assemble_args]; unfold arity, bind; cbn [a_args];
    (destruct args as [|a [|b r]]; cbn [length Nat.ltb Nat.leb]; try discriminate);
    (destruct (c_offset ev true 0 (mkAst [a] 0)) as [tgt s0|c0 s0|d0 s0|] eqn:C; try discriminate;
     [ | intros H; inversion H; subst; apply c_offset_defer in C; destruct C as (a1 & s & C1 & C2 & C3); exists a, a1, s; auto ]).
  - destruct (cond_eqb c Always);
      match goal with |- context[branch_offset ?a ?b ?x ?y ?z] => destruct (branch_offset a b x y z) eqn:BO; try discriminate end;
      exfalso; eapply branch_offset_nodefer; eauto.
  - match goal with |- context[branch_offset ?a ?b ?x ?y ?z] => destruct (branch_offset a b x y z) eqn:BO; try discriminate end.
    exfalso; eapply branch_offset_nodefer; eauto.
Qed.

(* stage 2 against the direct assembly *)
Lemma branch_staged ev2 evF l2 lF addr t a a1 i ast2 iF astF v : is_branch t = true ->
  (forall x, ev2 a1 = (AConst x, SComplete) -> x = v) -> (forall x, evF a = (AConst x, SComplete) -> x = v) ->
  assemble_args ev2 l2 addr t (mkAst [a1] 0) = COk i ast2 ->
  assemble_args evF lF addr t (mkAst [a] 0) = COk iF astF -> i = iF.
Proof.
  intros HB V2 VF. destruct t; try discriminate HB; cbn [assemble_args]; unfold arity, bind; cbn [a_args length Nat.ltb Nat.leb].
  - destruct (c_offset ev2 l2 0 (mkAst [a1] 0)) as [t2 s2| | |] eqn:C2; try discriminate.
    destruct (c_offset evF lF 0 (mkAst [a] 0)) as [tF sF| | |] eqn:CF; try discriminate.
    apply c_offset_one in C2. apply c_offset_one in CF. destruct C2 as (x2 & E2 & U2 & ->). destruct CF as (xF & EF & UF & ->).
    apply V2 in E2. apply VF in EF. subst x2 xF. rewrite U2 in UF. inversion UF; subst tF.
    destruct (if cond_eqb c Always then branch_offset addr t2 (-2048) 2046 (mkAst [AConst v] 1)
              else branch_offset addr t2 (-256) 254 (mkAst [AConst v] 1)) as [o s| | |]; try discriminate.
    intros H1 H2. inversion H1; inversion H2; subst. reflexivity.
  - destruct (c_offset ev2 l2 0 (mkAst [a1] 0)) as [t2 s2| | |] eqn:C2; try discriminate.
    destruct (c_offset evF lF 0 (mkAst [a] 0)) as [tF sF| | |] eqn:CF; try discriminate.
    apply c_offset_one in C2. apply c_offset_one in CF. destruct C2 as (x2 & E2 & U2 & ->). destruct CF as (xF & EF & UF & ->).
    apply V2 in E2. apply VF in EF. subst x2 xF. rewrite U2 in UF. inversion UF; subst tF.
    destruct (branch_offset addr t2 (-16777216) 16777215 (mkAst [AConst v] 1)) as [o s| | |]; try discriminate.
    intros H1 H2. inversion H1; inversion H2; subst. reflexivity.
Qed.

(* ------------------------------------------------------------------ a deferral comes from an operand *)
Lemma arity_st n st v st' : arity n st = COk v st' -> st' = st.
Proof. unfold arity. split_goal; intros H; inversion H; reflexivity. Qed.
Lemma c_register_st q st v st' : c_register q st = COk v st' -> st' = st.
Proof. unfold c_register. split_goal; intros H; inversion H; reflexivity. Qed.
Lemma c_sysreg_st q st v st' : c_sysreg q st = COk v st' -> st' = st.
Proof. unfold c_sysreg. split_goal; intros H; inversion H; reflexivity. Qed.
Lemma c_identifier_st q st v st' : c_identifier q st = COk v st' -> st' = st.
Proof. unfold c_identifier. split_goal; intros H; inversion H; reflexivity. Qed.
Lemma c_regset_st q st v st' : c_regset q st = COk v st' -> st' = st.
Proof. unfold c_regset. split_goal; intros H; inversion H; reflexivity. Qed.

Lemma arity_nd n st c s : arity n st <> CDefer c s. Proof. unfold arity. split_goal; discriminate. Qed.
Lemma c_register_nd q st c s : c_register q st <> CDefer c s. Proof. unfold c_register. split_goal; discriminate. Qed.
Lemma c_sysreg_nd q st c s : c_sysreg q st <> CDefer c s. Proof. unfold c_sysreg. split_goal; discriminate. Qed.
Lemma c_identifier_nd q st c s : c_identifier q st <> CDefer c s. Proof. unfold c_identifier. split_goal; discriminate. Qed.
Lemma c_regset_nd q st c s : c_regset q st <> CDefer c s. Proof. unfold c_regset. split_goal; discriminate. Qed.
Lemma lit_offset_nd a t st c s : lit_offset a t st <> CDefer c s. Proof. unfold lit_offset. split_goal; discriminate. Qed.

Definition defers (ev : evaluator) (args : list arg) : Prop :=
  exists x a' s, In x args /\ ev x = (a', s) /\ s <> SComplete /\ s <> SEvalError.

Lemma eval_at_defer ev l pos st c s : eval_at ev l pos st = CDefer c s -> defers ev (a_args st).
Proof.
  unfold eval_at. destruct (nth_error (a_args st) pos) as [x|] eqn:Nx; [|discriminate].
  destruct (Nat.leb (a_done st) pos); [|discriminate]. destruct (ev x) as [a' s0] eqn:Ex.
  intros H. exists x, a', s0. split; [eapply nth_error_In; eauto|]. split; [exact Ex|].
  destruct s0; try discriminate H; split; discriminate.
Qed.

Ltac defer_loop :=
  repeat (cbv beta iota in *;
    match goal with
    | H : match ?X with _ => _ end = CDefer _ _ |- _ => destruct X eqn:?; try discriminate H
    end).

Ltac st_norm :=
  repeat match goal with
  | Hq : arity _ _ = COk _ _ |- _ => apply arity_st in Hq; subst
  | Hq : c_register _ _ = COk _ _ |- _ => apply c_register_st in Hq; subst
  | Hq : c_sysreg _ _ = COk _ _ |- _ => apply c_sysreg_st in Hq; subst
  | Hq : c_identifier _ _ = COk _ _ |- _ => apply c_identifier_st in Hq; subst
  | Hq : c_regset _ _ = COk _ _ |- _ => apply c_regset_st in Hq; subst
  end.

Ltac nd_close :=
  match goal with
  | Hq : arity _ _ = CDefer _ _ |- _ => exfalso; exact (arity_nd _ _ _ _ Hq)
  | Hq : c_register _ _ = CDefer _ _ |- _ => exfalso; exact (c_register_nd _ _ _ _ Hq)
  | Hq : c_sysreg _ _ = CDefer _ _ |- _ => exfalso; exact (c_sysreg_nd _ _ _ _ Hq)
  | Hq : c_identifier _ _ = CDefer _ _ |- _ => exfalso; exact (c_identifier_nd _ _ _ _ Hq)
  | Hq : c_regset _ _ = CDefer _ _ |- _ => exfalso; exact (c_regset_nd _ _ _ _ Hq)
  | Hq : lit_offset _ _ _ = CDefer _ _ |- _ => exfalso; exact (lit_offset_nd _ _ _ _ _ Hq)
  | Hq : branch_offset _ _ _ _ _ = CDefer _ _ |- _ => exfalso; exact (branch_offset_nodefer _ _ _ _ _ _ _ Hq)
  | Hq : eval_at _ _ _ _ = CDefer _ _ |- _ => st_norm; apply eval_at_defer in Hq; exact Hq
  end.

Lemma assemble_args_defer ev l addr t args c a1 :
  assemble_args ev l addr t (mkAst args 0) = CDefer c a1 -> defers ev args.
Proof.
  destruct t; open_args; intros H; defer_loop; cbv beta iota in *; try discriminate H; nd_close.
Qed.

(* ------------------------------------------------------------------ templates that evaluate no operand *)
(* CPSIE / CPSID / DMB / DSB / ISB read their operand as a bare identifier ("i", "SY"): nothing is looked up, nothing can defer *)
Definition no_eval (t : instr) : bool := match t with Cps _ | Dmb | Dsb | Isb => true | _ => false end.

Lemma no_eval_indep ev1 ev2 l1 l2 addr t st : no_eval t = true ->
  assemble_args ev1 l1 addr t st = assemble_args ev2 l2 addr t st.
Proof. destruct t; try discriminate; reflexivity. Qed.

Lemma no_eval_nodefer ev l addr t args c a1 : no_eval t = true -> assemble_args ev l addr t (mkAst args 0) <> CDefer c a1.
Proof.
  intros HN H. rewrite (no_eval_indep ev (fun a => (a, SComplete)) l l addr t _ HN) in H.
  apply assemble_args_defer in H. destruct H as (x & a' & s & _ & Ex & N1 & _). inversion Ex; subst. congruence.
Qed.

