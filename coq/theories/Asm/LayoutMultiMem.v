(* C05 for projects, part 2: the byte invariant MemI (Asm/LayoutMulti.v) under the write operations of the context.
   Generalises the memory half of LayoutSim.SimT / LayoutFinal.simT_after_write / LayoutProg.cap_fresh, change_prog to a list of
   pending tasks with their final bytes (tasks of every open file), independent of tables and of the final symbol tables. *)
From Coq Require Import ZArith NArith PeanoNat List Bool Lia ZifyBool ZifyNat ZifyN String.
From Trion Require Import Text.Types Expr.I64 Expr.EvalModel Expr.Denote Expr.C08Sound Arm.Instr Arm.DisplayModel Arm.AsmStmtModel Arm.EncodeModel
  Mem.MapModel Mem.DictSpec Mem.MapProofs Mem.MapLemmas Mem.MapOccupied
  Asm.CtxModel Asm.SegProofs Asm.SegPut Asm.LayoutSpec Asm.LayoutWf Asm.LayoutEval Asm.LayoutInstr Asm.LayoutInstrD Asm.LayoutDict Asm.ScopeProofs
  Asm.LayoutProofs Asm.LayoutSim Asm.LayoutStage Asm.Ctx06Proofs Asm.CtxNoPanic Asm.CtxInvCap Asm.LayoutStep Asm.LayoutFinal Asm.LayoutProg Asm.LayoutProgFinal.
From Trion Require Import Asm.LayoutSpecExt Asm.LayoutMulti.
Import ListNotations.
Open Scope N_scope.

(* the fields of a state MemI does not read *)
Definition same_mem (st st' : state) : Prop := output st' = output st /\ active st' = active st /\ errors st' = errors st.
(* the fields the write operations leave alone *)
Definition same_rest (st st' : state) : Prop :=
  locals st' = locals st /\ globals st' = globals st /\ local_tasks st' = local_tasks st /\ global_tasks st' = global_tasks st /\
  path_stack st' = path_stack st /\ curr_name st' = curr_name st.


Lemma same_rest_refl st : same_rest st st.
Proof. unfold same_rest. repeat split; reflexivity. Qed.
Lemma same_rest_trans st1 st2 st3 : same_rest st1 st2 -> same_rest st2 st3 -> same_rest st1 st3.
Proof. unfold same_rest. intros (A1 & A2 & A3 & A4 & A5 & A6) (B1 & B2 & B3 & B4 & B5 & B6). repeat split; congruence. Qed.

Lemma memI_perm st cur G pd pd' : (forall tb, In tb pd' <-> In tb pd) -> MemI st cur G pd -> MemI st cur G pd'.
Proof.
  intros HP [R C Er A D L P W T]. constructor; auto.
  - rewrite Forall_forall in *. intros tb Hi. apply L, HP, Hi.
  - rewrite Forall_forall in *. intros tb Hi. apply P, HP, Hi.
  - intros x Hx. apply W. intros tb Hi. apply Hx, HP, Hi.
Qed.

Lemma memI_transport st st' cur G pd : same_mem st st' -> MemI st cur G pd -> MemI st' cur G pd.
Proof.
  intros (EO & EA & EE) [R C Er A D L P W T].
  assert (HV : forall x, view st' x = view st x) by (intros x; unfold view; rewrite EO, EA; reflexivity).
  constructor; auto.
  - rewrite EO. exact R.
  - destruct cur; rewrite EA, ?EO; exact C.
  - congruence.
  - intros x. rewrite HV. apply D.
  - eapply Forall_impl; [|exact L]. intros t. unfold ploc, located. rewrite EA, EO. auto.
  - intros x Hx. rewrite HV. apply W. exact Hx.
  - eapply tight_eq; eauto.
Qed.

(* the initial state *)
Lemma memI_init st : output st = [] -> active st = Inactive -> errors st = [] -> MemI st None [] [].
Proof.
  intros EO EA EE. constructor; auto.
  - rewrite EO. exact I.
  - exact I.
  - intros x. unfold view. rewrite EA, EO. cbn. tauto.
  - intros x _. unfold view. rewrite EA, EO. reflexivity.
  - unfold Tight. rewrite EA. exact I.
Qed.

(* a statement appends `data` at the current address; the reference assigns it bsF (same length); a deferred statement adds
   the pending task t, whose final bytes are bsF *)
Lemma memI_append st a G pd sg data bsF (newt : option task) :
  MemI st (Some a) G pd -> active st = Active sg -> blen sg + mlen data <= s_max sg -> mlen bsF = mlen data ->
  match newt with None => data = bsF | Some t => task_addr t = a /\ task_size t = mlen data end ->
  MemI (set_active st (Active (set_buf sg (s_buf sg ++ data)))) (Some (a + mlen data)) (d_write G a bsF)
       (match newt with None => pd | Some t => (t, bsF) :: pd end).
Proof.
  intros [R C Er A D L P W T] EA Hcap Hlen Hnew.
  destruct C as (sg' & EA' & HI & Ea). rewrite EA in EA'. inversion EA'; subst sg'. clear EA'.
  set (st' := set_active st (Active (set_buf sg (s_buf sg ++ data)))).
  assert (HV : forall x, view st' x = wr (view st) a data x) by (intros x; subst a; apply view_append; exact EA).
  assert (HF : forall x, a <= x -> x < a + mlen data -> view st x = None).
  { intros x H1 H2. apply (fresh_above st sg x R EA HI); lia. }
  assert (HFG : forall x, a <= x -> x < a + mlen bsF -> d_get G x = None).
  { intros x H1 H2. destruct (d_get G x) eqn:Eq1; [|reflexivity]. exfalso.
    assert (N : d_get G x <> None) by congruence. apply D in N. apply N. apply HF; lia. }
  destruct (write_ok false (output st) sg data HI Hcap) as (_ & HI').
  assert (Hsp : a + mlen data <= SPACE).
  { destruct HI as (_ & _ & H2 & _). unfold CtxSeg.U32, MapModel.U32, SPACE in *. lia. }
  constructor.
  - exact R.
  - exists (set_buf sg (s_buf sg ++ data)). split; [reflexivity|]. split; [exact HI'|].
    rewrite blen_set_buf, len_app. cbn [s_base set_buf]. unfold blen, CtxSeg.len in Ea. lia.
  - exact Er.
  - apply asc_d_write; [exact A|lia|lia].
  - intros x. rewrite HV, d_get_d_write. unfold wr. rewrite Hlen.
    destruct ((a <=? x) && (x <? a + mlen data)) eqn:Eq1; [|apply D].
    split; intros _; apply nth_error_some_len; lia.
  - assert (L' : Forall (ploc st') pd).
    { eapply Forall_impl; [|exact L]. intros t [(s0 & E0 & H1 & H2)|H].
      - left. rewrite EA in E0. inversion E0; subst s0. exists (set_buf sg (s_buf sg ++ data)). split; [reflexivity|].
        rewrite blen_set_buf, len_app. cbn [s_base set_buf]. unfold blen, CtxSeg.len in *. lia.
      - right. exact H. }
    destruct newt as [t|]; [|exact L']. constructor; [|exact L'].
    destruct Hnew as (T1 & T2). left. exists (set_buf sg (s_buf sg ++ data)). split; [reflexivity|]. cbn [fst].
    rewrite blen_set_buf, len_app. cbn [s_base set_buf]. unfold blen, CtxSeg.len in *. lia.
  - assert (P' : Forall (patb (d_write G a bsF)) pd).
    { eapply Forall_impl; [|exact P]. intros tb (Ht & Hs). split; [|exact Hs]. apply at_bytes_keep; [exact Ht| |exact HFG].
      intros x H1 H2. eapply at_bytes_dom; eauto. }
    destruct newt as [t|]; [|exact P']. constructor; [|exact P']. destruct Hnew as (T1 & T2).
    split; cbn [fst snd]; [rewrite T1; apply at_bytes_write|congruence].
  - intros x Hx. rewrite HV, d_get_d_write. unfold wr. rewrite Hlen.
    destruct ((a <=? x) && (x <? a + mlen data)) eqn:Eq1.
    + destruct newt as [t|]; [|subst bsF; reflexivity]. exfalso. destruct Hnew as (T1 & T2).
      apply (Hx (t, bsF)); [now left|]. unfold in_task. cbn [fst]. lia.
    + apply W. intros t Ht. apply Hx. destruct newt; [now right|exact Ht].
  - apply tight_append; auto.
Qed.

(* room: the reference's bytes fall on free addresses, so the active region has room (LayoutProg.cap_fresh) *)
Lemma memI_cap st c G pd sg n : MemI st (Some c) G pd -> active st = Active sg -> c + n <= 4294967296 ->
  (forall x, c <= x -> x < c + n -> d_get G x = None) -> blen sg + n <= s_max sg.
Proof.
  intros [R C Er A D L P W HT] EA Hsp HF. destruct C as (sg' & EA' & HI & Ec). rewrite EA in EA'. inversion EA'; subst sg'.
  destruct (N.le_gt_cases (blen sg + n) (s_max sg)) as [Hc|Hc]; [exact Hc|exfalso].
  pose proof HI as (H1 & H0 & H2 & H3). unfold Tight in HT. rewrite EA in HT. destruct HT as [HT|HT].
  - unfold CtxSeg.U32, MapModel.U32 in *. lia.
  - set (y := s_base sg + s_max sg) in *.
    assert (Vy : view st y <> None).
    { unfold view. rewrite EA. rewrite wr_out by (unfold blen, CtxSeg.len in *; lia). exact HT. }
    apply D in Vy. apply Vy. apply HF; lia.
Qed.

(* the current address, as the context computes it *)
Lemma memI_cur st c G pd sg : MemI st (Some c) G pd -> active st = Active sg -> SegInv (output st) sg /\ c = s_base sg + blen sg.
Proof.
  intros [R C Er A D L P W HT] EA. destruct C as (sg' & EA' & HI & Ec). rewrite EA in EA'. inversion EA'; subst sg'. auto.
Qed.

(* a region switch to a free address succeeds (LayoutProg.change_prog + LayoutSim.sim_switch) *)
Lemma memI_switch dbg st cur G pd tgt : MemI st cur G pd -> tgt < CtxSeg.U32 -> d_get G tgt = None ->
  exists c st', change_segment dbg st tgt = Ret (inl c) st' /\ MemI st' (Some tgt) G pd /\ same_rest st st'.
Proof.
  intros H Hlt HF. pose proof H as [R C Er A D L P W HT].
  assert (SEL : forall st1, Rep (output st1) -> active st1 = Inactive -> (forall x, view st1 x = view st x) ->
            errors st1 = errors st -> same_rest st st1 ->
            exists c st', select_segment dbg st1 tgt = Ret (inl c) st' /\ MemI st' (Some tgt) G pd /\ same_rest st st').
  { intros st1 HR1 HA1 HV1 EE1 SR1.
    destruct (select_ok dbg st1 tgt HR1 HA1 Hlt) as [(O & _)|(_ & s & Eq1 & B & Bu & HI)].
    - exfalso. apply occupied_same in O. apply (d_get_occupied _ _ HR1) in O.
      assert (Vx : view st tgt <> None) by (rewrite <- HV1; unfold view; rewrite HA1; exact O).
      apply D in Vx. contradiction.
    - exists true, (set_active st1 (Active s)). split; [exact Eq1|].
      assert (HV' : forall x, view (set_active st1 (Active s)) x = view st x).
      { intros x. rewrite <- HV1. unfold view. cbn [active set_active output]. rewrite HA1, Bu. unfold wr. rewrite len_nil.
        destruct ((s_base s <=? x) && (x <? s_base s + 0)) eqn:E1; [lia|reflexivity]. }
      split.
      + constructor; auto.
        * exists s. split; [reflexivity|]. split; [exact HI|]. unfold blen, CtxSeg.len. rewrite Bu, len_nil. lia.
        * cbn [errors set_active]. congruence.
        * intros x. rewrite HV'. apply D.
        * eapply Forall_impl; [|exact L]. intros t. apply located_flat; [exact HV'|]. cbn [active set_active]. exact Bu.
        * intros x Hx. rewrite HV'. apply W. exact Hx.
        * eapply select_tight; eauto.
      + eapply same_rest_trans; [exact SR1|]. unfold same_rest. cbn. repeat split; reflexivity. }
  unfold change_segment. destruct (active st) as [|sg] eqn:EA.
  - apply (SEL st); auto. apply same_rest_refl.
  - destruct cur as [a|]; [|discriminate C]. destruct C as (sg' & EA' & HI & Ea). inversion EA'; subst sg'.
    destruct ((tgt =? s_base sg) && match s_buf sg with [] => true | _ :: _ => false end) eqn:E0.
    + exists false, st. split; [reflexivity|]. split; [|apply same_rest_refl].
      destruct (s_buf sg) eqn:Eb; [|rewrite andb_false_r in E0; discriminate].
      constructor; auto. exists sg. split; [exact EA|]. split; [exact HI|]. unfold blen, CtxSeg.len. rewrite Eb, len_nil. lia.
    + assert (IV : Inv st) by (split; [exact R|rewrite EA; exact HI]).
      destruct (close_ok' dbg st IV) as (st1 & b & CL & _). rewrite CL. cbn [CtxModel.bind].
      destruct (view_close dbg st b st1 IV CL) as ((R1 & _) & A1 & V1 & EL1 & EP1 & ET1 & EG1 & EGl1 & EE1 & EC1).
      apply (SEL st1); auto. unfold same_rest. auto 10.
Qed.

(* LayoutFinal.write_over, also for Tight and the remaining fields *)
Lemma write_over_t dbg st t a data f l c k1 k2 p r st' :
  Rep (output st) -> match active st with Active sg => SegInv (output st) sg | Inactive => True end ->
  located st t -> task_addr t = a -> task_size t = mlen data -> 0 < mlen data ->
  write_stmt dbg st f l c a data k1 k2 p = Ret r st' ->
  (Tight st -> Tight st') /\ same_rest st st'.
Proof.
  intros HR HA HL Ea Es Hpos HW.
  assert (PUT : (forall x, a <= x -> x < a + mlen data -> d_get (abs (output st)) x <> None) ->
                put_stmt dbg st f l c a data k2 p = Ret r st' -> (Tight st -> Tight st') /\ same_rest st st').
  { intros Hocc HP. unfold put_stmt in HP.
    assert (Hne : data <> []) by (intros ->; cbn in Hpos; lia).
    destruct (put_over dbg (output st) a data HR Hne Hocc) as (m' & E1 & R' & AB & DOM). rewrite E1 in HP.
    change (0 =? 0) with true in HP. cbv iota in HP. inversion HP; subst r st'.
    split; [|unfold same_rest; cbn; repeat split; reflexivity].
    unfold Tight. cbn [active set_output output]. destruct (active st) as [|sg]; [auto|].
    intros [K|K]; [left; exact K|right; apply DOM; exact K]. }
  unfold write_stmt in HW. destruct (active st) as [|sg] eqn:EA.
  - apply PUT; auto. destruct HL as [(sg & EA' & _)|B]; [rewrite EA in EA'; discriminate EA'|]. intros x H1 H2. apply B. unfold in_task. lia.
  - destruct HL as [(sg' & EA' & B1 & B2)|B].
    + rewrite EA in EA'. inversion EA'; subst sg'. rewrite Ea in *. rewrite Es in *.
      pose proof HA as (H1 & H0 & H2 & H3).
      rewrite (covers_spec dbg (output st) sg a HA) in HW.
      destruct ((s_base sg <=? a) && ((a - s_base sg <? blen sg) || (a - s_base sg =? blen sg) && (blen sg <? s_max sg))) eqn:Cv; [|lia].
      destruct (N.le_gt_cases a (curr_addr sg)) as [Hcur|Hcur];
        [|exfalso; unfold seg_write_at in HW; destruct ((s_base sg <=? a) && (a <=? curr_addr sg)) eqn:X; [lia|]; cbn [negb] in HW; discriminate HW].
      destruct (write_at_ok dbg (output st) sg a data HA B1 Hcur ltac:(lia)) as (W1 & W2 & _). rewrite W1 in HW.
      inversion HW; subst r st'.
      split; [apply tight_append; exact EA|unfold same_rest; cbn; repeat split; reflexivity].
    + assert (Hocc : forall x, a <= x -> x < a + mlen data -> d_get (abs (output st)) x <> None).
      { intros x X1 X2. apply B. unfold in_task. lia. }
      rewrite (covers_spec dbg (output st) sg a HA) in HW.
      destruct ((s_base sg <=? a) && ((a - s_base sg <? blen sg) || (a - s_base sg =? blen sg) && (blen sg <? s_max sg))) eqn:Cv.
      * exfalso. pose proof HA as (H1 & H0 & H2 & H3).
        destruct (seginv_occ (output st) sg HA a (Hocc a ltac:(lia) ltac:(lia)) HR); lia.
      * apply PUT; auto.
Qed.

(* a pending task overwrites its placeholder with its final bytes (LayoutProgFinal.write_over_fwd, LayoutFinal.write_over,
   simT_after_write) *)
Lemma memI_write_task dbg st cur G t bs pd f l c k1 k2 p : MemI st cur G ((t, bs) :: pd) -> 0 < mlen bs ->
  exists st', write_stmt dbg st f l c (task_addr t) bs k1 k2 p = Ret None st' /\ MemI st' cur G pd /\ same_rest st st'.
Proof.
  intros [R C Er A D L P W HT] Hpos.
  inversion L as [|? ? Lt Lts]; inversion P as [|? ? Pt Pts]; subst.
  unfold ploc in Lt. destruct Pt as (AB & Es). cbn [fst snd] in Lt, AB, Es.
  assert (HAct : match active st with Active sg => SegInv (output st) sg | Inactive => True end).
  { destruct cur as [a|]; [destruct C as (sg & EA & HI & _); rewrite EA; exact HI|rewrite C; exact I]. }
  destruct (write_over_fwd dbg st t (task_addr t) bs f l c k1 k2 p R HAct Lt eq_refl Es Hpos) as (st' & HW & EE).
  exists st'. split; [exact HW|].
  destruct (write_over_t dbg st t (task_addr t) bs f l c k1 k2 p None st' R HAct Lt eq_refl Es Hpos HW) as (HT' & SR).
  split; [|exact SR].
  destruct (write_over dbg st t (task_addr t) bs f l c k1 k2 p None st' R HAct Lt eq_refl Es Hpos HW ltac:(congruence))
    as (_ & HV & R' & HL & _ & _ & _ & _ & _ & HA).
  assert (InR : forall x, task_addr t <= x -> x < task_addr t + mlen bs -> view st x <> None).
  { intros x X1 X2. apply (located_view st t Lt). unfold in_task. lia. }
  constructor; auto.
  - destruct cur as [c0|].
    + destruct C as (sg & EA & HI & Ec). rewrite EA in HA. destruct HA as (sg' & EA' & HI' & B1 & B2).
      exists sg'. split; [exact EA'|]. split; [exact HI'|]. congruence.
    + rewrite C in HA. exact HA.
  - congruence.
  - intros x. rewrite HV. unfold wr. destruct ((task_addr t <=? x) && (x <? task_addr t + mlen bs)) eqn:Eq1; [|apply D].
    split; intros _; [apply D; apply InR; lia|apply nth_error_some_len; lia].
  - eapply Forall_impl; [|exact Lts]. intros t'. apply HL.
  - intros x Hx. rewrite HV. unfold wr. destruct ((task_addr t <=? x) && (x <? task_addr t + mlen bs)) eqn:Eq1.
    + symmetry. apply AB; lia.
    + apply W. intros t' [<-|Ht']; [unfold in_task; cbn [fst]; rewrite Es; lia|apply Hx; exact Ht'].
Qed.

(* a task without bytes leaves the list *)
Lemma memI_drop0 st cur G t bs pd : MemI st cur G ((t, bs) :: pd) -> task_size t = 0 -> MemI st cur G pd.
Proof.
  intros [R C Er A D L P W HT] Hz.
  inversion L as [|? ? Lt Lts]; inversion P as [|? ? Pt Pts]; subst.
  constructor; auto.
  intros x Hx. apply W. intros t' [<-|Ht']; [unfold in_task; cbn [fst]; rewrite Hz; lia|apply Hx; exact Ht'].
Qed.

(* closing: with no pending task left, closing the active segment gives a map whose regions are the runs of G *)
Lemma memI_close dbg st cur G : MemI st cur G [] ->
  exists b st', close_segment dbg st = Ret (inl b) st' /\ MapModel.map_iter (output st') = runs G /\ errors st' = [] /\ same_rest st st'.
Proof.
  intros [R C Er A D L P W HT].
  assert (IV : Inv st).
  { split; [exact R|]. destruct cur; [destruct C as (sg & EA & HI & _); rewrite EA; exact HI|rewrite C; exact I]. }
  destruct (close_ok' dbg st IV) as (st2 & b & CL & _). exists b, st2. split; [exact CL|].
  destruct (view_close dbg st b st2 IV CL) as ((R2 & _) & A2 & V2 & EL & EP & ET & EG & EGl & EE & EC).
  split; [|split; [congruence|unfold same_rest; auto 10]].
  rewrite <- (iter_is_runs _ R2). f_equal.
  apply (asc_ext _ _ 0 SPACE); [|exact A|].
  - apply asc_abs; [exact R2|]. intros s Hs. destruct (Rep_In_ok _ _ R2 Hs) as (S1 & S2 & S3). unfold SPACE, MapModel.U32 in *. lia.
  - intros x. transitivity (view st2 x); [unfold view; rewrite A2; reflexivity|].
    rewrite V2. apply W. intros t [].
Qed.
