(* Model of the segment part of src/asm/mod.rs (after the fixes d7ad029 F12, 14f510b F13, a613c66, fe020dd F14, 8bb2c3e):
   ActiveSegment::{curr_addr, remaining, has_remaining, covers, write, write_at}, Segment::make_active.
   Pure functions on the active segment; the Context-level change_segment / close_segment are in CtxModel.v.
   u32 / usize values are N.  `dbg` = overflow checks on (profile relchk) / off (profile release), as in MapModel.v.
   Model file: no proofs. *)
From Coq Require Import NArith List Bool.
From Trion Require Mem.MapModel.
Import ListNotations.
Open Scope N_scope.

(* every panic-capable construct of asm/mod.rs, asm/directive/*.rs and the deferred-statement code of arm6m/mod.rs *)
Inductive site :=
| P_map (s : MapModel.site)          (* a panic inside MemoryMap::{find, put} *)
| P_remaining                        (* self.max_len - self.buffer.len()          (debug arithmetic) *)
| P_next_sub                         (* next - addr in make_active                (debug arithmetic) *)
| P_write_at_assert                  (* assert!(addr >= base && addr <= curr_addr()) *)
| P_write_at_sub                     (* self.buffer.len() - start                 (debug arithmetic) *)
| P_not_inactive                     (* make_active: panic!("segment not inactive") *)
| P_close_assert                     (* close_segment: assert_eq!(n, seg.buffer.len()) *)
| P_no_local_scope                   (* get/insert/defer_constant, add_task: panic!("no local scope") *)
| P_active_unwrap                    (* ctx.active().unwrap() / active_mut().unwrap() *)
| P_put_assert_instr                 (* write_instr: assert_eq!(n, 0) *)
| P_put_assert_data                  (* write_data: assert_eq!(n, 0) *)
| P_instr_index                      (* self.args[arg_pos] out of range (CPanic of AsmStmtModel) *)
| P_simplify (n : N)                 (* unreachable!/assert! inside simplify_raw (numbering of SimplifyModel.v) *)
| P_const_unreachable                (* constant.rs: let Argument::Identifier(..) else unreachable!() *)
| P_data_pop_unwrap                  (* data.rs: args.value.pop().unwrap() *)
| P_global_defer_unwrap              (* global.rs: defer_constant(name, Local).unwrap() *)
| P_global_insert_unwrap             (* global.rs: insert_constant(name, v, Global).unwrap() *)
| P_global_assert                    (* global.rs: assert!(!inserted) *)
| P_global_unreachable               (* global.rs: Err(e) => unreachable! in .import/.export and in the end-of-file task *)
| P_curr_file_unwrap                 (* data.rs .dfile: ctx.curr_file_path().unwrap() *)
| P_local_tasks_unwrap               (* assemble: local_tasks.replace(..).unwrap() / as_mut().unwrap() *)
| P_frame_assert                     (* PathFrame::into_inner: assert_eq!(path_stack.len(), count) *)
| P_frame_pop                        (* path_stack.pop().unwrap() *)
| P_tokenizer (n : N)                (* a panic site of the tokenizer model *)
| P_parser.                          (* the panic outcome of the parser model *)

Definition U32 : N := MapModel.U32.
Definition U32MAX : N := MapModel.U32MAX.
Definition USZ : N := MapModel.USZ.
Definition len {A} (l : list A) : N := MapModel.len l.
Definition takeN {A} (k : N) (l : list A) : list A := MapModel.takeN k l.
Definition dropN {A} (k : N) (l : list A) : list A := MapModel.dropN k l.

(* ActiveSegment *)
Record aseg := mkSeg { s_base : N; s_buf : list N; s_max : N }.
Definition set_buf (s : aseg) (b : list N) : aseg := mkSeg (s_base s) b (s_max s).
Definition blen (s : aseg) : N := len (s_buf s).

(* result of a segment operation: value | SegmentError::Overflow{need, have} | panic *)
Inductive sres (A : Type) := SOk (a : A) | SOverflow (need have : N) | SPanic (p : site).
Arguments SOk {A} a. Arguments SOverflow {A} need have. Arguments SPanic {A} p.
Definition sbind {A B} (r : sres A) (k : A -> sres B) : sres B :=
  match r with SOk a => k a | SOverflow n h => SOverflow n h | SPanic p => SPanic p end.
Notation "'sdo' x <- r ; k" := (sbind r (fun x => k)) (at level 200, x name, r at level 100, k at level 200).

(* base_addr.saturating_add(u32::try_from(buffer.len()).unwrap_or(u32::MAX))  (fix 8bb2c3e: the length saturates,
   it is no longer truncated mod 2^32) *)
Definition curr_addr (s : aseg) : N := MapModel.sat_add32 (s_base s) (N.min (blen s) U32MAX).

(* max_len - buffer.len(): usize subtraction *)
Definition remaining (dbg : bool) (s : aseg) : sres N :=
  if blen s <=? s_max s then SOk (s_max s - blen s)
  else if dbg then SPanic P_remaining else SOk (s_max s + USZ - blen s).

Definition has_remaining (dbg : bool) (s : aseg) (n : N) : sres bool :=
  sdo r <- remaining dbg s; SOk (n <=? r).

(* covers (fix fe020dd): inside the buffer, or exactly at its end while the segment can still grow *)
Definition covers (dbg : bool) (s : aseg) (addr : N) : sres bool :=
  if addr <? s_base s then SOk false
  else
    let off := addr - s_base s in                     (* guarded; usize::try_from(u32) is exact *)
    if off <? blen s then SOk true
    else if off =? blen s then has_remaining dbg s 1
    else SOk false.

(* write: append with the capacity check *)
Definition seg_write (dbg : bool) (s : aseg) (data : list N) : sres aseg :=
  sdo r <- remaining dbg s;
  if len data <=? r then SOk (set_buf s (s_buf s ++ data))
  else SOverflow (len data) r.

(* write_at (fix d7ad029: the capacity test is on the appended length) *)
Definition seg_write_at (dbg : bool) (s : aseg) (addr : N) (data : list N) : sres aseg :=
  if negb ((s_base s <=? addr) && (addr <=? curr_addr s)) then SPanic P_write_at_assert
  else
    let start := addr - s_base s in                   (* guarded by the assert *)
    let l := blen s in
    let dl := len data in
    sdo avail <- (if start <=? l then SOk (l - start)
                  else if dbg then SPanic P_write_at_sub else SOk (l + USZ - start));
    if avail <? dl then
      (* mixed overwrite & append: truncate(start); extend *)
      sdo r <- remaining dbg s;
      if dl - avail <=? r then SOk (set_buf s (takeN start (s_buf s) ++ data))   (* dl - avail guarded *)
      else SOverflow (dl - avail) r
    else if start <? l then
      (* all contained: buffer[start..start+dl].copy_from_slice(data); in range because l - start >= dl *)
      SOk (set_buf s (takeN start (s_buf s) ++ data ++ dropN (start + dl) (s_buf s)))
    else
      (* start = l (and therefore dl = 0): extend *)
      SOk (set_buf s (s_buf s ++ data)).

(* Segment::make_active: max_len from the next occupied address or the end of the address space *)
Definition make_active (dbg : bool) (addr : N) (next : option N) : sres aseg :=
  match next with
  | None => SOk (mkSeg addr [] (U32MAX - addr + 1))                 (* (u32::MAX - addr) as usize, saturating_add(1) *)
  | Some n =>
      if addr <=? n then SOk (mkSeg addr [] (n - addr))
      else if dbg then SPanic P_next_sub else SOk (mkSeg addr [] (n + U32 - addr))
  end.
