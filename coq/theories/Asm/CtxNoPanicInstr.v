(* C06 proofs, part 1: ArmInstr::assemble (AsmStmtModel.assemble_args) never indexes `self.args` out of range.
   Every convert! starts with the arity check against the whole argument list; the converters keep the length of
   the list (eval_at replaces one element in place), so every later `self.args[arg_pos]` is in range.
   This is the site P_instr_index of the Context model (CPanic of AsmStmtModel).  Proof file. *)
From Coq Require Import ZArith NArith List Bool Lia PeanoNat.
From Trion Require Import Text.Types Arm.Instr Arm.AsmStmtModel.
Import ListNotations.

(* np n c: c is not the panic outcome, and a successful converter leaves an argument list of length n *)
Definition np {A} (n : nat) (c : conv A) : Prop :=
  match c with COk _ st => length (a_args st) = n | CPanic => False | _ => True end.
Definition npp {A} (c : conv A) : Prop := match c with CPanic => False | _ => True end.

Lemma np_npp {A} n (c : conv A) : np n c -> npp c.
Proof. destruct c; cbn; auto. Qed.

Lemma np_bind {A B} n (c : conv A) (k : A -> ast -> conv B) :
  np n c -> (forall v st, length (a_args st) = n -> np n (k v st)) -> np n (bind c k).
Proof. destruct c; cbn; auto. Qed.

Lemma set_nth_length {A} (v : A) : forall n l, length (set_nth n v l) = length l.
Proof. induction n; intros [|x l]; cbn; auto. Qed.

Lemma nth_some {A} (l : list A) pos : (pos < length l)%nat -> exists a, nth_error l pos = Some a.
Proof. intros H. destruct (nth_error l pos) eqn:E; [eauto|]. apply nth_error_None in E. lia. Qed.

Lemma eval_at_np ev local n pos st : length (a_args st) = n -> (pos < n)%nat -> np n (eval_at ev local pos st).
Proof.
  intros L P. unfold eval_at. destruct (nth_some (a_args st) pos) as (a & ->); [lia|].
  destruct (Nat.leb (a_done st) pos); [|exact L].
  destruct (ev a) as [a' status]. destruct status; cbn [np a_args]; auto.
  - rewrite set_nth_length. exact L.
  - destruct local; exact I.
Qed.

Lemma arity_np n st : np n (arity n st).
Proof.
  unfold arity. destruct (Nat.ltb n (length (a_args st))) eqn:E1; [exact I|].
  destruct (Nat.ltb (length (a_args st)) n) eqn:E2; [exact I|].
  apply Nat.ltb_ge in E1, E2. cbn. lia.
Qed.

Ltac conv_tac L P :=
  match goal with
  | |- np _ (match nth_error (a_args ?st) ?pos with _ => _ end) =>
      destruct (nth_some (a_args st) pos) as (?a & ->); [lia|]
  end.

Lemma c_identifier_np n pos st : length (a_args st) = n -> (pos < n)%nat -> np n (c_identifier pos st).
Proof. intros L P. unfold c_identifier. conv_tac L P. destruct a; cbn; auto. Qed.

Lemma c_register_np n pos st : length (a_args st) = n -> (pos < n)%nat -> np n (c_register pos st).
Proof. intros L P. unfold c_register. conv_tac L P. destruct a; cbn; auto. destruct (regl s); cbn; auto. Qed.

Lemma c_sysreg_np n pos st : length (a_args st) = n -> (pos < n)%nat -> np n (c_sysreg pos st).
Proof. intros L P. unfold c_sysreg. conv_tac L P. destruct a; cbn; auto. destruct (sysl s); cbn; auto. Qed.

Lemma regset_bits_some items : forall acc, regset_bits items acc <> inl None.
Proof.
  induction items as [|a r IH]; intros acc; cbn [regset_bits]; [discriminate|].
  destruct a; try discriminate. destruct (regl s); [apply IH|discriminate].
Qed.

Lemma c_regset_np n pos st : length (a_args st) = n -> (pos < n)%nat -> np n (c_regset pos st).
Proof.
  intros L P. unfold c_regset. conv_tac L P. destruct a; cbn; auto.
  pose proof (regset_bits_some items 0%N) as K. destruct (regset_bits items 0) as [[b|]|d]; cbn; auto.
Qed.

Ltac ev_tac L P :=
  apply np_bind; [apply eval_at_np; assumption|]; intros a st' L'.

Lemma c_immediate_np ev local n pos st : length (a_args st) = n -> (pos < n)%nat -> np n (c_immediate ev local pos st).
Proof. intros L P. unfold c_immediate. ev_tac L P. destruct a; cbn; auto. destruct (i32_of v); cbn; auto. Qed.

Lemma c_offset_np ev local n pos st : length (a_args st) = n -> (pos < n)%nat -> np n (c_offset ev local pos st).
Proof. intros L P. unfold c_offset. ev_tac L P. destruct a; cbn; auto. destruct (u32_of v); cbn; auto. Qed.

Lemma c_immreg_np ev local n pos st : length (a_args st) = n -> (pos < n)%nat -> np n (c_immreg ev local pos st).
Proof.
  intros L P. unfold c_immreg. ev_tac L P. destruct a; cbn; auto.
  - destruct (i32_of v); cbn; auto.
  - destruct (regl s); cbn; auto.
Qed.

Lemma c_address_np ev local n pos st : length (a_args st) = n -> (pos < n)%nat -> np n (c_address ev local pos st).
Proof. intros L P. unfold c_address. ev_tac L P. destruct a; cbn; auto. destruct (addr_off a); cbn; auto. Qed.

Lemma c_addr_offset_np ev local n pos st : length (a_args st) = n -> (pos < n)%nat -> np n (c_addr_offset ev local pos st).
Proof.
  intros L P. unfold c_addr_offset. ev_tac L P. destruct a; cbn; auto.
  - destruct (u32_of v); cbn; auto.
  - destruct (addr_off a) as [[r o]|d]; cbn; auto.
Qed.

Lemma lit_offset_np n addr tgt st : length (a_args st) = n -> np n (lit_offset addr tgt st).
Proof. intros L. unfold lit_offset. destruct (_ || _); [exact I|]. destruct (negb _); [exact I|exact L]. Qed.

Lemma branch_offset_np n addr tgt lo hi st : length (a_args st) = n -> np n (branch_offset addr tgt lo hi st).
Proof. intros L. unfold branch_offset. destruct (_ || _); [exact I|]. destruct (negb _); [exact I|exact L]. Qed.

(* one step of a convert! chain *)
Ltac step_tac :=
  first
  [ match goal with |- np _ (bind (if ?b then _ else _) _) => destruct b end
  | apply np_bind;
    [ first [ apply arity_np
            | apply c_register_np; [assumption|lia] | apply c_sysreg_np; [assumption|lia]
            | apply c_identifier_np; [assumption|lia] | apply c_regset_np; [assumption|lia]
            | apply c_immediate_np; [assumption|lia] | apply c_offset_np; [assumption|lia]
            | apply c_immreg_np; [assumption|lia] | apply c_address_np; [assumption|lia]
            | apply c_addr_offset_np; [assumption|lia]
            | apply lit_offset_np; assumption | apply branch_offset_np; assumption ]
    | intros ? ? ? ]
  | match goal with |- np _ (if ?b then _ else _) => destruct b end
  | match goal with |- np _ (match ?x with _ => _ end) => destruct x end
  | exact I
  | (cbn [np a_args]; assumption) ].

Theorem assemble_args_no_panic ev local addr t st : assemble_args ev local addr t st <> CPanic.
Proof.
  assert (H : npp (assemble_args ev local addr t st)); [|intros E; rewrite E in H; exact H].
  destruct t; cbn [assemble_args]; unfold rr, rri, r_addr, r_addr_reg, small_imm;
    eapply np_npp; repeat step_tac.
Qed.
