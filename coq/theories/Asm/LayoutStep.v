(* C05 proofs, part 6: one statement of the loop preserves the simulation invariant (Asm/LayoutSim.v).
   Hypotheses per statement: the context's step returned Ok and recorded no diagnostic, and pass 1 / pass 2 of the
   reference are defined for it.  Two statement classes:
   * stmt_ok (the first one, kept because Bin/TridasLayout.v builds it): everything except .dfile / .include / .global /
     .import / .export; an instruction statement that mentions a symbol defined LATER must be a B<cond> / BL whose target has
     a checked 64-bit value in the final table, or CPSIE / CPSID / DMB / DSB / ISB (operand never looked up);
   * stmt_okx (wider, what the lemmas below use; stmt_ok_x : stmt_ok -> stmt_okx): a deferred instruction statement of ANY
     template whose evaluated operand is LayoutStage.staged_ok, and .dfile (fs = the files the context reads relative to the
     current file, fsr = the files the reference reads).
   Every lemma also returns path_stack st' = path_stack st (the .dfile case needs the current file's path). *)
From Coq Require Import ZArith NArith PeanoNat List Bool Lia ZifyBool ZifyNat ZifyN String.
From Trion Require Import Text.Types Expr.I64 Expr.EvalModel Expr.Denote Expr.C08Sound Arm.Instr Arm.DisplayModel Arm.AsmStmtModel Arm.EncodeModel
  Mem.MapModel Mem.DictSpec Mem.MapProofs Mem.MapLemmas
  Asm.CtxModel Asm.SegProofs Asm.LayoutSpec Asm.LayoutEval Asm.LayoutInstr Asm.LayoutInstrD Asm.LayoutDict Asm.ScopeProofs Asm.LayoutProofs Asm.LayoutSim Asm.LayoutStage Asm.Ctx06Proofs Asm.CtxNoPanic Asm.CtxInvCap.
Import ListNotations.
Open Scope N_scope.

(* ------------------------------------------------------------------ the class *)
Definition known_in (ek : env) (a : arg) : Prop := known (lkE ek) CtxModel.is_register a.

Definition stmt_ok (E ek : env) (e : element_value) : Prop :=
  match e with
  | ELabel _ => True
  | EDirective name _ => dir_of name <> Some DFile
  | EInstruction name args =>
      (forall a, In a args -> known_in ek a) \/
      (exists t, template name = Some t /\ is_branch t = true /\ forall a, In a args -> den64 (rho E) a <> None) \/
      (exists t, template name = Some t /\ no_eval t = true)
  end.

(* the wider class.
   * an instruction statement that mentions a LATER symbol may be of ANY template, provided the one operand the template
     evaluates (LayoutInstrD.eval_pos: the immediate / offset / target / memory operand) is staged_ok, i.e. has a checked
     64-bit value in the final table (ADR, LDR literal, ADDS/SUBS/MOVS/CMP/LSLS/.. #imm, BKPT/SVC/UDF, B<cond>/BL);
   * .dfile is in the class: the context reads  fs (resolve_path <current file> name), the reference  fsr name; the class
     asks that the two agree on the names the program uses (for fsr = fun v => fs (resolve_path path v) this is trivial). *)
Definition stmt_okx (fs fsr : str -> option (list N)) (path : str) (E ek : env) (e : element_value) : Prop :=
  match e with
  | ELabel _ => True
  | EDirective name args => dir_of name = Some DFile -> forall v, args = [AStr v] -> fsr v = fs (resolve_path path v)
  | EInstruction name args =>
      (forall a, In a args -> known_in ek a) \/
      (exists t pos, template name = Some t /\ eval_pos t = Some pos /\ forall a, nth_error args pos = Some a -> staged_ok E a) \/
      (exists t, template name = Some t /\ no_eval t = true)
  end.

Lemma stmt_ok_x fs fsr path E ek e : stmt_ok E ek e -> stmt_okx fs fsr path E ek e.
Proof.
  destruct e as [n|name args|name args]; cbn [stmt_ok stmt_okx]; auto.
  - intros H Hd. contradiction.
  - intros [K|[(t & Et & HB & HD)|K]]; [left; exact K| |right; right; exact K].
    right. left. exists t, 0%nat. split; [exact Et|]. split; [apply is_branch_eval_pos; exact HB|].
    intros a Ha. left. apply HD. eapply nth_error_In; eauto.
Qed.

(* ------------------------------------------------------------------ small facts *)
Lemma curr_addr_lt m s : SegInv m s -> s_base s + blen s < CtxSeg.U32 -> curr_addr s = s_base s + blen s.
Proof.
  intros (H1 & H0 & H2 & _) Hlt. unfold curr_addr, sat_add32, CtxSeg.U32MAX, CtxSeg.U32, MapModel.U32MAX, MapModel.U32 in *.
  (* works for both readings of `buffer.len() as u32` (truncating / saturating) *)
  first [ lia
        | assert (Eq : N.land (blen s) 0xFFFFFFFF = blen s)
            by (change 0xFFFFFFFF with (N.ones 32); rewrite N.land_ones; apply N.mod_small; change (2 ^ 32) with 4294967296; lia);
          rewrite Eq; lia ].
Qed.

Lemma has_remaining_ok dbg m s n : SegInv m s -> has_remaining dbg s n = SOk (n <=? s_max s - blen s).
Proof. intros HI. unfold has_remaining. rewrite (remaining_ok dbg m s HI). reflexivity. Qed.

Lemma u32_of_u32z v : CtxModel.u32_of v = u32z v. Proof. reflexivity. Qed.
Lemma u32z_lt v x : u32z v = Some x -> x < CtxSeg.U32.
Proof. unfold u32z. destruct ((0 <=? v)%Z && (v <=? 4294967295)%Z) eqn:Eq; intros H; inversion H. unfold CtxSeg.U32, MapModel.U32. lia. Qed.

Lemma repeatN_repeat b n : repeatN b n = repeat b n.
Proof. induction n; cbn; congruence. Qed.
Lemma len_padding n : mlen (padding n) = n.
Proof. unfold padding, mlen. rewrite repeatN_repeat, repeat_length. lia. Qed.

Lemma le_n_le_bytes k v : le_n (dk_size k) v = le_bytes_n (N.to_nat (dk_size k)) v.
Proof.
  destruct k; cbn [dk_size le_n]; [reflexivity|reflexivity|].
  change (N.to_nat 4) with 4%nat. cbn [le_bytes_n]. rewrite !N.shiftr_shiftr. reflexivity.
Qed.
Lemma dk_range k v : ((0 <=? v)%Z && (v <? Z.of_N (N.shiftl 1 (8 * dk_size k)))%Z) = ((0 <=? v)%Z && (v <=? dk_max k)%Z).
Proof. destruct k; cbn [dk_size dk_max]; f_equal; change (Z.of_N (N.shiftl 1 _)) with 256%Z || change (Z.of_N (N.shiftl 1 _)) with 65536%Z || change (Z.of_N (N.shiftl 1 _)) with 4294967296%Z; lia. Qed.

(* hex strings: the context's decoder and the reference's agree *)
Lemma hex_byte h v : h < 16 -> v < 16 -> N.lor v (N.land (N.shiftl h 4) 255) = 16 * h + v.
Proof.
  intros H1 H2.
  assert (K : forallb (fun a => forallb (fun b => N.lor b (N.land (N.shiftl a 4) 255) =? 16 * a + b) (map N.of_nat (seq 0 16)))
                      (map N.of_nat (seq 0 16)) = true) by (vm_compute; reflexivity).
  assert (M : forall x, x < 16 -> In x (map N.of_nat (seq 0 16))).
  { intros x Hx. apply in_map_iff. exists (N.to_nat x). split; [lia|]. apply in_seq. lia. }
  rewrite forallb_forall in K. specialize (K h (M h H1)). rewrite forallb_forall in K. specialize (K v (M v H2)). lia.
Qed.
Lemma hexv_lt c v : hexv c = Some v -> v < 16.
Proof. unfold hexv. repeat match goal with |- context[if ?b then _ else _] => destruct b eqn:? end; intros H; inversion H; lia. Qed.

Lemma hex_decode_pairs s : forall acc,
  (forall b, hex_pairs s None = Some b -> hex_decode s None acc = HexOk (rev acc ++ b)) /\
  (forall h b, h < 16 -> hex_pairs s (Some h) = Some b -> hex_decode s (Some (N.land (N.shiftl h 4) 255)) acc = HexOk (rev acc ++ b)) /\
  (hex_pairs s None = None -> forall b, hex_decode s None acc <> HexOk b) /\
  (forall h, hex_pairs s (Some h) = None -> forall b, hex_decode s (Some (N.land (N.shiftl h 4) 255)) acc <> HexOk b).
Proof.
  induction s as [|c r IH]; intros acc.
  - cbn. repeat split; intros; try discriminate.
    + inversion H. rewrite app_nil_r. reflexivity.
  - cbn [hex_pairs hex_decode]. change (is_ascii_ws c) with (is_space c). change (hex_digit c) with (hexv c).
    destruct (is_space c); [apply IH|].
    destruct (hexv c) as [v|] eqn:Hv; [|repeat split; intros; discriminate].
    pose proof (hexv_lt _ _ Hv) as Lv.
    destruct (IH acc) as (I1 & I2 & I3 & I4). repeat split.
    + intros b Hb. apply I2; [exact Lv|exact Hb].
    + intros h b Lh Hb. destruct (IH (N.lor v (N.land (N.shiftl h 4) 255) :: acc)) as (J1 & _).
      destruct (hex_pairs r None) as [b'|]; [|discriminate]. cbn [option_map] in Hb. inversion Hb; subst b.
      rewrite (J1 _ eq_refl). cbn [rev]. rewrite <- app_assoc. cbn [app]. rewrite hex_byte by assumption. reflexivity.
    + intros Hn b. apply I4. exact Hn.
    + intros h Hn b. destruct (IH (N.lor v (N.land (N.shiftl h 4) 255) :: acc)) as (_ & _ & K3 & _).
      destruct (hex_pairs r None) as [b'|]; [discriminate|]. apply K3. reflexivity.
Qed.

Lemma hex_agree v bytes : hex_decode v None [] = HexOk bytes -> hex_pairs v None = Some bytes.
Proof.
  intros H. destruct (hex_decode_pairs v []) as (I1 & _ & I3 & _).
  destruct (hex_pairs v None) as [b|] eqn:Eb.
  - rewrite (I1 _ eq_refl) in H. cbn in H. inversion H. reflexivity.
  - exfalso. exact (I3 eq_refl _ H).
Qed.

(* the size the reference uses for an instruction statement *)
Lemma instr_size_isz name t sz : template name = Some t -> instr_size name = Some sz -> sz = isz t.
Proof. intros Et. unfold instr_size. rewrite Et. destruct t; cbn [isz]; intros H; inversion H; reflexivity. Qed.

(* evaluation in the context, related to the final table *)
Section Ctx.
  Variables (E ek : env) (st : state) (tbl : table) (p : str) (ps : list str).
  Hypothesis EL : locals st = Some tbl.
  Hypothesis EP : path_stack st = p :: ps.
  Hypothesis TE : TblEnv tbl ek.
  Hypothesis LE : env_le ek E.

  Lemma ctx_eval_fwd a : match ctx_eval st a with EvOk a' _ => fwd (rho E) a a' | EvErr a' _ => fwd (rho E) a a' | EvPanic _ => True end.
  Proof. rewrite (ctx_eval_eq st tbl p ps a EL EP). apply mut_fwd. eapply compat_tbl; eauto. Qed.

  Lemma ctx_eval_fwd_k a : match ctx_eval st a with EvOk a' _ => fwd (rho ek) a a' | EvErr a' _ => fwd (rho ek) a a' | EvPanic _ => True end.
  Proof. rewrite (ctx_eval_eq st tbl p ps a EL EP). apply mut_fwd. eapply compat_tbl; eauto. intros n v H; exact H. Qed.

  Lemma ctx_eval_not_deferred a a' c n : ctx_eval st a <> EvOk a' (Deferred c n).
  Proof.
    rewrite (ctx_eval_eq st tbl p ps a EL EP). intros H. apply mut_ok_evaluate in H.
    eapply evaluate_never_deferred; [eapply tbl_no_deferred; eauto|exact H].
  Qed.

  Lemma eval_now_val line col a v st1 w : eval_now st line col a = Ret (inl (AConst v)) st1 -> den64 (rho ek) a = Some w -> st1 = st /\ v = w.
  Proof.
    unfold eval_now. pose proof (ctx_eval_fwd_k a) as F. destruct (ctx_eval st a) as [a' [c|c n]|a' e|q]; try discriminate.
    intros H D. inversion H; subst. split; [reflexivity|]. eapply fwd_const; eauto.
  Qed.

  Lemma instr_ev_le : ev_le (instr_ev st) (final_ev E).
  Proof.
    intros a a' H. unfold instr_ev in H. destruct (ctx_eval st a) as [x [c|c n]|x [n|e]|q] eqn:Ev; inversion H; subst.
    rewrite (ctx_eval_eq st tbl p ps a EL EP) in Ev. apply mut_ok_evaluate in Ev.
    pose proof (evaluate_complete_mono (lookup_of tbl) CtxModel.is_register (tbl_no_deferred _ _ TE) a a' c (lkE E) (tbl_lk_le E tbl ek TE LE) Ev) as M.
    unfold final_ev. change (fun n : str => match env_get E n with Some v => Found v | None => NotFound end) with (lkE E).
    change AsmStmtModel.is_register with CtxModel.is_register. rewrite M. reflexivity.
  Qed.

  Lemma instr_ev_fwd a a' s : instr_ev st a = (a', s) -> fwd (rho E) a a'.
  Proof.
    unfold instr_ev. pose proof (ctx_eval_fwd a) as F. destruct (ctx_eval st a) as [x [c|c n]|x [n|e]|q]; intros H; inversion H; subst; auto.
    apply fwd_refl.
  Qed.

  Lemma instr_ev_defers a a' s : instr_ev st a = (a', s) -> s <> SComplete -> s <> SEvalError -> ~ known_in ek a.
  Proof.
    unfold instr_ev. destruct (ctx_eval st a) as [x [c|c n]|x [n|e]|q] eqn:Ev; intros H; inversion H; subst; try congruence.
    - intros _ _ _. eapply ctx_eval_not_deferred; eauto.
    - intros _ _ K. rewrite (ctx_eval_eq st tbl p ps a EL EP) in Ev. apply mut_novar_unknown in Ev. apply Ev.
      intros m Hm. destruct (K m Hm) as [R|(v & F)]; [left; exact R|right]. unfold lkE in F.
      destruct (env_get ek m) as [w|] eqn:G; inversion F; subst. exists v. unfold lookup_of. rewrite (TE m), G. reflexivity.
  Qed.
End Ctx.

Lemma final_ev_const E a x : final_ev E a = (AConst x, SComplete) -> fwd (rho E) a (AConst x).
Proof.
  unfold final_ev. change (fun n : str => match env_get E n with Some v => Found v | None => NotFound end) with (lkE E).
  change AsmStmtModel.is_register with CtxModel.is_register.
  destruct (evaluate (lkE E) CtxModel.is_register a) as [[a' [c|c n]]|[]|] eqn:Ev; intros H; inversion H; subst.
  eapply evaluate_fwd; [apply compat_lkE|exact Ev].
Qed.

(* ------------------------------------------------------------------ writes at the current address *)
Lemma write_stmt_cur dbg st s f l c a data k1 k2 p st' : active st = Active s -> SegInv (output st) s -> 0 < mlen data -> blen s < s_max s ->
  a = s_base s + blen s ->
  write_stmt dbg st f l c a data k1 k2 p = Ret None st' ->
  blen s + mlen data <= s_max s /\ st' = set_active st (Active (set_buf s (s_buf s ++ data))).
Proof.
  intros EA HI Hpos Hlt -> HW. assert (Hcur : curr_addr s = s_base s + blen s) by (eapply curr_addr_exact; eauto).
  rewrite <- Hcur in HW.
  destruct (N.le_gt_cases (blen s + mlen data) (s_max s)) as [Hc|Hc].
  - rewrite (write_stmt_append dbg st s f l c data k1 k2 p EA HI Hpos Hc) in HW. inversion HW. auto.
  - exfalso. unfold write_stmt in HW. rewrite EA in HW.
    rewrite (covers_spec dbg (output st) s _ HI), Hcur in HW.
    replace (s_base s + blen s - s_base s) with (blen s) in HW by lia.
    destruct (s_base s <=? s_base s + blen s) eqn:E1; [|lia]. cbn [andb] in HW.
    rewrite N.ltb_irrefl, N.eqb_refl in HW. cbn [orb andb] in HW.
    destruct (blen s <? s_max s) eqn:E2; [|lia].
    destruct (write_at_overflow dbg (output st) s (s_base s + blen s) data HI) as (need & have & W); try lia.
    rewrite W in HW. discriminate.
Qed.

Lemma str_clash name x y : AsmStmtModel.str_eqb name x = true -> AsmStmtModel.str_eqb name y = true -> x = y.
Proof. intros H1 H2. apply str_eqb_eq in H1. apply str_eqb_eq in H2. congruence. Qed.

Ltac dh := solve [discriminate | match goal with H : _ = _ |- _ => discriminate H end].

Section Step.
  Variables (dbg : bool) (fs : str -> option (list N)) (inc : state -> list N -> str -> res result) (E : env).

  (* ---------------- labels ---------------- *)
  Lemma label_sim st cur ek items line col name st' s' :
    Sim E st cur ek (gdict E items) ->
    step dbg fs inc st (mkElement line col (ELabel name)) = Ret None st' ->
    pass1_step fs (mkP1 cur ek items) (ELabel name) = Some s' -> env_le (p_env s') E ->
    Sim E st' (p_cur s') (p_env s') (gdict E (p_items s')) /\ path_stack st' = path_stack st.
  Proof.
    intros (ts & ELT & H) HS HP HE. pose proof H as [R T V C Er Gt A D L P W].
    unfold step in HS. cbn [e_val e_line e_col] in HS.
    cbn [pass1_step p_cur] in HP. destruct cur as [a|]; [|dh]. destruct (a <? 4294967296) eqn:La; [|dh].
    unfold define in HP. cbn [p_env p_cur p_items] in HP.
    destruct (AsmStmtModel.is_register name) eqn:Rg; [dh|]. destruct (env_get ek name) eqn:Eg; [dh|].
    inversion HP; subst s'. cbn [p_cur p_env p_items] in *.
    destruct C as (sg & EA & HI & Ea). rewrite EA in HS. destruct T as (tbl & p & ps & EL & EP & TE).
    unfold insert_constant in HS. change (CtxModel.is_register name) with (AsmStmtModel.is_register name) in HS.
    rewrite Rg in HS. cbn [realm_table] in HS. rewrite EL, (TE name), Eg in HS. cbn [option_map CtxModel.bind set_realm_table] in HS.
    inversion HS; subst st'.
    rewrite (curr_addr_lt _ _ HI) by (unfold CtxSeg.U32, MapModel.U32; lia). rewrite <- Ea.
    split; [|reflexivity]. exists ts. split; [exact ELT|]. apply sim_define; auto.
  Qed.

  (* ---------------- .const ---------------- *)
  Lemma const_sim st cur ek items line col args st' s' :
    Sim E st cur ek (gdict E items) -> dir_const st line col args = Ret None st' ->
    (match args with
     | [AIdent n; a] => match den64 (rho ek) a with Some v => define (mkP1 cur ek items) n v | None => None end
     | _ => None end) = Some s' -> env_le (p_env s') E ->
    Sim E st' (p_cur s') (p_env s') (gdict E (p_items s')) /\ path_stack st' = path_stack st.
  Proof.
    intros (ts & ELT & H) HS HP HE. pose proof H as [R T V C Er Gt A D L P W].
    destruct args as [|a0 [|a1 [|a2 r]]]; try dh. destruct a0; try dh.
    destruct (den64 (rho ek) a1) as [w|] eqn:Dn; [|dh]. unfold define in HP. cbn [p_env p_cur p_items] in HP.
    destruct (AsmStmtModel.is_register s) eqn:Rg; [dh|]. destruct (env_get ek s) eqn:Eg; [dh|].
    inversion HP; subst s'. cbn [p_cur p_env p_items] in *.
    destruct T as (tbl & p & ps & EL & EP & TE).
    unfold dir_const in HS. cbn [arity_check List.length Nat.eqb] in HS. unfold CtxModel.bind in HS.
    destruct (eval_now st line col a1) as [[x|l] st1| |] eqn:EN; try dh.
    destruct x; try dh.
    destruct (eval_now_val ek st tbl p ps EL EP TE line col a1 v st1 w EN Dn) as (-> & ->).
    unfold insert_constant in HS. change (CtxModel.is_register s) with (AsmStmtModel.is_register s) in HS.
    rewrite Rg in HS. cbn [realm_table] in HS. rewrite EL, (TE s), Eg in HS. cbn [option_map set_realm_table] in HS.
    inversion HS; subst st'. split; [|reflexivity]. exists ts. split; [exact ELT|]. apply sim_define; auto.
  Qed.

  (* ---------------- .addr ---------------- *)
  Lemma addr_sim st cur ek items line col args st' s' :
    Sim E st cur ek (gdict E items) -> dir_addr dbg st line col args = Ret None st' ->
    (match args with
     | [a] => match den64 (rho ek) a with
              | Some v => match u32z v with Some x => Some (mkP1 (Some x) ek items) | None => None end
              | None => None end
     | _ => None end) = Some s' ->
    Sim E st' (p_cur s') (p_env s') (gdict E (p_items s')) /\ path_stack st' = path_stack st.
  Proof.
    intros (ts & ELT & H) HS HP. pose proof H as [R T V C Er Gt A D L P W].
    destruct args as [|a [|a2 r]]; try dh.
    destruct (den64 (rho ek) a) as [w|] eqn:Dn; [|dh]. destruct (u32z w) as [x|] eqn:U; [|dh].
    inversion HP; subst s'. cbn [p_cur p_env p_items].
    destruct T as (tbl & p & ps & EL & EP & TE).
    unfold dir_addr in HS. cbn [arity_check List.length Nat.eqb] in HS. unfold CtxModel.bind in HS.
    destruct (eval_now st line col a) as [[y|l] st1| |] eqn:EN; try dh.
    destruct y; try dh.
    destruct (eval_now_val ek st tbl p ps EL EP TE line col a v st1 w EN Dn) as (-> & ->).
    rewrite u32_of_u32z, U in HS.
    destruct (change_segment dbg st x) as [[c|e] st2| |] eqn:CS; try dh. inversion HS; subst st2.
    destruct (sim_switch dbg E st cur ek (gdict E items) ts x c st' H (u32z_lt _ _ U) CS) as (H' & ET).
    split; [exists ts; split; [congruence|exact H']|]. pose proof (change_segment_s dbg st x) as CS'. rewrite CS in CS'. exact (proj2 (proj2 (proj2 (proj2 CS')))).
  Qed.

  (* ---------------- .align ---------------- *)
  Lemma align_sim st cur ek items line col args st' s' :
    Sim E st cur ek (gdict E items) -> dir_align dbg st line col args = Ret None st' ->
    (match args, cur with
     | [a], Some c =>
         match den64 (rho ek) a with
         | Some v => match u32z v with
                     | Some (Npos k) => if c <? 0x100000000 then place (mkP1 cur ek items) ((Npos k - c mod Npos k) mod Npos k) (IPad ((Npos k - c mod Npos k) mod Npos k)) else None
                     | _ => None
                     end
         | None => None
         end
     | _, _ => None end) = Some s' ->
    Sim E st' (p_cur s') (p_env s') (gdict E (p_items s')) /\ path_stack st' = path_stack st.
  Proof.
    intros (ts & ELT & H) HS HP. pose proof H as [R T V C Er Gt A D L P W].
    destruct args as [|a [|a2 r]]; try dh. destruct cur as [c|]; [|dh].
    destruct (den64 (rho ek) a) as [w|] eqn:Dn; [|dh]. destruct (u32z w) as [[|k]|] eqn:U; try dh.
    destruct (c <? 4294967296) eqn:Lc; [|dh].
    set (sz := (N.pos k - c mod N.pos k) mod N.pos k) in *.
    unfold place in HP. cbn [p_cur p_env p_items] in HP. destruct (c + sz <=? 4294967296) eqn:Lp; [|dh].
    inversion HP; subst s'. cbn [p_cur p_env p_items gdict pass2_item].
    destruct C as (sg & EA & HI & Ea). destruct T as (tbl & p & ps & EL & EP & TE).
    unfold dir_align in HS. rewrite EA in HS. cbn [arity_check List.length Nat.eqb] in HS. unfold CtxModel.bind in HS.
    destruct (eval_now st line col a) as [[y|l] st1| |] eqn:EN; try dh.
    destruct y; try dh.
    destruct (eval_now_val ek st tbl p ps EL EP TE line col a v st1 w EN Dn) as (-> & ->).
    rewrite u32_of_u32z, U in HS.
    rewrite (curr_addr_lt _ _ HI) in HS by (unfold CtxSeg.U32, MapModel.U32; lia). rewrite <- Ea in HS.
    assert (Hm : c mod N.pos k < N.pos k) by (apply N.mod_lt; discriminate).
    destruct (c mod N.pos k =? 0) eqn:Z0.
    - inversion HS; subst st'. assert (sz = 0) by (unfold sz; replace (c mod N.pos k) with 0 by lia; rewrite N.sub_0_r; apply N.mod_same; discriminate).
      rewrite H0. cbn [N.to_nat repeat d_write]. rewrite N.add_0_r. split; [|reflexivity]. exists ts. split; [exact ELT|exact H].
    - assert (Hsz : sz = N.pos k - c mod N.pos k) by (unfold sz; apply N.mod_small; lia).
      rewrite <- Hsz in HS. rewrite (has_remaining_ok dbg _ _ _ HI) in HS.
      destruct (sz <=? s_max sg - blen sg) eqn:Lr; [|dh].
      destruct (write_ok dbg (output st) sg (padding sz) HI) as (WO & _); [rewrite len_padding; destruct HI; lia|].
      rewrite WO in HS. cbn [seg_update] in HS. inversion HS; subst st'.
      split; [|reflexivity]. exists ts. split; [exact ELT|].
      pose proof (sim_append E st c ek (gdict E items) ts sg (padding sz) (repeat 190 (N.to_nat sz)) None H EA) as SA.
      rewrite len_padding in SA. apply SA.
      + destruct HI; lia.
      + unfold mlen. rewrite repeat_length. lia.
      + unfold padding. apply repeatN_repeat.
  Qed.

  (* ---------------- .dstr / .dhex ---------------- *)
  Lemma bytes_sim st cur ek items line col d args st' s' :
    Sim E st cur ek (gdict E items) -> dir_bytes dbg fs st line col d args = Ret None st' ->
    (d = DStr /\ (match args with [AStr v] => place (mkP1 cur ek items) (N.of_nat (List.length v)) (IBytes v) | _ => None end) = Some s') \/
    (d = DHex /\ (match args with
                  | [AStr v] => match hex_pairs v None with Some b => place (mkP1 cur ek items) (N.of_nat (List.length b)) (IBytes b) | None => None end
                  | _ => None end) = Some s') ->
    Sim E st' (p_cur s') (p_env s') (gdict E (p_items s')) /\ path_stack st' = path_stack st.
  Proof.
    intros (ts & ELT & H) HS Hd. pose proof H as [R T V C Er Gt A D L P W].
    assert (exists s b, args = [AStr s] /\ place (mkP1 cur ek items) (N.of_nat (List.length b)) (IBytes b) = Some s' /\
              ((d = DStr /\ b = s) \/ (d = DHex /\ hex_pairs s None = Some b))) as (s & b & -> & HP & Hb).
    { destruct Hd as [(-> & HP)|(-> & HP)]; (destruct args as [|a [|a2 r]]; try dh; destruct a; try dh).
      - exists s, s. auto.
      - destruct (hex_pairs s None) as [b|] eqn:Hx; [|dh]. exists s, b. auto. }
    unfold place in HP. cbn [p_cur p_env p_items] in HP.
    destruct cur as [c|]; [|dh]. destruct (c + N.of_nat (List.length b) <=? 4294967296); [|dh].
    inversion HP; subst s'. cbn [p_cur p_env p_items gdict pass2_item].
    destruct C as (sg & EA & HI & Ea).
    unfold dir_bytes in HS. rewrite EA in HS. cbn [arity_check List.length Nat.eqb] in HS.
    assert (HW : seg_update st line col (seg_write dbg sg b) = Ret None st').
    { destruct Hb as [(-> & ->)|(-> & Hx)]; [exact HS|].
      destruct (hex_decode s None []) as [bytes| |] eqn:HD; try dh.
      apply hex_agree in HD. rewrite HD in Hx. inversion Hx; subst. exact HS. }
    destruct (N.le_gt_cases (blen sg + mlen b) (s_max sg)) as [Hc|Hc].
    - destruct (write_ok dbg (output st) sg b HI Hc) as (WO & _). rewrite WO in HW. cbn [seg_update] in HW. inversion HW; subst st'.
      split; [|reflexivity]. exists ts. split; [exact ELT|]. apply (sim_append E st c ek (gdict E items) ts sg b b None H EA Hc eq_refl eq_refl).
    - rewrite (write_overflow dbg (output st) sg b HI Hc) in HW. discriminate.
  Qed.

  (* ---------------- .dfile ---------------- *)
  (* the read loop writes the file in 1024-byte chunks: after the capacity test it is one append of the whole file *)
  Lemma file_sim fsr st cur ek items line col args st' s' path ps :
    Sim E st cur ek (gdict E items) -> path_stack st = path :: ps ->
    (forall v, args = [AStr v] -> fsr v = fs (resolve_path path v)) ->
    dir_bytes dbg fs st line col DFile args = Ret None st' ->
    (match args with
     | [AStr v] => match fsr v with Some b => place (mkP1 cur ek items) (N.of_nat (List.length b)) (IBytes b) | None => None end
     | _ => None end) = Some s' ->
    Sim E st' (p_cur s') (p_env s') (gdict E (p_items s')) /\ path_stack st' = path_stack st.
  Proof.
    intros (ts & ELT & H) EPS HF HS HP. pose proof H as [R T V C Er Gt A D L P W].
    destruct args as [|a [|a2 r]]; try dh; destruct a; try dh. rewrite (HF s eq_refl) in HP.
    destruct (fs (resolve_path path s)) as [b|] eqn:FS; [|dh].
    unfold place in HP. cbn [p_cur p_env p_items] in HP.
    destruct cur as [c|]; [|dh]. destruct (c + N.of_nat (List.length b) <=? 4294967296); [|dh].
    inversion HP; subst s'. cbn [p_cur p_env p_items gdict pass2_item].
    destruct C as (sg & EA & HI & Ea).
    unfold dir_bytes in HS. rewrite EA in HS. cbn [arity_check List.length Nat.eqb] in HS. rewrite EPS, FS in HS.
    rewrite (has_remaining_ok dbg _ _ _ HI) in HS.
    destruct (CtxSeg.len b <=? s_max sg - blen sg) eqn:Lr; [|dh].
    assert (Hc : blen sg + mlen b <= s_max sg) by (destruct HI; unfold CtxSeg.len in Lr; lia).
    rewrite (write_chunks_exact dbg _ _ sg HI) in HS; rewrite concat_chunks in *; [|exact Hc].
    cbn [seg_update] in HS. inversion HS; subst st'. split; [|reflexivity].
    exists ts. split; [exact ELT|]. apply (sim_append E st c ek (gdict E items) ts sg b b None H EA Hc eq_refl eq_refl).
  Qed.

  (* the tail of a deferred (or failed) statement: placeholder, then the task; it only extends the diagnostics *)
  Lemma tail_data_ext stX d' data t st' :
    (CtxModel.bind (write_data dbg stX d' data) (fun w st2 =>
       match w with Some l => Ret (Some l) st2
       | None => CtxModel.bind (add_task st2 t RLocal) (fun _ st3 => Ret None st3) end)) = Ret None st' -> ext stX st'.
  Proof.
    unfold CtxModel.bind. destruct (write_data dbg stX d' data) as [w st2| |] eqn:W; try discriminate.
    apply write_data_spec in W. destruct W as (W & _). destruct w; [discriminate|].
    destruct (add_task st2 t RLocal) as [[] st3| |] eqn:AT; try discriminate. apply add_task_same in AT.
    intros H; inversion H; subst. eapply ext_trans; [exact W|apply same_ext; exact AT].
  Qed.
  Lemma tail_instr_ext stX ai' t st' :
    (CtxModel.bind (write_instr dbg stX ai' true) (fun w st2 =>
       match w with Some l => Ret (Some l) st2
       | None => CtxModel.bind (add_task st2 t RLocal) (fun _ st3 => Ret None st3) end)) = Ret None st' -> ext stX st'.
  Proof.
    unfold CtxModel.bind. destruct (write_instr dbg stX ai' true) as [w st2| |] eqn:W; try discriminate.
    apply write_instr_spec in W. destruct W as (W & _). destruct w; [discriminate|].
    destruct (add_task st2 t RLocal) as [[] st3| |] eqn:AT; try discriminate. apply add_task_same in AT.
    intros H; inversion H; subst. eapply ext_trans; [exact W|apply same_ext; exact AT].
  Qed.
  Lemma pushed_not_clean stX st' f l c k : ext (push_error_in stX f l c k) st' -> errors st' = [] -> False.
  Proof. intros (l0 & H) Z. rewrite H in Z. cbn [errors push_error_in set_errors] in Z. destruct l0; discriminate. Qed.

  (* ---------------- .du8 / .du16 / .du32 ---------------- *)
  Lemma data_sim st cur ek items line col k args st' s' :
    Sim E st cur ek (gdict E items) -> dir_data dbg st line col k args = Ret None st' -> errors st' = [] ->
    (match args with [a] => place (mkP1 cur ek items) (dk_size k) (IData (dk_size k) a) | _ => None end) = Some s' ->
    (forall a it, In (a, it) (p_items s') -> pass2_item E a it <> None) ->
    Sim E st' (p_cur s') (p_env s') (gdict E (p_items s')) /\ path_stack st' = path_stack st.
  Proof.
    intros (ts & ELT & H) HS HZ HP H2. pose proof H as [R T V C Er Gt A D L P W].
    destruct args as [|a [|a2 r]]; try dh. unfold place in HP. cbn [p_cur p_env p_items] in HP.
    destruct cur as [c|]; [|dh]. destruct (c + dk_size k <=? 4294967296) eqn:Lp; [|dh].
    inversion HP; subst s'. cbn [p_cur p_env p_items] in *.
    specialize (H2 c (IData (dk_size k) a) (or_introl eq_refl)). cbn [pass2_item gdict] in H2 |- *.
    destruct (den64 (rho E) a) as [w|] eqn:Dn; [|congruence]. rewrite dk_range in H2 |- *.
    destruct ((0 <=? w)%Z && (w <=? dk_max k)%Z) eqn:Rw; [|congruence]. clear H2.
    rewrite <- le_n_le_bytes.
    destruct C as (sg & EA & HI & Ea). destruct T as (tbl & p & ps & EL & EP & TE).
    unfold dir_data in HS. rewrite EA in HS. rewrite (has_remaining_ok dbg _ _ _ HI) in HS.
    destruct (dk_size k <=? s_max sg - blen sg) eqn:Lr; [|dh].
    assert (Hk : 0 < dk_size k) by (destruct k; cbn; lia).
    assert (Hcap : blen sg + dk_size k <= s_max sg) by (destruct HI; lia).
    cbn [arity_check List.length Nat.eqb] in HS.
    rewrite (curr_addr_exact _ _ HI) in HS by lia. rewrite <- Ea in HS.
    pose proof (ctx_eval_fwd E ek st tbl p ps EL EP TE V a) as F.
    unfold data_apply in HS. cbn [de_arg de_kind de_file de_line de_col] in HS.
    assert (WA : forall d0 data, de_addr d0 = c -> mlen data = dk_size k ->
              write_data dbg st d0 data = Ret None (set_active st (Active (set_buf sg (s_buf sg ++ data))))).
    { intros d0 data Ed Hl. unfold write_data. rewrite Ed, Ea, <- (curr_addr_exact _ _ HI) by lia.
      apply write_stmt_append; auto; rewrite Hl; lia. }
    destruct (ctx_eval st a) as [a' [ch|ch nm]|a' e|q] eqn:CE.
    - assert (Ac : (exists v, a' = AConst v) \/ (forall v, a' <> AConst v)) by (destruct a'; eauto; right; intros; discriminate).
      destruct Ac as [(v & ->)|Nc];
        [|destruct a'; try (exfalso; eapply Nc; reflexivity);
          (cbn [CtxModel.bind] in HS; exfalso; eapply pushed_not_clean; [eapply tail_data_ext; exact HS|exact HZ])].
      destruct ((0 <=? v)%Z && (v <=? dk_max k)%Z) eqn:Rv.
      + rewrite WA in HS by (try reflexivity; apply len_le_n'). cbn [CtxModel.bind] in HS. inversion HS; subst st'.
        assert (v = w) by (eapply fwd_const; eauto). subst v.
        split; [|reflexivity]. exists ts. split; [exact ELT|].
        pose proof (sim_append E st c ek (gdict E items) ts sg (le_n (dk_size k) (Z.to_N w)) (le_n (dk_size k) (Z.to_N w)) None H EA) as SA.
        rewrite len_le_n' in SA. apply SA; auto.
      + cbn [CtxModel.bind] in HS. exfalso. eapply pushed_not_clean; [eapply tail_data_ext; exact HS|exact HZ].
    - exfalso. eapply (ctx_eval_not_deferred ek st tbl p ps EL EP TE); exact CE.
    - destruct e as [nm|e].
      + cbn [CtxModel.bind] in HS. rewrite WA in HS by (try reflexivity; apply len_padding). cbn [CtxModel.bind] in HS.
        unfold add_task in HS. cbn [local_tasks set_active] in HS. rewrite ELT in HS. cbn [CtxModel.bind] in HS.
        inversion HS; subst st'. split; [|reflexivity]. eexists. split; [reflexivity|].
        pose proof (sim_append E st c ek (gdict E items) ts sg (padding (dk_size k)) (le_n (dk_size k) (Z.to_N w))
                      (Some (DataTask (de_set_arg (mkDE k (curr_name st) line col c a) a') false)) H EA) as SA.
        rewrite len_padding in SA.
        eapply simT_transport; [| | | | | |apply SA]; try reflexivity; auto.
        * exists tbl, p, ps. auto.
        * apply len_le_n'.
        * cbn [task_addr task_size de_set_arg de_addr de_kind]. split; [reflexivity|]. split; [reflexivity|].
          cbn [PendG de_set_arg de_arg de_kind de_addr]. exists a, w. repeat split; auto. apply at_bytes_write.
      + cbn [CtxModel.bind] in HS. exfalso. eapply pushed_not_clean; [eapply tail_data_ext; exact HS|exact HZ].
    - dh.
  Qed.

  (* ---------------- instruction statements ---------------- *)
  Lemma instr_sim st cur ek items line col name args st' s' :
    Sim E st cur ek (gdict E items) -> assemble_instr dbg st line col name args = Ret None st' -> errors st' = [] ->
    stmt_okx fs fs [] E ek (EInstruction name args) ->
    (match instr_size name with Some sz => place (mkP1 cur ek items) sz (IInstr name args) | None => None end) = Some s' ->
    (forall a it, In (a, it) (p_items s') -> pass2_item E a it <> None) ->
    Sim E st' (p_cur s') (p_env s') (gdict E (p_items s')) /\ path_stack st' = path_stack st.
  Proof.
    intros (ts & ELT & H) HS HZ OK HP H2. pose proof H as [R T V C Er Gt A D L P W].
    destruct (instr_size name) as [sz|] eqn:Isz; [|dh]. unfold place in HP. cbn [p_cur p_env p_items] in HP.
    destruct cur as [c|]; [|dh]. destruct (c + sz <=? 4294967296) eqn:Lp; [|dh].
    inversion HP; subst s'. cbn [p_cur p_env p_items] in *.
    specialize (H2 c (IInstr name args) (or_introl eq_refl)). cbn [pass2_item gdict] in H2 |- *.
    destruct C as (sg & EA & HI & Ea). destruct T as (tbl & p & ps & EL & EP & TE).
    unfold assemble_instr in HS. rewrite EA in HS. rewrite (has_remaining_ok dbg _ _ _ HI) in HS.
    destruct (2 <=? s_max sg - blen sg) eqn:Lr; [|dh].
    assert (Hlt : blen sg < s_max sg) by (destruct HI; lia).
    rewrite (curr_addr_exact _ _ HI) in HS by lia. rewrite <- Ea in HS.
    destruct (template name) as [t|] eqn:Et; [|dh]. pose proof (instr_size_isz _ _ _ Et Isz) as Hsz.
    unfold assemble_stmt in H2 |- *. rewrite Et in H2 |- *.
    destruct (assemble_args (final_ev E) false c t (mkAst args 0)) as [iF sF| | |] eqn:AF; try congruence.
    destruct (enc_bytes iF 4) as [nF bF| |] eqn:EF; try congruence. clear H2.
    pose proof (enc_bytes_size _ _ _ EF) as (_ & LF). pose proof (assemble_args_isz _ _ _ _ _ _ _ AF) as IF.
    unfold instr_assemble in HS. cbn [ai_ast ai_addr ai_instr ai_file ai_line ai_col a_args] in HS.
    destruct (first_panic st args); [dh|].
    destruct (assemble_args (instr_ev st) true c t (mkAst args 0)) as [i a1|cause a1|dg a1|] eqn:AM.
    - (* complete now *)
      cbn [CtxModel.bind] in HS. unfold write_instr in HS. cbn [ai_instr ai_file ai_line ai_col ai_addr] in HS.
      pose proof (assemble_args_mono _ _ true false _ _ _ _ _ (instr_ev_le E ek st tbl p ps EL EP TE V) AM) as AM'.
      rewrite AM' in AF. inversion AF; subst iF sF. rewrite EF in HS.
      assert (Hpos : 0 < mlen bF) by (unfold mlen; rewrite LF; destruct i; cbn; lia).
      destruct (write_stmt_cur dbg st sg _ _ _ _ _ _ _ _ _ EA HI Hpos Hlt Ea HS) as (Hc & ->).
      split; [|reflexivity]. exists ts. split; [exact ELT|].
      pose proof (sim_append E st c ek (gdict E items) ts sg bF bF None H EA Hc eq_refl eq_refl) as SA.
      replace (mlen bF) with sz in SA by (unfold mlen; rewrite LF; congruence). exact SA.
    - (* deferred *)
      cbn [CtxModel.bind] in HS. unfold CtxModel.bind at 1 in HS. unfold write_instr in HS. cbn [ai_instr ai_file ai_line ai_col ai_addr] in HS.
      destruct (enc_bytes (partial_instr t a1) 4) as [nP bP| |] eqn:EPt; try dh.
      pose proof (enc_bytes_size _ _ _ EPt) as (LP & _). rewrite partial_isz in LP.
      destruct (write_stmt dbg st (curr_name st) line col c (padding nP) KInstrSegOverflow KInstrSegWrite P_put_assert_instr) as [wr0 st2| |] eqn:WS; try dh.
      destruct wr0; [dh|].
      assert (Hpos : 0 < mlen (padding nP)) by (rewrite len_padding, LP; destruct t; cbn; lia).
      destruct (write_stmt_cur dbg st sg _ _ _ _ _ _ _ _ _ EA HI Hpos Hlt Ea WS) as (Hc & ->).
      rewrite len_padding in Hc.
      unfold add_task in HS. cbn [local_tasks set_active] in HS. rewrite ELT in HS. cbn [CtxModel.bind] in HS.
      inversion HS; subst st'. split; [|reflexivity]. eexists. split; [reflexivity|].
      (* the class: a deferring operand is not known, so it is the evaluated operand of the template, and it is staged_ok *)
      destruct (assemble_args_defer_pos _ _ _ _ _ _ _ AM) as (pos & x & x' & sx & EPo & Nx & Ex & N1 & N2 & ->).
      assert (SO : staged_ok E x).
      { destruct OK as [K|[(t' & pos' & Et' & EP' & HD)|(t' & Et' & HN)]].
        - exfalso. eapply (instr_ev_defers ek st tbl p ps EL EP TE); eauto. apply K. eapply nth_error_In; eauto.
        - rewrite Et in Et'. inversion Et'; subst t'. rewrite EPo in EP'. inversion EP'; subst pos'. apply HD. exact Nx.
        - exfalso. rewrite Et in Et'. inversion Et'; subst t'. eapply no_eval_nodefer; eauto. }
      destruct (stage_stg E ek st tbl p ps EL EP TE V x x' sx SO Ex N1 N2) as (SG & _).
      pose proof (sim_append E st c ek (gdict E items) ts sg (padding nP) bF
                    (Some (InstrTask (mkAI (curr_name st) line col c (partial_instr t (mkAst (AsmStmtModel.set_nth pos x' args) 0)) (mkAst (AsmStmtModel.set_nth pos x' args) 0)) false)) H EA) as SA.
      rewrite len_padding in SA. replace nP with sz in * by congruence.
      eapply simT_transport; [| | | | | |apply SA]; try reflexivity; auto.
      + exists tbl, p, ps. auto.
      + unfold mlen. rewrite LF. congruence.
      + cbn [task_addr task_size ai_addr ai_instr]. split; [reflexivity|]. split; [rewrite partial_isz; congruence|].
        cbn [PendG ai_ast ai_instr ai_addr]. exists args, pos, x, x', iF, sF, nF, bF.
        split; [reflexivity|]. split; [rewrite partial_eval_pos; exact EPo|]. split; [exact Nx|]. split; [exact SG|].
        split; [rewrite assemble_args_partial; exact AF|]. split; [exact EF|apply at_bytes_write].
    - (* diagnostic *)
      cbn [CtxModel.bind] in HS. exfalso. eapply pushed_not_clean; [eapply tail_instr_ext; exact HS|exact HZ].
    - dh.
  Qed.
End Step.

(* ------------------------------------------------------------------ one statement *)
Lemma sim_step dbg fs fsr inc E st cur ek items e st' s' path ps :
  Sim E st cur ek (gdict E items) -> path_stack st = path :: ps -> stmt_okx fs fsr path E ek (e_val e) ->
  step dbg fs inc st e = Ret None st' -> errors st' = [] ->
  pass1_step fsr (mkP1 cur ek items) (e_val e) = Some s' ->
  env_le (p_env s') E -> (forall a it, In (a, it) (p_items s') -> pass2_item E a it <> None) ->
  Sim E st' (p_cur s') (p_env s') (gdict E (p_items s')) /\ path_stack st' = path_stack st.
Proof.
  intros HSim EPS OK HS HZ HP HE H2. destruct e as [line col ev]. cbn [e_val] in *. destruct ev as [name|name args|name args].
  - apply (label_sim dbg fsr inc E st cur ek items line col name st' s' HSim HS HP HE).
  - unfold step in HS. cbn [e_val e_line e_col] in HS. unfold process_directive in HS.
    cbn [stmt_okx] in OK. destruct (dir_of name) as [d|] eqn:Ed; [|dh].
    unfold pass1_step, dname in HP. cbn [p_env p_cur] in HP. unfold dir_of, CtxModel.is, AsmStmtModel.is in Ed.
    repeat match type of Ed with (if ?c then _ else _) = _ => destruct c eqn:? end; try discriminate Ed; inversion Ed; subst d; try dh.
    + eapply addr_sim; eauto.
    + eapply align_sim; eauto.
    + eapply const_sim; eauto.
    + eapply data_sim; eauto.
    + eapply data_sim; eauto.
    + eapply data_sim; eauto.
    + destruct (AsmStmtModel.str_eqb name (bytes_of_string "dstr")) eqn:K.
      { exfalso. assert (X : bytes_of_string "dhex" = bytes_of_string "dstr") by (eapply str_clash; eauto). vm_compute in X. discriminate X. }
      eapply bytes_sim; eauto.
    + eapply bytes_sim; eauto.
    + destruct (AsmStmtModel.str_eqb name (bytes_of_string "dstr")) eqn:K1.
      { exfalso. assert (X : bytes_of_string "dfile" = bytes_of_string "dstr") by (eapply str_clash; eauto). vm_compute in X. discriminate X. }
      destruct (AsmStmtModel.str_eqb name (bytes_of_string "dhex")) eqn:K2.
      { exfalso. assert (X : bytes_of_string "dfile" = bytes_of_string "dhex") by (eapply str_clash; eauto). vm_compute in X. discriminate X. }
      apply (file_sim dbg fs inc E fsr st cur ek items line col args st' s' path ps HSim EPS (OK eq_refl) HS HP).
  - unfold step in HS. cbn [e_val e_line e_col] in HS. destruct (active st) eqn:EA; [dh|].
    cbn [pass1_step] in HP. apply (instr_sim dbg fs inc E st cur ek items line col name args st' s' HSim HS HZ OK HP H2).
Qed.
