(* C14, the converse direction, part 2: what ONE statement of the oracle's language does to the two tables and to the list of
   deferred tasks of the open file WHEN IT RETURNS Ok - as exact descriptions (the C14_diag_ theorems are the error arms):
     tget s y   the open file's own table at y,      gget s y   its includer's table at y,      ltasks s   its deferred tasks;
     E_def / E_import / E_global / E_export / E_use: the effect of `.const x, v` or `x:` / `.import x` / `.global x` / `.export x` /
     `.du32 x`;  the deferred tasks: what a task that returns Ok found in the tables (the task_ lemmas), and that a successful end-of-file
     loop ran EVERY task successfully in a state with the same own table and a larger includer's table (loop_ok).
   Proof file (no model definitions). *)
From Coq Require Import ZArith NArith List Bool Lia.
From Trion Require Import Text.Types.
From Trion Require Text.ParseModel Arm.AsmStmtModel Expr.EvalModel.
From Trion Require Import Asm.CtxModel Asm.ScopeProofs Asm.ScopeProofs2 Asm.ScopeIso Asm.ScopeValue Asm.ScopeProv.
From Trion Require Asm.Ctx06Proofs Asm.ScopeLinkSeg.
Import ListNotations.

Definition tget (s : state) (y : str) : option (option Z) := olook (locals s) y.
Definition gget (s : state) (y : str) : option (option Z) := tbl_get (globals s) y.
Definition ltasks (s : state) : list task := match local_tasks s with Some l => l | None => [] end.
Definition valued (o : option (option Z)) : Prop := exists v, o = Some (Some v).

Definition ict (s : state) (y : str) : Prop := exists l c, In (ImportCheckTask y l c) (ltasks s).
Definition gtk (s : state) (y : str) : Prop := exists l c, In (GlobalTask y l c) (ltasks s).
Definition dtk (s : state) (y : str) : Prop := exists d, In (DataTask d false) (ltasks s) /\ de_arg d = AIdent y.

Definition frame_except (x : str) (s s1 : state) : Prop := forall y, y <> x -> tget s1 y = tget s y /\ gget s1 y = gget s y.

Lemma neq_eqb n m : n <> m -> str_eqb n m = false.
Proof. intros H. destruct (str_eqb n m) eqn:E; [|reflexivity]. apply str_eqb_eq in E. congruence. Qed.

Lemma not_valued_cases (o : option (option Z)) : (forall w, o <> Some (Some w)) -> o = None \/ o = Some None.
Proof. destruct o as [[w|]|]; intros H; auto. exfalso. eapply H; reflexivity. Qed.

(* ------------------------------------------------------------------ the four writers *)
Lemma insert_local_ok s x v b s1 : insert_constant s x v RLocal = Ret (inl b) s1 ->
  is_register x = false /\ (forall w, tget s x <> Some (Some w)) /\ tget s1 x = Some (Some v) /\
  (forall y, y <> x -> tget s1 y = tget s y) /\ globals s1 = globals s /\ local_tasks s1 = local_tasks s.
Proof.
  unfold insert_constant, tget. destruct (is_register x); [discriminate|]. cbn [realm_table set_realm_table].
  destruct (locals s) as [t|] eqn:L; [|discriminate]. cbn [olook].
  destruct (tbl_get t x) as [[w|]|] eqn:G; intros H; inversion H; subst; clear H;
    cbn [locals set_locals globals local_tasks olook];
    (split; [reflexivity|]); (split; [intros w; congruence|]); rewrite tbl_get_set, str_eqb_refl; (split; [reflexivity|]);
    (split; [|auto]); intros y NE; rewrite tbl_get_set, neq_eqb by congruence; reflexivity.
Qed.

Lemma insert_global_ok s x v b s1 : insert_constant s x v RGlobal = Ret (inl b) s1 ->
  is_register x = false /\ (forall w, gget s x <> Some (Some w)) /\ gget s1 x = Some (Some v) /\
  (forall y, y <> x -> gget s1 y = gget s y) /\ locals s1 = locals s /\ local_tasks s1 = local_tasks s.
Proof.
  unfold insert_constant, gget. destruct (is_register x); [discriminate|]. cbn [realm_table set_realm_table].
  destruct (tbl_get (globals s) x) as [[w|]|] eqn:G; intros H; inversion H; subst; clear H;
    cbn [locals set_globals globals local_tasks];
    (split; [reflexivity|]); (split; [intros w; congruence|]); rewrite tbl_get_set, str_eqb_refl; (split; [reflexivity|]);
    (split; [|auto]); intros y NE; rewrite tbl_get_set, neq_eqb by congruence; reflexivity.
Qed.

Lemma defer_local_ok s x u s1 : defer_constant s x RLocal = Ret (inl u) s1 ->
  is_register x = false /\ tget s x = None /\ tget s1 x = Some None /\
  (forall y, y <> x -> tget s1 y = tget s y) /\ globals s1 = globals s /\ local_tasks s1 = local_tasks s.
Proof.
  unfold defer_constant, tget. destruct (is_register x); [discriminate|]. cbn [realm_table set_realm_table].
  destruct (locals s) as [t|] eqn:L; [|discriminate]. cbn [olook].
  destruct (tbl_get t x) as [w|] eqn:G; intros H; inversion H; subst; clear H.
  cbn [locals set_locals globals local_tasks olook].
  split; [reflexivity|]. split; [reflexivity|]. rewrite tbl_get_set, str_eqb_refl. split; [reflexivity|].
  split; [|auto]. intros y NE. rewrite tbl_get_set, neq_eqb by congruence. reflexivity.
Qed.

Lemma defer_global_ok s x u s1 : defer_constant s x RGlobal = Ret (inl u) s1 ->
  is_register x = false /\ gget s x = None /\ gget s1 x = Some None /\
  (forall y, y <> x -> gget s1 y = gget s y) /\ locals s1 = locals s /\ local_tasks s1 = local_tasks s.
Proof.
  unfold defer_constant, gget. destruct (is_register x); [discriminate|]. cbn [realm_table set_realm_table].
  destruct (tbl_get (globals s) x) as [w|] eqn:G; intros H; inversion H; subst; clear H.
  cbn [locals set_globals globals local_tasks].
  split; [reflexivity|]. split; [reflexivity|]. rewrite tbl_get_set, str_eqb_refl. split; [reflexivity|].
  split; [|auto]. intros y NE. rewrite tbl_get_set, neq_eqb by congruence. reflexivity.
Qed.

Lemma add_local_ok s t u s1 : add_task s t RLocal = Ret u s1 ->
  ltasks s1 = ltasks s ++ [t] /\ locals s1 = locals s /\ globals s1 = globals s.
Proof. unfold add_task, ltasks. destruct (local_tasks s) as [lt|]; [|discriminate]. intros H; inversion H; subst. cbn. auto. Qed.

(* ------------------------------------------------------------------ the effects of the scope statements *)
Definition E_def (x : str) (v : Z) (s s1 : state) : Prop :=
  is_register x = false /\ (forall w, tget s x <> Some (Some w)) /\ tget s1 x = Some (Some v) /\ gget s1 x = gget s x /\
  ltasks s1 = ltasks s /\ frame_except x s s1.

Definition E_import (x : str) (s s1 : state) : Prop :=
  is_register x = false /\ gget s1 x = gget s x /\ frame_except x s s1 /\
  ((exists v, gget s x = Some (Some v) /\ (forall w, tget s x <> Some (Some w)) /\ tget s1 x = Some (Some v) /\ ltasks s1 = ltasks s) \/
   (gget s x = Some None /\ tget s x = None /\ tget s1 x = Some None /\ exists l c, ltasks s1 = ltasks s ++ [ImportCheckTask x l c])).

Definition E_global (x : str) (s s1 : state) : Prop :=
  is_register x = false /\ gget s x = None /\ frame_except x s s1 /\
  ((exists v, tget s x = Some (Some v) /\ gget s1 x = Some (Some v) /\ tget s1 x = tget s x /\ ltasks s1 = ltasks s) \/
   ((forall w, tget s x <> Some (Some w)) /\ tget s1 x = Some None /\ gget s1 x = Some None /\
    exists l c, ltasks s1 = ltasks s ++ [GlobalTask x l c])).

Definition E_export (x : str) (s s1 : state) : Prop :=
  is_register x = false /\ (exists v, tget s x = Some (Some v) /\ gget s1 x = Some (Some v)) /\ (forall w, gget s x <> Some (Some w)) /\
  tget s1 x = tget s x /\ ltasks s1 = ltasks s /\ frame_except x s s1.

Definition E_use (x : str) (s s1 : state) : Prop :=
  (forall y, tget s1 y = tget s y /\ gget s1 y = gget s y) /\
  (exists ex, ltasks s1 = ltasks s ++ ex /\ forall t, In t ex -> is_gtask t = false) /\
  (valued (tget s x) \/ exists d, In (DataTask d false) (ltasks s1) /\ de_arg d = AIdent x).

Lemma frame_of_eq x s s1 : (forall y, y <> x -> tget s1 y = tget s y) -> globals s1 = globals s -> frame_except x s s1.
Proof. intros H G y NE. split; [apply H; exact NE|unfold gget; rewrite G; reflexivity]. Qed.
Lemma frame_of_eq_g x s s1 : (forall y, y <> x -> gget s1 y = gget s y) -> locals s1 = locals s -> frame_except x s s1.
Proof. intros H G y NE. split; [unfold tget; rewrite G; reflexivity|apply H; exact NE]. Qed.

Lemma ltasks_eq s s1 : local_tasks s1 = local_tasks s -> ltasks s1 = ltasks s.
Proof. unfold ltasks. intros ->. reflexivity. Qed.

Section Steps.
Variables (dbg : bool) (fs : str -> option (list N)) (inc : state -> list N -> str -> res result).

Lemma const_effect s l c dn x v s1 : dir_of dn = Some DConst ->
  step dbg fs inc s (mkElement l c (EDirective dn [AIdent x; AConst v])) = Ret None s1 -> E_def x v s s1.
Proof.
  intros DN. unfold step, process_directive. cbn [e_val e_line e_col]. rewrite DN.
  unfold dir_const. cbn [arity_check List.length Nat.eqb]. unfold eval_now. rewrite Ctx06Proofs.eval_const. cbn [CtxModel.bind].
  destruct (insert_constant s x v RLocal) as [[b|[]] s2| |] eqn:I; cbn [CtxModel.bind]; try discriminate.
  intros H; inversion H; subst s2. destruct (insert_local_ok _ _ _ _ _ I) as (R & A & B & C & D & E).
  split; [exact R|]. split; [exact A|]. split; [exact B|]. split; [unfold gget; rewrite D; reflexivity|].
  split; [apply ltasks_eq; exact E|apply frame_of_eq; assumption].
Qed.

Lemma label_effect s l c x s1 : step dbg fs inc s (mkElement l c (ELabel x)) = Ret None s1 ->
  exists sg, active s = Active sg /\ E_def x (Z.of_N (curr_addr sg)) s s1.
Proof.
  unfold step. cbn [e_val e_line e_col]. destruct (active s) as [|sg]; [discriminate|].
  destruct (insert_constant s x _ RLocal) as [[b|[]] s2| |] eqn:I; cbn [CtxModel.bind]; try discriminate.
  intros H; inversion H; subst s2. destruct (insert_local_ok _ _ _ _ _ I) as (R & A & B & C & D & E).
  exists sg. split; [reflexivity|].
  split; [exact R|]. split; [exact A|]. split; [exact B|]. split; [unfold gget; rewrite D; reflexivity|].
  split; [apply ltasks_eq; exact E|apply frame_of_eq; assumption].
Qed.

Lemma import_effect s l c dn x s1 : dir_of dn = Some DImport -> locals s <> None ->
  step dbg fs inc s (mkElement l c (EDirective dn [AIdent x])) = Ret None s1 -> E_import x s s1.
Proof.
  intros DN NL. unfold step, process_directive. cbn [e_val e_line e_col]. rewrite DN.
  unfold dir_global. cbn [arity_check List.length Nat.eqb]. unfold get_constant. cbn [realm_table]. unfold lookup_of.
  destruct (tbl_get (globals s) x) as [[v|]|] eqn:G; try discriminate.
  - destruct (insert_constant s x v RLocal) as [[b|[]] s2| |] eqn:I; cbn [CtxModel.bind]; try discriminate.
    intros H; inversion H; subst s2. destruct (insert_local_ok _ _ _ _ _ I) as (R & A & B & C & D & E).
    split; [exact R|]. split; [unfold gget; rewrite D; reflexivity|]. split; [apply frame_of_eq; assumption|].
    left. exists v. split; [exact G|]. split; [exact A|]. split; [exact B|apply ltasks_eq; exact E].
  - destruct (defer_constant s x RLocal) as [[u|[]] s2| |] eqn:I; cbn [CtxModel.bind]; try discriminate.
    destruct (add_task s2 _ RLocal) as [u2 s3| |] eqn:AT; cbn [CtxModel.bind]; try discriminate.
    intros H; inversion H; subst s3. destruct (defer_local_ok _ _ _ _ I) as (R & A & B & C & D & E).
    destruct (add_local_ok _ _ _ _ AT) as (T1 & T2 & T3).
    split; [exact R|]. split; [unfold gget; rewrite T3, D; reflexivity|].
    split. { intros y NE. split; [unfold tget; rewrite T2; apply C; exact NE|unfold gget; rewrite T3, D; reflexivity]. }
    right. split; [exact G|]. split; [exact A|]. split; [unfold tget; rewrite T2; exact B|].
    exists l, c. rewrite T1. f_equal. apply ltasks_eq. exact E.
Qed.

Lemma export_effect s l c dn x s1 : dir_of dn = Some DExport -> locals s <> None ->
  step dbg fs inc s (mkElement l c (EDirective dn [AIdent x])) = Ret None s1 -> E_export x s s1.
Proof.
  intros DN NL. unfold step, process_directive. cbn [e_val e_line e_col]. rewrite DN.
  unfold dir_global. cbn [arity_check List.length Nat.eqb]. unfold get_constant. cbn [realm_table].
  destruct (locals s) as [t|] eqn:L; [|congruence]. unfold lookup_of.
  destruct (tbl_get t x) as [[v|]|] eqn:G; try discriminate.
  destruct (insert_constant s x v RGlobal) as [[b|[]] s2| |] eqn:I; cbn [CtxModel.bind]; try discriminate.
  intros H; inversion H; subst s2. destruct (insert_global_ok _ _ _ _ _ I) as (R & A & B & C & D & E).
  split; [exact R|]. split; [exists v; split; [unfold tget; rewrite L; exact G|exact B]|]. split; [exact A|].
  split; [unfold tget; rewrite D; reflexivity|]. split; [apply ltasks_eq; exact E|apply frame_of_eq_g; assumption].
Qed.

Lemma global_effect s l c dn x s1 : dir_of dn = Some DGlobal -> locals s <> None ->
  step dbg fs inc s (mkElement l c (EDirective dn [AIdent x])) = Ret None s1 -> E_global x s s1.
Proof.
  intros DN NL. unfold step, process_directive. cbn [e_val e_line e_col]. rewrite DN.
  unfold dir_global. cbn [arity_check List.length Nat.eqb].
  destruct (defer_constant s x RGlobal) as [[u|[]] s2| |] eqn:I; cbn [CtxModel.bind]; try discriminate.
  destruct (defer_global_ok _ _ _ _ I) as (R & A & B & C & D & E).
  unfold get_constant. cbn [realm_table]. rewrite D. destruct (locals s) as [t|] eqn:L; [|congruence]. unfold lookup_of.
  destruct (tbl_get t x) as [[v|]|] eqn:G.
  - destruct (insert_constant s2 x v RGlobal) as [[[|]|e] s3| |] eqn:I2; cbn [CtxModel.bind]; try discriminate.
    intros H; inversion H; subst s3. destruct (insert_global_ok _ _ _ _ _ I2) as (_ & A2 & B2 & C2 & D2 & E2).
    split; [exact R|]. split; [exact A|].
    split. { intros y NE. split; [unfold tget; rewrite D2, D, L; reflexivity|rewrite C2, C by exact NE; reflexivity]. }
    left. exists v. split; [unfold tget; rewrite L; exact G|]. split; [exact B2|].
    split; [unfold tget; rewrite D2, D, L; reflexivity|apply ltasks_eq; congruence].
  - cbn [CtxModel.bind]. destruct (add_task s2 _ RLocal) as [u2 s3| |] eqn:AT; cbn [CtxModel.bind]; try discriminate.
    intros H; inversion H; subst s3. destruct (add_local_ok _ _ _ _ AT) as (T1 & T2 & T3).
    split; [exact R|]. split; [exact A|].
    split. { intros y NE. split; [unfold tget; rewrite T2, D, L; reflexivity|unfold gget; rewrite T3; apply C; exact NE]. }
    right. split; [unfold tget; rewrite L; cbn [olook]; intros w; congruence|].
    split; [unfold tget; rewrite T2, D; exact G|]. split; [unfold gget; rewrite T3; exact B|].
    exists l, c. rewrite T1. f_equal. apply ltasks_eq. exact E.
  - destruct (defer_constant s2 x RLocal) as [[u1|e] s2'| |] eqn:I1; cbn [CtxModel.bind]; try discriminate.
    destruct (defer_local_ok _ _ _ _ I1) as (_ & A1 & B1 & C1 & D1 & E1).
    destruct (add_task s2' _ RLocal) as [u2 s3| |] eqn:AT; cbn [CtxModel.bind]; try discriminate.
    intros H; inversion H; subst s3. destruct (add_local_ok _ _ _ _ AT) as (T1 & T2 & T3).
    split; [exact R|]. split; [exact A|].
    split. { intros y NE. split; [transitivity (tget s2' y); [unfold tget; rewrite T2; reflexivity|rewrite (C1 y NE); unfold tget; rewrite D, L; reflexivity]|
                                   unfold gget; rewrite T3, D1; apply C; exact NE]. }
    right. split; [unfold tget; rewrite L; cbn [olook]; intros w; congruence|].
    split; [unfold tget; rewrite T2; exact B1|]. split; [unfold gget; rewrite T3, D1; exact B|].
    exists l, c. rewrite T1. f_equal. apply ltasks_eq. congruence.
Qed.

Lemma ctx_eval_register s x : is_register x = true -> ctx_eval s (AIdent x) = EvOk (AIdent x) (EvalModel.Complete false).
Proof. intros R. unfold ctx_eval. cbn [evaluate_mut]. fold is_register. rewrite R. reflexivity. Qed.

Lemma use_effect s l c dn x s1 p ps : dir_of dn = Some (DData DU32) -> path_stack s = p :: ps -> locals s <> None ->
  step dbg fs inc s (mkElement l c (EDirective dn [AIdent x])) = Ret None s1 -> E_use x s s1.
Proof.
  intros DN PS NL. unfold step, process_directive. cbn [e_val e_line e_col]. rewrite DN. intros H.
  pose proof (dir_data_ls _ _ _ _ _ _ _ _ H) as LS. pose proof (dir_data_hs _ _ _ _ _ _ _ _ H) as (_ & _ & _ & HD & _ & OT).
  split. { intros y. split; [unfold tget; rewrite LS; reflexivity|exact (hand_none _ _ _ HD y)]. }
  split.
  { unfold ltasks. destruct (local_tasks s) as [lt|], (local_tasks s1) as [lt1|]; cbn in OT; try contradiction.
    - destruct OT as (ex & -> & NG). exists ex. split; [reflexivity|]. intros t IN. destruct t; try reflexivity. exfalso. exact (NG _ _ _ IN).
    - exists []. split; [reflexivity|intros t []]. }
  destruct (locals s) as [t|] eqn:L; [|congruence].
  assert (ET : eval_table s = Some t) by (unfold eval_table; rewrite PS; exact L).
  destruct (tbl_get t x) as [[v|]|] eqn:G. { left. exists v. unfold tget. rewrite L. exact G. }
  all: right; unfold dir_data in H; destruct (active s) as [|sg]; [discriminate H|];
       destruct (has_remaining dbg sg (dk_size DU32)) as [[|]| |]; try discriminate H;
       cbn [arity_check List.length Nat.eqb] in H; unfold data_apply in H; cbn [de_arg] in H;
       (destruct (is_register x) eqn:R; [rewrite (ctx_eval_register _ _ R) in H|rewrite (ctx_eval_ident _ _ _ ET R), G in H]);
       cbn [CtxModel.bind] in H;
       match type of H with context[write_data ?a ?b ?c ?e] => destruct (write_data a b c e) as [[lv|] s2| |] eqn:W end;
       cbn [CtxModel.bind] in H; try discriminate H;
       match type of H with context[add_task ?a ?b ?c] => destruct (add_task a b c) as [u s3| |] eqn:AT end;
       cbn [CtxModel.bind] in H; try discriminate H; inversion H; subst s3;
       destruct (add_local_ok _ _ _ _ AT) as (T1 & _ & _);
       eexists; (split; [rewrite T1; apply in_or_app; right; left; reflexivity|reflexivity]).
Qed.
End Steps.

(* ------------------------------------------------------------------ what every statement keeps *)
Definition SALL : nameset := fun _ => True.

Lemma hs_persist (S : nameset) s s1 : Hs S s s1 ->
  (forall y, tget s y <> None -> tget s1 y <> None) /\ (forall y, valued (tget s y) -> valued (tget s1 y)) /\
  (forall y, valued (gget s y) -> valued (gget s1 y)) /\ (exists ex, ltasks s1 = ltasks s ++ ex) /\ path_stack s1 = path_stack s.
Proof.
  intros (PS & _ & OT & HD & _ & OX). apply hand_tle in HD.
  assert (TL : forall y, match tget s y with None => True | Some None => tget s1 y <> None | Some (Some v) => tget s1 y = Some (Some v) end).
  { intros y. unfold tget. destruct (locals s) as [t|], (locals s1) as [t1|]; cbn in OT; try contradiction; cbn [olook]; [apply OT|exact I]. }
  split. { intros y H. specialize (TL y). destruct (tget s y) as [[v|]|]; [rewrite TL; discriminate|exact TL|congruence]. }
  split. { intros y (v & H). specialize (TL y). rewrite H in TL. exists v. exact TL. }
  split. { intros y (v & H). specialize (HD y). unfold gget in *. rewrite H in HD. exists v. exact HD. }
  split; [|exact PS].
  unfold ltasks. destruct (local_tasks s) as [lt|], (local_tasks s1) as [lt1|]; cbn in OX; try contradiction.
  - destruct OX as (ex & -> & _). exists ex. reflexivity.
  - exists []. reflexivity.
Qed.

(* ------------------------------------------------------------------ deferred tasks that return Ok *)
Lemma task_data_ok dbg sa d x sb p ps : de_arg d = AIdent x -> path_stack sa = p :: ps ->
  run_task dbg sa (DataTask d false) = Ret None sb -> tget sa x <> None.
Proof.
  intros A PS H. destruct (is_register x) eqn:R.
  - exfalso. cbn [run_task] in H. unfold data_apply in H. rewrite A, (ctx_eval_register _ _ R) in H. cbn [CtxModel.bind] in H. discriminate H.
  - destruct (locals sa) as [t|] eqn:L.
    + assert (ET : eval_table sa = Some t) by (unfold eval_table; rewrite PS; exact L).
      rewrite (use_retry dbg sa d x t false A ET R) in H. unfold tget. rewrite L. cbn [olook].
      destruct (tbl_get t x); [discriminate|discriminate H].
    + exfalso. cbn [run_task] in H. unfold data_apply in H. rewrite A in H. unfold ctx_eval in H. cbn [evaluate_mut] in H.
      fold is_register in H. rewrite R in H. cbn [negb] in H. unfold ctx_lookup, get_constant, eval_realm in H. rewrite PS in H.
      cbn [realm_table] in H. rewrite L in H. cbn [CtxModel.bind] in H. discriminate H.
Qed.

Lemma task_global_ok dbg sa y l c sb : run_task dbg sa (GlobalTask y l c) = Ret None sb ->
  valued (tget sa y) /\ ~ valued (gget sa y) /\ valued (gget sb y).
Proof.
  cbn [run_task]. destruct (get_constant sa y RLocal) as [[v| |]|] eqn:G; try discriminate.
  apply get_found in G.
  destruct (insert_constant sa y v RGlobal) as [[b|[]] s2| |] eqn:I; cbn [CtxModel.bind]; try discriminate.
  intros H; inversion H; subst s2. destruct (insert_global_ok _ _ _ _ _ I) as (_ & A & B & _).
  split; [exists v; exact G|]. split; [intros (w & W); exact (A w W)|exists v; exact B].
Qed.

Lemma task_ict_ok dbg sa y l c sb : run_task dbg sa (ImportCheckTask y l c) = Ret None sb -> ~ valued (tget sa y).
Proof. intros H. destruct (import_check_passes _ _ _ _ _ _ H) as (_ & NV). intros (v & V). exact (NV v V). Qed.

(* ------------------------------------------------------------------ the end-of-file loop *)
Definition RR (a b : state) : Prop :=
  locals b = locals a /\ path_stack b = path_stack a /\ (forall y, valued (gget a y) -> valued (gget b y)).
Lemma RR_refl a : RR a a. Proof. repeat split; auto. Qed.
Lemma RR_trans a b c : RR a b -> RR b c -> RR a c.
Proof. intros (A1 & A2 & A3) (B1 & B2 & B3). split; [congruence|]. split; [congruence|]. auto. Qed.

Lemma run_task_RR dbg s t r s' : run_task dbg s t = Ret r s' -> RR s s'.
Proof.
  intros H. pose proof (run_task_ls _ _ _ _ _ H) as LS.
  assert (HS : Hs SALL s s') by (eapply run_task_hs; [exact H|intros; exact I]).
  destruct (hs_persist _ _ _ HS) as (_ & _ & G & _ & P). split; [exact LS|]. split; [exact P|exact G].
Qed.

Lemma set_lt_RR s v : RR s (set_local_tasks s v). Proof. repeat split; auto. Qed.

Lemma local_round_RR dbg tasks : forall st r r' st', local_round dbg tasks st r = Ret r' st' -> RR st st'.
Proof.
  induction tasks as [|t rest IH]; intros st r r' st' H; cbn [local_round] in H.
  - inversion H; subst. apply RR_refl.
  - destruct (run_task dbg st t) as [x st1| |] eqn:E; cbn [CtxModel.bind] in H; try discriminate H.
    apply run_task_RR in E. destruct x as [lvl|]; [destruct (is_fatal lvl)|].
    + inversion H; subst. exact E.
    + eapply RR_trans; [exact E|eapply IH; exact H].
    + eapply RR_trans; [exact E|eapply IH; exact H].
Qed.

Lemma local_loop_RR dbg rounds : forall tasks st r r' st', local_loop dbg rounds tasks st r = Ret r' st' -> RR st st'.
Proof.
  induction rounds as [|k IH]; intros tasks st r r' st' H; cbn [local_loop] in H.
  - destruct tasks; [inversion H; subst; apply RR_refl|discriminate H].
  - destruct tasks as [|t0 tl]; [inversion H; subst; apply RR_refl|].
    destruct (local_round dbg (t0 :: tl) st r) as [r1 st1| |] eqn:E; cbn [CtxModel.bind] in H; try discriminate H.
    apply local_round_RR in E. destruct (local_tasks st1) as [newt|]; [|discriminate H].
    destruct (res_is_fatal r1).
    + inversion H; subst. eapply RR_trans; [exact E|apply set_lt_RR].
    + eapply RR_trans; [exact E|]. eapply RR_trans; [apply set_lt_RR|eapply IH; exact H].
Qed.

Definition ran_ok (dbg : bool) (st st' : state) (t : task) : Prop :=
  exists sa sb, run_task dbg sa t = Ret None sb /\ RR st sa /\ RR sb st'.

Lemma local_round_ok dbg tasks : forall st st', local_round dbg tasks st None = Ret None st' ->
  forall t, In t tasks -> ran_ok dbg st st' t.
Proof.
  induction tasks as [|t rest IH]; intros st st' H t0 IN; [destruct IN|]. cbn [local_round] in H.
  destruct (run_task dbg st t) as [x st1| |] eqn:E; cbn [CtxModel.bind] in H; try discriminate H.
  destruct x as [lvl|].
  - exfalso. destruct (is_fatal lvl); [discriminate H|]. apply ScopeLinkSeg.local_round_some in H. congruence.
  - pose proof (run_task_RR _ _ _ _ _ E) as R1. pose proof (local_round_RR _ _ _ _ _ _ H) as R2.
    destruct IN as [<-|IN].
    + exists st, st1. split; [exact E|]. split; [apply RR_refl|exact R2].
    + destruct (IH _ _ H t0 IN) as (sa & sb & X & Y & Z). exists sa, sb. split; [exact X|]. split; [eapply RR_trans; eauto|exact Z].
Qed.

Lemma local_loop_ok dbg rounds tasks st st' : local_loop dbg rounds tasks st None = Ret None st' ->
  forall t, In t tasks -> ran_ok dbg st st' t.
Proof.
  intros H t IN. destruct rounds as [|k]; cbn [local_loop] in H.
  - destruct tasks; [destruct IN|discriminate H].
  - destruct tasks as [|t0 tl]; [destruct IN|].
    destruct (local_round dbg (t0 :: tl) st None) as [r1 st1| |] eqn:E; cbn [CtxModel.bind] in H; try discriminate H.
    destruct (local_tasks st1) as [newt|]; [|discriminate H].
    destruct r1 as [lv|].
    + exfalso. destruct (res_is_fatal (Some lv)); [discriminate H|]. apply ScopeLinkSeg.local_loop_some in H. congruence.
    + cbn [res_is_fatal] in H. apply local_loop_RR in H.
      destruct (local_round_ok _ _ _ _ E t IN) as (sa & sb & X & Y & Z). exists sa, sb. split; [exact X|]. split; [exact Y|].
      eapply RR_trans; [exact Z|]. eapply RR_trans; [apply set_lt_RR|exact H].
Qed.

(* the includer's table after the loop: unchanged at every name without a pending `.global` copy *)
Lemma loop_globals dbg tasks st r r' st' : local_tasks st = Some [] -> local_loop dbg task_rounds tasks st r = Ret r' st' ->
  forall y, (forall l c, ~ In (GlobalTask y l c) tasks) -> gget st' y = gget st y.
Proof.
  intros LT H y NG.
  assert (W : Hw (fun n => exists l c, In (GlobalTask n l c) tasks) st st').
  { eapply local_loop_hw; [|exact LT| |exact H].
    - intros n a b IN. exists a, b. exact IN.
    - intros n a b []. }
  destruct W as (_ & _ & _ & HD & _). destruct (HD y) as [E|((l & c & IN) & _)]; [exact E|]. exfalso. exact (NG l c IN).
Qed.

(* Context::assemble of a file (up to the drop of the PathFrame) returned Ok: every statement did, and the loop did *)
Lemma open_ok dbg fs inc s data path els st2 : parse_source data = Parsed (map ParseModel.IOk els) None ->
  assemble_open dbg fs inc s data path = Ret None st2 ->
  exists st1 tasks, run_items dbg fs inc (map ParseModel.IOk els) (fst (enter_file s path)) = Ret None st1 /\
    local_tasks st1 = Some tasks /\
    local_loop dbg task_rounds tasks (set_local_tasks st1 (Some [])) None = Ret None st2.
Proof.
  intros PS. unfold assemble_open, do_assemble. rewrite PS.
  destruct (run_items dbg fs inc (map ParseModel.IOk els) (fst (enter_file s path))) as [r1 st1| |] eqn:ER; cbn [CtxModel.bind]; try discriminate.
  destruct r1 as [lv|]; cbn [CtxModel.bind].
  - destruct (res_is_fatal (Some lv)); [discriminate|]. destruct (local_tasks st1) as [tasks|]; [|discriminate].
    intros H. apply ScopeLinkSeg.local_loop_some in H. congruence.
  - cbn [res_is_fatal]. destruct (local_tasks st1) as [tasks|] eqn:LT; [|discriminate]. intros H. exists st1, tasks. auto.
Qed.
