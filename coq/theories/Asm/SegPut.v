(* C13 proofs, part 2: the hypothesis PutFresh of SegProofs.v is a theorem of C15 (Mem/MapOccupied.put_fresh_ok),
   so closing a segment and re-selecting an address need no assumption about MemoryMap::put. *)
From Coq Require Import NArith List Bool Lia ZifyBool ZifyNat ZifyN.
From Trion Require Import Mem.MapModel Mem.MapProofs Mem.MapOccupied Asm.CtxModel Asm.SegProofs.
Import ListNotations.
Open Scope N_scope.

Lemma occupied_same m x : SegProofs.occupied m x <-> MapOccupied.occupied m x.
Proof. reflexivity. Qed.

Lemma put_fresh : PutFresh.
Proof.
  intros dbg m a data HR Hsp Hfree.
  destruct (put_fresh_ok dbg m a data HR Hsp Hfree) as (m' & E & R' & O).
  exists m'. split; [exact E|]. split; [exact R'|exact O].
Qed.

Definition close_ok' := close_ok put_fresh.
Definition change_refused_active' := change_refused_active put_fresh.
