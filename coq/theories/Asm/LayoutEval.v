(* C05 proofs, part 2: facts about expression evaluation that the layout simulation needs.
   (a) the tree evaluate_mut leaves behind when it FAILS (the partially substituted statement a deferred task keeps)
       has the value of the original expression (fwd of Expr/C08Sound.v) - extends C08_evaluate to the error case;
   (b) a table without declared-but-unvalued names never yields a Deferred evaluation, and a Complete evaluation is
       reproduced verbatim (same tree) under every larger table;
   (c) evaluate_mut reports NoSuchVariable only when the expression mentions an unknown symbol. *)
From Coq Require Import ZArith NArith List Bool Lia.
From Trion Require Import Text.Types Expr.I64 Expr.SimplifyModel Expr.EvalModel Expr.ArgLemmas Expr.Denote Expr.C08Sound
  Asm.CtxSeg Asm.CtxEval Asm.CtxProofs.
Import ListNotations.

(* identifiers of an expression (same function as Asm/LayoutSpec.idents; restated here to keep this file free of the
   Arm/ imports; LayoutSim.v shows they coincide by reflexivity) *)
Fixpoint idents (a : arg) : list str :=
  match a with
  | AConst _ | AStr _ => []
  | AIdent s => [s]
  | AAdd l r | ASub l r | AMul l r | ADiv l r | AMod l r | AAnd l r | AOr l r | AXor l r | AShl l r | AShr l r => idents l ++ idents r
  | ANeg v | ANot v | AAddr v => idents v
  | ASeq l | AFun _ l => flat_map idents l
  end.

Lemma idents_mk op l r : idents (mk_bin op l r) = idents l ++ idents r.
Proof. destruct op; reflexivity. Qed.

(* ------------------------------------------------------------------ (a) *)
Section Fwd.
  Variable rho : str -> option Z.
  Variable lk : str -> lookup_res.
  Variable ir : str -> bool.
  Hypothesis CP : compat rho lk ir.

  Lemma mut_ok_fwd a a' e : evaluate_mut (fun n => Some (lk n)) ir a = EvOk a' e -> fwd rho a a'.
  Proof.
    intros H. pose proof (evaluate_mut_agrees lk ir a) as A. unfold agree_res in A.
    destruct (evaluate lk ir a) as [[a1 e1]|er|s] eqn:Ev.
    - rewrite H in A. inversion A; subst. eapply evaluate_fwd; eauto.
    - destruct A as (x & y & A). rewrite H in A. discriminate.
    - rewrite H in A. discriminate.
  Qed.

  Lemma mut_mk op l r : evaluate_mut (fun n => Some (lk n)) ir (mk_bin op l r)
    = ev_bin op l r (evaluate_mut (fun n => Some (lk n)) ir l) (evaluate_mut (fun n => Some (lk n)) ir r).
  Proof. destruct op; reflexivity. Qed.

  Lemma mut_err_fwd a : forall a' e, evaluate_mut (fun n => Some (lk n)) ir a = EvErr a' e -> fwd rho a a'.
  Proof.
    induction a using arg_ind'; intros a' e He.
    - discriminate.
    - cbn [evaluate_mut] in He. destruct (negb (ir s)); [|discriminate]. destruct (lk s); inversion He; subst. apply fwd_refl.
    - discriminate.
    - rewrite mut_mk in He. unfold ev_bin in He.
      destruct (evaluate_mut (fun n => Some (lk n)) ir a1) as [l' el|l' e1|p] eqn:E1; [| |discriminate].
      + pose proof (mut_ok_fwd _ _ _ E1) as F1.
        destruct (evaluate_mut (fun n => Some (lk n)) ir a2) as [r' er|r' e2|p] eqn:E2; [| |discriminate].
        * pose proof (mut_ok_fwd _ _ _ E2) as F2. unfold ev_node in He.
          destruct (simplify_raw (mk_bin op l' r')) as [[x c]|er2|s]; inversion He; subst. apply fwd_mk; assumption.
        * inversion He; subst. apply fwd_mk; [assumption|eapply IHa2; eauto].
      + inversion He; subst. apply fwd_mk; [eapply IHa1; eauto|apply fwd_refl].
    - cbn [evaluate_mut] in He. unfold ev_un in He.
      destruct (evaluate_mut (fun n => Some (lk n)) ir a) as [v' e1|v' e1|p] eqn:E1; [| |discriminate].
      + unfold ev_node in He. destruct (simplify_raw (ANeg v')) as [[x c]|?|?]; inversion He; subst.
        apply fwd_neg. eapply mut_ok_fwd; eauto.
      + inversion He; subst. apply fwd_neg. eapply IHa; eauto.
    - cbn [evaluate_mut] in He. unfold ev_un in He.
      destruct (evaluate_mut (fun n => Some (lk n)) ir a) as [v' e1|v' e1|p] eqn:E1; [| |discriminate].
      + unfold ev_node in He. destruct (simplify_raw (ANot v')) as [[x c]|?|?]; inversion He; subst.
        apply fwd_not. eapply mut_ok_fwd; eauto.
      + inversion He; subst. apply fwd_not. eapply IHa; eauto.
    - apply fwd_none. reflexivity.
    - apply fwd_none. reflexivity.
    - apply fwd_none. reflexivity.
  Qed.

  (* whatever evaluate_mut returns, the tree it leaves has the value of the original *)
  Lemma mut_fwd a : match evaluate_mut (fun n => Some (lk n)) ir a with
                    | EvOk a' _ => fwd rho a a' | EvErr a' _ => fwd rho a a' | EvPanic _ => True end.
  Proof.
    destruct (evaluate_mut (fun n => Some (lk n)) ir a) eqn:E; [eapply mut_ok_fwd|eapply mut_err_fwd|exact I]; eauto.
  Qed.
End Fwd.

(* a constant result is the value *)
Lemma fwd_const rho a v w : fwd rho a (AConst v) -> den64 rho a = Some w -> v = w.
Proof.
  intros F D. apply den64_denZ in D. destruct D as [D _]. specialize (F _ D). cbn in F. congruence.
Qed.

(* ------------------------------------------------------------------ (b) *)
Definition lk_le (lk1 lk2 : str -> lookup_res) : Prop := forall s v, lk1 s = Found v -> lk2 s = Found v.
Definition no_deferred (lk : str -> lookup_res) : Prop := forall s, lk s <> LDeferred.

Definition go_ev (lk : str -> lookup_res) (ir : str -> bool) : list arg -> evaluation -> outcome (list arg * evaluation) :=
  fix go (l : list arg) (acc : evaluation) : outcome (list arg * evaluation) :=
    match l with [] => Ok ([], acc) | x :: xs => eval_cons (evaluate lk ir x) (go xs) acc end.

Lemma evaluate_seq lk ir l : evaluate lk ir (ASeq l) = I64.bind (go_ev lk ir l (Complete false)) (fun '(l', e) => Ok (ASeq l', e)).
Proof. reflexivity. Qed.
Lemma evaluate_fun lk ir n l : evaluate lk ir (AFun n l) = I64.bind (go_ev lk ir l (Complete false)) (fun '(l', e) => Ok (AFun n l', e)).
Proof. reflexivity. Qed.
Lemma go_ev_cons lk ir x xs acc : go_ev lk ir (x :: xs) acc = eval_cons (evaluate lk ir x) (go_ev lk ir xs) acc.
Proof. reflexivity. Qed.

Section Facts.
  Variable lk1 : str -> lookup_res.
  Variable ir : str -> bool.
  Hypothesis ND : no_deferred lk1.

  Definition efacts {A} (o : outcome (A * evaluation)) (again : (str -> lookup_res) -> outcome (A * evaluation)) : Prop :=
    match o with
    | I64.Ok (a', ev) => (exists c, ev = Complete c) /\ (forall lk2, lk_le lk1 lk2 -> again lk2 = I64.Ok (a', ev))
    | _ => True
    end.

  Lemma go_facts l : Forall (fun a => efacts (evaluate lk1 ir a) (fun lk2 => evaluate lk2 ir a)) l ->
    forall ca, efacts (go_ev lk1 ir l (Complete ca)) (fun lk2 => go_ev lk2 ir l (Complete ca)).
  Proof.
    induction 1 as [|x xs Hx Hxs IH]; intros ca.
    - cbn. split; [eauto|reflexivity].
    - rewrite go_ev_cons. unfold eval_cons, efacts in *.
      destruct (evaluate lk1 ir x) as [[x' e]|?|?]; cbn [I64.bind]; [|exact I|exact I].
      destruct Hx as ((c & ->) & Hx2). cbn [ev_or].
      specialize (IH (ca || c)). destruct (go_ev lk1 ir xs (Complete (ca || c))) as [[xs' e']|?|?]; cbn [I64.bind]; [|exact I|exact I].
      destruct IH as (Hc & IH2). split; [exact Hc|]. intros lk2 L.
      rewrite go_ev_cons. unfold eval_cons. rewrite (Hx2 lk2 L). cbn [I64.bind ev_or]. rewrite (IH2 lk2 L). reflexivity.
  Qed.

  Lemma evaluate_facts a : efacts (evaluate lk1 ir a) (fun lk2 => evaluate lk2 ir a).
  Proof.
    induction a using arg_ind'.
    - cbn. split; [eauto|reflexivity].
    - cbn [evaluate]. destruct (ir s) eqn:R; cbn [negb].
      + cbn. split; [eauto|]. intros lk2 _. cbn [evaluate]. rewrite ?R. reflexivity.
      + destruct (lk1 s) as [v| |] eqn:L.
        * cbn. split; [eauto|]. intros lk2 LE. cbn [evaluate]. rewrite ?R. cbn [negb]. rewrite (LE _ _ L). reflexivity.
        * exfalso. exact (ND _ L).
        * exact I.
    - cbn. split; [eauto|reflexivity].
    - rewrite evaluate_mk'. unfold eval_bin, efacts in *.
      destruct (evaluate lk1 ir a1) as [[l' el]|?|?]; cbn [I64.bind]; [|exact I|exact I].
      destruct (evaluate lk1 ir a2) as [[r' er]|?|?]; cbn [I64.bind]; [|exact I|exact I].
      destruct IHa1 as ((c1 & ->) & H1). destruct IHa2 as ((c2 & ->) & H2).
      unfold eval_node. destruct (simplify_raw (mk_bin op l' r')) as [[x c]|?|?] eqn:S; cbn [I64.bind]; [|exact I|exact I].
      split; [cbn; eauto|]. intros lk2 LE. rewrite evaluate_mk'. unfold eval_bin. rewrite (H1 _ LE), (H2 _ LE). cbn [I64.bind].
      unfold eval_node. rewrite S. reflexivity.
    - cbn [evaluate]. unfold eval_un, efacts in *.
      destruct (evaluate lk1 ir a) as [[v' e]|?|?]; cbn [I64.bind]; [|exact I|exact I].
      destruct IHa as ((c1 & ->) & H1).
      unfold eval_node. destruct (simplify_raw (ANeg v')) as [[x c]|?|?] eqn:S; cbn [I64.bind]; [|exact I|exact I].
      split; [cbn; eauto|]. intros lk2 LE. cbn [evaluate]. unfold eval_un. rewrite (H1 _ LE). cbn [I64.bind].
      unfold eval_node. rewrite S. reflexivity.
    - cbn [evaluate]. unfold eval_un, efacts in *.
      destruct (evaluate lk1 ir a) as [[v' e]|?|?]; cbn [I64.bind]; [|exact I|exact I].
      destruct IHa as ((c1 & ->) & H1).
      unfold eval_node. destruct (simplify_raw (ANot v')) as [[x c]|?|?] eqn:S; cbn [I64.bind]; [|exact I|exact I].
      split; [cbn; eauto|]. intros lk2 LE. cbn [evaluate]. unfold eval_un. rewrite (H1 _ LE). cbn [I64.bind].
      unfold eval_node. rewrite S. reflexivity.
    - cbn [evaluate]. unfold eval_un, efacts in *.
      destruct (evaluate lk1 ir a) as [[v' e]|?|?]; cbn [I64.bind]; [|exact I|exact I].
      destruct IHa as ((c1 & ->) & H1).
      unfold eval_node. destruct (simplify_raw (AAddr v')) as [[x c]|?|?] eqn:S; cbn [I64.bind]; [|exact I|exact I].
      split; [cbn; eauto|]. intros lk2 LE. cbn [evaluate]. unfold eval_un. rewrite (H1 _ LE). cbn [I64.bind].
      unfold eval_node. rewrite S. reflexivity.
    - rewrite evaluate_seq. pose proof (go_facts l H false) as G. unfold efacts in *.
      destruct (go_ev lk1 ir l (Complete false)) as [[l' e]|?|?]; cbn [I64.bind]; [|exact I|exact I].
      destruct G as (Hc & G2). split; [exact Hc|]. intros lk2 LE. rewrite evaluate_seq, (G2 _ LE). reflexivity.
    - rewrite evaluate_fun. pose proof (go_facts l H false) as G. unfold efacts in *.
      destruct (go_ev lk1 ir l (Complete false)) as [[l' e]|?|?]; cbn [I64.bind]; [|exact I|exact I].
      destruct G as (Hc & G2). split; [exact Hc|]. intros lk2 LE. rewrite evaluate_fun, (G2 _ LE). reflexivity.
  Qed.

  Lemma evaluate_never_deferred a a' c n : evaluate lk1 ir a <> I64.Ok (a', Deferred c n).
  Proof.
    intros E. pose proof (evaluate_facts a) as F. rewrite E in F. destruct F as ((c' & F) & _). discriminate.
  Qed.

  Lemma evaluate_complete_mono a a' c lk2 : lk_le lk1 lk2 ->
    evaluate lk1 ir a = I64.Ok (a', Complete c) -> evaluate lk2 ir a = I64.Ok (a', Complete c).
  Proof.
    intros LE E. pose proof (evaluate_facts a) as F. rewrite E in F. destruct F as (_ & F). exact (F _ LE).
  Qed.
End Facts.

(* ------------------------------------------------------------------ (c) *)
Definition known (lk : str -> lookup_res) (ir : str -> bool) (a : arg) : Prop :=
  forall n, In n (idents a) -> ir n = true \/ exists v, lk n = Found v.

Section NoVar.
  Variable lk : str -> lookup_res.
  Variable ir : str -> bool.

  Definition go_mut : list arg -> evaluation -> evl_res :=
    fix go (l : list arg) (acc : evaluation) : evl_res :=
      match l with [] => ElOk [] acc
      | x :: xs => ev_cons xs (evaluate_mut (fun n => Some (lk n)) ir x) (go xs) acc end.

  Lemma go_novar l : Forall (fun a => forall a' n, evaluate_mut (fun n => Some (lk n)) ir a = EvErr a' (EENoVar n) -> ~ known lk ir a) l ->
    forall acc l' n, go_mut l acc = ElErr l' (EENoVar n) -> ~ (forall a, In a l -> known lk ir a).
  Proof.
    induction 1 as [|x xs Hx Hxs IH]; intros acc l' n E K; [discriminate|].
    cbn [go_mut] in E. fold go_mut in E. unfold ev_cons in E.
    destruct (evaluate_mut (fun n => Some (lk n)) ir x) as [x' e|x' er|p] eqn:Ex; [| |discriminate].
    - destruct (go_mut xs (ev_or acc e)) as [? ?|xs' er|?] eqn:Eg; try discriminate. inversion E; subst.
      eapply IH; [exact Eg|]. intros a Ha. apply K. now right.
    - inversion E; subst. eapply Hx; [reflexivity|]. apply K. now left.
  Qed.

  Lemma mut_novar_unknown a : forall a' n, evaluate_mut (fun n => Some (lk n)) ir a = EvErr a' (EENoVar n) -> ~ known lk ir a.
  Proof.
    induction a using arg_ind'; intros a' nm He K.
    - discriminate.
    - cbn [evaluate_mut] in He. destruct (ir s) eqn:R; cbn [negb] in He; [discriminate|].
      destruct (lk s) eqn:L; try discriminate.
      destruct (K s (or_introl eq_refl)) as [T|(v & T)]; congruence.
    - discriminate.
    - rewrite mut_mk in He. unfold ev_bin in He.
      assert (K1 : known lk ir a1) by (intros m Hm; apply K; rewrite idents_mk; apply in_or_app; now left).
      assert (K2 : known lk ir a2) by (intros m Hm; apply K; rewrite idents_mk; apply in_or_app; now right).
      destruct (evaluate_mut (fun n => Some (lk n)) ir a1) as [l' el|l' e1|p] eqn:E1; [| |discriminate].
      + destruct (evaluate_mut (fun n => Some (lk n)) ir a2) as [r' er|r' e2|p] eqn:E2; [| |discriminate].
        * unfold ev_node in He. destruct (simplify_raw (mk_bin op l' r')) as [[x c]|?|?]; discriminate.
        * inversion He; subst. eapply IHa2; eauto.
      + inversion He; subst. eapply IHa1; eauto.
    - cbn [evaluate_mut] in He. unfold ev_un in He.
      destruct (evaluate_mut (fun n => Some (lk n)) ir a) as [v' e1|v' e1|p] eqn:E1; [| |discriminate].
      + unfold ev_node in He. destruct (simplify_raw (ANeg v')) as [[x c]|?|?]; discriminate.
      + inversion He; subst. eapply IHa; eauto.
    - cbn [evaluate_mut] in He. unfold ev_un in He.
      destruct (evaluate_mut (fun n => Some (lk n)) ir a) as [v' e1|v' e1|p] eqn:E1; [| |discriminate].
      + unfold ev_node in He. destruct (simplify_raw (ANot v')) as [[x c]|?|?]; discriminate.
      + inversion He; subst. eapply IHa; eauto.
    - cbn [evaluate_mut] in He. unfold ev_un in He.
      destruct (evaluate_mut (fun n => Some (lk n)) ir a) as [v' e1|v' e1|p] eqn:E1; [| |discriminate].
      + unfold ev_node in He. destruct (simplify_raw (AAddr v')) as [[x c]|?|?]; discriminate.
      + inversion He; subst. eapply IHa; eauto.
    - cbn [evaluate_mut] in He. fold go_mut in He.
      destruct (go_mut l (Complete false)) as [? ?|l' er|?] eqn:Eg; try discriminate. inversion He; subst.
      eapply go_novar; [exact H|exact Eg|]. intros a Ha m Hm. apply K. cbn [idents]. apply in_flat_map. eauto.
    - cbn [evaluate_mut] in He. fold go_mut in He.
      destruct (go_mut l (Complete false)) as [? ?|l' er|?] eqn:Eg; try discriminate. inversion He; subst.
      eapply go_novar; [exact H|exact Eg|]. intros a Ha m Hm. apply K. cbn [idents]. apply in_flat_map. eauto.
  Qed.
End NoVar.

(* evaluate_mut in terms of evaluate (restating CtxProofs.evaluate_mut_agrees for rewriting) *)
Lemma mut_ok_evaluate lk ir a a' e : evaluate_mut (fun n => Some (lk n)) ir a = EvOk a' e -> evaluate lk ir a = I64.Ok (a', e).
Proof.
  intros H. pose proof (evaluate_mut_agrees lk ir a) as A. unfold agree_res in A.
  destruct (evaluate lk ir a) as [[a1 e1]|er|s].
  - rewrite H in A. inversion A. reflexivity.
  - destruct A as (x & y & A). rewrite H in A. discriminate.
  - rewrite H in A. discriminate.
Qed.
Lemma evaluate_ok_mut lk ir a a' e : evaluate lk ir a = I64.Ok (a', e) -> evaluate_mut (fun n => Some (lk n)) ir a = EvOk a' e.
Proof. intros H. pose proof (evaluate_mut_agrees lk ir a) as A. unfold agree_res in A. rewrite H in A. exact A. Qed.
