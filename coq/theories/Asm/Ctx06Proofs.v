(* C06 on the Context model (Asm/CtxModel.v): every error return is preceded by a pushed diagnostic, the pipeline's
   success / failure is reflected in the recorded diagnostics, and each invalid construct the property lists yields its
   diagnostic.  Proof file (no model definitions). *)
From Coq Require Import ZArith NArith List Bool Lia String.
From Trion Require Import Text.Types Asm.CtxModel.
From Trion Require Arm.DisplayModel Arm.AsmStmtModel Expr.EvalModel.
Import ListNotations.

(* ================= the error list only grows; `pushed` = at least one new diagnostic ================= *)
Definition ext (st st' : state) : Prop := exists l, errors st' = l ++ errors st.
Definition pushed (st st' : state) : Prop := exists d l, errors st' = d :: l ++ errors st.

Lemma ext_refl st : ext st st. Proof. exists []. reflexivity. Qed.
Lemma ext_trans a b c : ext a b -> ext b c -> ext a c.
Proof. intros [l1 H1] [l2 H2]. exists (l2 ++ l1). rewrite H2, H1, app_assoc. reflexivity. Qed.
Lemma pushed_ext a b : pushed a b -> ext a b.
Proof. intros (d & l & H). exists (d :: l). exact H. Qed.
Lemma pushed_ext_trans a b c : pushed a b -> ext b c -> pushed a c.
Proof. intros (d & l & H1) [l2 H2]. destruct l2 as [|e l2]; cbn in H2.
  - exists d, l. congruence.
  - exists e, (l2 ++ d :: l). rewrite H2, H1. cbn. rewrite <- app_assoc. reflexivity. Qed.
Lemma ext_pushed_trans a b c : ext a b -> pushed b c -> pushed a c.
Proof. intros [l1 H1] (d & l & H2). exists d, (l ++ l1). rewrite H2, H1, app_assoc. reflexivity. Qed.
Lemma pushed_nonempty a b : pushed a b -> errors b <> [].
Proof. intros (d & l & H). rewrite H. discriminate. Qed.
Lemma ext_nonempty a b : ext a b -> errors a <> [] -> errors b <> [].
Proof. intros [l H] N. rewrite H. destruct l; cbn; [exact N|discriminate]. Qed.

Lemma push_in_pushed st f l c k : pushed st (push_error_in st f l c k).
Proof. exists (mkDiag f l c k), []. reflexivity. Qed.
Lemma push_pushed st l c k : pushed st (push_error st l c k).
Proof. apply push_in_pushed. Qed.

(* same errors *)
Definition same (st st' : state) : Prop := errors st' = errors st.
Lemma same_ext a b : same a b -> ext a b. Proof. intros H. exists []. exact H. Qed.

Definition rspec (st : state) (r : result) (st' : state) : Prop :=
  ext st st' /\ (r <> None -> pushed st st').

Lemma add_task_same st t r st' : add_task st t r = Ret tt st' -> same st st'.
Proof. unfold add_task. destruct r.
  - intros H; inversion H; reflexivity.
  - destruct (local_tasks st); intros H; inversion H; reflexivity. Qed.

Lemma insert_constant_same st n v r x st' : insert_constant st n v r = Ret x st' -> same st st'.
Proof. unfold insert_constant, set_realm_table. destruct (is_register n). { intros H; inversion H; reflexivity. }
  destruct (realm_table st r); [|discriminate]. destruct (tbl_get t n) as [[?|]|]; destruct r; intros H; inversion H; reflexivity. Qed.

Lemma defer_constant_same st n r x st' : defer_constant st n r = Ret x st' -> same st st'.
Proof. unfold defer_constant, set_realm_table. destruct (is_register n). { intros H; inversion H; reflexivity. }
  destruct (realm_table st r); [|discriminate]. destruct (tbl_get t n) as [?|]; destruct r; intros H; inversion H; reflexivity. Qed.

Lemma put_stmt_spec dbg st f l c a d k p r st' : put_stmt dbg st f l c a d k p = Ret r st' -> rspec st r st'.
Proof. unfold put_stmt. destruct (Mem.MapModel.map_put dbg (output st) a d) as [[m [n|]]| |]; try discriminate.
  - destruct (n =? 0)%N; [|discriminate]. intros H; inversion H; subst. split; [exists []; reflexivity|congruence].
  - intros H; inversion H; subst. split; [apply pushed_ext|intros _]; apply push_in_pushed. Qed.

Lemma write_stmt_spec dbg st f l c a d k1 k2 p r st' : write_stmt dbg st f l c a d k1 k2 p = Ret r st' -> rspec st r st'.
Proof. unfold write_stmt. destruct (active st).
  - apply put_stmt_spec.
  - destruct (covers dbg s a) as [[|]| |]; try discriminate.
    + destruct (seg_write_at dbg s a d); try discriminate; intros H; inversion H; subst.
      * split; [exists []; reflexivity|congruence].
      * split; [apply pushed_ext|intros _]; apply push_in_pushed.
    + apply put_stmt_spec. Qed.

(* ================= tasks ================= *)
Ltac inv H := inversion H; subst; clear H.
Ltac same_tac := exists []; reflexivity.

Lemma rspec_none st st' : same st st' -> rspec st None st'.
Proof. intros H. split; [apply same_ext; exact H|congruence]. Qed.
Lemma rspec_push_in st f l c k r : rspec st r (push_error_in st f l c k).
Proof. split; [apply pushed_ext|intros _]; apply push_in_pushed. Qed.
Lemma rspec_push st l c k r : rspec st r (push_error st l c k).
Proof. apply rspec_push_in. Qed.
Lemma rspec_trans_ext a b c r : ext a b -> rspec b r c -> rspec a r c.
Proof. intros E [E2 P]. split; [eapply ext_trans; eauto|]. intros N. eapply ext_pushed_trans; eauto. Qed.
Lemma rspec_pushed_then_ext a b c r : pushed a b -> ext b c -> rspec a r c.
Proof. intros P E. split; [eapply ext_trans; [apply pushed_ext|]; eauto|intros _; eapply pushed_ext_trans; eauto]. Qed.

Lemma write_instr_spec dbg st ai d r st' : write_instr dbg st ai d = Ret r st' -> rspec st r st'.
Proof. unfold write_instr. destruct (Arm.EncodeModel.enc_bytes (ai_instr ai) 4).
  - apply write_stmt_spec.
  - intros H; inv H. apply rspec_push_in.
  - intros H; inv H. apply rspec_push_in.
Qed.

Lemma write_data_spec dbg st d data r st' : write_data dbg st d data = Ret r st' -> rspec st r st'.
Proof. apply write_stmt_spec. Qed.

(* instr_assemble: an IErr result comes with a pushed diagnostic *)
Lemma instr_assemble_spec st ai local r ai' st' :
  instr_assemble st ai local = Ret (r, ai') st' ->
  ext st st' /\ (forall l, r = IErr l -> pushed st st').
Proof. unfold instr_assemble. destruct (first_panic st _); [discriminate|].
  destruct (Arm.AsmStmtModel.assemble_args _ _ _ _ _); intros H; inv H.
  - split; [apply ext_refl|discriminate].
  - split; [apply ext_refl|discriminate].
  - split; [apply pushed_ext|intros _ _]; apply push_in_pushed.
Qed.

Lemma data_apply_spec dbg st d local r d' st' :
  data_apply dbg st d local = Ret (r, d') st' ->
  ext st st' /\ (forall l, r = DErr l -> pushed st st').
Proof. unfold data_apply. destruct (ctx_eval st (de_arg d)) as [a' [c|c cause]|a' e|p]; try discriminate.
  - destruct a'; try (intros H; inv H; split; [apply pushed_ext|intros _ _]; apply push_in_pushed).
    destruct (_ && _).
    + unfold bind. destruct (write_data _ _ _ _) as [w st1| |] eqn:W; try discriminate. intros H; inv H.
      apply write_data_spec in W. destruct W as [E P]. split; [exact E|]. destruct w; [intros _ _; apply P; congruence|discriminate].
    + intros H; inv H; split; [apply pushed_ext|intros _ _]; apply push_in_pushed.
  - intros H; inv H. split; [apply ext_refl|discriminate].
  - destruct e, local; intros H; inv H; try (split; [apply ext_refl|discriminate]);
      (split; [apply pushed_ext|intros _ _]; apply push_in_pushed).
Qed.

Lemma run_task_spec dbg st t r st' : run_task dbg st t = Ret r st' -> rspec st r st'.
Proof. destruct t as [ai g|d g|name line col|name line col]; cbn [run_task]; unfold bind.
  - destruct (instr_assemble st ai false) as [[r1 ai'] st1| |] eqn:A; try discriminate.
    apply instr_assemble_spec in A. destruct A as [E P].
    destruct r1.
    + intros W. apply write_instr_spec in W. eapply rspec_trans_ext; eauto.
    + destruct g.
      * intros H; inv H. eapply rspec_trans_ext; [exact E|apply rspec_push_in].
      * destruct (add_task st1 _ _) as [[] st2| |] eqn:T; try discriminate. intros H; inv H.
        apply add_task_same in T. split; [eapply ext_trans; [exact E|apply same_ext; exact T]|congruence].
    + intros H; inv H. split; [exact E|intros _; eapply P; reflexivity].
  - destruct (data_apply dbg st d false) as [[r1 d'] st1| |] eqn:A; try discriminate.
    apply data_apply_spec in A. destruct A as [E P].
    destruct r1.
    + intros H; inv H. split; [exact E|congruence].
    + destruct g.
      * intros H; inv H. eapply rspec_trans_ext; [exact E|apply rspec_push_in].
      * destruct (add_task st1 _ _) as [[] st2| |] eqn:T; try discriminate. intros H; inv H.
        apply add_task_same in T. split; [eapply ext_trans; [exact E|apply same_ext; exact T]|congruence].
    + intros H; inv H. split; [exact E|intros _; eapply P; reflexivity].
  - destruct (get_constant st name RLocal) as [[v| |]|]; try discriminate.
    2: { intros H; inv H. apply rspec_push. }
    2: { intros H; inv H. apply rspec_push. }
    + destruct (insert_constant st name v RGlobal) as [[b|[|]] st1| |] eqn:I; try discriminate; intros H; inv H;
        apply insert_constant_same in I.
      * apply rspec_none; exact I.
      * eapply rspec_trans_ext; [apply same_ext; exact I|apply rspec_push].
  - destruct (get_constant st name RLocal) as [[v| |]|]; try discriminate; intros H; inv H;
      try apply rspec_push; apply rspec_none; reflexivity.
Qed.

(* ================= finalize and the pipeline ================= *)
Lemma final_round_spec dbg tasks : forall st abort st',
  final_round dbg tasks st = Ret abort st' -> ext st st' /\ (abort = true -> pushed st st').
Proof. induction tasks as [|t rest IH]; intros st abort st'; cbn [final_round]; unfold bind.
  - intros H; inv H. split; [apply ext_refl|discriminate].
  - destruct (run_task dbg st t) as [x st1| |] eqn:R; try discriminate. apply run_task_spec in R. destruct R as [E P].
    destruct (res_is_fatal x) eqn:F.
    + intros H; inv H. split; [exact E|intros _; apply P]. destruct x; [discriminate|discriminate F].
    + intros H. apply IH in H. destruct H as [E2 P2]. split; [eapply ext_trans; eauto|intros A; eapply ext_pushed_trans; eauto].
Qed.

Lemma final_loop_spec dbg rounds : forall tasks st abort st',
  final_loop dbg rounds tasks st = Ret abort st' -> ext st st' /\ (abort = true -> pushed st st').
Proof. induction rounds as [|k IH]; intros tasks st abort st'; cbn [final_loop]; unfold bind.
  - destruct tasks; [|discriminate]. intros H; inv H. split; [apply ext_refl|discriminate].
  - destruct tasks as [|t0 tl]. { intros H; inv H. split; [apply ext_refl|discriminate]. }
    destruct (final_round dbg (t0 :: tl) st) as [ab st1| |] eqn:R; try discriminate.
    apply final_round_spec in R. destruct R as [E P].
    destruct ab.
    + intros H; inv H. split.
      * eapply ext_trans; [exact E|]. exists []. reflexivity.
      * intros _. eapply pushed_ext_trans; [apply P; reflexivity|]. exists []. reflexivity.
    + intros H. apply IH in H. destruct H as [E2 P2].
      assert (E1 : ext st (set_global_tasks st1 [])) by (eapply ext_trans; [exact E|exists []; reflexivity]).
      split; [eapply ext_trans; eauto|intros A; eapply ext_pushed_trans; eauto].
Qed.

Lemma finalize_spec dbg st ok st' :
  finalize dbg st = Ret ok st' -> (ok = true -> errors st' = []) /\ (ok = false -> errors st' <> []).
Proof. unfold finalize, bind.
  destruct (final_loop dbg task_rounds (global_tasks st) (set_global_tasks st [])) as [abort st1| |] eqn:L; try discriminate.
  apply final_loop_spec in L. destruct L as [E P]. intros H; inv H.
  destruct abort; cbn [orb negb].
  - split; [discriminate|intros _]. eapply pushed_nonempty. apply P. reflexivity.
  - destruct (errors st') eqn:Er; cbn [negb]; split; try discriminate; auto.
Qed.

(* C06_reported on the model: success <=> nothing recorded; failure => at least one diagnostic (a close error is its own report) *)
Theorem pipeline_reported dbg fs fuel path text s diags regions :
  pipeline_gen dbg fs fuel path text = Done s diags regions ->
  (s = Success -> diags = []) /\ (s = Failure -> diags <> []).
Proof. unfold pipeline_gen, pipeline_state, bind.
  destruct (assemble dbg fs fuel init_state text path) as [r0 st1| |]; try discriminate.
  destruct (close_segment dbg st1) as [[b|e] st2| |]; try discriminate.
  - destruct (finalize dbg st2) as [ok st3| |] eqn:F; try discriminate. apply finalize_spec in F. destruct F as [F1 F2].
    intros H; inv H. destruct ok.
    + split; [intros _; rewrite F1 by reflexivity; reflexivity|discriminate].
    + split; [discriminate|intros _ C]. apply F2; [reflexivity|]. apply (f_equal (@rev _)) in C. rewrite rev_involutive in C. exact C.
  - intros H; inv H. split; discriminate.
Qed.

(* ================= directives ================= *)
Ltac done_push := intros H; inv H; first [apply rspec_push | apply rspec_push_in].
Ltac done_same := intros H; inv H; apply rspec_none; reflexivity.

Lemma close_segment_same dbg st x st' : close_segment dbg st = Ret x st' -> same st st'.
Proof. unfold close_segment. destruct (active st); [intros H; inv H; reflexivity|].
  destruct (Mem.MapModel.map_put _ _ _ _) as [[m [n|]]| |]; try discriminate.
  - destruct (n =? blen s)%N; [|discriminate]. intros H; inv H; reflexivity.
  - intros H; inv H; reflexivity. Qed.

Lemma select_segment_same dbg st a x st' : select_segment dbg st a = Ret x st' -> same st st'.
Proof. unfold select_segment. destruct (Mem.MapModel.map_find _ _ _ _) as [r| |]; try discriminate.
  destruct (match option_map fst r with Some n => (n <=? a)%N | None => false end). { intros H; inv H; reflexivity. }
  destruct (active st); [|discriminate]. destruct (make_active _ _ _); try discriminate. intros H; inv H; reflexivity. Qed.

Lemma change_segment_same dbg st a x st' : change_segment dbg st a = Ret x st' -> same st st'.
Proof. unfold change_segment, bind. destruct (active st).
  - apply select_segment_same.
  - destruct (_ && _). { intros H; inv H; reflexivity. }
    destruct (close_segment dbg st) as [[b|e] st1| |] eqn:C; try discriminate; apply close_segment_same in C.
    + intros S. apply select_segment_same in S. unfold same in *. congruence.
    + intros H; inv H. exact C. Qed.

Lemma eval_now_spec st l c a x st' : eval_now st l c a = Ret x st' ->
  match x with inl _ => same st st' | inr _ => pushed st st' end.
Proof. unfold eval_now. destruct (ctx_eval st a) as [a' [ch|ch cause]|a' e|p]; try discriminate; intros H; inv H;
  try reflexivity; apply push_pushed. Qed.

Lemma arity_check_pushed st l c args n st' : arity_check st l c args n = Some st' -> pushed st st'.
Proof. unfold arity_check. destruct (Nat.eqb _ _); [discriminate|]. destruct (Nat.ltb _ _); intros H; inv H; apply push_pushed. Qed.

Lemma rspec_of_pushed st st' r : pushed st st' -> rspec st r st'.
Proof. intros P. split; [apply pushed_ext; exact P|intros _; exact P]. Qed.

Lemma dir_addr_spec dbg st l c args r st' : dir_addr dbg st l c args = Ret r st' -> rspec st r st'.
Proof. unfold dir_addr, bind. destruct (arity_check st l c args 1) eqn:A.
  { apply arity_check_pushed in A. intros H; inv H. apply rspec_of_pushed; exact A. }
  destruct args as [|a rest]; [discriminate|].
  destruct (eval_now st l c a) as [[a'|lv] st1| |] eqn:E; try discriminate; apply eval_now_spec in E.
  - destruct a'; try (intros H; inv H; eapply rspec_trans_ext; [apply same_ext; exact E|apply rspec_push]).
    destruct (u32_of v).
    + destruct (change_segment dbg st1 n) as [[b|e] st2| |] eqn:C; try discriminate; apply change_segment_same in C; intros H; inv H.
      * apply rspec_none. unfold same in *; congruence.
      * eapply rspec_trans_ext; [apply same_ext; unfold same in *; etransitivity; eassumption|apply rspec_push].
    + intros H; inv H. eapply rspec_trans_ext; [apply same_ext; exact E|apply rspec_push].
  - intros H; inv H. apply rspec_of_pushed; exact E.
Qed.

Lemma seg_update_spec st l c x r st' : seg_update st l c x = Ret r st' -> rspec st r st'.
Proof. unfold seg_update. destruct x; try discriminate; [done_same|done_push]. Qed.

Lemma dir_align_spec dbg st l c args r st' : dir_align dbg st l c args = Ret r st' -> rspec st r st'.
Proof. unfold dir_align, bind. destruct (active st); [done_push|].
  destruct (arity_check st l c args 1) eqn:A.
  { apply arity_check_pushed in A. intros H; inv H. apply rspec_of_pushed; exact A. }
  destruct args as [|a rest]; [discriminate|].
  destruct (eval_now st l c a) as [[a'|lv] st1| |] eqn:E; try discriminate; apply eval_now_spec in E.
  - destruct a'; try (intros H; inv H; eapply rspec_trans_ext; [apply same_ext; exact E|apply rspec_push]).
    destruct (u32_of v) as [[|p]|]; try (intros H; inv H; eapply rspec_trans_ext; [apply same_ext; exact E|apply rspec_push]).
    destruct (_ =? 0)%N. { intros H; inv H. apply rspec_none; exact E. }
    destruct (has_remaining _ _ _) as [[|]| |]; try discriminate.
    + intros H. apply seg_update_spec in H. eapply rspec_trans_ext; [apply same_ext; exact E|exact H].
    + intros H; inv H; eapply rspec_trans_ext; [apply same_ext; exact E|apply rspec_push].
  - intros H; inv H. apply rspec_of_pushed; exact E.
Qed.

Lemma dir_const_spec st l c args r st' : dir_const st l c args = Ret r st' -> rspec st r st'.
Proof. unfold dir_const, bind. destruct (arity_check st l c args 2) eqn:A.
  { apply arity_check_pushed in A. intros H; inv H. apply rspec_of_pushed; exact A. }
  destruct args as [|a0 [|a1 rest]]; try discriminate.
  destruct a0; try done_push.
  destruct (eval_now st l c a1) as [[a'|lv] st1| |] eqn:E; try discriminate; apply eval_now_spec in E.
  - destruct a'; try (intros H; inv H; eapply rspec_trans_ext; [apply same_ext; exact E|apply rspec_push]).
    destruct (insert_constant st1 s v RLocal) as [[b|[|]] st2| |] eqn:I; try discriminate; apply insert_constant_same in I; intros H; inv H.
    + apply rspec_none. unfold same in *; congruence.
    + eapply rspec_trans_ext; [apply same_ext; unfold same in *; etransitivity; eassumption|apply rspec_push].
    + eapply rspec_trans_ext; [apply same_ext; unfold same in *; etransitivity; eassumption|apply rspec_push].
  - intros H; inv H. apply rspec_of_pushed; exact E.
Qed.

Lemma dir_data_spec dbg st l c k args r st' : dir_data dbg st l c k args = Ret r st' -> rspec st r st'.
Proof. unfold dir_data, bind. destruct (active st); [done_push|].
  destruct (has_remaining _ _ _) as [[|]| |]; try discriminate; [|done_push].
  destruct (arity_check st l c args 1) eqn:A.
  { apply arity_check_pushed in A. intros H; inv H. apply rspec_of_pushed; exact A. }
  destruct args as [|a rest]; [discriminate|].
  destruct (data_apply _ _ _ _) as [[r1 d'] st1| |] eqn:D; try discriminate. apply data_apply_spec in D. destruct D as [E P].
  assert (G : forall st2 r2, rspec st1 r2 st2 -> rspec st r2 st2) by (intros; eapply rspec_trans_ext; eauto).
  destruct r1.
  - intros H; inv H. split; [exact E|congruence].
  - destruct (write_data _ _ _ _) as [w st2| |] eqn:W; try discriminate. apply write_data_spec in W.
    destruct w; [intros H; inv H; apply G; exact W|].
    destruct (add_task st2 _ _) as [[] st3| |] eqn:T; try discriminate. apply add_task_same in T. intros H; inv H.
    split; [|congruence]. eapply ext_trans; [exact E|]. eapply ext_trans; [apply W|apply same_ext; exact T].
  - destruct (write_data _ _ _ _) as [w st2| |] eqn:W; try discriminate. apply write_data_spec in W.
    destruct w; [intros H; inv H; apply G; exact W|].
    destruct (add_task st2 _ _) as [[] st3| |] eqn:T; try discriminate. apply add_task_same in T. intros H; inv H.
    split; [|congruence]. eapply ext_trans; [exact E|]. eapply ext_trans; [apply W|apply same_ext; exact T].
Qed.

Lemma dir_bytes_spec dbg fs st l c d args r st' : dir_bytes dbg fs st l c d args = Ret r st' -> rspec st r st'.
Proof. unfold dir_bytes. destruct (active st); [done_push|].
  destruct (arity_check st l c args 1) eqn:A.
  { apply arity_check_pushed in A. intros H; inv H. apply rspec_of_pushed; exact A. }
  destruct args as [|a rest]; [discriminate|].
  destruct a; try done_push.
  destruct d; try apply seg_update_spec.
  - destruct (hex_decode _ _ _); try done_push. apply seg_update_spec.
  - destruct (path_stack st); [discriminate|]. destruct (fs _); [|done_push].
    destruct (has_remaining _ _ _) as [[|]| |]; try discriminate; [apply seg_update_spec|done_push].
Qed.

Lemma dir_global_spec st l c d args r st' : dir_global st l c d args = Ret r st' -> rspec st r st'.
Proof. unfold dir_global, bind. destruct (arity_check st l c args 1) eqn:A.
  { apply arity_check_pushed in A. intros H; inv H. apply rspec_of_pushed; exact A. }
  destruct args as [|a rest]; [discriminate|].
  destruct a; try done_push.
  assert (X : forall (b : bool) (ex := b),
    match get_constant st s (if ex then RLocal else RGlobal) with
    | Some EvalModel.NotFound => Ret (Some Fatal) (push_error st l c (KApply AGNotFound))
    | Some EvalModel.LDeferred =>
        if ex then Ret (Some Fatal) (push_error st l c (KApply AGDeferred))
        else bind (defer_constant st s (if ex then RGlobal else RLocal)) (fun r0 st1 =>
             match r0 with
             | inl _ => bind (add_task st1 (ImportCheckTask s l c) RLocal) (fun _ st2 => Ret None st2)
             | inr CDuplicate => Ret (Some Fatal) (push_error st1 l c (KApply AGDuplicate))
             | inr CReserved => Panic P_global_unreachable
             end)
    | Some (EvalModel.Found v) =>
        bind (insert_constant st s v (if ex then RGlobal else RLocal)) (fun r0 st1 =>
             match r0 with
             | inl _ => Ret None st1
             | inr CDuplicate => Ret (Some Fatal) (push_error st1 l c (KApply AGDuplicate))
             | inr CReserved => Panic P_global_unreachable
             end)
    | None => Panic P_no_local_scope
    end = Ret r st' -> rspec st r st').
  { intros b ex. unfold bind. destruct (get_constant st s _) as [[v| |]|]; try discriminate.
    - destruct (insert_constant _ _ _ _) as [[b0|[|]] st1| |] eqn:I; try discriminate; apply insert_constant_same in I; intros H; inv H.
      + apply rspec_none; exact I.
      + eapply rspec_trans_ext; [apply same_ext; exact I|apply rspec_push].
    - destruct ex; [done_push|].
      destruct (defer_constant _ _ _) as [[u|[|]] st1| |] eqn:I; try discriminate; apply defer_constant_same in I.
      + destruct (add_task st1 _ _) as [[] st2| |] eqn:T; try discriminate. apply add_task_same in T. intros H; inv H.
        apply rspec_none. unfold same in *; congruence.
      + intros H; inv H. eapply rspec_trans_ext; [apply same_ext; exact I|apply rspec_push].
    - done_push. }
  destruct d; try (apply (X true)); try (apply (X false)).
  (* .global *)
  destruct (defer_constant st s RGlobal) as [[u|[|]] st1| |] eqn:D; try discriminate; apply defer_constant_same in D.
  - destruct (get_constant st1 s RLocal) as [[v| |]|]; try discriminate.
    + destruct (insert_constant st1 s v RGlobal) as [[[|]|e] st2| |] eqn:I; try discriminate. apply insert_constant_same in I.
      intros H; inv H. apply rspec_none. unfold same in *; congruence.
    + destruct (add_task st1 _ _) as [[] st3| |] eqn:T; try discriminate. apply add_task_same in T. intros H; inv H.
      apply rspec_none. unfold same in *; congruence.
    + destruct (defer_constant st1 s RLocal) as [[u2|e] st2| |] eqn:D2; try discriminate. apply defer_constant_same in D2.
      destruct (add_task st2 _ _) as [[] st3| |] eqn:T; try discriminate. apply add_task_same in T. intros H; inv H.
      apply rspec_none. unfold same in *; congruence.
  - intros H; inv H. eapply rspec_trans_ext; [apply same_ext; exact D|apply rspec_push].
  - intros H; inv H. eapply rspec_trans_ext; [apply same_ext; exact D|apply rspec_push].
Qed.

(* ================= statements, files, include recursion ================= *)
Definition inc_ok (inc : state -> list N -> str -> res result) : Prop :=
  forall st data path r st', inc st data path = Ret r st' -> rspec st r st'.

Lemma dir_include_spec fs inc st l c args r st' : inc_ok inc ->
  dir_include fs inc st l c args = Ret r st' -> rspec st r st'.
Proof. intros IO. unfold dir_include, bind. destruct (arity_check st l c args 1) eqn:A.
  { apply arity_check_pushed in A. intros H; inv H. apply rspec_of_pushed; exact A. }
  destruct args as [|a rest]; [discriminate|].
  destruct a; try done_push.
  destruct (existsb _ _); [done_push|].
  destruct (fs _); [|done_push].
  destruct (inc st _ _) as [r1 st1| |] eqn:I; try discriminate. apply IO in I. destruct I as [E P].
  destruct r1; intros H; inv H.
  - eapply rspec_trans_ext; [exact E|apply rspec_push].
  - split; [exact E|congruence].
Qed.

Lemma assemble_instr_spec dbg st l c name args r st' : assemble_instr dbg st l c name args = Ret r st' -> rspec st r st'.
Proof. unfold assemble_instr, bind. destruct (active st); [discriminate|].
  destruct (has_remaining _ _ _) as [[|]| |]; try discriminate; [|done_push].
  destruct (Arm.AsmStmtModel.template name); [|done_push].
  destruct (instr_assemble _ _ _) as [[r1 ai'] st1| |] eqn:A; try discriminate. apply instr_assemble_spec in A. destruct A as [E P].
  assert (G : forall st2 r2, rspec st1 r2 st2 -> rspec st r2 st2) by (intros; eapply rspec_trans_ext; eauto).
  destruct r1.
  - intros W. apply write_instr_spec in W. apply G; exact W.
  - destruct (write_instr _ _ _ _) as [w st2| |] eqn:W; try discriminate. apply write_instr_spec in W.
    destruct w; [intros H; inv H; apply G; exact W|].
    destruct (add_task st2 _ _) as [[] st3| |] eqn:T; try discriminate. apply add_task_same in T. intros H; inv H.
    split; [|congruence]. eapply ext_trans; [exact E|]. eapply ext_trans; [apply W|apply same_ext; exact T].
  - destruct (write_instr _ _ _ _) as [w st2| |] eqn:W; try discriminate. apply write_instr_spec in W.
    destruct w; [intros H; inv H; apply G; exact W|].
    destruct (add_task st2 _ _) as [[] st3| |] eqn:T; try discriminate. apply add_task_same in T. intros H; inv H.
    split; [|congruence]. eapply ext_trans; [exact E|]. eapply ext_trans; [apply W|apply same_ext; exact T].
Qed.

Lemma process_directive_spec dbg fs inc st l c name args r st' : inc_ok inc ->
  process_directive dbg fs inc st l c name args = Ret r st' -> rspec st r st'.
Proof. intros IO. unfold process_directive. destruct (dir_of name) as [[]|]; try done_push;
  eauto using dir_addr_spec, dir_align_spec, dir_const_spec, dir_data_spec, dir_bytes_spec, dir_global_spec, dir_include_spec.
Qed.

Lemma step_spec dbg fs inc st e r st' : inc_ok inc -> step dbg fs inc st e = Ret r st' -> rspec st r st'.
Proof. intros IO. unfold step, bind. destruct (e_val e).
  - destruct (active st); [done_push|].
    destruct (insert_constant _ _ _ _) as [[b|[|]] st1| |] eqn:I; try discriminate; apply insert_constant_same in I; intros H; inv H.
    + apply rspec_none; exact I.
    + eapply rspec_trans_ext; [apply same_ext; exact I|apply rspec_push].
    + eapply rspec_trans_ext; [apply same_ext; exact I|apply rspec_push].
  - eauto using process_directive_spec.
  - destruct (active st); [done_push|]. apply assemble_instr_spec.
Qed.

Lemma run_items_spec dbg fs inc items : inc_ok inc -> forall st r st',
  run_items dbg fs inc items st = Ret r st' -> rspec st r st'.
Proof. intros IO. induction items as [|i rest IH]; intros st r st'; cbn [run_items]; unfold bind.
  - done_same.
  - destruct i; [|done_push].
    destruct (step dbg fs inc st e) as [r1 st1| |] eqn:S; try discriminate. apply step_spec in S; [|exact IO].
    destruct r1.
    + intros H; inv H. exact S.
    + intros H. apply IH in H. eapply rspec_trans_ext; [apply S|exact H].
Qed.

Lemma do_assemble_spec dbg fs inc st data r st' : inc_ok inc -> do_assemble dbg fs inc st data = Ret r st' -> rspec st r st'.
Proof. intros IO. unfold do_assemble, bind. destruct (parse_source data).
  destruct (run_items _ _ _ _ _) as [r1 st1| |] eqn:R; try discriminate. apply run_items_spec in R; [|exact IO].
  destruct r1; [intros H; inv H; exact R|]. destruct tail as [[p|]|]; try discriminate. intros H; inv H. exact R.
Qed.

(* the task rounds keep the level of earlier errors: r <> None -> something was pushed (before or now) *)
Lemma local_round_spec dbg tasks : forall st r r' st',
  local_round dbg tasks st r = Ret r' st' -> ext st st' /\ (r' <> None -> r = None -> pushed st st').
Proof. induction tasks as [|t rest IH]; intros st r r' st'; cbn [local_round]; unfold bind.
  - intros H; inv H. split; [apply ext_refl|congruence].
  - destruct (run_task dbg st t) as [x st1| |] eqn:R; try discriminate. apply run_task_spec in R. destruct R as [E P].
    destruct x as [lvl|].
    + assert (PP : pushed st st1) by (apply P; congruence).
      destruct (is_fatal lvl).
      * intros H; inv H. split; [exact E|intros _ _; exact PP].
      * intros H. apply IH in H. destruct H as [E2 _]. split; [eapply ext_trans; eauto|intros _ _; eapply pushed_ext_trans; eauto].
    + intros H. apply IH in H. destruct H as [E2 P2]. split; [eapply ext_trans; eauto|intros A B; eapply ext_pushed_trans; eauto].
Qed.

Lemma local_loop_spec dbg rounds : forall tasks st r r' st',
  local_loop dbg rounds tasks st r = Ret r' st' -> ext st st' /\ (r' <> None -> r = None -> pushed st st').
Proof. induction rounds as [|k IH]; intros tasks st r r' st'; cbn [local_loop]; unfold bind.
  - destruct tasks; [|discriminate]. intros H; inv H. split; [apply ext_refl|congruence].
  - destruct tasks as [|t0 tl]. { intros H; inv H. split; [apply ext_refl|congruence]. }
    destruct (local_round dbg (t0 :: tl) st r) as [r1 st1| |] eqn:R; try discriminate.
    apply local_round_spec in R. destruct R as [E P].
    destruct (local_tasks st1); [|discriminate].
    assert (E1 : ext st (set_local_tasks st1 (Some []))) by (eapply ext_trans; [exact E|exists []; reflexivity]).
    destruct (res_is_fatal r1).
    + intros H; inv H. split; [exact E1|]. intros A B. eapply pushed_ext_trans; [apply P; assumption|exists []; reflexivity].
    + intros H. apply IH in H. destruct H as [E2 P2]. split; [eapply ext_trans; eauto|].
      intros A B. destruct r1 as [l1|].
      * eapply pushed_ext_trans; [eapply pushed_ext_trans; [apply P; [congruence|exact B]|exists []; reflexivity]|exact E2].
      * eapply ext_pushed_trans; [exact E1|apply P2; [exact A|reflexivity]].
Qed.

Lemma enter_file_same st path st0 fr : enter_file st path = (st0, fr) -> same st st0.
Proof. unfold enter_file. intros H; inv H. reflexivity. Qed.
Lemma leave_file_same st fr u st' : leave_file st fr = Ret u st' -> same st st'.
Proof. unfold leave_file. destruct (negb _); [discriminate|]. destruct (path_stack st); [discriminate|]. intros H; inv H. reflexivity. Qed.

Lemma assemble_body_spec dbg fs inc st data path r st' : inc_ok inc ->
  assemble_body dbg fs inc st data path = Ret r st' -> rspec st r st'.
Proof. intros IO. unfold assemble_body, bind. destruct (enter_file st path) as [st0 fr] eqn:EF. apply enter_file_same in EF.
  destruct (do_assemble dbg fs inc st0 data) as [r1 st1| |] eqn:D; try discriminate. apply do_assemble_spec in D; [|exact IO].
  destruct D as [E1 P1].
  assert (X : forall r2 st2, (if res_is_fatal r1 then Ret r1 st1
            else match local_tasks st1 with None => Panic P_local_tasks_unwrap
                 | Some tasks => local_loop dbg task_rounds tasks (set_local_tasks st1 (Some [])) r1 end) = Ret r2 st2 ->
          rspec st0 r2 st2).
  { intros r2 st2. destruct (res_is_fatal r1).
    - intros H; inv H. split; assumption.
    - destruct (local_tasks st1); [|discriminate]. intros H. apply local_loop_spec in H. destruct H as [E2 P2].
      assert (E0 : ext st0 (set_local_tasks st1 (Some []))) by (eapply ext_trans; [exact E1|exists []; reflexivity]).
      split; [eapply ext_trans; eauto|]. intros A. destruct r1 as [l1|].
      + eapply pushed_ext_trans; [eapply pushed_ext_trans; [apply P1; congruence|exists []; reflexivity]|exact E2].
      + eapply ext_pushed_trans; [exact E0|apply P2; [exact A|reflexivity]]. }
  destruct (if res_is_fatal r1 then _ else _) as [r2 st2| |] eqn:L0; try discriminate. pose proof (X _ _ eq_refl) as L.
  destruct (leave_file st2 fr) as [[] st3| |] eqn:LF; try discriminate. apply leave_file_same in LF. intros H; inv H.
  eapply rspec_trans_ext; [apply same_ext; exact EF|].
  destruct L as [E P]. split; [eapply ext_trans; [exact E|apply same_ext; exact LF]|].
  intros A. eapply pushed_ext_trans; [apply P; exact A|apply same_ext; exact LF].
Qed.

(* every Err return of Context::assemble is preceded by a pushed diagnostic *)
Theorem assemble_reported dbg fs fuel : forall st data path r st',
  assemble dbg fs fuel st data path = Ret r st' -> rspec st r st'.
Proof. induction fuel as [|f IH]; intros st data path r st'; cbn [assemble]; [discriminate|].
  apply assemble_body_spec. exact IH. Qed.

Lemma step_reported dbg fs fuel st e r st' :
  step dbg fs (assemble dbg fs fuel) st e = Ret r st' -> rspec st r st'.
Proof. apply step_spec. intros ? ? ? ? ?. apply assemble_reported. Qed.

(* ================= the invalid constructs the property lists ================= *)
Open Scope N_scope.
(* ---- register name as constant ---- *)
Lemma insert_reserved st n v r : is_register n = true -> insert_constant st n v r = Ret (inr CReserved) st.
Proof. unfold insert_constant. intros ->. reflexivity. Qed.
Lemma defer_reserved st n r : is_register n = true -> defer_constant st n r = Ret (inr CReserved) st.
Proof. unfold defer_constant. intros ->. reflexivity. Qed.

Lemma label_register dbg fs inc st s l c n : is_register n = true -> active st = Active s ->
  step dbg fs inc st (mkElement l c (ELabel n)) = Ret (Some Fatal) (push_error st l c KConstReserved).
Proof. intros R A. unfold step. cbn [e_val e_line e_col]. rewrite A. unfold bind. rewrite insert_reserved by exact R. reflexivity. Qed.

Lemma global_register st l c n : is_register n = true ->
  dir_global st l c DGlobal [AIdent n] = Ret (Some Fatal) (push_error st l c (KApply AConstReserved)).
Proof. intros R. unfold dir_global. cbn [arity_check List.length Nat.eqb]. unfold bind. rewrite defer_reserved by exact R. reflexivity. Qed.

Lemma eval_const st v : ctx_eval st (AConst v) = EvOk (AConst v) (EvalModel.Complete false).
Proof. reflexivity. Qed.

Lemma const_register st l c n v : is_register n = true ->
  dir_const st l c [AIdent n; AConst v] = Ret (Some Fatal) (push_error st l c (KApply AConstReserved)).
Proof. intros R. unfold dir_const. cbn [arity_check List.length Nat.eqb]. unfold bind, eval_now. rewrite eval_const.
  rewrite insert_reserved by exact R. reflexivity. Qed.

(* ---- wrong argument count ---- *)
Definition argc_class (have need : nat) : dclass := if Nat.ltb have need then KDirNotEnough else KDirTooMany.
Lemma arity_bad st l c args n : List.length args <> n ->
  arity_check st l c args n = Some (push_error st l c (argc_class (List.length args) n)).
Proof. intros H. unfold arity_check, argc_class. destruct (Nat.eqb_spec (List.length args) n); [contradiction|].
  destruct (Nat.ltb _ _); reflexivity. Qed.

Lemma addr_argc dbg st l c args : List.length args <> 1%nat ->
  dir_addr dbg st l c args = Ret (Some Trivial) (push_error st l c (argc_class (List.length args) 1)).
Proof. intros H. unfold dir_addr. rewrite arity_bad by exact H. reflexivity. Qed.
Lemma const_argc st l c args : List.length args <> 2%nat ->
  dir_const st l c args = Ret (Some Trivial) (push_error st l c (argc_class (List.length args) 2)).
Proof. intros H. unfold dir_const. rewrite arity_bad by exact H. reflexivity. Qed.
Lemma global_argc st l c d args : List.length args <> 1%nat ->
  dir_global st l c d args = Ret (Some Trivial) (push_error st l c (argc_class (List.length args) 1)).
Proof. intros H. unfold dir_global. rewrite arity_bad by exact H. reflexivity. Qed.
Lemma include_argc fs inc st l c args : List.length args <> 1%nat ->
  dir_include fs inc st l c args = Ret (Some Trivial) (push_error st l c (argc_class (List.length args) 1)).
Proof. intros H. unfold dir_include. rewrite arity_bad by exact H. reflexivity. Qed.
Lemma align_argc dbg st s l c args : active st = Active s -> List.length args <> 1%nat ->
  dir_align dbg st l c args = Ret (Some Trivial) (push_error st l c (argc_class (List.length args) 1)).
Proof. intros A H. unfold dir_align. rewrite A, arity_bad by exact H. reflexivity. Qed.
Lemma bytes_argc dbg fs st s l c d args : active st = Active s -> List.length args <> 1%nat ->
  dir_bytes dbg fs st l c d args = Ret (Some Trivial) (push_error st l c (argc_class (List.length args) 1)).
Proof. intros A H. unfold dir_bytes. rewrite A, arity_bad by exact H. reflexivity. Qed.
Lemma data_argc dbg st s l c k args : active st = Active s -> has_remaining dbg s (dk_size k) = SOk true -> List.length args <> 1%nat ->
  dir_data dbg st l c k args = Ret (Some Trivial) (push_error st l c (argc_class (List.length args) 1)).
Proof. intros A R H. unfold dir_data. rewrite A, R, arity_bad by exact H. reflexivity. Qed.

(* ---- wrong argument kind (the directives that take a name or a string) ---- *)
Lemma global_kind st l c d a : (forall n, a <> AIdent n) ->
  dir_global st l c d [a] = Ret (Some Trivial) (push_error st l c KDirArgType).
Proof. intros H. unfold dir_global. cbn [arity_check List.length Nat.eqb]. destruct a; try reflexivity. exfalso. eapply H. reflexivity. Qed.
Lemma include_kind fs inc st l c a : (forall n, a <> AStr n) ->
  dir_include fs inc st l c [a] = Ret (Some Trivial) (push_error st l c KDirArgType).
Proof. intros H. unfold dir_include. cbn [arity_check List.length Nat.eqb]. destruct a; try reflexivity. exfalso. eapply H. reflexivity. Qed.
Lemma const_kind st l c a0 a1 : (forall n, a0 <> AIdent n) ->
  dir_const st l c [a0; a1] = Ret (Some Trivial) (push_error st l c KDirArgType).
Proof. intros H. unfold dir_const. cbn [arity_check List.length Nat.eqb]. destruct a0; try reflexivity. exfalso. eapply H. reflexivity. Qed.
Lemma bytes_kind dbg fs st s l c d a : active st = Active s -> (forall n, a <> AStr n) ->
  dir_bytes dbg fs st l c d [a] = Ret (Some Trivial) (push_error st l c KDirArgType).
Proof. intros A H. unfold dir_bytes. rewrite A. cbn [arity_check List.length Nat.eqb]. destruct a; try reflexivity. exfalso. eapply H. reflexivity. Qed.

(* ---- unknown directive / mnemonic ---- *)
Lemma unknown_directive dbg fs inc st l c name args : dir_of name = None ->
  process_directive dbg fs inc st l c name args = Ret (Some Fatal) (push_error st l c KDirNotFound).
Proof. intros H. unfold process_directive. rewrite H. reflexivity. Qed.
Lemma unknown_mnemonic dbg st s l c name args : active st = Active s -> has_remaining dbg s 2 = SOk true ->
  AsmStmtModel.template name = None ->
  assemble_instr dbg st l c name args = Ret (Some Fatal) (push_error st l c (KInstr AsmStmtModel.DNotFound)).
Proof. intros A R T. unfold assemble_instr. rewrite A, R, T. reflexivity. Qed.

(* ---- writes before any .addr ---- *)
Lemma label_inactive dbg fs inc st l c n : active st = Inactive ->
  step dbg fs inc st (mkElement l c (ELabel n)) = Ret (Some Fatal) (push_error st l c KInactive).
Proof. intros A. unfold step. cbn [e_val e_line e_col]. rewrite A. reflexivity. Qed.
Lemma instr_inactive dbg fs inc st l c n args : active st = Inactive ->
  step dbg fs inc st (mkElement l c (EInstruction n args)) = Ret (Some Fatal) (push_error st l c KInactive).
Proof. intros A. unfold step. cbn [e_val e_line e_col]. rewrite A. reflexivity. Qed.
Lemma data_inactive dbg st l c k args : active st = Inactive ->
  dir_data dbg st l c k args = Ret (Some Fatal) (push_error st l c (KApply ADataInactive)).
Proof. intros A. unfold dir_data. rewrite A. reflexivity. Qed.
Lemma bytes_inactive dbg fs st l c d args : active st = Inactive ->
  dir_bytes dbg fs st l c d args = Ret (Some Fatal) (push_error st l c (KApply ADataInactive)).
Proof. intros A. unfold dir_bytes. rewrite A. reflexivity. Qed.
Lemma align_inactive dbg st l c args : active st = Inactive ->
  dir_align dbg st l c args = Ret (Some Fatal) (push_error st l c (KApply AAlignInactive)).
Proof. intros A. unfold dir_align. rewrite A. reflexivity. Qed.

(* ---- duplicate symbol ---- *)
Lemma insert_duplicate st n v w t : is_register n = false -> locals st = Some t -> tbl_get t n = Some (Some w) ->
  insert_constant st n v RLocal = Ret (inr CDuplicate) st.
Proof. intros R L G. unfold insert_constant. rewrite R. cbn [realm_table]. rewrite L, G. reflexivity. Qed.
Lemma label_duplicate dbg fs inc st s l c n w t : is_register n = false -> active st = Active s -> locals st = Some t ->
  tbl_get t n = Some (Some w) ->
  step dbg fs inc st (mkElement l c (ELabel n)) = Ret (Some Fatal) (push_error st l c KConstDuplicate).
Proof. intros R A L G. unfold step. cbn [e_val e_line e_col]. rewrite A. unfold bind. erewrite insert_duplicate by eassumption. reflexivity. Qed.
Lemma const_duplicate st l c n v w t : is_register n = false -> locals st = Some t -> tbl_get t n = Some (Some w) ->
  dir_const st l c [AIdent n; AConst v] = Ret (Some Fatal) (push_error st l c (KApply AConstDup)).
Proof. intros R L G. unfold dir_const. cbn [arity_check List.length Nat.eqb]. unfold bind, eval_now. rewrite eval_const.
  erewrite insert_duplicate by eassumption. reflexivity. Qed.

(* ---- out-of-range values ---- *)
Lemma data_range dbg st d v local : de_arg d = AConst v -> (v < 0 \/ dk_max (de_kind d) < v)%Z ->
  exists d', data_apply dbg st d local = Ret (DErr Trivial, d') (push_error_in st (de_file d) (de_line d) (de_col d) (KApply ADataRange)).
Proof. intros A R. unfold data_apply. rewrite A, eval_const.
  replace ((0 <=? v)%Z && (v <=? dk_max (de_kind d))%Z) with false by (symmetry; apply andb_false_iff; destruct R; [left; apply Z.leb_gt|right; apply Z.leb_gt]; lia).
  eexists. reflexivity. Qed.
Lemma align_range dbg st s l c v : active st = Active s -> (v <= 0 \/ 4294967296 <= v)%Z ->
  dir_align dbg st l c [AConst v] = Ret (Some Fatal) (push_error st l c (KApply AAlignRange)).
Proof. intros A R. unfold dir_align. rewrite A. cbn [arity_check List.length Nat.eqb]. unfold bind, eval_now. rewrite eval_const.
  unfold u32_of, AsmStmtModel.u32_of.
  destruct ((0 <=? v)%Z && (v <=? 4294967295)%Z) eqn:E.
  - apply andb_true_iff in E. destruct E as [E1 E2]. apply Z.leb_le in E1. apply Z.leb_le in E2.
    assert (v = 0%Z) by lia. subst v. reflexivity.
  - reflexivity. Qed.
Lemma addr_range dbg st l c v : (v < 0 \/ 4294967296 <= v)%Z ->
  dir_addr dbg st l c [AConst v] = Ret (Some Fatal) (push_error st l c (KApply AAddrRange)).
Proof. intros R. unfold dir_addr. cbn [arity_check List.length Nat.eqb]. unfold bind, eval_now. rewrite eval_const.
  unfold u32_of, AsmStmtModel.u32_of.
  replace ((0 <=? v)%Z && (v <=? 4294967295)%Z) with false by (symmetry; apply andb_false_iff; destruct R; [left; apply Z.leb_gt|right; apply Z.leb_gt]; lia).
  reflexivity. Qed.

(* ---- undefined symbol: the end-of-file retry of `.duN x` with x unknown in the file's table ---- *)
Lemma undefined_symbol dbg st d g x t : de_arg d = AIdent x -> is_register x = false -> path_stack st <> [] ->
  locals st = Some t -> tbl_get t x = None ->
  exists d', run_task dbg st (DataTask d g) = Ret (Some Trivial) (push_error_in st (de_file d') (de_line d') (de_col d') (KApply AEval)).
Proof. intros A R P L G. cbn [run_task]. unfold bind, data_apply. rewrite A.
  assert (E : ctx_eval st (AIdent x) = EvErr (AIdent x) (EENoVar x)).
  { unfold ctx_eval. cbn [evaluate_mut]. rewrite R. cbn [negb].
    unfold ctx_lookup, get_constant, eval_realm. destruct (path_stack st); [contradiction|]. cbn [realm_table]. rewrite L.
    unfold lookup_of. rewrite G. reflexivity. }
  rewrite E. eexists (de_set_arg d (AIdent x)). reflexivity. Qed.

(* ---- whole-pipeline examples: every listed construct, run through tokenizer, parser and Context ---- *)
Definition run1 (s : string) : option (status * list dclass) :=
  match pipeline (fun _ => None) (DisplayModel.bytes_of_string "p.asm") (DisplayModel.bytes_of_string s) with
  | Done st d _ => Some (st, map d_class d)
  | _ => None
  end.

Lemma pipeline_examples :
  run1 ".const R0, 5;" = Some (Failure, [KApply AConstReserved]) /\
  run1 ".global sp;" = Some (Failure, [KApply AConstReserved]) /\
  run1 ".import R0;" = Some (Failure, [KApply AGNotFound]) /\
  run1 ".export PC;" = Some (Failure, [KApply AGNotFound]) /\
  run1 ".addr 256; R0:" = Some (Failure, [KConstReserved]) /\
  run1 ".addr;" = Some (Failure, [KDirNotEnough]) /\
  run1 ".const X, 1, 2;" = Some (Failure, [KDirTooMany]) /\
  run1 ".addr 256; NOP R0;" = Some (Failure, [KInstr AsmStmtModel.DTooMany; KInstr AsmStmtModel.DTooMany]) /\
  run1 ".include 5;" = Some (Failure, [KDirArgType]) /\
  run1 ".addr 256; FOO;" = Some (Failure, [KInstr AsmStmtModel.DNotFound]) /\
  run1 ".bar;" = Some (Failure, [KDirNotFound]) /\
  run1 ".addr 256; .du8 256;" = Some (Failure, [KApply ADataRange; KApply ADataRange]) /\
  run1 ".addr 256; .du16 0 - 1;" = Some (Failure, [KApply ADataRange; KApply ADataRange]) /\
  run1 ".addr 256; .align 0;" = Some (Failure, [KApply AAlignRange]) /\
  run1 ".addr 256; B 256 + 4 + 2048;" = Some (Failure, [KInstr AsmStmtModel.DRange; KInstr AsmStmtModel.DRange]) /\
  run1 ".addr 256; .du32 UNDEF;" = Some (Failure, [KApply AEval]) /\
  run1 ".addr 256; L: NOP; L:" = Some (Failure, [KConstDuplicate]) /\
  run1 ".const K, 1; .const K, 2;" = Some (Failure, [KApply AConstDup]) /\
  run1 "NOP;" = Some (Failure, [KInactive]) /\
  run1 ".du8 1;" = Some (Failure, [KApply ADataInactive]) /\
  run1 ".include ""p.asm"";" = Some (Failure, [KApply AIncRecursive]) /\
  run1 ".addr 256; X: .global X; .du32 X;" = Some (Success, []).
Proof. vm_compute. repeat split. Qed.
