(* C05 oracle, extension of Asm/LayoutSpec.v to programs with file scopes: `.global`, `.import`, `.export`, `.include`.
   Spec file: executable, no proofs.  Used only by the correspondence driver (ocaml/drv_C13.ml); the proof files
   Asm/Layout*.v are about LayoutSpec.layout_spec, with which this oracle coincides on programs without these four
   directives (the driver checks that on every case).

   The reference layout stays a two-pass one:
   pass 1  walks the statements of the root file, entering an included file where `.include` stands (the current
           address carries over), and keeps one symbol table per file instance:
               BVal v  the name has the value v                  (label, .const, or `.import` of a valued name)
               BDecl   declared by `.global`, value still to come (label / .const later in the same file)
               BImp    `.import` of a name that the includer has only declared so far: its value is the includer's
           `.global n` / `.export n` hand the value of n to the including file (at once when it is known, at the end of
           the file otherwise); directives that need a value at once (`.addr`, `.align`, `.const`) see BVal entries only;
   pass 2  evaluates every value expression in the FINAL table of its file instance (Expr/Denote.den64) and produces
           the statement's bytes exactly as LayoutSpec.pass2_item does.
   None = outside the oracle's domain (a diagnostic is expected). *)
From Coq Require Import ZArith NArith List Bool Ascii String.
From Trion Require Import Text.Types Expr.I64 Expr.EvalModel Expr.Denote Arm.Instr Arm.DisplayModel Arm.AsmStmtModel Arm.EncodeModel Asm.LayoutSpec.
Import ListNotations.
Open Scope N_scope.

Inductive bind := BVal (v : Z) | BDecl | BImp.
Definition senv := list (str * bind).          (* newest entry first *)

Fixpoint sget (e : senv) (n : str) : option bind :=
  match e with [] => None | (k, b) :: r => if str_eqb k n then Some b else sget r n end.

(* the names that have a value so far *)
Fixpoint vals (e : senv) : env :=
  match e with [] => [] | (k, BVal v) :: r => (k, v) :: vals r | _ :: r => vals r end.

(* one file instance: identifier, table, names declared by `.global` whose value goes to the includer at the end *)
Record frame := mkFrame { f_id : N; f_env : senv; f_glob : list str }.
Definition set_env (f : frame) (e : senv) : frame := mkFrame (f_id f) e (f_glob f).

Record px := mkPx {
  x_cur : option N;
  x_stack : list frame;                       (* current file first, then its includers, last the global table *)
  x_next : N;
  x_done : list (N * (N * senv));             (* finished file instances: id -> (includer's id, final table) *)
  x_items : list (N * (N * item))             (* reversed: address, file instance, item *)
}.
Definition set_stack (x : px) (s : list frame) : px := mkPx (x_cur x) s (x_next x) (x_done x) (x_items x).

(* label / .const: the name is new in this file, or declared by `.global` and still without a value *)
Definition xdefine (x : px) (n : str) (v : Z) : option px :=
  match x_stack x with
  | f :: rest =>
      if is_register n then None
      else match sget (f_env f) n with
           | None | Some BDecl => Some (set_stack x (set_env f ((n, BVal v) :: f_env f) :: rest))
           | _ => None
           end
  | [] => None
  end.

Definition xglobal (x : px) (n : str) : option px :=
  match x_stack x with
  | f :: p :: rest =>
      if is_register n then None
      else match sget (f_env p) n with
           | Some _ => None                                          (* the includer already knows the name *)
           | None =>
               match sget (f_env f) n with
               | Some (BVal v) => Some (set_stack x (f :: set_env p ((n, BVal v) :: f_env p) :: rest))
               | None => Some (set_stack x (mkFrame (f_id f) ((n, BDecl) :: f_env f) (n :: f_glob f)
                                            :: set_env p ((n, BDecl) :: f_env p) :: rest))
               | _ => None
               end
           end
  | _ => None
  end.

Definition xexport (x : px) (n : str) : option px :=
  match x_stack x with
  | f :: p :: rest =>
      match sget (f_env f) n with
      | Some (BVal v) =>
          match sget (f_env p) n with
          | None | Some BDecl => Some (set_stack x (f :: set_env p ((n, BVal v) :: f_env p) :: rest))
          | _ => None
          end
      | _ => None
      end
  | _ => None
  end.

Definition ximport (x : px) (n : str) : option px :=
  match x_stack x with
  | f :: p :: rest =>
      if is_register n then None
      else match sget (f_env f) n with
           | Some _ => None
           | None =>
               match sget (f_env p) n with
               | Some (BVal v) => Some (set_stack x (set_env f ((n, BVal v) :: f_env f) :: p :: rest))
               | Some _ => Some (set_stack x (set_env f ((n, BImp) :: f_env f) :: p :: rest))
               | None => None
               end
           end
  | _ => None
  end.

(* end of a file: every name it declared by `.global` has its value by now and hands it to the includer *)
Fixpoint hand_over (fe pe : senv) (gl : list str) : option senv :=
  match gl with
  | [] => Some pe
  | n :: r =>
      match sget fe n, sget pe n with
      | Some (BVal v), Some BDecl => hand_over fe ((n, BVal v) :: pe) r
      | _, _ => None
      end
  end.

Definition xpop (x : px) : option px :=
  match x_stack x with
  | f :: p :: rest =>
      match hand_over (f_env f) (f_env p) (f_glob f) with
      | Some pe => Some (mkPx (x_cur x) (set_env p pe :: rest) (x_next x) ((f_id f, (f_id p, f_env f)) :: x_done x) (x_items x))
      | None => None
      end
  | _ => None
  end.

Definition xpush (x : px) : px :=
  mkPx (x_cur x) (mkFrame (x_next x) [] [] :: x_stack x) (x_next x + 1) (x_done x) (x_items x).

(* every other statement: LayoutSpec.pass1_step over the names that have a value so far *)
Definition xplain (fs : str -> option (list N)) (x : px) (e : element_value) : option px :=
  match x_stack x with
  | f :: _ =>
      match pass1_step fs (mkP1 (x_cur x) (vals (f_env f)) []) e with
      | Some s => Some (mkPx (p_cur s) (x_stack x) (x_next x) (x_done x)
                             (map (fun ai => (fst ai, (f_id f, snd ai))) (p_items s) ++ x_items x))
      | None => None
      end
  | [] => None
  end.

Definition xstep (fs : str -> option (list N)) (x : px) (e : element_value) : option px :=
  match e with
  | ELabel n => match x_cur x with Some a => if a <? 0x100000000 then xdefine x n (Z.of_N a) else None | None => None end
  | EDirective name args =>
      if dname name "const" then
        match args, x_stack x with
        | [AIdent n; a], f :: _ => match den64 (rho (vals (f_env f))) a with Some v => xdefine x n v | None => None end
        | _, _ => None
        end
      else if dname name "global" then match args with [AIdent n] => xglobal x n | _ => None end
      else if dname name "export" then match args with [AIdent n] => xexport x n | _ => None end
      else if dname name "import" then match args with [AIdent n] => ximport x n | _ => None end
      else xplain fs x e
  | _ => xplain fs x e
  end.

Definition include_name (e : element_value) : option str :=
  match e with
  | EDirective name [AStr v] => if dname name "include" then Some v else None
  | _ => None
  end.

(* fuel = include depth *)
Fixpoint xfile (fuel : nat) (fs : str -> option (list N)) (parse : list N -> option (list element_value))
               (x : px) (l : list element_value) : option px :=
  match fuel with
  | O => None
  | S fuel' =>
      (fix go (x : px) (l : list element_value) : option px :=
         match l with
         | [] => Some x
         | e :: r =>
             match (match include_name e with
                    | Some path =>
                        match fs path with
                        | Some text =>
                            match parse text with
                            | Some prog => match xfile fuel' fs parse (xpush x) prog with Some x1 => xpop x1 | None => None end
                            | None => None
                            end
                        | None => None
                        end
                    | None => xstep fs x e
                    end) with
             | Some x' => go x' r
             | None => None
             end
         end) x l
  end.

Fixpoint dget (d : list (N * (N * senv))) (id : N) : option (N * senv) :=
  match d with [] => None | (k, v) :: r => if k =? id then Some v else dget r id end.

(* the final table of a file instance: its own values, and for an imported name the final value in the includer *)
Fixpoint final_env (fuel : nat) (d : list (N * (N * senv))) (id : N) : env :=
  match fuel with
  | O => []
  | S k =>
      match dget d id with
      | None => []
      | Some (pid, e) =>
          let pe := final_env k d pid in
          flat_map (fun nb => match snd nb with
                              | BVal v => [(fst nb, v)]
                              | BImp => match env_get pe (fst nb) with Some v => [(fst nb, v)] | None => [] end
                              | BDecl => []
                              end) e
      end
  end.

Fixpoint xpass2 (d : list (N * (N * senv))) (items : list (N * (N * item))) : option (list (N * list N)) :=
  match items with
  | [] => Some []
  | (a, (id, it)) :: r =>
      match pass2_item (final_env 16 d id) a it, xpass2 d r with
      | Some b, Some rest => Some ((a, b) :: rest)
      | _, _ => None
      end
  end.

(* statements in source order: ((address, bytes), (file instance, item)), and every name that has a value somewhere *)
Definition layout_spec_ext (fs : str -> option (list N)) (parse : list N -> option (list element_value))
                           (prog : list element_value) : option (list ((N * list N) * (N * item)) * list str) :=
  match xfile 8 fs parse (mkPx None [mkFrame 1 [] []; mkFrame 0 [] []] 2 [] []) prog with
  | None => None
  | Some x1 =>
      match xpop x1 with
      | None => None
      | Some x2 =>
          let items := rev (x_items x2) in
          match xpass2 (x_done x2) items with
          | None => None
          | Some placed => Some (combine placed (map snd items), flat_map (fun d => map fst (vals (snd (snd d)))) (x_done x2))
          end
      end
  end.
