(* C05 for projects, part 6: corollaries of Asm/LayoutMultiFile.project_layout.
   Under the class's no-collision clause the reference items do not overlap, so the reference dictionary holds at the address
   of EVERY statement of EVERY file instance exactly the bytes pass 2 computed in the FINAL table of that file instance:
   no placeholder remains, a `.du8/.du16/.du32 e` holds the value of e in the final table of its file instance wherever the
   names are defined (before / after the statement, in the file, in an included file that hands the name up, in the includer
   from which it is imported), and a `.du32 x` holds the value of x in the scope of its file instance (C14 use sites). *)
From Coq Require Import ZArith NArith PeanoNat List Bool Lia ZifyBool ZifyNat ZifyN String.
From Trion Require Import Text.Types Expr.I64 Expr.EvalModel Expr.Denote Arm.Instr Arm.DisplayModel Arm.AsmStmtModel Arm.EncodeModel
  Mem.MapModel Mem.DictSpec Mem.MapProofs Mem.MapLemmas
  Asm.CtxModel Asm.LayoutSpec Asm.LayoutWf Asm.LayoutInstr Asm.LayoutDict Asm.LayoutSim Asm.LayoutStep Asm.LayoutFinal Asm.LayoutProg Asm.LayoutProgFinal Asm.LayoutBytes.
From Trion Require Text.ParseModel Text.Render Text.ShowSpec Text.ParseProofs Asm.LayoutText.
From Trion Require Asm.ScopeValue.
From Trion Require Import Asm.LayoutSpecExt Asm.LayoutMulti Asm.LayoutMultiEval Asm.LayoutMultiMem Asm.LayoutMultiSpec Asm.LayoutMultiStep Asm.LayoutMultiFile.
Import ListNotations.
Open Scope N_scope.

(* ------------------------------------------------------------------ a step conses at most one item *)
Lemma xother_items fsr x e x' : xstep fsr x e = Some x' -> xplain fsr x e = Some x' \/ x_items x' = x_items x.
Proof.
  intros H. destruct (xstep_cases _ _ _ _ H) as [(n & v & K)|[(n & K)|[(n & K)|[(name & n & _ & _ & K)|K]]]]; [right|right|right|right|left; exact K].
  - unfold xdefine in K. destruct (x_stack x); [discriminate|]. destruct (AsmStmtModel.is_register n); [discriminate|].
    destruct (sget (f_env f) n) as [[| |]|]; inversion K; reflexivity.
  - unfold xglobal in K. destruct (x_stack x) as [|f [|p r]]; try discriminate. destruct (AsmStmtModel.is_register n); [discriminate|].
    destruct (sget (f_env p) n); [discriminate|]. destruct (sget (f_env f) n) as [[| |]|]; inversion K; reflexivity.
  - unfold xexport in K. destruct (x_stack x) as [|f [|p r]]; try discriminate.
    destruct (sget (f_env f) n) as [[| |]|]; try discriminate. destruct (sget (f_env p) n) as [[| |]|]; inversion K; reflexivity.
  - unfold ximport in K. destruct (x_stack x) as [|f [|p r]]; try discriminate. destruct (AsmStmtModel.is_register n); [discriminate|].
    destruct (sget (f_env f) n); [discriminate|]. destruct (sget (f_env p) n) as [[| |]|]; inversion K; reflexivity.
Qed.

Lemma xstep_items fsr x e x' : xstep fsr x e = Some x' ->
  x_items x' = x_items x \/ exists a idit, x_items x' = (a, idit) :: x_items x.
Proof.
  intros H. destruct (xother_items _ _ _ _ H) as [K|K]; [|left; exact K].
  unfold xplain in K. destruct (x_stack x) as [|f r]; [discriminate|].
  destruct (pass1_step fsr (mkP1 (x_cur x) (vals (f_env f)) []) e) as [s|] eqn:P1; [|discriminate]. inversion K; subst x'. cbn [x_items].
  destruct (pass1_step_items _ _ _ _ P1) as [E|(a & it & E)]; cbn [p_items] in E; rewrite E; [left; reflexivity|right].
  exists a, (f_id f, it). reflexivity.
Qed.

(* ------------------------------------------------------------------ no two items overlap *)
Lemma walk_nooverlap fs fsr prs EF : forall k open path x l x', cls fs fsr prs EF k open path x l -> xfile k fsr prs x l = Some x' ->
  NoOverlap (flat_items (x_items x)) -> NoOverlap (flat_items (x_items x')).
Proof.
  induction k as [|k IHk]; intros open path x l x' HC HX NO; [discriminate HX|].
  revert x HC HX NO. induction l as [|e r IH]; intros x HC HX NO.
  - rewrite xfile_nil in HX. inversion HX; subst. exact NO.
  - rewrite xfile_cons in HX. rewrite cls_cons in HC. destruct (include_name e) as [v|].
    + destruct (xinc k fsr prs x v) as [xa|] eqn:XI; [|discriminate]. destruct HC as (_ & _ & HC).
      unfold xinc in XI. destruct (fsr v) as [text|]; [|discriminate]. destruct (prs text) as [prog|]; [|discriminate].
      destruct (xfile k fsr prs (xpush x) prog) as [x1|] eqn:XF; [|discriminate]. rewrite XI in HC. destruct HC as (HCc & HCr).
      apply (IH xa HCr HX). destruct (xpop_inv _ _ XI) as (f & p & rest & pe & _ & _ & ->). cbn [x_items].
      apply (IHk _ _ _ _ _ HCc XF). exact NO.
    + destruct HC as (_ & HC). destruct (xstep fsr x e) as [xa|] eqn:XS; [|discriminate]. destruct HC as ((_ & FR) & HCr).
      apply (IH xa HCr HX). destruct (xstep_items _ _ _ _ XS) as [E|(a & idit & E)]; rewrite E; [exact NO|].
      destruct idit as [id it]. cbn [flat_items map fst snd]. split; [|exact NO].
      intros y Y1 Y2. apply (FR a (id, it) y E Y1 Y2).
Qed.

Lemma gdx_at EF : forall items, NoOverlap (flat_items items) ->
  forall a id it bs, In (a, (id, it)) items -> pass2_item (EF id) a it = Some bs -> at_bytes (gdx EF items) a bs.
Proof.
  induction items as [|(a0, (id0, it0)) r IH]; intros NO a id it bs Hi P2; [destruct Hi|].
  cbn [flat_items map fst snd] in NO. destruct NO as (N0 & NO). cbn [gdx]. destruct Hi as [Hi|Hi].
  - inversion Hi; subst a0 id0 it0. rewrite P2. apply at_bytes_write.
  - pose proof (IH NO a id it bs Hi P2) as AB.
    destruct (pass2_item (EF id0) a0 it0) as [bs0|] eqn:P0; [|exact AB].
    intros y Y1 Y2. rewrite d_get_d_write. rewrite wr_out; [apply AB; assumption|].
    destruct (N.lt_ge_cases y a0) as [L|L]; [now left|]. destruct (N.le_gt_cases (a0 + mlen bs0) y) as [G|G]; [now right|].
    exfalso. apply (N0 y L); [rewrite <- (pass2_size _ _ _ _ P0); exact G|].
    exists a, it. split; [|rewrite <- (pass2_size _ _ _ _ P2); lia].
    unfold flat_items. apply in_map_iff. exists (a, (id, it)). split; [reflexivity|exact Hi].
Qed.

(* ------------------------------------------------------------------ placed <-> items *)
Lemma xpass2_placed d : forall its pl, xpass2 d its = Some pl ->
  (forall a bs id it, In ((a, bs), (id, it)) (combine pl (map snd its)) -> In (a, (id, it)) its /\ pass2_item (final_env 16 d id) a it = Some bs) /\
  (forall a id it, In (a, (id, it)) its -> exists bs, pass2_item (final_env 16 d id) a it = Some bs /\ In ((a, bs), (id, it)) (combine pl (map snd its))).
Proof.
  induction its as [|(a0, (id0, it0)) r IH]; intros pl H; cbn [xpass2] in H.
  - inversion H; subst. split; [intros a bs id it []|intros a id it []].
  - destruct (pass2_item (final_env 16 d id0) a0 it0) as [b|] eqn:E1; [|discriminate]. destruct (xpass2 d r) as [rest|] eqn:E2; [|discriminate].
    inversion H; subst pl. destruct (IH rest eq_refl) as (I1 & I2). cbn [combine map snd]. split.
    + intros a bs id it [Hi|Hi].
      * inversion Hi; subst. split; [now left|exact E1].
      * destruct (I1 a bs id it Hi) as (H1 & H3). split; [now right|exact H3].
    + intros a id it [Hi|Hi].
      * inversion Hi; subst. exists b. split; [exact E1|now left].
      * destruct (I2 a id it Hi) as (bs & H1 & H3). exists bs. split; [exact H1|now right].
Qed.

(* ------------------------------------------------------------------ the parts of a defined reference layout *)
Section Top.
  Variables (fs : str -> option (list N)) (path : str) (prog : list element_value)
            (placed : list ((N * list N) * (N * item))) (names : list str).
  Hypothesis HL : layout_spec_ext (rel_fs fs path) parse_ref prog = Some (placed, names).
  Hypothesis HC : C05_project_class fs path prog.

  Lemma spec_parts_x : exists x1 x2, xfile 8 (rel_fs fs path) parse_ref px0 prog = Some x1 /\ xpop x1 = Some x2 /\
    px_final (rel_fs fs path) parse_ref prog = Some x2 /\
    xpass2 (x_done x2) (rev (x_items x2)) = Some (map fst placed) /\ placed = combine (map fst placed) (map snd (rev (x_items x2))) /\
    image_dict_x placed = gdx (EF_of x2) (x_items x2) /\ NoOverlap (flat_items (x_items x2)).
  Proof.
    unfold layout_spec_ext in HL. fold px0 in HL. unfold C05_project_class, px_final in HC.
    destruct (xfile 8 (rel_fs fs path) parse_ref px0 prog) as [x1|] eqn:XF; [|discriminate].
    destruct (xpop x1) as [x2|] eqn:XP; [|discriminate].
    destruct (xpass2 (x_done x2) (rev (x_items x2))) as [pl|] eqn:P2; [|discriminate]. inversion HL; subst placed names.
    assert (LP : List.length pl = List.length (map snd (rev (x_items x2)))).
    { clear -P2. revert pl P2. induction (rev (x_items x2)) as [|(a, (id, it)) r IH]; intros pl H; cbn [xpass2] in H.
      - inversion H. reflexivity.
      - destruct (pass2_item _ a it); [|discriminate]. destruct (xpass2 (x_done x2) r) as [rest|]; [|discriminate]. inversion H; subst.
        cbn [map List.length]. rewrite (IH rest eq_refl). reflexivity. }
    assert (EM : map fst (combine pl (map snd (rev (x_items x2)))) = pl).
    { clear -LP. revert LP. generalize (map snd (rev (x_items x2))). induction pl as [|b pl IH]; intros [|c l] H; try discriminate H; [reflexivity|].
      cbn [combine map fst]. f_equal. apply IH. inversion H. reflexivity. }
    exists x1, x2. split; [reflexivity|]. split; [exact XP|]. split; [unfold px_final; rewrite XF; exact XP|].
    rewrite EM. split; [exact P2|]. split; [reflexivity|]. split; [apply image_dict_gdx; exact P2|].
    assert (EI : x_items x2 = x_items x1) by (destruct (xpop_inv _ _ XP) as (f & p & rest & pe & _ & _ & E); rewrite E; reflexivity).
    rewrite EI. apply (walk_nooverlap fs (rel_fs fs path) parse_ref (EF_of x2) 8 [] path px0 prog x1); [exact HC|exact XF|exact I].
  Qed.

  (* every statement's bytes (pass 2, final table of its file instance), and nothing else *)
  Theorem dict_statements_x :
    (forall a bs id it, In ((a, bs), (id, it)) placed -> forall x, a <= x -> x < a + mlen bs ->
       d_get (image_dict_x placed) x = nth_error bs (N.to_nat (x - a))) /\
    (forall x, d_get (image_dict_x placed) x <> None -> exists a bs id it, In ((a, bs), (id, it)) placed /\ a <= x /\ x < a + mlen bs).
  Proof.
    destruct spec_parts_x as (x1 & x2 & XF & XP & PF & P2 & EP & ED & NO). destruct (xpass2_placed _ _ _ P2) as (I1 & I2). rewrite ED. split.
    - intros a bs id it Hi. rewrite EP in Hi. destruct (I1 a bs id it Hi) as (Hit & Pit). apply in_rev in Hit.
      exact (gdx_at (EF_of x2) _ NO a id it bs Hit Pit).
    - intros x Hx. apply gdx_covered in Hx. destruct Hx as (a & it & Hi & X1 & X2).
      unfold flat_items in Hi. apply in_map_iff in Hi. destruct Hi as ((a' & (id & it')) & E0 & Hi). cbn [fst snd] in E0. inversion E0; subst a' it'.
      destruct (I2 a id it (proj1 (in_rev _ _) Hi)) as (bs & Pit & Hp). exists a, bs, id, it.
      split; [rewrite EP; exact Hp|]. rewrite (pass2_size _ _ _ _ Pit). lia.
  Qed.

  (* a .du8/.du16/.du32 statement of file instance id holds the little-endian bytes of the value its expression has in the
     FINAL table of that file instance *)
  Theorem data_final_value_x x2 a bs id size e : px_final (rel_fs fs path) parse_ref prog = Some x2 ->
    In ((a, bs), (id, IData size e)) placed ->
    exists v, den64 (rho (EF_of x2 id)) e = Some v /\ (0 <= v < Z.of_N (N.shiftl 1 (8 * size)))%Z /\
      bs = le_bytes_n (N.to_nat size) (Z.to_N v) /\
      forall x, a <= x -> x < a + mlen bs -> d_get (image_dict_x placed) x = nth_error bs (N.to_nat (x - a)).
  Proof.
    intros PF' Hi. destruct spec_parts_x as (x1 & x2' & XF & XP & PF & P2 & EP & ED & NO). rewrite PF in PF'. inversion PF'; subst x2'.
    destruct (xpass2_placed _ _ _ P2) as (I1 & _). pose proof Hi as Hi'. rewrite EP in Hi'. destruct (I1 a bs id _ Hi') as (_ & Pit).
    cbn [pass2_item] in Pit. fold (EF_of x2 id) in Pit. destruct (den64 (rho (EF_of x2 id)) e) as [v|] eqn:Dv; [|discriminate].
    destruct ((0 <=? v)%Z && (v <? Z.of_N (N.shiftl 1 (8 * size)))%Z) eqn:Rv; [|discriminate]. inversion Pit; subst bs.
    exists v. split; [reflexivity|]. split; [lia|]. split; [reflexivity|].
    destruct dict_statements_x as (D1 & _). apply (D1 _ _ _ _ Hi).
  Qed.
End Top.

(* ------------------------------------------------------------------ labels: the address of the next placed byte *)
Lemma label_next_item_x fsr x n x1 e x2 a idit f1 r1 :
  xstep fsr x (ELabel n) = Some x1 -> xstep fsr x1 e = Some x2 -> x_items x2 = (a, idit) :: x_items x1 ->
  x_stack x1 = f1 :: r1 -> sget (f_env f1) n = Some (BVal (Z.of_N a)).
Proof.
  intros H1 H2 HI ES1. cbn [xstep] in H1. destruct (x_cur x) as [c|] eqn:Ec; [|discriminate].
  destruct (c <? 4294967296); [|discriminate]. unfold xdefine in H1. destruct (x_stack x) as [|f rest]; [discriminate|].
  destruct (AsmStmtModel.is_register n); [discriminate|].
  assert (E1 : x1 = set_stack x (set_env f ((n, BVal (Z.of_N c)) :: f_env f) :: rest)).
  { destruct (sget (f_env f) n) as [[| |]|]; inversion H1; reflexivity. }
  subst x1. cbn [x_stack set_stack] in ES1. inversion ES1; subst f1 r1. cbn [set_env f_env sget].
  assert (R : AsmStmtModel.str_eqb n n = true) by (apply ScopeProofs.str_eqb_refl). rewrite R. f_equal. f_equal. f_equal.
  (* the next step places its item at the current address *)
  assert (NE : forall (l : list (N * (N * item))) y, l <> y :: l).
  { intros l y Hl. apply (f_equal (@List.length _)) in Hl. cbn in Hl. lia. }
  destruct (xother_items _ _ _ _ H2) as [K|K]; [|exfalso; rewrite K in HI; exact (NE _ _ HI)].
  unfold xplain in K. cbn [x_stack set_stack x_cur] in K.
  destruct (pass1_step fsr _ e) as [s|] eqn:P1; [|discriminate]. inversion K; subst x2. cbn [x_items set_stack] in HI.
  destruct (pass1_step_items _ _ _ _ P1) as [E|(a' & it & E)]; cbn [p_items] in E; rewrite E in HI; cbn [map app] in HI.
  - exfalso. exact (NE _ _ HI).
  - inversion HI; subst a'. cbn [fst] in *.
      (* the item is placed at the current address c *)
      unfold pass1_step in P1.
      repeat match type of P1 with
             | context[match ?t with _ => _ end] =>
                 first [ match t with define _ _ _ => fail 2 end | match t with place _ _ _ => fail 2 end | destruct t eqn:? ]
             end; try discriminate P1;
      try (apply place_items in P1; destruct P1 as (c' & C1 & C2); cbn [p_cur p_items] in C1, C2; rewrite Ec in C1; rewrite C2 in E; inversion C1; inversion E; subst; reflexivity);
      try (apply define_items in P1; cbn [p_items] in P1; rewrite P1 in E; discriminate E).
      all: try (inversion P1; subst; cbn [p_items] in E; discriminate E).
Qed.

(* ------------------------------------------------------------------ the same about the pipeline's image *)
Theorem project_no_placeholder dbg fs fuel path text els placed names : (8 <= fuel)%nat ->
  parse_els text = Some els ->
  layout_spec_ext (rel_fs fs path) parse_ref (map e_val els) = Some (placed, names) ->
  C05_project_class fs path (map e_val els) ->
  pipeline_gen dbg fs fuel path text = Done Success [] (runs (image_dict_x placed)) /\
  (forall a bs id it, In ((a, bs), (id, it)) placed -> forall x, a <= x -> x < a + mlen bs ->
     d_get (image_dict_x placed) x = nth_error bs (N.to_nat (x - a))) /\
  (forall x, d_get (image_dict_x placed) x <> None -> exists a bs id it, In ((a, bs), (id, it)) placed /\ a <= x /\ x < a + mlen bs).
Proof.
  intros Hf PE HL HC. split; [exact (project_layout dbg fs fuel path text els placed names Hf PE HL HC)|].
  exact (dict_statements_x fs path _ placed names HL HC).
Qed.

Theorem project_order_independent dbg fs fuel path text els placed names x2 : (8 <= fuel)%nat ->
  parse_els text = Some els ->
  layout_spec_ext (rel_fs fs path) parse_ref (map e_val els) = Some (placed, names) ->
  C05_project_class fs path (map e_val els) ->
  px_final (rel_fs fs path) parse_ref (map e_val els) = Some x2 ->
  pipeline_gen dbg fs fuel path text = Done Success [] (runs (image_dict_x placed)) /\
  forall a bs id size e, In ((a, bs), (id, IData size e)) placed ->
    exists v, den64 (rho (EF_of x2 id)) e = Some v /\ (0 <= v < Z.of_N (N.shiftl 1 (8 * size)))%Z /\
      bs = le_bytes_n (N.to_nat size) (Z.to_N v) /\
      forall x, a <= x -> x < a + mlen bs -> d_get (image_dict_x placed) x = nth_error bs (N.to_nat (x - a)).
Proof.
  intros Hf PE HL HC PF. split; [exact (project_layout dbg fs fuel path text els placed names Hf PE HL HC)|].
  intros a bs id size e. exact (data_final_value_x fs path _ placed names HL HC x2 a bs id size e PF).
Qed.

(* C14 use sites at image level: the 4 bytes of a `.du32 x` of file instance id are in the image at the address the reference
   assigns and are the little-endian value of x in the final table of THAT file instance (the scope the oracle names) *)
Theorem project_use_sites dbg fs fuel path text els placed names x2 : (8 <= fuel)%nat ->
  parse_els text = Some els ->
  layout_spec_ext (rel_fs fs path) parse_ref (map e_val els) = Some (placed, names) ->
  C05_project_class fs path (map e_val els) ->
  px_final (rel_fs fs path) parse_ref (map e_val els) = Some x2 ->
  pipeline_gen dbg fs fuel path text = Done Success [] (runs (image_dict_x placed)) /\
  forall a bs id x, In ((a, bs), (id, IData 4 (AIdent x))) placed ->
    exists v, env_get (EF_of x2 id) x = Some v /\ CtxModel.is_register x = false /\ (0 <= v <= 4294967295)%Z /\
      bs = le_n 4 (Z.to_N v) /\
      forall i, i < 4 -> d_get (image_dict_x placed) (a + i) = nth_error (le_n 4 (Z.to_N v)) (N.to_nat i).
Proof.
  intros Hf PE HL HC PF. destruct (project_order_independent dbg fs fuel path text els placed names x2 Hf PE HL HC PF) as (HP & HD).
  split; [exact HP|]. intros a bs id x Hi. destruct (HD a bs id 4 (AIdent x) Hi) as (v & Dv & Rv & Eb & Hb).
  cbn [den64] in Dv. unfold rho in Dv. change (AsmStmtModel.is_register x) with (CtxModel.is_register x) in Dv.
  destruct (CtxModel.is_register x) eqn:Rg; [discriminate|]. destruct (env_get (EF_of x2 id) x) as [w|] eqn:Eg; [|discriminate].
  assert (w = v). { unfold chk in Dv. match type of Dv with (if ?c then _ else _) = _ => destruct c end; [inversion Dv; reflexivity|discriminate]. } subst w.
  assert (E4 : le_bytes_n (N.to_nat 4) (Z.to_N v) = le_n 4 (Z.to_N v)) by (symmetry; exact (le_n_le_bytes DU32 (Z.to_N v))).
  rewrite E4 in Eb. exists v. split; [reflexivity|]. split; [reflexivity|].
  split; [change (Z.of_N (N.shiftl 1 (8 * 4))) with 4294967296%Z in Rv; lia|]. split; [exact Eb|].
  intros i Hi4. rewrite <- Eb. rewrite (Hb (a + i)); [f_equal; lia|lia|]. rewrite Eb. change (mlen (le_n 4 (Z.to_N v))) with 4. lia.
Qed.

(* a name that is not visible in the scope: the retry of `.du32 x` in a table that lacks x is a diagnostic *)
Lemma use_invisible dbg st d x t g : de_arg d = AIdent x -> ScopeValue.eval_table st = Some t -> CtxModel.is_register x = false ->
  tbl_get t x = None ->
  run_task dbg st (DataTask d g) = Ret (Some Trivial) (push_error_in st (de_file d) (de_line d) (de_col d) (KApply AEval)).
Proof. intros E1 E2 E3 E4. rewrite (ScopeValue.use_retry dbg st d x t g E1 E2 E3), E4. reflexivity. Qed.

(* ------------------------------------------------------------------ from the source TEXT of the root file *)
Lemma parse_els_of text els : parse_source text = Parsed (map Text.ParseModel.IOk els) None -> parse_els text = Some els.
Proof.
  intros H. unfold parse_els. rewrite H. clear H. induction els as [|e r IH]; [reflexivity|]. cbn [map all_ok]. rewrite IH. reflexivity.
Qed.

Theorem project_text dbg fs fuel path stmts seps placed names : (8 <= fuel)%nat ->
  forallb Text.ShowSpec.writable_stmt stmts = true -> Text.ShowSpec.seps_ok (Text.Render.render_stmts stmts) seps ->
  layout_spec_ext (rel_fs fs path) parse_ref stmts = Some (placed, names) -> C05_project_class fs path stmts ->
  pipeline_gen dbg fs fuel path (Text.ShowSpec.show (Text.Render.render_stmts stmts) seps) = Done Success [] (image_x placed).
Proof.
  intros Hf W So HL HC. destruct (LayoutText.text_parse_source stmts seps W So) as (els & HP & <-).
  exact (project_layout dbg fs fuel path _ els placed names Hf (parse_els_of _ _ HP) HL HC).
Qed.

Theorem project_textw dbg fs fuel path stmts ws seps placed names : (8 <= fuel)%nat ->
  Text.ParseProofs.RendStmts stmts (map Text.ShowSpec.wtok_val ws) -> Forall Text.ShowSpec.wtok_ok ws -> Text.ShowSpec.wseps_ok ws seps ->
  layout_spec_ext (rel_fs fs path) parse_ref stmts = Some (placed, names) -> C05_project_class fs path stmts ->
  pipeline_gen dbg fs fuel path (Text.ShowSpec.showw ws seps) = Done Success [] (image_x placed).
Proof.
  intros Hf R Ok So HL HC. destruct (LayoutText.textw_parse_source stmts ws seps R Ok So) as (els & HP & <-).
  exact (project_layout dbg fs fuel path _ els placed names Hf (parse_els_of _ _ HP) HL HC).
Qed.
