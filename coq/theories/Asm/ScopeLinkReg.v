(* C14, link of the scope oracle to the Context model, part 5: the converse direction for ONE class of the oracle's errors.
   If the oracle's error list of a project contains RRegisterName (a `.const` / label / `.global` / `.import` / `.export` names a
   register, in any file instance), the pipeline run on the project's text does not report success.
   - is_register_agree: the oracle's register table (ScopeSpec.register_names, compared in upper case) is contained in the model's
     Arm6M::is_register;
   - *_not_register: a statement that returns Ok did not name a register;
   - noreg_items / run_noreg / LinkQ: every file instance whose Context::assemble returns Ok has no register-named item, at any
     depth (the traversal of ScopeLinkOcc.run_link once more, consuming the successful run);
   - noreg_errors: such a tree has no RRegisterName in ScopeSpec.errors.
   Proof file (no model definitions). *)
From Coq Require Import ZArith NArith List Bool Lia.
From Trion Require Import Text.Types.
From Trion Require Text.ParseModel Arm.AsmStmtModel Expr.EvalModel.
From Trion Require Import Asm.CtxModel Asm.CtxInvDefs Asm.CtxInvStep Asm.CtxInvTop Asm.Ctx06Proofs.
From Trion Require Import Asm.ScopeProofs Asm.ScopeProofs2 Asm.ScopeIso Asm.ScopeRefine.
From Trion Require Import Asm.ScopeText Asm.ScopeLink Asm.ScopeLinkSeg Asm.ScopeLinkOcc Asm.ScopeLinkTop.
Import ListNotations.

Local Arguments Z.mul : simpl never.
Local Arguments Z.add : simpl never.
Local Arguments N.mul : simpl never.
Local Arguments N.add : simpl never.

(* ------------------------------------------------------------------ the two register tables *)
Lemma is_register_agree x : SP.is_register x = true -> CtxModel.is_register x = true.
Proof.
  unfold SP.is_register. intros H. apply existsb_exists in H. destruct H as (lit & IN & E).
  apply sp_eqb_eq in E.
  assert (L : List.length x = List.length lit) by (rewrite <- E; symmetry; apply map_length).
  unfold CtxModel.is_register, AsmStmtModel.is_register, AsmStmtModel.regl, AsmStmtModel.sysl, AsmStmtModel.upper_str.
  change (map AsmStmtModel.upper x) with (map SP.upper x). rewrite E, L. clear E L.
  cbv in IN. repeat (destruct IN as [<-|IN]; [reflexivity|]). destruct IN.
Qed.

(* ------------------------------------------------------------------ a statement that returns Ok names no register *)
Section Steps.
Variables (dbg : bool) (fs : str -> option (list N)) (inc : state -> list N -> str -> res result).

Lemma const_not_register st l c dn x v s1 : dir_of dn = Some DConst ->
  step dbg fs inc st (mkElement l c (EDirective dn [AIdent x; AConst v])) = Ret None s1 -> CtxModel.is_register x = false.
Proof.
  intros DN. unfold step, process_directive. cbn [e_val e_line e_col]. rewrite DN. intros H.
  destruct (CtxModel.is_register x) eqn:R; [|reflexivity]. rewrite (const_register st l c x v R) in H. discriminate H.
Qed.

Lemma label_not_register st l c x s1 :
  step dbg fs inc st (mkElement l c (ELabel x)) = Ret None s1 -> CtxModel.is_register x = false.
Proof.
  intros H. destruct (CtxModel.is_register x) eqn:R; [|reflexivity]. exfalso.
  destruct (active st) as [|sg] eqn:EA.
  - unfold step in H. cbn [e_val] in H. rewrite EA in H. discriminate H.
  - rewrite (label_register dbg fs inc st sg l c x R EA) in H. discriminate H.
Qed.

Lemma global_not_register st l c dn x s1 : dir_of dn = Some DGlobal ->
  step dbg fs inc st (mkElement l c (EDirective dn [AIdent x])) = Ret None s1 -> CtxModel.is_register x = false.
Proof.
  intros DN. unfold step, process_directive. cbn [e_val e_line e_col]. rewrite DN. intros H.
  destruct (CtxModel.is_register x) eqn:R; [|reflexivity]. rewrite (global_register st l c x R) in H. discriminate H.
Qed.

Lemma port_not_register st l c d x s1 : d = DImport \/ d = DExport ->
  dir_global st l c d [AIdent x] = Ret None s1 -> CtxModel.is_register x = false.
Proof.
  intros D H. destruct (CtxModel.is_register x) eqn:R; [|reflexivity]. exfalso.
  unfold dir_global in H. cbn [arity_check List.length Nat.eqb] in H.
  destruct D as [-> | ->].
  - destruct (get_constant st x RGlobal) as [[v| |]|]; try discriminate H.
    + rewrite (insert_reserved st x v RLocal R) in H. discriminate H.
    + rewrite (defer_reserved st x RLocal R) in H. discriminate H.
  - destruct (get_constant st x RLocal) as [[v| |]|]; try discriminate H.
    rewrite (insert_reserved st x v RGlobal R) in H. discriminate H.
Qed.

Lemma import_not_register st l c dn x s1 : dir_of dn = Some DImport ->
  step dbg fs inc st (mkElement l c (EDirective dn [AIdent x])) = Ret None s1 -> CtxModel.is_register x = false.
Proof.
  intros DN. unfold step, process_directive. cbn [e_val e_line e_col]. rewrite DN. apply port_not_register. left. reflexivity.
Qed.
Lemma export_not_register st l c dn x s1 : dir_of dn = Some DExport ->
  step dbg fs inc st (mkElement l c (EDirective dn [AIdent x])) = Ret None s1 -> CtxModel.is_register x = false.
Proof.
  intros DN. unfold step, process_directive. cbn [e_val e_line e_col]. rewrite DN. apply port_not_register. right. reflexivity.
Qed.
End Steps.

Lemma not_reg x : CtxModel.is_register x = false -> SP.is_register x = false.
Proof. intros H. destruct (SP.is_register x) eqn:R; [|reflexivity]. apply is_register_agree in R. congruence. Qed.

(* ------------------------------------------------------------------ trees without register-named items *)
Inductive noreg_items : list SP.item -> Prop :=
| nr_nil : noreg_items []
| nr_def x v r : SP.is_register x = false -> noreg_items r -> noreg_items (SP.IDef x v :: r)
| nr_global x r : SP.is_register x = false -> noreg_items r -> noreg_items (SP.IGlobal x :: r)
| nr_import x r : SP.is_register x = false -> noreg_items r -> noreg_items (SP.IImport x :: r)
| nr_export x r : SP.is_register x = false -> noreg_items r -> noreg_items (SP.IExport x :: r)
| nr_use x k r : noreg_items r -> noreg_items (SP.IUse x k :: r)
| nr_child c r : noreg_items (SP.items_of c) -> noreg_items r -> noreg_items (SP.IChild c :: r).

Lemma noreg_app a b : noreg_items a -> noreg_items b -> noreg_items (a ++ b).
Proof. induction 1; intros B; cbn [app]; [exact B|constructor; auto ..]. Qed.

(* the statements of a file whose Context::assemble returned Ok have all returned Ok *)
Lemma file_run_ok dbg fs inc st data path els s' :
  parse_source data = Parsed (map ParseModel.IOk els) None ->
  assemble_body dbg fs inc st data path = Ret None s' ->
  exists st1, run_items dbg fs inc (map ParseModel.IOk els) (fst (enter_file st path)) = Ret None st1.
Proof.
  intros PS. unfold assemble_body. destruct (enter_file st path) as [st0 fr]. cbn [fst].
  unfold do_assemble. rewrite PS.
  destruct (run_items dbg fs inc (map ParseModel.IOk els) st0) as [r1 st1| |] eqn:ER; cbn [CtxModel.bind]; try discriminate.
  destruct r1 as [lv|]; cbn [CtxModel.bind]; [|intros _; eauto].
  destruct (res_is_fatal (Some lv)).
  - cbn [CtxModel.bind]. destruct (leave_file st1 fr) as [[] st3| |]; cbn [CtxModel.bind]; discriminate.
  - destruct (local_tasks st1) as [tasks|]; [|discriminate]. cbn [CtxModel.bind].
    destruct (local_loop dbg task_rounds tasks _ (Some lv)) as [r' st2| |] eqn:EL; cbn [CtxModel.bind]; try discriminate.
    apply local_loop_some in EL.
    destruct (leave_file st2 fr) as [[] st3| |]; cbn [CtxModel.bind]; try discriminate. intros H; inversion H; congruence.
Qed.

Section Link.
Variables (dbg : bool) (files : list (str * SP.file)) (base : Z).
Hypothesis Hfiles : forall n b, In (n, b) files -> plain_name n = true /\ forallb stmt_ok b = true.
Hypothesis Hbase : (0 <= base)%Z.
Let fs := fs_of files.

Definition LinkQ (d : nat) : Prop := forall f path body k t k' s s',
  plain_name path = true -> forallb stmt_ok body = true ->
  SP.expand d files base body k = Some (t, k') -> (base + 4 * Z.of_N k' < 4294967296)%Z -> good s -> shape base k s ->
  assemble dbg fs (S f) s (show_file body) path = Ret None s' -> noreg_items (SP.items_of t).

Lemma run_noreg d f path : LinkQ d -> plain_name path = true -> forall l els its k k' s s',
  goL (SP.expand d files base) files base l k = Some (its, k') ->
  map e_val els = map ev_of l -> forallb stmt_ok l = true ->
  (base + 4 * Z.of_N k' < 4294967296)%Z -> MidInv base path k s ->
  run_items dbg fs (assemble dbg fs f) (map ParseModel.IOk els) s = Ret None s' -> noreg_items its.
Proof.
  intros IHd Pp. induction l as [|st r IH]; intros els its k k' s s' G M W B MI RUN.
  - cbn [goL] in G. inversion G; subst. constructor.
  - destruct els as [|e els]; [discriminate M|]. cbn [map] in M. injection M as Ev M.
    cbn [forallb] in W. apply andb_prop in W. destruct W as [W0 W].
    change (st :: r) with ([st] ++ r) in G. destruct (goL_app _ _ _ _ _ _ _ _ G) as (i1 & k1 & i2 & G1 & G2 & ->).
    assert (MONO : (k1 <= k')%N). { eapply goL_mono; [|exact G2]. intros b0 k0 t0 k0'. apply expand_mono. }
    assert (B1 : (base + 4 * Z.of_N k1 < 4294967296)%Z) by lia.
    cbn [map run_items] in RUN. unfold bind in RUN.
    destruct (step dbg fs (assemble dbg fs f) s e) as [r1 s1| |] eqn:E; try discriminate RUN.
    destruct r1; [discriminate RUN|].
    assert (W1 : forallb stmt_ok [st] = true) by (cbn [forallb]; rewrite W0; reflexivity).
    assert (M1 : map e_val [e] = map ev_of [st]) by (cbn [map]; rewrite Ev; reflexivity).
    destruct (run_link dbg files base Hfiles Hbase d f path (LinkP_all dbg files base Hfiles Hbase d) Pp [st] [e] i1 k k1 s G1 M1 W1 B1 MI)
      as (_ & POST).
    assert (MI1 : MidInv base path k1 s1). { apply POST. cbn [map run_items]. unfold bind. fold fs. rewrite E. reflexivity. }
    apply noreg_app; [|eapply IH; eauto].
    destruct e as [ln c v]. cbn [e_val] in Ev. subst v.
    cbn [goL] in G1. destruct st; try discriminate G1; cbn [ev_of] in E.
    + inversion G1; subst. constructor; [|constructor]. apply not_reg. eapply const_not_register; [exact dir_const_name|exact E].
    + inversion G1; subst. constructor; [|constructor]. apply not_reg. eapply label_not_register; exact E.
    + inversion G1; subst. constructor; [|constructor]. apply not_reg. eapply global_not_register; [exact dir_global_name|exact E].
    + inversion G1; subst. constructor; [|constructor]. apply not_reg. eapply import_not_register; [exact dir_import_name|exact E].
    + inversion G1; subst. constructor; [|constructor]. apply not_reg. eapply export_not_register; [exact dir_export_name|exact E].
    + rename f0 into g. destruct (SP.lookup_file files g) as [b|] eqn:LF; [|discriminate G1].
      destruct (SP.expand d files base b k) as [[tc k2]|] eqn:EX; [|discriminate G1]. inversion G1; subst.
      constructor; [|constructor].
      destruct (Hfiles g b (lookup_in _ _ _ LF)) as (Pg & Wb). destruct MI as (GS & NL & C & SH).
      assert (RP : resolve_path (curr_of s) g = g) by (rewrite C; apply resolve_plain; assumption).
      destruct (include_inv dbg fs _ s ln c d_include g s1 dir_include_name E) as (data & FD & RUN1).
      fold (curr_of s) in FD, RUN1. rewrite RP in FD, RUN1.
      unfold fs, fs_of in FD. rewrite LF in FD. cbn [option_map] in FD. inversion FD; subst data.
      destruct f as [|f']; [discriminate RUN1|].
      exact (IHd f' g b k tc k1 s s1 Pg Wb EX B1 GS SH RUN1).
    + inversion G1; subst. constructor. constructor.
Qed.

Lemma LinkQ_step d : LinkQ d -> LinkQ (S d).
Proof.
  intros IHd f path body k t k' s s' Pp W EX B G SH A.
  rewrite expand_S in EX. destruct (goL _ _ _ body k) as [[its k2]|] eqn:GO; [|discriminate EX]. inversion EX; subst.
  destruct (show_file_parse body W) as (els & PS & M). cbn [assemble] in A.
  destruct (file_run_ok dbg fs _ s _ path els s' PS A) as (st1 & RUN).
  cbn [SP.items_of].
  exact (run_noreg d f path IHd Pp body els its k k' _ st1 GO M W B (enter_mid base path k s G SH) RUN).
Qed.

Theorem LinkQ_all : forall d, LinkQ d.
Proof. induction d as [|d IH]; [intros f path body k t k' s s' _ _ EX; discriminate EX|apply LinkQ_step; exact IH]. Qed.

(* the root *)
Lemma root_noreg f root body t n s' :
  plain_name root = true -> forallb stmt_ok body = true ->
  SP.expand SP.max_depth files base body 0 = Some (t, n) -> (base + 4 * Z.of_N n < 4294967296)%Z ->
  assemble dbg fs (S f) init_state (show_file (SP.SAddr base :: body)) root = Ret None s' -> noreg_items (SP.items_of t).
Proof.
  intros Pr W EX B A. change SP.max_depth with (S 5) in EX.
  rewrite expand_S in EX. destruct (goL _ _ _ body 0%N) as [[its k2]|] eqn:GO; [|discriminate EX]. inversion EX; subst.
  destruct (show_file_parse _ (root_writable base Hbase body n W B)) as (els & PS & M). cbn [assemble] in A.
  destruct (file_run_ok dbg fs _ init_state _ root els s' PS A) as (st1 & RUN).
  destruct els as [|e0 els]; [discriminate M|]. cbn [map] in M. injection M as E0 M.
  destruct e0 as [ln c v]. cbn [e_val ev_of] in E0. subst v.
  cbn [map run_items] in RUN. unfold bind in RUN.
  destruct (step dbg fs (assemble dbg fs f) _ _) as [r1 s1| |] eqn:E; try discriminate RUN.
  destruct r1; [discriminate RUN|]. cbn [SP.items_of].
  exact (run_noreg 5 f root (LinkQ_all 5) Pr body els its 0%N n s1 st1 GO M W B (root_mid dbg files base f root ln c s1 E) RUN).
Qed.
End Link.

(* ------------------------------------------------------------------ the oracle's error list *)
Definition child_errors (E : SP.name -> list Z) (i : SP.item) : list SP.reason :=
  match i with SP.IChild c => SP.errors c E | _ => [] end.

Lemma errors_node l penv :
  SP.errors (SP.Node l) penv = SP.local_errors (SP.Node l) penv ++ flat_map (child_errors (SP.sources (SP.Node l) penv)) l.
Proof.
  cbn [SP.errors]. f_equal. generalize (SP.sources (SP.Node l) penv). intros E.
  induction l as [|i r IH]; [reflexivity|]. destruct i; cbn [flat_map child_errors app]; try exact IH. f_equal. exact IH.
Qed.

Lemma dup_only {A} (f : A -> bool) (l : list A) :
  ~ In SP.RRegisterName (flat_map (fun x => if f x then [SP.RDuplicate] else []) l).
Proof. intros H. apply in_flat_map in H. destruct H as (x & _ & H). destruct (f x); [destruct H as [H|[]]; discriminate H|destruct H]. Qed.

(* where RRegisterName comes from in the errors of one occurrence *)
Lemma local_register t penv : In SP.RRegisterName (SP.local_errors t penv) ->
  exists i x, In i (SP.items_of t) /\ SP.is_register x = true /\
    (i = SP.IGlobal x \/ i = SP.IImport x \/ i = SP.IExport x \/ exists v, i = SP.IDef x v).
Proof.
  unfold SP.local_errors. intros H. apply in_flat_map in H. destruct H as (i & IN & H).
  destruct i as [x v|x|x|x|x k|c].
  - exists (SP.IDef x v), x. split; [exact IN|]. destruct (SP.is_register x); [split; [reflexivity|eauto 6]|].
    cbn [app] in H. destruct (SP.two_or_more _); [destruct H as [H|[]]; discriminate H|destruct H].
  - exists (SP.IGlobal x), x. split; [exact IN|]. destruct (SP.is_register x); [split; [reflexivity|auto]|].
    cbn [app] in H. exfalso. destruct (SP.is_nil _); cbn [app] in H; [destruct H as [H|H]; [discriminate H|]|];
      (destruct (negb _); [destruct H as [H|[]]; discriminate H|destruct H]).
  - exists (SP.IImport x), x. split; [exact IN|]. destruct (SP.is_register x); [split; [reflexivity|auto]|].
    cbn [app] in H. exfalso. destruct (SP.is_nil _); cbn [app] in H; [destruct H as [H|H]; [discriminate H|]|];
      (destruct (SP.two_or_more _); [destruct H as [H|[]]; discriminate H|destruct H]).
  - exists (SP.IExport x), x. split; [exact IN|]. destruct (SP.is_register x); [split; [reflexivity|auto]|].
    cbn [app] in H. exfalso. destruct (SP.is_nil _); cbn [app] in H; [destruct H as [H|H]; [discriminate H|]|];
      (destruct (negb _); [destruct H as [H|[]]; discriminate H|destruct H]).
  - exfalso. destruct (SP.is_nil _); [destruct H as [H|[]]; discriminate H|].
    destruct (SP.two_or_more _); [destruct H as [H|[]]; discriminate H|destruct H].
  - exfalso. eapply dup_only. exact H.
Qed.

Lemma noreg_in its : noreg_items its -> forall i, In i its ->
  match i with
  | SP.IDef x _ | SP.IGlobal x | SP.IImport x | SP.IExport x => SP.is_register x = false
  | SP.IChild c => noreg_items (SP.items_of c)
  | SP.IUse _ _ => True
  end.
Proof.
  induction 1 as [|x v r R _ IH|x r R _ IH|x r R _ IH|x r R _ IH|x k r _ IH|c r NC _ _ IH]; intros i IN; [destruct IN|..];
    (destruct IN as [<-|IN]; [first [exact R|exact I|exact NC]|exact (IH i IN)]).
Qed.

Lemma noreg_errors : forall its, noreg_items its ->
  (forall penv, ~ In SP.RRegisterName (SP.errors (SP.Node its) penv)) /\
  (forall E, ~ In SP.RRegisterName (flat_map (child_errors E) its)).
Proof.
  assert (LOC : forall its, noreg_items its -> forall penv, ~ In SP.RRegisterName (SP.local_errors (SP.Node its) penv)).
  { intros its NR penv H. destruct (local_register _ _ H) as (i & x & IN & R & K). cbn [SP.items_of] in IN.
    pose proof (noreg_in its NR i IN) as Q.
    destruct K as [-> |[-> |[-> |(v & ->)]]]; congruence. }
  assert (STEP : forall its, noreg_items its -> (forall E, ~ In SP.RRegisterName (flat_map (child_errors E) its)) ->
                 forall penv, ~ In SP.RRegisterName (SP.errors (SP.Node its) penv)).
  { intros its NR CH penv H. rewrite errors_node in H. apply in_app_or in H. destruct H as [H|H]; [exact (LOC its NR penv H)|exact (CH _ H)]. }
  assert (CH : forall its, noreg_items its -> forall E, ~ In SP.RRegisterName (flat_map (child_errors E) its)).
  { induction 1 as [|x v r R _ IH|x r R _ IH|x r R _ IH|x r R _ IH|x k r _ IH|c r NC IHc _ IH]; intros E H;
      cbn [flat_map child_errors app] in H; try (exact (IH E H)); try destruct H.
    apply in_app_or in H. destruct H as [H|H]; [|exact (IH E H)].
    destruct c as [itsc]. cbn [SP.items_of] in *. exact (STEP itsc NC IHc E H). }
  intros its NR. split; [apply STEP; [exact NR|apply CH; exact NR]|apply CH; exact NR].
Qed.

Lemma top_errors_dup t : ~ In SP.RRegisterName (SP.top_errors t).
Proof. unfold SP.top_errors. apply dup_only. Qed.

(* ------------------------------------------------------------------ whole projects *)
(* success of the pipeline means that Context::assemble of the root returned Ok *)
Lemma success_root_ok dbg fs fuel path text diags regions : pipeline_gen dbg fs fuel path text = Done Success diags regions ->
  exists s1, assemble dbg fs fuel init_state text path = Ret None s1.
Proof.
  intros RUN. pose proof (pipeline_reported dbg fs fuel path text Success diags regions RUN) as (D & _).
  specialize (D eq_refl). subst diags.
  unfold pipeline_gen, pipeline_state in RUN.
  destruct (assemble dbg fs fuel init_state text path) as [r st1| |] eqn:A; cbn [CtxModel.bind] in RUN; try discriminate RUN.
  destruct r as [lv|]; [|eauto]. exfalso.
  destruct (assemble_reported dbg fs fuel _ _ _ _ _ A) as (_ & PU). specialize (PU ltac:(discriminate)).
  assert (NE : errors st1 <> []) by (destruct PU as (d0 & l0 & ->); discriminate).
  destruct (close_segment dbg st1) as [c st2| |] eqn:C; cbn [CtxModel.bind] in RUN; try discriminate RUN.
  pose proof (close_segment_same _ _ _ _ C) as S2. unfold Ctx06Proofs.same in S2.
  destruct c as [b|e]; [|discriminate RUN].
  unfold finalize, CtxModel.bind in RUN.
  destruct (final_loop dbg task_rounds (global_tasks st2) (set_global_tasks st2 [])) as [abort st3| |] eqn:L; try discriminate RUN.
  apply final_loop_spec in L. destruct L as [EX _].
  assert (NE3 : errors st3 <> []). { eapply ext_nonempty; [exact EX|]. cbn [errors set_global_tasks]. congruence. }
  destruct (errors st3) as [|d0 l0] eqn:E3; [congruence|]. rewrite orb_true_r in RUN. discriminate RUN.
Qed.

(* the oracle's error list contains RRegisterName => the pipeline does not report success (and a failure carries a diagnostic) *)
Theorem project_register_fails dbg p a t n fuel s diags regions : project_ok p = true ->
  SP.expand_project p = Some (a, t, n) -> (a + 4 * Z.of_N n < 4294967296)%Z ->
  In SP.RRegisterName (SP.errors t SP.no_env ++ SP.top_errors t) ->
  pipeline_gen dbg (project_fs p) fuel (project_root p) (project_text p) = Done s diags regions ->
  s <> Success /\ (s = Failure -> diags <> []).
Proof.
  intros OK EX B IN RUN. split; [|exact (proj2 (pipeline_reported _ _ _ _ _ _ _ _ RUN))].
  intros ->. destruct (success_root_ok _ _ _ _ _ _ _ RUN) as (s1 & A).
  destruct fuel as [|f]; [discriminate A|].
  destruct (project_ok_files p OK) as (Pr & HF).
  unfold project_text, project_root, project_fs, show_project in A. cbn [fst snd] in A. unfold SP.expand_project in EX.
  destruct (SP.lookup_file (SP.p_files p) (SP.p_root p)) as [[|[a0| | | | | | |] body]|] eqn:LF; try discriminate EX.
  destruct (SP.expand SP.max_depth (SP.p_files p) a0 body 0) as [[t0 n0]|] eqn:E; [|discriminate EX]. inversion EX; subst.
  destruct (HF _ _ (lookup_in _ _ _ LF)) as (_ & W). cbn [forallb] in W. apply andb_prop in W. destruct W as [W0 W].
  assert (Ha : (0 <= a)%Z). { unfold stmt_ok, Text.ShowSpec.writable_stmt in W0. cbn in W0. lia. }
  pose proof (root_noreg dbg (SP.p_files p) a HF Ha f (SP.p_root p) body t n s1 Pr W E B A) as NR.
  destruct t as [its]. cbn [SP.items_of] in NR.
  apply in_app_or in IN. destruct IN as [IN|IN].
  - exact (proj1 (noreg_errors its NR) SP.no_env IN).
  - exact (top_errors_dup _ IN).
Qed.

Lemma verdict_in p a t n r : SP.expand_project p = Some (a, t, n) -> SP.j_verdict (SP.judge_project p) = SP.MustDiag r ->
  In r (SP.errors t SP.no_env ++ SP.top_errors t).
Proof.
  unfold SP.judge_project. intros ->. destruct (SP.errors t SP.no_env ++ SP.top_errors t) as [|r0 l].
  - destruct (_ && _)%bool; discriminate.
  - cbn [SP.j_verdict]. intros H; inversion H. left. reflexivity.
Qed.

(* 3 (partial).  Verdict class covered: MustDiag RRegisterName.  With more include fuel than files the pipeline terminates, not
   with success, and a failure carries at least one diagnostic. *)
Theorem project_judgement_partial dbg p a t n f : project_ok p = true -> SP.expand_project p = Some (a, t, n) ->
  (a + 4 * Z.of_N n < 4294967296)%Z -> SP.j_verdict (SP.judge_project p) = SP.MustDiag SP.RRegisterName ->
  (List.length (SP.p_files p) <= f)%nat ->
  exists s diags regions, pipeline_gen dbg (project_fs p) (S f) (project_root p) (project_text p) = Done s diags regions /\
    s <> Success /\ (s = Failure -> diags <> []).
Proof.
  intros OK EX B V LT. destruct (project_done dbg p (S f) ltac:(lia)) as (s & diags & regions & RUN).
  exists s, diags, regions. split; [exact RUN|].
  exact (project_register_fails dbg p a t n (S f) s diags regions OK EX B (verdict_in p a t n _ EX V) RUN).
Qed.

(* r = `.addr 256; .include "a"; .du32 A;`   a = `.const A, 1; .export A; .global r7; r7:` : a register-named label two
   statements after a correct export, in an included file *)
Definition exr_p : SP.project :=
  SP.mkProject [([114%N], [SP.SAddr 256; SP.SInclude [97%N]; SP.SUse [65%N]]);
                ([97%N], [SP.SConst [65%N] 1; SP.SExport [65%N]; SP.SGlobal [114%N; 55%N]; SP.SLabel [114%N; 55%N]])] [114%N].
Lemma exr_facts :
  project_ok exr_p = true /\ SP.j_verdict (SP.judge_project exr_p) = SP.MustDiag SP.RRegisterName /\
  match pipeline_gen false (project_fs exr_p) 8 (project_root exr_p) (project_text exr_p) with
  | Done Failure [d1; d2] _ => d_file d1 = [97%N] /\ d_line d1 = 3%N /\ d_class d1 = KApply AConstReserved /\
                               d_file d2 = [114%N] /\ d_line d2 = 2%N /\ d_class d2 = KApply AIncFailed
  | _ => False
  end.
Proof. vm_compute. repeat split; reflexivity. Qed.
