(* C05 for projects, part 5: the end-of-file tasks of an open file, the statement loop with `.include` (induction on the
   include depth), a whole included file from `.include` to the statement after it, and the root file with close / finalize:
   the pipeline's image is the multi-file two-pass reference image. *)
From Coq Require Import ZArith NArith PeanoNat List Bool Lia ZifyBool ZifyNat ZifyN String.
From Trion Require Import Text.Types Expr.I64 Expr.EvalModel Expr.Denote Expr.C08Sound Arm.Instr Arm.DisplayModel Arm.AsmStmtModel Arm.EncodeModel
  Mem.MapModel Mem.DictSpec Mem.MapProofs Mem.MapLemmas Mem.MapOccupied
  Asm.CtxModel Asm.SegProofs Asm.SegPut Asm.LayoutSpec Asm.LayoutWf Asm.LayoutEval Asm.LayoutEvalC Asm.LayoutInstr Asm.LayoutInstrC Asm.LayoutInstrD
  Asm.LayoutDict Asm.ScopeProofs Asm.LayoutProofs Asm.LayoutSim Asm.LayoutStage Asm.Ctx06Proofs Asm.CtxNoPanic Asm.CtxInvCap Asm.LayoutStep Asm.LayoutFinal
  Asm.LayoutProg Asm.LayoutProgFinal.
From Trion Require Text.ParseModel.
From Trion Require Import Asm.LayoutSpecExt Asm.LayoutMulti Asm.LayoutMultiEval Asm.LayoutMultiMem Asm.LayoutMultiSpec Asm.LayoutMultiStep.
Import ListNotations.
Open Scope N_scope.

Ltac dh := solve [discriminate | match goal with H : _ = _ |- _ => discriminate H end].

Lemma seqb_false a b : a <> b -> CtxModel.str_eqb a b = false.
Proof. intros H. destruct (CtxModel.str_eqb a b) eqn:E; [|reflexivity]. apply ScopeProofs.str_eqb_eq in E. contradiction. Qed.

Section Tasks.
  Variables (dbg : bool) (EF : N -> env).

  (* the state while the pending tasks of the file (frame f, includer's frame p) run; pe = the includer's table after the
     hand-over of the names the file declared by `.global` *)
  Record TInv (path : str) (open : list str) (f : LayoutSpecExt.frame) (pe : senv) (cur : option N) (G : dict)
              (st : state) (own anc : list pend) (gts : list task) : Prop := mkTInv {
    ti_mem : MemI st cur G (own ++ anc);
    ti_loc : exists tbl, locals st = Some tbl /\ TblS tbl (f_env f);
    ti_glo1 : forall n, In n (globs own) -> tbl_get (globals st) n = Some None;
    ti_glo2 : forall n, ~ In n (globs own) -> tbl_get (globals st) n = bind_tbl (sget pe n);
    ti_path : path_stack st = path :: open;
    ti_lt : local_tasks st = Some [];
    ti_gt : global_tasks st = gts;
    ti_own : Forall (PendE (EF (f_id f))) own;
    ti_nd : NoDup (globs own);
    ti_val : forall n, In n (globs own) -> exists v, sget (f_env f) n = Some (BVal v) /\ sget pe n = Some (BVal v)
  }.

  Lemma tinv_next path open f pe cur G st st' t bs own anc gts :
    TInv path open f pe cur G st ((t, bs) :: own) anc gts -> globs [(t, bs)] = [] ->
    MemI st' cur G (own ++ anc) -> same_rest st st' ->
    TInv path open f pe cur G st' own anc gts.
  Proof.
    intros [M L G1 G2 EP ELT EGT OWN ND VAL] Hg M' (S1 & S2 & S3 & S4 & S5 & S6).
    assert (Eg : globs ((t, bs) :: own) = globs own) by (change ((t, bs) :: own) with ([(t, bs)] ++ own); rewrite globs_app, Hg; reflexivity).
    rewrite Eg in *. inversion OWN; subst.
    constructor; auto; try congruence.
    - destruct L as (tbl & EL & TS). exists tbl. split; [congruence|exact TS].
    - intros n Hn. rewrite S2. apply G1. exact Hn.
    - intros n Hn. rewrite S2. apply G2. exact Hn.
  Qed.

  Lemma run_task_ok path open f pe cur G st t bs own anc gts :
    TInv path open f pe cur G st ((t, bs) :: own) anc gts -> swf (f_env f) -> EF (f_id f) = vals (f_env f) ->
    exists st', run_task dbg st t = Ret None st' /\ TInv path open f pe cur G st' own anc gts /\ curr_name st' = curr_name st.
  Proof.
    intros H WF EFf. pose proof H as [M (tbl & EL & TS) G1 G2 EP ELT EGT OWN ND VAL].
    inversion OWN as [|? ? PE OWN']; subst. set (E := EF (f_id f)) in *.
    set (stv := vst st (f_env f)).
    pose proof (vst_locals st (f_env f)) as ELv. pose proof (vst_path st (f_env f) path open EP) as EPv.
    assert (TEv : TblEnv (tbl_of_env (vals (f_env f))) E) by (rewrite EFf; apply vst_tbl).
    assert (CL : forall a, (forall n, In n (LayoutEval.idents a) -> CtxModel.is_register n = true \/ exists v, env_get E n = Some v) -> clean (f_env f) a).
    { intros a K. apply clean_of_known; [exact WF|]. rewrite EFf in K. exact K. }
    cbn [app] in M.
    destruct t as [ai [|]|d [|]|n l c|n l c]; unfold PendE in PE; cbn [fst snd] in PE; try contradiction.
    - (* instruction *)
      destruct PE as (args & pos & a0 & a1 & iF & sF & nF & EAst & EPo & N0 & SG & AF & EF0). fold E in SG, AF.
      pose proof (enc_bytes_size _ _ _ EF0) as (_ & LF). pose proof (assemble_args_isz _ _ _ _ _ _ _ AF) as IF.
      cbn [run_task]. unfold instr_assemble. rewrite EAst. cbn [a_args].
      rewrite (first_panic_none st _ (ev_ok_real st tbl path open EL EP)).
      pose proof (assemble_args_swap _ _ _ _ _ _ _ a1 _ _ EPo N0 SG AF) as AF1.
      assert (AM : assemble_args (instr_ev st) false (ai_addr ai) (ai_instr ai) (mkAst (AsmStmtModel.set_nth pos a1 args) 0) = COk iF sF).
      { apply (assemble_args_mono_on _ (final_ev E) (instr_ev st) false false); [|exact AF1].
        intros a a' _ Ha. rewrite (instr_ev_clean st tbl (f_env f) path open EL EP TS WF a (CL a (final_ev_known E a a' Ha))).
        apply (end_ev_le E stv _ path open a a' ELv EPv TEv Ha). }
      rewrite AM. cbn [CtxModel.bind]. unfold write_instr. cbn [ai_instr ai_file ai_line ai_col ai_addr]. rewrite EF0.
      assert (Hpos : 0 < mlen bs) by (unfold mlen; rewrite LF; destruct iF; cbn; lia).
      destruct (memI_write_task dbg st cur G (InstrTask ai false) bs (own ++ anc) (ai_file ai) (ai_line ai) (ai_col ai) KInstrSegOverflow KInstrSegWrite
                  P_put_assert_instr M Hpos) as (st' & WS & M' & SR).
      cbn [task_addr] in WS. exists st'. split; [exact WS|]. split; [|apply SR].
      eapply tinv_next; eauto.
    - (* data *)
      destruct PE as (a0 & v & F0 & Dv & Rv & Dd & Ebs). fold E in F0, Dv, Dd.
      destruct (den64 (rho E) (de_arg d)) as [v1|] eqn:D1; [|congruence]. pose proof (fwd_den_eq _ _ _ _ _ F0 Dv D1) as ->.
      cbn [run_task]. unfold data_apply.
      rewrite (ctx_eval_clean st tbl (f_env f) path open EL EP TS WF (de_arg d) (CL _ (den64_known E _ _ D1))). fold stv.
      destruct (ctx_eval_now E E stv _ path open ELv EPv TEv (env_le_refl E) (de_arg d) v D1) as (ch & CE). rewrite CE. rewrite Rv.
      unfold write_data. cbn [de_set_arg de_file de_line de_col de_addr de_kind].
      assert (Hpos : 0 < mlen bs) by (rewrite Ebs, len_le_n'; destruct (de_kind d); cbn; lia).
      destruct (memI_write_task dbg st cur G (DataTask d false) bs (own ++ anc) (de_file d) (de_line d) (de_col d) (KApply ASegOverflow) (KApply ASegWrite)
                  P_put_assert_data M Hpos) as (st' & WS & M' & SR).
      cbn [task_addr] in WS. rewrite <- Ebs. rewrite WS. cbn [CtxModel.bind]. exists st'. split; [reflexivity|]. split; [|apply SR].
      eapply tinv_next; eauto.
    - (* .global: the value goes to the includer's table *)
      subst bs. assert (Hn : In n (globs ((GlobalTask n l c, []) :: own))) by (left; reflexivity).
      destruct (VAL n Hn) as (v & Sf & Sp). pose proof (G1 n Hn) as Gn.
      cbn [run_task]. unfold get_constant. cbn [realm_table]. rewrite EL. unfold lookup_of. rewrite (tbls_get_val _ _ _ _ TS Sf).
      unfold insert_constant. change (CtxModel.is_register n) with (AsmStmtModel.is_register n). rewrite (sget_not_reg _ _ _ WF Sf).
      cbn [realm_table]. rewrite Gn. cbn [CtxModel.bind set_realm_table].
      eexists. split; [reflexivity|]. split; [|reflexivity].
      assert (Eg : globs ((GlobalTask n l c, []) :: own) = n :: globs own) by reflexivity. rewrite Eg in *.
      inversion ND as [|? ? Nn ND']; subst.
      constructor; cbn [globals set_globals locals local_tasks global_tasks path_stack]; auto.
      + eapply memI_transport; [|apply (memI_drop0 st cur G (GlobalTask n l c) [] (own ++ anc) M eq_refl)]. repeat split.
      + exists tbl. auto.
      + intros m Hm. rewrite ScopeProofs.tbl_get_set. rewrite seqb_false by (intros ->; contradiction). apply G1. now right.
      + intros m Hm. rewrite ScopeProofs.tbl_get_set. destruct (CtxModel.str_eqb n m) eqn:Enm.
        * apply ScopeProofs.str_eqb_eq in Enm. subst m. rewrite Sp. reflexivity.
        * apply G2. intros [<-|Hi]; [rewrite str_eqb_refl in Enm; discriminate|contradiction].
      + intros m Hm. apply VAL. now right.
  Qed.

  Lemma local_round_ok path open f pe cur G anc gts : swf (f_env f) -> EF (f_id f) = vals (f_env f) ->
    forall own st, TInv path open f pe cur G st own anc gts ->
    exists st', local_round dbg (map fst own) st None = Ret None st' /\ TInv path open f pe cur G st' [] anc gts /\ curr_name st' = curr_name st.
  Proof.
    intros WF EFf. induction own as [|(t, bs) own IH]; intros st H.
    - exists st. cbn. auto.
    - destruct (run_task_ok path open f pe cur G st t bs own anc gts H WF EFf) as (st1 & RT & H1 & C1).
      destruct (IH st1 H1) as (st' & LR & H' & C'). exists st'. split; [|split; [exact H'|congruence]].
      cbn [map fst local_round]. rewrite RT. cbn [CtxModel.bind]. exact LR.
  Qed.

  (* the end of a file: all its tasks run; its own table is final, the includer's has the handed-over names *)
  Lemma tasks_ok path open f p x st own anc gts pe :
    FInv EF path open f p x st own anc gts -> EF (f_id f) = vals (f_env f) ->
    hand_over (f_env f) (f_env p) (f_glob f) = Some pe ->
    exists stb, local_loop dbg task_rounds (map fst own) (set_local_tasks st (Some [])) None = Ret None stb /\
      MemI stb (x_cur x) (gdx EF (x_items x)) anc /\ TblS (globals stb) pe /\ global_tasks stb = gts /\ path_stack stb = path :: open.
  Proof.
    intros [(rest & ES) M (tbl & EL & TS) TG EP ELT EGT OWN GL (WF & WP) ENV] EFf HO.
    destruct (hand_over_get _ _ _ _ HO) as (HG1 & HG2 & HND).
    assert (IG : forall n, In n (globs own) <-> In n (f_glob f)) by (intros n; rewrite GL; symmetry; apply in_rev).
    assert (T0 : TInv path open f pe (x_cur x) (gdx EF (x_items x)) (set_local_tasks st (Some [])) own anc gts).
    { constructor; cbn [globals locals local_tasks global_tasks path_stack set_local_tasks]; auto.
      - eapply memI_transport; [|exact M]. repeat split.
      - exists tbl. auto.
      - intros n Hn. apply IG in Hn. destruct (HG1 n Hn) as (v & _ & _ & Sp). rewrite (TG n), Sp. reflexivity.
      - intros n Hn. rewrite (TG n), HG2; [reflexivity|]. intros Hi. apply Hn, IG, Hi.
      - rewrite GL. apply NoDup_rev. exact HND.
      - intros n Hn. apply IG in Hn. destruct (HG1 n Hn) as (v & A & B & _). eauto. }
    destruct (local_round_ok path open f pe (x_cur x) (gdx EF (x_items x)) anc gts WF EFf own _ T0) as (st1 & LR & [M1 (tbl1 & EL1 & TS1) G1 G2 EP1 ELT1 EGT1 _ _ _] & C1).
    assert (Post : forall s, MemI s (x_cur x) (gdx EF (x_items x)) anc -> globals s = globals st1 -> global_tasks s = global_tasks st1 -> path_stack s = path_stack st1 ->
                   MemI s (x_cur x) (gdx EF (x_items x)) anc /\ TblS (globals s) pe /\ global_tasks s = gts /\ path_stack s = path :: open).
    { intros s Ms E1 E2 E3. split; [exact Ms|]. split; [|split; congruence].
      intros n. rewrite E1. apply G2. intros []. }
    change task_rounds with (S 3). destruct own as [|tb own'].
    - cbn [map local_loop]. cbn [map local_round] in LR. inversion LR; subst st1. eexists. split; [reflexivity|].
      apply Post; auto.
    - cbn [map]. rewrite local_loop_cons. cbn [map] in LR. rewrite LR. cbn [CtxModel.bind]. rewrite ELT1. cbv zeta. cbn [res_is_fatal local_loop].
      eexists. split; [reflexivity|]. apply Post; auto. eapply memI_transport; [|exact M1]. repeat split.
  Qed.
End Tasks.

(* ------------------------------------------------------------------ the statement loop, included files *)
Lemma existsb_notin c : forall l, ~ In c l -> existsb (fun o => CtxModel.str_eqb o c) l = false.
Proof.
  induction l as [|o l IH]; intros H; [reflexivity|]. cbn [existsb]. rewrite IH by (intros Hi; apply H; now right).
  rewrite seqb_false; [reflexivity|]. intros ->. apply H. now left.
Qed.

Lemma xwf_parts x f p rest : xwf x -> x_stack x = f :: p :: rest ->
  swf (f_env f) /\ swf (f_env p) /\ Forall (fun d => swf (snd (snd d))) (x_done x).
Proof. intros (f0 & p0 & r0 & E0 & A & B & C) ES. rewrite ES in E0. inversion E0; subst. auto. Qed.

Lemma include_name_inv ev v : include_name ev = Some v -> ev = EDirective (bytes_of_string "include") [AStr v].
Proof.
  unfold include_name. intros H. destruct ev as [n|name args|n a]; try discriminate H.
  destruct args as [|a [|b r]]; try discriminate H; destruct a; try discriminate H.
  destruct (dname name "include") eqn:K; [|discriminate H]. inversion H; subst.
  apply dname_lit in K. subst. reflexivity.
Qed.

Section File.
  Variables (dbg : bool) (fs fsr : str -> option (list N)) (EF : N -> env) (dF : list (N * (N * senv))).
  Hypothesis HdF : forall id pid e, In (id, (pid, e)) dF -> swf e -> EF id = vals e.

  (* what is known of a later pass-1 state: the tables only grow towards the final ones, pass 2 is defined for every item,
     every finished file instance is in the final list *)
  Definition futureF (x : px) : Prop := future EF x /\ (forall d, In d (x_done x) -> In d dF).

  Lemma future_back xa x' : xle xa x' -> xwf xa -> xwf x' -> futureF x' -> futureF xa.
  Proof.
    intros (f & p & f' & p' & rest & ESa & ES' & (Fid & Fm) & _ & Dn & It) Wa W' ((E1 & E2) & D).
    destruct (xwf_parts _ _ _ _ Wa ESa) as (WFa & _). destruct (xwf_parts _ _ _ _ W' ES') as (WF' & _).
    split; [split|].
    - intros f0 p0 r0 E0. rewrite ESa in E0. inversion E0; subst f0 p0 r0. intros n v Hn. rewrite <- Fid.
      apply (E1 f' p' rest ES'). rewrite (vals_get _ WFa) in Hn. rewrite (vals_get _ WF').
      destruct (sget (f_env f) n) as [[w| |]|] eqn:Sg; try discriminate. inversion Hn; subst w. rewrite (Fm _ _ Sg). reflexivity.
    - intros a id it Hi. apply E2, It, Hi.
    - intros d Hd. apply D, Dn, Hd.
  Qed.

  (* an included file, from the `.include` statement to the statement after it *)
  Definition inc_spec (k fuelM : nat) : Prop :=
    forall path open f p x st own anc gts cpath text els x1 xa,
      FInv EF path open f p x st own anc gts -> xwf x ->
      parse_els text = Some els ->
      xfile k fsr parse_ref (xpush x) (map e_val els) = Some x1 -> xpop x1 = Some xa ->
      cls fs fsr parse_ref EF k (path :: open) cpath (xpush x) (map e_val els) ->
      futureF xa ->
      exists st' f', assemble dbg fs fuelM st text cpath = Ret None st' /\ FInv EF path open f' p xa st' own anc gts.

  Lemma run_ok k fuelM : inc_spec k fuelM -> forall els path open f p x st own anc gts x',
    FInv EF path open f p x st own anc gts -> xwf x ->
    xfile (S k) fsr parse_ref x (map e_val els) = Some x' ->
    cls fs fsr parse_ref EF (S k) open path x (map e_val els) ->
    futureF x' ->
    exists st' own' f' p', run_items dbg fs (assemble dbg fs fuelM) (map Text.ParseModel.IOk els) st = Ret None st' /\
       FInv EF path open f' p' x' st' own' anc gts.
  Proof.
    intros IHinc. induction els as [|e r IH]; intros path open f p x st own anc gts x' H W HX HC HF.
    - cbn [map] in HX. rewrite xfile_nil in HX. inversion HX; subst x'. exists st, own, f, p. split; [reflexivity|exact H].
    - pose proof (xfile_wf fs fsr parse_ref EF (S k) open path x _ x' W HC HX) as W'.
      pose proof H as [(rest & ES) _ _ _ EP _ _ _ _ _ _].
      cbn [map] in HX, HC. rewrite xfile_cons in HX. rewrite cls_cons in HC.
      destruct (include_name (e_val e)) as [v|] eqn:IN.
      + (* .include *)
        destruct (xinc k fsr parse_ref x v) as [xa|] eqn:XI; [|discriminate].
        destruct HC as (Hfs & Hopen & HC). pose proof (xinc_le _ _ _ _ _ _ _ _ _ ES XI) as LE1.
        unfold xinc in XI. destruct (fsr v) as [text|] eqn:FV; [|discriminate]. destruct (parse_ref text) as [prog|] eqn:PR; [|discriminate].
        destruct (xfile k fsr parse_ref (xpush x) prog) as [x1|] eqn:XF; [|discriminate]. rewrite XI in HC. destruct HC as (HCc & HCr).
        destruct (parse_ref_els _ _ PR) as (elsc & PE & ->).
        assert (Wa : xwf xa).
        { pose proof (xfile_wf fs fsr parse_ref EF k _ _ _ _ x1 (xpush_wf x W) HCc XF) as W1.
          assert (ESp : x_stack (xpush x) = LayoutSpecExt.mkFrame (x_next x) [] [] :: f :: p :: rest) by (cbn [xpush x_stack]; rewrite ES; reflexivity).
          destruct (xfile_le _ _ _ _ _ _ _ _ _ ESp XF) as (f0 & p0 & f1 & p1 & r0 & E0 & E1 & _).
          rewrite ESp in E0. inversion E0; subst f0 p0 r0.
          destruct (xwf_parts _ _ _ _ W ES) as (_ & WP & _).
          exact (xpop_wf x1 xa f1 p1 p rest E1 WP W1 XI). }
        destruct LE1 as (f0 & p0 & fa & pa & r0 & E0 & Ea & LEf & LEp & LE3). rewrite ES in E0. inversion E0; subst f0 p0 r0.
        assert (LE2 : xle xa x') by (eapply xfile_le; eauto).
        pose proof (future_back xa x' LE2 Wa W' HF) as HFa.
        destruct (IHinc path open f p x st own anc gts (resolve_path path v) text elsc x1 xa H W PE XF XI HCc HFa) as (st1 & f1 & AS & H1).
        destruct (IH path open f1 p xa st1 own anc gts x' H1 Wa HX HCr HF) as (st' & own' & f' & p' & RI & H').
        exists st', own', f', p'. split; [|exact H'].
        cbn [map run_items]. destruct e as [line col ev]. cbn [e_val] in IN. apply include_name_inv in IN. subst ev.
        unfold step. cbn [e_val e_line e_col]. unfold process_directive.
        replace (dir_of (bytes_of_string "include")) with (Some DInclude) by (vm_compute; reflexivity).
        unfold dir_include. cbn [arity_check List.length Nat.eqb]. rewrite EP.
        rewrite (existsb_notin _ _ Hopen). rewrite <- Hfs, AS. cbn [CtxModel.bind]. exact RI.
      + (* any other statement *)
        destruct HC as (HS & HC). destruct (xstep fsr x (e_val e)) as [xa|] eqn:XS; [|discriminate]. destruct HC as (HFr & HCr).
        pose proof (xstep_wf fs fsr EF path x _ xa W HS XS) as Wa.
        destruct (xstep_le _ _ _ _ _ _ _ ES XS) as (f0 & p0 & fa & pa & r0 & E0 & Ea & _). rewrite ES in E0. inversion E0; subst f0 p0 r0.
        assert (LE2 : xle xa x') by (eapply xfile_le; eauto).
        pose proof (future_back xa x' LE2 Wa W' HF) as (HFa & _).
        destruct (step_ok dbg fs fsr (assemble dbg fs fuelM) EF path open f p x st own anc gts e xa H XS HS HFr HFa) as (st1 & own1 & f1 & p1 & ST & H1).
        pose proof (future_back xa x' LE2 Wa W' HF) as HFa'.
        destruct (IH path open f1 p1 xa st1 own1 anc gts x' H1 Wa HX HCr HF) as (st' & own' & f' & p' & RI & H').
        exists st', own', f', p'. split; [|exact H']. cbn [map run_items]. rewrite ST. cbn [CtxModel.bind]. exact RI.
  Qed.

  (* the body of a file: statements, then its pending tasks *)
  Lemma body_ok j m : inc_spec j m -> forall cpath open' fc f x0 st0 anc gts els x1 xa,
    FInv EF cpath open' fc f x0 st0 [] anc gts -> xwf x0 ->
    xfile (S j) fsr parse_ref x0 (map e_val els) = Some x1 -> xpop x1 = Some xa ->
    cls fs fsr parse_ref EF (S j) open' cpath x0 (map e_val els) ->
    (forall a id it, In (a, (id, it)) (x_items xa) -> pass2_item (EF id) a it <> None) -> (forall d, In d (x_done xa) -> In d dF) ->
    exists sta stb (own_c : list pend) fA pA restA pe,
      run_items dbg fs (assemble dbg fs m) (map Text.ParseModel.IOk els) st0 = Ret None sta /\ local_tasks sta = Some (map fst own_c) /\
      local_loop dbg task_rounds (map fst own_c) (set_local_tasks sta (Some [])) None = Ret None stb /\
      x_stack x1 = fA :: pA :: restA /\ hand_over (f_env fA) (f_env pA) (f_glob fA) = Some pe /\ swf pe /\
      xa = mkPx (x_cur x1) (set_env pA pe :: restA) (x_next x1) ((f_id fA, (f_id pA, f_env fA)) :: x_done x1) (x_items x1) /\
      MemI stb (x_cur x1) (gdx EF (x_items x1)) anc /\ TblS (globals stb) pe /\ global_tasks stb = gts /\ path_stack stb = cpath :: open'.
  Proof.
    intros IHinc cpath open' fc f x0 st0 anc gts els x1 xa H0 W0 XF XP HC HI HD.
    destruct (xpop_inv _ _ XP) as (fA & pA & restA & pe & ES1 & HO & Exa).
    pose proof (xfile_wf fs fsr parse_ref EF (S j) _ _ _ _ x1 W0 HC XF) as W1.
    destruct (xwf_parts _ _ _ _ W1 ES1) as (WFA & WPA & _).
    assert (EFA : EF (f_id fA) = vals (f_env fA)).
    { apply (HdF (f_id fA) (f_id pA) (f_env fA)); [|exact WFA]. apply HD. rewrite Exa. cbn [x_done]. now left. }
    assert (HF1 : futureF x1).
    { split; [split|].
      - intros f0 p0 r0 E0. rewrite ES1 in E0. inversion E0; subst f0 p0 r0. rewrite EFA. intros n v Hn; exact Hn.
      - intros a id it Hi. apply HI. rewrite Exa. cbn [x_items]. exact Hi.
      - intros d Hd. apply HD. rewrite Exa. cbn [x_done]. now right. }
    destruct (run_ok j m IHinc els cpath open' fc f x0 st0 [] anc gts x1 H0 W0 XF HC HF1) as (sta & own_c & f1 & p1 & RI & H1).
    pose proof H1 as [(r1 & E1) _ _ _ _ ELT1 _ _ _ _ _]. rewrite ES1 in E1. inversion E1; subst f1 p1 r1.
    destruct (tasks_ok dbg EF cpath open' fA pA x1 sta own_c anc gts pe H1 EFA HO) as (stb & LL & Mb & Tb & Gb & Pb).
    exists sta, stb, own_c, fA, pA, restA, pe.
    split; [exact RI|]. split; [exact ELT1|]. split; [exact LL|]. split; [exact ES1|]. split; [exact HO|].
    split; [exact (hand_over_swf _ _ _ _ WFA WPA HO)|]. split; [exact Exa|]. auto.
  Qed.

  Lemma tbls_nil : TblS [] [].
  Proof. intros n. reflexivity. Qed.

  Lemma inc_all : forall k fuelM, (k <= fuelM)%nat -> inc_spec k fuelM.
  Proof.
    induction k as [|j IH]; intros fuelM Hle path open f p x st own anc gts cpath text els x1 xa H W PE XF XP HC HF.
    - cbn in XF. discriminate XF.
    - destruct fuelM as [|m]; [lia|]. assert (Hjm : (j <= m)%nat) by lia.
      pose proof H as [(rest & ES) M (tbl & EL & TS) TG EP ELT EGT OWN GL (WF & WP) ENV].
      set (fc := LayoutSpecExt.mkFrame (x_next x) [] []).
      set (st0 := mkState (output st) (active st) tbl (Some []) (map fst own) (Some []) (errors st) (cpath :: path :: open) cpath).
      set (fr := CtxModel.mkFrame (S (List.length (path :: open))) (curr_name st) (Some (globals st)) (Some (global_tasks st))).
      assert (EE : enter_file st cpath = (st0, fr)) by (unfold enter_file; rewrite EL, ELT, EP; reflexivity).
      assert (ESp : x_stack (xpush x) = fc :: f :: p :: rest) by (cbn [xpush x_stack]; rewrite ES; reflexivity).
      assert (H0 : FInv EF cpath (path :: open) fc f (xpush x) st0 [] (own ++ anc) (map fst own)).
      { constructor; cbn [xpush x_cur x_items]; auto.
        - eexists; exact ESp.
        - cbn [app]. eapply memI_transport; [|exact M]. repeat split.
        - exists []. split; [reflexivity|apply tbls_nil].
        - split; [exact I|exact WF].
        - intros n v Hn. discriminate Hn. }
      destruct HF as ((FE1 & FE2) & FD).
      destruct (body_ok j m (IH m Hjm) cpath (path :: open) fc f (xpush x) st0 (own ++ anc) (map fst own) els x1 xa H0 (xpush_wf x W) XF XP HC FE2 FD)
        as (sta & stb & own_c & fA & pA & restA & pe & RI & ELTa & LL & ES1 & HO & WFpe & Exa & Mb & Tb & Gb & Pb).
      (* the includer's frame after the included file *)
      destruct (xfile_le _ _ _ _ _ _ _ _ _ ESp XF) as (f0 & p0 & f1 & p1 & r0 & E0 & E1 & _ & (Fid & _) & _).
      rewrite ESp in E0. inversion E0; subst f0 p0 r0. rewrite ES1 in E1. inversion E1; subst f1 p1 restA.
      destruct (xfile_glob _ _ _ _ _ _ _ _ _ ESp XF) as (f2 & p2 & E2 & Gl2). rewrite ES1 in E2. inversion E2; subst f2 p2.
      change (assemble dbg fs (S m) st text cpath) with (assemble_body dbg fs (assemble dbg fs m) st text cpath).
      unfold assemble_body. rewrite EE. unfold do_assemble. rewrite (parse_els_ok _ _ PE), RI. cbn [CtxModel.bind res_is_fatal].
      rewrite ELTa, LL. cbn [CtxModel.bind].
      unfold leave_file. rewrite Pb. cbn [List.length f_count fr Nat.eqb]. rewrite Nat.eqb_refl. cbn [negb f_constants f_tasks f_name fr CtxModel.bind].
      eexists _, (set_env pA pe). split; [reflexivity|].
      rewrite Exa. constructor; cbn [x_stack x_cur x_items set_env f_env f_id f_glob locals globals local_tasks global_tasks path_stack]; auto.
      + eexists; reflexivity.
      + eapply memI_transport; [|exact Mb]. repeat split.
      + eexists. split; [reflexivity|exact Tb].
      + rewrite Gb. reflexivity.
      + rewrite Fid. exact OWN.
      + rewrite Gl2. exact GL.
      + assert (Ex : x_stack xa = set_env pA pe :: p :: rest) by (rewrite Exa; reflexivity). exact (FE1 (set_env pA pe) p rest Ex).
  Qed.

  (* the root file, close and finalize *)
  Lemma root_ok fuel path text els x1 x2 : (8 <= fuel)%nat ->
    parse_els text = Some els -> xfile 8 fsr parse_ref px0 (map e_val els) = Some x1 -> xpop x1 = Some x2 ->
    cls fs fsr parse_ref EF 8 [] path px0 (map e_val els) ->
    (forall a id it, In (a, (id, it)) (x_items x2) -> pass2_item (EF id) a it <> None) -> (forall d, In d (x_done x2) -> In d dF) ->
    pipeline_gen dbg fs fuel path text = Done Success [] (runs (gdx EF (x_items x2))).
  Proof.
    intros Hf PE XF XP HC HI HD. destruct fuel as [|m]; [lia|]. assert (H7 : (7 <= m)%nat) by lia.
    set (st0 := mkState [] Inactive [] (Some []) [] (Some []) [] [path] path).
    set (fr := CtxModel.mkFrame 1 unknown_name None None).
    set (f1 := LayoutSpecExt.mkFrame 1 [] []). set (f0 := LayoutSpecExt.mkFrame 0 [] []).
    assert (H0 : FInv EF path [] f1 f0 px0 st0 [] [] []).
    { constructor; cbn [px0 x_stack x_cur x_items gdx app]; auto.
      - eexists; reflexivity.
      - apply memI_init; reflexivity.
      - exists []. split; [reflexivity|apply tbls_nil].
      - apply tbls_nil.
      - split; exact I.
      - intros n v Hn. discriminate Hn. }
    assert (W0 : xwf px0) by (exists f1, f0, []; repeat split; try exact I; constructor).
    destruct (body_ok 7 m (inc_all 7 m H7) path [] f1 f0 px0 st0 [] [] els x1 x2 H0 W0 XF XP HC HI HD)
      as (sta & stb & own_c & fA & pA & restA & pe & RI & ELTa & LL & ES1 & HO & WFpe & Exa & Mb & Tb & Gb & Pb).
    unfold pipeline_gen, pipeline_state.
    change (assemble dbg fs (S m) init_state text path) with (assemble_body dbg fs (assemble dbg fs m) init_state text path).
    unfold assemble_body. change (enter_file init_state path) with (st0, fr). cbv iota beta.
    unfold do_assemble. rewrite (parse_els_ok _ _ PE), RI. cbn [CtxModel.bind res_is_fatal]. rewrite ELTa, LL. cbn [CtxModel.bind].
    unfold leave_file. rewrite Pb. cbn [List.length f_count fr Nat.eqb negb f_constants f_tasks f_name CtxModel.bind].
    match goal with |- context[close_segment dbg ?s] => set (stc := s) end.
    assert (Mc : MemI stc (x_cur x1) (gdx EF (x_items x1)) []) by (eapply memI_transport; [|exact Mb]; repeat split).
    destruct (memI_close dbg stc _ _ Mc) as (b & st2 & CL & IT & E2 & (_ & _ & _ & S4 & _)).
    rewrite CL. cbn [CtxModel.bind]. unfold finalize. rewrite S4. cbn [global_tasks stc]. rewrite Gb.
    change task_rounds with (S 3). cbn [final_loop CtxModel.bind orb]. cbn [errors set_global_tasks output]. rewrite E2, IT.
    cbn [negb rev]. rewrite Exa. reflexivity.
  Qed.
End File.

(* ------------------------------------------------------------------ the project theorem *)
Theorem project_layout dbg fs fuel path text els placed names : (8 <= fuel)%nat ->
  parse_els text = Some els ->
  layout_spec_ext (rel_fs fs path) parse_ref (map e_val els) = Some (placed, names) ->
  C05_project_class fs path (map e_val els) ->
  pipeline_gen dbg fs fuel path text = Done Success [] (image_x placed).
Proof.
  intros Hf PE HL HC. unfold C05_project_class in HC. unfold layout_spec_ext in HL. unfold px_final in HC. fold px0 in HL.
  destruct (xfile 8 (rel_fs fs path) parse_ref px0 (map e_val els)) as [x1|] eqn:XF; [|discriminate].
  destruct (xpop x1) as [x2|] eqn:XP; [|discriminate].
  destruct (xpass2 (x_done x2) (rev (x_items x2))) as [pl|] eqn:P2; [|discriminate]. inversion HL; subst placed names. clear HL.
  assert (PF : px_final (rel_fs fs path) parse_ref (map e_val els) = Some x2) by (unfold px_final; rewrite XF; exact XP).
  unfold image_x. rewrite (image_dict_gdx x2 pl P2).
  apply (root_ok dbg fs (rel_fs fs path) (EF_of x2) (x_done x2)) with (x1 := x1) (els := els); auto.
  - intros id pid e Hi We. unfold EF_of. apply (final_env_vals _ _ pid e 15); [|exact We].
    apply (px_final_dget _ _ _ _ PF). exact Hi.
  - intros a id it Hi. apply (xpass2_all _ _ _ P2). apply -> in_rev. exact Hi.
Qed.
