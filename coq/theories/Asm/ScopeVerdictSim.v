(* C14, the Accept direction, part 2: the Context model follows the reading of Asm/ScopeVerdictAbs.v.
   `mst s0 base a lt`: the state of the model while a file is open, written out in full: the frame s0 (output map, includer's
   deferred tasks, diagnostics, path stack, current name: none of them changes), the active segment (base, the words of `a` as
   bytes, capacity up to the end of the address space), the two tables of `a`, the file's deferred tasks lt (related to the
   tasks of `a`: same names, the data tasks at base + 4k).
   m_*: one statement / one deferred task of the reading that is not stuck is one step of the model between such states.
   Proof file (no model definitions). *)
From Coq Require Import ZArith NArith PeanoNat List Bool Lia ZifyBool ZifyNat ZifyN.
From Trion Require Import Text.Types.
From Trion Require Text.ParseModel Arm.AsmStmtModel Expr.EvalModel.
From Trion Require Import Mem.MapModel Mem.MapProofs Asm.CtxModel Asm.SegProofs.
From Trion Require Import Asm.ScopeProofs Asm.ScopeValue.
From Trion Require Asm.Ctx06Proofs.
From Trion Require Import Asm.ScopeVerdictAbs.
Import ListNotations.
Local Open Scope N_scope.

(* ------------------------------------------------------------------ words and bytes *)
Lemma wbytes_len w : MapModel.len (wbytes w) = 4.
Proof. destruct w; reflexivity. Qed.
Lemma wbytes_length w : List.length (wbytes w) = 4%nat.
Proof. destruct w; reflexivity. Qed.

Lemma flat_app a b : flat (a ++ b) = flat a ++ flat b.
Proof. unfold flat. apply flat_map_app. Qed.
Lemma flat_len W : MapModel.len (flat W) = 4 * N.of_nat (List.length W).
Proof.
  induction W as [|w r IH]; [reflexivity|]. unfold flat in *. cbn [flat_map List.length]. rewrite len_app, wbytes_len, IH. lia.
Qed.

Lemma firstn_app_len {A} (a b : list A) n : firstn (List.length a + n) (a ++ b) = a ++ firstn n b.
Proof. rewrite firstn_app. replace (List.length a + n - List.length a)%nat with n by lia.
  rewrite firstn_all2 by lia. reflexivity. Qed.
Lemma skipn_app_len {A} (a b : list A) n : skipn (List.length a + n) (a ++ b) = skipn n b.
Proof. rewrite skipn_app. replace (List.length a + n - List.length a)%nat with n by lia.
  rewrite skipn_all2 by lia. reflexivity. Qed.

Lemma splice_word_nat : forall W k w, (k < List.length W)%nat ->
  firstn (4 * k) (flat W) ++ wbytes w ++ skipn (4 * k + 4) (flat W) = flat (wset W k w).
Proof.
  induction W as [|a r IH]; intros k w H; [cbn in H; lia|]. unfold flat in *. cbn [flat_map]. destruct k as [|k].
  - cbn [wset flat_map Nat.mul firstn app Nat.add]. replace 4%nat with (List.length (wbytes a) + 0)%nat by (rewrite wbytes_length; lia).
    rewrite skipn_app_len. reflexivity.
  - cbn [wset flat_map List.length] in *.
    replace (4 * S k)%nat with (List.length (wbytes a) + 4 * k)%nat by (rewrite wbytes_length; lia).
    rewrite <- Nat.add_assoc, firstn_app_len, skipn_app_len, <- app_assoc. f_equal. apply IH. lia.
Qed.

Lemma splice_word W k w : (k < List.length W)%nat ->
  splice (flat W) (4 * N.of_nat k) (wbytes w) = flat (wset W k w).
Proof.
  intros H. unfold splice. rewrite wbytes_len, takeN_firstn, dropN_skipn.
  replace (N.to_nat (4 * N.of_nat k)) with (4 * k)%nat by lia. replace (N.to_nat (4 * N.of_nat k + 4)) with (4 * k + 4)%nat by lia.
  apply splice_word_nat. exact H.
Qed.

Lemma splice_end buf data : splice buf (MapModel.len buf) data = buf ++ data.
Proof. unfold splice. rewrite takeN_all by lia. rewrite dropN_all by lia. rewrite app_nil_r. reflexivity. Qed.

(* ------------------------------------------------------------------ the states *)
Definition upd (s : state) (a : segment) (g : table) (l : option table) (lt : option (list task)) : state :=
  mkState (output s) a g l (global_tasks s) lt (errors s) (path_stack s) (curr_name s).

Definition smax (base : Z) : N := MapModel.U32MAX - Z.to_N base + 1.
Definition mseg (base : Z) (W : list word) : aseg := mkSeg (Z.to_N base) (flat W) (smax base).
Definition mst (s0 : state) (base : Z) (a : ast) (lt : list task) : state :=
  upd s0 (Active (mseg base (aW a))) (aG a) (Some (aT a)) (Some lt).

Definition task_rel (base : Z) (t : task) (p : ptask) : Prop :=
  match p, t with
  | PG x, GlobalTask y _ _ => y = x
  | PU k x, DataTask d false => de_arg d = AIdent x /\ de_kind d = DU32 /\ de_addr d = Z.to_N base + 4 * k
  | _, _ => False
  end.

(* the words fit below 2^32 *)
Definition fits (base : Z) (n : nat) : Prop := (0 <= base)%Z /\ Z.to_N base + 4 * N.of_nat n <= MapModel.U32MAX.

Lemma mseg_inv base W : fits base (List.length W) -> SegInv [] (mseg base W).
Proof.
  intros (H0 & H). unfold SegInv, mseg, blen, smax. cbn [s_base s_buf s_max]. rewrite len_eq, flat_len.
  unfold CtxSeg.U32, MapModel.U32, MapModel.U32MAX in *. repeat split; try lia. intros g [].
Qed.

Lemma mseg_curr base W : fits base (List.length W) -> curr_addr (mseg base W) = Z.to_N base + 4 * N.of_nat (List.length W).
Proof.
  intros (H0 & H). unfold curr_addr, mseg, blen, sat_add32. cbn [s_base s_buf]. rewrite len_eq, flat_len.
  unfold CtxSeg.U32MAX, MapModel.U32MAX in *. lia.
Qed.

(* a write inside the active segment *)
Lemma write_in_active dbg st sg f l c addr data k1 k2 p :
  active st = Active sg -> SegInv [] sg -> s_base sg <= addr -> addr <= curr_addr sg ->
  (addr - s_base sg) + MapModel.len data <= s_max sg ->
  ((addr - s_base sg <? blen sg) || ((addr - s_base sg =? blen sg) && (blen sg <? s_max sg))) = true ->
  write_stmt dbg st f l c addr data k1 k2 p =
  Ret None (set_active st (Active (set_buf sg (splice (s_buf sg) (addr - s_base sg) data)))).
Proof.
  intros EA HI H1 H2 H3 HC. unfold write_stmt. rewrite EA, (covers_spec dbg [] sg addr HI).
  assert (E : (s_base sg <=? addr) = true) by lia. rewrite E, HC. cbn [andb].
  destruct (write_at_ok dbg [] sg addr data HI H1 H2 H3) as (W & _). rewrite W. reflexivity.
Qed.

Section Steps.
Variables (dbg : bool) (fs : str -> option (list N)) (inc : state -> list N -> str -> res result).
Variables (s0 : state) (base : Z).
Hypothesis PS : path_stack s0 <> [].

Lemma mst_eval_table a lt : eval_table (mst s0 base a lt) = Some (aT a).
Proof. unfold eval_table, mst, upd. cbn [path_stack locals]. destruct (path_stack s0); [congruence|reflexivity]. Qed.

(* ---- .const / label ---- *)
Lemma m_insert a lt x v a' : astep (SPA.IDef x v) a = Some a' ->
  exists b, insert_constant (mst s0 base a lt) x v RLocal = Ret (inl b) (mst s0 base a' lt).
Proof.
  unfold astep, insert_constant. destruct (is_register x); [discriminate|]. cbn [realm_table mst upd locals set_realm_table].
  destruct (tbl_get (aT a) x) as [[w|]|]; intros H; inversion H; subst; eexists; reflexivity.
Qed.

Lemma m_const a lt l c dn x v a' : dir_of dn = Some DConst -> astep (SPA.IDef x v) a = Some a' ->
  step dbg fs inc (mst s0 base a lt) (mkElement l c (EDirective dn [AIdent x; AConst v])) = Ret None (mst s0 base a' lt).
Proof.
  intros DN A. unfold step, process_directive. cbn [e_val e_line e_col]. rewrite DN.
  unfold dir_const. cbn [arity_check List.length Nat.eqb]. unfold eval_now. rewrite Ctx06Proofs.eval_const. cbn [CtxModel.bind].
  destruct (m_insert a lt x v a' A) as (b & ->). reflexivity.
Qed.

Lemma m_label a lt l c x v a' : v = Z.of_N (curr_addr (mseg base (aW a))) -> astep (SPA.IDef x v) a = Some a' ->
  step dbg fs inc (mst s0 base a lt) (mkElement l c (ELabel x)) = Ret None (mst s0 base a' lt).
Proof.
  intros -> A. unfold step. cbn [e_val e_line e_col]. change (active (mst s0 base a lt)) with (Active (mseg base (aW a))). cbv iota.
  destruct (m_insert a lt x _ a' A) as (b & ->). reflexivity.
Qed.

(* ---- .import / .export / .global ---- *)
Lemma m_import a lt l c dn x a' : dir_of dn = Some DImport -> astep (SPA.IImport x) a = Some a' ->
  step dbg fs inc (mst s0 base a lt) (mkElement l c (EDirective dn [AIdent x])) = Ret None (mst s0 base a' lt).
Proof.
  intros DN. unfold step, process_directive. cbn [e_val e_line e_col]. rewrite DN.
  unfold astep, dir_global. cbn [arity_check List.length Nat.eqb]. unfold get_constant. cbn [realm_table mst upd globals]. unfold lookup_of.
  destruct (is_register x) eqn:R; [discriminate|].
  destruct (tbl_get (aG a) x) as [[v|]|]; try discriminate. destruct (tbl_get (aT a) x) as [w|] eqn:T; [discriminate|].
  intros H; inversion H; subst. unfold insert_constant. rewrite R. cbn [realm_table mst upd locals]. rewrite T. reflexivity.
Qed.

Lemma m_export a lt l c dn x a' : dir_of dn = Some DExport -> astep (SPA.IExport x) a = Some a' ->
  step dbg fs inc (mst s0 base a lt) (mkElement l c (EDirective dn [AIdent x])) = Ret None (mst s0 base a' lt).
Proof.
  intros DN. unfold step, process_directive. cbn [e_val e_line e_col]. rewrite DN.
  unfold astep, dir_global. cbn [arity_check List.length Nat.eqb]. unfold get_constant. cbn [realm_table mst upd locals]. unfold lookup_of.
  destruct (is_register x) eqn:R; [discriminate|].
  destruct (tbl_get (aT a) x) as [[v|]|]; try discriminate. destruct (tbl_get (aG a) x) as [w|] eqn:G; [discriminate|].
  intros H; inversion H; subst. unfold insert_constant. rewrite R. cbn [realm_table mst upd globals]. rewrite G. reflexivity.
Qed.

Lemma m_global a lt l c dn x a' : dir_of dn = Some DGlobal -> astep (SPA.IGlobal x) a = Some a' ->
  exists lt', step dbg fs inc (mst s0 base a lt) (mkElement l c (EDirective dn [AIdent x])) = Ret None (mst s0 base a' lt') /\
    ((lt' = lt /\ aP a' = aP a) \/ (lt' = lt ++ [GlobalTask x l c] /\ aP a' = aP a ++ [PG x])).
Proof.
  intros DN. unfold step, process_directive. cbn [e_val e_line e_col]. rewrite DN.
  unfold astep, dir_global. cbn [arity_check List.length Nat.eqb].
  destruct (is_register x) eqn:R; [discriminate|].
  destruct (tbl_get (aG a) x) as [w|] eqn:G; [discriminate|].
  unfold defer_constant at 1. rewrite R. cbn [realm_table mst upd globals]. rewrite G. cbn [CtxModel.bind set_realm_table].
  unfold get_constant. cbn [realm_table set_globals locals mst upd]. unfold lookup_of.
  destruct (tbl_get (aT a) x) as [[v|]|] eqn:T; try discriminate; intros H; inversion H; subst; clear H.
  - exists lt. split; [|left; auto]. unfold insert_constant. rewrite R. cbn [realm_table set_globals globals].
    rewrite tbl_get_set, str_eqb_refl. reflexivity.
  - exists (lt ++ [GlobalTask x l c]). split; [|right; auto]. unfold defer_constant. rewrite R. cbn [realm_table set_globals locals mst upd]. rewrite T.
    reflexivity.
Qed.

(* ---- .du32 ---- *)
Lemma m_use a lt l c dn x k a' : dir_of dn = Some (DData DU32) -> fits base (S (List.length (aW a))) ->
  k = N.of_nat (List.length (aW a)) -> astep (SPA.IUse x k) a = Some a' ->
  exists lt', step dbg fs inc (mst s0 base a lt) (mkElement l c (EDirective dn [AIdent x])) = Ret None (mst s0 base a' lt') /\
    ((lt' = lt /\ aP a' = aP a) \/
     (exists d, lt' = lt ++ [DataTask d false] /\ task_rel base (DataTask d false) (PU k x) /\ aP a' = aP a ++ [PU k x])).
Proof.
  intros DN FT -> A. unfold step, process_directive. cbn [e_val e_line e_col]. rewrite DN.
  assert (FT0 : fits base (List.length (aW a))) by (destruct FT as (F0 & F1); split; [exact F0|lia]).
  pose proof (mseg_inv base (aW a) FT0) as HI. pose proof (mseg_curr base (aW a) FT0) as CA.
  unfold dir_data. change (active (mst s0 base a lt)) with (Active (mseg base (aW a))). cbv iota.
  assert (HR : has_remaining dbg (mseg base (aW a)) (dk_size DU32) = SOk true).
  { unfold has_remaining. rewrite (remaining_ok dbg [] _ HI). cbn [sbind]. f_equal.
    destruct FT as (F0 & F1). unfold mseg, blen, smax. cbn [s_max s_buf dk_size]. rewrite len_eq, flat_len.
    unfold MapModel.U32MAX in *. lia. }
  rewrite HR. cbn [arity_check List.length Nat.eqb].
  unfold astep in A. destruct (is_register x) eqn:R; [discriminate|].
  unfold data_apply. cbn [de_arg]. rewrite (ctx_eval_ident _ x _ (mst_eval_table a lt) R).
  (* the bytes go to the end of the buffer *)
  assert (WR : forall st d w, active st = Active (mseg base (aW a)) -> de_addr d = curr_addr (mseg base (aW a)) ->
                 write_data dbg st d (wbytes w) = Ret None (set_active st (Active (set_buf (mseg base (aW a)) (flat (aW a ++ [w])))))).
  { intros st d w EA AD. unfold write_data. rewrite AD.
    rewrite (write_in_active dbg st (mseg base (aW a)) _ _ _ _ (wbytes w) _ _ _ EA HI).
    - rewrite CA. cbn [mseg s_base s_buf]. replace (Z.to_N base + 4 * N.of_nat (List.length (aW a)) - Z.to_N base) with (MapModel.len (flat (aW a))) by (rewrite flat_len; lia).
      rewrite splice_end, flat_app. unfold flat at 3. cbn [flat_map]. rewrite app_nil_r. reflexivity.
    - rewrite CA. cbn [mseg s_base]. lia.
    - lia.
    - rewrite CA, wbytes_len. destruct FT as (F0 & F1). unfold mseg, smax. cbn [s_base s_max]. unfold MapModel.U32MAX in *. lia.
    - rewrite CA. unfold mseg, blen, smax. cbn [s_base s_buf s_max]. rewrite len_eq, flat_len.
      destruct FT as (F0 & F1). unfold MapModel.U32MAX in *.
      replace (Z.to_N base + 4 * N.of_nat (List.length (aW a)) - Z.to_N base) with (4 * N.of_nat (List.length (aW a))) by lia.
      rewrite N.ltb_irrefl, N.eqb_refl. cbn [orb andb]. lia. }
  destruct (tbl_get (aT a) x) as [[v|]|] eqn:T.
  - (* valued *)
    cbn [de_kind]. change (dk_max DU32) with 4294967295%Z. fold (u32z v). destruct (u32z v); [|discriminate A]. inversion A; subst a'; clear A.
    cbn [CtxModel.bind dk_size]. change (le_n 4 (Z.to_N v)) with (wbytes (WV v)). rewrite WR; [|reflexivity|reflexivity]. cbn [CtxModel.bind].
    exists lt. split; [reflexivity|left; auto].
  - (* declared *)
    inversion A; subst a'; clear A. cbn [CtxModel.bind de_set_arg de_kind de_file de_line de_col de_addr dk_size].
    change (padding 4) with (wbytes WP). rewrite WR; [|reflexivity|reflexivity]. cbn [CtxModel.bind add_task set_active local_tasks mst upd].
    eexists. split; [reflexivity|]. right. eexists. split; [reflexivity|]. split; [|reflexivity].
    cbn [task_rel de_arg de_kind de_addr]. rewrite CA. auto.
  - (* unknown *)
    inversion A; subst a'; clear A. cbn [CtxModel.bind de_set_arg de_kind de_file de_line de_col de_addr dk_size].
    change (padding 4) with (wbytes WP). rewrite WR; [|reflexivity|reflexivity]. cbn [CtxModel.bind add_task set_active local_tasks mst upd].
    eexists. split; [reflexivity|]. right. eexists. split; [reflexivity|]. split; [|reflexivity].
    cbn [task_rel de_arg de_kind de_addr]. rewrite CA. auto.
Qed.

(* ---- the deferred tasks ---- *)
Lemma m_task a lt t p a' : fits base (List.length (aW a)) -> task_rel base t p -> atask p a = Some a' ->
  run_task dbg (mst s0 base a lt) t = Ret None (mst s0 base a' lt).
Proof.
  intros FT TR A. destruct p as [x|k x]; cbn [task_rel] in TR.
  - destruct t as [| |y l c|]; try contradiction. subst y. cbn [run_task atask] in *.
    destruct (is_register x) eqn:R; [discriminate A|].
    unfold get_constant. cbn [realm_table mst upd locals]. unfold lookup_of.
    destruct (tbl_get (aT a) x) as [[v|]|]; try discriminate A. destruct (tbl_get (aG a) x) as [[w|]|] eqn:G; try discriminate A.
    inversion A; subst a'. unfold insert_constant. rewrite R. cbn [realm_table globals mst upd]. rewrite G. reflexivity.
  - destruct t as [|d [|]| |]; try contradiction. destruct TR as (DA & DK & AD). cbn [run_task atask] in *.
    destruct (is_register x) eqn:R; [discriminate A|].
    unfold data_apply. rewrite DA, (ctx_eval_ident _ x _ (mst_eval_table a lt) R).
    destruct (tbl_get (aT a) x) as [[v|]|]; try discriminate A. rewrite DK. change (dk_max DU32) with 4294967295%Z. fold (u32z v).
    destruct (u32z v); [|discriminate A]. cbn [andb] in A. destruct (Nat.ltb (N.to_nat k) (List.length (aW a))) eqn:KL; [|discriminate A].
    apply Nat.ltb_lt in KL. inversion A; subst a'; clear A.
    pose proof (mseg_inv base (aW a) FT) as HI. pose proof (mseg_curr base (aW a) FT) as CA.
    unfold write_data. cbn [de_set_arg de_addr de_file de_line de_col dk_size]. rewrite AD.
    rewrite (write_in_active dbg (mst s0 base a lt) (mseg base (aW a)) _ _ _ _ _ _ _ _ eq_refl HI).
    + cbn [CtxModel.bind mseg s_base s_buf]. replace (Z.to_N base + 4 * k - Z.to_N base) with (4 * N.of_nat (N.to_nat k)) by lia.
      change (le_n 4 (Z.to_N v)) with (wbytes (WV v)). rewrite splice_word by exact KL. reflexivity.
    + cbn [mseg s_base]. lia.
    + rewrite CA. lia.
    + destruct FT as (F0 & F1). unfold mseg, smax. cbn [s_base s_max]. change (MapModel.len (le_n 4 (Z.to_N v))) with 4.
      unfold MapModel.U32MAX in *. lia.
    + unfold mseg, blen. cbn [s_base s_buf]. rewrite len_eq, flat_len.
      replace (Z.to_N base + 4 * k - Z.to_N base) with (4 * k) by lia.
      assert (E : (4 * k <? 4 * N.of_nat (List.length (aW a))) = true) by lia. rewrite E. reflexivity.
Qed.
End Steps.
