(* C05 for projects, part 3: evaluation in a table that also holds bare declarations (`.global n` before n has a value).
   An operand that mentions no declared-but-unvalued name (LayoutMulti.clean) evaluates exactly as in the table reduced to its
   valued names, for which the single-file lemmas (LayoutStep / LayoutProg / LayoutStage, hypothesis TblEnv) apply. *)
From Coq Require Import ZArith NArith PeanoNat List Bool Lia ZifyBool ZifyNat ZifyN String.
From Trion Require Import Text.Types Expr.I64 Expr.SimplifyModel Expr.EvalModel Expr.ArgLemmas Expr.Denote Expr.C08Sound Arm.Instr Arm.DisplayModel Arm.AsmStmtModel Arm.EncodeModel
  Asm.CtxSeg Asm.CtxEval Asm.CtxProofs Asm.CtxModel Asm.LayoutSpec Asm.LayoutEval Asm.LayoutEvalC Asm.LayoutInstr Asm.LayoutInstrD Asm.LayoutDict Asm.LayoutSim
  Asm.LayoutStage Asm.CtxNoPanic Asm.LayoutStep Asm.LayoutFinal Asm.LayoutProg.
From Trion Require Import Asm.LayoutSpecExt Asm.LayoutMulti.
Import ListNotations.
Open Scope N_scope.

(* ------------------------------------------------------------------ binding lists *)
Lemma seqb_true a b : AsmStmtModel.str_eqb a b = true -> a = b.
Proof. intros H. apply (proj1 (ScopeProofs.str_eqb_eq a b)). exact H. Qed.

Lemma tbl_of_env_ok e : TblEnv (tbl_of_env e) e.
Proof.
  induction e as [|[k v] r IH]; intros n; [reflexivity|].
  cbn [tbl_of_env map tbl_get env_get fst snd]. change (CtxModel.str_eqb k n) with (AsmStmtModel.str_eqb k n).
  destruct (AsmStmtModel.str_eqb k n); [reflexivity|exact (IH n)].
Qed.

Lemma sget_none_vals e n : sget e n = None -> env_get (vals e) n = None.
Proof.
  induction e as [|[k b] r IH]; cbn [sget vals]; [reflexivity|].
  destruct (AsmStmtModel.str_eqb k n) eqn:K; [intros H; discriminate H|]. intros H.
  destruct b; cbn [env_get]; rewrite ?K; exact (IH H).
Qed.

Lemma vals_get e : swf e -> forall n, env_get (vals e) n = match sget e n with Some (BVal v) => Some v | _ => None end.
Proof.
  induction e as [|[k b] r IH]; intros WF n; [reflexivity|].
  cbn [swf] in WF. destruct WF as (_ & NI & S & WF). specialize (IH WF n).
  cbn [sget]. destruct (AsmStmtModel.str_eqb k n) eqn:K.
  - apply seqb_true in K. subst k. destruct b as [v| |].
    + cbn [vals env_get]. rewrite (ScopeProofs.str_eqb_refl n : AsmStmtModel.str_eqb n n = true). reflexivity.
    + cbn [vals]. apply sget_none_vals. exact S.
    + exfalso. apply NI. reflexivity.
  - destruct b as [v| |]; cbn [vals env_get]; rewrite ?K; exact IH.
Qed.

Lemma swf_noimp e n : swf e -> sget e n <> Some BImp.
Proof.
  induction e as [|[k b] r IH]; intros WF; [discriminate|].
  cbn [swf] in WF. destruct WF as (_ & NI & _ & WF).
  cbn [sget]. destruct (AsmStmtModel.str_eqb k n); [|exact (IH WF)].
  intros H. apply NI. inversion H. reflexivity.
Qed.

Lemma sget_not_reg e n b : swf e -> sget e n = Some b -> AsmStmtModel.is_register n = false.
Proof.
  induction e as [|[k b0] r IH]; intros WF H; [discriminate H|].
  cbn [swf] in WF. destruct WF as (NR & _ & _ & WF).
  cbn [sget] in H. destruct (AsmStmtModel.str_eqb k n) eqn:K; [|exact (IH WF H)].
  apply seqb_true in K. subst k. exact NR.
Qed.

(* ------------------------------------------------------------------ evaluate_mut only reads the names of the expression *)
Lemma go_mut_cons lk ir x xs acc :
  go_mut lk ir (x :: xs) acc = ev_cons xs (evaluate_mut (fun n => Some (lk n)) ir x) (go_mut lk ir xs) acc.
Proof. reflexivity. Qed.
Lemma mut_seq lk ir l : evaluate_mut (fun n => Some (lk n)) ir (ASeq l) =
  match go_mut lk ir l (Complete false) with
  | ElOk items' e => EvOk (ASeq items') e | ElErr items' er => EvErr (ASeq items') er | ElPanic p => EvPanic p end.
Proof. reflexivity. Qed.
Lemma mut_fun lk ir f l : evaluate_mut (fun n => Some (lk n)) ir (AFun f l) =
  match go_mut lk ir l (Complete false) with
  | ElOk items' e => EvOk (AFun f items') e | ElErr items' er => EvErr (AFun f items') er | ElPanic p => EvPanic p end.
Proof. reflexivity. Qed.

Lemma go_mut_ext lk1 lk2 ir l :
  Forall (fun a => agree_on ir lk1 lk2 a -> evaluate_mut (fun n => Some (lk1 n)) ir a = evaluate_mut (fun n => Some (lk2 n)) ir a) l ->
  (forall a, In a l -> agree_on ir lk1 lk2 a) -> forall acc, go_mut lk1 ir l acc = go_mut lk2 ir l acc.
Proof.
  induction 1 as [|x xs Hx Hxs IH]; intros K acc; [reflexivity|].
  rewrite !go_mut_cons. rewrite Hx by (apply K; now left). unfold ev_cons.
  destruct (evaluate_mut (fun n => Some (lk2 n)) ir x) as [x' e|x' er|q]; try reflexivity.
  rewrite IH; [reflexivity|]. intros a Ha. apply K. now right.
Qed.

Lemma evaluate_mut_ext lk1 lk2 ir a : agree_on ir lk1 lk2 a ->
  evaluate_mut (fun n => Some (lk1 n)) ir a = evaluate_mut (fun n => Some (lk2 n)) ir a.
Proof.
  induction a using arg_ind'; intros K.
  - reflexivity.
  - cbn [evaluate_mut]. destruct (ir s) eqn:R; cbn [negb]; [reflexivity|].
    destruct (K s (or_introl eq_refl)) as [T|T]; [congruence|]. rewrite T. reflexivity.
  - reflexivity.
  - rewrite !mut_mk. rewrite IHa1, IHa2; [reflexivity| |]; intros n Hn; apply K; rewrite idents_mk; apply in_or_app; auto.
  - cbn [evaluate_mut]. rewrite IHa; [reflexivity|exact K].
  - cbn [evaluate_mut]. rewrite IHa; [reflexivity|exact K].
  - cbn [evaluate_mut]. rewrite IHa; [reflexivity|exact K].
  - rewrite !mut_seq. rewrite (go_mut_ext lk1 lk2 ir l H); [reflexivity|]. intros a Ha m Hm. apply K. cbn [idents]. apply in_flat_map. eauto.
  - rewrite !mut_fun. rewrite (go_mut_ext lk1 lk2 ir l H); [reflexivity|]. intros a Ha m Hm. apply K. cbn [idents]. apply in_flat_map. eauto.
Qed.

(* an evaluation that succeeds in a table without bare declarations has looked up every name *)
Lemma go_ev_known lk ir l : Forall (fun a => forall r, evaluate lk ir a = I64.Ok r -> known lk ir a) l ->
  forall acc r, go_ev lk ir l acc = I64.Ok r -> forall a, In a l -> known lk ir a.
Proof.
  induction 1 as [|x xs Hx Hxs IH]; intros acc r E a Ha; [destruct Ha|].
  rewrite go_ev_cons in E. unfold eval_cons in E.
  destruct (evaluate lk ir x) as [[x' e]|?|?] eqn:Ex; cbn [I64.bind] in E; try discriminate E.
  destruct (go_ev lk ir xs (ev_or acc e)) as [[xs' e']|?|?] eqn:Eg; cbn [I64.bind] in E; try discriminate E.
  destruct Ha as [<-|Ha]; [eapply Hx; first [exact Ex|reflexivity]|eapply IH; eauto].
Qed.

Lemma evaluate_ok_known lk ir a : no_deferred lk -> forall r, evaluate lk ir a = I64.Ok r -> known lk ir a.
Proof.
  intros ND. induction a using arg_ind'; intros r E.
  - intros n [].
  - cbn [evaluate] in E. intros n [<-|[]]. destruct (ir s) eqn:R; [left; reflexivity|]. cbn [negb] in E.
    destruct (lk s) eqn:L; [right; eauto|exfalso; exact (ND _ L)|discriminate E].
  - intros n [].
  - rewrite evaluate_mk' in E. unfold eval_bin in E.
    destruct (evaluate lk ir a1) as [[l' el]|?|?] eqn:E1; cbn [I64.bind] in E; try discriminate E.
    destruct (evaluate lk ir a2) as [[r' er]|?|?] eqn:E2; cbn [I64.bind] in E; try discriminate E.
    intros n Hn. rewrite idents_mk in Hn. apply in_app_or in Hn.
    destruct Hn as [Hn|Hn]; [refine (IHa1 _ _ n Hn)|refine (IHa2 _ _ n Hn)]; first [eassumption|reflexivity].
  - cbn [evaluate] in E. unfold eval_un in E.
    destruct (evaluate lk ir a) as [[v' e]|?|?] eqn:E1; cbn [I64.bind] in E; try discriminate E.
    intros n Hn. refine (IHa _ _ n Hn); first [eassumption|reflexivity].
  - cbn [evaluate] in E. unfold eval_un in E.
    destruct (evaluate lk ir a) as [[v' e]|?|?] eqn:E1; cbn [I64.bind] in E; try discriminate E.
    intros n Hn. refine (IHa _ _ n Hn); first [eassumption|reflexivity].
  - cbn [evaluate] in E. unfold eval_un in E.
    destruct (evaluate lk ir a) as [[v' e]|?|?] eqn:E1; cbn [I64.bind] in E; try discriminate E.
    intros n Hn. refine (IHa _ _ n Hn); first [eassumption|reflexivity].
  - rewrite evaluate_seq in E.
    destruct (go_ev lk ir l (Complete false)) as [[l' e]|?|?] eqn:Eg; cbn [I64.bind] in E; try discriminate E.
    intros m Hm. cbn [idents] in Hm. apply in_flat_map in Hm. destruct Hm as (a & Ha & Hm).
    exact (go_ev_known lk ir l H _ _ Eg a Ha m Hm).
  - rewrite evaluate_fun in E.
    destruct (go_ev lk ir l (Complete false)) as [[l' e]|?|?] eqn:Eg; cbn [I64.bind] in E; try discriminate E.
    intros m Hm. cbn [idents] in Hm. apply in_flat_map in Hm. destruct Hm as (a & Ha & Hm).
    exact (go_ev_known lk ir l H _ _ Eg a Ha m Hm).
Qed.

Lemma evaluate_complete_known lk ir a a' c : no_deferred lk -> evaluate lk ir a = I64.Ok (a', Complete c) -> known lk ir a.
Proof. intros ND E. exact (evaluate_ok_known lk ir a ND _ E). Qed.

Lemma final_ev_known E a x : final_ev E a = (x, SComplete) ->
  forall n, In n (LayoutEval.idents a) -> CtxModel.is_register n = true \/ exists v, env_get E n = Some v.
Proof.
  intros H. rewrite final_ev_unfold in H.
  destruct (evaluate (lkE E) CtxModel.is_register a) as [[x' [c|c n]]|[]|] eqn:Ev; inversion H; subst.
  pose proof (evaluate_complete_known _ _ _ _ _ (lkE_nd E) Ev) as K. intros n Hn.
  destruct (K n Hn) as [R|(v & F)]; [left; exact R|right]. unfold lkE in F.
  destruct (env_get E n) as [u|]; [eauto|discriminate F].
Qed.

Lemma den64_known E a w : den64 (rho E) a = Some w ->
  forall n, In n (LayoutEval.idents a) -> CtxModel.is_register n = true \/ exists v, env_get E n = Some v.
Proof.
  intros D n Hn. apply den64_denZ in D. destruct D as (D & _). pose proof (denZ_ids _ _ _ D n Hn) as Hr.
  unfold rho in Hr. change (AsmStmtModel.is_register n) with (CtxModel.is_register n) in Hr.
  destruct (CtxModel.is_register n); [now left|right]. destruct (env_get E n) as [v|]; [eauto|congruence].
Qed.

(* ------------------------------------------------------------------ the context with the table reduced to its valued names *)
Definition vst (st : state) (e : senv) : state := set_locals st (Some (tbl_of_env (vals e))).

Section Clean.
  Variables (st : state) (tbl : table) (e : senv) (p : str) (ps : list str).
  Hypothesis EL : locals st = Some tbl.
  Hypothesis EP : path_stack st = p :: ps.
  Hypothesis TS : TblS tbl e.
  Hypothesis WF : swf e.

  Lemma vst_locals : locals (vst st e) = Some (tbl_of_env (vals e)). Proof. reflexivity. Qed.
  Lemma vst_path : path_stack (vst st e) = p :: ps. Proof. exact EP. Qed.
  Lemma vst_tbl : TblEnv (tbl_of_env (vals e)) (vals e). Proof. apply tbl_of_env_ok. Qed.

  Lemma ctx_eval_clean a : clean e a -> ctx_eval st a = ctx_eval (vst st e) a.
  Proof.
    intros C. rewrite (ctx_eval_eq st tbl p ps a EL EP), (ctx_eval_eq (vst st e) _ p ps a vst_locals vst_path).
    apply evaluate_mut_ext. intros n Hn. right. unfold lookup_of. rewrite (TS n), (vst_tbl n), (vals_get e WF n).
    pose proof (C n Hn) as C1. pose proof (swf_noimp e n WF) as C2.
    destruct (sget e n) as [[v| |]|]; cbn; try reflexivity; congruence.
  Qed.

  Lemma instr_ev_clean a : clean e a -> instr_ev st a = instr_ev (vst st e) a.
  Proof. intros C. unfold instr_ev. rewrite (ctx_eval_clean a C). reflexivity. Qed.

  Lemma ev_ok_real : ev_ok st.
  Proof. exact (ev_ok_st st tbl p ps EL EP). Qed.

  (* .addr / .align / .const: the operand has a value in the table so far *)
  Lemma eval_now_clean line col a w : clean e a -> den64 (rho (vals e)) a = Some w -> eval_now st line col a = Ret (inl (AConst w)) st.
  Proof.
    intros C D. unfold eval_now. rewrite (ctx_eval_clean a C).
    destruct (ctx_eval_now (vals e) (vals e) (vst st e) _ p ps vst_locals vst_path vst_tbl (fun _ _ H => H) a w D) as (c & ->).
    reflexivity.
  Qed.
End Clean.

(* a name with a value in the table is not a bare declaration *)
Lemma clean_of_known e a : swf e ->
  (forall n, In n (LayoutEval.idents a) -> CtxModel.is_register n = true \/ exists v, env_get (vals e) n = Some v) -> clean e a.
Proof.
  intros WF K n Hn Hd. destruct (K n Hn) as [R|(v & G)].
  - change (CtxModel.is_register n) with (AsmStmtModel.is_register n) in R.
    rewrite (sget_not_reg e n _ WF Hd) in R. discriminate R.
  - rewrite (vals_get e WF n), Hd in G. discriminate G.
Qed.

(* ------------------------------------------------------------------ a bare declared name *)
Lemma ctx_eval_decl st tbl e p ps n : locals st = Some tbl -> path_stack st = p :: ps -> TblS tbl e -> swf e ->
  sget e n = Some BDecl -> ctx_eval st (AIdent n) = EvOk (AIdent n) (Deferred false n).
Proof.
  intros EL EP TS WF Sg. rewrite (ctx_eval_eq st tbl p ps (AIdent n) EL EP). cbn [evaluate_mut].
  change (CtxModel.is_register n) with (AsmStmtModel.is_register n). rewrite (sget_not_reg _ _ _ WF Sg). cbn [negb].
  unfold lookup_of. rewrite (TS n), Sg. reflexivity.
Qed.

Lemma instr_ev_decl st tbl e p ps n : locals st = Some tbl -> path_stack st = p :: ps -> TblS tbl e -> swf e ->
  sget e n = Some BDecl -> instr_ev st (AIdent n) = (AIdent n, SDeferred n).
Proof. intros EL EP TS WF Sg. unfold instr_ev. rewrite (ctx_eval_decl st tbl e p ps n EL EP TS WF Sg). reflexivity. Qed.

(* an operand whose names all have values so far mentions no bare declaration *)
Lemma clean_known_in e a : swf e -> known (lkE (vals e)) CtxModel.is_register a -> clean e a.
Proof.
  intros WF K. apply clean_of_known; [exact WF|]. intros n Hn. destruct (K n Hn) as [R|(v & F)]; [now left|right].
  unfold lkE in F. destruct (env_get (vals e) n) as [w|]; [eauto|discriminate].
Qed.

Lemma bare_not_known e a : swf e -> bare_decl e a -> ~ known (lkE (vals e)) CtxModel.is_register a.
Proof.
  intros WF (n & -> & Sg) K. destruct (K n (or_introl eq_refl)) as [R|(v & F)].
  - change (CtxModel.is_register n) with (AsmStmtModel.is_register n) in R. rewrite (sget_not_reg _ _ _ WF Sg) in R. discriminate.
  - unfold lkE in F. rewrite (vals_get _ WF), Sg in F. discriminate.
Qed.
