(* C14, link of the scope oracle to the Context model, part 4: the theorems in the form of Properties/C14.v.
   project_sources: for every project the oracle expands, written as text, whenever the pipeline terminates the table the root
                    file ends with holds only values the oracle names (ScopeSpec.sources) - no `occ` hypothesis;
   instance_sources: the same for any file of the project entered at any include depth in any state in which the active
                    segment stands at base + 4k (the states in which the run of the root reaches its `.include` statements:
                    ScopeLinkOcc.run_link);
   ex3_*: a three-file project (r includes a includes b; `.export` twice upwards, `.global` before the label). *)
From Coq Require Import ZArith NArith List Bool Lia.
From Coq Require Import String Ascii.
From Trion Require Import Text.Types.
From Trion Require Text.ParseModel.
From Trion Require Import Asm.CtxModel Asm.CtxInvDefs Asm.ScopeProofs Asm.ScopeProofs2 Asm.ScopeIso Asm.ScopeProv Asm.ScopeRefine.
From Trion Require Asm.CtxNoPanic Asm.CtxFuel2.
From Trion Require Import Asm.ScopeText Asm.ScopeLink Asm.ScopeLinkSeg Asm.ScopeLinkOcc.
Import ListNotations.

Lemma root_open dbg fs f path text s diags regions : pipeline_gen dbg fs (S f) path text = Done s diags regions ->
  exists r st2 t2, assemble_open dbg fs (assemble dbg fs f) init_state text path = Ret r st2 /\ locals st2 = Some t2.
Proof.
  unfold pipeline_gen, pipeline_state. cbn [assemble]. rewrite assemble_body_open. unfold bind.
  destruct (assemble_open dbg fs (assemble dbg fs f) init_state text path) as [r st2| |] eqn:AO; try discriminate.
  intros _. destruct (parse_source text) as [items tail] eqn:PS.
  destruct (assemble_provenance dbg fs f init_state text path r st2 items tail AO PS) as (t2 & L2 & _).
  exists r, st2, t2. split; [reflexivity|exact L2].
Qed.

Theorem project_sources dbg p a t n f s diags regions : project_ok p = true -> SP.expand_project p = Some (a, t, n) ->
  (a + 4 * Z.of_N n < 4294967296)%Z ->
  pipeline_gen dbg (project_fs p) (S f) (project_root p) (project_text p) = Done s diags regions ->
  exists r st2 t2,
    assemble_open dbg (project_fs p) (assemble dbg (project_fs p) f) init_state (project_text p) (project_root p) = Ret r st2 /\
    locals st2 = Some t2 /\
    (forall x v, tbl_get t2 x = Some (Some v) -> In v (SP.sources t SP.no_env x)) /\
    (forall x v v', SP.sources t SP.no_env x = [v'] -> tbl_get t2 x = Some (Some v) -> v = v').
Proof.
  intros OK EX B RUN. destruct (root_open _ _ _ _ _ _ _ _ RUN) as (r & st2 & t2 & AO & L2).
  pose proof (occ_of_project dbg p a t n f OK EX B) as OC. fold (project_fs p) (project_root p) (project_text p) in OC.
  assert (PE : forall x w, tbl_get (entry_globals init_state) x = Some (Some w) -> In w (SP.no_env x)) by (intros x w H; discriminate H).
  exists r, st2, t2. split; [exact AO|]. split; [exact L2|]. split.
  - exact (occ_sources dbg _ f _ _ _ _ _ _ _ SP.no_env OC AO L2 PE).
  - intros x v v'. exact (occ_use_value dbg _ f _ _ _ _ _ _ _ SP.no_env x v v' OC AO L2 PE).
Qed.

(* with more include fuel than the project has files the pipeline always terminates (C06_no_out_of_fuel, C06_never_panics) *)
Lemma project_done dbg p fuel : (List.length (SP.p_files p) < fuel)%nat ->
  exists s diags regions, pipeline_gen dbg (project_fs p) fuel (project_root p) (project_text p) = Done s diags regions.
Proof.
  intros LT.
  pose proof (CtxFuel2.no_out_of_fuel dbg (project_fs p) fuel (project_root p) (project_text p) (map fst (SP.p_files p))) as NF.
  pose proof (CtxNoPanic.never_panics dbg (project_fs p) fuel (project_root p) (project_text p)) as NP.
  destruct (pipeline_gen dbg (project_fs p) fuel (project_root p) (project_text p)) as [q| |s diags regions].
  - exfalso. exact (NP q eq_refl).
  - exfalso. apply NF; [|rewrite map_length; exact LT|reflexivity].
    intros q H. unfold project_fs, show_project, fs_of in H. cbn [fst] in H.
    destruct (SP.lookup_file (SP.p_files p) q) as [b|] eqn:LF; [|exfalso; apply H; reflexivity].
    apply lookup_in in LF. apply (List.in_map fst) in LF. exact LF.
  - eauto.
Qed.

Theorem project_sources_done dbg p a t n f : project_ok p = true -> SP.expand_project p = Some (a, t, n) ->
  (a + 4 * Z.of_N n < 4294967296)%Z -> (List.length (SP.p_files p) <= f)%nat ->
  exists s diags regions r st2 t2,
    pipeline_gen dbg (project_fs p) (S f) (project_root p) (project_text p) = Done s diags regions /\
    assemble_open dbg (project_fs p) (assemble dbg (project_fs p) f) init_state (project_text p) (project_root p) = Ret r st2 /\
    locals st2 = Some t2 /\
    (forall x v, tbl_get t2 x = Some (Some v) -> In v (SP.sources t SP.no_env x)) /\
    (forall x v v', SP.sources t SP.no_env x = [v'] -> tbl_get t2 x = Some (Some v) -> v = v').
Proof.
  intros OK EX B LT. destruct (project_done dbg p (S f) ltac:(lia)) as (s & diags & regions & RUN).
  destruct (project_sources dbg p a t n f s diags regions OK EX B RUN) as (r & st2 & t2 & H).
  exists s, diags, regions, r, st2, t2. split; [exact RUN|exact H].
Qed.

(* any file instance: the invariant (C13's `good`, the segment at base + 4k, the includer's table covered by penv) gives the
   conclusion ... *)
Theorem instance_sources dbg files base d f path body k t k' st r st2 t2 (penv : str -> list Z) :
  (forall n b, In (n, b) files -> plain_name n = true /\ forallb stmt_ok b = true) -> (0 <= base)%Z ->
  plain_name path = true -> forallb stmt_ok body = true ->
  SP.expand d files base body k = Some (t, k') -> (base + 4 * Z.of_N k' < 4294967296)%Z ->
  good st -> seg_sig st = Some (Z.to_N base, 4 * k)%N -> cover penv (entry_globals st) ->
  assemble_open dbg (fs_of files) (assemble dbg (fs_of files) f) st (show_file body) path = Ret r st2 -> locals st2 = Some t2 ->
  forall x v, tbl_get t2 x = Some (Some v) -> In v (SP.sources t penv x).
Proof.
  intros HF HB Pp W EX B G SH PE AO L2.
  pose proof (occ_of_file dbg files base HF HB d f path body k t k' st Pp W EX B G SH) as OC.
  exact (occ_sources dbg _ f _ _ _ _ _ _ _ penv OC AO L2 PE).
Qed.

(* ... and is handed on to every instance the file enters: when the statements in front of an `.include "g"` of the file have
   all returned Ok (state sa), the file g is found under its plain name, the oracle has a child tree tc at that place, and
   the invariant holds again for (g, sa, tc) with penv := the oracle's sources of the includer *)
Theorem instance_enters dbg files base d f path body k t k' st (penv : str -> list Z) pre e post tail g sa :
  (forall n b, In (n, b) files -> plain_name n = true /\ forallb stmt_ok b = true) -> (0 <= base)%Z ->
  plain_name path = true -> forallb stmt_ok body = true ->
  SP.expand (S d) files base body k = Some (t, k') -> (base + 4 * Z.of_N k' < 4294967296)%Z ->
  good st -> seg_sig st = Some (Z.to_N base, 4 * k)%N -> cover penv (entry_globals st) ->
  parse_source (show_file body) = Parsed (pre ++ ParseModel.IOk e :: post) tail -> e_val e = ev_of (SP.SInclude g) ->
  run_items dbg (fs_of files) (assemble dbg (fs_of files) f) pre (fst (enter_file st path)) = Ret None sa ->
  exists b k1 tc k2,
    fs_of files (resolve_path (curr_of sa) g) = Some (show_file b) /\ resolve_path (curr_of sa) g = g /\
    In (SP.IChild tc) (SP.items_of t) /\
    plain_name g = true /\ forallb stmt_ok b = true /\
    SP.expand d files base b k1 = Some (tc, k2) /\ (base + 4 * Z.of_N k2 < 4294967296)%Z /\
    good sa /\ seg_sig sa = Some (Z.to_N base, 4 * k1)%N /\ cover (SP.sources t penv) (entry_globals sa).
Proof.
  intros HF HB Pp W EX B G SH PE PS EV RUN.
  destruct (child_entry dbg files base HF HB d f path body k t k' st penv pre e post tail g sa Pp W EX B G SH PE PS EV RUN)
    as (b & k1 & tc & k2 & LF & EXc & IN & MONO & Ga & SHa & RP & Pg & Wb & FS & CV).
  exists b, k1, tc, k2. rewrite RP. repeat (split; [first [assumption|reflexivity|exact SHa|lia]|]). exact CV.
Qed.

(* the chain starts at the root: the instances the root file enters *)
Theorem project_enters dbg p a t n f pre e post tail g sa : project_ok p = true -> SP.expand_project p = Some (a, t, n) ->
  (a + 4 * Z.of_N n < 4294967296)%Z ->
  parse_source (project_text p) = Parsed (pre ++ ParseModel.IOk e :: post) tail -> e_val e = ev_of (SP.SInclude g) ->
  run_items dbg (project_fs p) (assemble dbg (project_fs p) f) pre (fst (enter_file init_state (project_root p))) = Ret None sa ->
  (forall m b, In (m, b) (SP.p_files p) -> plain_name m = true /\ forallb stmt_ok b = true) /\ (0 <= a)%Z /\
  exists b k1 tc k2,
    project_fs p (resolve_path (curr_of sa) g) = Some (show_file b) /\ resolve_path (curr_of sa) g = g /\
    In (SP.IChild tc) (SP.items_of t) /\
    plain_name g = true /\ forallb stmt_ok b = true /\
    SP.expand 5 (SP.p_files p) a b k1 = Some (tc, k2) /\ (a + 4 * Z.of_N k2 < 4294967296)%Z /\
    good sa /\ seg_sig sa = Some (Z.to_N a, 4 * k1)%N /\ cover (SP.sources t SP.no_env) (entry_globals sa).
Proof.
  intros OK EX B PS EV RUN. destruct (project_ok_files p OK) as (Pr & HF).
  unfold project_text, project_root, project_fs, show_project in *. cbn [fst snd] in *. unfold SP.expand_project in EX.
  destruct (SP.lookup_file (SP.p_files p) (SP.p_root p)) as [[|[a0| | | | | | |] body]|] eqn:LF; try discriminate EX.
  destruct (SP.expand SP.max_depth (SP.p_files p) a0 body 0) as [[t0 n0]|] eqn:E; [|discriminate EX]. inversion EX; subst.
  destruct (HF _ _ (lookup_in _ _ _ LF)) as (_ & W). cbn [forallb] in W. apply andb_prop in W. destruct W as [W0 W].
  assert (Ha : (0 <= a)%Z). { unfold stmt_ok, Text.ShowSpec.writable_stmt in W0. cbn in W0. lia. }
  split; [exact HF|]. split; [exact Ha|].
  destruct (root_child_entry dbg (SP.p_files p) a HF Ha f (SP.p_root p) body t n pre e post tail g sa Pr W E B PS EV RUN)
    as (b & k1 & tc & k2 & LFg & EXc & IN & MONO & Ga & SHa & RP & Pg & Wb & FS & CV).
  exists b, k1, tc, k2. rewrite RP. repeat (split; [first [assumption|reflexivity|exact SHa|lia]|]). exact CV.
Qed.

(* ------------------------------------------------------------------ a three-file project *)
Definition ex3_A : str := [65%N].
Definition ex3_B : str := [66%N].
Definition ex3_L : str := [76%N].
Definition ex3_r : str := [114%N].
Definition ex3_a : str := [97%N].
Definition ex3_b : str := [98%N].
(* r:  .addr 256; .include "a"; .du32 A; .du32 B; .du32 L;
   a:  .include "b"; .const A, 7; .export A; .export B; .global L; L:
   b:  .const B, 9; .export B; .du32 B; *)
Definition ex3 : SP.project :=
  SP.mkProject [(ex3_r, [SP.SAddr 256; SP.SInclude ex3_a; SP.SUse ex3_A; SP.SUse ex3_B; SP.SUse ex3_L]);
                (ex3_a, [SP.SInclude ex3_b; SP.SConst ex3_A 7; SP.SExport ex3_A; SP.SExport ex3_B; SP.SGlobal ex3_L; SP.SLabel ex3_L]);
                (ex3_b, [SP.SConst ex3_B 9; SP.SExport ex3_B; SP.SUse ex3_B])] ex3_r.
Definition ex3_tree : SP.tree :=
  SP.Node [SP.IChild (SP.Node [SP.IChild (SP.Node [SP.IDef ex3_B 9; SP.IExport ex3_B; SP.IUse ex3_B 0]);
                               SP.IDef ex3_A 7; SP.IExport ex3_A; SP.IExport ex3_B; SP.IGlobal ex3_L; SP.IDef ex3_L 260]);
           SP.IUse ex3_A 1; SP.IUse ex3_B 2; SP.IUse ex3_L 3].

Definition ex3_nl : String.string := String.String (Ascii.ascii_of_nat 10) String.EmptyString.

Lemma ex3_facts :
  project_ok ex3 = true /\ SP.expand_project ex3 = Some (256%Z, ex3_tree, 4%N) /\
  project_text ex3 = DisplayModel.bytes_of_string
    (".addr 256;" ++ ex3_nl ++ ".include ""a"";" ++ ex3_nl ++ ".du32 A;" ++ ex3_nl ++ ".du32 B;" ++ ex3_nl ++ ".du32 L;" ++ ex3_nl)%string /\
  project_fs ex3 ex3_a = Some (DisplayModel.bytes_of_string
    (".include ""b"";" ++ ex3_nl ++ ".const A, 7;" ++ ex3_nl ++ ".export A;" ++ ex3_nl ++ ".export B;" ++ ex3_nl ++ ".global L;" ++ ex3_nl ++ "L:" ++ ex3_nl)%string) /\
  pipeline_gen false (project_fs ex3) 8 (project_root ex3) (project_text ex3)
    = Done Success [] [(256%N, 271%N, [9; 0; 0; 0; 7; 0; 0; 0; 9; 0; 0; 0; 4; 1; 0; 0]%N)] /\
  SP.j_verdict (SP.judge_project ex3) = SP.Accept /\
  SP.j_uses (SP.judge_project ex3) = [(0%N, Some 9%Z); (1%N, Some 7%Z); (2%N, Some 9%Z); (3%N, Some 260%Z)] /\
  SP.sources ex3_tree SP.no_env ex3_L = [260%Z].
Proof. vm_compute. repeat split; reflexivity. Qed.

(* the theorem applied to it: the root's final table holds exactly the oracle's values for A, B, L *)
Lemma ex3_sources : exists r st2 t2,
  assemble_open false (project_fs ex3) (assemble false (project_fs ex3) 7) init_state (project_text ex3) (project_root ex3) = Ret r st2 /\
  locals st2 = Some t2 /\
  (forall x v, tbl_get t2 x = Some (Some v) -> In v (SP.sources ex3_tree SP.no_env x)) /\
  tbl_get t2 ex3_A = Some (Some 7%Z) /\ tbl_get t2 ex3_B = Some (Some 9%Z) /\ tbl_get t2 ex3_L = Some (Some 260%Z).
Proof.
  destruct ex3_facts as (OK & EX & _ & _ & RUN & _).
  destruct (project_sources false ex3 256%Z ex3_tree 4%N 7 _ _ _ OK EX ltac:(reflexivity) RUN) as (r & st2 & t2 & AO & L2 & SRC & _).
  exists r, st2, t2. split; [exact AO|]. split; [exact L2|]. split; [exact SRC|].
  assert (E : match assemble_open false (project_fs ex3) (assemble false (project_fs ex3) 7) init_state (project_text ex3) (project_root ex3) with
              | Ret _ s => match locals s with
                           | Some t => (tbl_get t ex3_A, tbl_get t ex3_B, tbl_get t ex3_L)
                           | None => (None, None, None)
                           end
              | _ => (None, None, None)
              end = (Some (Some 7%Z), Some (Some 9%Z), Some (Some 260%Z))) by (vm_compute; reflexivity).
  rewrite AO, L2 in E. inversion E as [[E1 E2 E3]]. rewrite E1, E2, E3. repeat split; reflexivity.
Qed.

(* ------------------------------------------------------------------ why a + 4n < 2^32 *)
(* r = `.addr 4294967292; .du32 L; L:` : a + 4n = 2^32.  The oracle computes the label in Z (2^32, not a 32-bit value); the
   model's curr_addr saturates: the label reads 0xFFFFFFFF and the run succeeds with these 4 bytes *)
Definition ext_p : SP.project := SP.mkProject [([114%N], [SP.SAddr 4294967292; SP.SUse [76%N]; SP.SLabel [76%N]])] [114%N].
Lemma ext_facts :
  project_ok ext_p = true /\ SP.expand_project ext_p = Some (4294967292%Z, SP.Node [SP.IUse [76%N] 0; SP.IDef [76%N] 4294967296], 1%N) /\
  SP.j_uses (SP.judge_project ext_p) = [(0%N, Some 4294967296%Z)] /\ SP.j_verdict (SP.judge_project ext_p) = SP.Unspecified /\
  pipeline_gen false (project_fs ext_p) 8 (project_root ext_p) (project_text ext_p)
    = Done Success [] [(4294967292%N, 4294967295%N, [255; 255; 255; 255]%N)].
Proof. vm_compute. repeat split; reflexivity. Qed.
