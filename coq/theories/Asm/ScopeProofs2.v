(* C14 on the Context model, part 2: isolation in full.
   One relation `Hs S st st'` ("st' is st after statements of a file whose handed-up names are S") is carried through every
   model function:
     - path_stack / curr_name unchanged;
     - the file's own table (locals) keeps every entry, a valued entry keeps its value (`tle`);
     - the includer's table (globals, while a file is open) changes only on names in S, and only
         absent -> declared (.global), or absent / declared -> the value the file's own table has for that name (`hand`);
     - global_tasks is only appended to, never with a GlobalTask; local_tasks is only appended to, a GlobalTask only for S.
   Proof file (no model definitions). *)
From Coq Require Import ZArith NArith List Bool Lia String.
From Trion Require Import Text.Types Asm.CtxModel Asm.ScopeProofs.
From Trion Require Arm.AsmStmtModel Expr.EvalModel Text.ParseModel.
Import ListNotations.

Definition nameset := str -> Prop.
Definition no_names : nameset := fun _ => False.

Definition olook (o : option table) (n : str) : option (option Z) := match o with Some t => tbl_get t n | None => None end.

(* entries never vanish; a valued entry keeps its value *)
Definition tle (t t' : table) : Prop := forall n,
  match tbl_get t n with
  | None => True
  | Some None => tbl_get t' n <> None
  | Some (Some v) => tbl_get t' n = Some (Some v)
  end.
Definition otle (o o' : option table) : Prop :=
  match o, o' with Some t, Some t' => tle t t' | None, None => True | _, _ => False end.

(* how the includer's table g may differ afterwards (g'), l' = the file's own table afterwards *)
Definition hand (S : nameset) (g g' : table) (l' : option table) : Prop := forall n,
  tbl_get g' n = tbl_get g n \/
  (S n /\ ((tbl_get g n = None /\ tbl_get g' n = Some None) \/
           (exists v, tbl_get g' n = Some (Some v) /\ olook l' n = Some (Some v) /\
                      (tbl_get g n = None \/ tbl_get g n = Some None)))).

Definition text (S : nameset) (l l' : list task) : Prop :=
  exists ex, l' = l ++ ex /\ forall x a b, In (GlobalTask x a b) ex -> S x.
Definition otext (S : nameset) (o o' : option (list task)) : Prop :=
  match o, o' with Some l, Some l' => text S l l' | None, None => True | _, _ => False end.

Definition HF (S : nameset) (ps : list str) (cn : str) (g : table) (lo : option table) (gt : list task) (lt : option (list task))
    (ps' : list str) (cn' : str) (g' : table) (lo' : option table) (gt' : list task) (lt' : option (list task)) : Prop :=
  ps' = ps /\ cn' = cn /\ otle lo lo' /\ hand S g g' lo' /\ text no_names gt gt' /\ otext S lt lt'.
Definition Hs (S : nameset) (a b : state) : Prop :=
  HF S (path_stack a) (curr_name a) (globals a) (locals a) (global_tasks a) (local_tasks a)
       (path_stack b) (curr_name b) (globals b) (locals b) (global_tasks b) (local_tasks b).

Lemma tle_refl t : tle t t.
Proof. intros n. destruct (tbl_get t n) as [[v|]|]; auto; discriminate. Qed.
Lemma tle_trans a b c : tle a b -> tle b c -> tle a c.
Proof. intros H1 H2 n. specialize (H1 n). specialize (H2 n).
  destruct (tbl_get a n) as [[v|]|]; auto.
  - rewrite H1 in H2. exact H2.
  - destruct (tbl_get b n) as [[w|]|]; congruence. Qed.
Lemma otle_refl o : otle o o. Proof. destruct o; cbn; [apply tle_refl|exact I]. Qed.
Lemma otle_trans a b c : otle a b -> otle b c -> otle a c.
Proof. destruct a, b, c; cbn; try tauto. apply tle_trans. Qed.
Lemma otle_look a b n v : otle a b -> olook a n = Some (Some v) -> olook b n = Some (Some v).
Proof. destruct a, b; cbn; try tauto; try discriminate. intros H E. specialize (H n). rewrite E in H. exact H. Qed.
Lemma otle_some a b : otle a b -> a <> None -> b <> None.
Proof. destruct a, b; cbn; try tauto; congruence. Qed.
Lemma tle_mono t t' : tle t t' -> tbl_mono t t'.
Proof. intros H n v E. specialize (H n). rewrite E in H. exact H. Qed.

Lemma hand_refl S g l : hand S g g l. Proof. intros n. left. reflexivity. Qed.
Lemma hand_trans S g g1 g2 l1 l2 : hand S g g1 l1 -> otle l1 l2 -> hand S g1 g2 l2 -> hand S g g2 l2.
Proof. intros H1 HL H2 n. specialize (H1 n). specialize (H2 n).
  destruct H1 as [E1|(Sn & [(A & B)|(v & A & B & C)])].
  - rewrite <- E1. exact H2.
  - destruct H2 as [E2|(_ & [(A2 & B2)|(v & A2 & B2 & C2)])].
    + right. split; [exact Sn|]. left. split; congruence.
    + congruence.
    + right. split; [exact Sn|]. right. exists v. auto.
  - destruct H2 as [E2|(_ & [(A2 & B2)|(w & A2 & B2 & [C2|C2])])]; try congruence.
    right. split; [exact Sn|]. right. exists v. split; [congruence|]. split; [eapply otle_look; eauto|exact C]. Qed.
Lemma hand_weaken (S S' : nameset) g g' l : (forall n, S n -> S' n) -> hand S g g' l -> hand S' g g' l.
Proof. intros W H n. destruct (H n) as [E|(Sn & R)]; [left; exact E|right; split; [apply W; exact Sn|exact R]]. Qed.
Lemma hand_none g g' l : hand no_names g g' l -> forall n, tbl_get g' n = tbl_get g n.
Proof. intros H n. destruct (H n) as [E|(F & _)]; [exact E|destruct F]. Qed.

Lemma text_refl S l : text S l l. Proof. exists []. split; [symmetry; apply app_nil_r|intros ? ? ? []]. Qed.
Lemma text_trans S a b c : text S a b -> text S b c -> text S a c.
Proof. intros (e1 & -> & H1) (e2 & -> & H2). exists (e1 ++ e2). split; [symmetry; apply app_assoc|].
  intros x p q I. apply in_app_or in I. destruct I; eauto. Qed.
Lemma text_weaken (S S' : nameset) a b : (forall n, S n -> S' n) -> text S a b -> text S' a b.
Proof. intros W (e & -> & H). exists e. split; [reflexivity|]. intros; eauto. Qed.
Lemma otext_refl S o : otext S o o. Proof. destruct o; cbn; [apply text_refl|exact I]. Qed.
Lemma otext_trans S a b c : otext S a b -> otext S b c -> otext S a c.
Proof. destruct a, b, c; cbn; try tauto. apply text_trans. Qed.
Lemma otext_weaken (S S' : nameset) a b : (forall n, S n -> S' n) -> otext S a b -> otext S' a b.
Proof. intros W. destruct a, b; cbn; try tauto. apply text_weaken. exact W. Qed.

Lemma HF_refl S ps cn g lo gt lt : HF S ps cn g lo gt lt ps cn g lo gt lt.
Proof. repeat split; auto using otle_refl, hand_refl, text_refl, otext_refl. Qed.
Lemma HF_trans S ps cn g lo gt lt ps1 cn1 g1 lo1 gt1 lt1 ps2 cn2 g2 lo2 gt2 lt2 :
  HF S ps cn g lo gt lt ps1 cn1 g1 lo1 gt1 lt1 -> HF S ps1 cn1 g1 lo1 gt1 lt1 ps2 cn2 g2 lo2 gt2 lt2 ->
  HF S ps cn g lo gt lt ps2 cn2 g2 lo2 gt2 lt2.
Proof. intros (A1 & A2 & A3 & A4 & A5 & A6) (B1 & B2 & B3 & B4 & B5 & B6).
  split; [congruence|]. split; [congruence|]. split; [eapply otle_trans; eauto|].
  split; [eapply hand_trans; eauto|]. split; [eapply text_trans; eauto|eapply otext_trans; eauto]. Qed.
Lemma Hs_refl S st : Hs S st st. Proof. apply HF_refl. Qed.
Lemma Hs_trans S a b c : Hs S a b -> Hs S b c -> Hs S a c. Proof. apply HF_trans. Qed.
Lemma Hs_weaken (S S' : nameset) a b : (forall n, S n -> S' n) -> Hs S a b -> Hs S' a b.
Proof. intros W (A1 & A2 & A3 & A4 & A5 & A6). repeat split; auto. - eapply hand_weaken; eauto. - eapply otext_weaken; eauto. Qed.

(* ---- the writers ---- *)
Lemma tle_set t n v : (forall w, tbl_get t n <> Some (Some w)) -> tle t (tbl_set t n v) \/ v = None /\ tbl_get t n <> None.
Proof. intros H. destruct v as [v|].
  - left. intros m. rewrite tbl_get_set. destruct (str_eqb n m) eqn:E.
    + apply str_eqb_eq in E. subst m. destruct (tbl_get t n) as [[w|]|]; auto; [exfalso; eapply H; eauto|discriminate].
    + destruct (tbl_get t m) as [[w|]|]; auto. discriminate.
  - destruct (tbl_get t n) as [[w|]|] eqn:G.
    + exfalso; eapply H; eauto.
    + right. split; [reflexivity|discriminate].
    + left. intros m. rewrite tbl_get_set. destruct (str_eqb n m) eqn:E.
      * apply str_eqb_eq in E. subst m. rewrite G. exact I.
      * destruct (tbl_get t m) as [[w|]|]; auto. discriminate. Qed.

Lemma tle_set_val t n v : (forall w, tbl_get t n <> Some (Some w)) -> tle t (tbl_set t n (Some v)).
Proof. intros H. destruct (tle_set t n (Some v) H) as [X|[X _]]; [exact X|discriminate]. Qed.
Lemma tle_set_new t n v : tbl_get t n = None -> tle t (tbl_set t n v).
Proof. intros G m. rewrite tbl_get_set. destruct (str_eqb n m) eqn:E.
  - apply str_eqb_eq in E. subst m. rewrite G. exact I.
  - destruct (tbl_get t m) as [[w|]|]; auto. discriminate. Qed.

Ltac hs_unfold :=
  unfold Hs in *;
  cbn [globals locals set_output set_active set_globals set_locals set_global_tasks set_local_tasks set_errors set_path_stack set_curr_name
       push_error push_error_in errors output active global_tasks local_tasks path_stack curr_name] in *.
Ltac hs_finish := hs_unfold; eauto 5 using HF_refl, HF_trans.

Lemma HF_locals S ps cn g t t' gt lt : tle t t' -> HF S ps cn g (Some t) gt lt ps cn g (Some t') gt lt.
Proof. intros H. repeat split; auto using hand_refl, text_refl, otext_refl. Qed.
Lemma HF_globals S ps cn g g' lo gt lt : hand S g g' lo -> HF S ps cn g lo gt lt ps cn g' lo gt lt.
Proof. intros H. repeat split; auto using otle_refl, text_refl, otext_refl. Qed.
Lemma HF_gtasks S ps cn g lo gt gt' lt : text no_names gt gt' -> HF S ps cn g lo gt lt ps cn g lo gt' lt.
Proof. intros H. repeat split; auto using otle_refl, hand_refl, text_refl, otext_refl. Qed.
Lemma HF_ltasks S ps cn g lo gt lt lt' : text S lt lt' -> HF S ps cn g lo gt (Some lt) ps cn g lo gt (Some lt').
Proof. intros H. repeat split; auto using otle_refl, hand_refl, text_refl. Qed.

Lemma insert_local_hs S st n v x st' : insert_constant st n v RLocal = Ret x st' -> Hs S st st'.
Proof. unfold insert_constant. destruct (is_register n). { intros H; inversion H; subst; apply Hs_refl. }
  cbn [realm_table set_realm_table]. destruct (locals st) as [t|] eqn:L; [|discriminate].
  destruct (tbl_get t n) as [[w|]|] eqn:G; intros H; inversion H; subst; try apply Hs_refl; hs_unfold; rewrite L;
    apply HF_locals; apply tle_set_val; intros w; rewrite G; discriminate.
Qed.

Lemma defer_local_hs S st n x st' : defer_constant st n RLocal = Ret x st' -> Hs S st st'.
Proof. unfold defer_constant. destruct (is_register n). { intros H; inversion H; subst; apply Hs_refl. }
  cbn [realm_table set_realm_table]. destruct (locals st) as [t|] eqn:L; [|discriminate].
  destruct (tbl_get t n) as [w|] eqn:G; intros H; inversion H; subst; try apply Hs_refl; hs_unfold; rewrite L;
    apply HF_locals; apply tle_set_new; exact G.
Qed.

Definition is_gtask (t : task) : bool := match t with GlobalTask _ _ _ => true | _ => false end.

Lemma add_task_hs S st t r u st' : add_task st t r = Ret u st' -> is_gtask t = false -> Hs S st st'.
Proof. unfold add_task. intros H NG.
  assert (X : forall (S' : nameset) x a b, In (GlobalTask x a b) [t] -> S' x).
  { intros S' x a b [E|[]]. subst t. discriminate NG. }
  destruct r; [|destruct (local_tasks st) eqn:L]; inversion H; subst; hs_unfold; rewrite ?L.
  - apply HF_gtasks. exists [t]. split; [reflexivity|apply X].
  - apply HF_ltasks. exists [t]. split; [reflexivity|apply X]. Qed.

Lemma get_found st n v : get_constant st n RLocal = Some (EvalModel.Found v) -> olook (locals st) n = Some (Some v).
Proof. unfold get_constant. cbn [realm_table]. destruct (locals st) as [t|]; [|discriminate]. unfold lookup_of. cbn [olook].
  destruct (tbl_get t n) as [[w|]|]; intros H; inversion H; reflexivity. Qed.

Lemma hand_set_none (S : nameset) g n l : S n -> tbl_get g n = None -> hand S g (tbl_set g n None) l.
Proof. intros Sn G m. rewrite tbl_get_set. destruct (str_eqb n m) eqn:E; [|left; reflexivity].
  apply str_eqb_eq in E. subst m. right. split; [exact Sn|]. left. split; [exact G|reflexivity]. Qed.
Lemma hand_set_val (S : nameset) g n v l : S n -> (tbl_get g n = None \/ tbl_get g n = Some None) -> olook l n = Some (Some v) ->
  hand S g (tbl_set g n (Some v)) l.
Proof. intros Sn G L m. rewrite tbl_get_set. destruct (str_eqb n m) eqn:E; [|left; reflexivity].
  apply str_eqb_eq in E. subst m. right. split; [exact Sn|]. right. exists v. auto. Qed.

Lemma insert_global_hs (S : nameset) st n v x st' : insert_constant st n v RGlobal = Ret x st' -> S n ->
  olook (locals st) n = Some (Some v) -> Hs S st st'.
Proof. unfold insert_constant. destruct (is_register n). { intros H; inversion H; subst; intros; apply Hs_refl. }
  cbn [realm_table set_realm_table].
  destruct (tbl_get (globals st) n) as [[w|]|] eqn:G; intros H Sn L; inversion H; subst; try apply Hs_refl; hs_unfold;
    apply HF_globals; apply hand_set_val; auto. Qed.

Lemma defer_global_hs (S : nameset) st n x st' : defer_constant st n RGlobal = Ret x st' -> S n -> Hs S st st'.
Proof. unfold defer_constant. destruct (is_register n). { intros H; inversion H; subst; intros; apply Hs_refl. }
  cbn [realm_table set_realm_table].
  destruct (tbl_get (globals st) n) as [w|] eqn:G; intros H Sn; inversion H; subst; try apply Hs_refl; hs_unfold;
    apply HF_globals; apply hand_set_none; auto. Qed.

Lemma add_gtask_hs (S : nameset) st n l c u st' : add_task st (GlobalTask n l c) RLocal = Ret u st' -> S n -> Hs S st st'.
Proof. unfold add_task. destruct (local_tasks st) eqn:L; [|discriminate]. intros H Sn. inversion H; subst. hs_unfold. rewrite L.
  apply HF_ltasks. exists [GlobalTask n l c]. split; [reflexivity|].
  intros x a b [E|[]]. inversion E; subst. exact Sn. Qed.

(* ---- brute force through the functions that never write the includer's table ---- *)
Ltac h_go tac := intros; repeat (tm_step tac); try hs_finish.

Ltac v0 E := first
  [ apply (insert_local_hs no_names) in E | apply (defer_local_hs no_names) in E
  | (apply (add_task_hs no_names) in E; [|reflexivity]) ].

Section Pass.
Local Notation H0 := (Hs no_names).

Lemma put_stmt_hs dbg st f l c a d k p r st' : put_stmt dbg st f l c a d k p = Ret r st' -> H0 st st'.
Proof. unfold put_stmt. h_go v0. Qed.
Lemma write_stmt_hs dbg st f l c a d k1 k2 p r st' : write_stmt dbg st f l c a d k1 k2 p = Ret r st' -> H0 st st'.
Proof. unfold write_stmt. intros H. repeat (tm_step v0); try hs_finish; apply put_stmt_hs in H; hs_finish. Qed.
Lemma write_instr_hs dbg st ai d r st' : write_instr dbg st ai d = Ret r st' -> H0 st st'.
Proof. unfold write_instr. intros H. repeat (tm_step v0); try hs_finish; apply write_stmt_hs in H; hs_finish. Qed.
Lemma write_data_hs dbg st d data r st' : write_data dbg st d data = Ret r st' -> H0 st st'.
Proof. apply write_stmt_hs. Qed.
Lemma instr_assemble_hs st ai local x st' : instr_assemble st ai local = Ret x st' -> H0 st st'.
Proof. unfold instr_assemble. h_go v0. Qed.
End Pass.
Ltac v1 E := first [ v0 E | apply write_data_hs in E | apply write_instr_hs in E | apply instr_assemble_hs in E ].
Lemma data_apply_hs dbg st d local x st' : data_apply dbg st d local = Ret x st' -> Hs no_names st st'.
Proof. unfold data_apply. h_go v1. Qed.
Ltac v2 E := first [ v1 E | apply data_apply_hs in E ].

Lemma close_segment_hs dbg st x st' : close_segment dbg st = Ret x st' -> Hs no_names st st'.
Proof. unfold close_segment. h_go v0. Qed.
Lemma select_segment_hs dbg st a x st' : select_segment dbg st a = Ret x st' -> Hs no_names st st'.
Proof. unfold select_segment. h_go v0. Qed.
Ltac v3 E := first [ v2 E | apply close_segment_hs in E | apply select_segment_hs in E ].
Lemma change_segment_hs dbg st a x st' : change_segment dbg st a = Ret x st' -> Hs no_names st st'.
Proof. unfold change_segment. intros H. repeat (tm_step v3); try hs_finish; apply select_segment_hs in H; hs_finish. Qed.
Lemma eval_now_hs st l c a x st' : eval_now st l c a = Ret x st' -> Hs no_names st st'.
Proof. unfold eval_now. h_go v0. Qed.
Lemma arity_check_hs st l c args n st' : arity_check st l c args n = Some st' -> Hs no_names st st'.
Proof. unfold arity_check. destruct (Nat.eqb _ _); [discriminate|]. destruct (Nat.ltb _ _); intros H; inversion H; subst; hs_finish. Qed.
Lemma seg_update_hs st l c x r st' : seg_update st l c x = Ret r st' -> Hs no_names st st'.
Proof. unfold seg_update. h_go v0. Qed.
Ltac v4 E := first [ v3 E | apply change_segment_hs in E | apply eval_now_hs in E | apply arity_check_hs in E | apply seg_update_hs in E ].

Lemma dir_addr_hs dbg st l c args r st' : dir_addr dbg st l c args = Ret r st' -> Hs no_names st st'.
Proof. unfold dir_addr. h_go v4. Qed.
Lemma dir_align_hs dbg st l c args r st' : dir_align dbg st l c args = Ret r st' -> Hs no_names st st'.
Proof. unfold dir_align. intros H. repeat (tm_step v4); try hs_finish; apply seg_update_hs in H; hs_finish. Qed.
Lemma dir_const_hs st l c args r st' : dir_const st l c args = Ret r st' -> Hs no_names st st'.
Proof. unfold dir_const. h_go v4. Qed.
Lemma dir_data_hs dbg st l c k args r st' : dir_data dbg st l c k args = Ret r st' -> Hs no_names st st'.
Proof. unfold dir_data. h_go v4. Qed.
Lemma dir_bytes_hs dbg fs st l c d args r st' : dir_bytes dbg fs st l c d args = Ret r st' -> Hs no_names st st'.
Proof. unfold dir_bytes. intros H. repeat (tm_step v4); try hs_finish; apply seg_update_hs in H; hs_finish. Qed.
Lemma assemble_instr_hs dbg st l c name args r st' : assemble_instr dbg st l c name args = Ret r st' -> Hs no_names st st'.
Proof. unfold assemble_instr. intros H. repeat (tm_step v4); try hs_finish; apply write_instr_hs in H; hs_finish. Qed.
