(* C14 on the Context model, part 4: C14_same_value (the three hand-over statements and the end-of-file copy, one statement
   each) and C14_lookup_scope (which table an evaluation reads; what reaches the includer).
   Proof file (no model definitions). *)
From Coq Require Import ZArith NArith List Bool Lia String.
From Trion Require Import Text.Types Asm.CtxModel Asm.ScopeProofs Asm.ScopeProofs2.
From Trion Require Arm.AsmStmtModel Expr.I64 Expr.EvalModel Expr.SimplifyModel Expr.ArgLemmas Text.ParseModel.
Import ListNotations.

Ltac inv H := inversion H; subst; clear H.

(* ------------------------------------------------------------------ same value *)
(* `.export x;` succeeds: x has a value in the file's own table and the includer's table now has that value *)
Lemma export_same_value st l c x t st' : dir_global st l c DExport [AIdent x] = Ret None st' -> locals st = Some t ->
  exists v, tbl_get t x = Some (Some v) /\ tbl_get (globals st') x = Some (Some v) /\ locals st' = Some t.
Proof. unfold dir_global. cbn [arity_check List.length Nat.eqb]. unfold get_constant. cbn [realm_table]. intros H L. rewrite L in H.
  unfold lookup_of in H. destruct (tbl_get t x) as [[v|]|] eqn:G; try discriminate H.
  exists v. split; [reflexivity|]. unfold bind, insert_constant in H. destruct (is_register x); [discriminate H|].
  cbn [realm_table set_realm_table] in H.
  destruct (tbl_get (globals st) x) as [[w|]|]; inv H; cbn [globals locals set_globals]; rewrite tbl_get_set, str_eqb_refl; auto.
Qed.

(* `.import x;` succeeds: either the includer has a value and the file's table now has the same one, or the includer has
   only declared x: then x is declared here too and a check is scheduled that x gets no value in this file (976f0cc) *)
Lemma import_same_value st l c x t st' : dir_global st l c DImport [AIdent x] = Ret None st' -> locals st = Some t ->
  globals st' = globals st /\
  ((exists v, tbl_get (globals st) x = Some (Some v) /\ olook (locals st') x = Some (Some v)) \/
   (tbl_get (globals st) x = Some None /\ tbl_get t x = None /\ olook (locals st') x = Some None /\
    exists lt, local_tasks st = Some lt /\ local_tasks st' = Some (lt ++ [ImportCheckTask x l c]))).
Proof. unfold dir_global. cbn [arity_check List.length Nat.eqb]. unfold get_constant. cbn [realm_table]. intros H L.
  unfold lookup_of in H. destruct (tbl_get (globals st) x) as [[v|]|] eqn:G; try discriminate H.
  - unfold bind, insert_constant in H. destruct (is_register x); [discriminate H|].
    cbn [realm_table set_realm_table] in H. rewrite L in H.
    destruct (tbl_get t x) as [[w|]|]; inv H; cbn [globals locals set_locals olook]; rewrite tbl_get_set, str_eqb_refl; eauto.
  - unfold bind, defer_constant in H. destruct (is_register x); [discriminate H|].
    cbn [realm_table set_realm_table] in H. rewrite L in H.
    destruct (tbl_get t x) as [w|] eqn:T; [discriminate H|]. unfold add_task in H. cbn [local_tasks set_locals] in H.
    destruct (local_tasks st) as [lt|] eqn:LT; inv H. cbn [globals locals set_locals set_local_tasks local_tasks olook].
    rewrite tbl_get_set, str_eqb_refl. split; [reflexivity|]. right. repeat split; eauto.
Qed.

(* the end-of-file copy of `.global x;` succeeds: the file's value is now the includer's *)
Lemma global_task_same_value dbg st x l c st' : run_task dbg st (GlobalTask x l c) = Ret None st' ->
  exists v, olook (locals st) x = Some (Some v) /\ tbl_get (globals st') x = Some (Some v) /\ locals st' = locals st.
Proof. cbn [run_task]. intros H. destruct (get_constant st x RLocal) as [[v| |]|] eqn:G; try discriminate H.
  apply get_found in G. exists v. split; [exact G|]. unfold bind, insert_constant in H. destruct (is_register x); [discriminate H|].
  cbn [realm_table set_realm_table] in H.
  destruct (tbl_get (globals st) x) as [[w|]|]; inv H; cbn [globals locals set_globals]; rewrite tbl_get_set, str_eqb_refl; auto.
Qed.

(* `.global x;` succeeds: the includer did not have x; it now has the file's value, or the declaration plus a scheduled copy *)
Lemma global_same_value st l c x st' : dir_global st l c DGlobal [AIdent x] = Ret None st' ->
  tbl_get (globals st) x = None /\
  ((exists v, olook (locals st) x = Some (Some v) /\ tbl_get (globals st') x = Some (Some v) /\ locals st' = locals st) \/
   (tbl_get (globals st') x = Some None /\ olook (locals st') x = Some None /\
    exists lt, local_tasks st = Some lt /\ local_tasks st' = Some (lt ++ [GlobalTask x l c]))).
Proof. unfold dir_global. cbn [arity_check List.length Nat.eqb]. unfold bind at 1. unfold defer_constant at 1.
  destruct (is_register x) eqn:R; [intros H; discriminate H|]. cbn [realm_table set_realm_table].
  destruct (tbl_get (globals st) x) as [w|] eqn:G; [intros H; discriminate H|]. intros H. split; [reflexivity|].
  unfold get_constant in H. cbn [realm_table locals set_globals] in H. destruct (locals st) as [t|] eqn:L; [|discriminate H].
  unfold lookup_of in H. destruct (tbl_get t x) as [[v|]|] eqn:T.
  - left. exists v. split; [exact T|]. unfold bind, insert_constant in H. rewrite R in H. cbn [realm_table set_realm_table globals set_globals] in H.
    rewrite tbl_get_set, str_eqb_refl in H. inv H. cbn [globals locals set_globals]. rewrite tbl_get_set, str_eqb_refl. rewrite L. auto.
  - right. unfold bind, add_task in H. cbn [local_tasks set_globals] in H. destruct (local_tasks st) as [lt|] eqn:LT; inv H.
    cbn [globals locals set_globals set_local_tasks local_tasks olook]. rewrite L. cbn [olook]. rewrite tbl_get_set, str_eqb_refl. eauto.
  - right. unfold bind, defer_constant in H. rewrite R in H. cbn [realm_table set_realm_table locals set_globals] in H. rewrite L, T in H.
    unfold add_task in H. cbn [local_tasks set_globals set_locals] in H. destruct (local_tasks st) as [lt|] eqn:LT; inv H.
    cbn [globals locals set_globals set_locals set_local_tasks local_tasks olook]. rewrite !tbl_get_set, !str_eqb_refl. eauto.
Qed.

(* the check scheduled by `.import` of a declared name passes: the name has no value in the importing file *)
Lemma import_check_passes dbg st x l c st' : run_task dbg st (ImportCheckTask x l c) = Ret None st' ->
  st' = st /\ forall v, olook (locals st) x <> Some (Some v).
Proof. cbn [run_task]. unfold get_constant. cbn [realm_table]. destruct (locals st) as [t|]; [|intros H; discriminate H].
  unfold lookup_of. cbn [olook]. destruct (tbl_get t x) as [[v|]|]; intros H; inv H; split; auto; intros v; discriminate. Qed.

(* ------------------------------------------------------------------ lookup scope *)
(* while a file is open (the path stack is not empty) every evaluation reads that file's own table and nothing else *)
Lemma ctx_eval_reads_local st a p ps t : path_stack st = p :: ps -> locals st = Some t ->
  ctx_eval st a = evaluate_mut (fun n => Some (lookup_of t n)) is_register a.
Proof. intros P L. unfold ctx_eval. f_equal. unfold ctx_lookup, eval_realm, get_constant. rewrite P. cbn [realm_table]. rewrite L. reflexivity. Qed.

Lemma ctx_eval_same_table st1 st2 a p1 ps1 p2 ps2 : path_stack st1 = p1 :: ps1 -> path_stack st2 = p2 :: ps2 ->
  locals st1 = locals st2 -> ctx_eval st1 a = ctx_eval st2 a.
Proof. intros P1 P2 L. unfold ctx_eval, ctx_lookup, eval_realm, get_constant. rewrite P1, P2. cbn [realm_table]. rewrite L. reflexivity. Qed.

(* with no file open (after the root file ended) the table read is the one above the root *)
Lemma ctx_eval_reads_top st a : path_stack st = [] ->
  ctx_eval st a = evaluate_mut (fun n => Some (lookup_of (globals st) n)) is_register a.
Proof. intros P. unfold ctx_eval. f_equal. unfold ctx_lookup, eval_realm, get_constant. rewrite P. reflexivity. Qed.

(* a name reported as the cause of a deferral is declared but unvalued in the table that was read; a name reported as
   unknown is absent from it *)
Section Cause.
  Variable lk : str -> option EvalModel.lookup_res.
  Variable isr : str -> bool.

  Definition cause_ok (e : EvalModel.evaluation) : Prop :=
    match e with EvalModel.Deferred _ c => lk c = Some EvalModel.LDeferred /\ isr c = false | _ => True end.
  Definition err_ok (e : eval_err) : Prop :=
    match e with EENoVar n => lk n = Some EvalModel.NotFound /\ isr n = false | _ => True end.
  Definition res_ok (r : ev_res) : Prop := match r with EvOk _ e => cause_ok e | EvErr _ e => err_ok e | _ => True end.
  Definition lres_ok (r : evl_res) : Prop := match r with ElOk _ e => cause_ok e | ElErr _ e => err_ok e | _ => True end.

  Lemma ev_or_ok a b : cause_ok a -> cause_ok b -> cause_ok (EvalModel.ev_or a b).
  Proof. destruct a, b; cbn; auto. Qed.
  Lemma ev_node_ok n e : cause_ok e -> res_ok (ev_node n e).
  Proof. intros H. unfold ev_node. destruct (SimplifyModel.simplify_raw n) as [[a' c]| |]; cbn; auto. apply ev_or_ok; cbn; auto. Qed.
  Lemma ev_bin_ok op l r rl rr : res_ok rl -> res_ok rr -> res_ok (ev_bin op l r rl rr).
  Proof. intros Hl Hr. unfold ev_bin. destruct rl; cbn; auto. destruct rr; cbn; auto. apply ev_node_ok. apply ev_or_ok; assumption. Qed.
  Lemma ev_un_ok mk r : res_ok r -> res_ok (ev_un mk r).
  Proof. intros H. unfold ev_un. destruct r; cbn; auto. apply ev_node_ok. exact H. Qed.
  Lemma ev_cons_ok xs rx rxs acc : res_ok rx -> cause_ok acc -> (forall a, cause_ok a -> lres_ok (rxs a)) -> lres_ok (ev_cons xs rx rxs acc).
  Proof. intros Hx Ha Hf. unfold ev_cons. destruct rx; cbn; auto.
    assert (X : lres_ok (rxs (EvalModel.ev_or acc e))) by (apply Hf, ev_or_ok; assumption).
    destruct (rxs (EvalModel.ev_or acc e)); cbn in *; auto. Qed.

  Lemma list_ok l : Forall (fun a => res_ok (evaluate_mut lk isr a)) l -> forall acc, cause_ok acc ->
    lres_ok ((fix go (l : list arg) (acc : EvalModel.evaluation) : evl_res :=
               match l with [] => ElOk [] acc
               | x :: xs => ev_cons xs (evaluate_mut lk isr x) (go xs) acc end) l acc).
  Proof. induction 1 as [|x xs Hx Hxs IH]; intros acc Ha; [exact Ha|]. apply ev_cons_ok; auto. Qed.

  Lemma evaluate_mut_cause a : res_ok (evaluate_mut lk isr a).
  Proof. induction a using ArgLemmas.arg_ind'.
    - exact I.
    - cbn. destruct (isr s) eqn:R; cbn; [exact I|]. destruct (lk s) as [[v| |]|] eqn:L; cbn; auto.
    - exact I.
    - destruct op; cbn [I64.mk_bin evaluate_mut]; apply ev_bin_ok; assumption.
    - cbn [evaluate_mut]. apply ev_un_ok. assumption.
    - cbn [evaluate_mut]. apply ev_un_ok. assumption.
    - cbn [evaluate_mut]. apply ev_un_ok. assumption.
    - cbn [evaluate_mut]. pose proof (list_ok l H (EvalModel.Complete false) I) as HL.
      match goal with |- res_ok (match ?o with _ => _ end) => destruct o end; cbn in *; auto.
    - cbn [evaluate_mut]. pose proof (list_ok l H (EvalModel.Complete false) I) as HL.
      match goal with |- res_ok (match ?o with _ => _ end) => destruct o end; cbn in *; auto.
  Qed.
End Cause.

Lemma ctx_eval_cause st a a' ch c p ps t : path_stack st = p :: ps -> locals st = Some t ->
  ctx_eval st a = EvOk a' (EvalModel.Deferred ch c) -> tbl_get t c = Some None /\ is_register c = false.
Proof. intros P L E. rewrite (ctx_eval_reads_local _ _ _ _ _ P L) in E.
  pose proof (evaluate_mut_cause (fun n => Some (lookup_of t n)) is_register a) as H. rewrite E in H. cbn in H.
  destruct H as [H R]. split; [|exact R]. unfold lookup_of in H. destruct (tbl_get t c) as [[v|]|]; congruence. Qed.

Lemma ctx_eval_unknown st a a' n p ps t : path_stack st = p :: ps -> locals st = Some t ->
  ctx_eval st a = EvErr a' (EENoVar n) -> tbl_get t n = None /\ is_register n = false.
Proof. intros P L E. rewrite (ctx_eval_reads_local _ _ _ _ _ P L) in E.
  pose proof (evaluate_mut_cause (fun n => Some (lookup_of t n)) is_register a) as H. rewrite E in H. cbn in H.
  destruct H as [H R]. split; [|exact R]. unfold lookup_of in H. destruct (tbl_get t n) as [[v|]|]; congruence. Qed.

(* the end-of-file retry of a data statement in its own file f (table t): it is handed to the includer exactly when the
   evaluation is deferred, and then the cause is a name that f's table has declared but not valued ... *)
Lemma data_retry_deferred dbg st d a' ch c p ps t : path_stack st = p :: ps -> locals st = Some t ->
  ctx_eval st (de_arg d) = EvOk a' (EvalModel.Deferred ch c) ->
  run_task dbg st (DataTask d false) = Ret None (set_global_tasks st (global_tasks st ++ [DataTask (de_set_arg d a') true])) /\
  tbl_get t c = Some None /\ is_register c = false.
Proof. intros P L E. split; [|eapply ctx_eval_cause; eauto]. cbn [run_task]. unfold bind, data_apply. rewrite E. reflexivity. Qed.

(* ... a name f's table lacks ends in a diagnostic in f: it is never looked up in the includer *)
Lemma data_retry_unknown dbg st d a' e : ctx_eval st (de_arg d) = EvErr a' e ->
  run_task dbg st (DataTask d false) = Ret (Some Trivial) (push_error_in st (de_file d) (de_line d) (de_col d) (KApply AEval)).
Proof. intros E. cbn [run_task]. unfold bind, data_apply. rewrite E. destruct e; reflexivity. Qed.

(* the retry in the includer is the last one: a name still unvalued there is a diagnostic (one level only) *)
Lemma data_retry_includer_deferred dbg st d a' ch c : ctx_eval st (de_arg d) = EvOk a' (EvalModel.Deferred ch c) ->
  run_task dbg st (DataTask d true) =
  Ret (Some Trivial) (push_error_in st (de_file d) (de_line d) (de_col d) (KApply AConstNotFound)).
Proof. intros E. cbn [run_task]. unfold bind, data_apply. rewrite E. reflexivity. Qed.

(* `.du32 x;` in an open file: the three outcomes of the statement itself, by the file's own table *)
Lemma use_now dbg st l c k x p ps t s v : path_stack st = p :: ps -> locals st = Some t -> active st = Active s ->
  has_remaining dbg s (dk_size k) = SOk true -> is_register x = false -> tbl_get t x = Some (Some v) ->
  ((0 <=? v)%Z && (v <=? dk_max k)%Z = true) ->
  dir_data dbg st l c k [AIdent x] =
  (let d := mkDE k (curr_name st) l c (curr_addr s) (AConst v) in
   do r, st1 <- write_data dbg st d (le_n (dk_size k) (Z.to_N v));
   match r with
   | None => Ret None st1
   | Some _ =>            (* the write was refused (diagnostic pushed): placeholder and retry as for any failed statement *)
       do w, st2 <- write_data dbg st1 d (padding (dk_size k));
       match w with Some lv => Ret (Some lv) st2 | None => do _, st3 <- add_task st2 (DataTask d false) RLocal; Ret None st3 end
   end).
Proof. intros P L A HR R T RG. unfold dir_data. rewrite A, HR. cbn [arity_check List.length Nat.eqb].
  unfold bind at 1. unfold data_apply. rewrite (ctx_eval_reads_local _ _ _ _ _ P L). cbn [de_arg evaluate_mut].
  fold is_register. rewrite R. cbn [negb]. unfold lookup_of. rewrite T. cbn [de_kind]. rewrite RG.
  unfold de_set_arg. cbn [de_kind de_file de_line de_col de_addr]. cbv zeta. unfold bind at 1 3.
  destruct (write_data _ _ _ _) as [w st1| |]; [|reflexivity|reflexivity]. destruct w; reflexivity. Qed.

Lemma use_later dbg st l c k x p ps t s : path_stack st = p :: ps -> locals st = Some t -> active st = Active s ->
  has_remaining dbg s (dk_size k) = SOk true -> is_register x = false ->
  tbl_get t x = None \/ tbl_get t x = Some None ->
  dir_data dbg st l c k [AIdent x] =
  (let d := mkDE k (curr_name st) l c (curr_addr s) (AIdent x) in
   do w, st2 <- write_data dbg st d (padding (dk_size k));
   match w with Some lv => Ret (Some lv) st2 | None => do _, st3 <- add_task st2 (DataTask d false) RLocal; Ret None st3 end).
Proof. intros P L A HR R T. unfold dir_data. rewrite A, HR. cbn [arity_check List.length Nat.eqb].
  unfold bind at 1. unfold data_apply. rewrite (ctx_eval_reads_local _ _ _ _ _ P L). cbn [de_arg evaluate_mut].
  fold is_register. rewrite R. cbn [negb]. unfold lookup_of.
  destruct T as [T|T]; rewrite T; reflexivity. Qed.

(* the retry of `.du32 x;` at the end of its file / in the includer (any state whose evaluation table is t) *)
Definition eval_table (st : state) : option table := match path_stack st with [] => Some (globals st) | _ => locals st end.

Lemma ctx_eval_ident st x t : eval_table st = Some t -> is_register x = false ->
  ctx_eval st (AIdent x) =
  match tbl_get t x with
  | None => EvErr (AIdent x) (EENoVar x)
  | Some None => EvOk (AIdent x) (EvalModel.Deferred false x)
  | Some (Some v) => EvOk (AConst v) (EvalModel.Complete true)
  end.
Proof. unfold eval_table, ctx_eval, ctx_lookup, eval_realm, get_constant. cbn [evaluate_mut]. fold is_register. intros E R. rewrite R. cbn [negb].
  destruct (path_stack st); cbn [realm_table]; [injection E as E|]; rewrite E; unfold lookup_of; destruct (tbl_get t x) as [[v|]|]; reflexivity. Qed.

Lemma use_retry dbg st d x t g : de_arg d = AIdent x -> eval_table st = Some t -> is_register x = false ->
  run_task dbg st (DataTask d g) =
  match tbl_get t x with
  | None => Ret (Some Trivial) (push_error_in st (de_file d) (de_line d) (de_col d) (KApply AEval))
  | Some None =>
      if g then Ret (Some Trivial) (push_error_in st (de_file d) (de_line d) (de_col d) (KApply AConstNotFound))
      else Ret None (set_global_tasks st (global_tasks st ++ [DataTask d true]))
  | Some (Some v) =>
      if (0 <=? v)%Z && (v <=? dk_max (de_kind d))%Z then
        do r, st1 <- write_data dbg st (de_set_arg d (AConst v)) (le_n (dk_size (de_kind d)) (Z.to_N v));
        Ret (match r with None => None | Some lv => Some lv end) st1
      else Ret (Some Trivial) (push_error_in st (de_file d) (de_line d) (de_col d) (KApply ADataRange))
  end.
Proof. intros A E R. cbn [run_task]. unfold bind at 1. unfold data_apply. rewrite A, (ctx_eval_ident _ _ _ E R).
  destruct (tbl_get t x) as [[v|]|].
  - destruct (_ && _); [|reflexivity]. unfold bind. destruct (write_data _ _ _ _) as [w st1| |]; [|reflexivity|reflexivity].
    destruct w; reflexivity.
  - destruct g; [reflexivity|]. unfold de_set_arg. rewrite <- A. destruct d; reflexivity.
  - reflexivity.
Qed.

(* instructions read through the same function: their evaluator depends on the open file's table only *)
Lemma instr_ev_same_table st1 st2 a p1 ps1 p2 ps2 : path_stack st1 = p1 :: ps1 -> path_stack st2 = p2 :: ps2 ->
  locals st1 = locals st2 -> instr_ev st1 a = instr_ev st2 a /\ ctx_eval_panics st1 a = ctx_eval_panics st2 a.
Proof. intros P1 P2 L. unfold instr_ev, ctx_eval_panics. rewrite (ctx_eval_same_table st1 st2 a _ _ _ _ P1 P2 L). split; reflexivity. Qed.
