(* C14, link of the scope oracle to the Context model, part 1: the rendered text and the oracle's expansion.
   - file_seps_ok / show_file_parse: the text ScopeText.show_file writes for a list of oracle statements is in the separator
     language of C09 and parse_source gives back exactly the statements `ev_of` (C09's character-level round trip);
   - expand_S / goL: the oracle's expansion as a list recursion; counters only grow; `.global` / `.export` statements appear
     as IGlobal / IExport items (so the names a text hands up are counted by ScopeSpec.ups);
   - resolve_plain: for plain file names in one directory the model's resolve_path is the identity on the included name.
   Proof file (no model definitions). *)
From Coq Require Import ZArith NArith List Bool Lia.
From Trion Require Import Text.Types Text.Render Text.ShowSpec.
From Trion Require Text.ParseModel Asm.LayoutText.
From Trion Require Import Asm.CtxModel Asm.ScopeProofs Asm.ScopeIso Asm.ScopeText.
From Trion Require Asm.ScopeSpec.
Import ListNotations.

Module SP := ScopeSpec.

(* ------------------------------------------------------------------ the text *)
Lemma white_nil : white []. Proof. constructor. Qed.
Lemma white_32 : white [32%N]. Proof. repeat constructor. Qed.
Lemma white_10 : white [10%N]. Proof. repeat constructor. Qed.
Lemma sep_nil : separator []. Proof. apply Sep_ws, white_nil. Qed.
Lemma sep_32 : separator [32%N]. Proof. apply Sep_ws, white_32. Qed.
Lemma sep_10 : separator [10%N]. Proof. apply Sep_ws, white_10. Qed.

Lemma render_stmts_cons e l : render_stmts (e :: l) = render_stmt e ++ render_stmts l.
Proof. reflexivity. Qed.

Lemma seps_ok_from s0 : separator s0 -> forall body,
  seps_ok (render_stmts (map ev_of body)) (s0 :: flat_map (fun s => inner_seps s ++ [[10%N]]) body).
Proof.
  intros S0 body. revert s0 S0. induction body as [|s r IH]; intros s0 S0.
  - cbn. apply ESep. exact S0.
  - cbn [map flat_map]. rewrite render_stmts_cons.
    specialize (IH [10%N] sep_10).
    destruct s; cbn [ev_of render_stmt render_list render app inner_seps Nat.ltb Nat.leb prec];
      cbn [seps_ok hd tl app show show_tok follow_ok];
      repeat (split; [first [exact S0|exact sep_nil|exact sep_32|exact I|reflexivity]|]); exact IH.
Qed.

Lemma file_seps_ok body : seps_ok (render_stmts (map ev_of body)) (file_seps body).
Proof. apply seps_ok_from, sep_nil. Qed.

Lemma stmts_writable body : forallb stmt_ok body = true -> forallb writable_stmt (map ev_of body) = true.
Proof. induction body as [|s r IH]; [reflexivity|]. cbn [forallb map]. unfold stmt_ok at 1.
  intros H. apply andb_prop in H. destruct H as [A B]. rewrite A, IH by exact B. reflexivity. Qed.

Lemma show_file_parse body : forallb stmt_ok body = true ->
  exists els, parse_source (show_file body) = Parsed (map ParseModel.IOk els) None /\ map e_val els = map ev_of body.
Proof. intros W. apply LayoutText.text_parse_source; [apply stmts_writable; exact W|apply file_seps_ok]. Qed.

(* ------------------------------------------------------------------ the oracle's expansion as a list recursion *)
Section Go.
Variables (ex : SP.file -> N -> option (SP.tree * N)) (fs : list (str * SP.file)) (base : Z).

Fixpoint goL (l : SP.file) (k : N) : option (list SP.item * N) :=
  match l with
  | [] => Some ([], k)
  | s :: r =>
    let cont (i : SP.item) (k' : N) := match goL r k' with Some (is, k'') => Some (i :: is, k'') | None => None end in
    match s with
    | SP.SAddr _ => None
    | SP.SConst x v => cont (SP.IDef x v) k
    | SP.SLabel x => cont (SP.IDef x (base + 4 * Z.of_N k)) k
    | SP.SGlobal x => cont (SP.IGlobal x) k
    | SP.SImport x => cont (SP.IImport x) k
    | SP.SExport x => cont (SP.IExport x) k
    | SP.SUse x => cont (SP.IUse x k) (k + 1)%N
    | SP.SInclude f =>
      match SP.lookup_file fs f with
      | None => None
      | Some b => match ex b k with
                  | Some (t, k') => cont (SP.IChild t) k'
                  | None => None
                  end
      end
    end
  end.

Lemma goL_app : forall l1 l2 k its k', goL (l1 ++ l2) k = Some (its, k') ->
  exists i1 k1 i2, goL l1 k = Some (i1, k1) /\ goL l2 k1 = Some (i2, k') /\ its = i1 ++ i2.
Proof.
  induction l1 as [|s r IH]; intros l2 k its k' H.
  - exists [], k, its. cbn [app goL] in *. auto.
  - cbn [app goL] in H |- *.
    assert (T : forall i ka, match goL (r ++ l2) ka with Some (is, k'') => Some (i :: is, k'') | None => None end = Some (its, k') ->
                exists i1 k1 i2, match goL r ka with Some (is, k'') => Some (i :: is, k'') | None => None end = Some (i1, k1) /\
                                 goL l2 k1 = Some (i2, k') /\ its = i1 ++ i2).
    { intros i ka E. destruct (goL (r ++ l2) ka) as [[is k2]|] eqn:G; [|discriminate E]. inversion E; subst.
      destruct (IH _ _ _ _ G) as (i1 & k1 & i2 & A & B & C). rewrite A. exists (i :: i1), k1, i2. subst. auto. }
    destruct s; try discriminate H; try (apply T; exact H).
    destruct (SP.lookup_file fs f) as [b|]; [|discriminate H]. destruct (ex b k) as [[t k1]|]; [|discriminate H]. apply T; exact H.
Qed.

Hypothesis ex_mono : forall b k t k', ex b k = Some (t, k') -> (k <= k')%N.

Lemma goL_mono : forall l k its k', goL l k = Some (its, k') -> (k <= k')%N.
Proof.
  induction l as [|s r IH]; intros k its k' H; cbn [goL] in H.
  - inversion H; subst. lia.
  - destruct s; try discriminate H;
      try (destruct (goL r k) as [[is k2]|] eqn:G; [|discriminate H]; inversion H; subst; eapply IH; eauto).
    + destruct (SP.lookup_file fs f) as [b|]; [|discriminate H].
      destruct (ex b k) as [[t k1]|] eqn:E; [|discriminate H].
      destruct (goL r k1) as [[is k2]|] eqn:G; [|discriminate H]. inversion H; subst.
      apply ex_mono in E. apply IH in G. lia.
    + destruct (goL r (k + 1)%N) as [[is k2]|] eqn:G; [|discriminate H]. inversion H; subst. apply IH in G. lia.
Qed.
End Go.

Lemma expand_S d fs base body k :
  SP.expand (S d) fs base body k =
  match goL (SP.expand d fs base) fs base body k with Some (is, k') => Some (SP.Node is, k') | None => None end.
Proof. reflexivity. Qed.

Lemma expand_mono : forall d fs base body k t k', SP.expand d fs base body k = Some (t, k') -> (k <= k')%N.
Proof.
  induction d as [|d IH]; intros fs base body k t k' H; [discriminate H|].
  rewrite expand_S in H. destruct (goL _ _ _ _ _) as [[is k2]|] eqn:G; [|discriminate H]. inversion H; subst.
  eapply goL_mono; [|exact G]. intros b k0 t0 k0'. apply IH.
Qed.

(* handed-up names *)
Lemma goL_global ex fs base n : forall l k its k', goL ex fs base l k = Some (its, k') ->
  In (SP.SGlobal n) l \/ In (SP.SExport n) l -> In (SP.IGlobal n) its \/ In (SP.IExport n) its.
Proof.
  induction l as [|s r IH]; intros k its k' H I0; [destruct I0 as [[]|[]]|].
  assert (T : forall i k1 its1, goL ex fs base r k1 = Some (its1, k') -> its = i :: its1 ->
              (s = SP.SGlobal n -> i = SP.IGlobal n) -> (s = SP.SExport n -> i = SP.IExport n) ->
              In (SP.IGlobal n) its \/ In (SP.IExport n) its).
  { intros i k1 its1 G -> A B. destruct I0 as [[E|I1]|[E|I1]].
    - left. left. apply A. exact E.
    - destruct (IH _ _ _ G (or_introl I1)); [left|right]; right; assumption.
    - right. left. apply B. exact E.
    - destruct (IH _ _ _ G (or_intror I1)); [left|right]; right; assumption. }
  cbn [goL] in H. destruct s; try discriminate H.
  - destruct (goL ex fs base r k) as [[is k2]|] eqn:G; [|discriminate H]. inversion H; subst. eapply T; eauto; discriminate.
  - destruct (goL ex fs base r k) as [[is k2]|] eqn:G; [|discriminate H]. inversion H; subst. eapply T; eauto; discriminate.
  - destruct (goL ex fs base r k) as [[is k2]|] eqn:G; [|discriminate H]. inversion H; subst. eapply T; eauto; [congruence|discriminate].
  - destruct (goL ex fs base r k) as [[is k2]|] eqn:G; [|discriminate H]. inversion H; subst. eapply T; eauto; discriminate.
  - destruct (goL ex fs base r k) as [[is k2]|] eqn:G; [|discriminate H]. inversion H; subst. eapply T; eauto; [discriminate|congruence].
  - destruct (SP.lookup_file fs f) as [b|]; [|discriminate H].
    destruct (ex b k) as [[t k1]|]; [|discriminate H].
    destruct (goL ex fs base r k1) as [[is k2]|] eqn:G; [|discriminate H]. inversion H; subst. eapply T; eauto; discriminate.
  - destruct (goL ex fs base r (k + 1)%N) as [[is k2]|] eqn:G; [|discriminate H]. inversion H; subst. eapply T; eauto; discriminate.
Qed.

Lemma sp_eqb_refl x : SP.str_eqb x x = true.
Proof. induction x as [|a x IH]; cbn; [reflexivity|]. rewrite N.eqb_refl. exact IH. Qed.
Lemma sp_eqb_eq a : forall b, SP.str_eqb a b = true -> a = b.
Proof. induction a as [|x a IH]; intros [|y b] H; try discriminate H; [reflexivity|].
  cbn in H. apply andb_prop in H. destruct H as [E R]. apply N.eqb_eq in E. subst. f_equal. apply IH. exact R. Qed.

Lemma ups_pos its n : In (SP.IGlobal n) its \/ In (SP.IExport n) its -> SP.ups (SP.Node its) n <> 0%nat.
Proof.
  unfold SP.ups. cbn [SP.items_of]. intros H.
  assert (X : exists i, In i (filter (fun i => match i with SP.IExport y | SP.IGlobal y => SP.str_eqb n y | _ => false end) its)).
  { destruct H as [H|H]; eexists; apply filter_In; (split; [exact H|apply sp_eqb_refl]). }
  destruct X as (i & X). destruct (filter _ its); [destruct X|cbn; discriminate].
Qed.

(* the `.global` / `.export` statements of a statement list written by ev_of *)
Lemma ev_of_up s dn n : ev_of s = EDirective dn [AIdent n] -> up_dir dn -> s = SP.SGlobal n \/ s = SP.SExport n.
Proof.
  intros E U. destruct s; cbn [ev_of] in E; try discriminate E; inversion E; subst; clear E;
    try (left; reflexivity); try (right; reflexivity); exfalso; destruct U as [U|U]; vm_compute in U; discriminate U.
Qed.

Lemma hands_items els l n : map e_val els = map ev_of l -> hands (map ParseModel.IOk els) n ->
  In (SP.SGlobal n) l \/ In (SP.SExport n) l.
Proof.
  intros M (ln & c & dn & IN & U). apply in_map_iff in IN. destruct IN as (e & E & IN). inversion E; subst e. clear E.
  assert (X : In (EDirective dn [AIdent n]) (map ev_of l)).
  { rewrite <- M. apply in_map_iff. eexists. split; [|exact IN]. reflexivity. }
  apply in_map_iff in X. destruct X as (s & Es & Is).
  destruct (ev_of_up s dn n Es U) as [->| ->]; [left|right]; exact Is.
Qed.

Lemma file_hands_items data els tail n : parse_source data = Parsed (map ParseModel.IOk els) tail -> file_hands data n ->
  hands (map ParseModel.IOk els) n.
Proof. unfold file_hands. intros ->. trivial. Qed.

(* ------------------------------------------------------------------ files and paths *)
Lemma lookup_in files f b : SP.lookup_file files f = Some b -> In (f, b) files.
Proof.
  induction files as [|[n c] r IH]; [discriminate|]. cbn [SP.lookup_file].
  destruct (SP.str_eqb n f) eqn:E.
  - intros H; inversion H; subst. apply sp_eqb_eq in E. subst. left. reflexivity.
  - intros H. right. apply IH. exact H.
Qed.

Lemma plain_no_slash f : plain_name f = true -> f <> [] /\ has_slash f = false.
Proof.
  unfold plain_name. destruct f as [|c r]; [discriminate|]. intros H. split; [discriminate|].
  induction (c :: r) as [|x l IH]; [reflexivity|]. cbn [forallb has_slash] in *.
  apply andb_prop in H. destruct H as [A B]. unfold slash. destruct (x =? 47)%N; [discriminate A|]. cbn. apply IH. exact B.
Qed.

Lemma resolve_plain curr name : plain_name curr = true -> plain_name name = true -> resolve_path curr name = name.
Proof.
  intros Pc Pn. destruct (plain_no_slash _ Pc) as (Nc & Sc). destruct (plain_no_slash _ Pn) as (Nn & Sn).
  unfold resolve_path, path_parent. destruct curr as [|c cr]; [congruence|].
  assert (A : all_slashes (c :: cr) = false).
  { cbn [all_slashes forallb]. cbn [has_slash] in Sc. apply orb_false_elim in Sc. destruct Sc as [Sc _]. rewrite Sc. reflexivity. }
  rewrite A, Sc. unfold path_push. destruct name as [|x xr]; [congruence|].
  cbn [has_slash] in Sn. apply orb_false_elim in Sn. destruct Sn as [Sn _]. rewrite Sn. reflexivity.
Qed.
