(* C13 proofs: the segment invariant and what the segment operations of CtxSeg.v / CtxModel.v guarantee under it. *)
From Coq Require Import NArith PeanoNat List Bool Lia ZifyBool ZifyNat ZifyN.
From Trion Require Import Mem.MapModel Mem.MapProofs Asm.CtxModel.
Import ListNotations.
Open Scope N_scope.

(* ---------------------------------------------------------------- the invariant *)
(* active range inside its capacity, capacity inside the address space and below the next occupied address,
   and therefore disjoint from everything the map holds *)
Definition SegInv (m : mmap) (s : aseg) : Prop :=
  blen s <= s_max s /\ 0 < s_max s /\ s_base s + s_max s <= CtxSeg.U32 /\
  (forall g, In g m -> slast g < s_base s \/ s_base s + s_max s <= sfirst g).

Definition Inv (st : state) : Prop :=
  Rep (output st) /\ match active st with Inactive => True | Active s => SegInv (output st) s end.

Definition occupied (m : mmap) (a : N) : Prop := exists g, In g m /\ sfirst g <= a /\ a <= slast g.

Lemma len_eq {A} (l : list A) : CtxSeg.len l = MapModel.len l. Proof. reflexivity. Qed.
Lemma blen_set_buf s b : blen (set_buf s b) = MapModel.len b. Proof. reflexivity. Qed.

Lemma len_takeN {A} k (l : list A) : k <= MapModel.len l -> MapModel.len (MapModel.takeN k l) = k.
Proof.
  intros H. rewrite takeN_firstn. unfold MapModel.len in *. rewrite firstn_length. lia.
Qed.
Lemma len_dropN {A} k (l : list A) : MapModel.len (MapModel.dropN k l) = MapModel.len l - k.
Proof.
  rewrite dropN_skipn. unfold MapModel.len. rewrite skipn_length. lia.
Qed.

Lemma remaining_ok dbg m s : SegInv m s -> remaining dbg s = SOk (s_max s - blen s).
Proof. intros (H & _). unfold remaining. destruct (blen s <=? s_max s) eqn:E; [reflexivity|lia]. Qed.

(* ---------------------------------------------------------------- write *)
Lemma write_ok dbg m s data : SegInv m s -> blen s + MapModel.len data <= s_max s ->
  seg_write dbg s data = SOk (set_buf s (s_buf s ++ data)) /\ SegInv m (set_buf s (s_buf s ++ data)).
Proof.
  intros HI Hc. unfold seg_write. rewrite (remaining_ok dbg m s HI). cbn [sbind]. rewrite len_eq.
  destruct (MapModel.len data <=? s_max s - blen s) eqn:E; [|lia]. split; [reflexivity|].
  destruct HI as (H1 & H0 & H2 & H3). unfold SegInv. rewrite blen_set_buf, len_app. cbn [s_base s_max set_buf].
  unfold blen in *. rewrite len_eq in *. repeat split; auto; lia.
Qed.

Lemma write_overflow dbg m s data : SegInv m s -> s_max s < blen s + MapModel.len data ->
  seg_write dbg s data = SOverflow (MapModel.len data) (s_max s - blen s).
Proof.
  intros HI Hc. unfold seg_write. rewrite (remaining_ok dbg m s HI). cbn [sbind]. rewrite len_eq.
  destruct HI as (H1 & _). destruct (MapModel.len data <=? s_max s - blen s) eqn:E; [lia|reflexivity].
Qed.

(* ---------------------------------------------------------------- write_at *)
Definition splice (buf : list N) (start : N) (data : list N) : list N :=
  MapModel.takeN start buf ++ data ++ MapModel.dropN (start + MapModel.len data) buf.

Lemma dropN_all {A} k (l : list A) : MapModel.len l <= k -> MapModel.dropN k l = [].
Proof. intros H. unfold MapModel.dropN. destruct (MapModel.len l <=? k) eqn:E; [reflexivity|lia]. Qed.
Lemma takeN_all {A} k (l : list A) : MapModel.len l <= k -> MapModel.takeN k l = l.
Proof. intros H. unfold MapModel.takeN. destruct (MapModel.len l <=? k) eqn:E; [reflexivity|lia]. Qed.

Lemma takeN_app_exact {A} k (l1 l2 : list A) : MapModel.len l1 = k -> MapModel.takeN k (l1 ++ l2) = l1.
Proof.
  intros H. rewrite takeN_firstn. assert (L : N.to_nat k = length l1) by (unfold MapModel.len in H; lia).
  rewrite L, firstn_app, Nat.sub_diag, firstn_all. cbn [firstn]. apply app_nil_r.
Qed.

(* the assert of write_at in terms of the buffer offset *)
Lemma curr_addr_bound m s : SegInv m s -> curr_addr s <= s_base s + blen s.
Proof.
  intros (H1 & H0 & H2 & _). unfold curr_addr, sat_add32, CtxSeg.U32MAX, CtxSeg.U32, MapModel.U32MAX, MapModel.U32 in *.
  lia.
Qed.

Lemma write_at_ok dbg m s addr data : SegInv m s ->
  s_base s <= addr -> addr <= curr_addr s ->
  (addr - s_base s) + MapModel.len data <= s_max s ->
  let start := addr - s_base s in
  seg_write_at dbg s addr data = SOk (set_buf s (splice (s_buf s) start data)) /\
  SegInv m (set_buf s (splice (s_buf s) start data)) /\
  MapModel.takeN start (splice (s_buf s) start data) = MapModel.takeN start (s_buf s).
Proof.
  intros HI Hb Hc Hcap start. pose proof (curr_addr_bound m s HI) as Hcur.
  assert (Hs : start <= blen s) by (unfold start; lia).
  unfold seg_write_at. destruct ((s_base s <=? addr) && (addr <=? curr_addr s)) eqn:EA; [|lia]. cbn [negb].
  fold start. destruct (start <=? blen s) eqn:E1; [|lia]. cbn [sbind]. rewrite len_eq.
  assert (Htk : MapModel.len (MapModel.takeN start (s_buf s)) = start) by (apply len_takeN; exact Hs).
  destruct (blen s - start <? MapModel.len data) eqn:E2.
  - (* mixed overwrite and append *)
    rewrite (remaining_ok dbg m s HI). cbn [sbind].
    destruct (MapModel.len data - (blen s - start) <=? s_max s - blen s) eqn:E3; [|lia].
    assert (Hd : MapModel.dropN (start + MapModel.len data) (s_buf s) = []) by (apply dropN_all; unfold blen in *; rewrite len_eq in *; lia).
    unfold splice. rewrite Hd, app_nil_r. split; [reflexivity|]. split.
    + destruct HI as (H1 & H0 & H2 & H3). unfold SegInv. rewrite blen_set_buf, len_app, Htk. cbn [s_base s_max set_buf].
      repeat split; auto; lia.
    + apply takeN_app_exact. exact Htk.
  - destruct (start <? blen s) eqn:E3.
    + (* contained *)
      split; [reflexivity|]. split.
      * destruct HI as (H1 & H0 & H2 & H3). unfold SegInv, splice. rewrite blen_set_buf, !len_app, Htk, len_dropN. cbn [s_base s_max set_buf].
        unfold blen in *. rewrite len_eq in *. repeat split; auto; lia.
      * unfold splice. apply takeN_app_exact. exact Htk.
    + (* start = blen s, data = [] *)
      assert (Es : start = blen s) by lia.
      assert (Ed : data = []). { destruct data; [reflexivity|]. rewrite len_cons in E2. lia. }
      subst data. unfold splice. change (MapModel.len (@nil N)) with 0. rewrite N.add_0_r.
      assert (T1 : MapModel.takeN start (s_buf s) = s_buf s) by (apply takeN_all; unfold blen in *; rewrite len_eq in *; lia).
      assert (T2 : MapModel.dropN start (s_buf s) = []) by (apply dropN_all; unfold blen in *; rewrite len_eq in *; lia).
      rewrite T1, T2. cbn [app]. rewrite app_nil_r. split; [reflexivity|]. split; [|exact T1].
      destruct s as [b buf mx]. exact HI.
Qed.

Lemma write_at_overflow dbg m s addr data : SegInv m s ->
  s_base s <= addr -> addr <= curr_addr s ->
  s_max s < (addr - s_base s) + MapModel.len data ->
  exists need have, seg_write_at dbg s addr data = SOverflow need have.
Proof.
  intros HI Hb Hc Hcap. pose proof (curr_addr_bound m s HI) as Hcur. set (start := addr - s_base s) in *.
  assert (Hs : start <= blen s) by (unfold start; lia).
  unfold seg_write_at. destruct ((s_base s <=? addr) && (addr <=? curr_addr s)) eqn:EA; [|lia]. cbn [negb].
  fold start. destruct (start <=? blen s) eqn:E1; [|lia]. cbn [sbind]. rewrite len_eq.
  destruct HI as (H1 & H0 & H2 & H3).
  destruct (blen s - start <? MapModel.len data) eqn:E2; [|lia].
  unfold remaining. destruct (blen s <=? s_max s) eqn:E0; [|lia]. cbn [sbind].
  destruct (MapModel.len data - (blen s - start) <=? s_max s - blen s) eqn:E3; [lia|]. eauto.
Qed.

(* ---------------------------------------------------------------- covers *)
Lemma covers_spec dbg m s addr : SegInv m s ->
  covers dbg s addr = SOk ((s_base s <=? addr) && ((addr - s_base s <? blen s) || ((addr - s_base s =? blen s) && (blen s <? s_max s)))).
Proof.
  intros HI. unfold covers, has_remaining. rewrite (remaining_ok dbg m s HI). cbn [sbind].
  destruct HI as (H1 & _).
  destruct (addr <? s_base s) eqn:E0.
  - destruct (s_base s <=? addr) eqn:E; [lia|reflexivity].
  - destruct (s_base s <=? addr) eqn:E; [|lia]. cbn [andb].
    destruct (addr - s_base s <? blen s) eqn:E1; [reflexivity|]. cbn [orb].
    destruct (addr - s_base s =? blen s) eqn:E2; [|reflexivity]. cbn [andb].
    f_equal. lia.
Qed.

(* ---------------------------------------------------------------- selecting a segment *)
Lemma map_find_above dbg m addr : Rep m ->
  exists r, map_find dbg m addr Above = Ok r /\
    match r with
    | Some (f, l) => exists i x, geti m i = Some x /\ sfirst x = f /\ slast x = l /\ addr <= l /\
                                 forall j y, j < i -> geti m j = Some y -> slast y < addr
    | None => forall j y, geti m j = Some y -> slast y < addr
    end.
Proof.
  intros HR. unfold map_find. destruct (locate_ok dbg m addr Above HR) as (r & E & P). rewrite E. cbn [MapModel.bind].
  destruct r as [i|]; cbn [locate_post] in P.
  - destruct P as (x & G & Q1 & Q2). rewrite (vec_get_ok _ _ _ _ G). cbn [MapModel.bind].
    eexists. split; [reflexivity|]. exists i, x. auto.
  - eexists. split; [reflexivity|]. exact P.
Qed.

Lemma select_ok dbg st addr : Rep (output st) -> active st = Inactive -> addr < CtxSeg.U32 ->
  (occupied (output st) addr /\ select_segment dbg st addr = Ret (inr (SegOccupied addr)) st)
  \/ (~ occupied (output st) addr /\
      exists s, select_segment dbg st addr = Ret (inl true) (set_active st (Active s)) /\
                s_base s = addr /\ s_buf s = [] /\ SegInv (output st) s).
Proof.
  intros HR HA Hlt. unfold select_segment.
  destruct (map_find_above dbg (output st) addr HR) as (r & E & P). rewrite E.
  destruct r as [[f l]|]; cbn [option_map fst].
  - destruct P as (i & x & G & Ef & El & Q1 & Q2).
    destruct (f <=? addr) eqn:E1.
    + left. split; [|reflexivity]. exists x. split; [eapply geti_In; eauto|]. lia.
    + right. split.
      * intros (g & Hg & G1 & G2). destruct (In_geti _ _ Hg) as (j & Gj).
        destruct (N.lt_ge_cases j i) as [Lj|Lj].
        -- specialize (Q2 j g Lj Gj). lia.
        -- pose proof (Rep_mono _ HR i j x g Lj G Gj) as (M1 & M2). lia.
      * rewrite HA. unfold make_active. destruct (addr <=? f) eqn:E2; [|lia].
        eexists. split; [reflexivity|]. cbn [s_base s_buf]. repeat split; auto.
        -- unfold blen. cbn. lia.
        -- cbn [s_max]. lia.
        -- cbn [s_base s_max]. destruct (Rep_seg_ok _ HR _ _ G) as (S1 & S2 & S3).
           unfold CtxSeg.U32, MapModel.U32 in *. lia.
        -- intros g Hg. cbn [s_base s_max]. destruct (In_geti _ _ Hg) as (j & Gj).
           destruct (N.lt_ge_cases j i) as [Lj|Lj].
           ++ left. eauto.
           ++ right. pose proof (Rep_mono _ HR i j x g Lj G Gj) as (M1 & M2). lia.
  - right. split.
    + intros (g & Hg & G1 & G2). destruct (In_geti _ _ Hg) as (j & Gj). specialize (P j g Gj). lia.
    + rewrite HA. unfold make_active. eexists. split; [reflexivity|]. cbn [s_base s_buf]. repeat split; auto.
      * unfold blen. cbn. lia.
      * cbn [s_max]. unfold CtxSeg.U32MAX, CtxSeg.U32, MapModel.U32MAX, MapModel.U32 in *. lia.
      * cbn [s_base s_max]. unfold CtxSeg.U32MAX, CtxSeg.U32, MapModel.U32MAX, MapModel.U32 in *. lia.
      * intros g Hg. left. cbn [s_base]. destruct (In_geti _ _ Hg) as (j & Gj). eauto.
Qed.

(* ---------------------------------------------------------------- closing a segment *)
(* What MemoryMap::put guarantees for a write into FREE addresses that may be adjacent to existing segments
   (C15 proves it for the non-adjacent case only: C15_put_partial / put_insert_ok; the adjacent arms are covered
   by C15's correspondence stream).  Explicit hypothesis of the close / re-select theorems below. *)
Definition PutFresh : Prop :=
  forall dbg m a data, Rep m -> a + MapModel.len data <= MapModel.U32 ->
    (forall g, In g m -> slast g < a \/ a + MapModel.len data <= sfirst g) ->
    exists m', map_put dbg m a data = Ok (m', Some (MapModel.len data)) /\ Rep m' /\
      (forall x, occupied m' x <-> occupied m x \/ (a <= x /\ x < a + MapModel.len data)).

Lemma close_ok (HP : PutFresh) dbg st : Inv st ->
  exists st' b, close_segment dbg st = Ret (inl b) st' /\ Inv st' /\ active st' = Inactive /\
    (forall x, occupied (output st') x <->
       occupied (output st) x \/ match active st with
                                 | Active s => s_base s <= x /\ x < s_base s + blen s
                                 | Inactive => False
                                 end).
Proof.
  intros (HR & HA). unfold close_segment. destruct (active st) as [|s] eqn:EA.
  - exists st, false. split; [reflexivity|]. split; [split; [exact HR|rewrite EA; exact I]|]. split; [exact EA|].
    intros x. tauto.
  - destruct HA as (H1 & H0 & H2 & H3).
    destruct (HP dbg (output st) (s_base s) (s_buf s) HR) as (m' & E & HR' & Hocc).
    + unfold blen in H1. rewrite len_eq in H1. unfold CtxSeg.U32 in H2. lia.
    + intros g Hg. destruct (H3 g Hg) as [K|K]; [left; exact K|right]. unfold blen in H1. rewrite len_eq in H1. lia.
    + rewrite E. assert (Eq : (MapModel.len (s_buf s) =? blen s) = true) by (unfold blen, CtxSeg.len; apply N.eqb_refl). rewrite Eq.
      eexists. exists true. split; [reflexivity|]. split; [split; [exact HR'|exact I]|]. split; [reflexivity|].
      cbn [output set_active set_output]. exact Hocc.
Qed.

(* without the hypothesis: the region is separated from its neighbours by at least one free address *)
Lemma close_separated dbg st s : Inv st -> active st = Active s -> s_buf s <> [] ->
  (forall g, In g (output st) -> slast g + 1 < s_base s \/ s_base s + blen s < sfirst g) ->
  exists m', close_segment dbg st = Ret (inl true) (set_active (set_output st m') Inactive) /\ Rep m'.
Proof.
  intros (HR & HA) EA Hne Hsep. rewrite EA in HA. destruct HA as (H1 & H0 & H2 & H3).
  unfold close_segment. rewrite EA.
  assert (Hpos : 0 < MapModel.len (s_buf s)). { destruct (s_buf s); [congruence|rewrite len_cons; lia]. }
  assert (L1 : s_base s < MapModel.U32).
  { unfold blen in *. rewrite len_eq in *. unfold CtxSeg.U32 in *. lia. }
  assert (L2 : s_base s + MapModel.len (s_buf s) <= DictSpec.SPACE).
  { unfold blen in *. rewrite len_eq in *. unfold CtxSeg.U32, MapModel.U32, DictSpec.SPACE in *. lia. }
  destruct (put_insert_ok dbg (output st) (s_base s) (s_buf s) HR L1 Hne L2 Hsep) as (m' & E & HR' & _).
  rewrite E. assert (Eq : (MapModel.len (s_buf s) =? blen s) = true) by (unfold blen, CtxSeg.len; apply N.eqb_refl). rewrite Eq. eauto.
Qed.

(* ---------------------------------------------------------------- change_segment *)
Lemma change_refused_closed dbg st addr : Rep (output st) -> active st = Inactive -> addr < CtxSeg.U32 ->
  occupied (output st) addr -> change_segment dbg st addr = Ret (inr (SegOccupied addr)) st.
Proof.
  intros HR HA Hlt Hocc. unfold change_segment. rewrite HA.
  destruct (select_ok dbg st addr HR HA Hlt) as [(_ & E)|(N & _)]; [exact E|contradiction].
Qed.

Lemma change_refused_active (HP : PutFresh) dbg st s addr : Inv st -> active st = Active s -> addr < CtxSeg.U32 ->
  (occupied (output st) addr \/ (s_base s <= addr /\ addr < s_base s + blen s)) ->
  exists st', change_segment dbg st addr = Ret (inr (SegOccupied addr)) st' /\ active st' = Inactive /\
    forall x, occupied (output st') x <-> occupied (output st) x \/ (s_base s <= x /\ x < s_base s + blen s).
Proof.
  intros HI EA Hlt Hocc. unfold change_segment. rewrite EA.
  assert (Hne : (addr =? s_base s) && match s_buf s with [] => true | _ :: _ => false end = false).
  { destruct (addr =? s_base s) eqn:E; [|reflexivity]. destruct (s_buf s) eqn:Eb; [|reflexivity]. exfalso.
    destruct HI as (HR & HA). rewrite EA in HA. destruct HA as (H1 & H0 & H2 & H3).
    destruct Hocc as [(g & Hg & G1 & G2)|K].
    - destruct (H3 g Hg); lia.
    - unfold blen in K. rewrite Eb in K. cbn in K. lia. }
  rewrite Hne. destruct (close_ok HP dbg st HI) as (st' & b & E & (HR' & _) & HA' & Hocc'). rewrite E. cbn [bind].
  rewrite EA in Hocc'.
  destruct (select_ok dbg st' addr HR' HA' Hlt) as [(_ & E2)|(N & _)].
  - exists st'. split; [exact E2|]. split; [exact HA'|exact Hocc'].
  - exfalso. apply N. apply Hocc'. exact Hocc.
Qed.

Lemma change_ok_inactive dbg st addr : Rep (output st) -> active st = Inactive -> addr < CtxSeg.U32 ->
  ~ occupied (output st) addr ->
  exists s, change_segment dbg st addr = Ret (inl true) (set_active st (Active s)) /\
            s_base s = addr /\ s_buf s = [] /\ curr_addr s = addr /\ Inv (set_active st (Active s)).
Proof.
  intros HR HA Hlt Hfree. unfold change_segment. rewrite HA.
  destruct (select_ok dbg st addr HR HA Hlt) as [(O & _)|(_ & s & E & B & Bu & HI)]; [contradiction|].
  exists s. split; [exact E|]. split; [exact B|]. split; [exact Bu|]. split.
  - unfold curr_addr, blen. rewrite Bu, B. cbn. unfold sat_add32, MapModel.U32MAX, CtxSeg.U32, MapModel.U32 in *. lia.
  - split; [exact HR|exact HI].
Qed.
