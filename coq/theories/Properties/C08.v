(* C08 — An expression's value does not depend on when its symbols become known.
   Statements only; proofs in Expr/C08NoPanic.v and Expr/C08Sound.v.
   simplify / neutralize / evaluate are the models of src/asm/simplify/{mod,eval}.rs (after the fix: commits for
   F9, F10, F11); den64 rho e (Expr/Denote.v) is the checked 64-bit value of e when the identifiers have the values rho. *)
From Coq Require Import ZArith List.
From Trion Require Import Text.Types Expr.I64 Expr.SimplifyModel Expr.EvalModel Expr.Denote Expr.C08NoPanic Expr.C08Sound.
Import ListNotations.
Open Scope Z_scope.

(* no unreachable!(), assert! or unwrap is reached, for every tree, table and register predicate *)
Theorem C08_no_panic : forall e,
  (forall site, simplify e <> Panic site) /\ (forall site, neutralize e <> Panic site) /\
  (forall lookup is_register site, evaluate lookup is_register e <> Panic site).
Proof. exact no_panic. Qed.

(* simplify first, substitute later = substitute first, whenever both have a value; every rewrite family is covered:
   neutral elements, +/- chain merge, * merge, / merge, & | ^ merges, nested %, negation push-down *)
Theorem C08_simplify : forall rho e e' changed v1 v2,
  simplify e = Ok (e', changed) -> den64 rho e' = Some v1 -> den64 rho e = Some v2 -> v1 = v2.
Proof. exact simplify_sound. Qed.

Theorem C08_neutralize : forall rho e e' changed v1 v2,
  neutralize e = Ok (e', changed) -> den64 rho e' = Some v1 -> den64 rho e = Some v2 -> v1 = v2.
Proof. exact neutralize_sound. Qed.

(* partial evaluation under a table that agrees with rho on the names it already has a value for *)
Theorem C08_evaluate : forall rho lookup is_register e e1 ev v1 v2, compat rho lookup is_register ->
  evaluate lookup is_register e = Ok (e1, ev) -> den64 rho e1 = Some v1 -> den64 rho e = Some v2 -> v1 = v2.
Proof. exact evaluate_sound. Qed.

(* staged evaluation (some names deferred, then defined, the partially evaluated tree evaluated again) returns the
   value of the original expression *)
Theorem C08_staged : forall rho lookup1 lookup2 is_register e e1 ev1 ev2 v1 v2,
  compat rho lookup1 is_register -> compat rho lookup2 is_register ->
  evaluate lookup1 is_register e = Ok (e1, ev1) -> evaluate lookup2 is_register e1 = Ok (AConst v1, ev2) ->
  den64 rho e = Some v2 -> v1 = v2.
Proof. exact staged_sound. Qed.

(* and so does direct evaluation: hence staged = direct whenever the expression has a value *)
Theorem C08_direct : forall rho lookup is_register e ev v1 v2, compat rho lookup is_register ->
  evaluate lookup is_register e = Ok (AConst v1, ev) -> den64 rho e = Some v2 -> v1 = v2.
Proof. exact direct_sound. Qed.

(* non-vacuity: the three repaired defects on the model, a merge through a negation, a division merge *)
Theorem C08_examples :
  let x := AIdent [88%N] in
  let rho := fun s : str => match s with [88%N] => Some 5 | _ => None end in
     simplify (AAnd (AAnd x (AConst 3)) (AConst 5)) = Ok (AAnd x (AConst 1), true)
  /\ simplify (AAdd (AMod x (AConst 1)) (AConst 7)) = Ok (AAdd (AMod x (AConst 1)) (AConst 7), false)
  /\ den64 rho (AAdd (AMod x (AConst 1)) (AConst 7)) = Some 7
  /\ simplify (AMod (AMod x (ASub (AConst 0) (AConst 5))) (AConst 3)) = Ok (AMod (AMod x (AConst (-5))) (AConst 3), true)
  /\ simplify (ASub (AConst 10) (ASub (AConst 3) (ANeg x))) = Ok (ASub (AConst 7) x, true)
  /\ den64 rho (ASub (AConst 10) (ASub (AConst 3) (ANeg x))) = Some 2 /\ den64 rho (ASub (AConst 7) x) = Some 2
  /\ simplify (ADiv (ADiv x (AConst 2)) (AConst 3)) = Ok (ADiv x (AConst 6), true).
Proof. vm_compute. repeat split; reflexivity. Qed.
